#!/bin/bash
# usage: eval_seed.sh <seed-id> <property> <outdir-with-patch.diff-and-demo> [extra props to run...]
# 1. confirms in a scratch worktree: suite passes with the patch; demo passes without / fails with the patch
# 2. runs /verif/check for the property (and extra props) against /repo with the patch applied, then reverts
set -u
ID=$1; PROP=$2; OUT=$3; shift 3
W=/tmp/ev_$ID
DEST=/verif/seeded/$ID
mkdir -p $DEST
git -C /repo worktree remove --force $W 2>/dev/null
git -C /repo worktree add -q --detach $W HEAD || exit 2
DEMO=seed_demo.rs
if [ -f $OUT/seed_demo.rs ]; then cp $OUT/seed_demo.rs $W/rust/core/tests/seed_demo.rs; fi
cd $W/rust/core
if [ -f $OUT/demo.diff ]; then (cd $W && git apply $OUT/demo.diff) ; fi
if [ -f $OUT/seed_demo.rs ]; then DEMOCMD="cargo test --offline --test seed_demo"; else DEMOCMD="cargo test --offline --lib seed_demo"; fi
$DEMOCMD > $DEST/demo_without_patch.log 2>&1; R_DEMO_BEFORE=$?
(cd $W && git apply $OUT/patch.diff) || { echo "patch does not apply"; exit 2; }
cargo test --offline --no-fail-fast > $DEST/suite_with_patch.log 2>&1
PASSED=$(grep -h "^test result" $DEST/suite_with_patch.log | awk '{s+=$4} END {print s}')
FAILED=$(grep -h "^test .* FAILED" $DEST/suite_with_patch.log | grep -v "unicode_reduce_fill0\|text_normalize_pad0\|trigrams_basic\|seed_demo" | wc -l)
$DEMOCMD > $DEST/demo_with_patch.log 2>&1; R_DEMO_AFTER=$?
cd /verif
git -C /repo worktree remove --force $W
echo "demo without patch rc=$R_DEMO_BEFORE (want 0); demo with patch rc=$R_DEMO_AFTER (want !=0); suite with patch: passed=$PASSED unexpected failures=$FAILED"
cp $OUT/patch.diff $DEST/patch.diff
[ -f $OUT/seed_demo.rs ] && cp $OUT/seed_demo.rs $DEST/
[ -f $OUT/demo.diff ] && cp $OUT/demo.diff $DEST/
[ -f $OUT/notes.md ] && cp $OUT/notes.md $DEST/
# run our checks against the mutated /repo
git -C /repo apply $OUT/patch.diff || { echo "patch does not apply to /repo"; exit 2; }
RES=""
for P in $PROP "$@"; do
  ./check $P quick > $DEST/check_$P.log 2>&1; RC=$?
  V=$(grep -c "^VIOLATION" $DEST/check_$P.log)
  RES="$RES $P:rc=$RC:violations=$V"
  grep "^VIOLATION" $DEST/check_$P.log | head -2
  tail -1 $DEST/check_$P.log
  # keep the first replay as documentation
  RP=$(grep -m1 "^VIOLATION" $DEST/check_$P.log | sed 's/.*replay=\([^ ]*\).*/\1/')
  [ -n "$RP" ] && [ -f "$RP" ] && head -c 20000 "$RP" > $DEST/replay_$P.txt
done
git -C /repo checkout -- . 
(cd /verif/harness && cargo build > /dev/null 2>&1)
echo "RESULT $ID demo_before=$R_DEMO_BEFORE demo_after=$R_DEMO_AFTER suite_passed=$PASSED suite_unexpected_fail=$FAILED checks:$RES"
