#!/bin/bash
# usage: eval_seed.sh <seed-id> <property> <outdir-with-patch.diff-and-demo> [extra props to run...]
# 1. confirms in a scratch worktree: suite passes with the patch; demo passes without / fails with the patch
# 2. runs /verif/check for the property (and extra props) against /repo with the patch applied, then reverts
set -u
ID=$1; PROP=$2; OUT=$3; shift 3
W=/tmp/ev_$ID
DEST=/verif/seeded/$ID
mkdir -p $DEST
git -C /repo worktree remove --force $W 2>/dev/null
git -C /repo worktree add -q --detach $W HEAD || exit 2
DEMO=seed_demo.rs
if [ -f $OUT/seed_demo.rs ]; then cp $OUT/seed_demo.rs $W/rust/core/tests/seed_demo.rs; fi
cd $W/rust/core
if [ -f $OUT/demo.diff ]; then (cd $W && git apply $OUT/demo.diff) ; fi
if [ -f $OUT/seed_demo.rs ]; then DEMOCMD="cargo test --offline --test seed_demo"; else DEMOCMD="cargo test --offline --lib seed_demo"; fi
$DEMOCMD > $DEST/demo_without_patch.log 2>&1; R_DEMO_BEFORE=$?
(cd $W && git apply $OUT/patch.diff) || { echo "patch does not apply"; exit 2; }
cargo test --offline --no-fail-fast > $DEST/suite_with_patch.log 2>&1
PASSED=$(grep -h "^test result" $DEST/suite_with_patch.log | awk '{s+=$4} END {print s}')
$DEMOCMD > $DEST/demo_with_patch.log 2>&1; R_DEMO_AFTER=$?
grep -h "^test .* FAILED" $DEST/demo_with_patch.log | awk '{print $2}' > $DEST/.demo_failed
FAILED=$(grep -h "^test .* FAILED" $DEST/suite_with_patch.log | grep -v "unicode_reduce_fill0\|text_normalize_pad0\|trigrams_basic\|seed_demo" | awk '{print $2}' | grep -v -x -F -f $DEST/.demo_failed | wc -l); rm -f $DEST/.demo_failed
cd /verif
git -C /repo worktree remove --force $W
echo "demo without patch rc=$R_DEMO_BEFORE (want 0); demo with patch rc=$R_DEMO_AFTER (want !=0); suite with patch: passed=$PASSED unexpected failures=$FAILED"
cp $OUT/patch.diff $DEST/patch.diff
[ -f $OUT/seed_demo.rs ] && cp $OUT/seed_demo.rs $DEST/
[ -f $OUT/demo.diff ] && cp $OUT/demo.diff $DEST/
[ -f $OUT/notes.md ] && cp $OUT/notes.md $DEST/
# run our checks against the mutated /repo
git -C /repo apply $OUT/patch.diff || { echo "patch does not apply to /repo"; exit 2; }
RES=""
for P in $PROP "$@"; do
  ./check $P quick > $DEST/check_$P.log 2>&1; RC=$?
  V=$(grep -c "^VIOLATION" $DEST/check_$P.log)
  RES="$RES $P:rc=$RC:violations=$V"
  grep "^VIOLATION" $DEST/check_$P.log | head -2
  tail -1 $DEST/check_$P.log
  # keep the first replay as documentation
  RP=$(grep -m1 "^VIOLATION" $DEST/check_$P.log | sed 's/.*replay=\([^ ]*\).*/\1/')
  [ -n "$RP" ] && [ -f "$RP" ] && head -c 20000 "$RP" > $DEST/replay_$P.txt
done
git -C /repo checkout -- . && git -C /repo clean -fdq rust 
(cd /verif/harness && cargo build > /dev/null 2>&1)
python3 - "$ID" "$PROP" "$R_DEMO_BEFORE" "$R_DEMO_AFTER" "$PASSED" "$FAILED" "$RES" <<'PY'
import json, sys, os
sid, prop, db, da, passed, failed, res = sys.argv[1:8]
d = f"/verif/seeded/{sid}"
notes = open(os.path.join(d, "notes.md")).read() if os.path.exists(os.path.join(d, "notes.md")) else ""
checks = {}
for tok in res.split():
    p, rc, v = tok.split(":")
    checks[p] = {"exit": int(rc.split("=")[1]), "violation_lines": int(v.split("=")[1])}
meta = {"id": sid, "breaks_property": prop, "source": "independent sub-agent given only the property text and a scratch worktree",
        "needs_to_manifest": notes[:1500],
        "confirmed_in_scratch_worktree": {"demo_without_patch_exit": int(db), "demo_with_patch_exit": int(da), "suite_with_patch_passed": int(passed or 0), "suite_with_patch_unexpected_failures": int(failed or 0),
                                          "commands": ["cargo test --offline --test seed_demo (without / with patch)", "cargo test --offline --no-fail-fast (with patch)"]},
        "our_checks_with_patch_applied_to_repo": checks,
        "detected_by": [p for p, c in checks.items() if c["exit"] != 0]}
json.dump(meta, open(os.path.join(d, "meta.json"), "w"), indent=1, ensure_ascii=False)
PY
echo "RESULT $ID demo_before=$R_DEMO_BEFORE demo_after=$R_DEMO_AFTER suite_passed=$PASSED suite_unexpected_fail=$FAILED checks:$RES"
