#!/bin/bash
# Regression test of the checker itself: apply every seeded change of /verif/seeded/*/patch.diff to /repo in turn,
# run the checks recorded as detecting it (meta.json: detected_by) and require a VIOLATION; revert after each.
# Usage: tools/selftest.sh [id ...]     (must not run concurrently with other checks: it edits /repo's working tree)
cd /verif
IDS="$@"; [ -z "$IDS" ] && IDS=$(ls seeded)
FAIL=0
git -C /repo diff --quiet || { echo "selftest: /repo has local changes, refusing"; exit 2; }
for ID in $IDS; do
  M=seeded/$ID/meta.json; [ -f $M ] || continue
  PROPS=$(python3 -c "import json; print(' '.join(json.load(open('$M'))['detected_by']))")
  git -C /repo apply /verif/seeded/$ID/patch.diff || { echo "$ID: patch does not apply"; FAIL=1; continue; }
  OK=1
  for P in $PROPS; do
    ./check $P quick > build/selftest_${ID}_${P}.log 2>&1; RC=$?
    if [ $RC -eq 0 ] || ! grep -q "^VIOLATION property=$P" build/selftest_${ID}_${P}.log; then echo "$ID: NOT detected by $P any more"; OK=0; FAIL=1; fi
  done
  git -C /repo checkout -- . && git -C /repo clean -fdq rust
  [ $OK -eq 1 ] && echo "$ID: detected by $PROPS"
done
(cd harness && cargo build > /dev/null 2>&1)
exit $FAIL
