#!/bin/bash
# Like selftest.sh, but each seeded change is only required to be reported by ITS OWN property's quick check.
# Usage: tools/selftest_own.sh [id ...]   (edits /repo's working tree: run alone)
cd /verif
IDS="$@"; [ -z "$IDS" ] && IDS=$(ls seeded)
FAIL=0
git -C /repo diff --quiet || { echo "selftest: /repo has local changes, refusing"; exit 2; }
for ID in $IDS; do
  [ -f seeded/$ID/patch.diff ] || continue
  P=${ID%%-*}
  git -C /repo apply /verif/seeded/$ID/patch.diff || { echo "$ID: patch does not apply"; FAIL=1; continue; }
  ./check $P quick > build/selfown_${ID}.log 2>&1; RC=$?
  git -C /repo checkout -- . && git -C /repo clean -fdq rust
  if [ $RC -eq 0 ] || ! grep -q "^VIOLATION property=$P" build/selfown_${ID}.log; then echo "$ID: NOT reported by $P"; FAIL=1;
  else echo "$ID: reported by $P ($(grep -c '^VIOLATION' build/selfown_${ID}.log) lines$(grep -q no-failing-input-found build/selfown_${ID}.log && echo ', no-failing-input-found'))"; fi
done
(cd harness && cargo build > /dev/null 2>&1)
exit $FAIL
