#!/usr/bin/env python3
"""Rebuild proofs.json from the property-level theorem files lean/LucidProofs/C*.lean.
A theorem named `Cxx_...` (namespace Lucid) belongs to property Cxx whatever file states it; its docstring is
the plain-words meaning. Extra per-property lists (not_proved, assumptions, extra theorems from lemma files) come
from manifest_notes.json."""
import json, os, re, glob
V = os.path.dirname(os.path.dirname(os.path.abspath(__file__)))
notes = json.load(open(os.path.join(V, "manifest_notes.json")))
root_mods = set(re.findall(r"^import (LucidProofs\.\S+)", open(os.path.join(V, "lean/LucidProofs.lean")).read(), re.M))
out = {}
for path in sorted(glob.glob(os.path.join(V, "lean/LucidProofs/C*.lean")) + glob.glob(os.path.join(V, "lean/LucidProofs/API.lean"))):
    mod = "LucidProofs." + os.path.basename(path)[:-5]
    if mod not in root_mods:
        continue
    src = open(path).read()
    for m in re.finditer(r"(?:/--(.*?)-/\s*)?(?:@\[[^\]]*\]\s*)?theorem\s+(C\d\d\w*)", src, re.S):
        doc, name = m.group(1), m.group(2)
        # the docstring must directly precede the theorem
        pid = name[:3]
        says = " ".join((doc or "").split())[:400]
        out.setdefault(pid, {"theorems": []})["theorems"].append({"name": "Lucid." + name, "module": mod, "says": says})
for pid, n in notes["props"].items():
    e = out.setdefault(pid, {"theorems": []})
    for t in n.get("extra_theorems", []):
        if t["module"] in root_mods:
            e["theorems"].insert(0, t)
    e["not_proved"] = n.get("not_proved", [])
    e["assumptions"] = n.get("assumptions", [])
out = {k: v for k, v in out.items() if v["theorems"]}
json.dump(out, open(os.path.join(V, "proofs.json"), "w"), indent=1, ensure_ascii=False)
print({k: len(v["theorems"]) for k, v in sorted(out.items())})
