#!/bin/bash
# usage: eval_harmless.sh <dir-with-NN.diff> [props...]   — applies each behaviour-preserving patch to /repo, runs the
# quick checks, reverts; prints which checks raised an alarm (these are false alarms or translator brittleness)
D=$1; shift
PROPS=${@:-C01 C02 C03 C04 C05 C06 C07 C08 C09 C10 C11 C12 C13 C14 C15 C16 C17 C18 C19 C20}
mkdir -p /verif/build/harmless
for f in $D/*.diff; do
  k=$(basename $f .diff)
  git -C /repo apply $f || { echo "$k: patch does not apply"; continue; }
  RES=""
  for P in $PROPS; do
    /verif/check $P quick > /verif/build/harmless/${k}_$P.log 2>&1; RC=$?
    [ $RC -ne 0 ] && RES="$RES $P($(grep -m1 -o 'no-failing-input-found\|replay=[^ ]*' /verif/build/harmless/${k}_$P.log | sed 's|replay=/verif/replays/||'))"
  done
  git -C /repo checkout -- . && git -C /repo clean -fdq rust
  echo "$k: alarms:${RES:- none}   [$(cat $D/$k.txt | cut -c1-100)]"
done
(cd /verif/harness && cargo build 2>&1 | tail -1)
