#!/usr/bin/env python3
"""Regenerate MANIFEST.json from proofs.json + manifest_notes.json (claimed = properties with >= 1 theorem)."""
import json, os
V = os.path.dirname(os.path.dirname(os.path.abspath(__file__)))
props = [json.loads(l) for l in open(os.path.join(V, "properties.jsonl")) if l.strip()]
proofs = json.load(open(os.path.join(V, "proofs.json")))
notes = json.load(open(os.path.join(V, "manifest_notes.json")))
hook_commits = notes["hook_commits"]
checks, na = [], []
for p in props:
    pid = p["id"]
    pr = proofs.get(pid)
    n = notes["props"].get(pid, {})
    if pr and pr.get("theorems") and not n.get("not_applicable"):
        checks.append({
            "property_id": pid,
            "quick_cmd": f"./check {pid} quick",
            "thorough_cmd": f"./check {pid} thorough",
            "evidence_file": f"/verif/evidence/{pid}.json",
            "replay_cmd_template": f"./check {pid} --replay {{path}}",
            "engine": "lean4-proof+correspondence",
            "level_claimed": {"category": "proof", "text": n.get("level_text", ""), "design_ref": n.get("design_ref", "DESIGN.md §7 " + pid)},
            "level_note": n.get("level_note", ""),
            "technique": n.get("technique", "Lean 4 theorems over an executable model of rust/core; model tied to the source by a table/constant translator and a differential correspondence run; implementation-side probe for replays"),
        })
    else:
        na.append({"property_id": pid, "reason": n.get("not_applicable", "theorems for this property are not yet written in this round; correspondence and probe exist (./check " + pid + " quick) but the property is not claimed until a theorem decides it")})
m = {
    "version": 1,
    "setup_cmd": "cd /verif && python3 tools/gen_tables.py && python3 tools/gen_canon.py && (cd harness && cargo build && cargo build --release) && mkdir -p build && ./harness/target/debug/lucid-harness --mode unicode --unicode build/unicode.tbl --out build/unicode_report.json --tier quick; python3 tools/gen_unicode.py && (cd lean && lake build)",
    "hooks": {"guard": "lucid_suggest_verif", "enable": "rustc cfg: RUSTFLAGS/--cfg lucid_suggest_verif, set in /verif/harness/.cargo/config.toml (build.rustflags) so that the harness builds /repo/rust/core with the hooks on",
              "baseline_off_cmd": "cd /repo/rust/core && (cargo nextest run --workspace --no-fail-fast --offline || cargo test --workspace --no-fail-fast --offline)",
              "source_commits": hook_commits, "add_only": True},
    "engines": [{"name": "lean4-proof+correspondence", "path": "/verif/check", "serves_properties": [c["property_id"] for c in checks],
                 "kind_free_text": "Lean 4.33 theorems (lean/LucidProofs) about a hand-written executable model (lean/LucidModel) whose tables/constants are regenerated from the Rust source each run (tools/gen_tables.py) and which is compared with the real code in-process by a Rust harness (harness/) through a compiled Lean driver (lean/Driver.lean)"}],
    "checks": checks,
    "not_applicable": na,
    "notes": notes.get("notes", ""),
}
json.dump(m, open(os.path.join(V, "MANIFEST.json"), "w"), indent=1)
print("claimed:", [c["property_id"] for c in checks], "not claimed:", [x["property_id"] for x in na])
