#!/usr/bin/env python3
"""Translator G: regenerate the data-dependent part of the Lean model from /repo's Rust source.

Writes lean/LucidModel/Gen/{Consts,Langs,Sites}.lean and build/gen_manifest.json.
Files are rewritten only when their content changes. Fails (exit 2, message on stderr, and a JSON
error record) when a code shape it relies on is gone: the tie to the source is then broken and the
caller reports it; it never guesses.
"""
import json, os, re, sys, hashlib
from fractions import Fraction

REPO = os.environ.get("VERIF_REPO", "/repo")
CORE = os.path.join(REPO, "rust/core/src")
VERIF = os.path.dirname(os.path.dirname(os.path.abspath(__file__)))
GEN = os.environ.get("VERIF_GEN_OUT") or os.path.join(VERIF, "lean/LucidModel/Gen")
BUILD = os.environ.get("VERIF_GEN_BUILD") or os.path.join(VERIF, "build")


class TieBroken(Exception):
    pass


def need(cond, msg):
    if not cond:
        raise TieBroken(msg)


NOTES = []


def soft(cond, msg):
    """a code shape that the correspondence run observes directly (named seam in the message): when the text no
    longer matches, the tie is carried by that seam alone; recorded in build/gen_manifest.json, not an alarm"""
    if not cond:
        NOTES.append(msg)


def code(rel):
    """non-test source without comments, all white space runs collapsed to one space"""
    return re.sub(r"\s+", " ", strip_comments(nontest(read(rel))))


def entries_cover(blk, pattern, where):
    """every character of a table block is part of a parsed entry, a comma or white space"""
    rest = re.sub(pattern, "", blk)
    need(re.sub(r"[\s,]", "", rest) == "", f"{where}: unparsed text in table: {rest.strip()[:60]!r}")


def read(rel):
    p = os.path.join(CORE, rel)
    need(os.path.exists(p), f"source file missing: {rel}")
    with open(p, encoding="utf-8") as f:
        return f.read()


def nontest(src):
    i = src.find("#[cfg(test)]")
    return src if i < 0 else src[:i]


def strip_comments(src):
    # line comments only (the source has no block comments in the parsed regions); keep string contents
    out = []
    for line in src.split("\n"):
        res, i, inq, q = "", 0, False, ""
        while i < len(line):
            c = line[i]
            if inq:
                res += c
                if c == "\\" and i + 1 < len(line):
                    res += line[i + 1]; i += 1
                elif c == q:
                    inq = False
            else:
                if c == '"':
                    inq, q = True, '"'; res += c
                elif c == "'" and re.match(r"'(\\.|\\u\{[0-9a-fA-F]+\}|[^\\'])'", line[i:]):
                    m = re.match(r"'(\\.|\\u\{[0-9a-fA-F]+\}|[^\\'])'", line[i:])
                    res += m.group(0); i += len(m.group(0)) - 1
                elif line.startswith("//", i):
                    break
                else:
                    res += c
            i += 1
        out.append(res)
    return "\n".join(out)


def unescape(body):
    out, i = [], 0
    while i < len(body):
        c = body[i]
        if c == "\\":
            n = body[i + 1]
            if n == "u":
                m = re.match(r"\\u\{([0-9a-fA-F_]+)\}", body[i:])
                need(m, f"bad unicode escape in {body!r}")
                out.append(int(m.group(1).replace("_", ""), 16)); i += len(m.group(0)); continue
            if n == "x":
                out.append(int(body[i + 2:i + 4], 16)); i += 4; continue
            table = {"n": 10, "r": 13, "t": 9, "0": 0, "\\": 92, "'": 39, '"': 34}
            need(n in table, f"unknown escape \\{n}")
            out.append(table[n]); i += 2; continue
        out.append(ord(c)); i += 1
    return out


STR = r'"((?:[^"\\]|\\.)*)"'
CHR = r"'((?:[^'\\]|\\u\{[0-9a-fA-F_]+\}|\\.))'"


def const_block(src, name):
    m = re.search(r"const\s+" + name + r"\s*:[^=]*=\s*&\[(.*?)\]\s*;", src, re.S)
    return None if m is None else m.group(1)


NUM = r"[0-9][0-9_]*(?:\.[0-9_]+)?(?:[eE][-+]?[0-9]+)?(?:_?(?:usize|u32|u64|f64|f32|isize|i32|i64))?"
CEXPR = r"[-+*/() ]*" + NUM + r"(?:[-+*/() ]+" + NUM + r")*[) ]*"


def const_expr(text, where):
    """exact value (Fraction) of a constant expression made of numeric literals, + - * / and parentheses"""
    toks = re.findall(NUM + r"|[-+*/()]", text.replace(" ", ""))
    need("".join(toks) == text.replace(" ", ""), f"{where}: constant expression not understood: {text!r}")
    pos = [0]

    def lit(t):
        t = re.sub(r"_?(usize|u32|u64|f64|f32|isize|i32|i64)$", "", t).replace("_", "")
        return Fraction(t)

    def atom():
        need(pos[0] < len(toks), f"{where}: constant expression ends early: {text!r}")
        t = toks[pos[0]]; pos[0] += 1
        if t == "(":
            v = expr()
            need(pos[0] < len(toks) and toks[pos[0]] == ")", f"{where}: unbalanced parentheses in {text!r}")
            pos[0] += 1
            return v
        if t == "-":
            return -atom()
        if t == "+":
            return atom()
        need(re.fullmatch(NUM, t), f"{where}: unexpected token {t!r} in {text!r}")
        return lit(t)

    def term():
        v = atom()
        while pos[0] < len(toks) and toks[pos[0]] in "*/":
            op = toks[pos[0]]; pos[0] += 1
            w = atom()
            if op == "*":
                v = v * w
            else:
                need(w != 0, f"{where}: division by zero in {text!r}")
                v = v / w
        return v

    def expr():
        v = term()
        while pos[0] < len(toks) and toks[pos[0]] in "+-":
            op = toks[pos[0]]; pos[0] += 1
            w = term()
            v = v + w if op == "+" else v - w
        return v

    v = expr()
    need(pos[0] == len(toks), f"{where}: trailing tokens in constant expression {text!r}")
    return v


def decimal_const(src, name, where):
    m = re.search(r"const\s+" + name + r"\s*:\s*f64\s*=\s*(" + CEXPR + r")\s*;", src)
    need(m, f"{where}: const {name}: f64 = <constant expression> not found")
    return const_expr(m.group(1), f"{where} {name}")


def usize_const(src, name, where, kw="const"):
    m = re.search(kw + r"\s+" + name + r"\s*:\s*usize\s*=\s*(" + CEXPR + r")\s*;", src)
    need(m, f"{where}: {kw} {name}: usize not found")
    v = const_expr(m.group(1), f"{where} {name}")
    need(v.denominator == 1 and v >= 0 and "/" not in m.group(1), f"{where}: {name} is not a plain non-negative integer expression")
    return int(v)


CLASS = {"Any": "any", "Control": "control", "Whitespace": "whitespace", "Punctuation": "punctuation",
         "NotAlpha": "notAlpha", "NotAlphaNum": "notAlphaNum", "Consonant": "consonant", "Vowel": "vowel"}
POS = {"Noun": "noun", "Pronoun": "pronoun", "Verb": "verb", "Adjective": "adjective", "Adverb": "adverb",
       "Preposition": "preposition", "Conjunction": "conjunction", "Particle": "particle",
       "Intejection": "intejection", "Article": "article"}
LANGS = [("none", None), ("de", "german"), ("en", "english"), ("es", "spanish"), ("fr", "french"),
         ("pt", "portuguese"), ("ru", "russian")]


def lst(xs):
    return "[" + ", ".join(xs) + "]"


def nat_list(xs):
    return lst(str(x) for x in xs)


def parse_consts():
    info = {}
    word = code("matching/word.rs")
    for key, name in (("len", "LENGTH_THRESHOLD"), ("jac", "JACCARD_THRESHOLD"), ("dam", "DAMLEV_THRESHOLD")):
        f = decimal_const(word, name, "matching/word.rs")
        info[key] = (f.numerator, f.denominator)
    # the comparisons the model hard-wires; all three are observed by the `wm` seam (which gate rejected a pair)
    soft(re.search(r"\w+ ?< ?LENGTH_THRESHOLD", word), "word.rs: `dist < LENGTH_THRESHOLD` not found as text (seam: wm)")
    soft(re.search(r"\w+ ?< ?JACCARD_THRESHOLD", word), "word.rs: `dist < JACCARD_THRESHOLD` not found as text (seam: wm)")
    soft(re.search(r"\w+ ?> ?DAMLEV_THRESHOLD ?\{ ?continue", word), "word.rs: `rel > DAMLEV_THRESHOLD {continue}` not found as text (seam: wm)")
    dl = code("matching/damlev/mod.rs")
    costs = {}
    for name in ("COST_TRANS", "COST_DOUBLE", "COST_VOWEL", "COST_NOTALPHA", "COST_CONSONANT", "COST_DEFAULT"):
        f = decimal_const(dl, name, "damlev/mod.rs") * 10
        need(f.denominator == 1, f"damlev/mod.rs: {name} is not a multiple of 0.1; the model counts typos in tenths")
        costs[name] = int(f)
    info["costs"] = costs
    # the class -> cost function: any fn taking a &CharClass and returning f64 whose body is one match over the class
    m = re.search(r"fn \w+\( ?\w+ ?: ?&CharClass ?\) ?-> ?f64 ?\{ ?match \*?\w+ ?\{(.*?)\} ?\}", dl)
    need(m, "damlev/mod.rs: class-cost function (fn f(c: &CharClass) -> f64 { match c { … } }) not found")
    arms = re.findall(r"(CharClass::(\w+)|_) ?=> ?(COST_\w+)", m.group(1))
    entries_cover(m.group(1), r"(CharClass::\w+|_) ?=> ?COST_\w+", "damlev/mod.rs class-cost match")
    got = [(a[1], a[2]) for a in arms]
    info["get_cost"] = got
    # the model's getCost takes the cost *value* per class from here, so a remapped arm follows the source
    cls_cost = {}
    for cls, cname in got:
        need(cname in costs, f"class-cost function refers to unknown {cname}")
        cls_cost[cls] = costs[cname]
    need(set(cls_cost) == {"Consonant", "Vowel", "NotAlpha", ""}, f"damlev/mod.rs: class-cost arms changed: {got}")
    info["cls_cost"] = cls_cost
    info["matCap"] = usize_const(dl, "DEFAULT_CAPACITY", "damlev/mod.rs")
    # initial dimension, growth rule and needed size are observed by the `dist` seam (dimension and buffer length
    # are part of every observation line, exact-fit and growth sub-streams)
    soft(re.search(r"DistMatrix::new\( ?DEFAULT_CAPACITY ?\+ ?2 ?\)", dl), "damlev/mod.rs: `DistMatrix::new(DEFAULT_CAPACITY + 2)` not found as text (seam: dist)")
    mat = code("matching/damlev/matrix.rs")
    soft(re.search(r"(\w+) ?\+ ?\1 ?/ ?2 ?;", mat), "matrix.rs: growth `size + size / 2` not found as text (seam: dist)")
    soft(re.search(r"max!\( ?\w+\.len\(\) ?\+ ?2 ?, ?\w+\.len\(\) ?\+ ?2 ?\)", mat), "matrix.rs: `max!(a.len() + 2, b.len() + 2)` not found as text (seam: dist)")
    st = code("store/mod.rs")
    info["defaultLimit"] = usize_const(st, "DEFAULT_LIMIT", "store/mod.rs", kw=r"pub static")
    store = code("store/store.rs")
    m = re.search(r"dividers ?: ?\( ?vec!\[(.*?)\] ?, ?vec!\[(.*?)\] ?\)", store)
    need(m, "store.rs: default dividers shape changed")
    info["dividerL"] = [unescape(x)[0] for x in re.findall(CHR, m.group(1))]
    info["dividerR"] = [unescape(x)[0] for x in re.findall(CHR, m.group(2))]
    ti = code("store/trigram_index.rs")
    m = re.search(r"limit_sort_unstable\( ?\w+ ?\* ?(" + CEXPR + r") ?,", ti)
    need(m, "trigram_index.rs: candidate cap `limit_sort_unstable(size * N, …)` not found")
    v = const_expr(m.group(1), "trigram_index.rs candidate cap")
    need(v.denominator == 1 and "/" not in m.group(1), "trigram_index.rs: candidate cap factor is not an integer expression")
    info["prepFactor"] = int(v)
    ls = code("utils/limitsort.rs")
    m = re.search(r"\w+\.len\(\) ?>= ?\w+ ?\* ?(" + CEXPR + r") ?\{", ls)
    need(m, "limitsort.rs: `buffer.len() >= limit * N` not found")
    v = const_expr(m.group(1), "limitsort.rs compaction factor")
    need(v.denominator == 1 and "/" not in m.group(1), "limitsort.rs: compaction factor is not an integer expression")
    info["sortFactor"] = int(v)
    nz = code("lang/normalize.rs")
    need(usize_const(nz, "NORM_MAX_PATTERN_LEN", "normalize.rs") == 2, "normalize.rs: NORM_MAX_PATTERN_LEN != 2 (model hard-wires a two-character window)")
    cc = " ".join(code(os.path.join("lang", f)) for f in sorted(os.listdir(os.path.join(CORE, "lang"))) if f.endswith(".rs") and not f.startswith("lang_"))
    m = re.search(r"fn is_punctuation\( ?\w+ ?: ?char ?\) ?-> ?bool ?\{ ?(?:match \w+ ?\{(.*?)_ ?=> ?false|matches!\( ?\w+ ?,(.*?)\) ?\})", cc)
    need(m, "lang/*.rs: fn is_punctuation(ch: char) -> bool { match … } not found")
    body = m.group(1) if m.group(1) is not None else m.group(2)
    info["punctuation"] = [unescape(x)[0] for x in re.findall(CHR, body)]
    entries_cover(body, CHR + r"|=> ?true|\|", "char_class.rs is_punctuation")
    wd = code("tokenization/word.rs")
    m = re.search(r"fn is_function\( ?&self ?\) ?-> ?bool ?\{ ?(?:match self\.pos\(\) ?\{(.*?)_ ?=> ?false|matches!\( ?self\.pos\(\) ?,(.*?)\) ?\})", wd)
    need(m, "tokenization/word.rs: is_function shape changed")
    body = m.group(1) if m.group(1) is not None else m.group(2)
    info["funcPos"] = re.findall(r"Some\( ?PartOfSpeech::(\w+) ?\)", body)
    entries_cover(body, r"Some\( ?PartOfSpeech::\w+ ?\)|=> ?true|\|", "tokenization/word.rs is_function")
    need(all(p in POS for p in info["funcPos"]), "tokenization/word.rs: unknown part of speech in is_function")
    # score order
    sc = code("search/score.rs")
    m = re.search(r"pub enum ScoreType ?\{(.*?)\}", sc)
    need(m, "score.rs: enum ScoreType not found")
    variants = [(n, int(v)) for n, v in re.findall(r"(\w+) ?= ?([0-9]+)", m.group(1))]
    need(sorted(v for _, v in variants) == list(range(len(variants))), "score.rs: ScoreType discriminants are not 0..n-1")
    need(usize_const(sc, "SCORES_SIZE", "score.rs", kw=r"pub const") == len(variants), "score.rs: SCORES_SIZE != number of ScoreType variants")
    assign = dict(re.findall(r"hit\.scores\[ ?ScoreType::(\w+) ?\] ?= ?(\w+)\( ?hit ?\) ?;", sc))
    fn_kind = {"score_chars_up": "chars", "score_words_up": "words", "score_tails_down": "tails", "score_trans_down": "trans",
               "score_fin_up": "fin", "score_offset_down": "offset", "score_rating_up": "rating",
               "score_word_len_down": "wordLen", "score_char_len_down": "charLen"}
    order = [None] * len(variants)
    for name, disc in variants:
        need(name in assign, f"score.rs: ScoreType::{name} is never assigned in score()")
        need(assign[name] in fn_kind, f"score.rs: unknown score function {assign[name]}")
        order[disc] = fn_kind[assign[name]]
    info["scoreOrder"] = order
    cmp_src = code("search/sort.rs")
    # direction and lexicographic order of the component comparison: observed by the search correspondence and p07/p08
    soft(re.search(r"\.map\( ?\| ?\( ?s1 ?, ?s2 ?\) ?\| ?s2\.cmp\( ?s1 ?\) ?\)", cmp_src), "sort.rs: `.map(|(s1, s2)| s2.cmp(s1))` not found as text (seam: search order, tm score vector)")
    # tokenizer pipelines
    tk = code("tokenization/mod.rs")
    pats = {n: b for n, b in re.findall(r"const (\w+) ?: ?&\[ ?CharClass ?\] ?= ?&\[(.*?)\] ?;", tk)}
    pats.update({n: b for n, b in re.findall(r"const (\w+) ?: ?\[ ?CharClass ?; ?\d+ ?\] ?= ?\[(.*?)\] ?;", tk)})
    info["steps"] = {}
    for fn in ("tokenize_query", "tokenize_record"):
        m = re.search(r"pub fn " + fn + r"\( ?(\w+) ?: ?&str ?, ?(\w+) ?: ?&Lang ?\) ?-> ?TextOwn ?\{ ?Text::from_str\( ?\1 ?\)(.*?) ?\}(?= ?(?:pub |fn |const |#\[|$))", tk)
        need(m, f"tokenization/mod.rs: {fn} is no longer one chain of steps on Text::from_str(source)")
        steps = []
        chain = m.group(3).strip()
        step_re = r"\.(\w+)\((.*?)\) ?(?=\.|$)"
        for mm in re.finditer(step_re, chain):
            call, arg = mm.group(1), mm.group(2).strip()
            if call in ("normalize", "set_pos", "set_char_classes", "set_stem"):
                need(arg == m.group(2), f"{fn}: {call}({arg}): expected ({m.group(2)})")
                steps.append({"normalize": ".normalize", "set_pos": ".setPos", "set_char_classes": ".setCharClasses", "set_stem": ".setStem"}[call])
            elif call == "lower":
                need(arg == "", f"{fn}: lower({arg})")
                steps.append(".lower")
            elif call == "fin":
                need(arg in ("true", "false"), f"{fn}: fin({arg})")
                steps.append(f".fin {arg}")
            elif call in ("split", "strip"):
                pm = re.fullmatch(r"(.*), ?(\w+)", arg)
                need(pm and pm.group(2) == m.group(2), f"{fn}: {call}({arg}): expected (<pattern>, {m.group(2)})")
                pat = pm.group(1).strip()
                lit = re.fullmatch(r"&\[(.*)\]", pat)
                if lit:
                    body = lit.group(1)
                else:
                    need(re.fullmatch(r"&?\w+", pat) and pat.lstrip("&") in pats, f"{fn}: {call}({arg}): pattern is neither a literal nor a const of this file")
                    body = pats[pat.lstrip("&")]
                cls = re.findall(r"CharClass::(\w+)", body)
                need(cls and all(c in CLASS for c in cls), f"{fn}: {call}({arg})")
                entries_cover(body, r"CharClass::\w+", f"{fn}: {call} pattern")
                steps.append(f".{call} " + lst("CharClass." + CLASS[c] for c in cls))
            else:
                raise TieBroken(f"{fn}: unknown tokenizer step .{call}({arg})")
        need(re.sub(step_re, "", chain).strip() == "", f"{fn}: text between tokenizer steps not understood: {chain[:80]!r}")
        info["steps"][fn] = steps
    return info


def parse_lang(code, fname, latin):
    if fname is None:
        return {"compose": [], "reduce": [], "func": [], "classes": [], "stemmer": None}
    src = strip_comments(nontest(read(f"lang/lang_{fname}.rs")))
    out = {}
    for key, name in (("compose", "UTF_COMPOSE_MAP"), ("reduce", "UTF_REDUCE_MAP")):
        blk = const_block(src, name)
        need(blk is not None, f"lang_{fname}.rs: {name} not found")
        pairs = re.findall(r"\(\s*" + STR + r"\s*,\s*" + STR + r"\s*,?\s*\)", blk)
        entries_cover(blk, r"\(\s*" + STR + r"\s*,\s*" + STR + r"\s*,?\s*\)", f"lang_{fname}.rs {name}")
        out[key] = [(unescape(a), unescape(b)) for a, b in pairs]
    blk = const_block(src, "FUNCTION_WORDS")
    need(blk is not None, f"lang_{fname}.rs: FUNCTION_WORDS not found")
    ents = re.findall(r"\(\s*(?:PartOfSpeech::)?(\w+)\s*,\s*" + STR + r"\s*,?\s*\)", blk)
    entries_cover(blk, r"\(\s*(?:PartOfSpeech::)?\w+\s*,\s*" + STR + r"\s*,?\s*\)", f"lang_{fname}.rs FUNCTION_WORDS")
    need(all(p in POS for p, _ in ents), f"lang_{fname}.rs: unknown part of speech")
    out["func"] = [(p, unescape(w)) for p, w in ents]
    blk = const_block(src, "CHAR_CLASSES")
    need(blk is not None, f"lang_{fname}.rs: CHAR_CLASSES not found")
    ents = re.findall(r"\(\s*(?:CharClass::)?(\w+)\s*,\s*" + CHR + r"\s*,?\s*\)", blk)
    entries_cover(blk, r"\(\s*(?:CharClass::)?\w+\s*,\s*" + CHR + r"\s*,?\s*\)", f"lang_{fname}.rs CHAR_CLASSES")
    own = [(c, unescape(ch)[0]) for c, ch in ents]
    flat = re.sub(r"\s+", " ", src)
    m = re.search(r"pub fn lang_" + fname + r" ?\( ?\) ?-> ?Lang ?\{ ?let mut (\w+) ?= ?Lang::new\( ?\) ?;(.*?) \1 ?\}", flat)
    need(m, f"lang_{fname}.rs: lang_{fname}() is no longer `let mut lang = Lang::new(); …; lang`")
    lv, body = m.group(1), m.group(2)
    # the order in which the tables are loaded matters (later entries override / function words are registered
    # under composed and reduced spelling): statements in order
    stmts = re.findall(r"(?:for [^{]*? in &?(\w+) ?\{ ?" + lv + r"\.(\w+)\([^;]*?\) ?; ?\}|" + lv + r"\.(\w+)\()", body)
    seq = [(a, b) if b else ("", c) for a, b, c in stmts]
    want = [("", "set_stemmer"), ("UTF_COMPOSE_MAP", "add_unicode_composition"), ("UTF_REDUCE_MAP", "add_unicode_reduction"),
            ("FUNCTION_WORDS", "add_pos"), ("CHAR_CLASSES_LATIN", "add_char_class"), ("CHAR_CLASSES", "add_char_class")]
    need(seq == want, f"lang_{fname}.rs: table loading order changed: {seq}")
    m = re.search(r"set_stemmer\( ?Some\( ?Stemmer::create\( ?Algorithm::(\w+) ?\) ?\) ?\)", body)
    need(m, f"lang_{fname}.rs: stemmer shape changed")
    out["stemmer"] = m.group(1)
    out["classes"] = latin + own
    return out


def parse_latin():
    src = strip_comments(read("lang/constants.rs"))
    blk = const_block(src, "CHAR_CLASSES_LATIN")
    need(blk is not None, "constants.rs: CHAR_CLASSES_LATIN not found")
    ents = re.findall(r"\(\s*(?:CharClass::)?(\w+)\s*,\s*" + CHR + r"\s*,?\s*\)", blk)
    entries_cover(blk, r"\(\s*(?:CharClass::)?\w+\s*,\s*" + CHR + r"\s*,?\s*\)", "constants.rs CHAR_CLASSES_LATIN")
    return [(c, unescape(ch)[0]) for c, ch in ents]


def unsafe_sites():
    """inventory of unchecked accesses in non-test code: (file, normalised line) with multiplicity"""
    sites = []
    for root, _, files in os.walk(CORE):
        for f in sorted(files):
            if not f.endswith(".rs"):
                continue
            p = os.path.join(root, f)
            rel = os.path.relpath(p, CORE)
            src = strip_comments(nontest(open(p, encoding="utf-8").read()))
            for line in src.split("\n"):
                if "verif:" in line or "cfg(lucid_suggest_verif)" in line:
                    continue
                n = len(re.findall(r"get_unchecked(?:_mut)?\(", line)) + len(re.findall(r"set_unchecked\(", line))
                if n and not re.search(r"unsafe fn (get|set)_unchecked", line):
                    sites.append((rel, re.sub(r"\s+", " ", line.strip()), n))
                elif n:
                    sites.append((rel, re.sub(r"\s+", " ", line.strip()), 0))
    return sorted(sites)


def emit_consts(info):
    k = info
    c = k["costs"]
    cc = k["cls_cost"]
    L = []
    L.append("/- GENERATED by tools/gen_tables.py from /repo/rust/core/src — do not edit. -/")
    L.append("import LucidModel.Registry\n")
    L.append("namespace Lucid.Gen\nopen Lucid\n")
    L.append("def srcConsts : Consts :=")
    L.append(f"  {{ lenNum := {k['len'][0]}, lenDen := {k['len'][1]}, jacNum := {k['jac'][0]}, jacDen := {k['jac'][1]},")
    L.append(f"    damNum := {k['dam'][0]}, damDen := {k['dam'][1]},")
    L.append(f"    costTrans := {c['COST_TRANS']}, costDouble := {c['COST_DOUBLE']}, costVowel := {cc['Vowel']}, costNotAlpha := {cc['NotAlpha']},")
    L.append(f"    costConsonant := {cc['Consonant']}, costDefault := {cc['']}, costSingle := {c['COST_DEFAULT']},")
    L.append(f"    matCap := {k['matCap']}, defaultLimit := {k['defaultLimit']}, prepFactor := {k['prepFactor']}, sortFactor := {k['sortFactor']},")
    L.append(f"    punctuation := {nat_list(k['punctuation'])},")
    L.append(f"    funcPos := {lst('Pos.' + POS[p] for p in k['funcPos'])},")
    L.append(f"    dividerL := {nat_list(k['dividerL'])}, dividerR := {nat_list(k['dividerR'])} }}\n")
    L.append(f"def srcQuerySteps : List TokStep := {lst(k['steps']['tokenize_query'])}\n")
    L.append(f"def srcRecordSteps : List TokStep := {lst(k['steps']['tokenize_record'])}\n")
    L.append(f"def srcScoreOrder : List ScoreType := {lst('ScoreType.' + s for s in k['scoreOrder'])}\n")
    L.append("def srcProg : Prog := { K := srcConsts, querySteps := srcQuerySteps, recordSteps := srcRecordSteps, order := srcScoreOrder }\n")
    L.append("end Lucid.Gen")
    return "\n".join(L) + "\n"


def emit_langs(langs):
    L = []
    L.append("/- GENERATED by tools/gen_tables.py from /repo/rust/core/src/lang — do not edit. -/")
    L.append("import LucidModel.Basic\n")
    L.append("namespace Lucid.Gen\nopen Lucid\n")
    for code, t in langs:
        L.append(f"def lang_{code} : LangTables :=")
        L.append("  { compose := " + lst(f"({nat_list(a)}, {nat_list(b)})" for a, b in t["compose"]) + ",")
        L.append("    reduce := " + lst(f"({nat_list(a)}, {nat_list(b)})" for a, b in t["reduce"]) + ",")
        L.append("    funcWords := " + lst(f"(Pos.{POS[p]}, {nat_list(w)})" for p, w in t["func"]) + ",")
        L.append("    classes := " + lst(f"(CharClass.{CLASS[c]}, {ch})" for c, ch in t["classes"]) + ",")
        L.append(f"    stemmer := {'true' if t['stemmer'] else 'false'} }}\n")
    L.append("def srcLangs : List (String × LangTables) := " + lst(f'("{code}", lang_{code})' for code, _ in langs) + "\n")
    L.append("end Lucid.Gen")
    return "\n".join(L) + "\n"


def emit_sites(sites):
    L = []
    L.append("/- GENERATED by tools/gen_tables.py: inventory of unchecked accesses in non-test code — do not edit. -/\n")
    L.append("namespace Lucid.Gen\n")
    L.append("/-- (file, number of unchecked call sites in it) -/")
    per = {}
    for rel, _, n in sites:
        per[rel] = per.get(rel, 0) + n
    L.append("def srcUncheckedSites : List (String × Nat) := " + lst(f'("{r}", {n})' for r, n in sorted(per.items())) + "\n")
    L.append("end Lucid.Gen")
    return "\n".join(L) + "\n"


def write_if_changed(path, content):
    old = None
    if os.path.exists(path):
        with open(path, encoding="utf-8") as f:
            old = f.read()
    if old != content:
        with open(path, "w", encoding="utf-8") as f:
            f.write(content)
        return True
    return False


def main():
    os.makedirs(GEN, exist_ok=True)
    os.makedirs(BUILD, exist_ok=True)
    man_path = os.path.join(BUILD, "gen_manifest.json")
    try:
        info = parse_consts()
        latin = parse_latin()
        langs = [(code, parse_lang(code, fname, latin)) for code, fname in LANGS]
        sites = unsafe_sites()
        changed = []
        for name, content in (("Consts.lean", emit_consts(info)), ("Langs.lean", emit_langs(langs)), ("Sites.lean", emit_sites(sites))):
            if write_if_changed(os.path.join(GEN, name), content):
                changed.append(name)
        # the same tables for the harness's generators (so that it does not parse the Rust text a second time)
        lt = []
        for code, t in langs:
            acc = []
            for k, _ in t["reduce"]:
                for c in k:
                    if c not in acc: acc.append(c)
            for _, v in t["compose"]:
                for c in v:
                    if c not in acc: acc.append(c)
            lt.append(f"{code} func " + ";".join(",".join(str(c) for c in w) for _, w in t["func"]))
            lt.append(f"{code} accents " + ",".join(str(c) for c in acc))
        with open(os.path.join(BUILD, "lang_tables.txt"), "w") as f:
            f.write("\n".join(lt) + "\n")
        man = {"ok": True, "changed": changed, "soft_notes": NOTES, "consts": {k: v for k, v in info.items()},
               "langs": {code: {"compose": len(t["compose"]), "reduce": len(t["reduce"]), "func": len(t["func"]),
                                "classes": len(t["classes"]), "stemmer": t["stemmer"]} for code, t in langs},
               "unchecked_sites": [[r, l, n] for r, l, n in sites]}
        with open(man_path, "w") as f:
            json.dump(man, f, indent=1, ensure_ascii=False, default=str)
        print("gen_tables: ok; changed:", changed, ("; text shapes left to the correspondence seams: " + "; ".join(NOTES)) if NOTES else "")
        return 0
    except TieBroken as e:
        # keep the last good manifest (constants for the oracle checks); record the error separately
        with open(os.path.join(BUILD, "gen_error.json"), "w") as f:
            json.dump({"ok": False, "error": str(e)}, f, indent=1)
        print("gen_tables: TIE BROKEN:", e, file=sys.stderr)
        return 2


if __name__ == "__main__":
    sys.exit(main())
