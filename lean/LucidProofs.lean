import LucidProofs.Lemmas.LimitSort
import LucidProofs.Lemmas.Orders
import LucidProofs.Lemmas.Sorter
import LucidProofs.Lemmas.Facts
import LucidProofs.C06
