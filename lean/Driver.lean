/-
  Driver — executes the model on the harness's case lines (one operation per line, one observation
  line per operation). Imports only the model (no proofs, no Mathlib) so it links as an executable.
-/
import LucidModel
import LucidModel.Safe
import LucidModel.Gen.Consts
import LucidModel.Gen.Langs
import LucidModel.Gen.Unicode
import Std.Data.HashMap

open Lucid Lucid.Gen

/-! ## Unicode oracle from the dumped range tables -/

structure Ranges where
  lo : Array Nat
  hi : Array Nat
deriving Inhabited

def Ranges.mem (r : Ranges) (c : Nat) : Bool := Id.run do
  -- binary search for the last range with lo ≤ c
  let mut a := 0
  let mut b := r.lo.size
  while a < b do
    let mid := (a + b) / 2
    if r.lo[mid]! ≤ c then a := mid + 1 else b := mid
  if a = 0 then return false
  return c ≤ r.hi[a - 1]!

def parseNat (s : String) : Nat := s.toNat?.getD 0

def parseList (s : String) : List Nat :=
  if s = "-" || s = "" then [] else (s.splitOn ",").map parseNat

def parseRanges (s : String) : Ranges :=
  if s = "-" || s = "" then { lo := #[], hi := #[] } else
  let parts := s.splitOn ","
  let ps := parts.map (fun p => match p.splitOn "-" with
    | [a, b] => (parseNat a, parseNat b)
    | [a] => (parseNat a, parseNat a)
    | _ => (0, 0))
  { lo := (ps.map (·.1)).toArray, hi := (ps.map (·.2)).toArray }

structure UniTables where
  alpha : Ranges
  numeric : Ranges
  white : Ranges
  control : Ranges
  upper : Ranges
  lowerKeys : Array Nat
  lowerVals : Array Nat
deriving Inhabited

def lowerLookup (t : UniTables) (c : Nat) : Nat := Id.run do
  let mut a := 0
  let mut b := t.lowerKeys.size
  while a < b do
    let mid := (a + b) / 2
    if t.lowerKeys[mid]! < c then a := mid + 1 else b := mid
  if a < t.lowerKeys.size && t.lowerKeys[a]! = c then return t.lowerVals[a]! else return c

def UniTables.toUnicode (t : UniTables) : Unicode :=
  { isAlphabetic := t.alpha.mem, isNumeric := t.numeric.mem, isWhitespace := t.white.mem,
    isControl := t.control.mem, isUppercase := t.upper.mem, lower1 := lowerLookup t }

def loadUnicode (path : String) : IO UniTables := do
  let content ← IO.FS.readFile path
  let mut t : UniTables := default
  for line in content.splitOn "\n" do
    match line.splitOn " " with
    | ["alpha", r] => t := { t with alpha := parseRanges r }
    | ["numeric", r] => t := { t with numeric := parseRanges r }
    | ["white", r] => t := { t with white := parseRanges r }
    | ["control", r] => t := { t with control := parseRanges r }
    | ["upper", r] => t := { t with upper := parseRanges r }
    | ["lower", r] =>
      let ps := (if r = "-" then [] else r.splitOn ",").map (fun p => match p.splitOn ":" with
        | [a, b] => (parseNat a, parseNat b)
        | _ => (0, 0))
      t := { t with lowerKeys := (ps.map (·.1)).toArray, lowerVals := (ps.map (·.2)).toArray }
    | _ => pure ()
  return t

/-- the tables of `Gen/Unicode.lean` (the ones the `_std` theorems are about), arranged for binary search -/
def rangesOfList (l : List (Nat × Nat)) : Ranges := { lo := (l.map (·.1)).toArray, hi := (l.map (·.2)).toArray }

def genTables : UniTables :=
  { alpha := rangesOfList Gen.uniAlpha, numeric := rangesOfList Gen.uniNumeric, white := rangesOfList Gen.uniWhite,
    control := rangesOfList Gen.uniControl, upper := rangesOfList Gen.uniUpper,
    lowerKeys := (Gen.uniLower.map (·.1)).toArray, lowerVals := (Gen.uniLower.map (·.2)).toArray }

def UniTables.same (a b : UniTables) : Bool :=
  a.alpha.lo == b.alpha.lo && a.alpha.hi == b.alpha.hi && a.numeric.lo == b.numeric.lo && a.numeric.hi == b.numeric.hi &&
  a.white.lo == b.white.lo && a.white.hi == b.white.hi && a.control.lo == b.control.lo && a.control.hi == b.control.hi &&
  a.upper.lo == b.upper.lo && a.upper.hi == b.upper.hi && a.lowerKeys == b.lowerKeys && a.lowerVals == b.lowerVals

/-- does the binary-search oracle agree with `Gen.srcUnicode` (the definition the theorems use) at `c`? -/
def agreeAt (u : Unicode) (c : Nat) : Bool :=
  let g := Gen.srcUnicode
  u.isAlphabetic c == g.isAlphabetic c && u.isNumeric c == g.isNumeric c && u.isWhitespace c == g.isWhitespace c &&
  u.isControl c == g.isControl c && u.isUppercase c == g.isUppercase c && u.lower1 c == g.lower1 c

/-- `--unicheck <dump>`: (1) the dump parsed at run time equals the generated tables; (2) the driver's
    binary-search lookups equal `Gen.srcUnicode` on all code points < 0x3000, every range boundary ±1 and a
    stride through the rest. -/
def uniCheck (path : String) : IO UInt32 := do
  let t ← loadUnicode path
  let g := genTables
  if !(t.same g) then
    IO.println "unicheck MISMATCH: build/unicode.tbl differs from LucidModel/Gen/Unicode.lean"
    return 1
  let u := g.toUnicode
  let bounds := (Gen.uniAlpha ++ Gen.uniNumeric ++ Gen.uniWhite ++ Gen.uniControl ++ Gen.uniUpper ++ Gen.uniLower).flatMap
    (fun (a, b) => [a - 1, a, a + 1, b - 1, b, b + 1])
  let pts := List.range 0x3000 ++ bounds ++ (List.range 4000).map (fun i => 0x3000 + i * 277)
  let mut bad := 0
  let mut first := 0
  for c in pts do
    if !(agreeAt u c) then
      if bad = 0 then first := c
      bad := bad + 1
  if bad ≠ 0 then
    IO.println s!"unicheck MISMATCH: lookup disagrees with Gen.srcUnicode at {bad} points, first {first}"
    return 1
  IO.println s!"unicheck ok points={pts.length}"
  return 0

/-! ## printing -/

def showList (l : List Nat) : String := if l.isEmpty then "-" else ",".intercalate (l.map toString)

def classCode : CharClass → Nat
  | .any => 0 | .control => 1 | .whitespace => 2 | .punctuation => 3 | .notAlpha => 4 | .notAlphaNum => 5 | .consonant => 6 | .vowel => 7

def codeClass : Nat → CharClass
  | 1 => .control | 2 => .whitespace | 3 => .punctuation | 4 => .notAlpha | 5 => .notAlphaNum | 6 => .consonant | 7 => .vowel | _ => .any

def posCode : Option Pos → String
  | none => "-"
  | some .noun => "Noun" | some .pronoun => "Pronoun" | some .verb => "Verb" | some .adjective => "Adjective"
  | some .adverb => "Adverb" | some .preposition => "Preposition" | some .conjunction => "Conjunction"
  | some .particle => "Particle" | some .intejection => "Intejection" | some .article => "Article"

def showBool (b : Bool) : String := if b then "1" else "0"

def showWord (w : WordShape) : String :=
  s!"{w.offset}:{w.lo}:{w.hi}:{w.stem}:{posCode w.pos}:{showBool w.fin}"

def showText (t : Text) : String :=
  let ws := if t.words.isEmpty then "-" else ";".intercalate (t.words.map showWord)
  s!"{ws}|{showList t.source}|{showList t.chars}|{showList (t.classes.map classCode)}"

def showMatch (m : WMatch) : String :=
  s!"{m.offset}:{m.lo}:{m.hi}:{m.subLo}:{m.subHi}:{m.typos}:{showBool m.func}:{showBool m.fin}"

def showMatches (l : List WMatch) : String := if l.isEmpty then "-" else ";".intercalate (l.map showMatch)

def showInts (l : List Int) : String := if l.isEmpty then "-" else ",".intercalate (l.map toString)

/-! ## state -/

def theSorter : Sorter := { sort := fun le l => l.mergeSort le }

structure DState where
  uni     : Unicode
  lang    : String
  stems   : Std.HashMap (String × List Nat) Nat
  store   : Store
  reg     : Registry
  mat     : Mat
  jac     : JacState

def langTables (code : String) : LangTables :=
  match srcLangs.find? (fun e => e.1 = code) with
  | some e => e.2
  | none => lang_none

def langIndex (code : String) : Nat := (srcLangs.findIdx? (fun e => e.1 = code)).getD 0
def langOfIndex (i : Nat) : String := (srcLangs[i]?.map (·.1)).getD "none"

/-- A missing stem-table entry is flagged with a sentinel stem (≥ 1000000), never silently defaulted;
    the observation line of the operation is then `stem-missing`. -/
def textMissing (t : Text) : Bool := t.words.any (fun w => w.stem ≥ 1000000)

def newDState (uni : Unicode) : DState :=
  { uni := uni, lang := "none", stems := {}, store := Store.new srcConsts, reg := Registry.empty,
    mat := Mat.new (srcConsts.matCap + 2), jac := JacState.new }

/-! ## search observation with tie information -/

/-- dense ranks of a list already sorted by `le` -/
def denseRanks {α : Type} (le : α → α → Bool) : List α → Nat → List (α × Nat)
  | [], _ => []
  | [a], r => [(a, r)]
  | a :: b :: rest, r => (a, r) :: denseRanks le (b :: rest) (if le b a then r else r + 1)

def showResult (r : Result) : String := s!"{r.id}:{showList r.title}"

def searchObs (st : Store) (q : Text) : String × Store :=
  let K := srcConsts
  let (res, st') := st.searchM theSorter K srcScoreOrder q
  -- candidate universe and cap tie detection
  let (cands, captie) :=
    if q.words.length > 0 then
      let pos := (positiveCounts st.index q).mergeSort countLe
      let cap := st.limit * K.prepFactor
      let tie := match pos[cap - 1]?, pos[cap]? with
        | some a, some b => cap > 0 && a.2 = b.2
        | _, _ => false
      if tie then (pos.map (·.1), true) else ((st.index.prepare theSorter K q st.limit), false)
    else
      let srt := st.records.mergeSort topLe
      let tie := match srt[st.limit - 1]?, srt[st.limit]? with
        | some a, some b => st.limit > 0 && topLe b a
        | _, _ => false
      if tie then (srt.map (·.ix), true) else ((st.topIxsM theSorter K).1, false)
  let hits := st.hitsOf K srcScoreOrder q cands
  let sorted := hits.mergeSort hitLe
  let ranked := denseRanks hitLe sorted 0
  let pool := if ranked.isEmpty then "-" else ";".intercalate (ranked.map (fun (h, r) =>
    s!"{r}:{h.id}:{showList (highlight h st.dividers.1 st.dividers.2)}:{showInts h.scores}"))
  let resS := if res.isEmpty then "-" else ";".intercalate (res.map showResult)
  (s!"search limit={st.limit} captie={showBool captie} res={resS} pool={pool}", st')

/-! ## interpreter -/

def envFor (st : DState) (code : String) : Env :=
  { U := st.uni, K := srcConsts, T := langTables code,
    stem := fun w => match st.stems[(code, w)]? with
      | some n => n
      | none => w.length + 1000000 }

def tokenizeWith (st : DState) (code : String) (query : Bool) (s : List Nat) : Text :=
  let E : Env := envFor st code
  if query then tokenizeQuery srcProg E s else tokenizeRecord srcProg E s

def guardMissing (ts : List Text) (out : String) : String :=
  if ts.any textMissing then "stem-missing" else out

def step (st : DState) (line : String) : DState × Option String :=
  match line.splitOn " " with
  | ["case", name] =>
    ({ newDState st.uni with lang := st.lang }, some s!"case {name}")
  | ["lang", code] => ({ st with lang := code }, none)
  | ["stem", code, w, n] => ({ st with stems := st.stems.insert (code, parseList w) (parseNat n) }, none)
  | ["tokq", s] =>
    let t := tokenizeWith st st.lang true (parseList s)
    let safe := runStepsSafe (envFor st st.lang) srcQuerySteps (parseList s)
    (st, some (guardMissing [t] (if safe then s!"tok {showText t}" else "unsafe tokenize_query")))
  | ["tokr", s] =>
    let t := tokenizeWith st st.lang false (parseList s)
    let safe := runStepsSafe (envFor st st.lang) srcRecordSteps (parseList s)
    (st, some (guardMissing [t] (if safe then s!"tok {showText t}" else "unsafe tokenize_record")))
  | ["trig", s] =>
    let gs := trigrams (parseList s)
    (st, some ("trig " ++ (if gs.isEmpty then "-" else ";".intercalate (gs.map (fun g => s!"{g.1}.{g.2.1}.{g.2.2}")))))
  | ["jacc", a, b] =>
    let (r, j) := jaccardM st.jac (parseList a) (parseList b)
    ({ st with jac := j }, some s!"jacc {r.1} {r.2}")
  | ["dist", c1, k1, c2, k2] =>
    let K := srcConsts
    let a : CWord := { ch := parseList c1, cost := (parseList k1).map (fun c => getCost K (codeClass c)) }
    let b : CWord := { ch := parseList c2, cost := (parseList k2).map (fun c => getCost K (codeClass c)) }
    let (d, m) := distanceM K st.mat a b
    let cells := (List.range (a.len + 2)).map (fun i => showList ((List.range (b.len + 2)).map (fun j => m.get i j)))
    ({ st with mat := m }, some ("dist " ++ toString d ++ " size=" ++ toString m.size ++ " rawlen=" ++ toString m.raw.size ++ " cells=" ++ ";".intercalate cells))
  | ["wm", title, query, ri, qi, joinr, joinq] =>
    let rt := tokenizeWith st st.lang false (parseList title)
    let qt := tokenizeWith st st.lang true (parseList query)
    let out :=
      match rt.words[parseNat ri]?, qt.words[parseNat qi]? with
      | some r, some q =>
        let r' := if joinr = "1" then (match rt.words[parseNat ri + 1]? with | some n => some (r.join n) | none => none) else some r
        let q' := if joinq = "1" then (match qt.words[parseNat qi + 1]? with | some n => some (q.join n) | none => none) else some q
        match r', q' with
        | some r', some q' =>
          let lc := lengthCheck srcConsts r' q'
          let jc := jaccardCheck srcConsts rt r' qt q'
          (match wordMatch srcConsts rt r' qt q' with
          | some (a, b) => s!"wm len={showBool lc} jac={showBool jc} r={showMatch a} q={showMatch b}"
          | none => s!"wm len={showBool lc} jac={showBool jc} none")
        | _, _ => "wm nojoin"
      | _, _ => "wm noword"
    (st, some (guardMissing [rt, qt] out))
  | ["tm", title, rating, query] =>
    let rt := tokenizeWith st st.lang false (parseList title)
    let qt := tokenizeWith st st.lang true (parseList query)
    let h := scoreHit srcConsts srcScoreOrder qt { ix := 0, id := 0, title := rt, rating := parseNat rating }
    if !(hitSafe srcConsts srcScoreOrder qt { ix := 0, id := 0, title := rt, rating := parseNat rating }) then (st, some (guardMissing [rt, qt] "unsafe text_match/score/highlight")) else
    (st, some (guardMissing [rt, qt] s!"tm r={showMatches h.rmatches} q={showMatches h.qmatches} scores={showInts h.scores} pass={showBool (hitMatches qt h)} hl={showList (highlight h [91] [93])}"))
  | ["splitty", t, l1, l2] =>
    let r := splitTypos (parseNat t) (parseNat l1) (parseNat l2)
    (st, some s!"splitty {r.1} {r.2}")
  | ["new"] => ({ st with store := Store.new srcConsts }, some "ok")
  | ["add", id, rating, title] =>
    let t := tokenizeWith st st.lang false (parseList title)
    let safe := runStepsSafe (envFor st st.lang) srcRecordSteps (parseList title) && st.store.addSafe t
    ({ st with store := st.store.add (parseNat id) t (parseNat rating) }, some (guardMissing [t] (if safe then "ok" else "unsafe add")))
  | ["clear"] => ({ st with store := st.store.clear }, some "ok")
  | ["limit", n] => ({ st with store := st.store.setLimit (parseNat n) }, some "ok")
  | ["markers", l, r] => ({ st with store := st.store.setDividers (parseList l) (parseList r) }, some "ok")
  | ["search", q] =>
    let qt := tokenizeWith st st.lang true (parseList q)
    let (out, store') := searchObs st.store qt
    let safe := runStepsSafe (envFor st st.lang) srcQuerySteps (parseList q) && st.store.searchSafe theSorter srcConsts srcScoreOrder qt
    ({ st with store := store' }, some (guardMissing [qt] (if safe then out else "unsafe search")))
  | ["prepare", q, size] =>
    let qt := tokenizeWith st st.lang true (parseList q)
    let pos := positiveCounts st.store.index qt
    let res := st.store.index.prepare theSorter srcConsts qt (parseNat size)
    let ps := if pos.isEmpty then "-" else ";".intercalate (pos.map (fun p => s!"{p.1}:{p.2}"))
    (st, some (guardMissing [qt] s!"prepare words={qt.words.length} cap={parseNat size * srcConsts.prepFactor} res={showList res} counts={ps}"))
  | ["rcreate", id, code] =>
    ({ st with reg := st.reg.step theSorter srcProg (fun i => envFor st (langOfIndex i)) (.create (parseNat id) (langIndex code)) }, some "ok")
  | ["rdestroy", id] =>
    ({ st with reg := st.reg.step theSorter srcProg (fun i => envFor st (langOfIndex i)) (.destroy (parseNat id)) }, some "ok")
  | ["rclear", id] =>
    -- `using_store(id, |s| s.clear())`: not an operation of the bridge, reachable through the Rust API only
    ({ st with reg := st.reg.step theSorter srcProg (fun i => envFor st (langOfIndex i)) (.clearStore (parseNat id)) }, some "ok")
  | ["rmarkers", id, l, r] =>
    ({ st with reg := st.reg.step theSorter srcProg (fun i => envFor st (langOfIndex i)) (.highlightWith (parseNat id) (parseList l) (parseList r)) }, some "ok")
  | ["rlimit", id, n] =>
    ({ st with reg := st.reg.step theSorter srcProg (fun i => envFor st (langOfIndex i)) (.setLimit (parseNat id) (parseNat n)) }, some "ok")
  | ["radd", id, recId, rating, title] =>
    let envs : Nat → Env := fun i => envFor st (langOfIndex i)
    let reg := st.reg.step theSorter srcProg envs (.addRecord (parseNat id) (parseNat recId) (parseList title) (parseNat rating))
    let miss := match amGet reg.stores (parseNat id) with
      | some (_, s) => (match s.records.getLast? with | some r => textMissing r.title | none => false)
      | none => false
    ({ st with reg := reg }, some (if miss then "stem-missing" else "ok"))
  | ["rsearch", id, q] =>
    let envs : Nat → Env := fun i => envFor st (langOfIndex i)
    let miss := match amGet st.reg.stores (parseNat id) with
      | some (l, _) => textMissing (tokenizeQuery srcProg (envs l) (parseList q))
      | none => false
    ({ st with reg := st.reg.step theSorter srcProg envs (.runSearch (parseNat id) (parseList q)) }, some (if miss then "stem-missing" else "ok"))
  | ["rresults", id] =>
    let i := parseNat id
    let titles := getResultTitles st.reg i
    (st, some s!"rresults ids={showList (getResultIds st.reg i)} titles={showList titles} split={(splitNul titles).length}")
  | [""] => (st, none)
  | _ => (st, some "bad-op")

partial def loop (h : IO.FS.Stream) (out : IO.FS.Stream) (st : DState) : IO Unit := do
  let line ← h.getLine
  if line.isEmpty then return ()
  let line := line.trimAsciiEnd.toString
  let (st', o) := step st line
  match o with
  | some s => out.putStrLn s
  | none => pure ()
  loop h out st'

def main (args : List String) : IO UInt32 := do
  match args with
  | ["--unicheck", uniPath] => uniCheck uniPath
  | [_uniPath] =>
    -- the oracle is the generated table (`Gen/Unicode.lean`), the same data the `_std` theorems speak about
    let t := genTables
    let stdin ← IO.getStdin
    let stdout ← IO.getStdout
    loop stdin stdout (newDState t.toUnicode)
    return 0
  | _ =>
    IO.eprintln "usage: lucid_driver <unicode.tbl>  < ops"
    return 2
