/-
  C13 (end to end) — "In a store holding no more records than the limit, searching for the full text of a record's
  title returns that record, and so does a query made of two complete words of the title in either order."

  Assembly of
  * word level   — `wordMatch_equal_some`, `wordMatch_equal_unfinished_some` (`Lemmas/Gates.lean`);
  * candidates   — `candOK_of_inv`, `shares_gram_of_equal` (`Lemmas/Candidates.lean`);
  * control flow — `C13_first_finished_word_found`, `C03_single_word_found` (`C13.lean`).
  Everything rests on ONE query word: the first. If it is finished and spelled like some title word, the record is
  returned whatever follows it; if it is the only query word it may also be unfinished.
-/
import LucidProofs.C03

namespace Lucid

/-! ### the core: the first query word is spelled like a title word -/

/-- **C13 (core).** Store with the trigram index of its records, no more records than the limit; `r` one of its
    records. If the first word `q0` of the query has exactly the characters of some word `w` of the title, and `q0`
    is finished or is the only query word, then `r` is among the results — whatever the other query words are.
    Texts: well-formed (`TextOK`) with stems no longer than their words (`StemsLe`); both are delivered by the
    tokenizer (C15). -/
theorem C13_first_word_equal_found (S : Sorter) (hS : SorterOK S) (K : Consts)
    (hC : CostsOK K = true) (hN : GateNumsOK K = true) (hK : 1 ≤ K.sortFactor) (hP : 1 ≤ K.prepFactor)
    (order : List ScoreType) (st : Store) (hI : StoreIndexInv st) (hlim : st.records.length ≤ st.limit)
    (ix : Nat) (r : Record) (hr : st.records[ix]? = some r) (hrt : TextOK r.title) (hrs : StemsLe r.title)
    (q : Text) (hqt : TextOK q) (hqs : StemsLe q) (q0 : WordShape) (hq0 : q.words[0]? = some q0)
    (hshape : q0.fin = true ∨ q.words = [q0])
    (w : WordShape) (hw : w ∈ r.title.words) (heq : wchars q q0 = wchars r.title w) :
    ∃ res ∈ st.search S K order q, res.id = r.id ∧ res = st.render (scoreHit K order q r) := by
  have hv : q0 ∈ q.words := List.mem_of_getElem? hq0
  have hvin := hqt.wordIn hv
  have hwin := hrt.wordIn hw
  have hne : wchars q q0 ≠ [] := by
    intro e; have := wchars_length hvin; rw [e] at this; have := hvin.len_pos; simp at *; omega
  have hqne : q.words ≠ [] := by intro e; rw [e] at hv; simp at hv
  have hc : CandOK S K st q ix r :=
    candOK_of_inv S hS K hK hP st hI hlim q hqne ix r hr (shares_gram_of_equal hw hv hne heq)
  cases hfin : q0.fin with
  | true =>
    exact C13_first_finished_word_found S hS K hK order st q ix r hc hrt hqt q0 hq0 hfin w hw
      (wordMatch_equal_some K hC hN r.title w q q0 hwin hvin hfin (hqt.stems q0 hv) (hqs q0 hv)
        (hrt.stems w hw) (hrs w hw) heq)
  | false =>
    have hq : q.words = [q0] := by
      rcases hshape with h | h
      · rw [hfin] at h; cases h
      · exact h
    exact C03_single_word_found S hS K hK order st q ix r hc hrt hqt q0 hq w hw
      (wordMatch_equal_unfinished_some K hC hN r.title w q q0 hwin hvin hfin (hqt.stems q0 hv) (hqs q0 hv) heq)

/-- **C13 (the title typed in full).** The query has the same words as the title, character for character and in
    the same order; all query words except possibly the last are finished (what `tokenize_query` produces). Then
    the record is among the results. -/
theorem C13_whole_title_found (S : Sorter) (hS : SorterOK S) (K : Consts)
    (hC : CostsOK K = true) (hN : GateNumsOK K = true) (hK : 1 ≤ K.sortFactor) (hP : 1 ≤ K.prepFactor)
    (order : List ScoreType) (st : Store) (hI : StoreIndexInv st) (hlim : st.records.length ≤ st.limit)
    (ix : Nat) (r : Record) (hr : st.records[ix]? = some r) (hrt : TextOK r.title) (hrs : StemsLe r.title)
    (hne : r.title.words ≠ [])
    (q : Text) (hqt : TextOK q) (hqs : StemsLe q)
    (hinit : ∀ i w, q.words[i]? = some w → i + 1 < q.words.length → w.fin = true)
    (hsame : q.words.map (wchars q) = r.title.words.map (wchars r.title)) :
    ∃ res ∈ st.search S K order q, res.id = r.id ∧ res = st.render (scoreHit K order q r) := by
  cases hws : r.title.words with
  | nil => exact absurd hws hne
  | cons w ws =>
    cases hqw : q.words with
    | nil => rw [hws, hqw] at hsame; simp at hsame
    | cons q0 qs =>
      rw [hws, hqw] at hsame
      simp only [List.map_cons, List.cons.injEq] at hsame
      refine C13_first_word_equal_found S hS K hC hN hK hP order st hI hlim ix r hr hrt hrs q hqt hqs q0
        (by rw [hqw]; rfl) ?_ w (by rw [hws]; exact List.mem_cons_self) hsame.1
      cases qs with
      | nil => exact Or.inr hqw
      | cons q1 qs' =>
        exact Or.inl (hinit 0 q0 (by rw [hqw]; rfl) (by rw [hqw]; simp))

/-- **C13 (two complete title words).** The query consists of two words; the first is finished and has the
    characters of some title word. Then the record is among the results. Nothing at all is required of the second
    query word, so in particular it may be any other title word, before or after the first one in the title. -/
theorem C13_two_words_found (S : Sorter) (hS : SorterOK S) (K : Consts)
    (hC : CostsOK K = true) (hN : GateNumsOK K = true) (hK : 1 ≤ K.sortFactor) (hP : 1 ≤ K.prepFactor)
    (order : List ScoreType) (st : Store) (hI : StoreIndexInv st) (hlim : st.records.length ≤ st.limit)
    (ix : Nat) (r : Record) (hr : st.records[ix]? = some r) (hrt : TextOK r.title) (hrs : StemsLe r.title)
    (q : Text) (hqt : TextOK q) (hqs : StemsLe q) (q0 q1 : WordShape) (hq : q.words = [q0, q1])
    (hfin : q0.fin = true)
    (w0 : WordShape) (hw0 : w0 ∈ r.title.words) (heq0 : wchars q q0 = wchars r.title w0) :
    ∃ res ∈ st.search S K order q, res.id = r.id ∧ res = st.render (scoreHit K order q r) :=
  C13_first_word_equal_found S hS K hC hN hK hP order st hI hlim ix r hr hrt hrs q hqt hqs q0
    (by rw [hq]; rfl) (Or.inl hfin) w0 hw0 heq0

/-- **C13 (two title words in either order).** For two words `wa`, `wb` of the title, the two-word query spelling
    `wa wb` and the two-word query spelling `wb wa` (first word finished) both return the record. -/
theorem C13_two_words_either_order (S : Sorter) (hS : SorterOK S) (K : Consts)
    (hC : CostsOK K = true) (hN : GateNumsOK K = true) (hK : 1 ≤ K.sortFactor) (hP : 1 ≤ K.prepFactor)
    (order : List ScoreType) (st : Store) (hI : StoreIndexInv st) (hlim : st.records.length ≤ st.limit)
    (ix : Nat) (r : Record) (hr : st.records[ix]? = some r) (hrt : TextOK r.title) (hrs : StemsLe r.title)
    (wa wb : WordShape) (hwa : wa ∈ r.title.words) (hwb : wb ∈ r.title.words)
    (q : Text) (hqt : TextOK q) (hqs : StemsLe q) (q0 q1 : WordShape) (hq : q.words = [q0, q1])
    (hfin : q0.fin = true)
    (hspell : (wchars q q0 = wchars r.title wa ∧ wchars q q1 = wchars r.title wb) ∨
              (wchars q q0 = wchars r.title wb ∧ wchars q q1 = wchars r.title wa)) :
    ∃ res ∈ st.search S K order q, res.id = r.id ∧ res = st.render (scoreHit K order q r) := by
  rcases hspell with h | h
  · exact C13_two_words_found S hS K hC hN hK hP order st hI hlim ix r hr hrt hrs q hqt hqs q0 q1 hq hfin wa hwa h.1
  · exact C13_two_words_found S hS K hC hN hK hP order st hI hlim ix r hr hrt hrs q hqt hqs q0 q1 hq hfin wb hwb h.1

/-! ### on tokenised texts, for every reachable store -/

/-- a record of a store reached by operations whose added titles are tokenised has a tokenised title -/
theorem reachable_title_tokenized (S : Sorter) (E : Env) (K : Consts) (order : List ScoreType) (ops : List StoreOp)
    (hops : ∀ id t rating, StoreOp.add id t rating ∈ ops → ∃ s, t = tokenizeRecord Gen.srcProg E s)
    (ix : Nat) (r : Record) (hr : ((Store.new K).run S K order ops).records[ix]? = some r) :
    ∃ s, r.title = tokenizeRecord Gen.srcProg E s :=
  run_records_sub S K order (fun t => ∃ s, t = tokenizeRecord Gen.srcProg E s) ops hops (Store.new K)
    (by intro r hr; simp [Store.new] at hr) r (List.mem_of_getElem? hr)

/-- **C13 on tokenised texts (title typed in full).** The store is reached from `Store::new` by any operations, the
    added titles being results of `tokenize_record`; the query is `tokenize_query` of the typed text `s`. Premise
    about `s`: its tokenisation has the same words, character for character, as the (non-empty) tokenised title. -/
theorem C13_whole_title_found_tokenized (S : Sorter) (hS : SorterOK S) (E : Env)
    (hU : UnicodeFacts E.U E.K) (hT : TablesOK E.T = true) (hSt : StemHyp E)
    (hC : CostsOK E.K = true) (hN : GateNumsOK E.K = true) (hK : 1 ≤ E.K.sortFactor) (hP : 1 ≤ E.K.prepFactor)
    (order : List ScoreType) (ops : List StoreOp)
    (hops : ∀ id t rating, StoreOp.add id t rating ∈ ops → ∃ s, t = tokenizeRecord Gen.srcProg E s)
    (hlim : ((Store.new E.K).run S E.K order ops).records.length ≤ ((Store.new E.K).run S E.K order ops).limit)
    (ix : Nat) (r : Record) (hr : ((Store.new E.K).run S E.K order ops).records[ix]? = some r)
    (hne : r.title.words ≠ [])
    (s : List Nat)
    (hsame : (tokenizeQuery Gen.srcProg E s).words.map (wchars (tokenizeQuery Gen.srcProg E s))
               = r.title.words.map (wchars r.title)) :
    ∃ res ∈ ((Store.new E.K).run S E.K order ops).search S E.K order (tokenizeQuery Gen.srcProg E s),
      res.id = r.id ∧
      res = ((Store.new E.K).run S E.K order ops).render (scoreHit E.K order (tokenizeQuery Gen.srcProg E s) r) := by
  have hqi : TokInv E true s (tokenizeQuery Gen.srcProg E s) := C15_query_anyK E hU hT hSt s
  obtain ⟨s', hs'⟩ := reachable_title_tokenized S E E.K order ops hops ix r hr
  have hri : TokInv E false s' r.title := by rw [hs']; exact C15_record_anyK E hU hT hSt s'
  exact C13_whole_title_found S hS E.K hC hN hK hP order _ (StoreIndexInv_reachable S E.K order ops) hlim ix r hr
    hri.textOK hri.stemsLe hne _ hqi.textOK hqi.stemsLe (hqi.fin_query_init rfl) hsame

/-- **C13 on tokenised texts (two complete title words, either order).** Premise about the typed text `s`: its
    tokenisation has two words, spelled like two words `wa`, `wb` of the tokenised title, in this or the opposite
    order. (The first word of a two-word tokenised query is always finished.) -/
theorem C13_two_words_found_tokenized (S : Sorter) (hS : SorterOK S) (E : Env)
    (hU : UnicodeFacts E.U E.K) (hT : TablesOK E.T = true) (hSt : StemHyp E)
    (hC : CostsOK E.K = true) (hN : GateNumsOK E.K = true) (hK : 1 ≤ E.K.sortFactor) (hP : 1 ≤ E.K.prepFactor)
    (order : List ScoreType) (ops : List StoreOp)
    (hops : ∀ id t rating, StoreOp.add id t rating ∈ ops → ∃ s, t = tokenizeRecord Gen.srcProg E s)
    (hlim : ((Store.new E.K).run S E.K order ops).records.length ≤ ((Store.new E.K).run S E.K order ops).limit)
    (ix : Nat) (r : Record) (hr : ((Store.new E.K).run S E.K order ops).records[ix]? = some r)
    (wa wb : WordShape) (hwa : wa ∈ r.title.words) (hwb : wb ∈ r.title.words)
    (s : List Nat) (q0 q1 : WordShape) (hq : (tokenizeQuery Gen.srcProg E s).words = [q0, q1])
    (hspell : (wchars (tokenizeQuery Gen.srcProg E s) q0 = wchars r.title wa ∧
               wchars (tokenizeQuery Gen.srcProg E s) q1 = wchars r.title wb) ∨
              (wchars (tokenizeQuery Gen.srcProg E s) q0 = wchars r.title wb ∧
               wchars (tokenizeQuery Gen.srcProg E s) q1 = wchars r.title wa)) :
    ∃ res ∈ ((Store.new E.K).run S E.K order ops).search S E.K order (tokenizeQuery Gen.srcProg E s),
      res.id = r.id ∧
      res = ((Store.new E.K).run S E.K order ops).render (scoreHit E.K order (tokenizeQuery Gen.srcProg E s) r) := by
  have hqi : TokInv E true s (tokenizeQuery Gen.srcProg E s) := C15_query_anyK E hU hT hSt s
  obtain ⟨s', hs'⟩ := reachable_title_tokenized S E E.K order ops hops ix r hr
  have hri : TokInv E false s' r.title := by rw [hs']; exact C15_record_anyK E hU hT hSt s'
  have hfin : q0.fin = true := hqi.fin_query_init rfl 0 q0 (by rw [hq]; rfl) (by rw [hq]; simp)
  exact C13_two_words_either_order S hS E.K hC hN hK hP order _ (StoreIndexInv_reachable S E.K order ops) hlim ix r hr
    hri.textOK hri.stemsLe wa wb hwa hwb _ hqi.textOK hqi.stemsLe q0 q1 hq hfin hspell

/-! ### instantiations at the constants generated from the source -/

theorem C13_first_word_equal_found_src (S : Sorter) (hS : SorterOK S)
    (st : Store) (hI : StoreIndexInv st) (hlim : st.records.length ≤ st.limit)
    (ix : Nat) (r : Record) (hr : st.records[ix]? = some r) (hrt : TextOK r.title) (hrs : StemsLe r.title)
    (q : Text) (hqt : TextOK q) (hqs : StemsLe q) (q0 : WordShape) (hq0 : q.words[0]? = some q0)
    (hshape : q0.fin = true ∨ q.words = [q0])
    (w : WordShape) (hw : w ∈ r.title.words) (heq : wchars q q0 = wchars r.title w) :
    ∃ res ∈ st.search S Gen.srcConsts Gen.srcScoreOrder q,
      res.id = r.id ∧ res = st.render (scoreHit Gen.srcConsts Gen.srcScoreOrder q r) :=
  C13_first_word_equal_found S hS Gen.srcConsts costsOK_src gateNumsOK_src (by decide) (by decide)
    Gen.srcScoreOrder st hI hlim ix r hr hrt hrs q hqt hqs q0 hq0 hshape w hw heq

theorem C13_whole_title_found_src (S : Sorter) (hS : SorterOK S)
    (st : Store) (hI : StoreIndexInv st) (hlim : st.records.length ≤ st.limit)
    (ix : Nat) (r : Record) (hr : st.records[ix]? = some r) (hrt : TextOK r.title) (hrs : StemsLe r.title)
    (hne : r.title.words ≠ [])
    (q : Text) (hqt : TextOK q) (hqs : StemsLe q)
    (hinit : ∀ i w, q.words[i]? = some w → i + 1 < q.words.length → w.fin = true)
    (hsame : q.words.map (wchars q) = r.title.words.map (wchars r.title)) :
    ∃ res ∈ st.search S Gen.srcConsts Gen.srcScoreOrder q,
      res.id = r.id ∧ res = st.render (scoreHit Gen.srcConsts Gen.srcScoreOrder q r) :=
  C13_whole_title_found S hS Gen.srcConsts costsOK_src gateNumsOK_src (by decide) (by decide)
    Gen.srcScoreOrder st hI hlim ix r hr hrt hrs hne q hqt hqs hinit hsame

theorem C13_two_words_found_src (S : Sorter) (hS : SorterOK S)
    (st : Store) (hI : StoreIndexInv st) (hlim : st.records.length ≤ st.limit)
    (ix : Nat) (r : Record) (hr : st.records[ix]? = some r) (hrt : TextOK r.title) (hrs : StemsLe r.title)
    (q : Text) (hqt : TextOK q) (hqs : StemsLe q) (q0 q1 : WordShape) (hq : q.words = [q0, q1])
    (hfin : q0.fin = true)
    (w0 : WordShape) (hw0 : w0 ∈ r.title.words) (heq0 : wchars q q0 = wchars r.title w0) :
    ∃ res ∈ st.search S Gen.srcConsts Gen.srcScoreOrder q,
      res.id = r.id ∧ res = st.render (scoreHit Gen.srcConsts Gen.srcScoreOrder q r) :=
  C13_two_words_found S hS Gen.srcConsts costsOK_src gateNumsOK_src (by decide) (by decide)
    Gen.srcScoreOrder st hI hlim ix r hr hrt hrs q hqt hqs q0 q1 hq hfin w0 hw0 heq0

theorem C13_two_words_either_order_src (S : Sorter) (hS : SorterOK S)
    (st : Store) (hI : StoreIndexInv st) (hlim : st.records.length ≤ st.limit)
    (ix : Nat) (r : Record) (hr : st.records[ix]? = some r) (hrt : TextOK r.title) (hrs : StemsLe r.title)
    (wa wb : WordShape) (hwa : wa ∈ r.title.words) (hwb : wb ∈ r.title.words)
    (q : Text) (hqt : TextOK q) (hqs : StemsLe q) (q0 q1 : WordShape) (hq : q.words = [q0, q1])
    (hfin : q0.fin = true)
    (hspell : (wchars q q0 = wchars r.title wa ∧ wchars q q1 = wchars r.title wb) ∨
              (wchars q q0 = wchars r.title wb ∧ wchars q q1 = wchars r.title wa)) :
    ∃ res ∈ st.search S Gen.srcConsts Gen.srcScoreOrder q,
      res.id = r.id ∧ res = st.render (scoreHit Gen.srcConsts Gen.srcScoreOrder q r) :=
  C13_two_words_either_order S hS Gen.srcConsts costsOK_src gateNumsOK_src (by decide) (by decide)
    Gen.srcScoreOrder st hI hlim ix r hr hrt hrs wa wb hwa hwb q hqt hqs q0 q1 hq hfin hspell

/-- C13 (title typed in full) at the generated constants, step lists and score order, in every language -/
theorem C13_whole_title_found_tokenized_src (S : Sorter) (hS : SorterOK S)
    (U : Unicode) (T : LangTables) (stem : List Nat → Nat)
    (hU : UnicodeFacts U Gen.srcConsts) (hT : TablesOK T = true) (hSt : StemHyp (Gen.srcProg.env U T stem))
    (ops : List StoreOp)
    (hops : ∀ id t rating, StoreOp.add id t rating ∈ ops →
      ∃ s, t = tokenizeRecord Gen.srcProg (Gen.srcProg.env U T stem) s)
    (hlim : ((Store.new Gen.srcConsts).run S Gen.srcConsts Gen.srcScoreOrder ops).records.length
              ≤ ((Store.new Gen.srcConsts).run S Gen.srcConsts Gen.srcScoreOrder ops).limit)
    (ix : Nat) (r : Record)
    (hr : ((Store.new Gen.srcConsts).run S Gen.srcConsts Gen.srcScoreOrder ops).records[ix]? = some r)
    (hne : r.title.words ≠ [])
    (s : List Nat)
    (hsame : (tokenizeQuery Gen.srcProg (Gen.srcProg.env U T stem) s).words.map
                (wchars (tokenizeQuery Gen.srcProg (Gen.srcProg.env U T stem) s))
               = r.title.words.map (wchars r.title)) :
    ∃ res ∈ ((Store.new Gen.srcConsts).run S Gen.srcConsts Gen.srcScoreOrder ops).search S Gen.srcConsts
        Gen.srcScoreOrder (tokenizeQuery Gen.srcProg (Gen.srcProg.env U T stem) s),
      res.id = r.id ∧
      res = ((Store.new Gen.srcConsts).run S Gen.srcConsts Gen.srcScoreOrder ops).render
              (scoreHit Gen.srcConsts Gen.srcScoreOrder (tokenizeQuery Gen.srcProg (Gen.srcProg.env U T stem) s) r) :=
  C13_whole_title_found_tokenized S hS (Gen.srcProg.env U T stem) hU hT hSt costsOK_src gateNumsOK_src
    (show 1 ≤ Gen.srcConsts.sortFactor by decide) (show 1 ≤ Gen.srcConsts.prepFactor by decide) Gen.srcScoreOrder
    ops hops hlim ix r hr hne s hsame

/-- C13 (two complete title words, either order) at the generated constants, in every language -/
theorem C13_two_words_found_tokenized_src (S : Sorter) (hS : SorterOK S)
    (U : Unicode) (T : LangTables) (stem : List Nat → Nat)
    (hU : UnicodeFacts U Gen.srcConsts) (hT : TablesOK T = true) (hSt : StemHyp (Gen.srcProg.env U T stem))
    (ops : List StoreOp)
    (hops : ∀ id t rating, StoreOp.add id t rating ∈ ops →
      ∃ s, t = tokenizeRecord Gen.srcProg (Gen.srcProg.env U T stem) s)
    (hlim : ((Store.new Gen.srcConsts).run S Gen.srcConsts Gen.srcScoreOrder ops).records.length
              ≤ ((Store.new Gen.srcConsts).run S Gen.srcConsts Gen.srcScoreOrder ops).limit)
    (ix : Nat) (r : Record)
    (hr : ((Store.new Gen.srcConsts).run S Gen.srcConsts Gen.srcScoreOrder ops).records[ix]? = some r)
    (wa wb : WordShape) (hwa : wa ∈ r.title.words) (hwb : wb ∈ r.title.words)
    (s : List Nat) (q0 q1 : WordShape)
    (hq : (tokenizeQuery Gen.srcProg (Gen.srcProg.env U T stem) s).words = [q0, q1])
    (hspell : (wchars (tokenizeQuery Gen.srcProg (Gen.srcProg.env U T stem) s) q0 = wchars r.title wa ∧
               wchars (tokenizeQuery Gen.srcProg (Gen.srcProg.env U T stem) s) q1 = wchars r.title wb) ∨
              (wchars (tokenizeQuery Gen.srcProg (Gen.srcProg.env U T stem) s) q0 = wchars r.title wb ∧
               wchars (tokenizeQuery Gen.srcProg (Gen.srcProg.env U T stem) s) q1 = wchars r.title wa)) :
    ∃ res ∈ ((Store.new Gen.srcConsts).run S Gen.srcConsts Gen.srcScoreOrder ops).search S Gen.srcConsts
        Gen.srcScoreOrder (tokenizeQuery Gen.srcProg (Gen.srcProg.env U T stem) s),
      res.id = r.id ∧
      res = ((Store.new Gen.srcConsts).run S Gen.srcConsts Gen.srcScoreOrder ops).render
              (scoreHit Gen.srcConsts Gen.srcScoreOrder (tokenizeQuery Gen.srcProg (Gen.srcProg.env U T stem) s) r) :=
  C13_two_words_found_tokenized S hS (Gen.srcProg.env U T stem) hU hT hSt costsOK_src gateNumsOK_src
    (show 1 ≤ Gen.srcConsts.sortFactor by decide) (show 1 ≤ Gen.srcConsts.prepFactor by decide) Gen.srcScoreOrder
    ops hops hlim ix r hr wa wb hwa hwb s q0 q1 hq hspell

namespace C13bExample
open C13Example C03Example

/-! ### non-vacuity -/

/-- query "abc def" (last word unfinished): the whole title of `exRecord` -/
def exQueryW : Text :=
  { words := [wd 0 0 3 true, wd 1 4 7 false], source := [97,98,99,32,100,101,102],
    chars := [97,98,99,32,100,101,102], classes := List.replicate 7 CharClass.any }
/-- query "def abc" (last word unfinished): the two title words in the opposite order -/
def exQueryR : Text :=
  { words := [wd 0 0 3 true, wd 1 4 7 false], source := [100,101,102,32,97,98,99],
    chars := [100,101,102,32,97,98,99], classes := List.replicate 7 CharClass.any }

theorem exQueryW_ok : TextOK exQueryW :=
  ⟨by decide, by decide, by decide,
   by intro i h; have hi : i = 0 := (by have : exQueryW.words.length = 2 := rfl; omega); subst hi; simp [exQueryW, wd],
   by decide⟩
theorem exQueryR_ok : TextOK exQueryR :=
  ⟨by decide, by decide, by decide,
   by intro i h; have hi : i = 0 := (by have : exQueryR.words.length = 2 := rfl; omega); subst hi; simp [exQueryR, wd],
   by decide⟩

theorem exTitle_stems : StemsLe exTitle := by unfold StemsLe; decide
theorem exQueryW_stems : StemsLe exQueryW := by unfold StemsLe; decide
theorem exQueryR_stems : StemsLe exQueryR := by unfold StemsLe; decide

/-- the hypotheses of `C13_whole_title_found_src` are met by "abc def" against the title "abc def" -/
example : ∃ res ∈ exStore.search exSorter Gen.srcConsts Gen.srcScoreOrder exQueryW, res.id = 42 ∧
    res = exStore.render (scoreHit Gen.srcConsts Gen.srcScoreOrder exQueryW exRecord) :=
  C13_whole_title_found_src exSorter exSorter_ok exStore exStore_inv (by decide) 0 exRecord (by decide) exTitle_ok
    exTitle_stems (by decide) exQueryW exQueryW_ok exQueryW_stems
    (by
      intro i w hw hi
      have hi0 : i = 0 := (by have : exQueryW.words.length = 2 := rfl; omega)
      subst hi0
      simp only [exQueryW, wd, List.getElem?_cons_zero, Option.some.injEq] at hw
      rw [← hw])
    (by decide)

/-- the hypotheses of `C13_two_words_either_order_src` are met by "def abc" against the title "abc def" -/
example : ∃ res ∈ exStore.search exSorter Gen.srcConsts Gen.srcScoreOrder exQueryR, res.id = 42 ∧
    res = exStore.render (scoreHit Gen.srcConsts Gen.srcScoreOrder exQueryR exRecord) :=
  C13_two_words_either_order_src exSorter exSorter_ok exStore exStore_inv (by decide) 0 exRecord (by decide) exTitle_ok
    exTitle_stems (wd 0 0 3 true) (wd 1 4 7 true) (by decide) (by decide) exQueryR exQueryR_ok exQueryR_stems
    (wd 0 0 3 true) (wd 1 4 7 false) rfl rfl (Or.inr (by decide))

/-- the record held by the store reached by `exOps` (title "Abc def" tokenised with the toy English environment) -/
def exRec : Record :=
  { ix := 0, id := 42, title := tokenizeRecord Gen.srcProg exEnv [65, 98, 99, 32, 100, 101, 102], rating := 7 }

theorem exOps_tokenized :
    ∀ id t rating, StoreOp.add id t rating ∈ exOps → ∃ s, t = tokenizeRecord Gen.srcProg exEnv s := by
  intro id t rating hm
  simp only [exOps, List.mem_cons, StoreOp.add.injEq, List.not_mem_nil, or_false, reduceCtorEq] at hm
  exact ⟨_, hm.2.1⟩

/-- the hypotheses of `C13_whole_title_found_tokenized_src` are met by typing "ABC, def" against "Abc def" -/
example : ∃ res ∈ ((Store.new Gen.srcConsts).run exSorter Gen.srcConsts Gen.srcScoreOrder exOps).search exSorter
    Gen.srcConsts Gen.srcScoreOrder (tokenizeQuery Gen.srcProg exEnv [65, 66, 67, 44, 32, 100, 101, 102]),
    res.id = 42 := by
  obtain ⟨res, h1, h2, _⟩ := C13_whole_title_found_tokenized_src exSorter exSorter_ok toyU Gen.lang_en toyStem
    toyU_facts tablesOK_en (toyStemHyp _ (by decide)) exOps exOps_tokenized (by decide +kernel) 0 exRec
    (by decide +kernel) (by decide +kernel) [65, 66, 67, 44, 32, 100, 101, 102] (by decide +kernel)
  exact ⟨res, h1, h2⟩

/-- the hypotheses of `C13_two_words_found_tokenized_src` are met by typing "def abc" against "Abc def" -/
example : ∃ res ∈ ((Store.new Gen.srcConsts).run exSorter Gen.srcConsts Gen.srcScoreOrder exOps).search exSorter
    Gen.srcConsts Gen.srcScoreOrder (tokenizeQuery Gen.srcProg exEnv [100, 101, 102, 32, 97, 98, 99]),
    res.id = 42 := by
  obtain ⟨res, h1, h2, _⟩ := C13_two_words_found_tokenized_src exSorter exSorter_ok toyU Gen.lang_en toyStem
    toyU_facts tablesOK_en (toyStemHyp _ (by decide)) exOps exOps_tokenized (by decide +kernel) 0 exRec
    (by decide +kernel)
    { offset := 0, lo := 0, hi := 3, stem := 2, pos := none, fin := true }
    { offset := 1, lo := 4, hi := 7, stem := 2, pos := none, fin := true } (by decide +kernel) (by decide +kernel)
    [100, 101, 102, 32, 97, 98, 99]
    { offset := 0, lo := 0, hi := 3, stem := 2, pos := none, fin := true }
    { offset := 1, lo := 4, hi := 7, stem := 2, pos := none, fin := false } (by decide +kernel)
    (Or.inr (by decide +kernel))
  exact ⟨res, h1, h2⟩

end C13bExample

end Lucid
