/-
  C10 — a store that has been through any sequence of adds, clears, limit / marker changes and searches
  answers every search exactly like a newly constructed store holding the same records, limit and markers.
  Statements only; helper lemmas live in LucidProofs/Lemmas/Store.lean.
-/
import LucidModel.Gen.Consts
import LucidProofs.Lemmas.Store

namespace Lucid

/-- After ANY sequence of operations (add record, clear, set limit, set markers, search with empty or
    non-empty query) on a new store, every search returns exactly what the freshly constructed store
    `Store.rebuild` returns: `Store::new()`, the current limit, the current markers, then the currently held
    records added in the same order. Holds for every sorting routine `S` (no assumption at all),
    all constants and every score order. -/
theorem C10_fresh_equivalent (S : Sorter) (K : Consts) (order : List ScoreType) (ops : List StoreOp) (q : Text) :
    (Store.run S K order (Store.new K) ops).search S K order q =
      (Store.rebuild K (Store.run S K order (Store.new K) ops)).search S K order q :=
  search_eq_rebuild (StoreInv_reachable S K order ops) order q

/-- The reference store of `C10_fresh_equivalent` is determined by what the caller supplied and nothing else:
    two stores with the same `(id, title, rating)` triples in the same order, the same limit and the same markers
    have the same `rebuild`; it has an empty cache, `next_ix` = number of records, the given limit and markers,
    and its records carry exactly the supplied data. -/
theorem C10_rebuild_is_fresh (K : Consts) (st : Store) :
    (∀ st2 : Store, st2.records.map Record.data = st.records.map Record.data → st2.limit = st.limit →
        st2.dividers = st.dividers → Store.rebuild K st2 = Store.rebuild K st) ∧
    Store.rebuild K st =
      (((Store.new K).setLimit st.limit).setDividers st.dividers.1 st.dividers.2).addAll (st.records.map Record.data) ∧
    (Store.rebuild K st).topIxs = none ∧
    (Store.rebuild K st).nextIx = st.records.length ∧
    (Store.rebuild K st).limit = st.limit ∧
    (Store.rebuild K st).dividers = st.dividers ∧
    (Store.rebuild K st).records.map Record.data = st.records.map Record.data := by
  refine ⟨?_, rfl, fresh_topIxs .., by simp [Store.rebuild, fresh_nextIx], fresh_limit .., fresh_dividers .., ?_⟩
  · intro st2 h1 h2 h3
    simp only [Store.rebuild, h1, h2, h3]
  · simp only [Store.rebuild, fresh_records, mkRecords_map_data]

/-- For a reachable store the reference store is the store itself with the cache dropped
    (so "same records" includes the positions `ix`, and the trigram index is the one a fresh store builds). -/
theorem C10_rebuild_reachable (S : Sorter) (K : Consts) (order : List ScoreType) (ops : List StoreOp) :
    Store.rebuild K (Store.run S K order (Store.new K) ops) =
      { Store.run S K order (Store.new K) ops with topIxs := none } :=
  rebuild_eq_dropCache (StoreInv_reachable S K order ops)

/-- Running a search (any query `q'`, empty or not) does not change the answer of any later search `q`:
    in particular repeating a search gives the same answer. Holds for EVERY store value, reachable or not. -/
theorem C10_search_idempotent (S : Sorter) (K : Consts) (order : List ScoreType) (st : Store) (q' q : Text) :
    (st.apply S K order (.search q')).search S K order q = st.search S K order q :=
  search_after_search S K order st q' q

/-- A search changes nothing but (possibly) the cache. -/
theorem C10_search_only_cache (S : Sorter) (K : Consts) (order : List ScoreType) (st : Store) (q : Text) :
    (st.apply S K order (.search q)).nextIx = st.nextIx ∧ (st.apply S K order (.search q)).records = st.records ∧
    (st.apply S K order (.search q)).limit = st.limit ∧ (st.apply S K order (.search q)).dividers = st.dividers ∧
    (st.apply S K order (.search q)).index = st.index :=
  searchM_snd_fields S K order st q

/-- Records added after an empty-query search show up in the next one: after `search q0; add r` the cache is
    gone, so the candidate list of the next empty query is recomputed from the records including the new one. -/
theorem C10_add_visible_to_empty_query (S : Sorter) (K : Consts) (order : List ScoreType) (st : Store)
    (q0 : Text) (hq0 : q0.words = []) (id : Nat) (title : Text) (rating : Nat) :
    let st' := (st.apply S K order (.search q0)).apply S K order (.add id title rating)
    st'.topIxs = none ∧
    st'.records = st.records ++ [{ ix := st.nextIx, id := id, title := title, rating := rating }] ∧
    (st'.candidatesM S K q0).1 = (limitSort (S.sort topLe) K.sortFactor st.limit
        (st.records ++ [{ ix := st.nextIx, id := id, title := title, rating := rating }])).map (·.ix) := by
  obtain ⟨h1, h2, h3, _, _⟩ := searchM_snd_fields S K order st q0
  refine ⟨rfl, ?_, ?_⟩
  · simp [Store.apply, Store.add, h1, h2]
  · simp [Store.apply, Store.add, Store.candidatesM, Store.topIxsM, hq0, h1, h2, h3]

/-- Every operation sequence keeps the invariant `StoreInv` (positions, index and cache tied to the records). -/
theorem C10_invariant (S : Sorter) (K : Consts) (order : List ScoreType) (ops : List StoreOp) :
    StoreInv S K (Store.run S K order (Store.new K) ops) := StoreInv_reachable S K order ops

/-! ### at the constants and score order generated from the source -/

theorem C10_fresh_equivalent_src (S : Sorter) (ops : List StoreOp) (q : Text) :
    (Store.run S Gen.srcConsts Gen.srcScoreOrder (Store.new Gen.srcConsts) ops).search S Gen.srcConsts Gen.srcScoreOrder q =
      (Store.rebuild Gen.srcConsts (Store.run S Gen.srcConsts Gen.srcScoreOrder (Store.new Gen.srcConsts) ops)).search
        S Gen.srcConsts Gen.srcScoreOrder q :=
  C10_fresh_equivalent S Gen.srcConsts Gen.srcScoreOrder ops q

theorem C10_search_idempotent_src (S : Sorter) (st : Store) (q' q : Text) :
    (st.apply S Gen.srcConsts Gen.srcScoreOrder (.search q')).search S Gen.srcConsts Gen.srcScoreOrder q =
      st.search S Gen.srcConsts Gen.srcScoreOrder q :=
  C10_search_idempotent S Gen.srcConsts Gen.srcScoreOrder st q' q

theorem C10_add_visible_to_empty_query_src (S : Sorter) (st : Store) (q0 : Text) (hq0 : q0.words = [])
    (id : Nat) (title : Text) (rating : Nat) :
    ((st.apply S Gen.srcConsts Gen.srcScoreOrder (.search q0)).apply S Gen.srcConsts Gen.srcScoreOrder
        (.add id title rating)).topIxs = none :=
  (C10_add_visible_to_empty_query S Gen.srcConsts Gen.srcScoreOrder st q0 hq0 id title rating).1

/-! ### non-vacuity: a concrete run that exercises the cache (identity "sorter": the theorems assume nothing of it) -/

private def exS : Sorter := ⟨fun _ l => l⟩
private def exT (c : Nat) : Text := { words := [⟨0, 0, 1, 1, none, true⟩], source := [c], chars := [c], classes := [.any] }
private def exQ : Text := { words := [], source := [], chars := [], classes := [] }
private def exOps : List StoreOp :=
  [.add 7 (exT 97) 3, .search exQ, .setLimit 1, .add 8 (exT 98) 5, .search exQ, .setDividers [60] [62], .clear, .add 9 (exT 99) 1, .search exQ]

example : (Store.run exS Gen.srcConsts Gen.srcScoreOrder (Store.new Gen.srcConsts) exOps).topIxs = some (1, [0]) := by
  decide
example : (Store.run exS Gen.srcConsts Gen.srcScoreOrder (Store.new Gen.srcConsts) exOps).search exS Gen.srcConsts
    Gen.srcScoreOrder exQ = [⟨9, [99]⟩] := by decide

end Lucid
