/-
  C15 — well-formedness of tokenizer output.

  "For any text and language the tokeniser's original, normalised and character-class arrays have equal
   length, and its words are consecutively numbered, non-empty, ordered, non-overlapping, in bounds, begin and
   end with a letter or digit, contain no whitespace, control, punctuation-class or upper-case character, and
   have a stem length between 1 and their own length. Every letter or digit of the normalised text lies in
   exactly one word, and the original array with padding removed is the input with the language's accent
   sequences composed. Record words are all finished; in a query only the last word can be unfinished, and it
   is exactly when nothing follows it."

  Recorded deviation (finding D4, not hidden): 549 Unicode scalars are `is_uppercase` but have no lower-case
  mapping (e.g. U+1F130), so "no upper-case character" is stated as: every word character `c` with
  `isUppercase c` satisfies `lower1 c = c` (it is one that `to_lowercase` leaves alone).
  "Padding removed" is stated as "NULs removed" on both sides: the padding character is NUL, and NULs already
  in the input cannot be told from padding.

  Helper lemmas: `Lemmas/Normalize.lean`, `Lemmas/Tokenize.lean`.
-/
import LucidProofs.Lemmas.Tokenize
import LucidProofs.Lemmas.TableClosure

namespace Lucid

/-- The conjunction of the clauses of property C15 for a tokenizer result `t` on `input`
    (`query = true`: `tokenize_query`, `query = false`: `tokenize_record`).

    * `len_source`, `len_classes`: the three arrays have equal length;
    * `offsets`: the words are numbered `0, 1, 2, …`;
    * `bounds`: every word is non-empty and inside `chars`;
    * `ordered`: an earlier word ends at or before the start of any later word (ordered, non-overlapping);
    * `first_alnum`, `last_alnum`: words begin and end with a letter or digit;
    * `no_sep`: no whitespace, control or punctuation-set character inside a word;
    * `no_upper`: an upper-case character inside a word is one that `to_lowercase` leaves alone
      (finding D4: such characters exist, so the unconditional clause is false for Rust's `std`);
    * `stem`: `1 ≤ stem ≤ len`;
    * `cover`: every letter or digit of `chars` lies in exactly one word;
    * `source`: `source` without NULs is the composed input without NULs;
    * `fin_record`: record words are all finished;
    * `fin_query_init`, `fin_query_last`: in a query only the last word can be unfinished, and it is
      unfinished exactly when it ends at the end of `chars`. -/
structure TokInv (E : Env) (query : Bool) (input : List Nat) (t : Text) : Prop where
  len_source  : t.source.length = t.chars.length
  len_classes : t.classes.length = t.chars.length
  offsets     : t.words.map (·.offset) = List.range t.words.length
  bounds      : ∀ w ∈ t.words, w.lo < w.hi ∧ w.hi ≤ t.chars.length
  ordered     : t.words.Pairwise (fun a b => a.hi ≤ b.lo)
  first_alnum : ∀ w ∈ t.words, ∃ c, t.chars[w.lo]? = some c ∧ E.U.isAlnum c = true
  last_alnum  : ∀ w ∈ t.words, ∃ c, t.chars[w.hi - 1]? = some c ∧ E.U.isAlnum c = true
  no_sep      : ∀ w ∈ t.words, ∀ c ∈ slice t.chars w.lo w.hi, isSepChar E.U E.K c = false
  no_upper    : ∀ w ∈ t.words, ∀ c ∈ slice t.chars w.lo w.hi, E.U.isUppercase c = true → E.U.lower1 c = c
  stem        : ∀ w ∈ t.words, 1 ≤ w.stem ∧ w.stem ≤ w.len
  cover       : ∀ p c, t.chars[p]? = some c → E.U.isAlnum c = true →
                  ∃ w ∈ t.words, (w.lo ≤ p ∧ p < w.hi) ∧ ∀ w' ∈ t.words, w'.lo ≤ p → p < w'.hi → w' = w
  source      : t.source.filter (· ≠ 0) = (compose E.T input).filter (· ≠ 0)
  fin_record  : query = false → ∀ w ∈ t.words, w.fin = true
  fin_query_init : query = true → ∀ i w, t.words[i]? = some w → i + 1 < t.words.length → w.fin = true
  fin_query_last : query = true → ∀ w, t.words.getLast? = some w → (w.fin = false ↔ w.hi = t.chars.length)

/-- the stem hypothesis: `lang_none` needs nothing; a language with a Snowball stemmer needs
    * `FoldClosed` reduce table (decided by the kernel for the generated tables): keys are single characters and
      no replacement character is a key, so after `normalize` no character of the text is a key;
    * `LowerKeyFree` (oracle/table fact checked by the harness): lower-casing does not create a key;
    * `StemBounded`: the Snowball oracle returns between 1 and `|w|` characters **for words free of reduce-table
      keys** — the only words that can reach the stemmer.  (The unrestricted bound is false for the real German
      stemmer, `stem "ß" = 2`; see `deStem` below.) -/
def StemHyp (E : Env) : Prop :=
  E.T.stemmer = true → (FoldClosed E.T.reduce = true ∧ LowerKeyFree E ∧ StemBounded E)

/-! ### from the span invariant to `TokInv` -/

theorem pairwise_unique {α : Type} {R : α → α → Prop} {l : List α} (h : l.Pairwise R) (a b : α)
    (ha : a ∈ l) (hb : b ∈ l) (hab : ¬ R a b) (hba : ¬ R b a) : a = b := by
  obtain ⟨i, hi⟩ := List.mem_iff_getElem?.1 ha
  obtain ⟨j, hj⟩ := List.mem_iff_getElem?.1 hb
  rw [List.pairwise_iff_getElem] at h
  obtain ⟨hil, hie⟩ := List.getElem?_eq_some_iff.1 hi
  obtain ⟨hjl, hje⟩ := List.getElem?_eq_some_iff.1 hj
  rcases Nat.lt_trichotomy i j with h' | h' | h'
  · have := h i j hil hjl h'; rw [hie, hje] at this; exact absurd this hab
  · subst h'; rw [hie] at hje; exact hje
  · have := h j i hjl hil h'; rw [hie, hje] at this; exact absurd this hba

theorem tokInv_of_spanInv (E : Env) (query : Bool) (input : List Nat) (t : Text)
    (h1 : t.source.length = t.chars.length) (h2 : t.classes.length = t.chars.length)
    (h3 : t.words.map (·.offset) = List.range t.words.length)
    (h4 : SpanInv E.U.isAlnum (isSepChar E.U E.K) query t.chars (t.words.map WordShape.span))
    (h5 : ∀ c ∈ t.chars, E.U.isUppercase c = true → E.U.lower1 c = c)
    (h6 : ∀ w ∈ t.words, 1 ≤ w.stem ∧ w.stem ≤ w.len)
    (h7 : t.source.filter (· ≠ 0) = (compose E.T input).filter (· ≠ 0)) :
    TokInv E query input t := by
  have sp : ∀ w ∈ t.words, w.span ∈ t.words.map WordShape.span := fun w hw => List.mem_map_of_mem hw
  have hord : t.words.Pairwise (fun a b => a.hi ≤ b.lo) := List.pairwise_map.1 h4.ordered
  have hb : ∀ w ∈ t.words, w.lo < w.hi ∧ w.hi ≤ t.chars.length := fun w hw => h4.bounds _ (sp w hw)
  refine ⟨h1, h2, h3, hb, hord, fun w hw => h4.first _ (sp w hw), fun w hw => h4.last _ (sp w hw),
    ?_, ?_, h6, ?_, h7, ?_, ?_, ?_⟩
  · intro w hw c hc
    obtain ⟨k, hk1, hk2, hk3⟩ := mem_slice _ _ _ _ hc
    obtain ⟨c', hc', hs⟩ := h4.no_sep _ (sp w hw) k hk1 hk2
    rw [hk3] at hc'; cases hc'; exact hs
  · intro w hw c hc
    obtain ⟨k, _, _, hk3⟩ := mem_slice _ _ _ _ hc
    exact h5 c (List.mem_of_getElem? hk3)
  · intro p c hp hc
    obtain ⟨x, hx, hx1, hx2⟩ := h4.cover p c hp hc
    obtain ⟨w, hw, rfl⟩ := List.mem_map.1 hx
    refine ⟨w, hw, ⟨hx1, hx2⟩, ?_⟩
    intro w' hw' h1' h2'
    have b1 := hb w hw
    have b2 := hb w' hw'
    apply pairwise_unique hord w' w hw' hw
    · show ¬ w'.hi ≤ w.lo
      have : w.lo ≤ p := hx1
      omega
    · show ¬ w.hi ≤ w'.lo
      have : p < w.hi := hx2
      omega
  · intro hq w hw
    exact (h4.fin _ (sp w hw)).1 hq
  · intro hq i w hi hlt
    obtain ⟨hil, hie⟩ := List.getElem?_eq_some_iff.1 hi
    have hp := List.pairwise_iff_getElem.1 hord i (i + 1) hil hlt (by omega)
    have b2 := hb _ (List.getElem_mem hlt)
    rw [hie] at hp
    have hw : w ∈ t.words := hie ▸ List.getElem_mem hil
    have hiff := (h4.fin _ (sp w hw)).2 hq
    cases hf : w.fin with
    | true => rfl
    | false =>
      have : w.hi = t.chars.length := hiff.1 hf
      omega
  · intro hq w hw
    have hw' : w ∈ t.words := List.mem_of_getLast? hw
    exact (h4.fin _ (sp w hw')).2 hq

/-- the stem clause for the result of `set_stem` on a text whose words are non-empty and in bounds and whose
    characters are free of reduce-table keys (needed only when the language has a stemmer) -/
theorem setStem_bounds (E : Env) (hS : StemHyp E) (t : Text)
    (hb : ∀ w ∈ t.words, w.lo < w.hi ∧ w.hi ≤ t.chars.length)
    (hk : E.T.stemmer = true → KeyFree E.T.reduce t.chars) :
    ∀ w ∈ (t.setStem E).words, 1 ≤ w.stem ∧ w.stem ≤ w.len := by
  intro w hw
  have hst := setStem_stem E t w hw
  simp only [Text.setStem] at hw
  obtain ⟨w0, hw0, rfl⟩ := List.mem_map.1 hw
  have b := hb w0 hw0
  simp only at hst ⊢
  cases hs : E.T.stemmer with
  | false =>
    simp only [Bool.false_eq_true, if_false, WordShape.len]
    omega
  | true =>
    simp only [if_true, WordShape.len]
    have hl := slice_length t.chars w0.lo w0.hi b.2
    have hne : slice t.chars w0.lo w0.hi ≠ [] := by
      intro h; rw [h] at hl; simp at hl; omega
    have hkw : ∀ c ∈ slice t.chars w0.lo w0.hi, mapGet E.T.reduce [c] = none := by
      intro c hc
      obtain ⟨k, _, _, hk3⟩ := mem_slice _ _ _ _ hc
      exact hk hs c (List.mem_of_getElem? hk3)
    have := (hS hs).2.2 _ hne hkw
    omega

/-- steps after `strip`: `lower`, `set_pos`, `set_char_classes`, `set_stem` -/
theorem tokInv_tail (E : Env) (hU : UnicodeFacts E.U E.K) (hS : StemHyp E) (query : Bool) (input : List Nat)
    (t : Text) (h1 : t.source.length = t.chars.length)
    (h3 : t.words.map (·.offset) = List.range t.words.length)
    (h4 : SpanInv E.U.isAlnum (isSepChar E.U E.K) query t.chars (t.words.map WordShape.span))
    (h7 : t.source.filter (· ≠ 0) = (compose E.T input).filter (· ≠ 0))
    (hk : E.T.stemmer = true → KeyFree E.T.reduce t.chars) :
    TokInv E query input ((((t.lower E).setPos E).setCharClasses E).setStem E) := by
  have hk' : E.T.stemmer = true → KeyFree E.T.reduce (t.lower E).chars :=
    fun hs => keyFree_lower E (hS hs).2.1 t (hk hs)
  obtain ⟨g, hg, hal, hsep, hup⟩ := lower_spec E E.K hU t
  have h4' := spanInv_map _ _ g hal hsep query t.chars _ h4
  rw [hg] at hk' ⊢
  obtain ⟨p1, p2, p3, p4, _⟩ := setPos_spans E { t with chars := t.chars.map g }
  obtain ⟨c1, c2, c3, c4⟩ := setCharClasses_spec E (({ t with chars := t.chars.map g } : Text).setPos E)
  obtain ⟨s1, s2, s3, s4, s5⟩ :=
    setStem_spans E ((({ t with chars := t.chars.map g } : Text).setPos E).setCharClasses E)
  have hchars : (((({ t with chars := t.chars.map g } : Text).setPos E).setCharClasses E).setStem E).chars =
      t.chars.map g := by rw [s3, c3, p3]
  have hspans : (((({ t with chars := t.chars.map g } : Text).setPos E).setCharClasses E).setStem E).words.map
      WordShape.span = t.words.map WordShape.span := by rw [s1, c2, p1]
  have hlenw : (((({ t with chars := t.chars.map g } : Text).setPos E).setCharClasses E).setStem E).words.length =
      t.words.length := by
    have := congrArg List.length hspans
    simpa using this
  apply tokInv_of_spanInv
  · rw [s4, c4, p4, hchars]; simpa using h1
  · rw [s5, c1, hchars, p3]
  · rw [s2, c2, p2, hlenw]; exact h3
  · rw [hspans, hchars]; exact h4'
  · rw [hchars]; exact hup
  · refine setStem_bounds E hS _ ?_ (by rw [c3, p3]; exact hk')
    intro w hw
    rw [c2] at hw
    rw [c3, p3]
    have : w.span ∈ t.words.map WordShape.span := by
      rw [← p1]; exact List.mem_map_of_mem hw
    exact h4'.bounds _ this
  · rw [s4, c4, p4]; exact h7

/-- the whole pipeline after `normalize` (and `fin`): split on whitespace/control/punctuation, strip
    non-alphanumerics, lower, set_pos, set_char_classes, set_stem -/
theorem tokInv_of_normInv (E : Env) (hU : UnicodeFacts E.U E.K) (hS : StemHyp E) (query : Bool)
    (input : List Nat) (t : Text) (hn : NormInv E input (!query) t)
    (hk : E.T.stemmer = true → KeyFree E.T.reduce t.chars) :
    TokInv E query input
      ((((((t.split E [CharClass.whitespace, CharClass.control, CharClass.punctuation]).strip E
        [CharClass.notAlphaNum]).lower E).setPos E).setCharClasses E).setStem E) := by
  obtain ⟨⟨w0, hw, hlo, hhi, hfin⟩, hl, hs⟩ := hn
  obtain ⟨a1, a2, a3, a4⟩ :=
    split_single E [CharClass.whitespace, CharClass.control, CharClass.punctuation] t w0 hw hlo hhi
  obtain ⟨b1, b2, b3, b4⟩ := strip_spans E [CharClass.notAlphaNum]
    (t.split E [CharClass.whitespace, CharClass.control, CharClass.punctuation])
  rw [patMatches_sep, hfin] at a1
  rw [patMatches_notAlnum, a1, a3] at b1
  have hsplit := splitInv_splitSpanList (isSepChar E.U E.K) query t.chars
  have hstrip := spanInv_strip E.U.isAlnum (isSepChar E.U E.K) hU.sep_not_alnum query t.chars _ hsplit
  apply tokInv_tail E hU hS
  · rw [b4, b3, a4, a3]; exact hl
  · exact b2
  · rw [b1, b3, a3]; exact hstrip
  · rw [b4, a4]; exact hs
  · rw [b3, a3]; exact hk

/-! ### the property theorems -/

/-- **C15 (queries), any constants.** For every input text, language tables and oracles meeting the named
    hypotheses, the result of the *generated* query pipeline (`normalize, fin(false), split, strip, lower,
    set_pos, set_char_classes, set_stem`) satisfies every clause of `TokInv`. -/
theorem C15_query_anyK (E : Env) (hU : UnicodeFacts E.U E.K) (hT : TablesOK E.T = true) (hS : StemHyp E)
    (s : List Nat) : TokInv E true s (runSteps E Gen.srcQuerySteps s) := by
  show TokInv E true s (((((((((Text.fromChars s).normalize E).setFin false).split E _).strip E _).lower E).setPos E).setCharClasses E).setStem E)
  exact tokInv_of_normInv E hU hS true s _ (setFin_normInv E s true false _ (normalize_fromChars E hT s))
    (fun hs => normalize_fromChars_keyFree E (hS hs).1 s)

/-- **C15 (records), any constants.** Same for the generated record pipeline (no `fin` step: all words are
    finished). -/
theorem C15_record_anyK (E : Env) (hU : UnicodeFacts E.U E.K) (hT : TablesOK E.T = true) (hS : StemHyp E)
    (s : List Nat) : TokInv E false s (runSteps E Gen.srcRecordSteps s) := by
  show TokInv E false s ((((((((Text.fromChars s).normalize E).split E _).strip E _).lower E).setPos E).setCharClasses E).setStem E)
  exact tokInv_of_normInv E hU hS false s _ (normalize_fromChars E hT s)
    (fun hs => normalize_fromChars_keyFree E (hS hs).1 s)

/-- **C15 for `tokenize_query`.** What a user learns: whatever text is typed and whichever language is
    chosen, the tokenized query has source, normalised and class arrays of one length; its words are numbered
    0,1,2,…, non-empty, in bounds, ordered and disjoint; each begins and ends with a letter or digit and
    contains no whitespace, control or punctuation character; the only upper-case characters left are those
    `to_lowercase` does not change (finding D4); `1 ≤ stem ≤ len`; every letter/digit is in exactly one word;
    the source without NUL padding is the composed input; only the last word can be unfinished, and it is
    exactly when it reaches the end of the text.
    Hypotheses: the constants are the generated ones (`hK`), the Unicode oracle satisfies `UnicodeFacts` with
    the generated punctuation set (checked against Rust's `std` by the harness), the language tables satisfy
    `TablesOK` (decided by the kernel for the seven generated languages), and, if the language has a
    stemmer, `StemHyp`: the reduce table is `FoldClosed` (kernel-decided), lower-casing creates no reduce-table
    key (`LowerKeyFree`, checked by the harness against `std` and the tables), and the Snowball oracle is bounded
    on words free of reduce-table keys (`StemBounded`; satisfiable by a stemmer with `stem "ß" = 2`, see
    `C15_query_eszett`). -/
theorem C15_query (E : Env) (hK : E.K = Gen.srcConsts) (hU : UnicodeFacts E.U Gen.srcConsts)
    (hT : TablesOK E.T = true) (hS : StemHyp E) (s : List Nat) :
    TokInv E true s (runSteps E Gen.srcQuerySteps s) :=
  C15_query_anyK E (hK ▸ hU) hT hS s

/-- **C15 for `tokenize_record`.** As `C15_query`, and every word of a record is finished. -/
theorem C15_record (E : Env) (hK : E.K = Gen.srcConsts) (hU : UnicodeFacts E.U Gen.srcConsts)
    (hT : TablesOK E.T = true) (hS : StemHyp E) (s : List Nat) :
    TokInv E false s (runSteps E Gen.srcRecordSteps s) :=
  C15_record_anyK E (hK ▸ hU) hT hS s

/-- the entry points of the registry at the generated program -/
theorem C15_tokenizeQuery_src (U : Unicode) (T : LangTables) (stem : List Nat → Nat)
    (hU : UnicodeFacts U Gen.srcConsts) (hT : TablesOK T = true)
    (hS : StemHyp (Gen.srcProg.env U T stem)) (s : List Nat) :
    TokInv (Gen.srcProg.env U T stem) true s (tokenizeQuery Gen.srcProg (Gen.srcProg.env U T stem) s) :=
  C15_query _ rfl hU hT hS s

theorem C15_tokenizeRecord_src (U : Unicode) (T : LangTables) (stem : List Nat → Nat)
    (hU : UnicodeFacts U Gen.srcConsts) (hT : TablesOK T = true)
    (hS : StemHyp (Gen.srcProg.env U T stem)) (s : List Nat) :
    TokInv (Gen.srcProg.env U T stem) false s (tokenizeRecord Gen.srcProg (Gen.srcProg.env U T stem) s) :=
  C15_record _ rfl hU hT hS s

/-- languages without a stemmer need no stem hypothesis -/
theorem stemHyp_of_no_stemmer (E : Env) (h : E.T.stemmer = false) : StemHyp E := by
  intro h'; rw [h] at h'; cases h'

/-! ### corollaries used by later stages -/

/-- the class array is as long as the normalised text -/
theorem TokInv.classes_length {E : Env} {q : Bool} {s : List Nat} {t : Text} (h : TokInv E q s t) :
    t.classes.length = t.chars.length := h.len_classes

/-- every word slice is a non-empty range inside `chars`, `classes` and `source` -/
theorem TokInv.slice_in_bounds {E : Env} {q : Bool} {s : List Nat} {t : Text} (h : TokInv E q s t) :
    ∀ w ∈ t.words, w.lo < w.hi ∧ w.hi ≤ t.chars.length ∧ w.hi ≤ t.classes.length ∧ w.hi ≤ t.source.length := by
  intro w hw
  have := h.bounds w hw
  rw [h.len_classes, h.len_source]
  omega

/-- the word slice has exactly `len` characters -/
theorem TokInv.slice_length {E : Env} {q : Bool} {s : List Nat} {t : Text} (h : TokInv E q s t) :
    ∀ w ∈ t.words, (slice t.chars w.lo w.hi).length = w.len ∧ 0 < w.len := by
  intro w hw
  have b := h.bounds w hw
  rw [Lucid.slice_length _ _ _ b.2]
  refine ⟨rfl, ?_⟩
  show 0 < w.hi - w.lo
  omega

/-- offsets equal list positions -/
theorem TokInv.offset_eq_index {E : Env} {q : Bool} {s : List Nat} {t : Text} (h : TokInv E q s t)
    (i : Nat) (hi : i < t.words.length) : t.words[i]?.map (·.offset) = some i := by
  have := congrArg (fun l => l[i]?) h.offsets
  simp only [List.getElem?_map] at this
  rw [this, List.getElem?_range hi]

/-- consecutive words: each word ends at or before the start of the next -/
theorem TokInv.consecutive {E : Env} {q : Bool} {s : List Nat} {t : Text} (h : TokInv E q s t)
    (i : Nat) (a b : WordShape) (ha : t.words[i]? = some a) (hb : t.words[i + 1]? = some b) : a.hi ≤ b.lo := by
  obtain ⟨hil, hie⟩ := List.getElem?_eq_some_iff.1 ha
  obtain ⟨hjl, hje⟩ := List.getElem?_eq_some_iff.1 hb
  have := List.pairwise_iff_getElem.1 h.ordered i (i + 1) hil hjl (by omega)
  rw [hie, hje] at this; exact this

/-- in a query, every word (not only the last) is unfinished exactly when it ends at the end of the text -/
theorem TokInv.fin_iff {E : Env} {s : List Nat} {t : Text} (h : TokInv E true s t) :
    ∀ w ∈ t.words, (w.fin = false ↔ w.hi = t.chars.length) := by
  intro w hw
  obtain ⟨i, hi⟩ := List.mem_iff_getElem?.1 hw
  obtain ⟨hil, hie⟩ := List.getElem?_eq_some_iff.1 hi
  by_cases hlast : i + 1 < t.words.length
  · have hf := h.fin_query_init rfl i w hi hlast
    have hb := h.bounds _ (List.getElem_mem hlast)
    have hc := List.pairwise_iff_getElem.1 h.ordered i (i + 1) hil hlast (by omega)
    rw [hie] at hc
    constructor
    · intro h'; rw [hf] at h'; cases h'
    · intro h'; omega
  · apply h.fin_query_last rfl
    rw [List.getLast?_eq_getElem?]
    have : t.words.length - 1 = i := by omega
    rw [this]; exact hi

/-! ### the hypotheses are satisfiable: a toy ASCII oracle -/

/-- toy Unicode oracle: letters `a–z`, `A–Z`; digits `0–9`; whitespace = space; control = below 32;
    upper-case `A–Z` with `to_lowercase` = `+32` -/
def toyU : Unicode where
  isAlphabetic c := (decide (97 ≤ c) && decide (c ≤ 122)) || (decide (65 ≤ c) && decide (c ≤ 90))
  isNumeric c := decide (48 ≤ c) && decide (c ≤ 57)
  isWhitespace c := decide (c = 32)
  isControl c := decide (c < 32)
  isUppercase c := decide (65 ≤ c) && decide (c ≤ 90)
  lower1 c := if 65 ≤ c ∧ c ≤ 90 then c + 32 else c

theorem toyU_facts : UnicodeFacts toyU Gen.srcConsts := by
  refine ⟨?_, ?_, ?_, ?_, ?_, ?_, by decide⟩
  · intro c h
    simp [toyU, isSepChar, Unicode.isAlnum, Gen.srcConsts] at h ⊢
    omega
  · intro c
    simp only [toyU, Unicode.isAlnum]
    split
    · rw [Bool.eq_iff_iff]; simp; omega
    · rfl
  · intro c
    simp only [toyU]
    split
    · rw [Bool.eq_iff_iff]; simp; omega
    · rfl
  · intro c h
    simp [toyU, isSepChar, Gen.srcConsts] at h ⊢
    split <;> omega
  · intro c
    simp only [toyU]
    split <;> simp <;> omega
  · intro c
    simp only [toyU]
    split <;> simp <;> omega

/-- toy stemmer: half of the word, rounded up -/
def toyStem (w : List Nat) : Nat := (w.length + 1) / 2

def toyEnv (T : LangTables) : Env := { U := toyU, K := Gen.srcConsts, T := T, stem := toyStem }

theorem toyStem_bounded (T : LangTables) : StemBounded (toyEnv T) := by
  intro w hw _
  have : 0 < w.length := List.length_pos_iff.2 hw
  simp only [toyEnv, toyStem]
  omega

/-- decidable table condition for the toy oracle: the reduce table is `FoldClosed` and none of `a`–`z` (the only
    characters the toy `to_lowercase` produces) is a key -/
def ToyTableOK (T : LangTables) : Bool :=
  FoldClosed T.reduce && (List.range 26).all (fun i => (mapGet T.reduce [97 + i]).isNone)

/-- `LowerKeyFree` for the toy Unicode oracle, any stemmer oracle -/
theorem toyU_lowerKeyFree (T : LangTables) (stem : List Nat → Nat)
    (h : (List.range 26).all (fun i => (mapGet T.reduce [97 + i]).isNone) = true) :
    LowerKeyFree { U := toyU, K := Gen.srcConsts, T := T, stem := stem } := by
  intro c hc
  show mapGet T.reduce [if 65 ≤ c ∧ c ≤ 90 then c + 32 else c] = none
  split
  · rename_i hr
    have := (List.all_eq_true.1 h) (c - 65) (List.mem_range.2 (by omega))
    rw [Option.isNone_iff_eq_none] at this
    have e : c + 32 = 97 + (c - 65) := by omega
    rw [e]; exact this
  · exact hc

/-- the whole stem hypothesis for the toy oracles over a table meeting `ToyTableOK` (decidable; holds for the seven
    generated languages) -/
theorem toyStemHyp (T : LangTables) (h : ToyTableOK T = true) : StemHyp (toyEnv T) := by
  intro _
  simp only [ToyTableOK, Bool.and_eq_true] at h
  exact ⟨h.1, toyU_lowerKeyFree T toyStem h.2, toyStem_bounded T⟩

theorem toyTableOK_srcLangs : Gen.srcLangs.all (fun p => ToyTableOK p.2) = true := by decide

/-- non-vacuity of `C15_query` / `C15_record`: all hypotheses hold for the toy oracle with the generated
    English and German tables (stemmer on) and with `lang_none` (no stem hypothesis needed) -/
example (s : List Nat) : TokInv (toyEnv Gen.lang_en) true s (runSteps (toyEnv Gen.lang_en) Gen.srcQuerySteps s) :=
  C15_query _ rfl toyU_facts tablesOK_en (toyStemHyp _ (by decide)) s

example (s : List Nat) : TokInv (toyEnv Gen.lang_de) false s (runSteps (toyEnv Gen.lang_de) Gen.srcRecordSteps s) :=
  C15_record _ rfl toyU_facts tablesOK_de (toyStemHyp _ (by decide)) s

example (s : List Nat) :
    TokInv (toyEnv Gen.lang_none) true s (runSteps (toyEnv Gen.lang_none) Gen.srcQuerySteps s) :=
  C15_query _ rfl toyU_facts tablesOK_none (stemHyp_of_no_stemmer _ (by decide)) s

/-! ### the restricted stem hypothesis is satisfiable by a stemmer that lengthens `ß` (as German Snowball does) -/

/-- a stemmer oracle behaving like the real German Snowball stemmer on `ß` (U+00DF = 223): every `ß` counts
    twice (the stemmer rewrites it to `ss`), so `deStem "ß" = 2 > 1` -/
def deStem (w : List Nat) : Nat := w.length + w.count 223

def eszettEnv : Env := { U := toyU, K := Gen.srcConsts, T := Gen.lang_de, stem := deStem }

theorem deStem_eszett : eszettEnv.stem [223] = 2 := by decide

/-- the OLD, unrestricted bound (`∀ w ≠ [], 1 ≤ stem w ≤ |w|`) is false for this oracle … -/
theorem deStem_not_unrestricted :
    ¬ (∀ w : List Nat, w ≠ [] → 1 ≤ eszettEnv.stem w ∧ eszettEnv.stem w ≤ w.length) := by
  intro h
  have := (h [223] (by simp)).2
  rw [deStem_eszett] at this
  simp at this

/-- … but the restricted `StemBounded` holds: a word free of German reduce-table keys contains no `ß` -/
theorem deStem_bounded : StemBounded eszettEnv := by
  intro w hw hk
  have hl : 0 < w.length := List.length_pos_iff.2 hw
  have h0 : w.count 223 = 0 := by
    rw [List.count_eq_zero]
    intro hm
    have := hk 223 hm
    revert this
    decide
  show 1 ≤ w.length + w.count 223 ∧ w.length + w.count 223 ≤ w.length
  omega

theorem eszett_stemHyp : StemHyp eszettEnv :=
  fun _ => ⟨foldClosed_de, toyU_lowerKeyFree Gen.lang_de deStem (by decide), deStem_bounded⟩

/-- **non-vacuity for German**: `C15_query` / `C15_record` instantiated with the German tables and a stemmer
    oracle that, like the real one, returns 2 on `"ß"` -/
theorem C15_query_eszett (s : List Nat) : TokInv eszettEnv true s (runSteps eszettEnv Gen.srcQuerySteps s) :=
  C15_query _ rfl toyU_facts tablesOK_de eszett_stemHyp s

theorem C15_record_eszett (s : List Nat) : TokInv eszettEnv false s (runSteps eszettEnv Gen.srcRecordSteps s) :=
  C15_record _ rfl toyU_facts tablesOK_de eszett_stemHyp s

/-- `"Maß"` with the `ß`-doubling stemmer: the stemmer sees `mass` (4 characters, no `ß`), stem 4 ≤ len 4 -/
example : (runSteps eszettEnv Gen.srcRecordSteps [77, 97, 223]).words.map (fun w => (w.lo, w.hi, w.stem)) =
    [(0, 4, 4)] := by decide +kernel

/-- `"The Fox', 1st"` as a query: three words, the apostrophe is stripped (so `Fox` is finished), the last
    word reaches the end and is unfinished; `The` is recognised as an article after lowering -/
example : runSteps (toyEnv Gen.lang_en) Gen.srcQuerySteps [84, 104, 101, 32, 70, 111, 120, 39, 44, 32, 49, 115, 116] =
    { words := [{ offset := 0, lo := 0, hi := 3, stem := 2, pos := some Pos.article, fin := true },
                { offset := 1, lo := 4, hi := 7, stem := 2, pos := none, fin := true },
                { offset := 2, lo := 10, hi := 13, stem := 2, pos := none, fin := false }],
      source := [84, 104, 101, 32, 70, 111, 120, 39, 44, 32, 49, 115, 116],
      chars := [116, 104, 101, 32, 102, 111, 120, 39, 44, 32, 49, 115, 116],
      classes := [.consonant, .consonant, .vowel, .notAlpha, .consonant, .vowel, .consonant, .notAlpha,
                  .notAlpha, .notAlpha, .notAlpha, .consonant, .consonant] } := by decide +kernel

/-- the same text as a record: every word finished -/
example : (runSteps (toyEnv Gen.lang_en) Gen.srcRecordSteps [84, 104, 101, 32, 70, 111, 120, 39, 44, 32, 49, 115, 116]).words.map
    (fun w => (w.lo, w.hi, w.fin)) = [(0, 3, true), (4, 7, true), (10, 13, true)] := by decide +kernel

/-- `"straße"` in German: `ß` is reduced to `ss`, the source is padded with one NUL, and removing the NUL
    gives back the input -/
example : runSteps (toyEnv Gen.lang_de) Gen.srcRecordSteps [115, 116, 114, 97, 223, 101] =
    { words := [{ offset := 0, lo := 0, hi := 7, stem := 4, pos := none, fin := true }],
      source := [115, 116, 114, 97, 223, 0, 101],
      chars := [115, 116, 114, 97, 115, 115, 101],
      classes := [.consonant, .consonant, .consonant, .vowel, .consonant, .consonant, .vowel] } := by decide +kernel

end Lucid
