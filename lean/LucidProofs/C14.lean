/-
  C14 — "In a store holding no more records than the limit: a title word of at least three characters is found by a
  query that spells it as two words at any split point, and two adjacent title words separated by a single
  separator character are found by a query that runs them together, provided stemming leaves that run-together
  query word unchanged."

  End-to-end assembly:
  * word level   — `wordMatchM_split`, `wordMatchM_joined` (`Lemmas/JoinGates.lean`): the gates and the two slice
                   loops of `word_match` accept the joined word against the plain one at the price of half a typo
                   (the separator, class `notAlpha`), and the matched part reaches into the second half;
  * candidates   — `candOK_of_inv`, `shares_gram_of_prefix` / `shares_gram_of_head` (`Lemmas/Candidates.lean`);
  * control flow — `C14_split_word_found`, `C14_joined_words_found` (`C13.lean`).
  Numeric hypotheses: `CostsOK K`, `JoinNumsOK K` (both decided at `Gen.srcConsts`).
-/
import LucidProofs.C03
import LucidProofs.Lemmas.JoinGates

namespace Lucid

/-! ### word level on a fresh matrix -/

theorem wordMatch_split (K : Consts) (hC : CostsOK K = true) (hJ : JoinNumsOK K = true)
    (rt : Text) (w : WordShape) (qt : Text) (q0 q1 : WordShape)
    (hw : WordIn rt w) (hws : w.stem ≤ w.len) (hn : 3 ≤ w.len)
    (hcl : qt.classes.length = qt.chars.length)
    (hq0 : q0.lo < q0.hi) (hadj : q1.lo = q0.hi + 1) (hq1 : q1.lo < q1.hi) (hq1b : q1.hi ≤ qt.chars.length)
    (hs1 : 1 ≤ q1.stem) (hs1' : q1.stem ≤ q1.len)
    (sep : Nat) (hsep : qt.chars[q0.hi]? = some sep) (hsepc : qt.classes[q0.hi]? = some CharClass.notAlpha)
    (hchars : wchars qt q0 ++ wchars qt q1 = wchars rt w) :
    ∃ p, wordMatch K rt w qt (q0.join q1) = some p ∧ q1.lo < q0.lo + p.2.subHi :=
  wordMatchM_split K hC hJ _ (DL.MInv_new _).1 rt w qt q0 q1 hw hws hn hcl hq0 hadj hq1 hq1b hs1 hs1' sep hsep hsepc
    hchars

theorem wordMatch_joined (K : Consts) (hC : CostsOK K = true) (hJ : JoinNumsOK K = true)
    (rt : Text) (w1 w2 : WordShape) (qt : Text) (v : WordShape)
    (hcl : rt.classes.length = rt.chars.length)
    (hw1 : w1.lo < w1.hi) (hadj : w2.lo = w1.hi + 1) (hw2 : w2.lo < w2.hi) (hw2b : w2.hi ≤ rt.chars.length)
    (hs2 : w2.stem ≤ w2.len)
    (hv : WordIn qt v) (hL : 3 ≤ v.len) (hstem : v.stem = v.len)
    (sep : Nat) (hsep : rt.chars[w1.hi]? = some sep) (hsepc : rt.classes[w1.hi]? = some CharClass.notAlpha)
    (hchars : wchars qt v = wchars rt w1 ++ wchars rt w2) (hnosep : sep ∉ wchars qt v) :
    wordMatch K rt (w1.join w2) qt v = some (newPair K (w1.join w2) v (v.len + 1) v.len 5) :=
  wordMatchM_joined K hC hJ _ (DL.MInv_new _).1 rt w1 w2 qt v hcl hw1 hadj hw2 hw2b hs2 hv hL hstem sep hsep hsepc
    hchars hnosep

/-! ### the property, on well-formed texts -/

/-- **C14, split spelling.** Let a store carry the trigram index of its records (`StoreIndexInv`: true of every
    reachable store) and hold no more records than its limit. Let `r` be one of its records and `w` a word of its
    title with at least three characters. Then every query whose first two words `q0 q1` are separated by exactly
    one character of class `notAlpha` (a separator) and, run together, have the characters of `w` — `w` cut at
    ANY point into two non-empty pieces — returns `r` among the results, whatever follows in the query and
    whatever the other records, ratings, language tables and the sorting oracle are.
    Hypotheses on the texts: title and query are well-formed (`TextOK`, `StemsLe`: delivered by the tokenizer, C15),
    `q0` is a finished word (in a tokenised query every word but the last is). -/
theorem C14_split_found (S : Sorter) (hS : SorterOK S) (K : Consts)
    (hC : CostsOK K = true) (hJ : JoinNumsOK K = true) (hK : 1 ≤ K.sortFactor) (hP : 1 ≤ K.prepFactor)
    (order : List ScoreType) (st : Store) (hI : StoreIndexInv st) (hlim : st.records.length ≤ st.limit)
    (ix : Nat) (r : Record) (hr : st.records[ix]? = some r) (hrt : TextOK r.title) (hrs : StemsLe r.title)
    (q : Text) (hqt : TextOK q) (hqs : StemsLe q) (q0 q1 : WordShape)
    (hq0 : q.words[0]? = some q0) (hq1 : q.words[1]? = some q1) (hfin : q0.fin = true)
    (hadj : q1.lo = q0.hi + 1) (hsepc : q.classes[q0.hi]? = some CharClass.notAlpha)
    (w : WordShape) (hw : w ∈ r.title.words) (hn : 3 ≤ w.len)
    (hchars : wchars q q0 ++ wchars q q1 = wchars r.title w) :
    ∃ res ∈ st.search S K order q, res.id = r.id ∧ res = st.render (scoreHit K order q r) := by
  have hq0m : q0 ∈ q.words := List.mem_of_getElem? hq0
  have hq1m : q1 ∈ q.words := List.mem_of_getElem? hq1
  have b0 := hqt.bounds q0 hq0m
  have b1 := hqt.bounds q1 hq1m
  have hq0in := hqt.wordIn hq0m
  have hwin := hrt.wordIn hw
  have hsep : q.chars[q0.hi]? = some (q.chars[q0.hi]'(by omega)) := List.getElem?_eq_getElem (by omega)
  have hne : wchars q q0 ≠ [] := by
    intro e; have := wchars_length hq0in; rw [e] at this; have := hq0in.len_pos; simp at *; omega
  have hpre : wchars q q0 = (wchars r.title w).take q0.len := by
    rw [← hchars, List.take_left' (wchars_length hq0in)]
  have hc : CandOK S K st q ix r :=
    candOK_of_inv S hS K hK hP st hI hlim q (List.ne_nil_of_mem hq0m) ix r hr
      (shares_gram_of_prefix hw hq0m q0.len hne hpre)
  obtain ⟨p, hwm, hreach⟩ := wordMatch_split K hC hJ r.title w q q0 q1 hwin (hrs w hw) hn hqt.lens.2 b0.1 hadj b1.1
    b1.2 (hqt.stems q1 hq1m) (hqs q1 hq1m) _ hsep hsepc hchars
  have hlen : q0.len + q0.dist q1 ≤ w.len := by
    have h1 : q0.dist q1 = 1 := by
      unfold WordShape.dist
      have : ¬ q0.lo ≥ q1.hi := by omega
      rw [if_neg this]; omega
    have h2 : w.len = q0.len + q1.len := by
      rw [← wchars_length hwin, ← hchars, List.length_append, wchars_length hq0in,
        wchars_length (hqt.wordIn hq1m)]
    have := (hqt.wordIn hq1m).len_pos
    omega
  exact C14_split_word_found S hS K hK order st q ix r hc hrt hqt q0 q1 hq0 hq1 hfin w hw hlen p hwm hreach

/-- **C14, run-together spelling.** Store as in `C14_split_found`. Let `w1 w2` be adjacent words of the title of a
    record `r`, separated by exactly one character `sep` of class `notAlpha`. Then every query whose first word `v`
    (the only word, or a finished one) has the characters of `w1` followed by those of `w2`, is at least three
    characters long, is left unchanged by stemming (`v.stem = v.len`) and does not contain `sep` (query words
    contain no separators) returns `r` among the results. -/
theorem C14_joined_found (S : Sorter) (hS : SorterOK S) (K : Consts)
    (hC : CostsOK K = true) (hJ : JoinNumsOK K = true) (hK : 1 ≤ K.sortFactor) (hP : 1 ≤ K.prepFactor)
    (order : List ScoreType) (st : Store) (hI : StoreIndexInv st) (hlim : st.records.length ≤ st.limit)
    (ix : Nat) (r : Record) (hr : st.records[ix]? = some r) (hrt : TextOK r.title) (hrs : StemsLe r.title)
    (q : Text) (hqt : TextOK q) (v : WordShape)
    (hq0 : q.words[0]? = some v) (hshape : q.words.length = 1 ∨ v.fin = true)
    (hL : 3 ≤ v.len) (hstem : v.stem = v.len)
    (w1 w2 : WordShape) (hw1 : w1 ∈ r.title.words) (hnext : r.title.words[w1.offset + 1]? = some w2)
    (hadj : w2.lo = w1.hi + 1) (sep : Nat) (hsep : r.title.chars[w1.hi]? = some sep)
    (hsepc : r.title.classes[w1.hi]? = some CharClass.notAlpha)
    (hchars : wchars q v = wchars r.title w1 ++ wchars r.title w2) (hnosep : sep ∉ wchars q v) :
    ∃ res ∈ st.search S K order q, res.id = r.id ∧ res = st.render (scoreHit K order q r) := by
  have hvm : v ∈ q.words := List.mem_of_getElem? hq0
  obtain ⟨hw2, _, _⟩ := hrt.next hw1 hnext
  have b1 := hrt.bounds w1 hw1
  have b2 := hrt.bounds w2 hw2
  have hvin := hqt.wordIn hvm
  have hw1in := hrt.wordIn hw1
  have hw2in := hrt.wordIn hw2
  have hg : ∃ g ∈ collectGrams q, g ∈ collectGrams r.title := by
    cases hx : wchars r.title w1 with
    | nil => have := wchars_length hw1in; rw [hx] at this; have := hw1in.len_pos; simp at *; omega
    | cons c l => exact shares_gram_of_head hw1 hvm c (l ++ wchars r.title w2) l (by rw [hchars, hx]; rfl) hx
  have hc : CandOK S K st q ix r :=
    candOK_of_inv S hS K hK hP st hI hlim q (List.ne_nil_of_mem hvm) ix r hr hg
  have hwm := wordMatch_joined K hC hJ r.title w1 w2 q v hrt.lens.2 b1.1 hadj b2.1 b2.2 (hrs w2 hw2) hvin hL hstem
    sep hsep hsepc hchars hnosep
  have hlv : v.len = w1.len + w2.len := by
    rw [← wchars_length hvin, hchars, List.length_append, wchars_length hw1in, wchars_length hw2in]
  have hl2 := hw2in.len_pos
  have hlen : w1.len + w1.dist w2 ≤ v.len := by
    have h1 : w1.dist w2 = 1 := by
      unfold WordShape.dist
      have : ¬ w1.lo ≥ w2.hi := by omega
      rw [if_neg this]; omega
    omega
  refine C14_joined_words_found S hS K hK order st q ix r hc hrt hqt v hq0 hshape w1 w2 hw1 hnext hlen _ hwm ?_
  show w2.lo < w1.lo + (v.len + 1)
  have : w1.len = w1.hi - w1.lo := rfl
  omega

/-! ### every reachable store -/

/-- `C14_split_found` for every reachable store: the result of any sequence of `add`, `clear`, `set_limit`,
    `highlight_with` and `search` calls on a new store, every added title being well-formed. -/
theorem C14_split_found_reachable (S : Sorter) (hS : SorterOK S) (K : Consts)
    (hC : CostsOK K = true) (hJ : JoinNumsOK K = true) (hK : 1 ≤ K.sortFactor) (hP : 1 ≤ K.prepFactor)
    (order : List ScoreType) (ops : List StoreOp)
    (hops : ∀ id t rating, StoreOp.add id t rating ∈ ops → TextOK t ∧ StemsLe t)
    (hlim : ((Store.new K).run S K order ops).records.length ≤ ((Store.new K).run S K order ops).limit)
    (ix : Nat) (r : Record) (hr : ((Store.new K).run S K order ops).records[ix]? = some r)
    (q : Text) (hqt : TextOK q) (hqs : StemsLe q) (q0 q1 : WordShape)
    (hq0 : q.words[0]? = some q0) (hq1 : q.words[1]? = some q1) (hfin : q0.fin = true)
    (hadj : q1.lo = q0.hi + 1) (hsepc : q.classes[q0.hi]? = some CharClass.notAlpha)
    (w : WordShape) (hw : w ∈ r.title.words) (hn : 3 ≤ w.len)
    (hchars : wchars q q0 ++ wchars q q1 = wchars r.title w) :
    ∃ res ∈ ((Store.new K).run S K order ops).search S K order q,
      res.id = r.id ∧ res = ((Store.new K).run S K order ops).render (scoreHit K order q r) := by
  have hrt : TextOK r.title ∧ StemsLe r.title :=
    run_records_sub S K order (fun t => TextOK t ∧ StemsLe t) ops hops (Store.new K)
      (by intro r hr; simp [Store.new] at hr) r (List.mem_of_getElem? hr)
  exact C14_split_found S hS K hC hJ hK hP order _ (StoreIndexInv_reachable S K order ops) hlim ix r hr hrt.1 hrt.2
    q hqt hqs q0 q1 hq0 hq1 hfin hadj hsepc w hw hn hchars

/-- `C14_joined_found` for every reachable store. -/
theorem C14_joined_found_reachable (S : Sorter) (hS : SorterOK S) (K : Consts)
    (hC : CostsOK K = true) (hJ : JoinNumsOK K = true) (hK : 1 ≤ K.sortFactor) (hP : 1 ≤ K.prepFactor)
    (order : List ScoreType) (ops : List StoreOp)
    (hops : ∀ id t rating, StoreOp.add id t rating ∈ ops → TextOK t ∧ StemsLe t)
    (hlim : ((Store.new K).run S K order ops).records.length ≤ ((Store.new K).run S K order ops).limit)
    (ix : Nat) (r : Record) (hr : ((Store.new K).run S K order ops).records[ix]? = some r)
    (q : Text) (hqt : TextOK q) (v : WordShape)
    (hq0 : q.words[0]? = some v) (hshape : q.words.length = 1 ∨ v.fin = true)
    (hL : 3 ≤ v.len) (hstem : v.stem = v.len)
    (w1 w2 : WordShape) (hw1 : w1 ∈ r.title.words) (hnext : r.title.words[w1.offset + 1]? = some w2)
    (hadj : w2.lo = w1.hi + 1) (sep : Nat) (hsep : r.title.chars[w1.hi]? = some sep)
    (hsepc : r.title.classes[w1.hi]? = some CharClass.notAlpha)
    (hchars : wchars q v = wchars r.title w1 ++ wchars r.title w2) (hnosep : sep ∉ wchars q v) :
    ∃ res ∈ ((Store.new K).run S K order ops).search S K order q,
      res.id = r.id ∧ res = ((Store.new K).run S K order ops).render (scoreHit K order q r) := by
  have hrt : TextOK r.title ∧ StemsLe r.title :=
    run_records_sub S K order (fun t => TextOK t ∧ StemsLe t) ops hops (Store.new K)
      (by intro r hr; simp [Store.new] at hr) r (List.mem_of_getElem? hr)
  exact C14_joined_found S hS K hC hJ hK hP order _ (StoreIndexInv_reachable S K order ops) hlim ix r hr hrt.1 hrt.2
    q hqt v hq0 hshape hL hstem w1 w2 hw1 hnext hadj sep hsep hsepc hchars hnosep

/-! ### tokenised texts -/

/-- the class array of a tokenised query is `classOf` of its characters (`set_char_classes` is the last step
    that touches either array) -/
theorem setStem_setCharClasses_classes (E : Env) (t : Text) :
    ((t.setCharClasses E).setStem E).classes = ((t.setCharClasses E).setStem E).chars.map (classOf E) := rfl

theorem tokenizeQuery_classes (E : Env) (s : List Nat) :
    (tokenizeQuery Gen.srcProg E s).classes = (tokenizeQuery Gen.srcProg E s).chars.map (classOf E) :=
  setStem_setCharClasses_classes E
    (((((((Text.fromChars s).normalize E).setFin false).split E
      [CharClass.whitespace, CharClass.control, CharClass.punctuation]).strip E [CharClass.notAlphaNum]).lower E).setPos E)

theorem tokenizeRecord_classes (E : Env) (s : List Nat) :
    (tokenizeRecord Gen.srcProg E s).classes = (tokenizeRecord Gen.srcProg E s).chars.map (classOf E) :=
  setStem_setCharClasses_classes E
    ((((((Text.fromChars s).normalize E).split E
      [CharClass.whitespace, CharClass.control, CharClass.punctuation]).strip E [CharClass.notAlphaNum]).lower E).setPos E)

/-- a character that is not a letter and that the language's consonant/vowel table does not list gets the class
    `notAlpha` -/
theorem classOf_notAlpha (E : Env) (c : Nat) (ha : E.U.isAlphabetic c = false)
    (hT : getCharClass E.T c = none) : classOf E c = CharClass.notAlpha := by
  simp [classOf, hT, ha]

/-- in a tokenised text, a character lying between two consecutive words is neither a letter nor a digit -/
theorem TokInv.gap_not_alnum {E : Env} {qf : Bool} {s : List Nat} {t : Text} (h : TokInv E qf s t)
    (i : Nat) (a b : WordShape) (ha : t.words[i]? = some a) (hb : t.words[i + 1]? = some b)
    (p c : Nat) (hp1 : a.hi ≤ p) (hp2 : p < b.lo) (hc : t.chars[p]? = some c) : E.U.isAlnum c = false := by
  cases hal : E.U.isAlnum c with
  | false => rfl
  | true =>
    exfalso
    obtain ⟨w, hw, ⟨hw1, hw2⟩, _⟩ := h.cover p c hc hal
    obtain ⟨k, hk, rfl⟩ := List.mem_iff_getElem.mp hw
    obtain ⟨hil, hie⟩ := List.getElem?_eq_some_iff.1 ha
    obtain ⟨hjl, hje⟩ := List.getElem?_eq_some_iff.1 hb
    have hord := List.pairwise_iff_getElem.1 h.ordered
    have ba := h.bounds a (List.mem_of_getElem? ha)
    have bb := h.bounds b (List.mem_of_getElem? hb)
    rcases Nat.lt_trichotomy k i with hki | hki | hki
    · have := hord k i hk hil hki; rw [hie] at this; omega
    · subst hki; rw [hie] at hw2; omega
    · by_cases e : k = i + 1
      · subst e; rw [hje] at hw1; omega
      · have := hord (i + 1) k hjl hk (by omega); rw [hje] at this; omega

/-- a separator character that the language's consonant/vowel table does not list gets the class `notAlpha` -/
theorem classOf_sep (E : Env) (hU : UnicodeFacts E.U E.K) (c : Nat) (hs : isSepChar E.U E.K c = true)
    (hT : getCharClass E.T c = none) : classOf E c = CharClass.notAlpha := by
  have h := hU.sep_not_alnum c hs
  simp only [Unicode.isAlnum, Bool.or_eq_false_iff] at h
  simp [classOf, hT, h.1]

theorem class_at_of_char_at (t : Text) (E : Env) (hcl : t.classes = t.chars.map (classOf E)) (i c : Nat)
    (hc : t.chars[i]? = some c) : t.classes[i]? = some (classOf E c) := by
  rw [hcl, List.getElem?_map, hc]; rfl

/-- **C14, split spelling, on tokenised texts.** Titles are results of `tokenize_record`, the query is the result
    of `tokenize_query` (generated step lists), for any language tables meeting `TablesOK`, any Unicode oracle
    meeting `UnicodeFacts` and any bounded stemmer. Premises about the typed text `s`: its first two words are
    separated by exactly one character (necessarily not a letter or digit, C15) that the language's
    consonant/vowel table does not list, and run together they spell a title word `w` of at least 3 characters. -/
theorem C14_split_found_tokenized (S : Sorter) (hS : SorterOK S) (E : Env)
    (hU : UnicodeFacts E.U E.K) (hT : TablesOK E.T = true) (hSt : StemHyp E)
    (hC : CostsOK E.K = true) (hJ : JoinNumsOK E.K = true) (hK : 1 ≤ E.K.sortFactor) (hP : 1 ≤ E.K.prepFactor)
    (order : List ScoreType) (ops : List StoreOp)
    (hops : ∀ id t rating, StoreOp.add id t rating ∈ ops → ∃ s, t = tokenizeRecord Gen.srcProg E s)
    (hlim : ((Store.new E.K).run S E.K order ops).records.length ≤ ((Store.new E.K).run S E.K order ops).limit)
    (ix : Nat) (r : Record) (hr : ((Store.new E.K).run S E.K order ops).records[ix]? = some r)
    (s : List Nat) (q0 q1 : WordShape)
    (hq0 : (tokenizeQuery Gen.srcProg E s).words[0]? = some q0)
    (hq1 : (tokenizeQuery Gen.srcProg E s).words[1]? = some q1)
    (hadj : q1.lo = q0.hi + 1) (sep : Nat) (hsep : (tokenizeQuery Gen.srcProg E s).chars[q0.hi]? = some sep)
    (hsepT : getCharClass E.T sep = none)
    (w : WordShape) (hw : w ∈ r.title.words) (hn : 3 ≤ w.len)
    (hchars : wchars (tokenizeQuery Gen.srcProg E s) q0 ++ wchars (tokenizeQuery Gen.srcProg E s) q1 =
      wchars r.title w) :
    ∃ res ∈ ((Store.new E.K).run S E.K order ops).search S E.K order (tokenizeQuery Gen.srcProg E s),
      res.id = r.id ∧
      res = ((Store.new E.K).run S E.K order ops).render (scoreHit E.K order (tokenizeQuery Gen.srcProg E s) r) := by
  have hqi : TokInv E true s (tokenizeQuery Gen.srcProg E s) := C15_query_anyK E hU hT hSt s
  have hfin : q0.fin = true :=
    hqi.fin_query_init rfl 0 q0 hq0 (by have := (List.getElem?_eq_some_iff.mp hq1).1; omega)
  have hsepc : (tokenizeQuery Gen.srcProg E s).classes[q0.hi]? = some CharClass.notAlpha := by
    have hna := hqi.gap_not_alnum 0 q0 q1 hq0 hq1 q0.hi sep (Nat.le_refl _) (by omega) hsep
    simp only [Unicode.isAlnum, Bool.or_eq_false_iff] at hna
    rw [class_at_of_char_at _ E (tokenizeQuery_classes E s) _ _ hsep, classOf_notAlpha E sep hna.1 hsepT]
  refine C14_split_found_reachable S hS E.K hC hJ hK hP order ops ?_ hlim ix r hr _ hqi.textOK hqi.stemsLe q0 q1
    hq0 hq1 hfin hadj hsepc w hw hn hchars
  intro id t rating hm
  obtain ⟨s', rfl⟩ := hops id t rating hm
  exact ⟨(C15_record_anyK E hU hT hSt s').textOK, (C15_record_anyK E hU hT hSt s').stemsLe⟩

/-- **C14, run-together spelling, on tokenised texts.** Premises about the typed text `s`: its first word `v` has
    the characters of two adjacent title words `w1 w2`, at least three in all, and stemming leaves it unchanged
    (`v.stem = v.len`; automatic for a language without stemmer). Premise about the title: `w1` and `w2` are
    separated by exactly one character, a separator that the language's consonant/vowel table does not list.
    (That the query word does not contain the separator, and that `v` is finished unless it is the only word, are
    consequences of C15.) -/
theorem C14_joined_found_tokenized (S : Sorter) (hS : SorterOK S) (E : Env)
    (hU : UnicodeFacts E.U E.K) (hT : TablesOK E.T = true) (hSt : StemHyp E)
    (hC : CostsOK E.K = true) (hJ : JoinNumsOK E.K = true) (hK : 1 ≤ E.K.sortFactor) (hP : 1 ≤ E.K.prepFactor)
    (order : List ScoreType) (ops : List StoreOp)
    (hops : ∀ id t rating, StoreOp.add id t rating ∈ ops → ∃ s, t = tokenizeRecord Gen.srcProg E s)
    (hlim : ((Store.new E.K).run S E.K order ops).records.length ≤ ((Store.new E.K).run S E.K order ops).limit)
    (ix : Nat) (r : Record) (hr : ((Store.new E.K).run S E.K order ops).records[ix]? = some r)
    (s : List Nat) (v : WordShape)
    (hq0 : (tokenizeQuery Gen.srcProg E s).words[0]? = some v) (hL : 3 ≤ v.len) (hstem : v.stem = v.len)
    (w1 w2 : WordShape) (hw1 : w1 ∈ r.title.words) (hnext : r.title.words[w1.offset + 1]? = some w2)
    (hadj : w2.lo = w1.hi + 1) (sep : Nat) (hsep : r.title.chars[w1.hi]? = some sep)
    (hsepS : isSepChar E.U E.K sep = true) (hsepT : getCharClass E.T sep = none)
    (hchars : wchars (tokenizeQuery Gen.srcProg E s) v = wchars r.title w1 ++ wchars r.title w2) :
    ∃ res ∈ ((Store.new E.K).run S E.K order ops).search S E.K order (tokenizeQuery Gen.srcProg E s),
      res.id = r.id ∧
      res = ((Store.new E.K).run S E.K order ops).render (scoreHit E.K order (tokenizeQuery Gen.srcProg E s) r) := by
  have hqi : TokInv E true s (tokenizeQuery Gen.srcProg E s) := C15_query_anyK E hU hT hSt s
  have hvm : v ∈ (tokenizeQuery Gen.srcProg E s).words := List.mem_of_getElem? hq0
  have hshape : (tokenizeQuery Gen.srcProg E s).words.length = 1 ∨ v.fin = true := by
    by_cases h1 : (tokenizeQuery Gen.srcProg E s).words.length = 1
    · exact Or.inl h1
    · have := (List.getElem?_eq_some_iff.mp hq0).1
      exact Or.inr (hqi.fin_query_init rfl 0 v hq0 (by omega))
  have hnosep : sep ∉ wchars (tokenizeQuery Gen.srcProg E s) v := by
    intro hm
    have := hqi.no_sep v hvm sep hm
    rw [hsepS] at this; cases this
  -- the title is a tokenised text
  have hrtok : ∃ s', r.title = tokenizeRecord Gen.srcProg E s' :=
    run_records_sub S E.K order (fun t => ∃ s', t = tokenizeRecord Gen.srcProg E s') ops hops (Store.new E.K)
      (by intro r hr; simp [Store.new] at hr) r (List.mem_of_getElem? hr)
  obtain ⟨s', hs'⟩ := hrtok
  have hsepc : r.title.classes[w1.hi]? = some CharClass.notAlpha := by
    rw [class_at_of_char_at _ E (by rw [hs']; exact tokenizeRecord_classes E s') _ _ hsep,
      classOf_sep E hU sep hsepS hsepT]
  refine C14_joined_found_reachable S hS E.K hC hJ hK hP order ops ?_ hlim ix r hr _ hqi.textOK v hq0 hshape hL hstem
    w1 w2 hw1 hnext hadj sep hsep hsepc hchars hnosep
  intro id t rating hm
  obtain ⟨s'', rfl⟩ := hops id t rating hm
  exact ⟨(C15_record_anyK E hU hT hSt s'').textOK, (C15_record_anyK E hU hT hSt s'').stemsLe⟩

/-! ### instantiations at the constants generated from the source -/

theorem C14_split_found_src (S : Sorter) (hS : SorterOK S)
    (st : Store) (hI : StoreIndexInv st) (hlim : st.records.length ≤ st.limit)
    (ix : Nat) (r : Record) (hr : st.records[ix]? = some r) (hrt : TextOK r.title) (hrs : StemsLe r.title)
    (q : Text) (hqt : TextOK q) (hqs : StemsLe q) (q0 q1 : WordShape)
    (hq0 : q.words[0]? = some q0) (hq1 : q.words[1]? = some q1) (hfin : q0.fin = true)
    (hadj : q1.lo = q0.hi + 1) (hsepc : q.classes[q0.hi]? = some CharClass.notAlpha)
    (w : WordShape) (hw : w ∈ r.title.words) (hn : 3 ≤ w.len)
    (hchars : wchars q q0 ++ wchars q q1 = wchars r.title w) :
    ∃ res ∈ st.search S Gen.srcConsts Gen.srcScoreOrder q,
      res.id = r.id ∧ res = st.render (scoreHit Gen.srcConsts Gen.srcScoreOrder q r) :=
  C14_split_found S hS Gen.srcConsts costsOK_src joinNumsOK_src (by decide) (by decide) Gen.srcScoreOrder
    st hI hlim ix r hr hrt hrs q hqt hqs q0 q1 hq0 hq1 hfin hadj hsepc w hw hn hchars

theorem C14_joined_found_src (S : Sorter) (hS : SorterOK S)
    (st : Store) (hI : StoreIndexInv st) (hlim : st.records.length ≤ st.limit)
    (ix : Nat) (r : Record) (hr : st.records[ix]? = some r) (hrt : TextOK r.title) (hrs : StemsLe r.title)
    (q : Text) (hqt : TextOK q) (v : WordShape)
    (hq0 : q.words[0]? = some v) (hshape : q.words.length = 1 ∨ v.fin = true)
    (hL : 3 ≤ v.len) (hstem : v.stem = v.len)
    (w1 w2 : WordShape) (hw1 : w1 ∈ r.title.words) (hnext : r.title.words[w1.offset + 1]? = some w2)
    (hadj : w2.lo = w1.hi + 1) (sep : Nat) (hsep : r.title.chars[w1.hi]? = some sep)
    (hsepc : r.title.classes[w1.hi]? = some CharClass.notAlpha)
    (hchars : wchars q v = wchars r.title w1 ++ wchars r.title w2) (hnosep : sep ∉ wchars q v) :
    ∃ res ∈ st.search S Gen.srcConsts Gen.srcScoreOrder q,
      res.id = r.id ∧ res = st.render (scoreHit Gen.srcConsts Gen.srcScoreOrder q r) :=
  C14_joined_found S hS Gen.srcConsts costsOK_src joinNumsOK_src (by decide) (by decide) Gen.srcScoreOrder
    st hI hlim ix r hr hrt hrs q hqt v hq0 hshape hL hstem w1 w2 hw1 hnext hadj sep hsep hsepc hchars hnosep

/-- C14 (split spelling) at the generated constants, step lists and score order, in every language: `T` is any
    language table meeting `TablesOK` (decided for the seven generated languages in `Lemmas/Facts.lean`). -/
theorem C14_split_found_tokenized_src (S : Sorter) (hS : SorterOK S)
    (U : Unicode) (T : LangTables) (stem : List Nat → Nat)
    (hU : UnicodeFacts U Gen.srcConsts) (hT : TablesOK T = true) (hSt : StemHyp (Gen.srcProg.env U T stem))
    (ops : List StoreOp)
    (hops : ∀ id t rating, StoreOp.add id t rating ∈ ops →
      ∃ s, t = tokenizeRecord Gen.srcProg (Gen.srcProg.env U T stem) s)
    (hlim : ((Store.new Gen.srcConsts).run S Gen.srcConsts Gen.srcScoreOrder ops).records.length
              ≤ ((Store.new Gen.srcConsts).run S Gen.srcConsts Gen.srcScoreOrder ops).limit)
    (ix : Nat) (r : Record)
    (hr : ((Store.new Gen.srcConsts).run S Gen.srcConsts Gen.srcScoreOrder ops).records[ix]? = some r)
    (s : List Nat) (q0 q1 : WordShape)
    (hq0 : (tokenizeQuery Gen.srcProg (Gen.srcProg.env U T stem) s).words[0]? = some q0)
    (hq1 : (tokenizeQuery Gen.srcProg (Gen.srcProg.env U T stem) s).words[1]? = some q1)
    (hadj : q1.lo = q0.hi + 1) (sep : Nat)
    (hsep : (tokenizeQuery Gen.srcProg (Gen.srcProg.env U T stem) s).chars[q0.hi]? = some sep)
    (hsepT : getCharClass T sep = none)
    (w : WordShape) (hw : w ∈ r.title.words) (hn : 3 ≤ w.len)
    (hchars : wchars (tokenizeQuery Gen.srcProg (Gen.srcProg.env U T stem) s) q0 ++
        wchars (tokenizeQuery Gen.srcProg (Gen.srcProg.env U T stem) s) q1 = wchars r.title w) :
    ∃ res ∈ ((Store.new Gen.srcConsts).run S Gen.srcConsts Gen.srcScoreOrder ops).search S Gen.srcConsts
        Gen.srcScoreOrder (tokenizeQuery Gen.srcProg (Gen.srcProg.env U T stem) s),
      res.id = r.id ∧
      res = ((Store.new Gen.srcConsts).run S Gen.srcConsts Gen.srcScoreOrder ops).render
              (scoreHit Gen.srcConsts Gen.srcScoreOrder (tokenizeQuery Gen.srcProg (Gen.srcProg.env U T stem) s) r) :=
  C14_split_found_tokenized S hS (Gen.srcProg.env U T stem) hU hT hSt costsOK_src joinNumsOK_src
    (show 1 ≤ Gen.srcConsts.sortFactor by decide) (show 1 ≤ Gen.srcConsts.prepFactor by decide) Gen.srcScoreOrder
    ops hops hlim ix r hr s q0 q1 hq0 hq1 hadj sep hsep hsepT w hw hn hchars

/-- C14 (run-together spelling) at the generated constants, step lists and score order, in every language. -/
theorem C14_joined_found_tokenized_src (S : Sorter) (hS : SorterOK S)
    (U : Unicode) (T : LangTables) (stem : List Nat → Nat)
    (hU : UnicodeFacts U Gen.srcConsts) (hT : TablesOK T = true) (hSt : StemHyp (Gen.srcProg.env U T stem))
    (ops : List StoreOp)
    (hops : ∀ id t rating, StoreOp.add id t rating ∈ ops →
      ∃ s, t = tokenizeRecord Gen.srcProg (Gen.srcProg.env U T stem) s)
    (hlim : ((Store.new Gen.srcConsts).run S Gen.srcConsts Gen.srcScoreOrder ops).records.length
              ≤ ((Store.new Gen.srcConsts).run S Gen.srcConsts Gen.srcScoreOrder ops).limit)
    (ix : Nat) (r : Record)
    (hr : ((Store.new Gen.srcConsts).run S Gen.srcConsts Gen.srcScoreOrder ops).records[ix]? = some r)
    (s : List Nat) (v : WordShape)
    (hq0 : (tokenizeQuery Gen.srcProg (Gen.srcProg.env U T stem) s).words[0]? = some v)
    (hL : 3 ≤ v.len) (hstem : v.stem = v.len)
    (w1 w2 : WordShape) (hw1 : w1 ∈ r.title.words) (hnext : r.title.words[w1.offset + 1]? = some w2)
    (hadj : w2.lo = w1.hi + 1) (sep : Nat) (hsep : r.title.chars[w1.hi]? = some sep)
    (hsepS : isSepChar U Gen.srcConsts sep = true) (hsepT : getCharClass T sep = none)
    (hchars : wchars (tokenizeQuery Gen.srcProg (Gen.srcProg.env U T stem) s) v =
        wchars r.title w1 ++ wchars r.title w2) :
    ∃ res ∈ ((Store.new Gen.srcConsts).run S Gen.srcConsts Gen.srcScoreOrder ops).search S Gen.srcConsts
        Gen.srcScoreOrder (tokenizeQuery Gen.srcProg (Gen.srcProg.env U T stem) s),
      res.id = r.id ∧
      res = ((Store.new Gen.srcConsts).run S Gen.srcConsts Gen.srcScoreOrder ops).render
              (scoreHit Gen.srcConsts Gen.srcScoreOrder (tokenizeQuery Gen.srcProg (Gen.srcProg.env U T stem) s) r) :=
  C14_joined_found_tokenized S hS (Gen.srcProg.env U T stem) hU hT hSt costsOK_src joinNumsOK_src
    (show 1 ≤ Gen.srcConsts.sortFactor by decide) (show 1 ≤ Gen.srcConsts.prepFactor by decide) Gen.srcScoreOrder
    ops hops hlim ix r hr s v hq0 hL hstem w1 w2 hw1 hnext hadj sep hsep hsepS hsepT hchars

namespace C14Example
open C13Example

/-! ### non-vacuity -/

/-- the toy oracle of `C15.lean` with the English tables (Snowball-like toy stemmer) -/
def exEnvE : Env := Gen.srcProg.env toyU Gen.lang_en toyStem
/-- the toy oracle with the tables of `Lang::None` (no stemmer: `stem = len`) -/
def exEnvN : Env := Gen.srcProg.env toyU Gen.lang_none toyStem

/-- add "Abc" -/
def exOpsS : List StoreOp := [.add 7 (tokenizeRecord Gen.srcProg exEnvE [65, 98, 99]) 1]

/-- the hypotheses of `C14_split_found_tokenized_src` are met by typing "a bc" and "ab c" against the title "Abc":
    both split points of a three-letter word -/
example (s : List Nat) (hs : s = [97, 32, 98, 99] ∨ s = [97, 98, 32, 99]) :
    ∃ res ∈ ((Store.new Gen.srcConsts).run exSorter Gen.srcConsts Gen.srcScoreOrder exOpsS).search exSorter
        Gen.srcConsts Gen.srcScoreOrder (tokenizeQuery Gen.srcProg exEnvE s), res.id = 7 := by
  have hops : ∀ id t rating, StoreOp.add id t rating ∈ exOpsS → ∃ s, t = tokenizeRecord Gen.srcProg exEnvE s := by
    intro id t rating hm
    simp only [exOpsS, List.mem_cons, StoreOp.add.injEq, List.not_mem_nil, or_false] at hm
    exact ⟨_, hm.2.1⟩
  have key := fun s q0 q1 hq0 hq1 hadj hsep hchars =>
    C14_split_found_tokenized_src exSorter exSorter_ok toyU Gen.lang_en toyStem toyU_facts tablesOK_en
      (toyStemHyp _ (by decide)) exOpsS hops (by decide +kernel) 0
      { ix := 0, id := 7, title := tokenizeRecord Gen.srcProg exEnvE [65, 98, 99], rating := 1 }
      (by decide +kernel) s q0 q1 hq0 hq1 hadj 32 hsep (by decide +kernel)
      { offset := 0, lo := 0, hi := 3, stem := 2, pos := none, fin := true } (by decide +kernel) (by decide) hchars
  rcases hs with rfl | rfl
  · obtain ⟨res, h1, h2, _⟩ := key [97, 32, 98, 99]
      { offset := 0, lo := 0, hi := 1, stem := 1, pos := some Pos.article, fin := true }
      { offset := 1, lo := 2, hi := 4, stem := 1, pos := none, fin := false }
      (by decide +kernel) (by decide +kernel) (by decide) (by decide +kernel) (by decide +kernel)
    exact ⟨res, h1, h2⟩
  · obtain ⟨res, h1, h2, _⟩ := key [97, 98, 32, 99]
      { offset := 0, lo := 0, hi := 2, stem := 1, pos := none, fin := true }
      { offset := 1, lo := 3, hi := 4, stem := 1, pos := none, fin := false }
      (by decide +kernel) (by decide +kernel) (by decide) (by decide +kernel) (by decide +kernel)
    exact ⟨res, h1, h2⟩

/-- add "Ab c" and "Abc def" -/
def exOpsJ : List StoreOp :=
  [.add 8 (tokenizeRecord Gen.srcProg exEnvN [65, 98, 32, 99]) 1,
   .add 9 (tokenizeRecord Gen.srcProg exEnvN [65, 98, 99, 32, 100, 101, 102]) 1]

theorem exOpsJ_ok : ∀ id t rating, StoreOp.add id t rating ∈ exOpsJ → ∃ s, t = tokenizeRecord Gen.srcProg exEnvN s := by
  intro id t rating hm
  simp only [exOpsJ, List.mem_cons, StoreOp.add.injEq, List.not_mem_nil, or_false] at hm
  rcases hm with hm | hm
  · exact ⟨_, hm.2.1⟩
  · exact ⟨_, hm.2.1⟩

/-- the hypotheses of `C14_joined_found_tokenized_src` are met by typing "abc" against the title "Ab c" -/
example :
    ∃ res ∈ ((Store.new Gen.srcConsts).run exSorter Gen.srcConsts Gen.srcScoreOrder exOpsJ).search exSorter
        Gen.srcConsts Gen.srcScoreOrder (tokenizeQuery Gen.srcProg exEnvN [97, 98, 99]), res.id = 8 := by
  obtain ⟨res, h1, h2, _⟩ :=
    C14_joined_found_tokenized_src exSorter exSorter_ok toyU Gen.lang_none toyStem toyU_facts tablesOK_none
      (stemHyp_of_no_stemmer _ rfl) exOpsJ exOpsJ_ok (by decide +kernel) 0
      { ix := 0, id := 8, title := tokenizeRecord Gen.srcProg exEnvN [65, 98, 32, 99], rating := 1 }
      (by decide +kernel) [97, 98, 99]
      { offset := 0, lo := 0, hi := 3, stem := 3, pos := none, fin := false } (by decide +kernel) (by decide) rfl
      { offset := 0, lo := 0, hi := 2, stem := 2, pos := none, fin := true }
      { offset := 1, lo := 3, hi := 4, stem := 1, pos := none, fin := true }
      (by decide +kernel) (by decide +kernel) (by decide) 32 (by decide +kernel) (by decide) (by decide +kernel)
      (by decide +kernel)
  exact ⟨res, h1, h2⟩

/-- … and by typing "abcdef" against the title "Abc def" -/
example :
    ∃ res ∈ ((Store.new Gen.srcConsts).run exSorter Gen.srcConsts Gen.srcScoreOrder exOpsJ).search exSorter
        Gen.srcConsts Gen.srcScoreOrder (tokenizeQuery Gen.srcProg exEnvN [97, 98, 99, 100, 101, 102]), res.id = 9 := by
  obtain ⟨res, h1, h2, _⟩ :=
    C14_joined_found_tokenized_src exSorter exSorter_ok toyU Gen.lang_none toyStem toyU_facts tablesOK_none
      (stemHyp_of_no_stemmer _ rfl) exOpsJ exOpsJ_ok (by decide +kernel) 1
      { ix := 1, id := 9, title := tokenizeRecord Gen.srcProg exEnvN [65, 98, 99, 32, 100, 101, 102], rating := 1 }
      (by decide +kernel) [97, 98, 99, 100, 101, 102]
      { offset := 0, lo := 0, hi := 6, stem := 6, pos := none, fin := false } (by decide +kernel) (by decide) rfl
      { offset := 0, lo := 0, hi := 3, stem := 3, pos := none, fin := true }
      { offset := 1, lo := 4, hi := 7, stem := 3, pos := none, fin := true }
      (by decide +kernel) (by decide +kernel) (by decide) 32 (by decide +kernel) (by decide) (by decide +kernel)
      (by decide +kernel)
  exact ⟨res, h1, h2⟩

end C14Example

end Lucid
