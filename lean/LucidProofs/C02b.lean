/-
  C02 / C09 at the source constants with the `WordMatchOK` hypothesis discharged
  (`Lemmas/PairOK.lean: wordMatchOK`): only well-formedness of the tokenised texts (`TextOK`, which C15
  proves for every tokenised text) remains as a hypothesis.
-/
import LucidProofs.C02
import LucidProofs.Lemmas.PairOK

namespace Lucid

/-- well-formed tokenised titles and query are all the hit-level theorems of C02 / C09 need -/
theorem hitsWF_of_textOK (K : Consts) (hc : CostsOK K = true) (ht : ThresholdOK K = true)
    (st : Store) (q : Text) (hr : ∀ r ∈ st.records, TextOK r.title) (hq : TextOK q) : HitsWF K st q :=
  ⟨hr, hq, fun r _ => wordMatchOK K hc ht r.title q⟩

theorem hitsWF_src (st : Store) (q : Text) (hr : ∀ r ∈ st.records, TextOK r.title) (hq : TextOK q) :
    HitsWF Gen.srcConsts st q :=
  hitsWF_of_textOK Gen.srcConsts costsOK_src thresholdOK_src st q hr hq

/-- **C02 (title).** For every store whose titles are well-formed tokenised texts, every well-formed query,
    every marker pair and sorting oracle: each result carries the id of a stored record and its title is the
    NUL-stripped decoration of that record's source by word-aligned spans. -/
theorem C02_title_full_src {S : Sorter} (hS : SorterOK S) (st : Store) (q : Text)
    (hr : ∀ r ∈ st.records, TextOK r.title) (hq : TextOK q) :
    ∀ res ∈ st.search S Gen.srcConsts Gen.srcScoreOrder q, ∃ r ∈ st.records, ∃ spans, res.id = r.id ∧
      SpansOK r.title spans ∧ res.title = stripNul (decorate r.title.source spans st.dividers.1 st.dividers.2) :=
  C02_title_is_decorated_source_src hS st q (hitsWF_src st q hr hq)

/-- **C02 (markers).** Changing the marker strings changes nothing but the markers. -/
theorem C02_markers_full_src {S : Sorter} (hS : SorterOK S) (st : Store) (q : Text)
    (hr : ∀ r ∈ st.records, TextOK r.title) (hq : TextOK q) :
    ∃ hits : List (Hit × List (Nat × Nat)),
      (∀ p ∈ hits, ∃ r ∈ st.records, p.1.id = r.id ∧ p.1.title = r.title ∧ SpansFrom 0 p.2 ∧
          SpansIn (stripNul r.title.source).length p.2) ∧
      ∀ dl dr : List Nat,
        (st.setDividers dl dr).search S Gen.srcConsts Gen.srcScoreOrder q =
          hits.map (fun p => { id := p.1.id,
                               title := decorate (stripNul p.1.title.source) p.2 (stripNul dl) (stripNul dr) }) ∧
        ∀ p ∈ hits, unmark (stripNul dl).length (stripNul dr).length p.2
            (decorate (stripNul p.1.title.source) p.2 (stripNul dl) (stripNul dr)) = stripNul p.1.title.source :=
  C02_markers_only_change_markers hS (by decide) Gen.srcScoreOrder st q (hitsWF_src st q hr hq)

/-- **C09 (spans).** Every hit's spans are sorted, disjoint, non-empty, each starts at the first character of a
    distinct title word and ends inside it. -/
theorem C09_spans_full_src (st : Store) (q : Text)
    (hr : ∀ r ∈ st.records, TextOK r.title) (hq : TextOK q) (ixs : List Nat) :
    ∀ h ∈ st.hitsOf Gen.srcConsts Gen.srcScoreOrder q ixs, SpansOK h.title (hitSpans h) :=
  C09_spans_ok (hitsWF_src st q hr hq) ixs

/-- **C09 (balance).** The rendered title is a decoration: markers alternate and never nest. -/
theorem C09_balanced_full_src (st : Store) (q : Text)
    (hr : ∀ r ∈ st.records, TextOK r.title) (hq : TextOK q) (ixs : List Nat) :
    ∀ h ∈ st.hitsOf Gen.srcConsts Gen.srcScoreOrder q ixs,
      (st.render h).title = stripNul (decorate h.title.source (hitSpans h) st.dividers.1 st.dividers.2) ∧
      (st.render h).title = decorate (stripNul h.title.source) (nulSpans h.title.source (hitSpans h))
                              (stripNul st.dividers.1) (stripNul st.dividers.2) ∧
      SpansFrom 0 (hitSpans h) ∧ SpansFrom 0 (nulSpans h.title.source (hitSpans h)) :=
  C09_markup_balanced (hitsWF_src st q hr hq) ixs

/-- **C09 (presence).** A hit for a query with at least one word has at least one highlighted span. -/
theorem C09_some_span_full_src (st : Store) (q : Text)
    (hr : ∀ r ∈ st.records, TextOK r.title) (hq : TextOK q) (hw : q.words ≠ []) (ixs : List Nat) :
    ∀ h ∈ st.hitsOf Gen.srcConsts Gen.srcScoreOrder q ixs, h.rmatches ≠ [] ∧ hitSpans h ≠ [] :=
  C09_some_span_for_wordy_query (hitsWF_src st q hr hq) hw ixs

end Lucid
