/-
  C03 — "In a store holding no more records than the limit, typing any non-empty prefix of any word of a record's
  title (the prefix ending in a letter or digit) returns that record among the hits, in every language.
  Consequently a user typing a title word letter by letter sees the record at every keystroke, from the first
  letter on."

  End-to-end assembly:
  * word level   — `wordMatch_prefix_some` (`Lemmas/Gates.lean`): the three gates and the two slice loops of
                   `word_match` accept an unfinished query word whose characters are a prefix of the record word;
  * candidates   — `candOK_of_inv`, `shares_gram_of_prefix` (`Lemmas/Candidates.lean`): the record shares the gram
                   `(c0, NUL, NUL)` with the query, so the trigram index lists it;
  * control flow — `C03_single_word_found` (`C13.lean`): greedy scan, filter, bounded selection.
  The tokenizer-level corollaries take the texts from `tokenize_record` / `tokenize_query` (`C15.lean`).
-/
import LucidProofs.C13
import LucidProofs.C15
import LucidProofs.Lemmas.Gates
import LucidProofs.Lemmas.TextMatchShape
import LucidProofs.Lemmas.Candidates

namespace Lucid

/-! ### what C15 delivers for tokenised texts, in the form the matching clusters use -/

/-- every word's stem is at most as long as the word (second half of `TokInv.stem`) -/
def StemsLe (t : Text) : Prop := ∀ w ∈ t.words, w.stem ≤ w.len

theorem TokInv.textOK {E : Env} {qf : Bool} {s : List Nat} {t : Text} (h : TokInv E qf s t) : TextOK t where
  lens := ⟨h.len_source, h.len_classes⟩
  offsets := by
    intro i hi
    have := h.offset_eq_index i hi
    rw [List.getElem?_eq_getElem hi] at this
    simpa using this
  bounds := h.bounds
  ordered := by
    intro i hi
    exact List.pairwise_iff_getElem.1 h.ordered i (i + 1) (by omega) hi (by omega)
  stems := fun w hw => (h.stem w hw).1

theorem TokInv.stemsLe {E : Env} {qf : Bool} {s : List Nat} {t : Text} (h : TokInv E qf s t) : StemsLe t :=
  fun w hw => (h.stem w hw).2

/-! ### the property, on well-formed texts -/

/-- **C03.** Let a store carry the trigram index of its records (`StoreIndexInv`: true of every store reached from
    `Store::new` by any sequence of operations) and hold no more records than its limit. Let `r` be one of its
    records and `w` a word of its title. Then every query consisting of one unfinished word `v` whose characters
    are the first `v.len ≥ 1` characters of `w` returns `r` among the results — whatever the other records, the
    rating, the language tables and the sorting oracle are. Taking `v.len = 1, 2, …, w.len` in turn: the record
    is shown at every keystroke while the word is typed.
    Hypotheses on the texts: title and query are well-formed (`TextOK`, delivered by the tokenizer, C15) and the
    stem of the query word is no longer than the word. -/
theorem C03_prefix_found (S : Sorter) (hS : SorterOK S) (K : Consts)
    (hC : CostsOK K = true) (hN : GateNumsOK K = true) (hK : 1 ≤ K.sortFactor) (hP : 1 ≤ K.prepFactor)
    (order : List ScoreType) (st : Store) (hI : StoreIndexInv st) (hlim : st.records.length ≤ st.limit)
    (ix : Nat) (r : Record) (hr : st.records[ix]? = some r) (hrt : TextOK r.title)
    (q : Text) (hqt : TextOK q) (v : WordShape) (hq : q.words = [v]) (hfin : v.fin = false)
    (hstem : v.stem ≤ v.len)
    (w : WordShape) (hw : w ∈ r.title.words) (hle : v.len ≤ w.len)
    (hpre : wchars q v = (wchars r.title w).take v.len) :
    ∃ res ∈ st.search S K order q, res.id = r.id ∧ res = st.render (scoreHit K order q r) := by
  have hv : v ∈ q.words := by rw [hq]; exact List.mem_singleton.mpr rfl
  have hvin := hqt.wordIn hv
  have hwin := hrt.wordIn hw
  have hne : wchars q v ≠ [] := by
    intro e; have := wchars_length hvin; rw [e] at this; have := hvin.len_pos; simp at *; omega
  have hc : CandOK S K st q ix r :=
    candOK_of_inv S hS K hK hP st hI hlim q (by rw [hq]; simp) ix r hr (shares_gram_of_prefix hw hv v.len hne hpre)
  exact C03_single_word_found S hS K hK order st q ix r hc hrt hqt v hq w hw
    (wordMatch_prefix_some K hC hN r.title w q v hwin hvin hfin (hqt.stems v hv) hstem hle hpre)

/-- C03 for every reachable store: the store is the result of any sequence of `add`, `clear`, `set_limit`,
    `highlight_with` and `search` calls on a new store, every added title being well-formed. -/
theorem C03_prefix_found_reachable (S : Sorter) (hS : SorterOK S) (K : Consts)
    (hC : CostsOK K = true) (hN : GateNumsOK K = true) (hK : 1 ≤ K.sortFactor) (hP : 1 ≤ K.prepFactor)
    (order : List ScoreType) (ops : List StoreOp)
    (hops : ∀ id t rating, StoreOp.add id t rating ∈ ops → TextOK t)
    (hlim : ((Store.new K).run S K order ops).records.length ≤ ((Store.new K).run S K order ops).limit)
    (ix : Nat) (r : Record) (hr : ((Store.new K).run S K order ops).records[ix]? = some r)
    (q : Text) (hqt : TextOK q) (v : WordShape) (hq : q.words = [v]) (hfin : v.fin = false)
    (hstem : v.stem ≤ v.len)
    (w : WordShape) (hw : w ∈ r.title.words) (hle : v.len ≤ w.len)
    (hpre : wchars q v = (wchars r.title w).take v.len) :
    ∃ res ∈ ((Store.new K).run S K order ops).search S K order q,
      res.id = r.id ∧ res = ((Store.new K).run S K order ops).render (scoreHit K order q r) := by
  have hrt : TextOK r.title :=
    run_records_sub S K order TextOK ops hops (Store.new K) (by intro r hr; simp [Store.new] at hr) r
      (List.mem_of_getElem? hr)
  exact C03_prefix_found S hS K hC hN hK hP order _ (StoreIndexInv_reachable S K order ops) hlim ix r hr hrt
    q hqt v hq hfin hstem w hw hle hpre

/-- **C03 on tokenised texts.** Titles are results of `tokenize_record`, the query is the result of
    `tokenize_query` (both with the generated step lists), for any language tables meeting `TablesOK`, any Unicode
    oracle meeting `UnicodeFacts` and any bounded stemmer. Premise about the typed text `s`: its tokenisation is a
    single unfinished word whose characters are the first characters of a word of the record's (tokenised) title. -/
theorem C03_prefix_found_tokenized (S : Sorter) (hS : SorterOK S) (E : Env)
    (hU : UnicodeFacts E.U E.K) (hT : TablesOK E.T = true) (hSt : StemHyp E)
    (hC : CostsOK E.K = true) (hN : GateNumsOK E.K = true) (hK : 1 ≤ E.K.sortFactor) (hP : 1 ≤ E.K.prepFactor)
    (order : List ScoreType) (ops : List StoreOp)
    (hops : ∀ id t rating, StoreOp.add id t rating ∈ ops → ∃ s, t = tokenizeRecord Gen.srcProg E s)
    (hlim : ((Store.new E.K).run S E.K order ops).records.length ≤ ((Store.new E.K).run S E.K order ops).limit)
    (ix : Nat) (r : Record) (hr : ((Store.new E.K).run S E.K order ops).records[ix]? = some r)
    (s : List Nat) (v : WordShape) (hq : (tokenizeQuery Gen.srcProg E s).words = [v]) (hfin : v.fin = false)
    (w : WordShape) (hw : w ∈ r.title.words) (hle : v.len ≤ w.len)
    (hpre : wchars (tokenizeQuery Gen.srcProg E s) v = (wchars r.title w).take v.len) :
    ∃ res ∈ ((Store.new E.K).run S E.K order ops).search S E.K order (tokenizeQuery Gen.srcProg E s),
      res.id = r.id ∧
      res = ((Store.new E.K).run S E.K order ops).render (scoreHit E.K order (tokenizeQuery Gen.srcProg E s) r) := by
  have hqi : TokInv E true s (tokenizeQuery Gen.srcProg E s) := C15_query_anyK E hU hT hSt s
  refine C03_prefix_found_reachable S hS E.K hC hN hK hP order ops ?_ hlim ix r hr _ hqi.textOK v hq hfin
    (hqi.stemsLe v (by rw [hq]; exact List.mem_singleton.mpr rfl)) w hw hle hpre
  intro id t rating hm
  obtain ⟨s', rfl⟩ := hops id t rating hm
  exact (C15_record_anyK E hU hT hSt s').textOK

/-! ### instantiations at the constants generated from the source -/

theorem C03_prefix_found_src (S : Sorter) (hS : SorterOK S)
    (st : Store) (hI : StoreIndexInv st) (hlim : st.records.length ≤ st.limit)
    (ix : Nat) (r : Record) (hr : st.records[ix]? = some r) (hrt : TextOK r.title)
    (q : Text) (hqt : TextOK q) (v : WordShape) (hq : q.words = [v]) (hfin : v.fin = false)
    (hstem : v.stem ≤ v.len)
    (w : WordShape) (hw : w ∈ r.title.words) (hle : v.len ≤ w.len)
    (hpre : wchars q v = (wchars r.title w).take v.len) :
    ∃ res ∈ st.search S Gen.srcConsts Gen.srcScoreOrder q,
      res.id = r.id ∧ res = st.render (scoreHit Gen.srcConsts Gen.srcScoreOrder q r) :=
  C03_prefix_found S hS Gen.srcConsts costsOK_src gateNumsOK_src (by decide) (by decide) Gen.srcScoreOrder
    st hI hlim ix r hr hrt q hqt v hq hfin hstem w hw hle hpre

theorem C03_prefix_found_reachable_src (S : Sorter) (hS : SorterOK S) (ops : List StoreOp)
    (hops : ∀ id t rating, StoreOp.add id t rating ∈ ops → TextOK t)
    (hlim : ((Store.new Gen.srcConsts).run S Gen.srcConsts Gen.srcScoreOrder ops).records.length
              ≤ ((Store.new Gen.srcConsts).run S Gen.srcConsts Gen.srcScoreOrder ops).limit)
    (ix : Nat) (r : Record)
    (hr : ((Store.new Gen.srcConsts).run S Gen.srcConsts Gen.srcScoreOrder ops).records[ix]? = some r)
    (q : Text) (hqt : TextOK q) (v : WordShape) (hq : q.words = [v]) (hfin : v.fin = false)
    (hstem : v.stem ≤ v.len)
    (w : WordShape) (hw : w ∈ r.title.words) (hle : v.len ≤ w.len)
    (hpre : wchars q v = (wchars r.title w).take v.len) :
    ∃ res ∈ ((Store.new Gen.srcConsts).run S Gen.srcConsts Gen.srcScoreOrder ops).search S Gen.srcConsts
        Gen.srcScoreOrder q,
      res.id = r.id ∧
      res = ((Store.new Gen.srcConsts).run S Gen.srcConsts Gen.srcScoreOrder ops).render
              (scoreHit Gen.srcConsts Gen.srcScoreOrder q r) :=
  C03_prefix_found_reachable S hS Gen.srcConsts costsOK_src gateNumsOK_src (by decide) (by decide)
    Gen.srcScoreOrder ops hops hlim ix r hr q hqt v hq hfin hstem w hw hle hpre

/-- C03 at the generated constants, step lists and score order, in every language: `T` is any language table
    meeting `TablesOK` (decided for the seven generated languages in `Lemmas/Facts.lean`). -/
theorem C03_prefix_found_tokenized_src (S : Sorter) (hS : SorterOK S)
    (U : Unicode) (T : LangTables) (stem : List Nat → Nat)
    (hU : UnicodeFacts U Gen.srcConsts) (hT : TablesOK T = true) (hSt : StemHyp (Gen.srcProg.env U T stem))
    (ops : List StoreOp)
    (hops : ∀ id t rating, StoreOp.add id t rating ∈ ops →
      ∃ s, t = tokenizeRecord Gen.srcProg (Gen.srcProg.env U T stem) s)
    (hlim : ((Store.new Gen.srcConsts).run S Gen.srcConsts Gen.srcScoreOrder ops).records.length
              ≤ ((Store.new Gen.srcConsts).run S Gen.srcConsts Gen.srcScoreOrder ops).limit)
    (ix : Nat) (r : Record)
    (hr : ((Store.new Gen.srcConsts).run S Gen.srcConsts Gen.srcScoreOrder ops).records[ix]? = some r)
    (s : List Nat) (v : WordShape)
    (hq : (tokenizeQuery Gen.srcProg (Gen.srcProg.env U T stem) s).words = [v]) (hfin : v.fin = false)
    (w : WordShape) (hw : w ∈ r.title.words) (hle : v.len ≤ w.len)
    (hpre : wchars (tokenizeQuery Gen.srcProg (Gen.srcProg.env U T stem) s) v = (wchars r.title w).take v.len) :
    ∃ res ∈ ((Store.new Gen.srcConsts).run S Gen.srcConsts Gen.srcScoreOrder ops).search S Gen.srcConsts
        Gen.srcScoreOrder (tokenizeQuery Gen.srcProg (Gen.srcProg.env U T stem) s),
      res.id = r.id ∧
      res = ((Store.new Gen.srcConsts).run S Gen.srcConsts Gen.srcScoreOrder ops).render
              (scoreHit Gen.srcConsts Gen.srcScoreOrder (tokenizeQuery Gen.srcProg (Gen.srcProg.env U T stem) s) r) :=
  C03_prefix_found_tokenized S hS (Gen.srcProg.env U T stem) hU hT hSt costsOK_src gateNumsOK_src
    (show 1 ≤ Gen.srcConsts.sortFactor by decide) (show 1 ≤ Gen.srcConsts.prepFactor by decide) Gen.srcScoreOrder ops hops hlim ix r hr s v hq hfin w hw hle hpre

namespace C03Example
open C13Example

/-! ### non-vacuity -/

theorem exStore_inv : StoreIndexInv exStore := (StoreIndexInv.new _).add 42 exTitle 0

/-- the hypotheses of `C03_prefix_found_src` are met by the prefix "ab" against the title "abc def" -/
example : ∃ res ∈ exStore.search exSorter Gen.srcConsts Gen.srcScoreOrder exQuery1, res.id = 42 ∧
    res = exStore.render (scoreHit Gen.srcConsts Gen.srcScoreOrder exQuery1 exRecord) :=
  C03_prefix_found_src exSorter exSorter_ok exStore exStore_inv (by decide) 0 exRecord (by decide) exTitle_ok
    exQuery1 exQuery1_ok (wd 0 0 2 false) rfl rfl (by decide) (wd 0 0 3 true) (by decide) (by decide) (by decide)

/-- the toy oracle of `C15.lean` with the English tables, as an environment of the generated program -/
def exEnv : Env := Gen.srcProg.env toyU Gen.lang_en toyStem

/-- add "Abc def", search once (filling the cache), lower the limit to 5 -/
def exOps : List StoreOp :=
  [.add 42 (tokenizeRecord Gen.srcProg exEnv [65, 98, 99, 32, 100, 101, 102]) 7,
   .search (tokenizeQuery Gen.srcProg exEnv []), .setLimit 5]

/-- the hypotheses of `C03_prefix_found_tokenized_src` are met by typing "d", "de", "def" against "Abc def" -/
example (s : List Nat) (hs : s = [100] ∨ s = [100, 101] ∨ s = [100, 101, 102]) :
    ∃ res ∈ ((Store.new Gen.srcConsts).run exSorter Gen.srcConsts Gen.srcScoreOrder exOps).search exSorter
        Gen.srcConsts Gen.srcScoreOrder (tokenizeQuery Gen.srcProg exEnv s), res.id = 42 := by
  have hops : ∀ id t rating, StoreOp.add id t rating ∈ exOps → ∃ s, t = tokenizeRecord Gen.srcProg exEnv s := by
    intro id t rating hm
    simp only [exOps, List.mem_cons, StoreOp.add.injEq, List.not_mem_nil, or_false, reduceCtorEq] at hm
    exact ⟨_, hm.2.1⟩
  have key := fun s v hq hfin hle hpre =>
    C03_prefix_found_tokenized_src exSorter exSorter_ok toyU Gen.lang_en toyStem toyU_facts tablesOK_en
      (toyStemHyp _ (by decide)) exOps hops (by decide +kernel) 0
      { ix := 0, id := 42, title := tokenizeRecord Gen.srcProg exEnv [65, 98, 99, 32, 100, 101, 102], rating := 7 }
      (by decide +kernel) s v hq hfin
      { offset := 1, lo := 4, hi := 7, stem := 2, pos := none, fin := true } (by decide +kernel) hle hpre
  rcases hs with rfl | rfl | rfl
  · obtain ⟨res, h1, h2, _⟩ := key [100] { offset := 0, lo := 0, hi := 1, stem := 1, pos := none, fin := false }
      (by decide +kernel) rfl (by decide) (by decide +kernel)
    exact ⟨res, h1, h2⟩
  · obtain ⟨res, h1, h2, _⟩ := key [100, 101] { offset := 0, lo := 0, hi := 2, stem := 1, pos := none, fin := false }
      (by decide +kernel) rfl (by decide) (by decide +kernel)
    exact ⟨res, h1, h2⟩
  · obtain ⟨res, h1, h2, _⟩ := key [100, 101, 102] { offset := 0, lo := 0, hi := 3, stem := 2, pos := none, fin := false }
      (by decide +kernel) rfl (by decide) (by decide +kernel)
    exact ⟨res, h1, h2⟩

end C03Example

end Lucid
