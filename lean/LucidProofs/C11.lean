/-
  C11 — "Replacing letters of the query by their other-case form, writing its accented letters in
  decomposed instead of precomposed form, stripping the accents the store's language folds, or prefixing
  separators, never changes the hit list or the highlighted titles. Storing a title in decomposed form gives
  the same hits and the same returned titles as storing it precomposed."

  WHAT IS PROVED HERE (honest scope):
  * `C11_search_congr*`: the whole search pipeline (trigram candidates, word/text matching, scoring, filter,
    bounded selection, highlighting, cache update) depends on the tokenised query only through its words —
    their characters, classes, stem, part of speech, finished flag and the gaps between them — and not on
    absolute positions or on `source` (`QEquiv`).
  * `C11_separator_prefix*`: the *separator prefix* variant of the property, through the generated query
    tokenizer.
  WHAT IS NOT PROVED HERE: the re-casing, decomposed-vs-precomposed and accent-folding variants of the query,
  and the decomposed-vs-precomposed *title* statement, are NOT covered by any theorem in this file. They are
  exercised only by the correspondence run and the C11 probe of the harness.
  SORTER CAVEAT: equality of the *selected* results needs the sorting oracle to treat hits as opaque values
  (`SorterNatural`): the hits for the two queries differ in the `lo`/`hi` stored in their query matches, and an
  arbitrary Lean function of the `Sorter.sort` type could break ties between equal-score hits by looking at
  them. `C11_search_congr_topk` is the statement that holds for every sorted-permutation sorter.
  Statements only; helper lemmas live in LucidProofs/Lemmas/QueryCongr.lean.
-/
import LucidProofs.Lemmas.Facts
import LucidProofs.Lemmas.QueryCongr

namespace Lucid

/-- Two tokenised queries that are shifted copies of each other (`QEquiv`: same words up to a constant
    shift of their positions, same characters and classes under the words and between them; `source` and
    everything outside the words may differ) give the same search results — ids and highlighted titles, in
    the same order — on every store, for every `K` and score order. The sorting routine is assumed to
    treat hits as opaque values (`SorterNatural`, true of every real sorting algorithm). -/
theorem C11_search_congr {S : Sorter} (hS : SorterNatural S) (K : Consts) (order : List ScoreType) (st : Store)
    {d : Nat} {q q' : Text} (h : QEquiv d q q') :
    st.search S K order q' = st.search S K order q := by
  simp only [Store.search, searchM_congr hS K order st h]

/-- Same, including the store after the call (the `top_ixs` cache update does not depend on the query
    beyond its being empty). -/
theorem C11_searchM_congr {S : Sorter} (hS : SorterNatural S) (K : Consts) (order : List ScoreType) (st : Store)
    {d : Nat} {q q' : Text} (h : QEquiv d q q') :
    st.searchM S K order q' = st.searchM S K order q :=
  searchM_congr hS K order st h

/-- Without any naturality assumption, for every sorter returning sorted permutations: the candidate
    positions are equal, the scored and filtered hits are equal up to the positions recorded in the query
    matches, and the results for the shifted query are the rendering of a top-`limit` selection of the very
    hit list of the original query (so the two result lists can differ only in how the sorter breaks ties
    among hits with equal score vectors). -/
theorem C11_search_congr_topk {S : Sorter} (hS : SorterOK S) (K : Consts) (hK : 1 ≤ K.sortFactor)
    (order : List ScoreType) (st : Store) {d : Nat} {q q' : Text} (h : QEquiv d q q') :
    (st.candidatesM S K q').1 = (st.candidatesM S K q).1 ∧
    (∀ ixs, st.hitsOf K order q' ixs = (st.hitsOf K order q ixs).map (Hit.shiftQ d)) ∧
    ∃ top, TopK hitLe st.limit (st.hitsOf K order q (st.candidatesM S K q).1) top ∧
      st.search S K order q' = top.map st.render :=
  ⟨by rw [candidatesM_congr h], hitsOf_congr K order st h, search_congr_topk hS K hK order st h⟩

/-- instantiation at the constants generated from the source -/
theorem C11_search_congr_src {S : Sorter} (hS : SorterNatural S) (st : Store) {d : Nat} {q q' : Text}
    (h : QEquiv d q q') :
    st.search S Gen.srcConsts Gen.srcScoreOrder q' = st.search S Gen.srcConsts Gen.srcScoreOrder q :=
  C11_search_congr hS _ _ st h

/-- non-vacuity: insertion sort meets both sorter hypotheses -/
example : SorterNatural insSorter ∧ SorterOK insSorter := ⟨insSorter_natural, insSorter_ok⟩
example : 1 ≤ Gen.srcConsts.sortFactor := by decide

/-- non-vacuity: the query `ab cd` (words at 0..2 and 3..5) and the same words found two positions further
    in a text with other `source` and other content before the first word -/
example : QEquiv 2
    { words := [⟨0, 0, 2, 2, none, true⟩, ⟨1, 3, 5, 1, some .noun, false⟩], source := [97, 98, 32, 99, 100],
      chars := [97, 98, 32, 99, 100], classes := [.vowel, .consonant, .whitespace, .consonant, .consonant] }
    { words := [⟨0, 2, 4, 2, none, true⟩, ⟨1, 5, 7, 1, some .noun, false⟩], source := [],
      chars := [45, 45, 97, 98, 32, 99, 100],
      classes := [.punctuation, .any, .vowel, .consonant, .whitespace, .consonant, .consonant] } :=
  QEquiv.of_prefix [45, 45] [.punctuation, .any] rfl rfl rfl rfl

/-! ### the separator-prefix variant through the generated query tokenizer -/

/-- Tokenising a query with a prefix `p` of separators in front gives the tokenisation of the query without
    the prefix, shifted right by `p.length` (`QEquiv`). Hypotheses on the prefix: every character of `p` is a
    separator of the split step (`isSepChar`: whitespace, control or in the punctuation set), none is
    upper-case (so that the conditional `lower` step takes the same branch), and none occurs in a key of the
    language's compose or reduce table (so that normalisation passes `p` through one character at a time and
    no two-character pattern straddles the border between `p` and `s`). Holds for every language table,
    character oracle and stemmer. -/
theorem C11_separator_prefix_equiv (E : Env) (p s : List Nat)
    (hsep : ∀ c ∈ p, isSepChar E.U E.K c = true)
    (hup : ∀ c ∈ p, E.U.isUppercase c = false)
    (hcomp : NoKeyChar E.T.compose p) (hred : NoKeyChar E.T.reduce p) :
    QEquiv p.length (tokenizeQuery Gen.srcProg E s) (tokenizeQuery Gen.srcProg E (p ++ s)) :=
  tokenize_separator_prefix E p s hsep hup hcomp hred

/-- Prefixing separators to the query string never changes the search results (ids and highlighted titles)
    nor the store after the call: every store, limit, markers, `K`, score order, language and stemmer. -/
theorem C11_separator_prefix {S : Sorter} (hS : SorterNatural S) (E : Env) (K : Consts) (order : List ScoreType)
    (st : Store) (p s : List Nat)
    (hsep : ∀ c ∈ p, isSepChar E.U E.K c = true)
    (hup : ∀ c ∈ p, E.U.isUppercase c = false)
    (hcomp : NoKeyChar E.T.compose p) (hred : NoKeyChar E.T.reduce p) :
    st.searchM S K order (tokenizeQuery Gen.srcProg E (p ++ s)) =
      st.searchM S K order (tokenizeQuery Gen.srcProg E s) :=
  searchM_congr hS K order st (C11_separator_prefix_equiv E p s hsep hup hcomp hred)

/-- the same for the results only, at the constants and score order generated from the source -/
theorem C11_separator_prefix_src {S : Sorter} (hS : SorterNatural S) (E : Env) (st : Store) (p s : List Nat)
    (hsep : ∀ c ∈ p, isSepChar E.U E.K c = true)
    (hup : ∀ c ∈ p, E.U.isUppercase c = false)
    (hcomp : NoKeyChar E.T.compose p) (hred : NoKeyChar E.T.reduce p) :
    st.search S Gen.srcConsts Gen.srcScoreOrder (tokenizeQuery Gen.srcProg E (p ++ s)) =
      st.search S Gen.srcConsts Gen.srcScoreOrder (tokenizeQuery Gen.srcProg E s) := by
  simp only [Store.search, C11_separator_prefix hS E _ _ st p s hsep hup hcomp hred]

/-- non-vacuity: a small character oracle, the generated German tables and constants, prefix `" - "` -/
private def exU : Unicode :=
  { isAlphabetic := fun c => (65 ≤ c && c ≤ 90) || (97 ≤ c && c ≤ 122) || 192 ≤ c,
    isNumeric := fun c => 48 ≤ c && c ≤ 57,
    isWhitespace := fun c => c == 32 || c == 9,
    isControl := fun c => c < 32,
    isUppercase := fun c => 65 ≤ c && c ≤ 90,
    lower1 := fun c => if 65 ≤ c && c ≤ 90 then c + 32 else c }
private def exE : Env := { U := exU, K := Gen.srcConsts, T := Gen.lang_de, stem := List.length }

example : (∀ c ∈ [32, 45, 32], isSepChar exE.U exE.K c = true) ∧ (∀ c ∈ [32, 45, 32], exE.U.isUppercase c = false) ∧
    NoKeyChar exE.T.compose [32, 45, 32] ∧ NoKeyChar exE.T.reduce [32, 45, 32] := by
  refine ⟨by decide, by decide, ?_, ?_⟩ <;> (unfold NoKeyChar; decide)

end Lucid
