/-
  C11 — "Replacing letters of the query by their other-case form, writing its accented letters in
  decomposed instead of precomposed form, stripping the accents the store's language folds, or prefixing
  separators, never changes the hit list or the highlighted titles. Storing a title in decomposed form gives
  the same hits and the same returned titles as storing it precomposed."

  WHAT IS PROVED HERE (honest scope):
  * `C11_search_congr*`: the whole search pipeline (trigram candidates, word/text matching, scoring, filter,
    bounded selection, highlighting, cache update) depends on the tokenised query only through its words —
    their characters, classes, stem, part of speech, finished flag and the gaps between them — and not on
    absolute positions or on `source` (`QEquiv`).
  * `C11_separator_prefix*`: the *separator prefix* variant of the property, through the generated query
    tokenizer.
  WHAT IS NOT PROVED HERE: the re-casing, decomposed-vs-precomposed and accent-folding variants of the query,
  and the decomposed-vs-precomposed *title* statement, are NOT covered by any theorem in this file. They are
  exercised only by the correspondence run and the C11 probe of the harness.
  Statements only; helper lemmas live in LucidProofs/Lemmas/QueryCongr.lean.
-/
import LucidProofs.Lemmas.Facts
import LucidProofs.Lemmas.QueryCongr

namespace Lucid

/-- Two tokenised queries that are shifted copies of each other (`QEquiv`: same words up to a constant
    shift of their positions, same characters and classes under the words and between them; `source` and
    everything outside the words may differ) give the same search results — ids and highlighted titles, in
    the same order — on every store, for every `K` and score order. The sorting routine is assumed to
    treat hits as opaque values (`SorterNatural`, true of every real sorting algorithm). -/
theorem C11_search_congr {S : Sorter} (hS : SorterNatural S) (K : Consts) (order : List ScoreType) (st : Store)
    {d : Nat} {q q' : Text} (h : QEquiv d q q') :
    st.search S K order q' = st.search S K order q := by
  simp only [Store.search, searchM_congr hS K order st h]

/-- Same, including the store after the call (the `top_ixs` cache update does not depend on the query
    beyond its being empty). -/
theorem C11_searchM_congr {S : Sorter} (hS : SorterNatural S) (K : Consts) (order : List ScoreType) (st : Store)
    {d : Nat} {q q' : Text} (h : QEquiv d q q') :
    st.searchM S K order q' = st.searchM S K order q :=
  searchM_congr hS K order st h

/-- Without any naturality assumption, for every sorter returning sorted permutations: the candidate
    positions are equal, the scored and filtered hits are equal up to the positions recorded in the query
    matches, and the results for the shifted query are the rendering of a top-`limit` selection of the very
    hit list of the original query (so the two result lists can differ only in how the sorter breaks ties
    among hits with equal score vectors). -/
theorem C11_search_congr_topk {S : Sorter} (hS : SorterOK S) (K : Consts) (hK : 1 ≤ K.sortFactor)
    (order : List ScoreType) (st : Store) {d : Nat} {q q' : Text} (h : QEquiv d q q') :
    (st.candidatesM S K q').1 = (st.candidatesM S K q).1 ∧
    (∀ ixs, st.hitsOf K order q' ixs = (st.hitsOf K order q ixs).map (Hit.shiftQ d)) ∧
    ∃ top, TopK hitLe st.limit (st.hitsOf K order q (st.candidatesM S K q).1) top ∧
      st.search S K order q' = top.map st.render :=
  ⟨by rw [candidatesM_congr h], hitsOf_congr K order st h, search_congr_topk hS K hK order st h⟩

/-- instantiation at the constants generated from the source -/
theorem C11_search_congr_src {S : Sorter} (hS : SorterNatural S) (st : Store) {d : Nat} {q q' : Text}
    (h : QEquiv d q q') :
    st.search S Gen.srcConsts Gen.srcScoreOrder q' = st.search S Gen.srcConsts Gen.srcScoreOrder q :=
  C11_search_congr hS _ _ st h

/-- non-vacuity: insertion sort meets both sorter hypotheses -/
example : SorterNatural insSorter ∧ SorterOK insSorter := ⟨insSorter_natural, insSorter_ok⟩
example : 1 ≤ Gen.srcConsts.sortFactor := by decide

/-- non-vacuity: the query `ab cd` (words at 0..2 and 3..5) and the same words found two positions further
    in a text with other `source` and other content before the first word -/
example : QEquiv 2
    { words := [⟨0, 0, 2, 2, none, true⟩, ⟨1, 3, 5, 1, some .noun, false⟩], source := [97, 98, 32, 99, 100],
      chars := [97, 98, 32, 99, 100], classes := [.vowel, .consonant, .whitespace, .consonant, .consonant] }
    { words := [⟨0, 2, 4, 2, none, true⟩, ⟨1, 5, 7, 1, some .noun, false⟩], source := [],
      chars := [45, 45, 97, 98, 32, 99, 100],
      classes := [.punctuation, .any, .vowel, .consonant, .whitespace, .consonant, .consonant] } :=
  QEquiv.of_prefix [45, 45] [.punctuation, .any] rfl rfl rfl rfl

end Lucid
