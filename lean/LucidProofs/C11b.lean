/-
  C11 (remaining variants) — "Replacing letters of the query by their other-case form, writing its accented
  letters in decomposed instead of precomposed form, stripping the accents the store's language folds
  (ö→o, ß→ss, é→e, ё→е, ...), or prefixing separators, never changes the hit list or the highlighted titles.
  Storing a title in decomposed form gives the same hits and the same returned titles as storing it
  precomposed."   (The separator-prefix variant and the search congruence are in C11.lean.)

  HOW THE VARIANTS ARE WRITTEN.  `s` is a string without free-standing combining marks of the language's compose
  table (`MarkFree`), and
    * `decompAt compose s mask` writes the letters at the positions selected by `mask` as base letter +
      combining mark (the key of the compose-table entry producing the letter);
    * `foldAt reduce s mask` replaces the letters at the selected positions by what the reduce table maps them
      to (`ö→o`, `ß→ss`, …);
    * a re-casing of `s` is any `s'` with `s'.map lower1 = s.map lower1` (same length, position by position the
      same lower-case form: every subset of positions, every one-to-one or many-to-one case pair).
  `mask` is arbitrary, so every subset of positions is covered.

  WHAT THE TABLES MUST SATISFY (decidable, kernel-checked for all seven generated languages, see
  `variantTablesOK_srcLangs`; none of the generated tables violates any of them):
    * `ComposeClosed` : compose keys are pairs `[base, mark]`, no base is a mark, no key is shadowed;
    * `FoldClosed`    : reduce keys are single characters and no character of a replacement is a key;
    * `FoldMarkFree`  : no character of a reduce replacement is a combining mark of the compose table.

  WHAT IS ASSUMED OF THE CHARACTER ORACLE, FOR RE-CASING ONLY (not decidable in Lean; each is a finite check
  over the scalar values that the harness can run against Rust's `std` together with `UnicodeFacts`):
    * `CaseClosedOn` : folding a character and folding its lower-case form agree up to case;
    * `SepLowerOn`   : lower-casing does not change whether a character is a separator (one half of it is
                       `UnicodeFacts.lower_sep`).
  These hypotheses are stated on the characters that actually occur, not on all scalars.

  HISTORY (finding D5). An earlier version needed a third hypothesis `NoLowerChangeOn` ("a character that is not
  upper-case is its own lower-case form"), which is FALSE in Unicode for the title-case letters (`ǅ ǈ ǋ ǲ`,
  `ᾈ`…: not `is_uppercase`, yet changed by `to_lowercase`): `TextOwn::lower` lower-cased the array only if it
  contained an upper-case character, so a query containing `ǅ` was tokenised differently depending on whether
  some *other* letter was upper-case. The Rust code now lower-cases every character unconditionally, the model
  follows, and the hypothesis is gone; `C11_recase_titlecase` below is the former counterexample (`ǅa` / `ǅA`),
  now an instance of the theorem.

  Decomposition and folding need no assumption on the oracle at all: they are undone by `normalize`, the first
  tokenizer step, before any character predicate is consulted.
-/
import LucidProofs.Lemmas.NormVariants
import LucidProofs.C11
import LucidProofs.C15

namespace Lucid

/-! ### 4. decomposed titles -/

/-- Two titles with the same composed form are tokenised identically, `source` (the text that is highlighted
    and returned) included: every language table, oracle and stemmer, no hypothesis. -/
theorem C11_title_same_composition (E : Env) (s s' : List Nat) (h : compose E.T s' = compose E.T s) :
    tokenizeRecord Gen.srcProg E s' = tokenizeRecord Gen.srcProg E s :=
  tokenizeRecord_of_compose E h

/-- Storing a title with any subset of its accented letters written in decomposed form (base letter followed
    by the combining mark) produces exactly the same record text — words, characters, classes and the
    `source` that is returned — as storing it precomposed. Hypotheses: the compose table is `ComposeClosed`
    (kernel-checked for every generated language) and the title has no free-standing combining marks. -/
theorem C11_title_decomposed (E : Env) (hC : ComposeClosed E.T.compose = true) (s : List Nat)
    (hs : MarkFree E.T.compose s) (mask : List Bool) :
    tokenizeRecord Gen.srcProg E (decompAt E.T.compose s mask) = tokenizeRecord Gen.srcProg E s :=
  tokenizeRecord_of_compose E (compose_decompAt E hC s hs mask)

/-- the same for every language of the generated registry list -/
theorem C11_title_decomposed_src (E : Env) {name : String} (hT : (name, E.T) ∈ Gen.srcLangs) (s : List Nat)
    (hs : MarkFree E.T.compose s) (mask : List Bool) :
    tokenizeRecord Gen.srcProg E (decompAt E.T.compose s mask) = tokenizeRecord Gen.srcProg E s :=
  C11_title_decomposed E (variantTablesOK_of_src hT).1 s hs mask

/-- Hence the store after `add` is the same store, and every later search returns the same ids and the same
    highlighted titles (any sorter, constants, score order, query). -/
theorem C11_title_decomposed_store (E : Env) (hC : ComposeClosed E.T.compose = true) (s : List Nat)
    (hs : MarkFree E.T.compose s) (mask : List Bool) (st : Store) (id rating : Nat) :
    st.add id (tokenizeRecord Gen.srcProg E (decompAt E.T.compose s mask)) rating =
      st.add id (tokenizeRecord Gen.srcProg E s) rating ∧
    ∀ (S : Sorter) (K : Consts) (order : List ScoreType) (q : Text),
      (st.add id (tokenizeRecord Gen.srcProg E (decompAt E.T.compose s mask)) rating).searchM S K order q =
        (st.add id (tokenizeRecord Gen.srcProg E s) rating).searchM S K order q := by
  rw [C11_title_decomposed E hC s hs mask]
  exact ⟨rfl, fun _ _ _ _ => rfl⟩

/-- Library level: `add_record` with the decomposed title leaves the registry (all stores, all pending
    results) in exactly the state `add_record` with the precomposed title leaves it in. `lang` is the language
    the store `id` was created with; if there is no such store both calls are the same no-op. -/
theorem C11_title_decomposed_registry (S : Sorter) (envs : Nat → Env) (g : Registry) (id recId rating : Nat)
    (s : List Nat) (mask : List Bool) (m : List (List Nat × List Nat))
    (h : ∀ lang st, amGet g.stores id = some (lang, st) →
      (envs lang).T.compose = m ∧ ComposeClosed m = true ∧ MarkFree m s) :
    Registry.step S Gen.srcProg envs g (.addRecord id recId (decompAt m s mask) rating) =
      Registry.step S Gen.srcProg envs g (.addRecord id recId s rating) := by
  apply step_addRecord_congr
  intro lang st hg
  obtain ⟨hm, hC, hs⟩ := h lang st hg
  subst hm
  exact C11_title_decomposed (envs lang) hC s hs mask

/-- non-vacuity: German tables, `Über` stored as `U` + U+0308 + `ber` -/
example : ComposeClosed (toyEnv Gen.lang_de).T.compose = true ∧
    MarkFree (toyEnv Gen.lang_de).T.compose [220, 98, 101, 114] ∧
    decompAt (toyEnv Gen.lang_de).T.compose [220, 98, 101, 114] [true] = [85, 776, 98, 101, 114] :=
  ⟨composeClosed_de, by decide, by decide⟩

/-- … and the record text both spellings produce: `source` is the precomposed `Über` -/
example : tokenizeRecord Gen.srcProg (toyEnv Gen.lang_de) [85, 776, 98, 101, 114] =
    tokenizeRecord Gen.srcProg (toyEnv Gen.lang_de) [220, 98, 101, 114] ∧
    (tokenizeRecord Gen.srcProg (toyEnv Gen.lang_de) [85, 776, 98, 101, 114]).source = [220, 98, 101, 114] :=
  ⟨C11_title_decomposed (toyEnv Gen.lang_de) composeClosed_de [220, 98, 101, 114] (by decide) [true],
   by decide +kernel⟩

/-! ### 2. decomposed query -/

/-- Two queries with the same composed form are tokenised identically. -/
theorem C11_query_same_composition (E : Env) (s s' : List Nat) (h : compose E.T s' = compose E.T s) :
    tokenizeQuery Gen.srcProg E s' = tokenizeQuery Gen.srcProg E s :=
  tokenizeQuery_of_compose E h

/-- Writing any subset of the accented letters of a query in decomposed form gives exactly the same tokenised
    query (so `source` too). Hypotheses: `ComposeClosed` compose table (kernel-checked for every generated
    language), query without free-standing combining marks. -/
theorem C11_decompose_variant (E : Env) (hC : ComposeClosed E.T.compose = true) (s : List Nat)
    (hs : MarkFree E.T.compose s) (mask : List Bool) :
    tokenizeQuery Gen.srcProg E (decompAt E.T.compose s mask) = tokenizeQuery Gen.srcProg E s :=
  tokenizeQuery_of_compose E (compose_decompAt E hC s hs mask)

theorem C11_decompose_variant_src (E : Env) {name : String} (hT : (name, E.T) ∈ Gen.srcLangs) (s : List Nat)
    (hs : MarkFree E.T.compose s) (mask : List Bool) :
    tokenizeQuery Gen.srcProg E (decompAt E.T.compose s mask) = tokenizeQuery Gen.srcProg E s :=
  C11_decompose_variant E (variantTablesOK_of_src hT).1 s hs mask

/-- Hence the same hit list, the same highlighted titles and the same store after the call — for every sorting
    oracle (the tokenised queries are equal, no naturality needed). -/
theorem C11_decompose_search (S : Sorter) (E : Env) (K : Consts) (order : List ScoreType) (st : Store)
    (hC : ComposeClosed E.T.compose = true) (s : List Nat) (hs : MarkFree E.T.compose s) (mask : List Bool) :
    st.searchM S K order (tokenizeQuery Gen.srcProg E (decompAt E.T.compose s mask)) =
      st.searchM S K order (tokenizeQuery Gen.srcProg E s) := by
  rw [C11_decompose_variant E hC s hs mask]

/-- library level: `search` with the decomposed query leaves the registry exactly as `search` with the
    precomposed one does -/
theorem C11_decompose_registry (S : Sorter) (envs : Nat → Env) (g : Registry) (id : Nat)
    (s : List Nat) (mask : List Bool) (m : List (List Nat × List Nat))
    (h : ∀ lang st, amGet g.stores id = some (lang, st) →
      (envs lang).T.compose = m ∧ ComposeClosed m = true ∧ MarkFree m s) :
    Registry.step S Gen.srcProg envs g (.runSearch id (decompAt m s mask)) =
      Registry.step S Gen.srcProg envs g (.runSearch id s) := by
  apply step_runSearch_congr
  intro lang st hg
  obtain ⟨hm, hC, hs⟩ := h lang st hg
  subst hm
  exact C11_decompose_search S (envs lang) _ _ st hC s hs mask

/-- non-vacuity: French tables, `été` with both `é` decomposed -/
example : ComposeClosed (toyEnv Gen.lang_fr).T.compose = true ∧
    MarkFree (toyEnv Gen.lang_fr).T.compose [233, 116, 233] ∧
    decompAt (toyEnv Gen.lang_fr).T.compose [233, 116, 233] [true, false, true] = [101, 769, 116, 101, 769] :=
  ⟨composeClosed_fr, by decide, by decide⟩

/-! ### 1. folded query -/

/-- Replacing any subset of the letters of a query by what the language's reduce table folds them to
    (`ö→o`, `ß→ss`, `é→e`, `ё→е`, `æ→ae`, …) gives the same tokenised query up to `source` (same words, same
    characters, same classes). Hypotheses: the three table conditions (kernel-checked for every generated
    language), query without free-standing combining marks. No assumption on the character oracle. -/
theorem C11_fold_variant (E : Env) (hC : ComposeClosed E.T.compose = true) (hF : FoldClosed E.T.reduce = true)
    (hM : FoldMarkFree E.T = true) (s : List Nat) (hs : MarkFree E.T.compose s) (mask : List Bool) :
    (tokenizeQuery Gen.srcProg E (foldAt E.T.reduce s mask)).sameUpToSource (tokenizeQuery Gen.srcProg E s) :=
  tokenizeQuery_of_normChars E (normChars_foldAt E hC hF hM s hs mask)

theorem C11_fold_variant_src (E : Env) {name : String} (hT : (name, E.T) ∈ Gen.srcLangs) (s : List Nat)
    (hs : MarkFree E.T.compose s) (mask : List Bool) :
    (tokenizeQuery Gen.srcProg E (foldAt E.T.reduce s mask)).sameUpToSource (tokenizeQuery Gen.srcProg E s) :=
  C11_fold_variant E (variantTablesOK_of_src hT).1 (variantTablesOK_of_src hT).2.1 (variantTablesOK_of_src hT).2.2
    s hs mask

/-- Hence the same hit list, the same highlighted titles and the same store after the call (sorter treating
    hits as opaque values, `SorterNatural`, as in `C11_searchM_congr`). -/
theorem C11_fold_search {S : Sorter} (hS : SorterNatural S) (E : Env) (K : Consts) (order : List ScoreType)
    (st : Store) (hC : ComposeClosed E.T.compose = true) (hF : FoldClosed E.T.reduce = true)
    (hM : FoldMarkFree E.T = true) (s : List Nat) (hs : MarkFree E.T.compose s) (mask : List Bool) :
    st.searchM S K order (tokenizeQuery Gen.srcProg E (foldAt E.T.reduce s mask)) =
      st.searchM S K order (tokenizeQuery Gen.srcProg E s) :=
  C11_searchM_congr hS K order st (QEquiv.of_sameUpToSource (C11_fold_variant E hC hF hM s hs mask))

theorem C11_fold_search_src {S : Sorter} (hS : SorterNatural S) (E : Env) {name : String}
    (hT : (name, E.T) ∈ Gen.srcLangs) (st : Store) (s : List Nat) (hs : MarkFree E.T.compose s) (mask : List Bool) :
    st.search S Gen.srcConsts Gen.srcScoreOrder (tokenizeQuery Gen.srcProg E (foldAt E.T.reduce s mask)) =
      st.search S Gen.srcConsts Gen.srcScoreOrder (tokenizeQuery Gen.srcProg E s) := by
  simp only [Store.search, C11_fold_search hS E _ _ st (variantTablesOK_of_src hT).1
    (variantTablesOK_of_src hT).2.1 (variantTablesOK_of_src hT).2.2 s hs mask]

/-- library level -/
theorem C11_fold_registry {S : Sorter} (hS : SorterNatural S) (envs : Nat → Env) (g : Registry) (id : Nat)
    (s : List Nat) (mask : List Bool) (T : LangTables)
    (h : ∀ lang st, amGet g.stores id = some (lang, st) →
      (envs lang).T = T ∧ ComposeClosed T.compose = true ∧ FoldClosed T.reduce = true ∧ FoldMarkFree T = true ∧
        MarkFree T.compose s) :
    Registry.step S Gen.srcProg envs g (.runSearch id (foldAt T.reduce s mask)) =
      Registry.step S Gen.srcProg envs g (.runSearch id s) := by
  apply step_runSearch_congr
  intro lang st hg
  obtain ⟨hm, hC, hF, hM, hs⟩ := h lang st hg
  subst hm
  exact C11_fold_search hS (envs lang) _ _ st hC hF hM s hs mask

/-- non-vacuity: German tables, `Straße` typed `Strasse`; the two tokenised queries differ in `source` only
    (`ß` + NUL padding against `ss`) -/
example : MarkFree (toyEnv Gen.lang_de).T.compose [83, 116, 114, 97, 223, 101] ∧
    foldAt (toyEnv Gen.lang_de).T.reduce [83, 116, 114, 97, 223, 101] [false, false, false, false, true] =
      [83, 116, 114, 97, 115, 115, 101] ∧
    (tokenizeQuery Gen.srcProg (toyEnv Gen.lang_de) [83, 116, 114, 97, 223, 101]).source = [83, 116, 114, 97, 223, 0, 101] ∧
    (tokenizeQuery Gen.srcProg (toyEnv Gen.lang_de) [83, 116, 114, 97, 115, 115, 101]).source =
      [83, 116, 114, 97, 115, 115, 101] :=
  ⟨by decide, by decide, by decide +kernel, by decide +kernel⟩

/-! ### 3. re-cased query -/

/-- A query `s'` that is a re-casing of `s` (`s'.map lower1 = s.map lower1`: position by position the same
    lower-case form, any subset of positions changed) gives the same tokenised query up to `source`.
    Hypotheses: `UnicodeFacts` (checked against `std` by the harness), `ComposeClosed`/`FoldClosed` tables
    (kernel-checked for every generated language), both spellings free of combining marks, and two
    oracle-relative facts restricted to the characters that occur — `CaseClosedOn` on the characters of the two
    queries (the reduce table treats a letter and its lower-case form alike, up to case) and `SepLowerOn` on the
    characters of the two normalised strings (lower-casing keeps separator-ness). Nothing is assumed about which
    characters are upper-case: title-case letters (`ǅ`…) are covered. -/
theorem C11_recase_variant (E : Env) (hU : UnicodeFacts E.U E.K) (hC : ComposeClosed E.T.compose = true)
    (hF : FoldClosed E.T.reduce = true) (s s' : List Nat)
    (hs : MarkFree E.T.compose s) (hs' : MarkFree E.T.compose s')
    (hcase : s'.map E.U.lower1 = s.map E.U.lower1)
    (hcc : CaseClosedOn E (s ++ s'))
    (hsl : SepLowerOn E (normChars E s ++ normChars E s')) :
    (tokenizeQuery Gen.srcProg E s').sameUpToSource (tokenizeQuery Gen.srcProg E s) :=
  tokenizeQuery_of_lower_eq E hU s s' (normChars_recase E hC hF s s' hs hs' hcase hcc) hsl

theorem C11_recase_variant_src (E : Env) (hU : UnicodeFacts E.U E.K) {name : String}
    (hT : (name, E.T) ∈ Gen.srcLangs) (s s' : List Nat)
    (hs : MarkFree E.T.compose s) (hs' : MarkFree E.T.compose s')
    (hcase : s'.map E.U.lower1 = s.map E.U.lower1)
    (hcc : CaseClosedOn E (s ++ s'))
    (hsl : SepLowerOn E (normChars E s ++ normChars E s')) :
    (tokenizeQuery Gen.srcProg E s').sameUpToSource (tokenizeQuery Gen.srcProg E s) :=
  C11_recase_variant E hU (variantTablesOK_of_src hT).1 (variantTablesOK_of_src hT).2.1 s s' hs hs' hcase hcc hsl

/-- Hence the same hit list, highlighted titles and store after the call (`SorterNatural` sorter). -/
theorem C11_recase_search {S : Sorter} (hS : SorterNatural S) (E : Env) (K : Consts) (order : List ScoreType)
    (st : Store) (hU : UnicodeFacts E.U E.K) (hC : ComposeClosed E.T.compose = true)
    (hF : FoldClosed E.T.reduce = true) (s s' : List Nat)
    (hs : MarkFree E.T.compose s) (hs' : MarkFree E.T.compose s')
    (hcase : s'.map E.U.lower1 = s.map E.U.lower1)
    (hcc : CaseClosedOn E (s ++ s'))
    (hsl : SepLowerOn E (normChars E s ++ normChars E s')) :
    st.searchM S K order (tokenizeQuery Gen.srcProg E s') = st.searchM S K order (tokenizeQuery Gen.srcProg E s) :=
  C11_searchM_congr hS K order st
    (QEquiv.of_sameUpToSource (C11_recase_variant E hU hC hF s s' hs hs' hcase hcc hsl))

/-- the same for the results only, generated constants, score order and language tables -/
theorem C11_recase_search_src {S : Sorter} (hS : SorterNatural S) (E : Env) (hU : UnicodeFacts E.U E.K)
    {name : String} (hT : (name, E.T) ∈ Gen.srcLangs) (st : Store) (s s' : List Nat)
    (hs : MarkFree E.T.compose s) (hs' : MarkFree E.T.compose s')
    (hcase : s'.map E.U.lower1 = s.map E.U.lower1)
    (hcc : CaseClosedOn E (s ++ s'))
    (hsl : SepLowerOn E (normChars E s ++ normChars E s')) :
    st.search S Gen.srcConsts Gen.srcScoreOrder (tokenizeQuery Gen.srcProg E s') =
      st.search S Gen.srcConsts Gen.srcScoreOrder (tokenizeQuery Gen.srcProg E s) := by
  simp only [Store.search, C11_recase_search hS E _ _ st hU (variantTablesOK_of_src hT).1
    (variantTablesOK_of_src hT).2.1 s s' hs hs' hcase hcc hsl]

/-- With the two oracle facts assumed for ALL characters, the theorem reads: every mark-free re-casing of a
    mark-free query searches alike. -/
theorem C11_recase_search_global {S : Sorter} (hS : SorterNatural S) (E : Env) (K : Consts) (order : List ScoreType)
    (st : Store) (hU : UnicodeFacts E.U E.K) (hC : ComposeClosed E.T.compose = true)
    (hF : FoldClosed E.T.reduce = true)
    (hcc : ∀ cs, CaseClosedOn E cs) (hsl : ∀ cs, SepLowerOn E cs)
    (s s' : List Nat) (hs : MarkFree E.T.compose s) (hs' : MarkFree E.T.compose s')
    (hcase : s'.map E.U.lower1 = s.map E.U.lower1) :
    st.searchM S K order (tokenizeQuery Gen.srcProg E s') = st.searchM S K order (tokenizeQuery Gen.srcProg E s) :=
  C11_recase_search hS E K order st hU hC hF s s' hs hs' hcase (hcc _) (hsl _)

/-! #### non-vacuity: a Latin-1 oracle with the German tables, `Über uns` typed `üBER Uns` -/

/-- toy oracle with the Latin-1 letters: upper-case `A–Z`, `À–Þ` except `×`; `to_lowercase` = `+32` -/
def latinU : Unicode where
  isAlphabetic c := (decide (97 ≤ c) && decide (c ≤ 122)) || (decide (65 ≤ c) && decide (c ≤ 90)) ||
    (decide (192 ≤ c) && decide (c ≤ 255) && !decide (c = 215) && !decide (c = 247))
  isNumeric c := decide (48 ≤ c) && decide (c ≤ 57)
  isWhitespace c := decide (c = 32)
  isControl c := decide (c < 32)
  isUppercase c := (decide (65 ≤ c) && decide (c ≤ 90)) || (decide (192 ≤ c) && decide (c ≤ 222) && !decide (c = 215))
  lower1 c := if (65 ≤ c ∧ c ≤ 90) ∨ (192 ≤ c ∧ c ≤ 222 ∧ c ≠ 215) then c + 32 else c

def latinEnv (T : LangTables) : Env := { U := latinU, K := Gen.srcConsts, T := T, stem := toyStem }

theorem latinU_facts : UnicodeFacts latinU Gen.srcConsts := by
  refine ⟨?_, ?_, ?_, ?_, ?_, ?_, by decide⟩
  · intro c h
    simp [latinU, isSepChar, Unicode.isAlnum, Gen.srcConsts] at h ⊢
    omega
  · intro c
    simp only [latinU, Unicode.isAlnum]
    split
    · rw [Bool.eq_iff_iff]; simp; omega
    · rfl
  · intro c
    simp only [latinU]
    split
    · rw [Bool.eq_iff_iff]; simp; omega
    · rfl
  · intro c h
    simp [latinU, isSepChar, Gen.srcConsts] at h ⊢
    split <;> omega
  · intro c
    simp only [latinU]
    split <;> simp <;> omega
  · intro c
    simp only [latinU]
    split <;> simp <;> omega

/-- for this oracle `SepLowerOn` holds for all characters -/
theorem latinU_sepLower (T : LangTables) (cs : List Nat) : SepLowerOn (latinEnv T) cs := by
  intro c _
  simp only [latinEnv, latinU, isSepChar, Gen.srcConsts]
  split
  · rw [Bool.eq_iff_iff]; simp; omega
  · rfl

/-- `Über uns` / `üBER Uns`: all hypotheses of `C11_recase_variant` hold -/
example :
    MarkFree (latinEnv Gen.lang_de).T.compose [220, 98, 101, 114, 32, 117, 110, 115] ∧
    MarkFree (latinEnv Gen.lang_de).T.compose [252, 66, 69, 82, 32, 85, 110, 115] ∧
    [252, 66, 69, 82, 32, 85, 110, 115].map (latinEnv Gen.lang_de).U.lower1 =
      [220, 98, 101, 114, 32, 117, 110, 115].map (latinEnv Gen.lang_de).U.lower1 ∧
    CaseClosedOn (latinEnv Gen.lang_de) ([220, 98, 101, 114, 32, 117, 110, 115] ++ [252, 66, 69, 82, 32, 85, 110, 115]) := by
  refine ⟨by decide, by decide, by decide, ?_⟩
  unfold CaseClosedOn
  decide

example : (tokenizeQuery Gen.srcProg (latinEnv Gen.lang_de) [252, 66, 69, 82, 32, 85, 110, 115]).sameUpToSource
    (tokenizeQuery Gen.srcProg (latinEnv Gen.lang_de) [220, 98, 101, 114, 32, 117, 110, 115]) :=
  C11_recase_variant (latinEnv Gen.lang_de) latinU_facts composeClosed_de foldClosed_de _ _ (by decide) (by decide)
    (by decide) (by unfold CaseClosedOn; decide) (latinU_sepLower _ _)

/-! #### the title-case letter `ǅ` (U+01C5): the former counterexample (finding D5) is now an instance -/

/-- the ASCII toy oracle plus one title-case letter: `ǅ` (453) is alphabetic, NOT upper-case, and lower-cases
    to `ǆ` (454) -/
def titleU : Unicode :=
  { toyU with
    isAlphabetic := fun c => toyU.isAlphabetic c || decide (c = 453) || decide (c = 454),
    lower1 := fun c => if c = 453 then 454 else toyU.lower1 c }

def titleEnv : Env := { U := titleU, K := Gen.srcConsts, T := Gen.lang_none, stem := toyStem }

/-- `ǅa` and `ǅA` are re-casings of each other (the `ǅ`, which is not `is_uppercase`, is not touched). Before
    the D5 fix their tokenised queries had different characters (`ǅa` against `ǆa`, because `TextOwn::lower`
    rewrote the array only when some character was upper-case); now both are `ǆa`. Kernel-checked. -/
theorem C11_recase_titlecase :
    titleEnv.U.lower1 453 = 454 ∧ titleEnv.U.isUppercase 453 = false ∧
    [453, 65].map titleEnv.U.lower1 = [453, 97].map titleEnv.U.lower1 ∧
    (tokenizeQuery Gen.srcProg titleEnv [453, 97]).chars = [454, 97] ∧
    (tokenizeQuery Gen.srcProg titleEnv [453, 65]).chars = [454, 97] ∧
    tokenizeQuery Gen.srcProg titleEnv [453, 65] =
      { tokenizeQuery Gen.srcProg titleEnv [453, 97] with source := [453, 65] } := by
  refine ⟨by decide, by decide, by decide, by decide +kernel, by decide +kernel, by decide +kernel⟩

theorem titleU_facts : UnicodeFacts titleU Gen.srcConsts := by
  refine ⟨?_, ?_, ?_, ?_, ?_, ?_, by decide⟩
  · intro c h
    simp [titleU, toyU, isSepChar, Unicode.isAlnum, Gen.srcConsts] at h ⊢
    omega
  · intro c
    simp only [titleU, toyU, Unicode.isAlnum]
    split
    · subst_vars; decide
    · split
      · rw [Bool.eq_iff_iff]; simp; omega
      · rfl
  · intro c
    simp only [titleU, toyU]
    split
    · subst_vars; decide
    · split
      · rw [Bool.eq_iff_iff]; simp; omega
      · rfl
  · intro c h
    simp [titleU, toyU, isSepChar, Gen.srcConsts] at h ⊢
    split
    · omega
    · split <;> omega
  · intro c
    by_cases h1 : c = 453
    · subst h1; decide
    · by_cases h2 : 65 ≤ c ∧ c ≤ 90
      · have h3 : ¬ (c + 32 = 453) := by omega
        have h4 : ¬ (65 ≤ c + 32 ∧ c + 32 ≤ 90) := by omega
        simp only [titleU, toyU, h1, h2, h3, h4, if_true, if_false, and_self]
      · simp only [titleU, toyU, h1, h2, if_false]
  · intro c
    by_cases h1 : c = 453
    · subst h1; decide
    · by_cases h2 : 65 ≤ c ∧ c ≤ 90
      · simp only [titleU, toyU, h1, h2, if_true, if_false, and_self]
        simp; omega
      · simp only [titleU, toyU, h1, h2, if_false]
        simp

theorem titleU_sepLower (cs : List Nat) : SepLowerOn titleEnv cs := by
  intro c _
  simp only [titleEnv, titleU, toyU, isSepChar, Gen.srcConsts]
  split
  · subst_vars; decide
  · split
    · rw [Bool.eq_iff_iff]; simp; omega
    · rfl

/-- … and the same pair obtained from `C11_recase_variant`: all its hypotheses hold for `ǅa` / `ǅA` -/
example : (tokenizeQuery Gen.srcProg titleEnv [453, 65]).sameUpToSource (tokenizeQuery Gen.srcProg titleEnv [453, 97]) :=
  C11_recase_variant titleEnv titleU_facts composeClosed_none foldClosed_none _ _ (by decide) (by decide)
    (by decide) (by unfold CaseClosedOn; decide) (titleU_sepLower _)

end Lucid
