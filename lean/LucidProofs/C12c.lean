/-
  C12c — "a query without any letter or digit", read literally.

  C12 and its API form take `q.words = []` as hypothesis. This file says when that happens, in terms of characters:

  * `C12_no_alnum_no_words`: the tokenised query has no word IFF none of its (normalised, lower-cased) characters is
    a letter or digit (from `TokInv.cover` and `TokInv.first_alnum`, C15); same for records;
  * `C12_no_words_iff_normChars`: … IFF none of the characters after `normalize` (compose, then reduce) is a letter
    or digit (lower-casing preserves alphanumeric-ness, `UnicodeFacts.lower_alnum`);
  * `C12_no_words_iff_raw`: for a raw string none of whose characters occurs in a key of the language's compose /
    reduce tables (`NoKeyCharT`; then `normalize` leaves the string alone): no word IFF no character of the raw
    string is a letter or digit. In particular `C12_no_alnum_query`, `C12_separator_only_query` (strings of
    whitespace / control / punctuation-set characters; no condition on `lower1` is needed);
  * with the real tables of Rust's `std`, in each of the seven generated languages, for every string over
    space `-` `!` `?` `,` `.`: `C12_separator_query_std`, and `C12_length` restated with that hypothesis:
    `C12_separator_query_length_std`; top-level API form `C12_api_no_alnum_query`.
-/
import LucidProofs.C12b
import LucidProofs.API
import LucidProofs.C15std

namespace Lucid
open Gen

/-! ### no word ⇔ no letter or digit among the normalised characters -/

/-- a text meeting the tokenizer invariant has no word iff none of its characters is a letter or digit -/
theorem TokInv.words_nil_iff {E : Env} {q : Bool} {s : List Nat} {t : Text} (h : TokInv E q s t) :
    t.words = [] ↔ ∀ c ∈ t.chars, E.U.isAlnum c = false := by
  constructor
  · intro hw c hc
    cases ha : E.U.isAlnum c with
    | false => rfl
    | true =>
      obtain ⟨p, hp⟩ := List.mem_iff_getElem?.1 hc
      obtain ⟨w, hwm, _⟩ := h.cover p c hp ha
      rw [hw] at hwm
      cases hwm
  · intro hall
    apply List.eq_nil_iff_forall_not_mem.2
    intro w hw
    obtain ⟨c, hc, ha⟩ := h.first_alnum w hw
    rw [hall c (List.mem_of_getElem? hc)] at ha
    cases ha

/-- **C12, the hypothesis in characters (queries).** Whatever is typed: the tokenised query has no word if and only
    if none of its normalised, lower-cased characters is a letter or digit. Hypotheses as for C15 (`UnicodeFacts`,
    `TablesOK`, `StemHyp`). -/
theorem C12_no_alnum_no_words (E : Env) (hU : UnicodeFacts E.U E.K) (hT : TablesOK E.T = true) (hSt : StemHyp E)
    (s : List Nat) :
    (tokenizeQuery srcProg E s).words = [] ↔ ∀ c ∈ (tokenizeQuery srcProg E s).chars, E.U.isAlnum c = false :=
  (C15_query_anyK E hU hT hSt s : TokInv E true s (tokenizeQuery srcProg E s)).words_nil_iff

/-- the same for a title: a tokenised title has no word iff it contains no letter or digit -/
theorem C12_no_alnum_no_words_record (E : Env) (hU : UnicodeFacts E.U E.K) (hT : TablesOK E.T = true)
    (hSt : StemHyp E) (s : List Nat) :
    (tokenizeRecord srcProg E s).words = [] ↔ ∀ c ∈ (tokenizeRecord srcProg E s).chars, E.U.isAlnum c = false :=
  (C15_record_anyK E hU hT hSt s : TokInv E false s (tokenizeRecord srcProg E s)).words_nil_iff

/-- the character array of a tokenised query: compose, reduce, then `lower1` on every character -/
theorem tokenizeQuery_chars (E : Env) (s : List Nat) :
    (tokenizeQuery srcProg E s).chars = (normChars E s).map E.U.lower1 := by
  rw [tokenizeQuery_src_eq, normalize_fromChars_shape]; rfl

theorem tokenizeRecord_chars (E : Env) (s : List Nat) :
    (tokenizeRecord srcProg E s).chars = (normChars E s).map E.U.lower1 := by
  rw [tokenizeRecord_src_eq, normalize_fromChars_shape]; rfl

/-- … if and only if none of the characters after `normalize` (Unicode composition, then the language's
    reduction of diacritics) is a letter or digit: lower-casing does not change alphanumeric-ness. -/
theorem C12_no_words_iff_normChars (E : Env) (hU : UnicodeFacts E.U E.K) (hT : TablesOK E.T = true)
    (hSt : StemHyp E) (s : List Nat) :
    (tokenizeQuery srcProg E s).words = [] ↔ ∀ c ∈ normChars E s, E.U.isAlnum c = false := by
  rw [C12_no_alnum_no_words E hU hT hSt s, tokenizeQuery_chars]
  constructor
  · intro h c hc
    rw [← hU.lower_alnum c]
    exact h _ (List.mem_map_of_mem hc)
  · intro h c hc
    obtain ⟨c0, hc0, rfl⟩ := List.mem_map.1 hc
    rw [hU.lower_alnum c0]
    exact h c0 hc0

/-! ### raw strings that `normalize` leaves alone -/

/-- no character of `s` occurs in a key of the language's compose or reduce table
    (`NoKeyChar m s` of `Lemmas/QueryCongr.lean`, for both tables) -/
def NoKeyCharT (T : LangTables) (s : List Nat) : Prop := NoKeyChar T.compose s ∧ NoKeyChar T.reduce s

instance (T : LangTables) (s : List Nat) : Decidable (NoKeyCharT T s) := by
  unfold NoKeyCharT NoKeyChar; infer_instance

theorem composeWith_noKey (m : List (List Nat × List Nat)) (s : List Nat) (h : NoKeyChar m s) :
    composeWith m s = s := by
  induction s with
  | nil => rfl
  | cons c rest ih =>
    have hc := h c List.mem_cons_self
    rw [composeWith_cons_single m c rest
      (mapGet_none_of_no_key' (fun e he hk => hc e he (by rw [hk]; simp)))
      (fun x r _ => mapGet_none_of_no_key' (fun e he hk => hc e he (by rw [hk]; simp))),
      ih (fun x hx => h x (List.mem_cons_of_mem _ hx))]

/-- `normalize` leaves such a string alone -/
theorem normChars_noKey (E : Env) (s : List Nat) (h : NoKeyCharT E.T s) : normChars E s = s := by
  unfold normChars
  rw [composeWith_noKey _ s h.1, composeWith_noKey _ s h.2]

/-- **C12, the hypothesis on the raw string.** For a typed string none of whose characters takes part in a
    normalisation pattern of the language: the tokenised query has no word if and only if the string contains no
    letter or digit. -/
theorem C12_no_words_iff_raw (E : Env) (hU : UnicodeFacts E.U E.K) (hT : TablesOK E.T = true) (hSt : StemHyp E)
    (s : List Nat) (hk : NoKeyCharT E.T s) :
    (tokenizeQuery srcProg E s).words = [] ↔ ∀ c ∈ s, E.U.isAlnum c = false := by
  rw [C12_no_words_iff_normChars E hU hT hSt s, normChars_noKey E s hk]

/-- a query without any letter or digit has no word -/
theorem C12_no_alnum_query (E : Env) (hU : UnicodeFacts E.U E.K) (hT : TablesOK E.T = true) (hSt : StemHyp E)
    (s : List Nat) (hk : NoKeyCharT E.T s) (hs : ∀ c ∈ s, E.U.isAlnum c = false) :
    (tokenizeQuery srcProg E s).words = [] :=
  (C12_no_words_iff_raw E hU hT hSt s hk).2 hs

/-- **Separator-only queries.** A typed string consisting of whitespace, control and punctuation-set characters
    (`isSepChar`) that occur in no normalisation pattern tokenises to no word. (No condition on lower-casing is
    needed: `to_lowercase` preserves "is a letter or digit".) -/
theorem C12_separator_only_query (E : Env) (hU : UnicodeFacts E.U E.K) (hT : TablesOK E.T = true) (hSt : StemHyp E)
    (s : List Nat) (hk : NoKeyCharT E.T s) (hs : ∀ c ∈ s, isSepChar E.U E.K c = true) :
    (tokenizeQuery srcProg E s).words = [] :=
  C12_no_alnum_query E hU hT hSt s hk (fun c hc => hU.sep_not_alnum c (hs c hc))

/-! ### real Unicode tables, the seven generated languages, ASCII blanks and punctuation -/

/-- space `-` `!` `?` `,` `.` -/
def asciiSeps : List Nat := [32, 45, 33, 63, 44, 46]

theorem asciiSeps_sep_src : ∀ c ∈ asciiSeps, isSepChar srcUnicode srcConsts c = true := by decide +kernel

theorem asciiSeps_noKey_srcLangs :
    srcLangs.all (fun p => decide (NoKeyCharT p.2 asciiSeps)) = true := by decide +kernel

theorem noKeyChar_asciiSeps {name : String} {T : LangTables} (hT : (name, T) ∈ srcLangs) (s : List Nat)
    (hs : ∀ c ∈ s, c ∈ asciiSeps) : NoKeyCharT T s := by
  have h := List.all_eq_true.1 asciiSeps_noKey_srcLangs _ hT
  simp only [decide_eq_true_eq] at h
  exact ⟨fun c hc => h.1 c (hs c hc), fun c hc => h.2 c (hs c hc)⟩

/-- **C12, ASCII blanks and punctuation, real tables.** In each of the seven generated languages, with the character
    predicates of Rust's `std`, every string over space `-` `!` `?` `,` `.` (the empty string included) tokenises to
    a query without words. -/
theorem C12_separator_query_std {name : String} {T : LangTables} (hT : (name, T) ∈ srcLangs) (stem : List Nat → Nat)
    (hSt : StemHyp (stdEnv T stem)) (s : List Nat) (hs : ∀ c ∈ s, c ∈ asciiSeps) :
    (tokenizeQuery srcProg (stdEnv T stem) s).words = [] :=
  C12_separator_only_query (stdEnv T stem) unicodeFacts_src (tablesOK_of_srcLangs hT) hSt s
    (noKeyChar_asciiSeps hT s hs) (fun c hc => asciiSeps_sep_src c (hs c hc))

/-- **C12 (number of hits) for blank / punctuation queries.** After any sequence of adds, clears, limit / marker
    changes and searches, typing a string of ASCII blanks and punctuation (or nothing) returns exactly
    `min(limit, number of records currently held)` hits — real Unicode tables, every generated language. -/
theorem C12_separator_query_length_std (S : Sorter) (hS : SorterOK S) {name : String} {T : LangTables}
    (hT : (name, T) ∈ srcLangs) (stem : List Nat → Nat) (hSt : StemHyp (stdEnv T stem)) (ops : List StoreOp)
    (s : List Nat) (hs : ∀ c ∈ s, c ∈ asciiSeps) :
    ((Store.run S srcConsts srcScoreOrder (Store.new srcConsts) ops).search S srcConsts srcScoreOrder
        (tokenizeQuery srcProg (stdEnv T stem) s)).length =
      min (Store.run S srcConsts srcScoreOrder (Store.new srcConsts) ops).limit
          (Store.run S srcConsts srcScoreOrder (Store.new srcConsts) ops).records.length :=
  C12_length_src S hS ops _ (C12_separator_query_std hT stem hSt s hs)

/-- … and what is shown: each hit is a record added by one of the `add` calls, its title is the raw title after
    Unicode composition with NULs removed (nothing highlighted). -/
theorem C12_separator_query_titles_std (S : Sorter) (hS : SorterOK S) {name : String} {T : LangTables}
    (hT : (name, T) ∈ srcLangs) (stem : List Nat → Nat) (hSt : StemHyp (stdEnv T stem)) (ops : List ApiOp)
    (s : List Nat) (hs : ∀ c ∈ s, c ∈ asciiSeps) :
    ∀ res ∈ ((Store.new srcConsts).run S srcConsts srcScoreOrder
          (ops.map (ApiOp.toStoreOp srcProg (stdEnv T stem)))).search S srcConsts srcScoreOrder
        (tokenizeQuery srcProg (stdEnv T stem) s),
      ∃ title rating, ApiOp.add res.id title rating ∈ ops ∧ res.title = (compose T title).filter (· ≠ 0) :=
  C12_api_title_is_input_src S hS srcUnicode T stem unicodeFacts_src (tablesOK_of_srcLangs hT) hSt ops s
    (C12_separator_query_std hT stem hSt s hs)

/-- **C12 at the top-level API, hypothesis on the raw query.** If the raw query contains no letter or digit and
    none of its characters takes part in a normalisation pattern of the language of store `id`, then after
    `run_search(id, q)` — until the next search on `id` — the buffer holds exactly `min(limit, n)` results
    (`limit` in force at the search, `n` records added to `id` since its creation or, if it was cleared with
    `clearStore id`, since the last clear). -/
theorem C12_api_no_alnum_query (S : Sorter) (hS : SorterOK S) (envs : Nat → Env) (hE : EnvsOK envs)
    (pre post later : List RegOp) (id lang : Nat) (q : List Nat)
    (hv : Registry.allValid S srcProg envs Registry.empty
            (pre ++ RegOp.create id lang :: post ++ RegOp.runSearch id q :: later) = true)
    (hk : ∀ op ∈ post, op.keeps id = true) (hq : ∀ op ∈ later, op.quiet id = true)
    (hkey : NoKeyCharT (envs lang).T q) (hna : ∀ c ∈ q, (envs lang).U.isAlnum c = false) :
    ((amGet (Registry.empty.run S srcProg envs
        (pre ++ RegOp.create id lang :: post ++ RegOp.runSearch id q :: later)).results id).getD []).length
      = min (limitOf id post) (addedOf id post).length :=
  C12_api_empty_query S hS envs hE pre post later id lang q hv hk hq
    (C12_no_alnum_query (envs lang) (hE.unicode' lang) (hE.tables lang) (hE.stem lang) q hkey hna)

/-! ### non-vacuity -/

section Examples

/-- German, real tables, half-length stemmer: all hypotheses of the `_std` theorems hold -/
example : StemHyp (stdEnv lang_de toyStem) := toyStemHyp_std (name := "de") (by simp [srcLangs])
example : ∀ c ∈ [32, 33, 63, 32, 46, 46, 46], c ∈ asciiSeps := by decide
example : (tokenizeQuery srcProg (stdEnv lang_de toyStem) [32, 33, 63, 32, 46, 46, 46]).words = [] :=
  C12_separator_query_std (name := "de") (by simp [srcLangs]) toyStem
    (toyStemHyp_std (name := "de") (by simp [srcLangs])) _ (by decide)

/-- the toy oracle of C15 with the English tables: `" - "` has no key character and no letter or digit … -/
example : NoKeyCharT (toyEnv lang_en).T [32, 45, 32] ∧ ∀ c ∈ [32, 45, 32], (toyEnv lang_en).U.isAlnum c = false := by
  decide
/-- … whereas "a b" has a letter, and its tokenisation has words (the equivalence is not vacuous either way) -/
example : ¬ (∀ c ∈ [97, 32, 98], (toyEnv lang_en).U.isAlnum c = false) := by decide
example : (tokenizeQuery srcProg (toyEnv lang_en) [97, 32, 98]).words ≠ [] := by decide +kernel
/-- a character that IS in a key: `e` followed by U+0301 composes in French, so `NoKeyCharT` fails for U+0301 -/
example : ¬ NoKeyCharT lang_fr [0x301] := by decide

end Examples

end Lucid
