/-
  C07 — "The relative order of any two hits is the same as when only those two records are in the store, whichever
  of them was added first. With pairwise distinct ratings and at most ten times `limit` records, adding the same
  records in a different order yields exactly the same hit list."

  * `C07_sorted`          — the results are in hit order (`hitLe`, the model of `sort::compare_hits`);
  * `C07_order_local`     — the comparison of two hits depends only on the two records' own `(title, rating)`;
  * `C07_two_store`       — the store holding just two records (either insertion order) returns them in hit order;
  * `C07_pair_order`      — two hits `r1` before `r2` of ANY store come out as `[r1, r2]` of the two-record store,
                            whichever of them is added first (distinct ratings: with a tie the order of the two is
                            not determined, see the counterexample at the end);
  * `C07_perm_invariant`  — reordering the records does not change any answer (distinct ratings, below the cap).

  Vocabulary: Lemmas/Locality.lean (`mkStore`, `verdict`, `dataLe`, `DistinctRatings`), Lemmas/Store.lean
  (`StoreInv`, `Store.listed`). Statements only; helper lemmas live in LucidProofs/Lemmas/Locality.lean.
-/
import LucidModel.Gen.Consts
import LucidProofs.Lemmas.Locality

namespace Lucid

/-- The results are the rendered hits of the listed records, and along the list every earlier hit is "not after"
    every later one in the hit order (score vectors compared lexicographically, larger first).
    Every store, every query, every limit. -/
theorem C07_sorted (S : Sorter) (hS : SorterOK S) (K : Consts) (hK : 1 ≤ K.sortFactor)
    (order : List ScoreType) (st : Store) (q : Text) :
    st.search S K order q =
      (st.listed S K order q).map (fun r => renderWith st.dividers (scoreHit K order q r)) ∧
    (st.listed S K order q).Pairwise
      (fun a b => hitLe (scoreHit K order q a) (scoreHit K order q b) = true) :=
  ⟨search_eq_listed hS hK order st q, listed_sorted hS hK order st q⟩

/-- The comparison of two hits is a function of the two records' own `(id, title, rating)` (in fact of title and
    rating) and the query: positions and all other records of the store play no role. -/
theorem C07_order_local (K : Consts) (order : List ScoreType) (q : Text) (a b : Record) :
    hitLe (scoreHit K order q a) (scoreHit K order q b) = dataLe K order q a.data b.data := rfl

theorem verdict_of_isHit_data (K : Consts) (order : List ScoreType) (dv : List Nat × List Nat) (q : Text)
    (d : Nat × Text × Nat) (h : isHit K q d.2.1 = true) :
    verdict K dv q d = some (renderWith dv (dataHit K order q d)) := by
  simp only [verdict, h, if_true]
  congr 1

/-- Two records `d1`, `d2` with different ratings that are both hits on their own, `d1` not after `d2` in the hit
    order: the store holding just these two (limit ≥ 2) returns `[verdict d1, verdict d2]`, whichever of the two was
    added first. -/
theorem C07_two_store (S : Sorter) (hS : SorterOK S) (K : Consts) (hK : 1 ≤ K.sortFactor) (hP : 1 ≤ K.prepFactor)
    (order : List ScoreType) (hr : ScoreType.rating ∈ order) (limit : Nat) (hl : 2 ≤ limit)
    (dv : List Nat × List Nat) (d1 d2 : Nat × Text × Nat) (q : Text) (hne : d1.2.2 ≠ d2.2.2)
    (h1 : isHit K q d1.2.1 = true) (h2 : isHit K q d2.2.1 = true) (hle : dataLe K order q d1 d2 = true) :
    ∃ res1 res2, verdict K dv q d1 = some res1 ∧ verdict K dv q d2 = some res2 ∧
      (mkStore K limit dv [d1, d2]).search S K order q = [res1, res2] ∧
      (mkStore K limit dv [d2, d1]).search S K order q = [res1, res2] := by
  refine ⟨_, _, verdict_of_isHit_data K order dv q d1 h1, verdict_of_isHit_data K order dv q d2 h2, ?_, ?_⟩
  · have hI := StoreInv_fresh S K limit dv [d1, d2]
    have hlim : (mkStore K limit dv [d1, d2]).limit = limit := fresh_limit ..
    have hdv : (mkStore K limit dv [d1, d2]).dividers = dv := fresh_dividers ..
    have hlen : (mkStore K limit dv [d1, d2]).records.length = 2 := by rw [mkStore_records_length]; rfl
    have hp : [d1, d2].Perm
        (((mkStore K limit dv [d1, d2]).records.map Record.data).filter (fun d => isHit K q d.2.1)) := by
      rw [mkStore_records_data]; simp [h1, h2]
    have hd : DistinctRatings [d1, d2] := by simp [DistinctRatings, hne]
    have key := search_eq_sorted_take hS hK order hI q
      (by rw [hlen, hlim]; exact Nat.le_trans hl (Nat.le_mul_of_pos_right _ hP))
      (Or.inr (by rw [hlen, hlim]; exact hl)) [d1, d2] hp (by simp [hle])
      (dataLe_antisymm K order hr q hd)
    rw [key, hlim, hdv]
    have : List.take limit [d1, d2] = [d1, d2] := List.take_of_length_le (by simpa using hl)
    rw [this]; rfl
  · have hI := StoreInv_fresh S K limit dv [d2, d1]
    have hlim : (mkStore K limit dv [d2, d1]).limit = limit := fresh_limit ..
    have hdv : (mkStore K limit dv [d2, d1]).dividers = dv := fresh_dividers ..
    have hlen : (mkStore K limit dv [d2, d1]).records.length = 2 := by rw [mkStore_records_length]; rfl
    have hp : [d1, d2].Perm
        (((mkStore K limit dv [d2, d1]).records.map Record.data).filter (fun d => isHit K q d.2.1)) := by
      rw [mkStore_records_data]; simp [h1, h2]; exact List.Perm.swap _ _ _
    have hd : DistinctRatings [d1, d2] := by simp [DistinctRatings, hne]
    have key := search_eq_sorted_take hS hK order hI q
      (by rw [hlen, hlim]; exact Nat.le_trans hl (Nat.le_mul_of_pos_right _ hP))
      (Or.inr (by rw [hlen, hlim]; exact hl)) [d1, d2] hp (by simp [hle])
      (dataLe_antisymm K order hr q hd)
    rw [key, hlim, hdv]
    have : List.take limit [d1, d2] = [d1, d2] := List.take_of_length_le (by simpa using hl)
    rw [this]; rfl

/-- The relative order of any two hits is the same as when only those two records are in the store, whichever of
    them was added first: if the records `r1`, `r2` (different ratings) are listed in this order by a search on a
    store satisfying the invariant, then their results `res1`, `res2` appear in this order in the result list, are
    the two records' own verdicts, and both two-record stores (`r1` added first, `r2` added first; any limit ≥ 2)
    return exactly `[res1, res2]`. -/
theorem C07_pair_order (S : Sorter) (hS : SorterOK S) (K : Consts) (hK : 1 ≤ K.sortFactor) (hP : 1 ≤ K.prepFactor)
    (order : List ScoreType) (hr : ScoreType.rating ∈ order) (st : Store) (h : StoreInv S K st) (q : Text)
    (r1 r2 : Record) (hsub : [r1, r2].Sublist (st.listed S K order q)) (hne : r1.rating ≠ r2.rating)
    (limit : Nat) (hl : 2 ≤ limit) :
    ∃ res1 res2, [res1, res2].Sublist (st.search S K order q) ∧
      verdict K st.dividers q r1.data = some res1 ∧ verdict K st.dividers q r2.data = some res2 ∧
      (mkStore K limit st.dividers [r1.data, r2.data]).search S K order q = [res1, res2] ∧
      (mkStore K limit st.dividers [r2.data, r1.data]).search S K order q = [res1, res2] := by
  have hm1 : r1 ∈ st.listed S K order q := hsub.subset (by simp)
  have hm2 : r2 ∈ st.listed S K order q := hsub.subset (by simp)
  have hi1 := (listed_isHit hS hK order h q r1 hm1).2
  have hi2 := (listed_isHit hS hK order h q r2 hm2).2
  have hle : dataLe K order q r1.data r2.data = true := by
    have := (listed_sorted hS hK order st q).sublist hsub
    simp only [List.pairwise_cons, List.mem_singleton, forall_eq] at this
    exact this.1
  obtain ⟨res1, res2, hv1, hv2, e1, e2⟩ := C07_two_store S hS K hK hP order hr limit hl st.dividers
    r1.data r2.data q hne hi1 hi2 hle
  refine ⟨res1, res2, ?_, hv1, hv2, e1, e2⟩
  have hs := hsub.map (fun r => renderWith st.dividers (scoreHit K order q r))
  rw [← search_eq_listed hS hK order st q] at hs
  rw [verdict_of_isHit K order st.dividers q r1 hi1] at hv1
  rw [verdict_of_isHit K order st.dividers q r2 hi2] at hv2
  simp only [List.map_cons, List.map_nil] at hs
  rw [Option.some.inj hv1, Option.some.inj hv2] at hs
  exact hs

/-- With pairwise distinct ratings and at most `limit·prepFactor` (source: ten times `limit`) records, adding the
    same records in a different order yields exactly the same answer to every query (with or without words), for
    every sorting routine. Positions are renamed, but a result carries only the id and the highlighted title. -/
theorem C07_perm_invariant (S : Sorter) (hS : SorterOK S) (K : Consts) (hK : 1 ≤ K.sortFactor)
    (order : List ScoreType) (hr : ScoreType.rating ∈ order) (limit : Nat) (dv : List Nat × List Nat)
    (recs recs' : List (Nat × Text × Nat)) (hp : recs.Perm recs') (hd : DistinctRatings recs)
    (hcap : recs.length ≤ limit * K.prepFactor) (q : Text) :
    (mkStore K limit dv recs).search S K order q = (mkStore K limit dv recs').search S K order q := by
  apply search_perm_invariant hS hK order hr (StoreInv_fresh S K limit dv recs) (StoreInv_fresh S K limit dv recs')
  · rw [fresh_limit, fresh_limit]
  · rw [fresh_dividers, fresh_dividers]
  · rw [mkStore_records_data, mkStore_records_data]; exact hp
  · rw [mkStore_records_data]; exact hd
  · rw [mkStore_records_length, fresh_limit]; exact hcap

/-- The same for any two stores satisfying the invariant (all reachable stores, `C10_invariant`): same limit, same
    markers, the same `(id, title, rating)` records in a different order. -/
theorem C07_perm_invariant_stores (S : Sorter) (hS : SorterOK S) (K : Consts) (hK : 1 ≤ K.sortFactor)
    (order : List ScoreType) (hr : ScoreType.rating ∈ order) (A B : Store) (hA : StoreInv S K A)
    (hB : StoreInv S K B) (hlim : A.limit = B.limit) (hdv : A.dividers = B.dividers)
    (hp : (A.records.map Record.data).Perm (B.records.map Record.data))
    (hd : DistinctRatings (A.records.map Record.data))
    (hcap : A.records.length ≤ A.limit * K.prepFactor) (q : Text) :
    A.search S K order q = B.search S K order q :=
  search_perm_invariant hS hK order hr hA hB hlim hdv hp hd hcap q

/-! ### at the constants and score order generated from the source -/

theorem C07_sorted_src (S : Sorter) (hS : SorterOK S) (st : Store) (q : Text) :
    st.search S Gen.srcConsts Gen.srcScoreOrder q =
      (st.listed S Gen.srcConsts Gen.srcScoreOrder q).map
        (fun r => renderWith st.dividers (scoreHit Gen.srcConsts Gen.srcScoreOrder q r)) ∧
    (st.listed S Gen.srcConsts Gen.srcScoreOrder q).Pairwise
      (fun a b => hitLe (scoreHit Gen.srcConsts Gen.srcScoreOrder q a)
        (scoreHit Gen.srcConsts Gen.srcScoreOrder q b) = true) :=
  C07_sorted S hS Gen.srcConsts (by decide) Gen.srcScoreOrder st q

theorem C07_pair_order_src (S : Sorter) (hS : SorterOK S) (st : Store) (h : StoreInv S Gen.srcConsts st) (q : Text)
    (r1 r2 : Record) (hsub : [r1, r2].Sublist (st.listed S Gen.srcConsts Gen.srcScoreOrder q))
    (hne : r1.rating ≠ r2.rating) (limit : Nat) (hl : 2 ≤ limit) :
    ∃ res1 res2, [res1, res2].Sublist (st.search S Gen.srcConsts Gen.srcScoreOrder q) ∧
      verdict Gen.srcConsts st.dividers q r1.data = some res1 ∧
      verdict Gen.srcConsts st.dividers q r2.data = some res2 ∧
      (mkStore Gen.srcConsts limit st.dividers [r1.data, r2.data]).search S Gen.srcConsts Gen.srcScoreOrder q
        = [res1, res2] ∧
      (mkStore Gen.srcConsts limit st.dividers [r2.data, r1.data]).search S Gen.srcConsts Gen.srcScoreOrder q
        = [res1, res2] :=
  C07_pair_order S hS Gen.srcConsts (by decide) (by decide) Gen.srcScoreOrder (by decide) st h q r1 r2 hsub hne
    limit hl

theorem C07_perm_invariant_src (S : Sorter) (hS : SorterOK S) (limit : Nat) (dv : List Nat × List Nat)
    (recs recs' : List (Nat × Text × Nat)) (hp : recs.Perm recs') (hd : DistinctRatings recs)
    (hcap : recs.length ≤ limit * 10) (q : Text) :
    (mkStore Gen.srcConsts limit dv recs).search S Gen.srcConsts Gen.srcScoreOrder q =
      (mkStore Gen.srcConsts limit dv recs').search S Gen.srcConsts Gen.srcScoreOrder q :=
  C07_perm_invariant S hS Gen.srcConsts (by decide) Gen.srcScoreOrder (by decide) limit dv recs recs' hp hd hcap q

/-! ### non-vacuity, and why "pairwise distinct ratings" is needed -/

section Examples
private def exT (c : Nat) : Text :=
  { words := [⟨0, 0, 1, 1, none, true⟩], source := [c], chars := [c], classes := [.any] }
private def exQ : Text := { words := [], source := [], chars := [], classes := [] }
private def exRecs : List (Nat × Text × Nat) := [(7, exT 97, 3), (8, exT 98, 9), (9, exT 97, 5)]
private def exRecs' : List (Nat × Text × Nat) := [(9, exT 97, 5), (7, exT 97, 3), (8, exT 98, 9)]

example : SorterOK mergeSorter := mergeSorter_ok
example : 1 ≤ Gen.srcConsts.sortFactor ∧ 1 ≤ Gen.srcConsts.prepFactor := by decide
example : ScoreType.rating ∈ Gen.srcScoreOrder := by decide
example : exRecs.Perm exRecs' := by decide
example : DistinctRatings exRecs := by unfold DistinctRatings; decide
example : exRecs.length ≤ 2 * 10 := by decide

/-- COUNTEREXAMPLE with a tie: two records with the same title and the same rating (ids 7 and 8). The hit order
    cannot separate them, the (stable, `SorterOK`) insertion sort keeps insertion order, so the answer to the empty
    query depends on which was added first. Hence `DistinctRatings` cannot be dropped from `C07_perm_invariant`
    (nor the rating inequality from `C07_pair_order`). -/
example :
    (mkStore Gen.srcConsts 2 ([91], [93]) [(7, exT 97, 3), (8, exT 97, 3)]).search locInsSorter
        Gen.srcConsts Gen.srcScoreOrder exQ = [⟨7, [97]⟩, ⟨8, [97]⟩] ∧
    (mkStore Gen.srcConsts 2 ([91], [93]) [(8, exT 97, 3), (7, exT 97, 3)]).search locInsSorter
        Gen.srcConsts Gen.srcScoreOrder exQ = [⟨8, [97]⟩, ⟨7, [97]⟩] := by decide

/-- … whereas with distinct ratings both insertion orders give the same list (an instance of the theorem) -/
example :
    (mkStore Gen.srcConsts 2 ([91], [93]) exRecs).search locInsSorter Gen.srcConsts Gen.srcScoreOrder exQ
      = [⟨8, [98]⟩, ⟨9, [97]⟩] ∧
    (mkStore Gen.srcConsts 2 ([91], [93]) exRecs').search locInsSorter Gen.srcConsts Gen.srcScoreOrder exQ
      = [⟨8, [98]⟩, ⟨9, [97]⟩] := by decide

end Examples

end Lucid
