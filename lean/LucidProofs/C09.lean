/-
  C09 — shape of the highlighting: the markers alternate and never nest; every highlighted span is non-empty,
  starts at the first character of a title word and ends inside that word; every word is highlighted at most
  once; a hit for a query with at least one word has a span, a hit for a word-less query has none.
  Statements with short proofs; the lemmas live in `Lemmas/Highlight.lean` and `Lemmas/TextMatchShape.lean`.

  Hypotheses taken from other clusters (interface `Lemmas/MatchFacts.lean`):
  `TextOK` of the record titles and of the query (tokenizer cluster, C15) and `WordMatchOK` (matching cluster).
  "The query contains a letter or digit" is `q.words ≠ []` (tokenizer cluster: the words of a tokenised
  text are its maximal runs of non-separators, stripped; a text has a word iff it has a letter or digit).
-/
import LucidModel.Gen.Consts
import LucidProofs.Lemmas.Highlight
import LucidProofs.Lemmas.TextMatchShape

namespace Lucid

/-- the spans `(start, length)` of `h.title.source` that `highlight` puts the markers around -/
def hitSpans (h : Hit) : List (Nat × Nat) := hlSpans h.rmatches h.title.words 0

/-- Well-formed highlighting spans of a text: sorted by start and pairwise disjoint; there is a strictly
    increasing list of word indices (so the words are distinct), one per span, such that the span starts at
    the first character of its word, is non-empty and ends at or before the end of that word. -/
def SpansOK (t : Text) (spans : List (Nat × Nat)) : Prop :=
  spans.Pairwise (fun a b => a.1 + a.2 ≤ b.1) ∧
  ∃ ixs : List Nat, ixs.length = spans.length ∧ ixs.Pairwise (· < ·) ∧
    ∀ p ∈ ixs.zip spans, ∃ w, t.words[p.1]? = some w ∧ p.2.1 = w.lo ∧ 1 ≤ p.2.2 ∧ p.2.1 + p.2.2 ≤ w.hi

theorem RMatchOK.fits {t : Text} {m : WMatch} (ht : TextOK t) (hm : RMatchOK t m) : MatchFits t.words m := by
  intro w hw
  obtain ⟨w', hw', hlo, hhi⟩ := hm.word
  rw [hw] at hw'; cases hw'
  have hb := ht.bounds w (List.mem_of_getElem? hw)
  have := hm.le; have := hm.sub0
  omega

theorem RMatchOK.spanOf {t : Text} {m : WMatch} (hm : RMatchOK t m) : spanOf t.words m = (m.lo, m.subHi) := by
  obtain ⟨w, hw, hlo, _⟩ := hm.word
  obtain ⟨hlt, he⟩ := List.getElem?_eq_some_iff.mp hw
  simp [Lucid.spanOf, List.getD, hw, hm.sub0, hlo]

/-- the spans of record matches that are sorted and describe prefixes of their words -/
theorem hlSpans_of_rmatches {t : Text} {rm : List WMatch}
    (hs : rm.Pairwise (fun a b => a.offset < b.offset)) (hm : ∀ m ∈ rm, RMatchOK t m) :
    hlSpans rm t.words 0 = rm.map (fun m => (m.lo, m.subHi)) := by
  rw [hlSpans_eq_map hs (fun m h => (hm m h).off_lt)]
  exact List.map_congr_left (fun m h => (hm m h).spanOf)

theorem spansOK_of_rmatches {t : Text} {rm : List WMatch} (ht : TextOK t)
    (hs : rm.Pairwise (fun a b => a.offset < b.offset)) (hm : ∀ m ∈ rm, RMatchOK t m) :
    SpansOK t (hlSpans rm t.words 0) := by
  have hsafe : hlSafe t.source rm t.words 0 0 = true := hlSafe_of_textOK ht (fun m h => (hm m h).fits ht)
  refine ⟨(hlSafe_spans hsafe).1.pairwise.1, rm.map (·.offset), ?_, List.pairwise_map.mpr hs, ?_⟩
  · rw [hlSpans_of_rmatches hs hm]; simp
  · rw [hlSpans_of_rmatches hs hm, List.zip_map']
    intro p hp
    obtain ⟨m, hmem, rfl⟩ := List.mem_map.mp hp
    obtain ⟨w, hw, hlo, hhi⟩ := (hm m hmem).word
    have hb := ht.bounds w (List.mem_of_getElem? hw)
    have := (hm m hmem).le
    exact ⟨w, hw, hlo, (hm m hmem).pos, by simp only []; omega⟩

/-- every hit is the scored form of a stored record and passed the filter -/
theorem hit_of_mem_hitsOf {K : Consts} {order : List ScoreType} {st : Store} {q : Text} {ixs : List Nat} {h : Hit}
    (hh : h ∈ st.hitsOf K order q ixs) :
    ∃ ix r, ix ∈ ixs ∧ st.records[ix]? = some r ∧ h = scoreHit K order q r ∧ hitMatches q h = true := by
  simp only [Store.hitsOf, List.mem_filter, List.mem_map, List.mem_filterMap] at hh
  obtain ⟨⟨r, ⟨ix, hix, hr⟩, rfl⟩, hm⟩ := hh
  exact ⟨ix, r, hix, hr, rfl, hm⟩

/-- hypotheses on a store and a query under which the hits are well-formed -/
structure HitsWF (K : Consts) (st : Store) (q : Text) : Prop where
  titles : ∀ r ∈ st.records, TextOK r.title
  query  : TextOK q
  wm     : ∀ r ∈ st.records, WordMatchOK K r.title q

theorem hit_rmatches_ok {K : Consts} {order : List ScoreType} {st : Store} {q : Text} (H : HitsWF K st q)
    {ixs : List Nat} {h : Hit} (hh : h ∈ st.hitsOf K order q ixs) :
    TextOK h.title ∧ h.rmatches.Pairwise (fun a b => a.offset < b.offset) ∧ ∀ m ∈ h.rmatches, RMatchOK h.title m := by
  obtain ⟨ix, r, _, hr, rfl, _⟩ := hit_of_mem_hitsOf hh
  have hmem : r ∈ st.records := List.mem_of_getElem? hr
  have := textMatch_rmatches_ok (H.titles r hmem) H.query (H.wm r hmem)
  exact ⟨H.titles r hmem, this.1, this.2⟩

/-- **C09 (spans).** In every hit the highlighted spans of the title are sorted and pairwise disjoint, each is
    non-empty, starts at the first character of a title word and ends inside that same word, and distinct
    spans belong to distinct words (each word is highlighted at most once). -/
theorem C09_spans_ok {K : Consts} {order : List ScoreType} {st : Store} {q : Text} (H : HitsWF K st q)
    (ixs : List Nat) : ∀ h ∈ st.hitsOf K order q ixs, SpansOK h.title (hitSpans h) := by
  intro h hh
  obtain ⟨ht, hs, hm⟩ := hit_rmatches_ok H hh
  exact spansOK_of_rmatches ht hs hm

/-- the spans are those of the record matches, in their order: `(start of the word, matched length)` -/
theorem C09_spans_are_rmatches {K : Consts} {order : List ScoreType} {st : Store} {q : Text} (H : HitsWF K st q)
    (ixs : List Nat) : ∀ h ∈ st.hitsOf K order q ixs, hitSpans h = h.rmatches.map (fun m => (m.lo, m.subHi)) := by
  intro h hh
  obtain ⟨_, hs, hm⟩ := hit_rmatches_ok H hh
  exact hlSpans_of_rmatches hs hm

/-- **C09 (markers alternate, never nest).** The rendered title of every hit is
    `gap₀ ++ dl ++ span₁ ++ dr ++ gap₁ ++ dl ++ span₂ ++ dr ++ … ++ gapₙ` (`decorate`) with NUL removed: an
    opening marker is always followed by the characters of one span and one closing marker before the next
    opening marker. The same holds in the NUL-free text: the title is the decoration of the NUL-free source by
    the NUL-free markers around sorted disjoint spans. -/
theorem C09_markup_balanced {K : Consts} {order : List ScoreType} {st : Store} {q : Text} (H : HitsWF K st q)
    (ixs : List Nat) : ∀ h ∈ st.hitsOf K order q ixs,
      (st.render h).title = stripNul (decorate h.title.source (hitSpans h) st.dividers.1 st.dividers.2) ∧
      (st.render h).title = decorate (stripNul h.title.source) (nulSpans h.title.source (hitSpans h))
                              (stripNul st.dividers.1) (stripNul st.dividers.2) ∧
      SpansFrom 0 (hitSpans h) ∧ SpansFrom 0 (nulSpans h.title.source (hitSpans h)) := by
  intro h hh
  obtain ⟨ht, hs, hm⟩ := hit_rmatches_ok H hh
  have hsafe : hlSafe h.title.source h.rmatches h.title.words 0 0 = true :=
    hlSafe_of_textOK ht (fun m hmem => (hm m hmem).fits ht)
  have hfrom : SpansFrom 0 (hitSpans h) := (hlSafe_spans hsafe).1
  have e1 : (st.render h).title = stripNul (decorate h.title.source (hitSpans h) st.dividers.1 st.dividers.2) := by
    simp only [Store.render, highlight_eq_stripNul, hlWalk_eq_decorate _ _ hsafe, hitSpans]
  refine ⟨e1, ?_, hfrom, ?_⟩
  · rw [e1]; exact stripNul_decorate _ _ _ hfrom
  · have := nulSpans_from h.title.source hfrom
    rwa [nulPos_zero] at this

/-- **C09 (wordy query ⇒ a span).** A hit for a query that has at least one word (contains a letter or digit)
    has at least one highlighted span. -/
theorem C09_some_span_for_wordy_query {K : Consts} {order : List ScoreType} {st : Store} {q : Text}
    (H : HitsWF K st q) (hq : q.words ≠ []) (ixs : List Nat) :
    ∀ h ∈ st.hitsOf K order q ixs, h.rmatches ≠ [] ∧ hitSpans h ≠ [] := by
  intro h hh
  have hne : h.rmatches ≠ [] := by
    obtain ⟨_, _, _, _, _, hpass⟩ := hit_of_mem_hitsOf hh
    intro he
    have hl : q.words.length ≠ 0 := fun e => hq (List.length_eq_zero_iff.mp e)
    simp [hitMatches, hl, he] at hpass
  refine ⟨hne, ?_⟩
  rw [C09_spans_are_rmatches H ixs h hh]
  simpa using hne

/-- **C09 (empty or separator-only query ⇒ no span).** A hit for a query without words has no record matches
    and no highlighted span. No hypotheses. -/
theorem C09_no_span_for_empty_query {K : Consts} {order : List ScoreType} {st : Store} {q : Text}
    (hq : q.words = []) (ixs : List Nat) :
    ∀ h ∈ st.hitsOf K order q ixs, h.rmatches = [] ∧ hitSpans h = [] := by
  intro h hh
  obtain ⟨_, r, _, _, rfl, _⟩ := hit_of_mem_hitsOf hh
  have hr : (scoreHit K order q r).rmatches = [] := by
    show (textMatch K r.title q).1 = []
    rw [textMatch_no_words K r.title q hq]
  exact ⟨hr, by simp only [hitSpans, hr, hlSpans_nil]⟩

/-- … and its rendered title is the NUL-free source of the record's title without any marker (for well-formed
    titles; no assumption on the markers or on `word_match`). -/
theorem C09_no_marker_for_empty_query {K : Consts} {order : List ScoreType} {st : Store} {q : Text}
    (htitles : ∀ r ∈ st.records, TextOK r.title) (hq : q.words = []) (ixs : List Nat) :
    ∀ h ∈ st.hitsOf K order q ixs, (st.render h).title = stripNul h.title.source := by
  intro h hh
  obtain ⟨hr, hsp⟩ := C09_no_span_for_empty_query hq ixs h hh
  obtain ⟨_, r, _, hrec, rfl, _⟩ := hit_of_mem_hitsOf hh
  have ht : TextOK (scoreHit K order q r).title := htitles r (List.mem_of_getElem? hrec)
  have hsafe : hlSafe (scoreHit K order q r).title.source (scoreHit K order q r).rmatches
      (scoreHit K order q r).title.words 0 0 = true :=
    hlSafe_of_textOK ht (fun m hmem => by rw [hr] at hmem; cases hmem)
  simp only [Store.render, highlight_eq_stripNul, hlWalk_eq_decorate _ _ hsafe]
  unfold hitSpans at hsp
  rw [hsp]
  simp [decorate, decorateFrom]

/-- **C09 (non-empty in the returned title).** If moreover the first character of every title word is not NUL in
    `source` (tokenizer cluster: NUL padding only follows an expanded character, and a word starts with a letter or
    digit), every highlighted span of the *returned* title — between an opening and the next closing marker —
    is non-empty. -/
theorem C09_rendered_spans_nonempty {K : Consts} {order : List ScoreType} {st : Store} {q : Text} (H : HitsWF K st q)
    (hnn : ∀ r ∈ st.records, ∀ w ∈ r.title.words, r.title.source[w.lo]? ≠ some 0) (ixs : List Nat) :
    ∀ h ∈ st.hitsOf K order q ixs, ∀ p ∈ nulSpans h.title.source (hitSpans h), 1 ≤ p.2 := by
  intro h hh p hp
  obtain ⟨ht, hs, hm⟩ := hit_rmatches_ok H hh
  have hsp := hlSpans_of_rmatches hs hm
  obtain ⟨_, r, _, hrec, rfl, _⟩ := hit_of_mem_hitsOf hh
  have hr : r ∈ st.records := List.mem_of_getElem? hrec
  simp only [nulSpans, hitSpans, hsp, List.map_map, List.mem_map] at hp
  obtain ⟨m, hmem, rfl⟩ := hp
  obtain ⟨w, hw, hlo, hhi⟩ := (hm m hmem).word
  have hwm : w ∈ r.title.words := List.mem_of_getElem? hw
  have hb : w.lo < w.hi ∧ w.hi ≤ r.title.chars.length := ht.bounds w hwm
  have hl : r.title.source.length = r.title.chars.length := ht.lens.1
  simp only [Function.comp]
  refine nulSpan_pos _ (hm m hmem).pos ?_ ?_
  · show m.lo < r.title.source.length
    rw [hlo, hl]; omega
  · rw [hlo]; exact hnn r hr w hwm

/-! ### non-vacuity: a concrete instance of the hypotheses

`exT` is the tokenised record title "metal detector", `exQ` the tokenised query "det". Evaluating the model with
the constants generated from the source, `#eval (scoreHit Gen.srcConsts Gen.srcScoreOrder exQ ⟨0, 10, exT, 0⟩).rmatches`
gives exactly `[exM]` and the rendered title is "metal [det]ector". `WordMatchOK` for the source constants is the
matching cluster's theorem; here it is instantiated for constants under which the Jaccard gate rejects everything. -/
namespace C09Example

def exT : Text :=
  { words := [{ offset := 0, lo := 0, hi := 5, stem := 5, pos := none, fin := true },
              { offset := 1, lo := 6, hi := 14, stem := 8, pos := none, fin := true }],
    source := [109,101,116,97,108,32,100,101,116,101,99,116,111,114],
    chars := [109,101,116,97,108,32,100,101,116,101,99,116,111,114],
    classes := List.replicate 14 CharClass.any }

def exQ : Text :=
  { words := [{ offset := 0, lo := 0, hi := 3, stem := 3, pos := none, fin := false }],
    source := [100,101,116], chars := [100,101,116], classes := List.replicate 3 CharClass.any }

theorem exT_ok : TextOK exT where
  lens := by decide
  offsets := by decide
  bounds := by decide
  ordered := by
    intro i h
    have hi : i = 0 := by simp [exT] at h; omega
    subst hi; decide +revert
  stems := by decide

theorem exQ_ok : TextOK exQ where
  lens := by decide
  offsets := by decide
  bounds := by decide
  ordered := by intro i h; simp [exQ] at h
  stems := by decide

def exM : WMatch := { offset := 1, lo := 6, hi := 14, subLo := 0, subHi := 3, typos := 0, func := false, fin := false }

example : RMatchOK exT exM := ⟨by decide, ⟨_, rfl, rfl, rfl⟩, rfl, by decide, by decide⟩
example : hlSpans [exM] exT.words 0 = [(6, 3)] := by decide
/-- "metal [det]ector" -/
example : hlWalk exT.source [exM] [91] [93] exT.words 0 0 =
    [109,101,116,97,108,32, 91, 100,101,116, 93, 101,99,116,111,114] := by decide
example : SpansOK exT [(6, 3)] :=
  spansOK_of_rmatches (rm := [exM]) exT_ok (by simp)
    (by intro m hm; simp at hm; subst hm; exact ⟨by decide, ⟨_, rfl, rfl, rfl⟩, rfl, by decide, by decide⟩)

/-- constants with a Jaccard threshold of 0: `word_match` rejects every pair, `WordMatchOK` holds trivially -/
def K0 : Consts := { Gen.srcConsts with jacNum := 0 }

theorem wm0 (rt qt : Text) : WordMatchOK K0 rt qt := by
  intro r q p _ _ _ _ h
  exfalso
  have hj : jaccardCheck K0 rt r qt q = false := by simp [jaccardCheck, K0]
  simp only [wordMatch, wordMatchM, hj] at h
  split at h
  · cases h
  · split at h
    · cases h
    · simp at h

def exStore : Store := (Store.new K0).add 10 exT 0

/-- the hypotheses of the C09 theorems are satisfiable -/
example : HitsWF K0 exStore exQ where
  titles := by intro r hr; simp [exStore, Store.add, Store.new] at hr; subst hr; exact exT_ok
  query := exQ_ok
  wm := fun r _ => wm0 r.title exQ

end C09Example

end Lucid
