/-
  C11c — the spelling variants of C11 COMBINED: one theorem for a query in which some letters are folded
  (`ö→o`, `ß→ss`, `é→e`, …), any letters are re-cased, and some accented letters are written in decomposed form,
  all at once.

  HOW A COMBINED VARIANT IS WRITTEN (base query `s`, any masks, any re-casing):
      f  := foldAt reduce s fmask            -- fold the letters selected by `fmask`
      s' := any string with  s'.map lower1 = f.map lower1     -- re-case any letters of `f`
      v  := decompAt compose s' dmask        -- write the accented letters selected by `dmask` as base + mark
  Decomposition comes last because it is the only step that creates free-standing combining marks; a letter that was
  folded has no accent left to decompose, and folding / re-casing commute up to case (`CaseClosedOn`), so every
  combination of the three per-letter changes is of this form.

  WHICH STRINGS MUST BE FREE OF FREE-STANDING COMBINING MARKS (`MarkFree`):
    * `s`  — hypothesis;
    * `f`  — PROVED from `MarkFree s` (`foldAt_markFree`, table condition `FoldMarkFree`);
    * `s'` — hypothesis (a re-casing replaces characters by arbitrary characters with the same lower-case form;
             that none of them is a combining mark of the compose table is a fact about `s'`, decidable by `decide`);
    * `v`  — not required (it contains marks by construction; `compose` undoes them, `ComposeClosed`).
  Oracle-relative hypotheses (re-casing step only): `CaseClosedOn` on the characters of `f` and `s'`, `SepLowerOn` on
  the normalised characters of `s` and `s'`. Both are theorems for the real tables of Rust's `std`, so the `_std`
  forms have none.
-/
import LucidProofs.C11b
import LucidProofs.C15std

namespace Lucid
open Gen

/-- **C11, combined variants.** Let `s` be a query without free-standing combining marks; fold any subset of its
    letters (`fmask`), re-case any letters of the result (`s'`), and write any subset of the accented letters of
    `s'` in decomposed form (`dmask`). The tokenised query is the same as that of `s` up to `source` (same words,
    same normalised characters, same character classes). -/
theorem C11_combined_variant (E : Env) (hU : UnicodeFacts E.U E.K) (hC : ComposeClosed E.T.compose = true)
    (hF : FoldClosed E.T.reduce = true) (hM : FoldMarkFree E.T = true)
    (s : List Nat) (hs : MarkFree E.T.compose s) (fmask dmask : List Bool)
    (s' : List Nat) (hs' : MarkFree E.T.compose s')
    (hcase : s'.map E.U.lower1 = (foldAt E.T.reduce s fmask).map E.U.lower1)
    (hcc : CaseClosedOn E (foldAt E.T.reduce s fmask ++ s'))
    (hsl : SepLowerOn E (normChars E s ++ normChars E s')) :
    (tokenizeQuery srcProg E (decompAt E.T.compose s' dmask)).sameUpToSource (tokenizeQuery srcProg E s) := by
  have hf : MarkFree E.T.compose (foldAt E.T.reduce s fmask) := foldAt_markFree E.T hM s hs fmask
  have hsl' : SepLowerOn E (normChars E (foldAt E.T.reduce s fmask) ++ normChars E s') := by
    rw [normChars_foldAt E hC hF hM s hs fmask]; exact hsl
  -- decomposition: identical tokenised query
  have h1 := Text.sameUpToSource.of_eq (C11_decompose_variant E hC s' hs' dmask)
  -- re-casing of the folded string
  have h2 := C11_recase_variant E hU hC hF (foldAt E.T.reduce s fmask) s' hf hs' hcase hcc hsl'
  -- folding
  have h3 := C11_fold_variant E hC hF hM s hs fmask
  exact (h1.trans h2).trans h3

/-- Hence the combined variant searches exactly like `s`: same hit list, same highlighted titles, same store after
    the call (sorter treating hits as opaque values, `SorterNatural`). -/
theorem C11_combined_search {S : Sorter} (hS : SorterNatural S) (E : Env) (K : Consts) (order : List ScoreType)
    (st : Store) (hU : UnicodeFacts E.U E.K) (hC : ComposeClosed E.T.compose = true)
    (hF : FoldClosed E.T.reduce = true) (hM : FoldMarkFree E.T = true)
    (s : List Nat) (hs : MarkFree E.T.compose s) (fmask dmask : List Bool)
    (s' : List Nat) (hs' : MarkFree E.T.compose s')
    (hcase : s'.map E.U.lower1 = (foldAt E.T.reduce s fmask).map E.U.lower1)
    (hcc : CaseClosedOn E (foldAt E.T.reduce s fmask ++ s'))
    (hsl : SepLowerOn E (normChars E s ++ normChars E s')) :
    st.searchM S K order (tokenizeQuery srcProg E (decompAt E.T.compose s' dmask)) =
      st.searchM S K order (tokenizeQuery srcProg E s) :=
  C11_searchM_congr hS K order st
    (QEquiv.of_sameUpToSource (C11_combined_variant E hU hC hF hM s hs fmask dmask s' hs' hcase hcc hsl))

/-- the three table conditions discharged for every language of the generated registry list -/
theorem C11_combined_variant_src (E : Env) (hU : UnicodeFacts E.U E.K) {name : String}
    (hT : (name, E.T) ∈ srcLangs) (s : List Nat) (hs : MarkFree E.T.compose s) (fmask dmask : List Bool)
    (s' : List Nat) (hs' : MarkFree E.T.compose s')
    (hcase : s'.map E.U.lower1 = (foldAt E.T.reduce s fmask).map E.U.lower1)
    (hcc : CaseClosedOn E (foldAt E.T.reduce s fmask ++ s'))
    (hsl : SepLowerOn E (normChars E s ++ normChars E s')) :
    (tokenizeQuery srcProg E (decompAt E.T.compose s' dmask)).sameUpToSource (tokenizeQuery srcProg E s) :=
  C11_combined_variant E hU (variantTablesOK_of_src hT).1 (variantTablesOK_of_src hT).2.1
    (variantTablesOK_of_src hT).2.2 s hs fmask dmask s' hs' hcase hcc hsl

/-- **C11, combined variants, real Unicode tables, each generated language.** With the character predicates and
    `to_lowercase` of Rust's `std`: for a mark-free query `s`, any fold mask, any mark-free re-casing `s'` of the
    folded string and any decomposition mask, the tokenised queries agree up to `source`. No hypothesis about the
    tables or about Unicode is left. -/
theorem C11_combined_variant_std {name : String} {T : LangTables} (hT : (name, T) ∈ srcLangs)
    (stem : List Nat → Nat) (s : List Nat) (hs : MarkFree T.compose s) (fmask dmask : List Bool)
    (s' : List Nat) (hs' : MarkFree T.compose s')
    (hcase : s'.map srcUnicode.lower1 = (foldAt T.reduce s fmask).map srcUnicode.lower1) :
    (tokenizeQuery srcProg (stdEnv T stem) (decompAt T.compose s' dmask)).sameUpToSource
      (tokenizeQuery srcProg (stdEnv T stem) s) :=
  C11_combined_variant_src (stdEnv T stem) unicodeFacts_src hT s hs fmask dmask s' hs' hcase
    (caseClosedOn_src _ rfl hT _) (sepLowerOn_src _ rfl rfl _)

/-- … and they search alike in every store: same ids, same highlighted titles, same store afterwards
    (`SorterNatural` is the only hypothesis left). -/
theorem C11_combined_search_std {S : Sorter} (hS : SorterNatural S) {name : String} {T : LangTables}
    (hT : (name, T) ∈ srcLangs) (stem : List Nat → Nat) (st : Store)
    (s : List Nat) (hs : MarkFree T.compose s) (fmask dmask : List Bool)
    (s' : List Nat) (hs' : MarkFree T.compose s')
    (hcase : s'.map srcUnicode.lower1 = (foldAt T.reduce s fmask).map srcUnicode.lower1) :
    st.searchM S srcConsts srcScoreOrder (tokenizeQuery srcProg (stdEnv T stem) (decompAt T.compose s' dmask)) =
      st.searchM S srcConsts srcScoreOrder (tokenizeQuery srcProg (stdEnv T stem) s) :=
  C11_searchM_congr hS _ _ st
    (QEquiv.of_sameUpToSource (C11_combined_variant_std hT stem s hs fmask dmask s' hs' hcase))

/-- the results only -/
theorem C11_combined_results_std {S : Sorter} (hS : SorterNatural S) {name : String} {T : LangTables}
    (hT : (name, T) ∈ srcLangs) (stem : List Nat → Nat) (st : Store)
    (s : List Nat) (hs : MarkFree T.compose s) (fmask dmask : List Bool)
    (s' : List Nat) (hs' : MarkFree T.compose s')
    (hcase : s'.map srcUnicode.lower1 = (foldAt T.reduce s fmask).map srcUnicode.lower1) :
    st.search S srcConsts srcScoreOrder (tokenizeQuery srcProg (stdEnv T stem) (decompAt T.compose s' dmask)) =
      st.search S srcConsts srcScoreOrder (tokenizeQuery srcProg (stdEnv T stem) s) := by
  simp only [Store.search, C11_combined_search_std hS hT stem st s hs fmask dmask s' hs' hcase]

/-- library level: `search` with the combined variant leaves the registry (stores and result buffers) exactly as
    `search` with the base query does, when every store addressed by `id` uses the real Unicode tables and the
    language tables `T` -/
theorem C11_combined_registry_std {S : Sorter} (hS : SorterNatural S) (envs : Nat → Env) (g : Registry) (id : Nat)
    {name : String} {T : LangTables} (hT : (name, T) ∈ srcLangs)
    (henv : ∀ lang st, amGet g.stores id = some (lang, st) → ∃ stem, envs lang = stdEnv T stem)
    (s : List Nat) (hs : MarkFree T.compose s) (fmask dmask : List Bool)
    (s' : List Nat) (hs' : MarkFree T.compose s')
    (hcase : s'.map srcUnicode.lower1 = (foldAt T.reduce s fmask).map srcUnicode.lower1) :
    Registry.step S srcProg envs g (.runSearch id (decompAt T.compose s' dmask)) =
      Registry.step S srcProg envs g (.runSearch id s) := by
  apply step_runSearch_congr
  intro lang st hg
  obtain ⟨stem, he⟩ := henv lang st hg
  rw [he]
  exact C11_combined_search_std hS hT stem st s hs fmask dmask s' hs' hcase

/-! ### non-vacuity -/

section Examples

/-- German: base `Über Straße`; fold `ß` (position 9) → `Über Strasse`; re-case → `üBER STRASSE`; decompose the `ü`
    → `u` U+0308 `BER STRASSE` -/
private def exS : List Nat := [220, 98, 101, 114, 32, 83, 116, 114, 97, 223, 101]
private def exFmask : List Bool := [false, false, false, false, false, false, false, false, false, true]
private def exS' : List Nat := [252, 66, 69, 82, 32, 83, 84, 82, 65, 83, 83, 69]

example : foldAt lang_de.reduce exS exFmask = [220, 98, 101, 114, 32, 83, 116, 114, 97, 115, 115, 101] := by decide
example : decompAt lang_de.compose exS' [true] = [117, 776, 66, 69, 82, 32, 83, 84, 82, 65, 83, 83, 69] := by decide
example : MarkFree lang_de.compose exS ∧ MarkFree lang_de.compose exS' := ⟨by decide, by decide⟩
/-- the decomposed variant itself is NOT mark-free (and need not be) -/
example : ¬ MarkFree lang_de.compose (decompAt lang_de.compose exS' [true]) := by decide

/-- real tables: every hypothesis of `C11_combined_results_std` holds, so `uBER STRASSE` typed with a combining
    diaeresis after the `u` searches like `Über Straße` in every store, with any stemmer -/
example (st : Store) (stem : List Nat → Nat) :
    st.search insSorter srcConsts srcScoreOrder
        (tokenizeQuery srcProg (stdEnv lang_de stem) [117, 776, 66, 69, 82, 32, 83, 84, 82, 65, 83, 83, 69]) =
      st.search insSorter srcConsts srcScoreOrder (tokenizeQuery srcProg (stdEnv lang_de stem) exS) :=
  C11_combined_results_std insSorter_natural (name := "de") (.tail _ (.head _)) stem st exS (by decide) exFmask [true]
    exS' (by decide) (by decide +kernel)

/-- the Latin-1 oracle of C11b: every hypothesis of the general theorem holds for the same strings -/
example : (tokenizeQuery srcProg (latinEnv lang_de) (decompAt lang_de.compose exS' [true])).sameUpToSource
    (tokenizeQuery srcProg (latinEnv lang_de) exS) :=
  C11_combined_variant (latinEnv lang_de) latinU_facts composeClosed_de foldClosed_de foldMarkFree_de exS (by decide)
    exFmask [true] exS' (by decide) (by decide) (by unfold CaseClosedOn; decide) (latinU_sepLower _ _)

end Examples

end Lucid
