/-
  C06 — the hit list is each record's own verdict, cut to the best `limit`.
  Statements only; helper lemmas live in LucidProofs/Lemmas.
-/
import LucidModel.Gen.Consts
import LucidProofs.Lemmas.Orders
import LucidProofs.Lemmas.Sorter

namespace Lucid

/-- The returned hits are a bounded top-`limit` selection (relation `TopK`) of the filtered scored hits,
    for every store, query, limit (0 included), sorting oracle and buffer factor ≥ 1. -/
theorem C06_topk (S : Sorter) (hS : SorterOK S) (K : Consts) (hK : 1 ≤ K.sortFactor)
    (order : List ScoreType) (st : Store) (q : Text) :
    ∃ top, TopK hitLe st.limit (st.hitsOf K order q (st.candidatesM S K q).1) top ∧
      st.search S K order q = top.map st.render := by
  refine ⟨_, limitSort_TopK hitLe_preorder (hS hitLe hitLe_preorder) K.sortFactor hK st.limit _, ?_⟩
  simp [Store.search, Store.searchM]

/-- A search never returns more hits than the limit. -/
theorem C06_length_le_limit (S : Sorter) (hS : SorterOK S) (K : Consts) (hK : 1 ≤ K.sortFactor)
    (order : List ScoreType) (st : Store) (q : Text) :
    (st.search S K order q).length ≤ st.limit := by
  obtain ⟨top, ⟨_, hlen, _⟩, he⟩ := C06_topk S hS K hK order st q
  rw [he, List.length_map, hlen]
  exact Nat.min_le_left _ _

/-- instantiation at the constants generated from the source -/
theorem C06_length_le_limit_src (S : Sorter) (hS : SorterOK S) (st : Store) (q : Text) :
    (st.search S Gen.srcConsts Gen.srcScoreOrder q).length ≤ st.limit :=
  C06_length_le_limit S hS Gen.srcConsts (by decide) Gen.srcScoreOrder st q

/-- non-vacuity: merge sort is a sorter satisfying the assumption is shown in `Lemmas/MergeSorter`;
    here: the generated buffer factor meets the hypothesis. -/
example : 1 ≤ Gen.srcConsts.sortFactor := by decide

end Lucid
