/-
  C16b — the two reference distances that bracket the engine's word distance (C16: `DL.lev` above,
  `DL.DLunit` below) get their textbook meaning: each is the minimum cost of an edit script
  (`Lemmas/EditScripts.lean`), so the C16 bounds can be read without knowing the recurrences.

  * `DL.LevScript a b n`  — `a` becomes `b` by a script of `n` insertions / deletions / substitutions
                            (`DL.applyOps`, `DL.opsCost`: the same as executable operation lists);
  * `DL.DLScript a b n`   — scripts that may also transpose two characters across gaps (Lowrance–Wagner:
                            `y u x` ↦ `x v y` costs `|u| + |v| + 1`; adjacent transposition = cost 1).
  Distances of the engine are in tenths (0.5 = 5, 1.0 = 10).
-/
import LucidProofs.C16
import LucidProofs.Lemmas.EditScripts

namespace Lucid
open DL

/-- **`DL.lev` is the Levenshtein distance.** `lev a b |a| |b|` is the cost of some edit script of insertions,
    deletions and substitutions turning `a` into `b`, and no such script is cheaper. -/
theorem C16_lev_is_edit_distance (a b : List Nat) :
    LevScript a b (lev a b a.length b.length) ∧ ∀ n, LevScript a b n → lev a b a.length b.length ≤ n :=
  lev_is_min a b

/-- **`DL.DLunit` is the unrestricted Damerau–Levenshtein distance.** `DLunit a b |a| |b|` is the cost of some
    edit script of insertions, deletions, substitutions and transpositions (adjacent, or across gaps at the price
    of the gaps) turning `a` into `b`, and no such script is cheaper. -/
theorem C16_damlev_is_edit_distance (a b : List Nat) :
    DLScript a b (DLunit a b a.length b.length) ∧ ∀ n, DLScript a b n → DLunit a b a.length b.length ≤ n :=
  dlunit_is_min a b

/-- **Upper bound by ANY edit script.** Whatever sequence of `n` single-character insertions, deletions and
    substitutions turns one word into the other, the engine's distance (tenths) is at most `10 · n`: every
    elementary edit costs at most 1.0, and discounts / transpositions only make it cheaper. -/
theorem C16_le_levenshtein_scripts (K : Consts) (m : Mat) (hm : MInv m) (a b : CWord)
    (ha : Aligned a) (hb : Aligned b) (hca : CostLe a) (hcb : CostLe b)
    (n : Nat) (hs : LevScript a.ch b.ch n) :
    (distanceM K m a b).1 ≤ 10 * n := by
  have h1 := C16_le_levenshtein K m hm a b ha hb hca hcb
  have h2 : lev a.ch b.ch a.len b.len ≤ n := lev_sound hs
  omega

/-- The same for scripts given as executable operation lists: if running `ops` on the first word yields the
    second (`applyOps`), the engine's distance is at most `10 ·` the number of non-`keep` operations. -/
theorem C16_le_levenshtein_ops (K : Consts) (m : Mat) (hm : MInv m) (a b : CWord)
    (ha : Aligned a) (hb : Aligned b) (hca : CostLe a) (hcb : CostLe b)
    (ops : List EditOp) (hs : applyOps ops a.ch = some b.ch) :
    (distanceM K m a b).1 ≤ 10 * opsCost ops :=
  C16_le_levenshtein_scripts K m hm a b ha hb hca hcb _ (levScript_of_ops ops a.ch b.ch hs)

/-- **Lower bound by the cheapest script with transpositions.** There is a script of insertions, deletions,
    substitutions and transpositions turning one word into the other that is the cheapest of all such scripts
    and whose cost `n` satisfies `5 · n ≤` the engine's distance: no discount makes the engine's distance smaller
    than half the unrestricted Damerau–Levenshtein distance. -/
theorem C16_ge_half_damlev_scripts (K : Consts) (hK : CostsOK K = true) (m : Mat) (hm : MInv m) (a b : CWord)
    (ha : Aligned a) (hb : Aligned b) (hca : CostLe a) (hcb : CostLe b)
    (hpa : CostPos a) (hpb : CostPos b) (h5a : CostMul5 a) (h5b : CostMul5 b) :
    ∃ n, DLScript a.ch b.ch n ∧ (∀ n', DLScript a.ch b.ch n' → n ≤ n') ∧ 5 * n ≤ (distanceM K m a b).1 :=
  ⟨DLunit a.ch b.ch a.len b.len, dlunit_complete a.ch b.ch, fun _ h => dlunit_sound h,
    C16_ge_half_damlev K hK m hm a b ha hb hca hcb hpa hpb h5a h5b⟩

/-- Consequently: if the engine's distance is below `5 · n`, some script with transpositions of fewer than `n`
    operations (gaps counted) turns one word into the other. -/
theorem C16_small_distance_has_script (K : Consts) (hK : CostsOK K = true) (m : Mat) (hm : MInv m) (a b : CWord)
    (ha : Aligned a) (hb : Aligned b) (hca : CostLe a) (hcb : CostLe b)
    (hpa : CostPos a) (hpb : CostPos b) (h5a : CostMul5 a) (h5b : CostMul5 b)
    (n : Nat) (hd : (distanceM K m a b).1 < 5 * n) :
    ∃ k, k < n ∧ DLScript a.ch b.ch k := by
  obtain ⟨k, hk, _, hle⟩ := C16_ge_half_damlev_scripts K hK m hm a b ha hb hca hcb hpa hpb h5a h5b
  exact ⟨k, by omega, hk⟩

/-! ### at the constants generated from the source -/

theorem C16_ge_half_damlev_scripts_src (m : Mat) (hm : MInv m) (a b : CWord)
    (ha : Aligned a) (hb : Aligned b) (hca : CostLe a) (hcb : CostLe b)
    (hpa : CostPos a) (hpb : CostPos b) (h5a : CostMul5 a) (h5b : CostMul5 b) :
    ∃ n, DLScript a.ch b.ch n ∧ (∀ n', DLScript a.ch b.ch n' → n ≤ n') ∧
      5 * n ≤ (distanceM Gen.srcConsts m a b).1 :=
  C16_ge_half_damlev_scripts Gen.srcConsts costsOK_src m hm a b ha hb hca hcb hpa hpb h5a h5b

/-! ### non-vacuity: "abca" vs "acba" (`exA`, `exB` of `C16.lean`) -/

-- two substitutions turn "abca" into "acba": the engine's distance is at most 2.0 (it is 0.5: one transposition)
example : applyOps [.keep, .sub 99, .sub 98, .keep] exA.ch = some exB.ch := by decide
example : (distanceM Gen.srcConsts (Mat.new 22) exA exB).1 ≤ 10 * 2 :=
  C16_le_levenshtein_ops _ _ (MInv_new 20).1 exA exB exA_ok.1 exB_ok.1 exA_ok.2.1 exB_ok.2.1
    [.keep, .sub 99, .sub 98, .keep] (by decide)
-- one adjacent transposition does it too: a script with transpositions of cost 1
example : DLScript exA.ch exB.ch 1 :=
  DLScript.keep 97 (DLScript.trans 99 98 [] [] (DLScript.keep 97 DLScript.nil))
example : ∃ n, DLScript exA.ch exB.ch n ∧ (∀ n', DLScript exA.ch exB.ch n' → n ≤ n') ∧
    5 * n ≤ (distanceM Gen.srcConsts (Mat.new (Gen.srcConsts.matCap + 2)) exA exB).1 :=
  C16_ge_half_damlev_scripts_src _ exM_ok exA exB exA_ok.1 exB_ok.1 exA_ok.2.1 exB_ok.2.1 exA_ok.2.2.1 exB_ok.2.2.1
    exA_ok.2.2.2 exB_ok.2.2.2

end Lucid
