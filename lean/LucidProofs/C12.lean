/-
  C12 — a query without any letter or digit (no word after tokenisation: `q.words = []`) lists the best-rated
  records, unhighlighted. Statements only; helper lemmas live in LucidProofs/Lemmas/{Store,TopKUnique}.lean.

  Vocabulary (Lemmas/Store.lean):
  * `StoreInv S K st`        — the invariant of every reachable store (C10_invariant);
  * `st.listed S K order q`  — the records behind the hits returned by `st.search S K order q`, in result order;
  * `plainTitle t`           — what `highlight` produces for a title without any match: no marker is inserted;
                               equal to the source text minus NUL padding when the word slices are well-formed;
  * `plainLe a b`            — higher rating first, then fewer words, then fewer characters.
-/
import LucidModel.Gen.Consts
import LucidProofs.Lemmas.Store
import LucidProofs.Lemmas.TopKUnique

namespace Lucid

/-- The hits of an empty query are the listed records, each rendered WITHOUT highlighting: the title is
    `plainTitle` of the record's title, whatever the markers are. -/
theorem C12_results (S : Sorter) (hS : SorterOK S) (K : Consts) (hK : 1 ≤ K.sortFactor) (order : List ScoreType)
    (st : Store) (h : StoreInv S K st) (q : Text) (hq : q.words = []) :
    st.search S K order q =
      (st.listed S K order q).map (fun r => ({ id := r.id, title := plainTitle r.title } : Result)) :=
  search_empty S hS K hK order h q hq

/-- `plainTitle` is the source text with the NUL padding removed, provided the word slices of the title are
    well-formed (`hlSafe`, the model's bounds predicate of `highlight`, with no match). -/
theorem C12_plain_title (t : Text) (ht : hlSafe t.source [] t.words 0 0 = true) :
    plainTitle t = t.source.filter (· != 0) := plainTitle_of_safe t ht

/-- No highlighting: changing the markers does not change the answer to an empty query. -/
theorem C12_markers_irrelevant (S : Sorter) (hS : SorterOK S) (K : Consts) (hK : 1 ≤ K.sortFactor)
    (order : List ScoreType) (st : Store) (h : StoreInv S K st) (q : Text) (hq : q.words = []) (l r : List Nat) :
    (st.setDividers l r).search S K order q = st.search S K order q := by
  rw [C12_results S hS K hK order _ (StoreInv_setDividers h l r) q hq, C12_results S hS K hK order st h q hq,
    listed_setDividers]

/-- The candidates of an empty query are a bounded top-`limit` selection (`TopK`) of the records under
    "rating descending, then normalised title ascending" (`topLe`) – whether they come from the cache or are
    computed now – and each of them becomes a scored hit (none is filtered out). -/
theorem C12_candidates (S : Sorter) (hS : SorterOK S) (K : Consts) (hK : 1 ≤ K.sortFactor) (order : List ScoreType)
    (st : Store) (h : StoreInv S K st) (q : Text) (hq : q.words = []) :
    ∃ cand : List Record, TopK topLe st.limit st.records cand ∧
      (st.candidatesM S K q).1 = cand.map (·.ix) ∧
      st.hitsOf K order q (st.candidatesM S K q).1 = cand.map (scoreHit K order q) :=
  ⟨st.cand S K, cand_TopK S hS K hK st, candidatesM_empty h q hq, hitsOf_empty S hS K hK order h q hq⟩

/-- Every candidate passes the filter and `text_match` finds nothing to highlight. -/
theorem C12_no_matches (K : Consts) (order : List ScoreType) (q : Text) (hq : q.words = []) (r : Record) :
    hitMatches q (scoreHit K order q r) = true ∧ (scoreHit K order q r).rmatches = [] ∧
    (scoreHit K order q r).qmatches = [] := by
  refine ⟨hitMatches_noWords q hq _, ?_, ?_⟩ <;> simp [scoreHit_noWords K order q hq]

/-- An empty query returns exactly `min(limit, number of records)` hits. -/
theorem C12_length (S : Sorter) (hS : SorterOK S) (K : Consts) (hK : 1 ≤ K.sortFactor) (order : List ScoreType)
    (st : Store) (h : StoreInv S K st) (q : Text) (hq : q.words = []) :
    (st.search S K order q).length = min st.limit st.records.length := by
  rw [C12_results S hS K hK order st h q hq, List.length_map,
    (listed_perm_cand S hS K hK order h q hq).length_eq, (cand_TopK S hS K hK st).2.1]

/-- The listed records are records of the store, each at most as often as it is stored; the others are `omitted`.
    No omitted record has a higher rating than a listed one; at equal rating the omitted record's normalised title
    is not before the listed one's in code-point order (`charsLe listed omitted`). -/
theorem C12_omitted_not_better (S : Sorter) (hS : SorterOK S) (K : Consts) (hK : 1 ≤ K.sortFactor)
    (order : List ScoreType) (st : Store) (h : StoreInv S K st) (q : Text) (hq : q.words = []) :
    ∃ omitted : List Record, (st.listed S K order q ++ omitted).Perm st.records ∧
      ∀ l ∈ st.listed S K order q, ∀ o ∈ omitted,
        o.rating ≤ l.rating ∧ (o.rating = l.rating → charsLe l.title.chars o.title.chars = true) := by
  obtain ⟨_, _, rest, hp, hc⟩ := cand_TopK S hS K hK st
  have hl := listed_perm_cand S hS K hK order h q hq
  refine ⟨rest, (List.Perm.append_right rest hl).trans hp, fun l hlm o ho => ?_⟩
  have := hc l (hl.mem_iff.mp hlm) o ho
  unfold topLe at this
  split at this
  · rename_i e; exact ⟨by omega, fun _ => this⟩
  · simp only [decide_eq_true_eq] at this; exact ⟨by omega, fun e => by omega⟩

/-- With the score order of the source, the hits are sorted: rating never increases down the list; among equal
    ratings titles with fewer words come first, then titles with fewer characters. -/
theorem C12_sorted (S : Sorter) (hS : SorterOK S) (K : Consts) (hK : 1 ≤ K.sortFactor)
    (st : Store) (h : StoreInv S K st) (q : Text) (hq : q.words = []) :
    (st.listed S K Gen.srcScoreOrder q).Pairwise plainLe := by
  have := (empty_top S hS K hK Gen.srcScoreOrder h q hq).2
  rw [top_eq_listed_map S hS K hK Gen.srcScoreOrder h q hq, List.pairwise_map] at this
  exact this.imp (fun {a b} hab => (hitLe_empty_iff K q hq a b).mp hab)

/-- Ratings never increase down the list. -/
theorem C12_ratings_antitone (S : Sorter) (hS : SorterOK S) (K : Consts) (hK : 1 ≤ K.sortFactor)
    (st : Store) (h : StoreInv S K st) (q : Text) (hq : q.words = []) :
    (st.listed S K Gen.srcScoreOrder q).Pairwise (fun a b => b.rating ≤ a.rating) :=
  (C12_sorted S hS K hK st h q hq).imp (fun {a b} hab => by
    rcases hab with hlt | ⟨he, _⟩ <;> omega)

/-- rating descending, as a comparator -/
def ratingGe (a b : Record) : Bool := decide (b.rating ≤ a.rating)

theorem ratingGe_preorder : Preorder' ratingGe :=
  ⟨fun a b c h1 h2 => by simp only [ratingGe, decide_eq_true_eq] at *; omega,
   fun a b => by simp only [ratingGe, decide_eq_true_eq]; omega⟩

theorem rating_inj_of_pairwise : ∀ (l : List Record), l.Pairwise (fun a b => a.rating ≠ b.rating) →
    ∀ a ∈ l, ∀ b ∈ l, a.rating = b.rating → a = b
  | [], _, a, ha, _, _, _ => by simp at ha
  | x :: l, hp, a, ha, b, hb, e => by
    rw [List.pairwise_cons] at hp
    rcases List.mem_cons.mp ha with rfl | ha' <;> rcases List.mem_cons.mp hb with rfl | hb'
    · rfl
    · exact absurd e (hp.1 b hb')
    · exact absurd e.symm (hp.1 a ha')
    · exact rating_inj_of_pairwise l hp.2 a ha' b hb' e

/-- With pairwise distinct ratings the list is exactly the `limit` best-rated records in descending order:
    the first `limit` elements of the records sorted by rating (descending). -/
theorem C12_distinct_exact (S : Sorter) (hS : SorterOK S) (K : Consts) (hK : 1 ≤ K.sortFactor)
    (st : Store) (h : StoreInv S K st) (q : Text) (hq : q.words = [])
    (hd : st.records.Pairwise (fun a b => a.rating ≠ b.rating)) :
    st.listed S K Gen.srcScoreOrder q = (st.records.mergeSort ratingGe).take st.limit := by
  obtain ⟨omitted, hp, hc⟩ := C12_omitted_not_better S hS K hK Gen.srcScoreOrder st h q hq
  apply TopK_eq_sorted_take ratingGe_preorder
  · intro a ha b hb hab hba
    simp only [ratingGe, decide_eq_true_eq] at hab hba
    exact rating_inj_of_pairwise st.records hd a ha b hb (by omega)
  · refine ⟨?_, ?_, omitted, hp, fun l hl o ho => by simpa [ratingGe] using (hc l hl o ho).1⟩
    · exact (C12_ratings_antitone S hS K hK st h q hq).imp (fun {a b} hab => by simpa [ratingGe] using hab)
    · rw [(listed_perm_cand S hS K hK Gen.srcScoreOrder h q hq).length_eq, (cand_TopK S hS K hK st).2.1]

/-- … and the returned hits are those records, unhighlighted, in that order. -/
theorem C12_distinct_exact_results (S : Sorter) (hS : SorterOK S) (K : Consts) (hK : 1 ≤ K.sortFactor)
    (st : Store) (h : StoreInv S K st) (q : Text) (hq : q.words = [])
    (hd : st.records.Pairwise (fun a b => a.rating ≠ b.rating)) :
    st.search S K Gen.srcScoreOrder q =
      ((st.records.mergeSort ratingGe).take st.limit).map
        (fun r => ({ id := r.id, title := plainTitle r.title } : Result)) := by
  rw [C12_results S hS K hK Gen.srcScoreOrder st h q hq, C12_distinct_exact S hS K hK st h q hq hd]

/-- The list always reflects the records currently in the store: all of the above applies to the store reached
    by ANY sequence of adds, clears, limit / marker changes and searches (the invariant is C10's), e.g. the
    number of hits is `min(limit, number of records currently held)`. -/
theorem C12_reachable_length (S : Sorter) (hS : SorterOK S) (K : Consts) (hK : 1 ≤ K.sortFactor)
    (order : List ScoreType) (ops : List StoreOp) (q : Text) (hq : q.words = []) :
    ((Store.run S K order (Store.new K) ops).search S K order q).length =
      min (Store.run S K order (Store.new K) ops).limit (Store.run S K order (Store.new K) ops).records.length :=
  C12_length S hS K hK order _ (StoreInv_reachable S K order ops) q hq

/-! ### at the constants generated from the source -/

theorem C12_length_src (S : Sorter) (hS : SorterOK S) (ops : List StoreOp) (q : Text) (hq : q.words = []) :
    ((Store.run S Gen.srcConsts Gen.srcScoreOrder (Store.new Gen.srcConsts) ops).search S Gen.srcConsts
        Gen.srcScoreOrder q).length =
      min (Store.run S Gen.srcConsts Gen.srcScoreOrder (Store.new Gen.srcConsts) ops).limit
          (Store.run S Gen.srcConsts Gen.srcScoreOrder (Store.new Gen.srcConsts) ops).records.length :=
  C12_reachable_length S hS Gen.srcConsts (by decide) Gen.srcScoreOrder ops q hq

theorem C12_ratings_antitone_src (S : Sorter) (hS : SorterOK S) (ops : List StoreOp) (q : Text) (hq : q.words = []) :
    ((Store.run S Gen.srcConsts Gen.srcScoreOrder (Store.new Gen.srcConsts) ops).listed S Gen.srcConsts
        Gen.srcScoreOrder q).Pairwise (fun a b => b.rating ≤ a.rating) :=
  C12_ratings_antitone S hS Gen.srcConsts (by decide) _ (StoreInv_reachable S _ _ ops) q hq

theorem C12_omitted_not_better_src (S : Sorter) (hS : SorterOK S) (ops : List StoreOp) (q : Text) (hq : q.words = []) :
    let st := Store.run S Gen.srcConsts Gen.srcScoreOrder (Store.new Gen.srcConsts) ops
    ∃ omitted : List Record, (st.listed S Gen.srcConsts Gen.srcScoreOrder q ++ omitted).Perm st.records ∧
      ∀ l ∈ st.listed S Gen.srcConsts Gen.srcScoreOrder q, ∀ o ∈ omitted,
        o.rating ≤ l.rating ∧ (o.rating = l.rating → charsLe l.title.chars o.title.chars = true) :=
  C12_omitted_not_better S hS Gen.srcConsts (by decide) _ _ (StoreInv_reachable S _ _ ops) q hq

theorem C12_distinct_exact_src (S : Sorter) (hS : SorterOK S) (ops : List StoreOp) (q : Text) (hq : q.words = []) :
    let st := Store.run S Gen.srcConsts Gen.srcScoreOrder (Store.new Gen.srcConsts) ops
    st.records.Pairwise (fun a b => a.rating ≠ b.rating) →
    st.search S Gen.srcConsts Gen.srcScoreOrder q =
      ((st.records.mergeSort ratingGe).take st.limit).map
        (fun r => ({ id := r.id, title := plainTitle r.title } : Result)) :=
  fun hd => C12_distinct_exact_results S hS Gen.srcConsts (by decide) _ (StoreInv_reachable S _ _ ops) q hq hd

/-! ### non-vacuity: merge sort meets `SorterOK`; a store with three distinct ratings and limit 2 -/

private def exT (c : Nat) : Text := { words := [⟨0, 0, 1, 1, none, true⟩], source := [c, 0], chars := [c], classes := [.any] }
private def exQ : Text := { words := [], source := [33], chars := [33], classes := [.any] }
private def exOps : List StoreOp := [.add 7 (exT 97) 3, .add 8 (exT 98) 9, .search exQ, .add 9 (exT 99) 5, .setLimit 2]

example : SorterOK mergeSorter := mergeSorter_ok
example : 1 ≤ Gen.srcConsts.sortFactor := by decide
example : exQ.words = [] := rfl
example : hlSafe (exT 97).source [] (exT 97).words 0 0 = true := by decide
example : (Store.run mergeSorter Gen.srcConsts Gen.srcScoreOrder (Store.new Gen.srcConsts) exOps).records.Pairwise
    (fun a b => a.rating ≠ b.rating) := by decide
-- #eval (Store.run mergeSorter Gen.srcConsts Gen.srcScoreOrder (Store.new Gen.srcConsts) exOps).search mergeSorter
--   Gen.srcConsts Gen.srcScoreOrder exQ   -- [{ id := 8, title := [98] }, { id := 9, title := [99] }]

end Lucid
