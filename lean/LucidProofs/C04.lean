/-
  C04 — "In a store holding no more records than the limit, take any title word made of at least five letters, at
  least three of them distinct, and apply one edit to its normalised form: substitute one letter by a different
  letter, insert a letter, delete a letter, or swap two adjacent letters. Searching for the edited word alone still
  returns the record, in every language."

  The query is the single unfinished word `w'` (the edited word typed without a trailing separator).

  End-to-end assembly:
  * one edit      — `Edit1` (`Lemmas/Edit1.lean`): lengths, character sets, a shared gram, and the weighted distance
                    `DL.D ≤ 1.0` along an explicit edit path (≤ 0.5 for a swap, through the transposition branch);
  * word level    — `wordMatch_edit1_some` (`Lemmas/TypoGates.lean`): the length gate, the Jaccard gate and the two
                    slice loops of `word_match` accept the pair of full slices `(|w'|, |w|)`;
  * candidates    — `candOK_of_inv` (`Lemmas/Candidates.lean`) from the shared gram `Edit1.shares_gram`;
  * control flow  — `C03_single_word_found` (`C13.lean`): greedy scan, filter, bounded selection.
  The tokenizer-level corollaries take the texts from `tokenize_record` / `tokenize_query` (`C15.lean`).
  "Letters" enter the model proof only through the per-character edit costs being at most 1.0, which holds for every
  character class (`cword_costLe`), so no hypothesis about the classes of the characters is needed.
-/
import LucidProofs.C03
import LucidProofs.Lemmas.TypoGates

namespace Lucid

/-- a query word and a record word whose character lists share a gram put the record among the texts sharing a
    gram with the query -/
theorem shares_gram_of_edit1 {rt qt : Text} {w v : WordShape} (hw : w ∈ rt.words) (hv : v ∈ qt.words)
    (h5 : 5 ≤ (wchars rt w).length) (hed : Edit1 (wchars rt w) (wchars qt v)) :
    ∃ g ∈ collectGrams qt, g ∈ collectGrams rt := by
  obtain ⟨g, hg1, hg2⟩ := hed.shares_gram h5
  exact ⟨g, mem_collectGrams.mpr ⟨v, hv, hg2⟩, mem_collectGrams.mpr ⟨w, hw, hg1⟩⟩

/-! ### the property, on well-formed texts -/

/-- **C04.** Let a store carry the trigram index of its records (`StoreIndexInv`: true of every store reached from
    `Store::new` by any sequence of operations) and hold no more records than its limit. Let `r` be one of its
    records and `w` a word of its title with at least five characters, at least three of them distinct. Then every
    query consisting of one unfinished word `v` whose characters are those of `w` with ONE typing error (`Edit1`:
    one character substituted by a different one, one character inserted, one character deleted, or two adjacent
    different characters swapped) returns `r` among the results — whatever the other records, the rating, the
    character classes, the language tables and the sorting oracle are.
    Hypotheses on the texts: title and query are well-formed (`TextOK`, delivered by the tokenizer, C15) and the
    stem of the query word is no longer than the word. Numeric hypotheses: `CostsOK`, `TypoNumsOK` (decided at the
    constants of the source). -/
theorem C04_single_edit_found (S : Sorter) (hS : SorterOK S) (K : Consts)
    (hC : CostsOK K = true) (hT : TypoNumsOK K = true) (hK : 1 ≤ K.sortFactor) (hP : 1 ≤ K.prepFactor)
    (order : List ScoreType) (st : Store) (hI : StoreIndexInv st) (hlim : st.records.length ≤ st.limit)
    (ix : Nat) (r : Record) (hr : st.records[ix]? = some r) (hrt : TextOK r.title)
    (q : Text) (hqt : TextOK q) (v : WordShape) (hq : q.words = [v]) (hfin : v.fin = false)
    (hstem : v.stem ≤ v.len)
    (w : WordShape) (hw : w ∈ r.title.words) (h5 : 5 ≤ w.len) (h3 : 3 ≤ distinctCard (wchars r.title w))
    (hed : Edit1 (wchars r.title w) (wchars q v)) :
    ∃ res ∈ st.search S K order q, res.id = r.id ∧ res = st.render (scoreHit K order q r) := by
  have hv : v ∈ q.words := by rw [hq]; exact List.mem_singleton.mpr rfl
  have hvin := hqt.wordIn hv
  have hwin := hrt.wordIn hw
  have hc : CandOK S K st q ix r :=
    candOK_of_inv S hS K hK hP st hI hlim q (by rw [hq]; simp) ix r hr
      (shares_gram_of_edit1 hw hv (by rw [wchars_length hwin]; exact h5) hed)
  exact C03_single_word_found S hS K hK order st q ix r hc hrt hqt v hq w hw
    (wordMatch_edit1_some K hC hT r.title w q v hwin hvin hfin hstem h5 h3 hed)

/-! ### the four kinds of edit, spelled out -/

/-- C04, substitution: the title word reads `x a y`, the query word `x b y` with `b ≠ a`. -/
theorem C04_sub_found (S : Sorter) (hS : SorterOK S) (K : Consts)
    (hC : CostsOK K = true) (hT : TypoNumsOK K = true) (hK : 1 ≤ K.sortFactor) (hP : 1 ≤ K.prepFactor)
    (order : List ScoreType) (st : Store) (hI : StoreIndexInv st) (hlim : st.records.length ≤ st.limit)
    (ix : Nat) (r : Record) (hr : st.records[ix]? = some r) (hrt : TextOK r.title)
    (q : Text) (hqt : TextOK q) (v : WordShape) (hq : q.words = [v]) (hfin : v.fin = false)
    (hstem : v.stem ≤ v.len)
    (w : WordShape) (hw : w ∈ r.title.words) (h5 : 5 ≤ w.len) (h3 : 3 ≤ distinctCard (wchars r.title w))
    (x y : List Nat) (a b : Nat) (hab : a ≠ b)
    (hwc : wchars r.title w = x ++ a :: y) (hvc : wchars q v = x ++ b :: y) :
    ∃ res ∈ st.search S K order q, res.id = r.id ∧ res = st.render (scoreHit K order q r) :=
  C04_single_edit_found S hS K hC hT hK hP order st hI hlim ix r hr hrt q hqt v hq hfin hstem w hw h5 h3
    (by rw [hwc, hvc]; exact Edit1.sub x y a b hab)

/-- C04, insertion: the title word reads `x y`, the query word `x c y`. -/
theorem C04_ins_found (S : Sorter) (hS : SorterOK S) (K : Consts)
    (hC : CostsOK K = true) (hT : TypoNumsOK K = true) (hK : 1 ≤ K.sortFactor) (hP : 1 ≤ K.prepFactor)
    (order : List ScoreType) (st : Store) (hI : StoreIndexInv st) (hlim : st.records.length ≤ st.limit)
    (ix : Nat) (r : Record) (hr : st.records[ix]? = some r) (hrt : TextOK r.title)
    (q : Text) (hqt : TextOK q) (v : WordShape) (hq : q.words = [v]) (hfin : v.fin = false)
    (hstem : v.stem ≤ v.len)
    (w : WordShape) (hw : w ∈ r.title.words) (h5 : 5 ≤ w.len) (h3 : 3 ≤ distinctCard (wchars r.title w))
    (x y : List Nat) (c : Nat)
    (hwc : wchars r.title w = x ++ y) (hvc : wchars q v = x ++ c :: y) :
    ∃ res ∈ st.search S K order q, res.id = r.id ∧ res = st.render (scoreHit K order q r) :=
  C04_single_edit_found S hS K hC hT hK hP order st hI hlim ix r hr hrt q hqt v hq hfin hstem w hw h5 h3
    (by rw [hwc, hvc]; exact Edit1.ins x y c)

/-- C04, deletion: the title word reads `x c y`, the query word `x y`. -/
theorem C04_del_found (S : Sorter) (hS : SorterOK S) (K : Consts)
    (hC : CostsOK K = true) (hT : TypoNumsOK K = true) (hK : 1 ≤ K.sortFactor) (hP : 1 ≤ K.prepFactor)
    (order : List ScoreType) (st : Store) (hI : StoreIndexInv st) (hlim : st.records.length ≤ st.limit)
    (ix : Nat) (r : Record) (hr : st.records[ix]? = some r) (hrt : TextOK r.title)
    (q : Text) (hqt : TextOK q) (v : WordShape) (hq : q.words = [v]) (hfin : v.fin = false)
    (hstem : v.stem ≤ v.len)
    (w : WordShape) (hw : w ∈ r.title.words) (h5 : 5 ≤ w.len) (h3 : 3 ≤ distinctCard (wchars r.title w))
    (x y : List Nat) (c : Nat)
    (hwc : wchars r.title w = x ++ c :: y) (hvc : wchars q v = x ++ y) :
    ∃ res ∈ st.search S K order q, res.id = r.id ∧ res = st.render (scoreHit K order q r) :=
  C04_single_edit_found S hS K hC hT hK hP order st hI hlim ix r hr hrt q hqt v hq hfin hstem w hw h5 h3
    (by rw [hwc, hvc]; exact Edit1.del x y c)

/-- C04, swap: the title word reads `x a b y`, the query word `x b a y` with `a ≠ b`. -/
theorem C04_swap_found (S : Sorter) (hS : SorterOK S) (K : Consts)
    (hC : CostsOK K = true) (hT : TypoNumsOK K = true) (hK : 1 ≤ K.sortFactor) (hP : 1 ≤ K.prepFactor)
    (order : List ScoreType) (st : Store) (hI : StoreIndexInv st) (hlim : st.records.length ≤ st.limit)
    (ix : Nat) (r : Record) (hr : st.records[ix]? = some r) (hrt : TextOK r.title)
    (q : Text) (hqt : TextOK q) (v : WordShape) (hq : q.words = [v]) (hfin : v.fin = false)
    (hstem : v.stem ≤ v.len)
    (w : WordShape) (hw : w ∈ r.title.words) (h5 : 5 ≤ w.len) (h3 : 3 ≤ distinctCard (wchars r.title w))
    (x y : List Nat) (a b : Nat) (hab : a ≠ b)
    (hwc : wchars r.title w = x ++ a :: b :: y) (hvc : wchars q v = x ++ b :: a :: y) :
    ∃ res ∈ st.search S K order q, res.id = r.id ∧ res = st.render (scoreHit K order q r) :=
  C04_single_edit_found S hS K hC hT hK hP order st hI hlim ix r hr hrt q hqt v hq hfin hstem w hw h5 h3
    (by rw [hwc, hvc]; exact Edit1.swap x y a b hab)

/-! ### reachable stores, tokenised texts -/

/-- C04 for every reachable store: the store is the result of any sequence of `add`, `clear`, `set_limit`,
    `highlight_with` and `search` calls on a new store, every added title being well-formed. -/
theorem C04_single_edit_found_reachable (S : Sorter) (hS : SorterOK S) (K : Consts)
    (hC : CostsOK K = true) (hT : TypoNumsOK K = true) (hK : 1 ≤ K.sortFactor) (hP : 1 ≤ K.prepFactor)
    (order : List ScoreType) (ops : List StoreOp)
    (hops : ∀ id t rating, StoreOp.add id t rating ∈ ops → TextOK t)
    (hlim : ((Store.new K).run S K order ops).records.length ≤ ((Store.new K).run S K order ops).limit)
    (ix : Nat) (r : Record) (hr : ((Store.new K).run S K order ops).records[ix]? = some r)
    (q : Text) (hqt : TextOK q) (v : WordShape) (hq : q.words = [v]) (hfin : v.fin = false)
    (hstem : v.stem ≤ v.len)
    (w : WordShape) (hw : w ∈ r.title.words) (h5 : 5 ≤ w.len) (h3 : 3 ≤ distinctCard (wchars r.title w))
    (hed : Edit1 (wchars r.title w) (wchars q v)) :
    ∃ res ∈ ((Store.new K).run S K order ops).search S K order q,
      res.id = r.id ∧ res = ((Store.new K).run S K order ops).render (scoreHit K order q r) := by
  have hrt : TextOK r.title :=
    run_records_sub S K order TextOK ops hops (Store.new K) (by intro r hr; simp [Store.new] at hr) r
      (List.mem_of_getElem? hr)
  exact C04_single_edit_found S hS K hC hT hK hP order _ (StoreIndexInv_reachable S K order ops) hlim ix r hr hrt
    q hqt v hq hfin hstem w hw h5 h3 hed

/-- **C04 on tokenised texts.** Titles are results of `tokenize_record`, the query is the result of
    `tokenize_query` (both with the generated step lists), for any language tables meeting `TablesOK`, any Unicode
    oracle meeting `UnicodeFacts` and any bounded stemmer. Premise about the typed text `s`: its tokenisation is a
    single unfinished word whose (normalised) characters are those of a word of the record's tokenised title, of at
    least five characters, three of them distinct, with one typing error. -/
theorem C04_single_edit_found_tokenized (S : Sorter) (hS : SorterOK S) (E : Env)
    (hU : UnicodeFacts E.U E.K) (hTb : TablesOK E.T = true) (hSt : StemHyp E)
    (hC : CostsOK E.K = true) (hT : TypoNumsOK E.K = true) (hK : 1 ≤ E.K.sortFactor) (hP : 1 ≤ E.K.prepFactor)
    (order : List ScoreType) (ops : List StoreOp)
    (hops : ∀ id t rating, StoreOp.add id t rating ∈ ops → ∃ s, t = tokenizeRecord Gen.srcProg E s)
    (hlim : ((Store.new E.K).run S E.K order ops).records.length ≤ ((Store.new E.K).run S E.K order ops).limit)
    (ix : Nat) (r : Record) (hr : ((Store.new E.K).run S E.K order ops).records[ix]? = some r)
    (s : List Nat) (v : WordShape) (hq : (tokenizeQuery Gen.srcProg E s).words = [v]) (hfin : v.fin = false)
    (w : WordShape) (hw : w ∈ r.title.words) (h5 : 5 ≤ w.len) (h3 : 3 ≤ distinctCard (wchars r.title w))
    (hed : Edit1 (wchars r.title w) (wchars (tokenizeQuery Gen.srcProg E s) v)) :
    ∃ res ∈ ((Store.new E.K).run S E.K order ops).search S E.K order (tokenizeQuery Gen.srcProg E s),
      res.id = r.id ∧
      res = ((Store.new E.K).run S E.K order ops).render (scoreHit E.K order (tokenizeQuery Gen.srcProg E s) r) := by
  have hqi : TokInv E true s (tokenizeQuery Gen.srcProg E s) := C15_query_anyK E hU hTb hSt s
  refine C04_single_edit_found_reachable S hS E.K hC hT hK hP order ops ?_ hlim ix r hr _ hqi.textOK v hq hfin
    (hqi.stemsLe v (by rw [hq]; exact List.mem_singleton.mpr rfl)) w hw h5 h3 hed
  intro id t rating hm
  obtain ⟨s', rfl⟩ := hops id t rating hm
  exact (C15_record_anyK E hU hTb hSt s').textOK

/-! ### instantiations at the constants generated from the source -/

theorem C04_single_edit_found_src (S : Sorter) (hS : SorterOK S)
    (st : Store) (hI : StoreIndexInv st) (hlim : st.records.length ≤ st.limit)
    (ix : Nat) (r : Record) (hr : st.records[ix]? = some r) (hrt : TextOK r.title)
    (q : Text) (hqt : TextOK q) (v : WordShape) (hq : q.words = [v]) (hfin : v.fin = false)
    (hstem : v.stem ≤ v.len)
    (w : WordShape) (hw : w ∈ r.title.words) (h5 : 5 ≤ w.len) (h3 : 3 ≤ distinctCard (wchars r.title w))
    (hed : Edit1 (wchars r.title w) (wchars q v)) :
    ∃ res ∈ st.search S Gen.srcConsts Gen.srcScoreOrder q,
      res.id = r.id ∧ res = st.render (scoreHit Gen.srcConsts Gen.srcScoreOrder q r) :=
  C04_single_edit_found S hS Gen.srcConsts costsOK_src typoNumsOK_src (by decide) (by decide) Gen.srcScoreOrder
    st hI hlim ix r hr hrt q hqt v hq hfin hstem w hw h5 h3 hed

theorem C04_single_edit_found_reachable_src (S : Sorter) (hS : SorterOK S) (ops : List StoreOp)
    (hops : ∀ id t rating, StoreOp.add id t rating ∈ ops → TextOK t)
    (hlim : ((Store.new Gen.srcConsts).run S Gen.srcConsts Gen.srcScoreOrder ops).records.length
              ≤ ((Store.new Gen.srcConsts).run S Gen.srcConsts Gen.srcScoreOrder ops).limit)
    (ix : Nat) (r : Record)
    (hr : ((Store.new Gen.srcConsts).run S Gen.srcConsts Gen.srcScoreOrder ops).records[ix]? = some r)
    (q : Text) (hqt : TextOK q) (v : WordShape) (hq : q.words = [v]) (hfin : v.fin = false)
    (hstem : v.stem ≤ v.len)
    (w : WordShape) (hw : w ∈ r.title.words) (h5 : 5 ≤ w.len) (h3 : 3 ≤ distinctCard (wchars r.title w))
    (hed : Edit1 (wchars r.title w) (wchars q v)) :
    ∃ res ∈ ((Store.new Gen.srcConsts).run S Gen.srcConsts Gen.srcScoreOrder ops).search S Gen.srcConsts
        Gen.srcScoreOrder q,
      res.id = r.id ∧
      res = ((Store.new Gen.srcConsts).run S Gen.srcConsts Gen.srcScoreOrder ops).render
              (scoreHit Gen.srcConsts Gen.srcScoreOrder q r) :=
  C04_single_edit_found_reachable S hS Gen.srcConsts costsOK_src typoNumsOK_src (by decide) (by decide)
    Gen.srcScoreOrder ops hops hlim ix r hr q hqt v hq hfin hstem w hw h5 h3 hed

/-- C04 at the generated constants, step lists and score order, in every language: `T` is any language table
    meeting `TablesOK` (decided for the seven generated languages in `Lemmas/Facts.lean`). -/
theorem C04_single_edit_found_tokenized_src (S : Sorter) (hS : SorterOK S)
    (U : Unicode) (T : LangTables) (stem : List Nat → Nat)
    (hU : UnicodeFacts U Gen.srcConsts) (hTb : TablesOK T = true) (hSt : StemHyp (Gen.srcProg.env U T stem))
    (ops : List StoreOp)
    (hops : ∀ id t rating, StoreOp.add id t rating ∈ ops →
      ∃ s, t = tokenizeRecord Gen.srcProg (Gen.srcProg.env U T stem) s)
    (hlim : ((Store.new Gen.srcConsts).run S Gen.srcConsts Gen.srcScoreOrder ops).records.length
              ≤ ((Store.new Gen.srcConsts).run S Gen.srcConsts Gen.srcScoreOrder ops).limit)
    (ix : Nat) (r : Record)
    (hr : ((Store.new Gen.srcConsts).run S Gen.srcConsts Gen.srcScoreOrder ops).records[ix]? = some r)
    (s : List Nat) (v : WordShape)
    (hq : (tokenizeQuery Gen.srcProg (Gen.srcProg.env U T stem) s).words = [v]) (hfin : v.fin = false)
    (w : WordShape) (hw : w ∈ r.title.words) (h5 : 5 ≤ w.len) (h3 : 3 ≤ distinctCard (wchars r.title w))
    (hed : Edit1 (wchars r.title w) (wchars (tokenizeQuery Gen.srcProg (Gen.srcProg.env U T stem) s) v)) :
    ∃ res ∈ ((Store.new Gen.srcConsts).run S Gen.srcConsts Gen.srcScoreOrder ops).search S Gen.srcConsts
        Gen.srcScoreOrder (tokenizeQuery Gen.srcProg (Gen.srcProg.env U T stem) s),
      res.id = r.id ∧
      res = ((Store.new Gen.srcConsts).run S Gen.srcConsts Gen.srcScoreOrder ops).render
              (scoreHit Gen.srcConsts Gen.srcScoreOrder (tokenizeQuery Gen.srcProg (Gen.srcProg.env U T stem) s) r) :=
  C04_single_edit_found_tokenized S hS (Gen.srcProg.env U T stem) hU hTb hSt costsOK_src typoNumsOK_src
    (show 1 ≤ Gen.srcConsts.sortFactor by decide) (show 1 ≤ Gen.srcConsts.prepFactor by decide) Gen.srcScoreOrder
    ops hops hlim ix r hr s v hq hfin w hw h5 h3 hed

namespace C04Example
open C13Example C03Example

/-! ### non-vacuity -/

/-- title "blue planet" -/
def pTitle : Text :=
  { words := [{ offset := 0, lo := 0, hi := 4, stem := 2, pos := none, fin := true },
              { offset := 1, lo := 5, hi := 11, stem := 3, pos := none, fin := true }],
    source := [66, 108, 117, 101, 32, 112, 108, 97, 110, 101, 116],
    chars := [98, 108, 117, 101, 32, 112, 108, 97, 110, 101, 116],
    classes := [.consonant, .consonant, .vowel, .vowel, .notAlpha, .consonant, .consonant, .vowel, .consonant,
                .vowel, .consonant] }

def pWord : WordShape := { offset := 1, lo := 5, hi := 11, stem := 3, pos := none, fin := true }

/-- a one-word unfinished query -/
def pQuery (cs : List Nat) (stem : Nat) : Text :=
  { words := [{ offset := 0, lo := 0, hi := cs.length, stem := stem, pos := none, fin := false }],
    source := cs, chars := cs, classes := cs.map (fun _ => CharClass.consonant) }

def pRecord : Record := { ix := 0, id := 7, title := pTitle, rating := 0 }
def pStore : Store := (Store.new Gen.srcConsts).add 7 pTitle 0

theorem pTitle_ok : TextOK pTitle :=
  ⟨by decide, by decide, by decide,
   by intro i h; have hi : i = 0 := (by have : pTitle.words.length = 2 := rfl; omega); subst hi; simp [pTitle],
   by decide⟩

theorem pQuery_ok (cs : List Nat) (hcs : cs ≠ []) (stem : Nat) (hs : 1 ≤ stem) : TextOK (pQuery cs stem) := by
  have hl : 0 < cs.length := List.length_pos_iff.mpr hcs
  refine ⟨by simp [pQuery], ?_, ?_, ?_, ?_⟩
  · intro i h; have : i = 0 := by simp [pQuery] at h; omega
    subst this; rfl
  · intro w hw; simp only [pQuery, List.mem_singleton] at hw; subst hw; exact ⟨hl, Nat.le_refl _⟩
  · intro i h; simp [pQuery] at h
  · intro w hw; simp only [pQuery, List.mem_singleton] at hw; subst hw; exact hs

theorem pStore_inv : StoreIndexInv pStore := (StoreIndexInv.new _).add 7 pTitle 0

/-- the hypotheses of `C04_single_edit_found_src` are met by the four typos "plonet" (substitution), "plannet"
    (insertion), "lanet" (deletion of the first letter), "palnet" (swap) against the title "blue planet" -/
example (cs : List Nat)
    (hcs : cs = [112, 108, 111, 110, 101, 116] ∨ cs = [112, 108, 97, 110, 110, 101, 116] ∨
           cs = [108, 97, 110, 101, 116] ∨ cs = [112, 97, 108, 110, 101, 116]) :
    ∃ res ∈ pStore.search exSorter Gen.srcConsts Gen.srcScoreOrder (pQuery cs 3), res.id = 7 ∧
      res = pStore.render (scoreHit Gen.srcConsts Gen.srcScoreOrder (pQuery cs 3) pRecord) := by
  have key := fun (cs : List Nat) (hne : cs ≠ []) (h3 : 3 ≤ cs.length)
      (hed : Edit1 (wchars pTitle pWord) (wchars (pQuery cs 3) (pQuery cs 3).words.head!)) =>
    C04_single_edit_found_src exSorter exSorter_ok pStore pStore_inv (by decide) 0 pRecord (by decide) pTitle_ok
      (pQuery cs 3) (pQuery_ok cs hne 3 (by decide)) _ rfl rfl (by simpa [pQuery, WordShape.len] using h3)
      pWord (by decide) (by decide) (by decide) hed
  rcases hcs with rfl | rfl | rfl | rfl
  · exact key _ (by decide) (by decide) (Edit1.sub [112, 108] [110, 101, 116] 97 111 (by decide))
  · exact key _ (by decide) (by decide) (Edit1.ins [112, 108, 97, 110] [101, 116] 110)
  · exact key _ (by decide) (by decide) (Edit1.del [] [108, 97, 110, 101, 116] 112)
  · exact key _ (by decide) (by decide) (Edit1.swap [112] [110, 101, 116] 108 97 (by decide))

/-- add "Blue planet", search once (filling the cache), lower the limit to 5 -/
def pOps : List StoreOp :=
  [.add 7 (tokenizeRecord Gen.srcProg exEnv [66, 108, 117, 101, 32, 112, 108, 97, 110, 101, 116]) 3,
   .search (tokenizeQuery Gen.srcProg exEnv []), .setLimit 5]

/-- the hypotheses of `C04_single_edit_found_tokenized_src` are met by typing "plonet", "plannet", "lanet",
    "palnet" against "Blue planet" (toy ASCII oracle, English tables) -/
example (s : List Nat)
    (hs : s = [112, 108, 111, 110, 101, 116] ∨ s = [112, 108, 97, 110, 110, 101, 116] ∨
          s = [108, 97, 110, 101, 116] ∨ s = [112, 97, 108, 110, 101, 116]) :
    ∃ res ∈ ((Store.new Gen.srcConsts).run exSorter Gen.srcConsts Gen.srcScoreOrder pOps).search exSorter
        Gen.srcConsts Gen.srcScoreOrder (tokenizeQuery Gen.srcProg exEnv s), res.id = 7 := by
  have hops : ∀ id t rating, StoreOp.add id t rating ∈ pOps → ∃ s, t = tokenizeRecord Gen.srcProg exEnv s := by
    intro id t rating hm
    simp only [pOps, List.mem_cons, StoreOp.add.injEq, List.not_mem_nil, or_false, reduceCtorEq] at hm
    exact ⟨_, hm.2.1⟩
  have hwc : wchars (tokenizeRecord Gen.srcProg exEnv [66, 108, 117, 101, 32, 112, 108, 97, 110, 101, 116]) pWord
      = [112, 108, 97, 110, 101, 116] := by decide +kernel
  have key := fun s v hq hfin hed =>
    C04_single_edit_found_tokenized_src exSorter exSorter_ok toyU Gen.lang_en toyStem toyU_facts tablesOK_en
      (toyStemHyp _ (by decide)) pOps hops (by decide +kernel) 0
      { ix := 0, id := 7, title := tokenizeRecord Gen.srcProg exEnv [66, 108, 117, 101, 32, 112, 108, 97, 110, 101, 116],
        rating := 3 }
      (by decide +kernel) s v hq hfin pWord (by decide +kernel) (by decide) (by rw [hwc]; decide) hed
  rcases hs with rfl | rfl | rfl | rfl
  · obtain ⟨res, h1, h2, _⟩ := key [112, 108, 111, 110, 101, 116]
      { offset := 0, lo := 0, hi := 6, stem := 3, pos := none, fin := false } (by decide +kernel) rfl
      (by
        have e : wchars (tokenizeQuery Gen.srcProg (Gen.srcProg.env toyU Gen.lang_en toyStem) [112, 108, 111, 110, 101, 116])
            { offset := 0, lo := 0, hi := 6, stem := 3, pos := none, fin := false } = [112, 108, 111, 110, 101, 116] := by
          decide +kernel
        rw [e]; show Edit1 (wchars _ pWord) _; rw [hwc]
        exact Edit1.sub [112, 108] [110, 101, 116] 97 111 (by decide))
    exact ⟨res, h1, h2⟩
  · obtain ⟨res, h1, h2, _⟩ := key [112, 108, 97, 110, 110, 101, 116]
      { offset := 0, lo := 0, hi := 7, stem := 4, pos := none, fin := false } (by decide +kernel) rfl
      (by
        have e : wchars (tokenizeQuery Gen.srcProg (Gen.srcProg.env toyU Gen.lang_en toyStem) [112, 108, 97, 110, 110, 101, 116])
            { offset := 0, lo := 0, hi := 7, stem := 4, pos := none, fin := false } = [112, 108, 97, 110, 110, 101, 116] := by
          decide +kernel
        rw [e]; show Edit1 (wchars _ pWord) _; rw [hwc]
        exact Edit1.ins [112, 108, 97, 110] [101, 116] 110)
    exact ⟨res, h1, h2⟩
  · obtain ⟨res, h1, h2, _⟩ := key [108, 97, 110, 101, 116]
      { offset := 0, lo := 0, hi := 5, stem := 3, pos := none, fin := false } (by decide +kernel) rfl
      (by
        have e : wchars (tokenizeQuery Gen.srcProg (Gen.srcProg.env toyU Gen.lang_en toyStem) [108, 97, 110, 101, 116])
            { offset := 0, lo := 0, hi := 5, stem := 3, pos := none, fin := false } = [108, 97, 110, 101, 116] := by
          decide +kernel
        rw [e]; show Edit1 (wchars _ pWord) _; rw [hwc]
        exact Edit1.del [] [108, 97, 110, 101, 116] 112)
    exact ⟨res, h1, h2⟩
  · obtain ⟨res, h1, h2, _⟩ := key [112, 97, 108, 110, 101, 116]
      { offset := 0, lo := 0, hi := 6, stem := 3, pos := none, fin := false } (by decide +kernel) rfl
      (by
        have e : wchars (tokenizeQuery Gen.srcProg (Gen.srcProg.env toyU Gen.lang_en toyStem) [112, 97, 108, 110, 101, 116])
            { offset := 0, lo := 0, hi := 6, stem := 3, pos := none, fin := false } = [112, 97, 108, 110, 101, 116] := by
          decide +kernel
        rw [e]; show Edit1 (wchars _ pWord) _; rw [hwc]
        exact Edit1.swap [112] [110, 101, 116] 108 97 (by decide))
    exact ⟨res, h1, h2⟩

end C04Example

end Lucid
