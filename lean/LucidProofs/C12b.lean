/-
  C12b — what an empty query displays, end to end: the title shown for a record is the text that was added, after
  Unicode composition (`Lang::unicode_compose`, the first half of `normalize`), with NUL characters removed.
  Nothing else of the tokenizer (reduction of diacritics, lower-casing, splitting, stripping) shows in the title.

  Assembly: `C12_results` (the hits are the listed records rendered by `plainTitle`), `C12_plain_title`
  (`plainTitle` = source minus NULs when the word slices are well-formed), `hlSafe_of_textOK` with no match
  (well-formedness from `TextOK`), `TokInv.textOK` and `TokInv.source` (C15: the tokenizer keeps
  `source` equal to the composed input up to NUL padding).
-/
import LucidProofs.C12
import LucidProofs.C03
import LucidProofs.C01
import LucidProofs.Lemmas.Highlight

namespace Lucid

/-- a well-formed title without highlighting is displayed as its source text minus the NUL padding -/
theorem plainTitle_of_textOK {t : Text} (ht : TextOK t) : plainTitle t = t.source.filter (· != 0) :=
  C12_plain_title t (hlSafe_of_textOK (rm := []) ht (fun m hm => by simp at hm))

theorem filter_bne_eq_filter_ne (l : List Nat) : l.filter (· != 0) = l.filter (fun c => decide (c ≠ 0)) := by
  apply List.filter_congr
  intro x _
  by_cases h : x = 0 <;> simp [h]

/-- **The displayed form of a tokenised title.** For the text `tokenize_record(s)` of a raw string `s`, in any
    language (`TablesOK`), any Unicode oracle meeting `UnicodeFacts`, any bounded stemmer: the unhighlighted title
    is `unicode_compose(s)` with NULs removed. -/
theorem C12_plain_title_tokenized (E : Env) (hU : UnicodeFacts E.U E.K) (hT : TablesOK E.T = true) (hSt : StemHyp E)
    (s : List Nat) :
    plainTitle (tokenizeRecord Gen.srcProg E s) = (compose E.T s).filter (· ≠ 0) := by
  have hi : TokInv E false s (tokenizeRecord Gen.srcProg E s) := C15_record_anyK E hU hT hSt s
  rw [plainTitle_of_textOK hi.textOK, filter_bne_eq_filter_ne]
  exact hi.source

/-- every record of a store reached from `st` by `ops` was already in `st` or was supplied, with this id, title
    and rating, by one of the `add` operations -/
theorem run_records_from_add (S : Sorter) (K : Consts) (order : List ScoreType) (ops : List StoreOp) :
    ∀ (st : Store), ∀ r ∈ (st.run S K order ops).records,
      r ∈ st.records ∨ StoreOp.add r.id r.title r.rating ∈ ops := by
  induction ops with
  | nil => intro st r hr; exact Or.inl hr
  | cons op ops ih =>
    intro st r hr
    rcases ih (st.apply S K order op) r hr with h | h
    · cases op with
      | add id title rating =>
        simp only [Store.apply, Store.add, List.mem_append, List.mem_singleton] at h
        rcases h with h | h
        · exact Or.inl h
        · subst h; exact Or.inr (List.mem_cons_self ..)
      | clear => simp [Store.apply, Store.clear] at h
      | setLimit n => exact Or.inl h
      | setDividers l r => exact Or.inl h
      | search q =>
        have : (st.searchM S K order q).2.records = st.records := (searchM_snd_fields S K order st q).2.1
        rw [Store.apply, this] at h
        exact Or.inl h
    · exact Or.inr (List.mem_cons_of_mem _ h)

/-- the listed records of an empty query are records of the store -/
theorem listed_sub_records (S : Sorter) (hS : SorterOK S) (K : Consts) (hK : 1 ≤ K.sortFactor)
    (order : List ScoreType) {st : Store} (h : StoreInv S K st) (q : Text) (hq : q.words = []) :
    ∀ r ∈ st.listed S K order q, r ∈ st.records := fun r hr =>
  TopK_mem_input (cand_TopK S hS K hK st) r ((listed_perm_cand S hS K hK order h q hq).mem_iff.mp hr)

/-- **C12, the titles.** In every store reached from `Store::new` by any sequence of operations whose added titles
    are results of `tokenize_record` (any language meeting `TablesOK`, any Unicode oracle meeting `UnicodeFacts`,
    any bounded stemmer), a query without words returns, for each listed record, the record's id and its `source`
    text with the NUL padding removed — and that text is the composed raw input with NULs removed: if the record
    was added as the raw string `s`, the title shown is `(compose E.T s).filter (· ≠ 0)`, whatever the markers. -/
theorem C12_title_is_source (S : Sorter) (hS : SorterOK S) (E : Env)
    (hU : UnicodeFacts E.U E.K) (hT : TablesOK E.T = true) (hSt : StemHyp E) (hK : 1 ≤ E.K.sortFactor)
    (order : List ScoreType) (ops : List StoreOp)
    (hops : ∀ id t rating, StoreOp.add id t rating ∈ ops → ∃ s, t = tokenizeRecord Gen.srcProg E s)
    (q : Text) (hq : q.words = []) :
    let st := (Store.new E.K).run S E.K order ops
    st.search S E.K order q =
        (st.listed S E.K order q).map (fun r => ({ id := r.id, title := r.title.source.filter (· ≠ 0) } : Result)) ∧
      ∀ r ∈ st.listed S E.K order q, r ∈ st.records ∧
        ∀ s, r.title = tokenizeRecord Gen.srcProg E s →
          r.title.source.filter (· ≠ 0) = (compose E.T s).filter (· ≠ 0) := by
  intro st
  have hinv : StoreInv S E.K st := StoreInv_reachable S E.K order ops
  have hrec : ∀ r ∈ st.records, ∃ s, r.title = tokenizeRecord Gen.srcProg E s :=
    run_records_sub S E.K order (fun t => ∃ s, t = tokenizeRecord Gen.srcProg E s) ops hops (Store.new E.K)
      (by intro r hr; simp [Store.new] at hr)
  have hsub := listed_sub_records S hS E.K hK order hinv q hq
  refine ⟨?_, fun r hr => ⟨hsub r hr, fun s hs => ?_⟩⟩
  · rw [C12_results S hS E.K hK order st hinv q hq]
    apply List.map_congr_left
    intro r hr
    obtain ⟨s, hs⟩ := hrec r (hsub r hr)
    have hi : TokInv E false s (tokenizeRecord Gen.srcProg E s) := C15_record_anyK E hU hT hSt s
    rw [hs, plainTitle_of_textOK hi.textOK, filter_bne_eq_filter_ne]
  · have hi : TokInv E false s (tokenizeRecord Gen.srcProg E s) := C15_record_anyK E hU hT hSt s
    rw [hs]; exact hi.source

/-- **C12, the titles, over raw strings.** Run any sequence of API calls (`ApiOp` of `C01.lean`: add a raw title,
    set the limit, set the markers, clear, search a raw query) on a new store; then ask a query whose tokenisation
    has no word (e.g. the empty string, blanks, punctuation only). Every hit `res` is one of the records added by
    an `add id title rating` call of the sequence, and its displayed title is that raw `title` after Unicode
    composition with NULs removed: nothing is highlighted, nothing else is changed. -/
theorem C12_api_title_is_input (S : Sorter) (hS : SorterOK S) (E : Env)
    (hU : UnicodeFacts E.U E.K) (hT : TablesOK E.T = true) (hSt : StemHyp E) (hK : 1 ≤ E.K.sortFactor)
    (order : List ScoreType) (ops : List ApiOp) (query : List Nat)
    (hq : (tokenizeQuery Gen.srcProg E query).words = []) :
    ∀ res ∈ ((Store.new E.K).run S E.K order (ops.map (ApiOp.toStoreOp Gen.srcProg E))).search S E.K order
        (tokenizeQuery Gen.srcProg E query),
      ∃ title rating, ApiOp.add res.id title rating ∈ ops ∧ res.title = (compose E.T title).filter (· ≠ 0) := by
  intro res hres
  have hinv := StoreInv_reachable S E.K order (ops.map (ApiOp.toStoreOp Gen.srcProg E))
  rw [C12_results S hS E.K hK order _ hinv _ hq] at hres
  obtain ⟨r, hr, rfl⟩ := List.mem_map.mp hres
  have hmem := listed_sub_records S hS E.K hK order hinv _ hq r hr
  rcases run_records_from_add S E.K order _ (Store.new E.K) r hmem with h | h
  · simp [Store.new] at h
  · obtain ⟨op, hop, e⟩ := List.mem_map.mp h
    cases op <;> simp only [ApiOp.toStoreOp, StoreOp.add.injEq, reduceCtorEq] at e
    rename_i id title rating
    obtain ⟨rfl, e2, rfl⟩ := e
    refine ⟨title, r.rating, hop, ?_⟩
    show plainTitle r.title = _
    rw [← e2]
    exact C12_plain_title_tokenized E hU hT hSt title

/-! ### at the constants generated from the source -/

theorem C12_title_is_source_src (S : Sorter) (hS : SorterOK S) (U : Unicode) (T : LangTables) (stem : List Nat → Nat)
    (hU : UnicodeFacts U Gen.srcConsts) (hT : TablesOK T = true) (hSt : StemHyp (Gen.srcProg.env U T stem))
    (ops : List StoreOp)
    (hops : ∀ id t rating, StoreOp.add id t rating ∈ ops →
      ∃ s, t = tokenizeRecord Gen.srcProg (Gen.srcProg.env U T stem) s)
    (q : Text) (hq : q.words = []) :
    let st := (Store.new Gen.srcConsts).run S Gen.srcConsts Gen.srcScoreOrder ops
    st.search S Gen.srcConsts Gen.srcScoreOrder q =
        (st.listed S Gen.srcConsts Gen.srcScoreOrder q).map
          (fun r => ({ id := r.id, title := r.title.source.filter (· ≠ 0) } : Result)) ∧
      ∀ r ∈ st.listed S Gen.srcConsts Gen.srcScoreOrder q, r ∈ st.records ∧
        ∀ s, r.title = tokenizeRecord Gen.srcProg (Gen.srcProg.env U T stem) s →
          r.title.source.filter (· ≠ 0) = (compose T s).filter (· ≠ 0) :=
  C12_title_is_source S hS (Gen.srcProg.env U T stem) hU hT hSt (show 1 ≤ Gen.srcConsts.sortFactor by decide)
    Gen.srcScoreOrder ops hops q hq

theorem C12_api_title_is_input_src (S : Sorter) (hS : SorterOK S) (U : Unicode) (T : LangTables)
    (stem : List Nat → Nat) (hU : UnicodeFacts U Gen.srcConsts) (hT : TablesOK T = true)
    (hSt : StemHyp (Gen.srcProg.env U T stem)) (ops : List ApiOp) (query : List Nat)
    (hq : (tokenizeQuery Gen.srcProg (Gen.srcProg.env U T stem) query).words = []) :
    ∀ res ∈ ((Store.new Gen.srcConsts).run S Gen.srcConsts Gen.srcScoreOrder
          (ops.map (ApiOp.toStoreOp Gen.srcProg (Gen.srcProg.env U T stem)))).search S Gen.srcConsts
        Gen.srcScoreOrder (tokenizeQuery Gen.srcProg (Gen.srcProg.env U T stem) query),
      ∃ title rating, ApiOp.add res.id title rating ∈ ops ∧ res.title = (compose T title).filter (· ≠ 0) :=
  C12_api_title_is_input S hS (Gen.srcProg.env U T stem) hU hT hSt (show 1 ≤ Gen.srcConsts.sortFactor by decide)
    Gen.srcScoreOrder ops query hq

/-! ### non-vacuity: the toy oracle of `C15.lean`, English tables; "Abc def" and "xy" added, query "!" -/

namespace C12bExample
open C03Example

example : (tokenizeQuery Gen.srcProg exEnv [33]).words = [] := by decide +kernel

example : plainTitle (tokenizeRecord Gen.srcProg exEnv [65, 98, 99, 32, 100, 101, 102]) =
    [65, 98, 99, 32, 100, 101, 102] := by
  rw [C12_plain_title_tokenized exEnv toyU_facts tablesOK_en (toyStemHyp _ (by decide))]
  decide +kernel

example : ∀ res ∈ ((Store.new Gen.srcConsts).run mergeSorter Gen.srcConsts Gen.srcScoreOrder
      ([ApiOp.add 42 [65, 98, 99, 32, 100, 101, 102] 7, .search [], .add 43 [120, 121] 9].map
        (ApiOp.toStoreOp Gen.srcProg exEnv))).search mergeSorter Gen.srcConsts Gen.srcScoreOrder
      (tokenizeQuery Gen.srcProg exEnv [33]),
    ∃ title rating, ApiOp.add res.id title rating ∈
        [ApiOp.add 42 [65, 98, 99, 32, 100, 101, 102] 7, .search [], .add 43 [120, 121] 9] ∧
      res.title = (compose Gen.lang_en title).filter (· ≠ 0) :=
  C12_api_title_is_input_src mergeSorter mergeSorter_ok toyU Gen.lang_en toyStem toyU_facts tablesOK_en
    (toyStemHyp _ (by decide)) _ [33] (by decide +kernel)

end C12bExample

end Lucid
