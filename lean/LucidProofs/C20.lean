/-
  C20 — through the top-level API every store id behaves as an independent store.
  Statements only; helper lemmas live in LucidProofs/Lemmas/{Registry,Store}.lean.

  Vocabulary (defined in Lemmas/Registry.lean):
  * `Registry.run S P envs g ops`      — execute the calls `ops` one after the other;
  * `Registry.allValid S P envs g ops` — every call is valid at the moment it is executed (`RegOp.valid`:
                                          no duplicate create, no use of a missing id);
  * `proj P envs id ops`               — `none` if `id` is not live after `ops`, else `some (lang, sops)`: the
                                          language of its last `create` and the calls addressed to it since then,
                                          as stand-alone `StoreOp`s (texts tokenised for `lang`; a
                                          `clearStore id` = `using_store(id, |s| s.clear())` becomes `StoreOp.clear`);
  * `runOne S P sops`                  — `sops` run on `Store::new()`: the stand-alone store;
  * `lastResults S P sops`             — the hits of the last search in `sops`, computed by the stand-alone
                                          store at that moment (`[]` if there was none).
-/
import LucidModel.Gen.Consts
import LucidProofs.Lemmas.Registry

namespace Lucid

/-- ISOLATION. After any sequence of valid top-level calls, for every id: the store map holds nothing for an id
    that is not live, and otherwise exactly the stand-alone store obtained by running only the calls addressed
    to that id since its last `create`; the result buffer holds exactly the hits of the last search run on that
    id since its creation, as computed by that stand-alone store at that moment (`[]` if none). Calls on
    other ids do not occur in either expression. Holds for every sorting routine. -/
theorem C20_isolation (S : Sorter) (P : Prog) (envs : Nat → Env) (ops : List RegOp)
    (hv : Registry.allValid S P envs Registry.empty ops = true) (id : Nat) :
    amGet (Registry.empty.run S P envs ops).stores id =
        (proj P envs id ops).map (fun x => (x.1, runOne S P x.2)) ∧
    amGet (Registry.empty.run S P envs ops).results id =
        (proj P envs id ops).map (fun x => lastResults S P x.2) :=
  Sim_run S P envs id ops Registry.empty none (Sim_empty S P id) hv

/-- `C20_isolation` spelled out for an id that is not live: no store, no buffer. -/
theorem C20_isolation_dead (S : Sorter) (P : Prog) (envs : Nat → Env) (ops : List RegOp)
    (hv : Registry.allValid S P envs Registry.empty ops = true) (id : Nat) (hp : proj P envs id ops = none) :
    amGet (Registry.empty.run S P envs ops).stores id = none ∧
    amGet (Registry.empty.run S P envs ops).results id = none := by
  have := C20_isolation S P envs ops hv id
  rw [hp] at this; exact this

/-- `C20_isolation` spelled out for a live id. -/
theorem C20_isolation_live (S : Sorter) (P : Prog) (envs : Nat → Env) (ops : List RegOp)
    (hv : Registry.allValid S P envs Registry.empty ops = true) (id lang : Nat) (sops : List StoreOp)
    (hp : proj P envs id ops = some (lang, sops)) :
    amGet (Registry.empty.run S P envs ops).stores id = some (lang, runOne S P sops) ∧
    amGet (Registry.empty.run S P envs ops).results id = some (lastResults S P sops) := by
  have := C20_isolation S P envs ops hv id
  rw [hp] at this; exact this

/-- What the buffer holds right after `run_search(id, query)`: exactly what a NEWLY CONSTRUCTED store with the
    same language, the records currently held by `id` (same order), its current limit and markers returns for
    that query (C10 applied to the stand-alone store). -/
theorem C20_search_is_fresh_store (S : Sorter) (P : Prog) (envs : Nat → Env) (ops : List RegOp) (id : Nat)
    (query : List Nat)
    (hv : Registry.allValid S P envs Registry.empty (ops ++ [RegOp.runSearch id query]) = true)
    (lang : Nat) (sops : List StoreOp) (hp : proj P envs id ops = some (lang, sops)) :
    amGet (Registry.empty.run S P envs (ops ++ [RegOp.runSearch id query])).results id =
      some ((Store.rebuild P.K (runOne S P sops)).search S P.K P.order (tokenizeQuery P (envs lang) query)) := by
  have hp' : proj P envs id (ops ++ [RegOp.runSearch id query]) =
      some (lang, sops ++ [StoreOp.search (tokenizeQuery P (envs lang) query)]) := by
    unfold proj projFrom at hp ⊢
    rw [List.foldl_append, hp]
    simp [projStep, RegOp.target]
  rw [(C20_isolation_live S P envs _ hv id lang _ hp').2, lastResults_snoc]
  simp only
  rw [show runOne S P sops = (Store.new P.K).run S P.K P.order sops from rfl,
    ← search_eq_rebuild (StoreInv_reachable S P.K P.order sops)]

/-- A call addressed to another id leaves this id's store and result buffer unchanged (valid call or not). -/
theorem C20_other_id_untouched (S : Sorter) (P : Prog) (envs : Nat → Env) (g : Registry) (op : RegOp) (j : Nat)
    (hj : op.target ≠ j) :
    amGet (g.step S P envs op).stores j = amGet g.stores j ∧
    amGet (g.step S P envs op).results j = amGet g.results j :=
  step_other S P envs g op j hj

/-- The same for any number of calls none of which addresses `j`. -/
theorem C20_other_ids_untouched (S : Sorter) (P : Prog) (envs : Nat → Env) (g : Registry) (ops : List RegOp) (j : Nat)
    (hj : ∀ op ∈ ops, op.target ≠ j) :
    amGet (g.run S P envs ops).stores j = amGet g.stores j ∧
    amGet (g.run S P envs ops).results j = amGet g.results j := by
  induction ops generalizing g with
  | nil => exact ⟨rfl, rfl⟩
  | cons op ops ih =>
    have h1 := step_other S P envs g op j (hj op (by simp))
    have h2 := ih (g.step S P envs op) (fun o ho => hj o (by simp [ho]))
    simp only [Registry.run, List.foldl_cons] at h2 ⊢
    exact ⟨h2.1.trans h1.1, h2.2.trans h1.2⟩

/-- Later `add_record` / `set_limit` / `highlight_with` calls (on any id, the same one included) do not touch
    any result buffer: the buffer keeps the hits of the last search. -/
theorem C20_results_stable (S : Sorter) (P : Prog) (envs : Nat → Env) (g : Registry) (op : RegOp)
    (hop : (∃ id recId title rating, op = .addRecord id recId title rating) ∨ (∃ id n, op = .setLimit id n) ∨
           (∃ id l r, op = .highlightWith id l r)) :
    (g.step S P envs op).results = g.results := by
  unfold Registry.step
  split
  · rfl
  · rcases hop with ⟨_, _, _, _, rfl⟩ | ⟨_, _, rfl⟩ | ⟨_, _, _, rfl⟩ <;> simp only <;> split <;> rfl

/-- CLEARING ONE ID'S STORE (`using_store(id, |s| s.clear())`, reachable through the Rust API only). The call
    * leaves the store of every other id unchanged,
    * leaves the whole result-buffer map unchanged — the buffer of `id` included: it keeps the hits of the last
      `run_search(id, ·)` until the next one, exactly as the Rust code does,
    * replaces the store `st` held for `id` by `Store.clear st` (no records, position counter 0, empty index, no
      cache; limit and markers kept) and keeps the language it was created with,
    * and does nothing at all when `id` has no store (the invalid call).
    Holds in every registry state, for every program, family of environments and sorting routine. -/
theorem C20_clear_isolated (S : Sorter) (P : Prog) (envs : Nat → Env) (g : Registry) (id : Nat) :
    (∀ j, j ≠ id → amGet (g.step S P envs (.clearStore id)).stores j = amGet g.stores j) ∧
    (g.step S P envs (.clearStore id)).results = g.results ∧
    (∀ lang st, amGet g.stores id = some (lang, st) →
      amGet (g.step S P envs (.clearStore id)).stores id = some (lang, st.clear)) ∧
    (amGet g.stores id = none → g.step S P envs (.clearStore id) = g) := by
  refine ⟨fun j hj => (step_other S P envs g (.clearStore id) j (fun e => hj e.symm)).1, ?_, ?_, ?_⟩
  · unfold Registry.step
    split
    · rfl
    · simp only; split <;> rfl
  · intro lang st hs
    simp only [Registry.step, RegOp.valid, hs, Option.isSome_some, Bool.not_true, Bool.false_eq_true, if_false]
    exact amGet_amSet_same _ _ _
  · intro hs
    simp [Registry.step, RegOp.valid, hs]

/-- `C20_clear_isolated` read through the bridge: `get_result_ids` / `get_result_titles` of every id (the cleared one
    included) return after the call what they returned before. -/
theorem C20_clear_bridge_unchanged (S : Sorter) (P : Prog) (envs : Nat → Env) (g : Registry) (id j : Nat) :
    getResultIds (g.step S P envs (.clearStore id)) j = getResultIds g j ∧
    getResultTitles (g.step S P envs (.clearStore id)) j = getResultTitles g j := by
  simp only [getResultIds, getResultTitles, (C20_clear_isolated S P envs g id).2.1, and_self]

/-- A destroyed id can be created again and starts empty: a new store (default limit and markers, no records,
    empty index, no cache) for the requested language and an empty result buffer. -/
theorem C20_recreate_fresh (S : Sorter) (P : Prog) (envs : Nat → Env) (g : Registry) (id lang : Nat) :
    let g' := (g.step S P envs (.destroy id)).step S P envs (.create id lang)
    (RegOp.create id lang).valid (g.step S P envs (.destroy id)) = true →
    amGet g'.stores id = some (lang, Store.new P.K) ∧ amGet g'.results id = some [] := by
  intro g' hv
  simp only [g']
  generalize g.step S P envs (.destroy id) = g1 at hv ⊢
  unfold Registry.step
  simp only [hv, Bool.not_true, Bool.false_eq_true, if_false]
  exact ⟨amGet_amSet_same _ _ _, amGet_amSet_same _ _ _⟩

/-- After a valid `destroy(id)` the id is free: `create(id, ·)` is a valid call again. -/
theorem C20_destroy_frees (S : Sorter) (P : Prog) (envs : Nat → Env) (g : Registry) (id lang : Nat)
    (hv : (RegOp.destroy id).valid g = true) :
    (RegOp.create id lang).valid (g.step S P envs (.destroy id)) = true := by
  have hv' := hv
  simp only [RegOp.valid] at hv'
  simp [Registry.step, RegOp.valid, hv', amGet_amDel_same]

/-- `destroy` then `create` in one statement. -/
theorem C20_recreate_fresh' (S : Sorter) (P : Prog) (envs : Nat → Env) (g : Registry) (id lang : Nat)
    (hv : (RegOp.destroy id).valid g = true) :
    amGet ((g.step S P envs (.destroy id)).step S P envs (.create id lang)).stores id = some (lang, Store.new P.K) ∧
    amGet ((g.step S P envs (.destroy id)).step S P envs (.create id lang)).results id = some [] :=
  C20_recreate_fresh S P envs g id lang (C20_destroy_frees S P envs g id lang hv)

/-! ### the WASM bridge -/

/-- No title returned by a search contains NUL (the last step of `highlight` filters it out). -/
theorem C20_titles_no_nul (S : Sorter) (K : Consts) (order : List ScoreType) (st : Store) (q : Text) :
    ∀ r ∈ st.search S K order q, 0 ∉ r.title := search_titles_no_nul S K order st q

theorem lastResults_no_nul (S : Sorter) (P : Prog) (sops : List StoreOp) : ∀ r ∈ lastResults S P sops, 0 ∉ r.title := by
  unfold lastResults
  have : ∀ (sr : Store × List Result), (∀ r ∈ sr.2, 0 ∉ r.title) →
      ∀ r ∈ (sops.foldl (resStep S P.K P.order) sr).2, 0 ∉ r.title := by
    induction sops with
    | nil => intro sr h; exact h
    | cons op sops ih =>
      intro sr h
      simp only [List.foldl_cons]
      apply ih
      cases op <;> simp only [resStep] <;> first | exact h | exact search_titles_no_nul _ _ _ _ _
  exact this _ (by simp)

/-- Framing, general form: if no buffered title contains NUL, splitting the concatenated string at NUL gives back
    exactly the titles, in order, followed by one empty string (which the JavaScript side discards). -/
theorem C20_bridge_framing (g : Registry) (id : Nat)
    (h : ∀ r ∈ (amGet g.results id).getD [], 0 ∉ r.title) :
    splitNul (getResultTitles g id) = ((amGet g.results id).getD []).map (·.title) ++ [[]] := by
  unfold getResultTitles
  have := splitNul_frames (((amGet g.results id).getD []).map (·.title)) (by simpa using h)
  simpa [List.map_map, Function.comp_def] using this

/-- Framing for every state reachable by valid calls: `get_result_ids` are the ids of the buffered hits and
    `get_result_titles(..).split('\0')` are their titles followed by one empty string – no hypothesis on titles. -/
theorem C20_bridge_reachable (S : Sorter) (P : Prog) (envs : Nat → Env) (ops : List RegOp)
    (hv : Registry.allValid S P envs Registry.empty ops = true) (id lang : Nat) (sops : List StoreOp)
    (hp : proj P envs id ops = some (lang, sops)) :
    getResultIds (Registry.empty.run S P envs ops) id = (lastResults S P sops).map (·.id) ∧
    splitNul (getResultTitles (Registry.empty.run S P envs ops) id) = (lastResults S P sops).map (·.title) ++ [[]] := by
  have hr := (C20_isolation_live S P envs ops hv id lang sops hp).2
  refine ⟨by simp [getResultIds, hr], ?_⟩
  have := C20_bridge_framing (Registry.empty.run S P envs ops) id
    (by rw [hr]; exact lastResults_no_nul S P sops)
  rw [hr] at this
  exact this

/-! ### at the program generated from the source -/

theorem C20_isolation_src (S : Sorter) (envs : Nat → Env) (ops : List RegOp)
    (hv : Registry.allValid S Gen.srcProg envs Registry.empty ops = true) (id : Nat) :
    amGet (Registry.empty.run S Gen.srcProg envs ops).stores id =
        (proj Gen.srcProg envs id ops).map (fun x => (x.1, runOne S Gen.srcProg x.2)) ∧
    amGet (Registry.empty.run S Gen.srcProg envs ops).results id =
        (proj Gen.srcProg envs id ops).map (fun x => lastResults S Gen.srcProg x.2) :=
  C20_isolation S Gen.srcProg envs ops hv id

/-! ### non-vacuity: a valid call sequence with two interleaved ids, a destroy and a re-create -/

private def exS : Sorter := ⟨fun _ l => l⟩
private def exU : Unicode := ⟨fun _ => true, fun _ => false, fun c => c == 32, fun _ => false, fun _ => false, id⟩
private def exEnvs : Nat → Env := fun _ => ⟨exU, Gen.srcConsts, ⟨[], [], [], [], false⟩, fun w => w.length⟩
private def exOps : List RegOp :=
  [.create 1 0, .create 2 0, .addRecord 1 10 [97] 5, .runSearch 1 [], .addRecord 2 20 [98] 1, .setLimit 1 3,
   .highlightWith 2 [60] [62], .destroy 1, .create 1 0, .runSearch 2 [98]]

example : Registry.allValid exS Gen.srcProg exEnvs Registry.empty exOps = true := by decide
example : (proj Gen.srcProg exEnvs 1 exOps).map (·.2.length) = some 0 := by decide
example : (proj Gen.srcProg exEnvs 2 exOps).map (·.2.length) = some 3 := by decide

/-- a valid call list with a `clearStore`: id 1 holds one record and a buffered hit, is cleared (buffer kept, store
    emptied, id 2 untouched), receives another record -/
private def exOpsClear : List RegOp :=
  [.create 1 0, .create 2 0, .addRecord 1 10 [97] 5, .addRecord 2 20 [98] 1, .runSearch 1 [], .clearStore 1,
   .addRecord 1 11 [99] 2]

example : Registry.allValid exS Gen.srcProg exEnvs Registry.empty exOpsClear = true := by decide
example : (proj Gen.srcProg exEnvs 1 exOpsClear).map (·.2) =
    some [.add 10 (tokenizeRecord Gen.srcProg (exEnvs 0) [97]) 5, .search (tokenizeQuery Gen.srcProg (exEnvs 0) []),
      .clear, .add 11 (tokenizeRecord Gen.srcProg (exEnvs 0) [99]) 2] := by decide
example : ((amGet (Registry.empty.run exS Gen.srcProg exEnvs exOpsClear).stores 1).map (·.2.records.map (·.id)),
    (amGet (Registry.empty.run exS Gen.srcProg exEnvs exOpsClear).results 1).map (·.map (·.id))) =
    (some [11], some [10]) := by decide

end Lucid
