/-
  C03b — the findability theorems C03 / C04 / C13 with NO premise about the tokenizer left.

  `C03_prefix_found_tokenized_src`, `C04_single_edit_found_tokenized_src` and `C13_whole_title_found_tokenized_src`
  still assume how the typed text tokenises ("its tokenisation is the single unfinished word … with characters …").
  Here these premises are discharged:
  * for typed texts that are `Stable` (`Lemmas/StableText.lean`: one word in normal form — the tokenizer returns
    it unchanged), in particular for every non-empty text of ASCII letters `a`–`z` and digits in each of the seven
    generated languages (`stable_of_asciiLower`, `asciiFree_*`);
  * for a title typed exactly as it was stored, for ANY text (`tokenize_query_record_same`: the two pipelines cut a
    text into the same words).
  The theorems speak about the raw typed string: the query is `tokenizeQuery Gen.srcProg E p`.
-/
import LucidProofs.C04
import LucidProofs.C13b
import LucidProofs.C14
import LucidProofs.Lemmas.StableText

namespace Lucid

/-! ### the generated language tables have no pure-ASCII keys -/

theorem asciiFree_none : AsciiFreeTables Gen.lang_none = true := by decide
theorem asciiFree_de : AsciiFreeTables Gen.lang_de = true := by decide
theorem asciiFree_en : AsciiFreeTables Gen.lang_en = true := by decide
theorem asciiFree_es : AsciiFreeTables Gen.lang_es = true := by decide
theorem asciiFree_fr : AsciiFreeTables Gen.lang_fr = true := by decide
theorem asciiFree_pt : AsciiFreeTables Gen.lang_pt = true := by decide
theorem asciiFree_ru : AsciiFreeTables Gen.lang_ru = true := by decide

/-- every language of the generated registry list -/
theorem asciiFree_srcLangs : ∀ p ∈ Gen.srcLangs, AsciiFreeTables p.2 = true := by decide

/-! ### C03: typing a prefix of a title word -/

theorem take_take_length {α : Type} (l : List α) (k : Nat) : l.take (l.take k).length = l.take k := by
  rw [List.length_take, List.take_eq_take_iff]
  omega

/-- core: the typed text `p` is stable and is the prefix of `k` characters of the title word -/
theorem C03_typed_core (S : Sorter) (hS : SorterOK S) (E : Env)
    (hU : UnicodeFacts E.U E.K) (hT : TablesOK E.T = true) (hSt : StemHyp E)
    (hC : CostsOK E.K = true) (hN : GateNumsOK E.K = true) (hK : 1 ≤ E.K.sortFactor) (hP : 1 ≤ E.K.prepFactor)
    (order : List ScoreType) (ops : List StoreOp)
    (hops : ∀ id t rating, StoreOp.add id t rating ∈ ops → ∃ s, t = tokenizeRecord Gen.srcProg E s)
    (hlim : ((Store.new E.K).run S E.K order ops).records.length ≤ ((Store.new E.K).run S E.K order ops).limit)
    (ix : Nat) (r : Record) (hr : ((Store.new E.K).run S E.K order ops).records[ix]? = some r)
    (w : WordShape) (hw : w ∈ r.title.words) (k : Nat)
    (hst : Stable E ((wchars r.title w).take k)) :
    ∃ res ∈ ((Store.new E.K).run S E.K order ops).search S E.K order
        (tokenizeQuery Gen.srcProg E ((wchars r.title w).take k)),
      res.id = r.id ∧
      res = ((Store.new E.K).run S E.K order ops).render
              (scoreHit E.K order (tokenizeQuery Gen.srcProg E ((wchars r.title w).take k)) r) := by
  obtain ⟨s', hs'⟩ := reachable_title_tokenized S E E.K order ops hops ix r hr
  have hri : TokInv E false s' r.title := by rw [hs']; exact C15_record_anyK E hU hT hSt s'
  have hwl : (wchars r.title w).length = w.len := (hri.slice_length w hw).1
  refine C03_prefix_found_tokenized S hS E hU hT hSt hC hN hK hP order ops hops hlim ix r hr
    ((wchars r.title w).take k) (stableWord E ((wchars r.title w).take k) false)
    (by rw [tokenizeQuery_stable E _ hst]; rfl) rfl w hw ?_ ?_
  · rw [stableWord_len, List.length_take, hwl]; omega
  · rw [tokenizeQuery_stable E _ hst, wchars_stableText, stableWord_len, take_take_length]

/-- **C03 for the typed string (any constants).** See `C03_prefix_typed_found_src`. -/
theorem C03_prefix_typed_found (S : Sorter) (hS : SorterOK S) (E : Env)
    (hU : UnicodeFacts E.U E.K) (hT : TablesOK E.T = true) (hSt : StemHyp E)
    (hC : CostsOK E.K = true) (hN : GateNumsOK E.K = true) (hK : 1 ≤ E.K.sortFactor) (hP : 1 ≤ E.K.prepFactor)
    (order : List ScoreType) (ops : List StoreOp)
    (hops : ∀ id t rating, StoreOp.add id t rating ∈ ops → ∃ s, t = tokenizeRecord Gen.srcProg E s)
    (hlim : ((Store.new E.K).run S E.K order ops).records.length ≤ ((Store.new E.K).run S E.K order ops).limit)
    (ix : Nat) (r : Record) (hr : ((Store.new E.K).run S E.K order ops).records[ix]? = some r)
    (w : WordShape) (hw : w ∈ r.title.words) (k : Nat) (hk : 1 ≤ k)
    (hlast : ((wchars r.title w).take k).getLast?.map E.U.isAlnum = some true)
    (hcomp : compose E.T ((wchars r.title w).take k) = (wchars r.title w).take k)
    (hred : reduce E.T ((wchars r.title w).take k) = none) :
    ∃ res ∈ ((Store.new E.K).run S E.K order ops).search S E.K order
        (tokenizeQuery Gen.srcProg E ((wchars r.title w).take k)),
      res.id = r.id ∧
      res = ((Store.new E.K).run S E.K order ops).render
              (scoreHit E.K order (tokenizeQuery Gen.srcProg E ((wchars r.title w).take k)) r) := by
  obtain ⟨s', hs'⟩ := reachable_title_tokenized S E E.K order ops hops ix r hr
  have hst : Stable E ((wchars r.title w).take k) := by
    rw [hs'] at hw hlast hcomp hred ⊢
    exact stable_of_title_prefix E hU hT hSt s' w hw k hk hlast hcomp hred
  exact C03_typed_core S hS E hU hT hSt hC hN hK hP order ops hops hlim ix r hr w hw k hst

/-- **C03 for the typed string.** What a user learns: in a store (reached from `Store::new` by any operations,
    titles added through `tokenize_record`) holding no more records than its limit, take a record, a word `w` of its
    tokenised title and `k ≥ 1`. Let `p` be the first `k` characters of the word. If `p` ends in a letter or digit
    and is left unchanged by the language's compose / reduce tables (it does not end inside an accent sequence),
    then **searching for the raw string `p`** returns the record — for the generated constants, pipelines and
    score order, in every language. No premise about the tokenisation of `p` is left, and none about upper-case
    characters: the characters of a stored title are their own lower-case forms (`wchars_title_lower_fixed`),
    which is all the unconditional `TextOwn::lower` (D5 fix) needs to leave `p` alone.
    (`k` may exceed the word length: then `p` is the whole word.) -/
theorem C03_prefix_typed_found_src (S : Sorter) (hS : SorterOK S)
    (U : Unicode) (T : LangTables) (stem : List Nat → Nat)
    (hU : UnicodeFacts U Gen.srcConsts) (hT : TablesOK T = true) (hSt : StemHyp (Gen.srcProg.env U T stem))
    (ops : List StoreOp)
    (hops : ∀ id t rating, StoreOp.add id t rating ∈ ops →
      ∃ s, t = tokenizeRecord Gen.srcProg (Gen.srcProg.env U T stem) s)
    (hlim : ((Store.new Gen.srcConsts).run S Gen.srcConsts Gen.srcScoreOrder ops).records.length
              ≤ ((Store.new Gen.srcConsts).run S Gen.srcConsts Gen.srcScoreOrder ops).limit)
    (ix : Nat) (r : Record)
    (hr : ((Store.new Gen.srcConsts).run S Gen.srcConsts Gen.srcScoreOrder ops).records[ix]? = some r)
    (w : WordShape) (hw : w ∈ r.title.words) (k : Nat) (hk : 1 ≤ k)
    (hlast : ((wchars r.title w).take k).getLast?.map U.isAlnum = some true)
    (hcomp : compose T ((wchars r.title w).take k) = (wchars r.title w).take k)
    (hred : reduce T ((wchars r.title w).take k) = none) :
    ∃ res ∈ ((Store.new Gen.srcConsts).run S Gen.srcConsts Gen.srcScoreOrder ops).search S Gen.srcConsts
        Gen.srcScoreOrder (tokenizeQuery Gen.srcProg (Gen.srcProg.env U T stem) ((wchars r.title w).take k)),
      res.id = r.id ∧
      res = ((Store.new Gen.srcConsts).run S Gen.srcConsts Gen.srcScoreOrder ops).render
              (scoreHit Gen.srcConsts Gen.srcScoreOrder
                (tokenizeQuery Gen.srcProg (Gen.srcProg.env U T stem) ((wchars r.title w).take k)) r) :=
  C03_prefix_typed_found S hS (Gen.srcProg.env U T stem) hU hT hSt costsOK_src gateNumsOK_src
    (show 1 ≤ Gen.srcConsts.sortFactor by decide) (show 1 ≤ Gen.srcConsts.prepFactor by decide) Gen.srcScoreOrder
    ops hops hlim ix r hr w hw k hk hlast hcomp hred

/-- **C03 for ASCII prefixes.** If the first `k ≥ 1` characters of a title word are ASCII lower-case letters or
    digits, typing them returns the record: for the Unicode oracle only the 36 facts of `AsciiFacts` are needed
    beyond `UnicodeFacts`, and the language may be any whose tables have no pure-ASCII key (`asciiFree_none` …
    `asciiFree_ru`: all seven generated languages). -/
theorem C03_prefix_ascii_found_src (S : Sorter) (hS : SorterOK S)
    (U : Unicode) (T : LangTables) (stem : List Nat → Nat)
    (hU : UnicodeFacts U Gen.srcConsts) (hA : AsciiFacts U) (hT : TablesOK T = true)
    (hF : AsciiFreeTables T = true) (hSt : StemHyp (Gen.srcProg.env U T stem))
    (ops : List StoreOp)
    (hops : ∀ id t rating, StoreOp.add id t rating ∈ ops →
      ∃ s, t = tokenizeRecord Gen.srcProg (Gen.srcProg.env U T stem) s)
    (hlim : ((Store.new Gen.srcConsts).run S Gen.srcConsts Gen.srcScoreOrder ops).records.length
              ≤ ((Store.new Gen.srcConsts).run S Gen.srcConsts Gen.srcScoreOrder ops).limit)
    (ix : Nat) (r : Record)
    (hr : ((Store.new Gen.srcConsts).run S Gen.srcConsts Gen.srcScoreOrder ops).records[ix]? = some r)
    (w : WordShape) (hw : w ∈ r.title.words) (k : Nat) (hk : 1 ≤ k)
    (hascii : AsciiLower ((wchars r.title w).take k)) :
    ∃ res ∈ ((Store.new Gen.srcConsts).run S Gen.srcConsts Gen.srcScoreOrder ops).search S Gen.srcConsts
        Gen.srcScoreOrder (tokenizeQuery Gen.srcProg (Gen.srcProg.env U T stem) ((wchars r.title w).take k)),
      res.id = r.id ∧
      res = ((Store.new Gen.srcConsts).run S Gen.srcConsts Gen.srcScoreOrder ops).render
              (scoreHit Gen.srcConsts Gen.srcScoreOrder
                (tokenizeQuery Gen.srcProg (Gen.srcProg.env U T stem) ((wchars r.title w).take k)) r) := by
  obtain ⟨s', hs'⟩ := reachable_title_tokenized S (Gen.srcProg.env U T stem) Gen.srcConsts Gen.srcScoreOrder ops
    hops ix r hr
  have hri : TokInv (Gen.srcProg.env U T stem) false s' r.title := by
    rw [hs']; exact C15_record_anyK _ hU hT hSt s'
  have hne : (wchars r.title w).take k ≠ [] := by
    intro e
    rw [List.take_eq_nil_iff] at e
    have := hri.slice_length w hw
    rcases e with e | e
    · omega
    · simp only [wchars] at e; rw [e] at this; simp at this; omega
  exact C03_typed_core S hS (Gen.srcProg.env U T stem) hU hT hSt costsOK_src gateNumsOK_src
    (show 1 ≤ Gen.srcConsts.sortFactor by decide) (show 1 ≤ Gen.srcConsts.prepFactor by decide) Gen.srcScoreOrder
    ops hops hlim ix r hr w hw k
    (stable_of_asciiLower (Gen.srcProg.env U T stem) rfl hA hF _ hascii hne)

/-! ### C04: typing a title word with one typing error -/

/-- **C04 for the typed string (any constants).** -/
theorem C04_single_edit_typed_found (S : Sorter) (hS : SorterOK S) (E : Env)
    (hU : UnicodeFacts E.U E.K) (hTb : TablesOK E.T = true) (hSt : StemHyp E)
    (hC : CostsOK E.K = true) (hT : TypoNumsOK E.K = true) (hK : 1 ≤ E.K.sortFactor) (hP : 1 ≤ E.K.prepFactor)
    (order : List ScoreType) (ops : List StoreOp)
    (hops : ∀ id t rating, StoreOp.add id t rating ∈ ops → ∃ s, t = tokenizeRecord Gen.srcProg E s)
    (hlim : ((Store.new E.K).run S E.K order ops).records.length ≤ ((Store.new E.K).run S E.K order ops).limit)
    (ix : Nat) (r : Record) (hr : ((Store.new E.K).run S E.K order ops).records[ix]? = some r)
    (w : WordShape) (hw : w ∈ r.title.words) (h5 : 5 ≤ w.len) (h3 : 3 ≤ distinctCard (wchars r.title w))
    (cs' : List Nat) (hst : Stable E cs') (hed : Edit1 (wchars r.title w) cs') :
    ∃ res ∈ ((Store.new E.K).run S E.K order ops).search S E.K order (tokenizeQuery Gen.srcProg E cs'),
      res.id = r.id ∧
      res = ((Store.new E.K).run S E.K order ops).render (scoreHit E.K order (tokenizeQuery Gen.srcProg E cs') r) :=
  C04_single_edit_found_tokenized S hS E hU hTb hSt hC hT hK hP order ops hops hlim ix r hr cs'
    (stableWord E cs' false) (by rw [tokenizeQuery_stable E _ hst]; rfl) rfl w hw h5 h3
    (by rw [tokenizeQuery_stable E _ hst, wchars_stableText]; exact hed)

/-- **C04 for the typed string.** What a user learns: in a store holding no more records than its limit, take a
    word of a record's tokenised title with at least five characters, three of them distinct, and make ONE typing
    error in it (substitute, insert, delete a character, or swap two adjacent ones). If the misspelt word `cs'` is
    `Stable` (one word in normal form: no separator, letter/digit at both ends, every character its own lower-case
    form, untouched by the language's tables), **searching for the raw string `cs'`** returns the record, in every language. -/
theorem C04_single_edit_typed_found_src (S : Sorter) (hS : SorterOK S)
    (U : Unicode) (T : LangTables) (stem : List Nat → Nat)
    (hU : UnicodeFacts U Gen.srcConsts) (hTb : TablesOK T = true) (hSt : StemHyp (Gen.srcProg.env U T stem))
    (ops : List StoreOp)
    (hops : ∀ id t rating, StoreOp.add id t rating ∈ ops →
      ∃ s, t = tokenizeRecord Gen.srcProg (Gen.srcProg.env U T stem) s)
    (hlim : ((Store.new Gen.srcConsts).run S Gen.srcConsts Gen.srcScoreOrder ops).records.length
              ≤ ((Store.new Gen.srcConsts).run S Gen.srcConsts Gen.srcScoreOrder ops).limit)
    (ix : Nat) (r : Record)
    (hr : ((Store.new Gen.srcConsts).run S Gen.srcConsts Gen.srcScoreOrder ops).records[ix]? = some r)
    (w : WordShape) (hw : w ∈ r.title.words) (h5 : 5 ≤ w.len) (h3 : 3 ≤ distinctCard (wchars r.title w))
    (cs' : List Nat) (hst : Stable (Gen.srcProg.env U T stem) cs') (hed : Edit1 (wchars r.title w) cs') :
    ∃ res ∈ ((Store.new Gen.srcConsts).run S Gen.srcConsts Gen.srcScoreOrder ops).search S Gen.srcConsts
        Gen.srcScoreOrder (tokenizeQuery Gen.srcProg (Gen.srcProg.env U T stem) cs'),
      res.id = r.id ∧
      res = ((Store.new Gen.srcConsts).run S Gen.srcConsts Gen.srcScoreOrder ops).render
              (scoreHit Gen.srcConsts Gen.srcScoreOrder (tokenizeQuery Gen.srcProg (Gen.srcProg.env U T stem) cs') r) :=
  C04_single_edit_typed_found S hS (Gen.srcProg.env U T stem) hU hTb hSt costsOK_src typoNumsOK_src
    (show 1 ≤ Gen.srcConsts.sortFactor by decide) (show 1 ≤ Gen.srcConsts.prepFactor by decide) Gen.srcScoreOrder
    ops hops hlim ix r hr w hw h5 h3 cs' hst hed

/-- **C04 for ASCII misspellings**: the misspelt word consists of ASCII lower-case letters / digits. -/
theorem C04_single_edit_ascii_found_src (S : Sorter) (hS : SorterOK S)
    (U : Unicode) (T : LangTables) (stem : List Nat → Nat)
    (hU : UnicodeFacts U Gen.srcConsts) (hA : AsciiFacts U) (hTb : TablesOK T = true)
    (hF : AsciiFreeTables T = true) (hSt : StemHyp (Gen.srcProg.env U T stem))
    (ops : List StoreOp)
    (hops : ∀ id t rating, StoreOp.add id t rating ∈ ops →
      ∃ s, t = tokenizeRecord Gen.srcProg (Gen.srcProg.env U T stem) s)
    (hlim : ((Store.new Gen.srcConsts).run S Gen.srcConsts Gen.srcScoreOrder ops).records.length
              ≤ ((Store.new Gen.srcConsts).run S Gen.srcConsts Gen.srcScoreOrder ops).limit)
    (ix : Nat) (r : Record)
    (hr : ((Store.new Gen.srcConsts).run S Gen.srcConsts Gen.srcScoreOrder ops).records[ix]? = some r)
    (w : WordShape) (hw : w ∈ r.title.words) (h5 : 5 ≤ w.len) (h3 : 3 ≤ distinctCard (wchars r.title w))
    (cs' : List Nat) (hascii : AsciiLower cs') (hed : Edit1 (wchars r.title w) cs') :
    ∃ res ∈ ((Store.new Gen.srcConsts).run S Gen.srcConsts Gen.srcScoreOrder ops).search S Gen.srcConsts
        Gen.srcScoreOrder (tokenizeQuery Gen.srcProg (Gen.srcProg.env U T stem) cs'),
      res.id = r.id ∧
      res = ((Store.new Gen.srcConsts).run S Gen.srcConsts Gen.srcScoreOrder ops).render
              (scoreHit Gen.srcConsts Gen.srcScoreOrder (tokenizeQuery Gen.srcProg (Gen.srcProg.env U T stem) cs') r) := by
  obtain ⟨s', hs'⟩ := reachable_title_tokenized S (Gen.srcProg.env U T stem) Gen.srcConsts Gen.srcScoreOrder ops
    hops ix r hr
  have hri : TokInv (Gen.srcProg.env U T stem) false s' r.title := by
    rw [hs']; exact C15_record_anyK _ hU hTb hSt s'
  have hne : cs' ≠ [] := by
    intro e
    have hl := hed.length_ge
    have hwl : (wchars r.title w).length = w.len := (hri.slice_length w hw).1
    rw [e, hwl] at hl
    simp at hl; omega
  exact C04_single_edit_typed_found_src S hS U T stem hU hTb hSt ops hops hlim ix r hr w hw h5 h3 cs'
    (stable_of_asciiLower (Gen.srcProg.env U T stem) rfl hA hF cs' hascii hne) hed

/-! ### C13: typing the title as it was stored -/

/-- **C13 for the typed string (any constants).** -/
theorem C13_whole_title_typed (S : Sorter) (hS : SorterOK S) (E : Env)
    (hU : UnicodeFacts E.U E.K) (hT : TablesOK E.T = true) (hSt : StemHyp E)
    (hC : CostsOK E.K = true) (hN : GateNumsOK E.K = true) (hK : 1 ≤ E.K.sortFactor) (hP : 1 ≤ E.K.prepFactor)
    (order : List ScoreType) (ops : List StoreOp)
    (hops : ∀ id t rating, StoreOp.add id t rating ∈ ops → ∃ s, t = tokenizeRecord Gen.srcProg E s)
    (hlim : ((Store.new E.K).run S E.K order ops).records.length ≤ ((Store.new E.K).run S E.K order ops).limit)
    (ix : Nat) (r : Record) (hr : ((Store.new E.K).run S E.K order ops).records[ix]? = some r)
    (s : List Nat) (htitle : r.title = tokenizeRecord Gen.srcProg E s) (hne : r.title.words ≠ []) :
    ∃ res ∈ ((Store.new E.K).run S E.K order ops).search S E.K order (tokenizeQuery Gen.srcProg E s),
      res.id = r.id ∧
      res = ((Store.new E.K).run S E.K order ops).render (scoreHit E.K order (tokenizeQuery Gen.srcProg E s) r) :=
  C13_whole_title_found_tokenized S hS E hU hT hSt hC hN hK hP order ops hops hlim ix r hr hne s
    (by rw [htitle]; exact (tokenize_query_record_same E hT s).2.2)

/-- **C13 for the typed string.** What a user learns: in a store holding no more records than its limit, if a
    record was added with the title text `s` (any text whatsoever: several words, capitals, accents, punctuation)
    and that title has at least one word, then **typing exactly `s`** returns the record, in every language. No
    premise about the tokenisation is left: the query pipeline and the record pipeline cut `s` into the same
    words. In particular this covers titles that are `Stable` words joined by single spaces. -/
theorem C13_whole_title_typed_src (S : Sorter) (hS : SorterOK S)
    (U : Unicode) (T : LangTables) (stem : List Nat → Nat)
    (hU : UnicodeFacts U Gen.srcConsts) (hT : TablesOK T = true) (hSt : StemHyp (Gen.srcProg.env U T stem))
    (ops : List StoreOp)
    (hops : ∀ id t rating, StoreOp.add id t rating ∈ ops →
      ∃ s, t = tokenizeRecord Gen.srcProg (Gen.srcProg.env U T stem) s)
    (hlim : ((Store.new Gen.srcConsts).run S Gen.srcConsts Gen.srcScoreOrder ops).records.length
              ≤ ((Store.new Gen.srcConsts).run S Gen.srcConsts Gen.srcScoreOrder ops).limit)
    (ix : Nat) (r : Record)
    (hr : ((Store.new Gen.srcConsts).run S Gen.srcConsts Gen.srcScoreOrder ops).records[ix]? = some r)
    (s : List Nat) (htitle : r.title = tokenizeRecord Gen.srcProg (Gen.srcProg.env U T stem) s)
    (hne : r.title.words ≠ []) :
    ∃ res ∈ ((Store.new Gen.srcConsts).run S Gen.srcConsts Gen.srcScoreOrder ops).search S Gen.srcConsts
        Gen.srcScoreOrder (tokenizeQuery Gen.srcProg (Gen.srcProg.env U T stem) s),
      res.id = r.id ∧
      res = ((Store.new Gen.srcConsts).run S Gen.srcConsts Gen.srcScoreOrder ops).render
              (scoreHit Gen.srcConsts Gen.srcScoreOrder (tokenizeQuery Gen.srcProg (Gen.srcProg.env U T stem) s) r) :=
  C13_whole_title_typed S hS (Gen.srcProg.env U T stem) hU hT hSt costsOK_src gateNumsOK_src
    (show 1 ≤ Gen.srcConsts.sortFactor by decide) (show 1 ≤ Gen.srcConsts.prepFactor by decide) Gen.srcScoreOrder
    ops hops hlim ix r hr s htitle hne

/-! ### C14: typing two adjacent title words run together -/

/-- **C14 (run-together spelling) for the typed string.** What a user learns: two adjacent words `w1 w2` of a stored
    title, separated by exactly one separator character that the language's consonant/vowel table does not list,
    at least three characters in all. If the run-together spelling `w1w2` is `Stable` (automatic for ASCII
    lower-case letters / digits, `stable_of_asciiLower`) and stemming leaves it whole (`hstemq`; vacuous for a
    language without stemmer), then **searching for the raw string `w1w2`** returns the record. The remaining
    premises are about the stored title only. -/
theorem C14_joined_typed_found_src (S : Sorter) (hS : SorterOK S)
    (U : Unicode) (T : LangTables) (stem : List Nat → Nat)
    (hU : UnicodeFacts U Gen.srcConsts) (hT : TablesOK T = true) (hSt : StemHyp (Gen.srcProg.env U T stem))
    (ops : List StoreOp)
    (hops : ∀ id t rating, StoreOp.add id t rating ∈ ops →
      ∃ s, t = tokenizeRecord Gen.srcProg (Gen.srcProg.env U T stem) s)
    (hlim : ((Store.new Gen.srcConsts).run S Gen.srcConsts Gen.srcScoreOrder ops).records.length
              ≤ ((Store.new Gen.srcConsts).run S Gen.srcConsts Gen.srcScoreOrder ops).limit)
    (ix : Nat) (r : Record)
    (hr : ((Store.new Gen.srcConsts).run S Gen.srcConsts Gen.srcScoreOrder ops).records[ix]? = some r)
    (w1 w2 : WordShape) (hw1 : w1 ∈ r.title.words) (hnext : r.title.words[w1.offset + 1]? = some w2)
    (hadj : w2.lo = w1.hi + 1) (sep : Nat) (hsep : r.title.chars[w1.hi]? = some sep)
    (hsepS : isSepChar U Gen.srcConsts sep = true) (hsepT : getCharClass T sep = none)
    (hL : 3 ≤ w1.len + w2.len)
    (hst : Stable (Gen.srcProg.env U T stem) (wchars r.title w1 ++ wchars r.title w2))
    (hstemq : T.stemmer = true →
      stem (wchars r.title w1 ++ wchars r.title w2) = (wchars r.title w1 ++ wchars r.title w2).length) :
    ∃ res ∈ ((Store.new Gen.srcConsts).run S Gen.srcConsts Gen.srcScoreOrder ops).search S Gen.srcConsts
        Gen.srcScoreOrder
        (tokenizeQuery Gen.srcProg (Gen.srcProg.env U T stem) (wchars r.title w1 ++ wchars r.title w2)),
      res.id = r.id ∧
      res = ((Store.new Gen.srcConsts).run S Gen.srcConsts Gen.srcScoreOrder ops).render
              (scoreHit Gen.srcConsts Gen.srcScoreOrder
                (tokenizeQuery Gen.srcProg (Gen.srcProg.env U T stem) (wchars r.title w1 ++ wchars r.title w2)) r) := by
  obtain ⟨s', hs'⟩ := reachable_title_tokenized S (Gen.srcProg.env U T stem) Gen.srcConsts Gen.srcScoreOrder ops
    hops ix r hr
  have hri : TokInv (Gen.srcProg.env U T stem) false s' r.title := by
    rw [hs']; exact C15_record_anyK _ hU hT hSt s'
  have hw2 : w2 ∈ r.title.words := List.mem_of_getElem? hnext
  have hl1 : (wchars r.title w1).length = w1.len := (hri.slice_length w1 hw1).1
  have hl2 : (wchars r.title w2).length = w2.len := (hri.slice_length w2 hw2).1
  refine C14_joined_found_tokenized_src S hS U T stem hU hT hSt ops hops hlim ix r hr
    (wchars r.title w1 ++ wchars r.title w2)
    (stableWord (Gen.srcProg.env U T stem) (wchars r.title w1 ++ wchars r.title w2) false)
    (by rw [tokenizeQuery_stable _ _ hst]; rfl) ?_ ?_ w1 w2 hw1 hnext hadj sep hsep hsepS hsepT
    (by rw [tokenizeQuery_stable _ _ hst, wchars_stableText])
  · rw [stableWord_len, List.length_append, hl1, hl2]; exact hL
  · rw [stableWord_len]
    show (if T.stemmer = true then stem (wchars r.title w1 ++ wchars r.title w2)
      else (wchars r.title w1 ++ wchars r.title w2).length) = _
    split
    · exact hstemq ‹_›
    · rfl

namespace C03bExample
open C13Example C03Example C04Example

/-! ### non-vacuity -/

def exRec : Record :=
  { ix := 0, id := 42, title := tokenizeRecord Gen.srcProg exEnv [65, 98, 99, 32, 100, 101, 102], rating := 7 }

def exW : WordShape := { offset := 1, lo := 4, hi := 7, stem := 2, pos := none, fin := true }

theorem exOps_tok : ∀ id t rating, StoreOp.add id t rating ∈ exOps → ∃ s, t = tokenizeRecord Gen.srcProg exEnv s := by
  intro id t rating hm
  simp only [exOps, List.mem_cons, StoreOp.add.injEq, List.not_mem_nil, or_false, reduceCtorEq] at hm
  exact ⟨_, hm.2.1⟩

theorem exW_chars : wchars exRec.title exW = [100, 101, 102] := by decide +kernel

/-- the hypotheses of `C03_prefix_ascii_found_src` are met by the store of `C03Example` ("Abc def" added, one
    search, limit lowered to 5): typing the raw strings "d", "de", "def" returns record 42 (toy ASCII oracle,
    English tables) -/
example (p : List Nat) (hp : p = [100] ∨ p = [100, 101] ∨ p = [100, 101, 102]) :
    ∃ res ∈ ((Store.new Gen.srcConsts).run exSorter Gen.srcConsts Gen.srcScoreOrder exOps).search exSorter
        Gen.srcConsts Gen.srcScoreOrder (tokenizeQuery Gen.srcProg exEnv p), res.id = 42 := by
  have key := fun k hk ha =>
    C03_prefix_ascii_found_src exSorter exSorter_ok toyU Gen.lang_en toyStem toyU_facts toyU_asciiFacts tablesOK_en
      asciiFree_en (toyStemHyp _ (by decide)) exOps exOps_tok (by decide +kernel) 0 exRec (by decide +kernel)
      exW (by decide +kernel) k hk ha
  rcases hp with rfl | rfl | rfl
  · obtain ⟨res, h1, h2, _⟩ := key 1 (by decide) (by rw [exW_chars]; decide)
    rw [exW_chars] at h1; exact ⟨res, h1, h2⟩
  · obtain ⟨res, h1, h2, _⟩ := key 2 (by decide) (by rw [exW_chars]; decide)
    rw [exW_chars] at h1; exact ⟨res, h1, h2⟩
  · obtain ⟨res, h1, h2, _⟩ := key 3 (by decide) (by rw [exW_chars]; decide)
    rw [exW_chars] at h1; exact ⟨res, h1, h2⟩

/-- German tables: the title "Straße" is stored as "strasse" -/
def deEnv : Env := Gen.srcProg.env toyU Gen.lang_de toyStem
def deOps : List StoreOp := [.add 9 (tokenizeRecord Gen.srcProg deEnv [83, 116, 114, 97, 223, 101]) 0]
def deRec : Record :=
  { ix := 0, id := 9, title := tokenizeRecord Gen.srcProg deEnv [83, 116, 114, 97, 223, 101], rating := 0 }
def deW : WordShape := { offset := 0, lo := 0, hi := 7, stem := 4, pos := none, fin := true }
theorem deW_chars : wchars deRec.title deW = [115, 116, 114, 97, 115, 115, 101] := by decide +kernel

/-- the hypotheses of `C03_prefix_typed_found_src` are met: typing "stras" finds "Straße" -/
example : ∃ res ∈ ((Store.new Gen.srcConsts).run exSorter Gen.srcConsts Gen.srcScoreOrder deOps).search exSorter
    Gen.srcConsts Gen.srcScoreOrder (tokenizeQuery Gen.srcProg deEnv [115, 116, 114, 97, 115]), res.id = 9 := by
  have hops : ∀ id t rating, StoreOp.add id t rating ∈ deOps → ∃ s, t = tokenizeRecord Gen.srcProg deEnv s := by
    intro id t rating hm
    simp only [deOps, List.mem_cons, StoreOp.add.injEq, List.not_mem_nil, or_false] at hm
    exact ⟨_, hm.2.1⟩
  obtain ⟨res, h1, h2, _⟩ :=
    C03_prefix_typed_found_src exSorter exSorter_ok toyU Gen.lang_de toyStem toyU_facts tablesOK_de
      (toyStemHyp _ (by decide)) deOps hops (by decide +kernel) 0 deRec (by decide +kernel) deW (by decide +kernel)
      5 (by decide) (by rw [deW_chars]; decide +kernel) (by rw [deW_chars]; decide +kernel)
      (by rw [deW_chars]; decide +kernel)
  rw [deW_chars] at h1
  exact ⟨res, h1, h2⟩

def pRec : Record :=
  { ix := 0, id := 7, title := tokenizeRecord Gen.srcProg exEnv [66, 108, 117, 101, 32, 112, 108, 97, 110, 101, 116],
    rating := 3 }
theorem pWord_chars : wchars pRec.title pWord = [112, 108, 97, 110, 101, 116] := by decide +kernel

/-- the hypotheses of `C04_single_edit_ascii_found_src` are met: typing the raw string "plonet" finds "Blue planet" -/
example : ∃ res ∈ ((Store.new Gen.srcConsts).run exSorter Gen.srcConsts Gen.srcScoreOrder pOps).search exSorter
    Gen.srcConsts Gen.srcScoreOrder (tokenizeQuery Gen.srcProg exEnv [112, 108, 111, 110, 101, 116]), res.id = 7 := by
  have hops : ∀ id t rating, StoreOp.add id t rating ∈ pOps → ∃ s, t = tokenizeRecord Gen.srcProg exEnv s := by
    intro id t rating hm
    simp only [pOps, List.mem_cons, StoreOp.add.injEq, List.not_mem_nil, or_false, reduceCtorEq] at hm
    exact ⟨_, hm.2.1⟩
  obtain ⟨res, h1, h2, _⟩ :=
    C04_single_edit_ascii_found_src exSorter exSorter_ok toyU Gen.lang_en toyStem toyU_facts toyU_asciiFacts
      tablesOK_en asciiFree_en (toyStemHyp _ (by decide)) pOps hops (by decide +kernel) 0 pRec (by decide +kernel)
      pWord (by decide +kernel) (by decide) (by rw [pWord_chars]; decide) [112, 108, 111, 110, 101, 116] (by decide)
      (by rw [pWord_chars]; exact Edit1.sub [112, 108] [110, 101, 116] 97 111 (by decide))
  exact ⟨res, h1, h2⟩

/-- the hypotheses of `C13_whole_title_typed_src` are met: typing "Abc def" (capital included) finds "Abc def" -/
example : ∃ res ∈ ((Store.new Gen.srcConsts).run exSorter Gen.srcConsts Gen.srcScoreOrder exOps).search exSorter
    Gen.srcConsts Gen.srcScoreOrder (tokenizeQuery Gen.srcProg exEnv [65, 98, 99, 32, 100, 101, 102]), res.id = 42 := by
  obtain ⟨res, h1, h2, _⟩ :=
    C13_whole_title_typed_src exSorter exSorter_ok toyU Gen.lang_en toyStem toyU_facts tablesOK_en
      (toyStemHyp _ (by decide)) exOps exOps_tok (by decide +kernel) 0 exRec (by decide +kernel)
      [65, 98, 99, 32, 100, 101, 102] rfl (by decide +kernel)
  exact ⟨res, h1, h2⟩

/-- the hypotheses of `C14_joined_typed_found_src` are met by the store of `C14Example` ("Ab c", "Abc def";
    `lang_none`): typing the raw string "abcdef" finds "Abc def" -/
example :
    ∃ res ∈ ((Store.new Gen.srcConsts).run exSorter Gen.srcConsts Gen.srcScoreOrder C14Example.exOpsJ).search exSorter
        Gen.srcConsts Gen.srcScoreOrder (tokenizeQuery Gen.srcProg C14Example.exEnvN [97, 98, 99, 100, 101, 102]),
      res.id = 9 := by
  obtain ⟨res, h1, h2, _⟩ :=
    C14_joined_typed_found_src exSorter exSorter_ok toyU Gen.lang_none toyStem toyU_facts tablesOK_none
      (stemHyp_of_no_stemmer _ rfl) C14Example.exOpsJ C14Example.exOpsJ_ok (by decide +kernel) 1
      { ix := 1, id := 9, title := tokenizeRecord Gen.srcProg C14Example.exEnvN [65, 98, 99, 32, 100, 101, 102],
        rating := 1 }
      (by decide +kernel)
      { offset := 0, lo := 0, hi := 3, stem := 3, pos := none, fin := true }
      { offset := 1, lo := 4, hi := 7, stem := 3, pos := none, fin := true }
      (by decide +kernel) (by decide +kernel) (by decide) 32 (by decide +kernel) (by decide) (by decide +kernel)
      (by decide) (by decide +kernel) (by intro h; cases h)
  have e : wchars (tokenizeRecord Gen.srcProg C14Example.exEnvN [65, 98, 99, 32, 100, 101, 102])
        { offset := 0, lo := 0, hi := 3, stem := 3, pos := none, fin := true } ++
      wchars (tokenizeRecord Gen.srcProg C14Example.exEnvN [65, 98, 99, 32, 100, 101, 102])
        { offset := 1, lo := 4, hi := 7, stem := 3, pos := none, fin := true } = [97, 98, 99, 100, 101, 102] := by
    decide +kernel
  simp only [e] at h1
  exact ⟨res, h1, h2⟩

end C03bExample

end Lucid
