/-
  C08 — documented ranking priorities hold regardless of rating.
  "For words u, v (unrelated to each other) and an unrelated filler x: an exact title word outranks the same word
  with a typo; a title containing both query words outranks one containing only one; the title 'u' outranks 'u'
  with extra trailing letters, for the full word and for any typed prefix of it; 'u v x' outranks 'u x v' for the
  query 'u v'; 'u x' outranks 'x u' for the query 'u' - all of these whatever the ratings. Among identical titles
  the higher rating comes first, and at equal rating the title 'u' outranks 'u x'. When the query is a function
  word f of the store's language, a title with a content word that starts with f outranks a title containing f
  itself, whatever the ratings."

  `Outranks h1 h2` (`Lemmas/RankShapes.lean`) = `hitLe h1 h2 = true ∧ hitLe h2 h1 = false`: strictly before in
  the order the results are sorted by. Every theorem is stated for the score order GENERATED from the source
  (`Gen.srcScoreOrder = [chars, words, tails, trans, fin, offset, rating, wordLen, charLen]`) and walks down that
  vector component by component (`strict_cons_eq` / `strict_cons_gt`), so a reordering in the source breaks the
  proofs. Titles and queries are arbitrary `Text`s satisfying the tokenizer guarantee `TextOK` whose word
  structure is fixed by hypotheses on the character lists of the words:
  * `Typed rt w qt v` — the query word `v` is typed text for the title word `w`: an unfinished prefix of it or the
    finished whole word, stems within the words (`Lemmas/RankShapes.lean`);
  * `a.hi < b.lo` — consecutive words are separated by at least one character (the tokenizer splits on
    separators, so every tokenised text has this; `TextOK` alone only gives `≤`);
  * "disjoint alphabets" — `∀ c ∈ wchars title x, c ∉ wchars query v`;
  * content word — `isFunc K w.pos = false`.
  Numeric hypotheses: `CostsOK K`, `GateNumsOK K`, `JacCapOK K` (`JACCARD_THRESHOLD ≤ 1`), all decided at
  `Gen.srcConsts` (`_src` corollaries). No hypothesis on the ratings except in (f1)/(f2).

  Observation made while proving (e)/(d) (model evaluated with `#eval`, constants of the source): for the title
  "i absolute" and the query "absolute" the joined-record-words closure of `text_match` fires on the filler
  ("i absolut" is within distance 1.5 of "absolute"), leaving the matches `i` (typos 0.2) and `absolut`
  (typos 1.3) and the score vector `[2, 2, -1, 0, 0, 0, …]` instead of the exact match of "absolute" at offset 1
  (`[8, 1, 0, 0, 1, -1, …]`). Rules (e) and (d) still hold in that case (`chars` decides instead of
  `offset` / `trans`); the theorems below cover both branches (`join_chars_lt`).
-/
import LucidProofs.Lemmas.RankShapes

namespace Lucid

/-- **C08 (f1): among identical titles the higher rating comes first.** Two records with the same title are
    scored identically by `text_match` for every query; all score components before `rating` coincide and the
    rating decides. -/
theorem C08_identical_titles_rating (K : Consts) (q : Text) (r1 r2 : Record)
    (htitle : r1.title = r2.title) (hrating : r2.rating < r1.rating) :
    Outranks (scoreHit K Gen.srcScoreOrder q r1) (scoreHit K Gen.srcScoreOrder q r2) := by
  rw [outranks_iff, htitle]
  simp only [Gen.srcScoreOrder, List.map, scoreOf]
  refine strict_cons_eq rfl (strict_cons_eq rfl (strict_cons_eq rfl (strict_cons_eq rfl (strict_cons_eq rfl
    (strict_cons_eq rfl (strict_cons_gt ?_))))))
  omega

theorem C08_identical_titles_rating_src (q : Text) (r1 r2 : Record)
    (htitle : r1.title = r2.title) (hrating : r2.rating < r1.rating) :
    Outranks (scoreHit Gen.srcConsts Gen.srcScoreOrder q r1) (scoreHit Gen.srcConsts Gen.srcScoreOrder q r2) :=
  C08_identical_titles_rating Gen.srcConsts q r1 r2 htitle hrating

/-- non-vacuity of (f1): the same title "hello" with ratings 5 and 3, query "hel" -/
example : Outranks
    (scoreHit Gen.srcConsts Gen.srcScoreOrder C05Example.exQ { ix := 0, id := 7, title := C05Example.exT, rating := 5 })
    (scoreHit Gen.srcConsts Gen.srcScoreOrder C05Example.exQ { ix := 1, id := 8, title := C05Example.exT, rating := 3 }) :=
  C08_identical_titles_rating _ _ _ _ rfl (by decide)

/-- **C08 (c): the title 'u' outranks 'u' with extra trailing letters, for the full word and for any typed prefix
    of it, whatever the ratings.** One-word titles `w1` (characters `u`) and `w2` (characters `u ++ tail`,
    `tail ≠ []`), one-word query `v` that is typed text for `w1` (an unfinished prefix `u.take k`, `1 ≤ k ≤ |u|`,
    or the finished word), `w1` a content word. Both titles match the same `k` characters with no typos, so
    `chars` ties; `words` ties or favours `w1`; then `tails` decides: `-(|u|-k) > -(|u|+|tail|-k)`. -/
theorem C08_word_beats_longer_word (K : Consts) (hK : CostsOK K = true) (hN : GateNumsOK K = true)
    (q : Text) (r1 r2 : Record) (w1 w2 v : WordShape)
    (h1 : TextOK r1.title) (h2 : TextOK r2.title) (hq : TextOK q)
    (hw1 : r1.title.words = [w1]) (hw2 : r2.title.words = [w2]) (hqw : q.words = [v])
    (hunfin : v.fin = false)
    (htyped : Typed r1.title w1 q v)
    (hlong : wchars r1.title w1 = (wchars r2.title w2).take w1.len) (htail : w1.len < w2.len)
    (hcontent : isFunc K w1.pos = false) :
    Outranks (scoreHit K Gen.srcScoreOrder q r1) (scoreHit K Gen.srcScoreOrder q r2) := by
  have hw1In : w1 ∈ r1.title.words := by simp [hw1]
  have hvIn : v ∈ q.words := by simp [hqw]
  have hle := htyped.len_le K (h1.wordIn hw1In) (hq.wordIn hvIn)
  have htyped2 : Typed r2.title w2 q v := by
    refine ⟨htyped.1, Or.inl ⟨hunfin, ?_⟩⟩
    rw [htyped.pre (hq.wordIn hvIn), hlong, List.take_take, Nat.min_eq_left hle]
  rw [outranks_iff, textMatch_one K hK hN r1.title q w1 v h1 hq hw1 hqw htyped,
    textMatch_one K hK hN r2.title q w2 v h2 hq hw2 hqw htyped2, scores_single, scores_single, hcontent]
  refine strict_cons_eq rfl ?_
  cases hf2 : isFunc K w2.pos
  · refine strict_cons_eq rfl (strict_cons_gt ?_)
    omega
  · exact strict_cons_gt (by simp)

theorem C08_word_beats_longer_word_src (q : Text) (r1 r2 : Record) (w1 w2 v : WordShape)
    (h1 : TextOK r1.title) (h2 : TextOK r2.title) (hq : TextOK q)
    (hw1 : r1.title.words = [w1]) (hw2 : r2.title.words = [w2]) (hqw : q.words = [v])
    (hunfin : v.fin = false) (htyped : Typed r1.title w1 q v)
    (hlong : wchars r1.title w1 = (wchars r2.title w2).take w1.len) (htail : w1.len < w2.len)
    (hcontent : isFunc Gen.srcConsts w1.pos = false) :
    Outranks (scoreHit Gen.srcConsts Gen.srcScoreOrder q r1) (scoreHit Gen.srcConsts Gen.srcScoreOrder q r2) :=
  C08_word_beats_longer_word Gen.srcConsts costsOK_src gateNumsOK_src q r1 r2 w1 w2 v h1 h2 hq hw1 hw2 hqw hunfin
    htyped hlong htail hcontent

/-- **C08 (g): when the query is a function word `f`, a title with a content word that starts with `f` outranks
    a title containing `f` itself, whatever the ratings.** One-word titles `w1` (a content word whose characters
    start with `f`) and `w2` (characters `f`, a function word of the language: article, preposition, conjunction,
    particle), one-word unfinished query `f`. Both match `|f|` characters with no typos, so `chars` ties; `words`
    counts content-word matches only: 1 against 0. -/
theorem C08_content_word_beats_function_word (K : Consts) (hK : CostsOK K = true) (hN : GateNumsOK K = true)
    (q : Text) (r1 r2 : Record) (w1 w2 v : WordShape)
    (h1 : TextOK r1.title) (h2 : TextOK r2.title) (hq : TextOK q)
    (hw1 : r1.title.words = [w1]) (hw2 : r2.title.words = [w2]) (hqw : q.words = [v])
    (htyped1 : Typed r1.title w1 q v) (htyped2 : Typed r2.title w2 q v)
    (hcontent : isFunc K w1.pos = false) (hfunc : isFunc K w2.pos = true) :
    Outranks (scoreHit K Gen.srcScoreOrder q r1) (scoreHit K Gen.srcScoreOrder q r2) := by
  rw [outranks_iff, textMatch_one K hK hN r1.title q w1 v h1 hq hw1 hqw htyped1,
    textMatch_one K hK hN r2.title q w2 v h2 hq hw2 hqw htyped2, scores_single, scores_single, hcontent, hfunc]
  exact strict_cons_eq rfl (strict_cons_gt (by simp))

theorem C08_content_word_beats_function_word_src (q : Text) (r1 r2 : Record) (w1 w2 v : WordShape)
    (h1 : TextOK r1.title) (h2 : TextOK r2.title) (hq : TextOK q)
    (hw1 : r1.title.words = [w1]) (hw2 : r2.title.words = [w2]) (hqw : q.words = [v])
    (htyped1 : Typed r1.title w1 q v) (htyped2 : Typed r2.title w2 q v)
    (hcontent : isFunc Gen.srcConsts w1.pos = false) (hfunc : isFunc Gen.srcConsts w2.pos = true) :
    Outranks (scoreHit Gen.srcConsts Gen.srcScoreOrder q r1) (scoreHit Gen.srcConsts Gen.srcScoreOrder q r2) :=
  C08_content_word_beats_function_word Gen.srcConsts costsOK_src gateNumsOK_src q r1 r2 w1 w2 v h1 h2 hq hw1 hw2 hqw
    htyped1 htyped2 hcontent hfunc

/-- **C08 (f2): at equal rating the title 'u' outranks 'u x'.** Titles `[w1]` and `[a, b]` where `w1` and `a` are
    content words with the same characters `u`, `b` starts after a gap; one-word query typed for `u` (a prefix or
    the whole word). In the two-word title the scan stops at `a` (a content word), so both titles have the same
    single match; every component up to `rating` ties and `wordLen` decides (`-1 > -2`). -/
theorem C08_shorter_title_equal_rating (K : Consts) (hK : CostsOK K = true) (hN : GateNumsOK K = true)
    (q : Text) (r1 r2 : Record) (w1 a b v : WordShape)
    (h1 : TextOK r1.title) (h2 : TextOK r2.title) (hq : TextOK q)
    (hw1 : r1.title.words = [w1]) (hw2 : r2.title.words = [a, b]) (hqw : q.words = [v])
    (hgap : a.hi < b.lo)
    (htyped1 : Typed r1.title w1 q v) (htyped2 : Typed r2.title a q v)
    (hsame : wchars r1.title w1 = wchars r2.title a)
    (hc1 : isFunc K w1.pos = false) (hc2 : isFunc K a.pos = false)
    (hrating : r1.rating = r2.rating) :
    Outranks (scoreHit K Gen.srcScoreOrder q r1) (scoreHit K Gen.srcScoreOrder q r2) := by
  have hlen : w1.len = a.len := by
    rw [← wchars_length (h1.wordIn (by simp [hw1])), ← wchars_length (h2.wordIn (by simp [hw2])), hsame]
  have ho1 := offsets1 h1 hw1
  have ho2 := (offsets2 h2 hw2).1
  rw [outranks_iff, textMatch_one K hK hN r1.title q w1 v h1 hq hw1 hqw htyped1,
    textMatch_two_first K hK hN r2.title q a b v h2 hq hw2 hqw hgap htyped2 hc2, scores_single, scores_single,
    hc1, hc2, hlen, ho1, ho2, hrating, hw1, hw2]
  refine strict_cons_eq rfl (strict_cons_eq rfl (strict_cons_eq rfl (strict_cons_eq rfl (strict_cons_eq rfl
    (strict_cons_eq rfl (strict_cons_eq rfl (strict_cons_gt ?_)))))))
  simp

theorem C08_shorter_title_equal_rating_src (q : Text) (r1 r2 : Record) (w1 a b v : WordShape)
    (h1 : TextOK r1.title) (h2 : TextOK r2.title) (hq : TextOK q)
    (hw1 : r1.title.words = [w1]) (hw2 : r2.title.words = [a, b]) (hqw : q.words = [v])
    (hgap : a.hi < b.lo)
    (htyped1 : Typed r1.title w1 q v) (htyped2 : Typed r2.title a q v)
    (hsame : wchars r1.title w1 = wchars r2.title a)
    (hc1 : isFunc Gen.srcConsts w1.pos = false) (hc2 : isFunc Gen.srcConsts a.pos = false)
    (hrating : r1.rating = r2.rating) :
    Outranks (scoreHit Gen.srcConsts Gen.srcScoreOrder q r1) (scoreHit Gen.srcConsts Gen.srcScoreOrder q r2) :=
  C08_shorter_title_equal_rating Gen.srcConsts costsOK_src gateNumsOK_src q r1 r2 w1 a b v h1 h2 hq hw1 hw2 hqw hgap
    htyped1 htyped2 hsame hc1 hc2 hrating

/-- **C08 (e): 'u x' outranks 'x u' for the query 'u', whatever the ratings.** Titles `[a1, b1]` and `[a2, b2]`
    with words separated by a gap; `a1` and `b2` have the same characters `u` (`a1` a content word), the filler
    `a2` shares no character with the query; one-word query typed for `u` (a prefix or the whole word).
    In `[x, u]` the filler does not match and `u` is matched at offset 1: `chars`, `words`, `tails`, `trans`,
    `fin` tie and `offset` decides (`0 > -1`). (If `x` is so short that the joined closure `x␣u` fires, the two
    matches it leaves score at least two characters less and `chars` decides; see `join_chars_lt`.) -/
theorem C08_early_beats_late (K : Consts) (hK : CostsOK K = true) (hN : GateNumsOK K = true) (hJ : JacCapOK K = true)
    (q : Text) (r1 r2 : Record) (a1 b1 a2 b2 v : WordShape)
    (h1 : TextOK r1.title) (h2 : TextOK r2.title) (hq : TextOK q)
    (hw1 : r1.title.words = [a1, b1]) (hw2 : r2.title.words = [a2, b2]) (hqw : q.words = [v])
    (hgap1 : a1.hi < b1.lo) (hgap2 : a2.hi < b2.lo)
    (htyped1 : Typed r1.title a1 q v) (htyped2 : Typed r2.title b2 q v)
    (hsame : wchars r1.title a1 = wchars r2.title b2)
    (hdis : ∀ c ∈ wchars r2.title a2, c ∉ wchars q v)
    (hcontent : isFunc K a1.pos = false) :
    Outranks (scoreHit K Gen.srcScoreOrder q r1) (scoreHit K Gen.srcScoreOrder q r2) := by
  have hlen : a1.len = b2.len := by
    rw [← wchars_length (h1.wordIn (by simp [hw1])), ← wchars_length (h2.wordIn (by simp [hw2])), hsame]
  have ho1 := (offsets2 h1 hw1).1
  have ho2 := (offsets2 h2 hw2).2
  rw [outranks_iff, textMatch_two_first K hK hN r1.title q a1 b1 v h1 hq hw1 hqw hgap1 htyped1 hcontent, scores_single]
  rcases textMatch_two_second K hK hN hJ r2.title q a2 b2 v h2 hq hw2 hqw hgap2 hdis htyped2 with e | ⟨m1, m2, e, hsc⟩
  · rw [e, scores_single, hcontent, hlen, ho1, ho2]
    refine strict_cons_eq rfl ?_
    cases hf2 : isFunc K b2.pos
    · refine strict_cons_eq rfl (strict_cons_eq rfl (strict_cons_eq rfl (strict_cons_eq rfl (strict_cons_gt ?_))))
      simp
    · exact strict_cons_gt (by simp)
  · rw [e]
    simp only [Gen.srcScoreOrder, List.map, scoreOf]
    exact strict_cons_gt (by omega)

theorem C08_early_beats_late_src (q : Text) (r1 r2 : Record) (a1 b1 a2 b2 v : WordShape)
    (h1 : TextOK r1.title) (h2 : TextOK r2.title) (hq : TextOK q)
    (hw1 : r1.title.words = [a1, b1]) (hw2 : r2.title.words = [a2, b2]) (hqw : q.words = [v])
    (hgap1 : a1.hi < b1.lo) (hgap2 : a2.hi < b2.lo)
    (htyped1 : Typed r1.title a1 q v) (htyped2 : Typed r2.title b2 q v)
    (hsame : wchars r1.title a1 = wchars r2.title b2)
    (hdis : ∀ c ∈ wchars r2.title a2, c ∉ wchars q v)
    (hcontent : isFunc Gen.srcConsts a1.pos = false) :
    Outranks (scoreHit Gen.srcConsts Gen.srcScoreOrder q r1) (scoreHit Gen.srcConsts Gen.srcScoreOrder q r2) :=
  C08_early_beats_late Gen.srcConsts costsOK_src gateNumsOK_src jacCapOK_src q r1 r2 a1 b1 a2 b2 v h1 h2 hq hw1 hw2 hqw
    hgap1 hgap2 htyped1 htyped2 hsame hdis hcontent

/-- **C08 (b): a title containing both query words outranks one containing only one, whatever the ratings.**
    Titles `[a1, b1]` (words `u`, `v`) and `[a2, b2]` (words `u`, `x`), words separated by a gap, `a1`, `a2` content
    words; query `[q1, q2]` with `q1` finished and typed for `u`, `q2` typed for `v` (a prefix or the whole word)
    and sharing no character with the filler `x`. The first title gets two exact matches
    (`chars = |q1| + |q2|`), the second only one (`chars = |q1|`): `chars` decides. The joined closures cannot
    fire here: with a gap of at least one character between words, `u␣v` is longer than `q1` and `q1␣q2` is
    longer than `u` (hypotheses `hgap*`, `hqgap`; the tokenizer only produces such texts). -/
theorem C08_both_words_beat_one (K : Consts) (hK : CostsOK K = true) (hN : GateNumsOK K = true) (hJ : JacCapOK K = true)
    (q : Text) (r1 r2 : Record) (a1 b1 a2 b2 q1 q2 : WordShape)
    (h1 : TextOK r1.title) (h2 : TextOK r2.title) (hq : TextOK q)
    (hw1 : r1.title.words = [a1, b1]) (hw2 : r2.title.words = [a2, b2]) (hqw : q.words = [q1, q2])
    (hgap1 : a1.hi < b1.lo) (hgap2 : a2.hi < b2.lo) (hqgap : q1.hi < q2.lo) (hfin1 : q1.fin = true)
    (htu1 : Typed r1.title a1 q q1) (htu2 : Typed r2.title a2 q q1) (htv : Typed r1.title b1 q q2)
    (hdis : ∀ c ∈ wchars r2.title b2, c ∉ wchars q q2)
    (hc1 : isFunc K a1.pos = false) (hc2 : isFunc K a2.pos = false) :
    Outranks (scoreHit K Gen.srcScoreOrder q r1) (scoreHit K Gen.srcScoreOrder q r2) := by
  have hpos := (hq.wordIn (show q2 ∈ q.words by simp [hqw])).len_pos
  rw [outranks_iff,
    textMatch_twoTwo_both K hK hN r1.title q a1 b1 q1 q2 h1 hq hw1 hqw hgap1 hqgap hfin1 htu1 hc1 htv,
    textMatch_twoTwo_first_only K hK hN hJ r2.title q a2 b2 q1 q2 h2 hq hw2 hqw hgap2 hqgap hfin1 htu2 hc2 hdis,
    scores_pair, scores_single]
  exact strict_cons_gt (by omega)

theorem C08_both_words_beat_one_src (q : Text) (r1 r2 : Record) (a1 b1 a2 b2 q1 q2 : WordShape)
    (h1 : TextOK r1.title) (h2 : TextOK r2.title) (hq : TextOK q)
    (hw1 : r1.title.words = [a1, b1]) (hw2 : r2.title.words = [a2, b2]) (hqw : q.words = [q1, q2])
    (hgap1 : a1.hi < b1.lo) (hgap2 : a2.hi < b2.lo) (hqgap : q1.hi < q2.lo) (hfin1 : q1.fin = true)
    (htu1 : Typed r1.title a1 q q1) (htu2 : Typed r2.title a2 q q1) (htv : Typed r1.title b1 q q2)
    (hdis : ∀ c ∈ wchars r2.title b2, c ∉ wchars q q2)
    (hc1 : isFunc Gen.srcConsts a1.pos = false) (hc2 : isFunc Gen.srcConsts a2.pos = false) :
    Outranks (scoreHit Gen.srcConsts Gen.srcScoreOrder q r1) (scoreHit Gen.srcConsts Gen.srcScoreOrder q r2) :=
  C08_both_words_beat_one Gen.srcConsts costsOK_src gateNumsOK_src jacCapOK_src q r1 r2 a1 b1 a2 b2 q1 q2 h1 h2 hq
    hw1 hw2 hqw hgap1 hgap2 hqgap hfin1 htu1 htu2 htv hdis hc1 hc2

/-- **C08 (d): 'u v x' outranks 'u x v' for the query 'u v', whatever the ratings.** Titles `[a1, b1, c1]` (words
    `u`, `v`, `x`) and `[a2, b2, c2]` (words `u`, `x`, `v`), words separated by gaps, `u` and `v` content words in
    the first title and `u` in the second; query `[q1, q2]` with `q1` finished and typed for `u`, `q2` typed for
    `v` and sharing no character with the filler `x`. Both titles match both query words exactly, `chars`,
    `words`, `tails` tie and `trans` decides (`0 > -1`: the matches are adjacent in the first title, one word
    apart in the second). (If `x` is so short that the joined closure `x␣v` fires, the matches it leaves score at
    least two characters less and `chars` decides.) -/
theorem C08_adjacent_beats_gap (K : Consts) (hK : CostsOK K = true) (hN : GateNumsOK K = true) (hJ : JacCapOK K = true)
    (q : Text) (r1 r2 : Record) (a1 b1 c1 a2 b2 c2 q1 q2 : WordShape)
    (h1 : TextOK r1.title) (h2 : TextOK r2.title) (hq : TextOK q)
    (hw1 : r1.title.words = [a1, b1, c1]) (hw2 : r2.title.words = [a2, b2, c2]) (hqw : q.words = [q1, q2])
    (hgap1 : a1.hi < b1.lo) (hgap1' : b1.hi < c1.lo) (hgap2 : a2.hi < b2.lo) (hgap2' : b2.hi < c2.lo)
    (hqgap : q1.hi < q2.lo) (hfin1 : q1.fin = true)
    (htu1 : Typed r1.title a1 q q1) (htu2 : Typed r2.title a2 q q1)
    (htv1 : Typed r1.title b1 q q2) (htv2 : Typed r2.title c2 q q2)
    (hsame : wchars r1.title b1 = wchars r2.title c2)
    (hdis : ∀ ch ∈ wchars r2.title b2, ch ∉ wchars q q2)
    (hca1 : isFunc K a1.pos = false) (hcb1 : isFunc K b1.pos = false) (hca2 : isFunc K a2.pos = false) :
    Outranks (scoreHit K Gen.srcScoreOrder q r1) (scoreHit K Gen.srcScoreOrder q r2) := by
  obtain ⟨oa1, ob1, _⟩ := offsets3 h1 hw1
  obtain ⟨oa2, _, oc2⟩ := offsets3 h2 hw2
  have hq1In : q1 ∈ q.words := by simp [hqw]
  have hla1 := htu1.len_eq hfin1 (h1.wordIn (by simp [hw1])) (hq.wordIn hq1In)
  have hla2 := htu2.len_eq hfin1 (h2.wordIn (by simp [hw2])) (hq.wordIn hq1In)
  have hlen : b1.len = c2.len := by
    rw [← wchars_length (h1.wordIn (by simp [hw1])), ← wchars_length (h2.wordIn (by simp [hw2])), hsame]
  rw [outranks_iff,
    textMatch_threeTwo_adjacent K hK hN r1.title q a1 b1 c1 q1 q2 h1 hq hw1 hqw hgap1 hgap1' hqgap hfin1 htu1 hca1
      htv1 hcb1, scores_pair]
  rcases textMatch_threeTwo_gap K hK hN hJ r2.title q a2 b2 c2 q1 q2 h2 hq hw2 hqw hgap2 hgap2' hqgap hfin1 htu2 hca2
    hdis htv2 with e | ⟨m1, m2, e, hsc⟩
  · rw [e, scores_pair, hca1, hcb1, hca2, oa1, ob1, oa2, oc2, ← hla1, ← hla2, hlen]
    refine strict_cons_eq rfl ?_
    cases hf2 : isFunc K c2.pos
    · refine strict_cons_eq rfl (strict_cons_eq rfl (strict_cons_gt ?_))
      simp
    · exact strict_cons_gt (by simp)
  · rw [e]
    simp only [Gen.srcScoreOrder, List.map, scoreOf]
    refine strict_cons_gt ?_
    have : scoreChars [hitM K a2 q1, m1, m2] = (q1.len : Int) + scoreChars [m1, m2] := by
      simp [scoreChars, ceilTenths]
    omega

theorem C08_adjacent_beats_gap_src (q : Text) (r1 r2 : Record) (a1 b1 c1 a2 b2 c2 q1 q2 : WordShape)
    (h1 : TextOK r1.title) (h2 : TextOK r2.title) (hq : TextOK q)
    (hw1 : r1.title.words = [a1, b1, c1]) (hw2 : r2.title.words = [a2, b2, c2]) (hqw : q.words = [q1, q2])
    (hgap1 : a1.hi < b1.lo) (hgap1' : b1.hi < c1.lo) (hgap2 : a2.hi < b2.lo) (hgap2' : b2.hi < c2.lo)
    (hqgap : q1.hi < q2.lo) (hfin1 : q1.fin = true)
    (htu1 : Typed r1.title a1 q q1) (htu2 : Typed r2.title a2 q q1)
    (htv1 : Typed r1.title b1 q q2) (htv2 : Typed r2.title c2 q q2)
    (hsame : wchars r1.title b1 = wchars r2.title c2)
    (hdis : ∀ ch ∈ wchars r2.title b2, ch ∉ wchars q q2)
    (hca1 : isFunc Gen.srcConsts a1.pos = false) (hcb1 : isFunc Gen.srcConsts b1.pos = false)
    (hca2 : isFunc Gen.srcConsts a2.pos = false) :
    Outranks (scoreHit Gen.srcConsts Gen.srcScoreOrder q r1) (scoreHit Gen.srcConsts Gen.srcScoreOrder q r2) :=
  C08_adjacent_beats_gap Gen.srcConsts costsOK_src gateNumsOK_src jacCapOK_src q r1 r2 a1 b1 c1 a2 b2 c2 q1 q2 h1 h2 hq
    hw1 hw2 hqw hgap1 hgap1' hgap2 hgap2' hqgap hfin1 htu1 htu2 htv1 htv2 hsame hdis hca1 hcb1 hca2

/-- **C08 (a): an exact title word outranks the same word with a typo, whatever the ratings.** One-word titles
    `w1` (characters `u`) and `w2` (ANY different word that is not longer than `u`: in particular `u` with one
    substituted letter); one-word query with all characters of `u` typed (finished or not). The exact title
    scores `chars = |u|`; the other title is either not matched at all (`chars = 0`), or matched with typos
    (`match_len - 2·⌈typos⌉ ≤ |u| - 2`), or matched on a shorter common prefix (`< |u|`): `chars` decides. -/
theorem C08_exact_beats_typo (K : Consts) (hK : CostsOK K = true) (hN : GateNumsOK K = true)
    (q : Text) (r1 r2 : Record) (w1 w2 v : WordShape)
    (h1 : TextOK r1.title) (h2 : TextOK r2.title) (hq : TextOK q)
    (hw1 : r1.title.words = [w1]) (hw2 : r2.title.words = [w2]) (hqw : q.words = [v])
    (htyped : Typed r1.title w1 q v) (hfull : v.len = w1.len)
    (hlen : w2.len ≤ w1.len) (hne : wchars r2.title w2 ≠ wchars r1.title w1) :
    Outranks (scoreHit K Gen.srcScoreOrder q r1) (scoreHit K Gen.srcScoreOrder q r2) := by
  have hw1In : w1 ∈ r1.title.words := by simp [hw1]
  have hw2In : w2 ∈ r2.title.words := by simp [hw2]
  have hvIn : v ∈ q.words := by simp [hqw]
  have hqv : wchars q v = wchars r1.title w1 := by
    rw [htyped.pre (hq.wordIn hvIn), List.take_of_length_le]
    rw [wchars_length (h1.wordIn hw1In), hfull]; exact Nat.le_refl _
  have hpos := (hq.wordIn hvIn).len_pos
  rw [outranks_iff, textMatch_one K hK hN r1.title q w1 v h1 hq hw1 hqw htyped, scores_single,
    textMatch_single K r2.title q w2 v hw2 hqw (offsets1 h2 hw2) (offsets1 hq hqw)]
  simp only [Gen.srcScoreOrder, List.map, scoreOf]
  refine strict_cons_gt ?_
  cases hm : wordMatch K r2.title w2 q v with
  | none => simp [scoreChars]; omega
  | some p =>
    exact typo_chars_lt K hK (h2.wordIn hw2In) (hq.wordIn hvIn) (by omega) (by rw [hqv]; exact hne) hm

theorem C08_exact_beats_typo_src (q : Text) (r1 r2 : Record) (w1 w2 v : WordShape)
    (h1 : TextOK r1.title) (h2 : TextOK r2.title) (hq : TextOK q)
    (hw1 : r1.title.words = [w1]) (hw2 : r2.title.words = [w2]) (hqw : q.words = [v])
    (htyped : Typed r1.title w1 q v) (hfull : v.len = w1.len)
    (hlen : w2.len ≤ w1.len) (hne : wchars r2.title w2 ≠ wchars r1.title w1) :
    Outranks (scoreHit Gen.srcConsts Gen.srcScoreOrder q r1) (scoreHit Gen.srcConsts Gen.srcScoreOrder q r2) :=
  C08_exact_beats_typo Gen.srcConsts costsOK_src gateNumsOK_src q r1 r2 w1 w2 v h1 h2 hq hw1 hw2 hqw htyped hfull
    hlen hne

/-! ### non-vacuity: concrete instances of the hypotheses

Words over pairwise disjoint alphabets: `u` = "hello", `v` = "trick", filler `x` = "zap"; the function word "the"
(an article) and the content word "theme". Each example applies the `_src` theorem to tokenised titles with the
LOWER rating on the winning side ("whatever the ratings"), so every hypothesis is met by a concrete instance. -/
namespace C08Example

/-- "hello" -/
def tU : Text :=
  { words := [{ offset := 0, lo := 0, hi := 5, stem := 5, pos := none, fin := true }],
    source := [104,101,108,108,111], chars := [104,101,108,108,111],
    classes := [.consonant, .vowel, .consonant, .consonant, .vowel] }

theorem tU_ok : TextOK tU where
  lens := by decide
  offsets := by decide
  bounds := by decide
  ordered := by intro i h; simp [tU] at h
  stems := by decide

/-- "helloxy" -/
def tUtail : Text :=
  { words := [{ offset := 0, lo := 0, hi := 7, stem := 7, pos := none, fin := true }],
    source := [104,101,108,108,111,120,121], chars := [104,101,108,108,111,120,121],
    classes := [.consonant, .vowel, .consonant, .consonant, .vowel, .consonant, .consonant] }

theorem tUtail_ok : TextOK tUtail where
  lens := by decide
  offsets := by decide
  bounds := by decide
  ordered := by intro i h; simp [tUtail] at h
  stems := by decide

/-- "hallo" -/
def tTypo : Text :=
  { words := [{ offset := 0, lo := 0, hi := 5, stem := 5, pos := none, fin := true }],
    source := [104,97,108,108,111], chars := [104,97,108,108,111],
    classes := [.consonant, .vowel, .consonant, .consonant, .vowel] }

theorem tTypo_ok : TextOK tTypo where
  lens := by decide
  offsets := by decide
  bounds := by decide
  ordered := by intro i h; simp [tTypo] at h
  stems := by decide

/-- "hello zap" -/
def tUX : Text :=
  { words := [{ offset := 0, lo := 0, hi := 5, stem := 5, pos := none, fin := true },
              { offset := 1, lo := 6, hi := 9, stem := 3, pos := none, fin := true }],
    source := [104,101,108,108,111,32,122,97,112], chars := [104,101,108,108,111,32,122,97,112],
    classes := [.consonant, .vowel, .consonant, .consonant, .vowel, .whitespace, .consonant, .vowel, .consonant] }

theorem tUX_ok : TextOK tUX where
  lens := by decide
  offsets := by decide
  bounds := by decide
  ordered := by
    intro i h
    have hi : i = 0 := by simp [tUX] at h; omega
    subst hi; decide +revert
  stems := by decide

/-- "zap hello" -/
def tXU : Text :=
  { words := [{ offset := 0, lo := 0, hi := 3, stem := 3, pos := none, fin := true },
              { offset := 1, lo := 4, hi := 9, stem := 5, pos := none, fin := true }],
    source := [122,97,112,32,104,101,108,108,111], chars := [122,97,112,32,104,101,108,108,111],
    classes := [.consonant, .vowel, .consonant, .whitespace, .consonant, .vowel, .consonant, .consonant, .vowel] }

theorem tXU_ok : TextOK tXU where
  lens := by decide
  offsets := by decide
  bounds := by decide
  ordered := by
    intro i h
    have hi : i = 0 := by simp [tXU] at h; omega
    subst hi; decide +revert
  stems := by decide

/-- "hello trick" -/
def tUV : Text :=
  { words := [{ offset := 0, lo := 0, hi := 5, stem := 5, pos := none, fin := true },
              { offset := 1, lo := 6, hi := 11, stem := 5, pos := none, fin := true }],
    source := [104,101,108,108,111,32,116,114,105,99,107], chars := [104,101,108,108,111,32,116,114,105,99,107],
    classes := [.consonant, .vowel, .consonant, .consonant, .vowel, .whitespace, .consonant, .consonant, .vowel, .consonant, .consonant] }

theorem tUV_ok : TextOK tUV where
  lens := by decide
  offsets := by decide
  bounds := by decide
  ordered := by
    intro i h
    have hi : i = 0 := by simp [tUV] at h; omega
    subst hi; decide +revert
  stems := by decide

/-- "hello trick zap" -/
def tUVX : Text :=
  { words := [{ offset := 0, lo := 0, hi := 5, stem := 5, pos := none, fin := true },
              { offset := 1, lo := 6, hi := 11, stem := 5, pos := none, fin := true },
              { offset := 2, lo := 12, hi := 15, stem := 3, pos := none, fin := true }],
    source := [104,101,108,108,111,32,116,114,105,99,107,32,122,97,112], chars := [104,101,108,108,111,32,116,114,105,99,107,32,122,97,112],
    classes := [.consonant, .vowel, .consonant, .consonant, .vowel, .whitespace, .consonant, .consonant, .vowel, .consonant, .consonant, .whitespace, .consonant, .vowel, .consonant] }

theorem tUVX_ok : TextOK tUVX where
  lens := by decide
  offsets := by decide
  bounds := by decide
  ordered := by
    intro i h
    have hi : i = 0 ∨ i = 1 := by simp [tUVX] at h; omega
    rcases hi with rfl | rfl <;> decide +revert
  stems := by decide

/-- "hello zap trick" -/
def tUXV : Text :=
  { words := [{ offset := 0, lo := 0, hi := 5, stem := 5, pos := none, fin := true },
              { offset := 1, lo := 6, hi := 9, stem := 3, pos := none, fin := true },
              { offset := 2, lo := 10, hi := 15, stem := 5, pos := none, fin := true }],
    source := [104,101,108,108,111,32,122,97,112,32,116,114,105,99,107], chars := [104,101,108,108,111,32,122,97,112,32,116,114,105,99,107],
    classes := [.consonant, .vowel, .consonant, .consonant, .vowel, .whitespace, .consonant, .vowel, .consonant, .whitespace, .consonant, .consonant, .vowel, .consonant, .consonant] }

theorem tUXV_ok : TextOK tUXV where
  lens := by decide
  offsets := by decide
  bounds := by decide
  ordered := by
    intro i h
    have hi : i = 0 ∨ i = 1 := by simp [tUXV] at h; omega
    rcases hi with rfl | rfl <;> decide +revert
  stems := by decide

/-- "the" -/
def tThe : Text :=
  { words := [{ offset := 0, lo := 0, hi := 3, stem := 3, pos := some Pos.article, fin := true }],
    source := [116,104,101], chars := [116,104,101],
    classes := [.consonant, .consonant, .vowel] }

theorem tThe_ok : TextOK tThe where
  lens := by decide
  offsets := by decide
  bounds := by decide
  ordered := by intro i h; simp [tThe] at h
  stems := by decide

/-- "theme" -/
def tTheme : Text :=
  { words := [{ offset := 0, lo := 0, hi := 5, stem := 5, pos := none, fin := true }],
    source := [116,104,101,109,101], chars := [116,104,101,109,101],
    classes := [.consonant, .consonant, .vowel, .consonant, .vowel] }

theorem tTheme_ok : TextOK tTheme where
  lens := by decide
  offsets := by decide
  bounds := by decide
  ordered := by intro i h; simp [tTheme] at h
  stems := by decide

/-- "hello" -/
def qU : Text :=
  { words := [{ offset := 0, lo := 0, hi := 5, stem := 5, pos := none, fin := false }],
    source := [104,101,108,108,111], chars := [104,101,108,108,111],
    classes := [.consonant, .vowel, .consonant, .consonant, .vowel] }

theorem qU_ok : TextOK qU where
  lens := by decide
  offsets := by decide
  bounds := by decide
  ordered := by intro i h; simp [qU] at h
  stems := by decide

/-- "hel" -/
def qHel : Text :=
  { words := [{ offset := 0, lo := 0, hi := 3, stem := 3, pos := none, fin := false }],
    source := [104,101,108], chars := [104,101,108],
    classes := [.consonant, .vowel, .consonant] }

theorem qHel_ok : TextOK qHel where
  lens := by decide
  offsets := by decide
  bounds := by decide
  ordered := by intro i h; simp [qHel] at h
  stems := by decide

/-- "hello trick" -/
def qUV : Text :=
  { words := [{ offset := 0, lo := 0, hi := 5, stem := 5, pos := none, fin := true },
              { offset := 1, lo := 6, hi := 11, stem := 5, pos := none, fin := false }],
    source := [104,101,108,108,111,32,116,114,105,99,107], chars := [104,101,108,108,111,32,116,114,105,99,107],
    classes := [.consonant, .vowel, .consonant, .consonant, .vowel, .whitespace, .consonant, .consonant, .vowel, .consonant, .consonant] }

theorem qUV_ok : TextOK qUV where
  lens := by decide
  offsets := by decide
  bounds := by decide
  ordered := by
    intro i h
    have hi : i = 0 := by simp [qUV] at h; omega
    subst hi; decide +revert
  stems := by decide

/-- "the" -/
def qThe : Text :=
  { words := [{ offset := 0, lo := 0, hi := 3, stem := 3, pos := some Pos.article, fin := false }],
    source := [116,104,101], chars := [116,104,101],
    classes := [.consonant, .consonant, .vowel] }

theorem qThe_ok : TextOK qThe where
  lens := by decide
  offsets := by decide
  bounds := by decide
  ordered := by intro i h; simp [qThe] at h
  stems := by decide


abbrev C := Gen.srcConsts
abbrev O := Gen.srcScoreOrder

/-- (c) "hello" (rating 0) outranks "helloxy" (rating 1000) for the typed prefix "hel" … -/
example : Outranks (scoreHit C O qHel ⟨0, 1, tU, 0⟩) (scoreHit C O qHel ⟨1, 2, tUtail, 1000⟩) :=
  C08_word_beats_longer_word_src qHel _ _ _ _ _ tU_ok tUtail_ok qHel_ok rfl rfl rfl rfl
    (by unfold Typed; decide) (by decide) (by decide) (by decide)

/-- … and for the full word "hello" -/
example : Outranks (scoreHit C O qU ⟨0, 1, tU, 0⟩) (scoreHit C O qU ⟨1, 2, tUtail, 1000⟩) :=
  C08_word_beats_longer_word_src qU _ _ _ _ _ tU_ok tUtail_ok qU_ok rfl rfl rfl rfl
    (by unfold Typed; decide) (by decide) (by decide) (by decide)

/-- (g) query "the": the title "theme" (rating 0) outranks the title "the" (rating 1000) -/
example : Outranks (scoreHit C O qThe ⟨0, 1, tTheme, 0⟩) (scoreHit C O qThe ⟨1, 2, tThe, 1000⟩) :=
  C08_content_word_beats_function_word_src qThe _ _ _ _ _ tTheme_ok tThe_ok qThe_ok rfl rfl rfl
    (by unfold Typed; decide) (by unfold Typed; decide) (by decide) (by decide)

/-- (f2) equal ratings: "hello" outranks "hello zap" for the query "hello" -/
example : Outranks (scoreHit C O qU ⟨0, 1, tU, 7⟩) (scoreHit C O qU ⟨1, 2, tUX, 7⟩) :=
  C08_shorter_title_equal_rating_src qU _ _ _ _ _ _ tU_ok tUX_ok qU_ok rfl rfl rfl (by decide)
    (by unfold Typed; decide) (by unfold Typed; decide) (by decide) (by decide) (by decide) rfl

/-- (e) "hello zap" (rating 0) outranks "zap hello" (rating 1000) for the query "hello" -/
example : Outranks (scoreHit C O qU ⟨0, 1, tUX, 0⟩) (scoreHit C O qU ⟨1, 2, tXU, 1000⟩) :=
  C08_early_beats_late_src qU _ _ _ _ _ _ _ tUX_ok tXU_ok qU_ok rfl rfl rfl (by decide) (by decide)
    (by unfold Typed; decide) (by unfold Typed; decide) (by decide) (by decide) (by decide)

/-- (b) "hello trick" (rating 0) outranks "hello zap" (rating 1000) for the query "hello trick" -/
example : Outranks (scoreHit C O qUV ⟨0, 1, tUV, 0⟩) (scoreHit C O qUV ⟨1, 2, tUX, 1000⟩) :=
  C08_both_words_beat_one_src qUV _ _ _ _ _ _ _ _ tUV_ok tUX_ok qUV_ok rfl rfl rfl (by decide) (by decide) (by decide)
    rfl (by unfold Typed; decide) (by unfold Typed; decide) (by unfold Typed; decide) (by decide) (by decide) (by decide)

/-- (d) "hello trick zap" (rating 0) outranks "hello zap trick" (rating 1000) for the query "hello trick" -/
example : Outranks (scoreHit C O qUV ⟨0, 1, tUVX, 0⟩) (scoreHit C O qUV ⟨1, 2, tUXV, 1000⟩) :=
  C08_adjacent_beats_gap_src qUV _ _ _ _ _ _ _ _ _ _ tUVX_ok tUXV_ok qUV_ok rfl rfl rfl
    (by decide) (by decide) (by decide) (by decide) (by decide) rfl
    (by unfold Typed; decide) (by unfold Typed; decide) (by unfold Typed; decide) (by unfold Typed; decide)
    (by decide) (by decide) (by decide) (by decide) (by decide)

/-- (a) "hello" (rating 0) outranks "hallo" (rating 1000) for the query "hello" -/
example : Outranks (scoreHit C O qU ⟨0, 1, tU, 0⟩) (scoreHit C O qU ⟨1, 2, tTypo, 1000⟩) :=
  C08_exact_beats_typo_src qU _ _ _ _ _ tU_ok tTypo_ok qU_ok rfl rfl rfl (by unfold Typed; decide) (by decide)
    (by decide) (by decide)

/-- the numeric hypotheses are met by the constants generated from the source -/
example : CostsOK C = true ∧ GateNumsOK C = true ∧ JacCapOK C = true := ⟨costsOK_src, gateNumsOK_src, jacCapOK_src⟩

end C08Example

end Lucid
