/-
  C06 (second part) — "A search never returns more hits than the limit and never returns a record twice. Whether a
  record is a hit, and how its title is highlighted, depends only on that record and the query: it is the same as
  in a store containing that record alone. When the store holds at most ten times the limit, the hits are exactly
  the first `limit` entries of the list obtained with an unlimited limit, which in turn contains every record that
  is a hit on its own." (exact order compared for pairwise distinct ratings)

  * never more than the limit: `C06_length_le_limit` (C06.lean);
  * never a record twice: `C06_nodup`, `C06_ids_nodup` (here);
  * locality: `C06_local_sound`, `C06_results_are_verdicts`, `C06_single_store` (Lemmas/Locality.lean);
  * unlimited list contains every own-hit: `C06_complete`, `C06_complete_perm` (here);
  * prefix of the unlimited list: `C06_prefix_of_unlimited` (here).

  Vocabulary (Lemmas/Locality.lean, Lemmas/Store.lean):
  `StoreInv S K st` — invariant of every reachable store (`C10_invariant`); `mkStore` = freshly built store;
  `st.listed S K order q` — the records behind the results, in result order;
  `verdict K dv q (id, title, rating)` — the result the record yields on its own, or `none`;
  `DistinctRatings recs` — pairwise distinct ratings.
  Statements only; helper lemmas live in LucidProofs/Lemmas/Locality.lean.
-/
import LucidModel.Gen.Consts
import LucidProofs.Lemmas.Locality
import LucidProofs.C12

namespace Lucid

theorem nodup_map_of_inj_on {α β : Type} (f : α → β) : ∀ (l : List α), l.Nodup →
    (∀ a ∈ l, ∀ b ∈ l, f a = f b → a = b) → (l.map f).Nodup
  | [], _, _ => by simp
  | x :: l, hn, hinj => by
    rw [List.nodup_cons] at hn
    rw [List.map_cons, List.nodup_cons]
    refine ⟨?_, nodup_map_of_inj_on f l hn.2 (fun a ha b hb => hinj a (by simp [ha]) b (by simp [hb]))⟩
    intro hm
    obtain ⟨y, hy, he⟩ := List.mem_map.mp hm
    have := hinj y (by simp [hy]) x (by simp) he
    subst this
    exact hn.1 hy

/-- A search never returns a record twice: the results are the rendered hits of the listed records, which are
    records of the store at pairwise distinct positions. Any store satisfying the invariant, any query (with words:
    the trigram candidates are duplicate-free, `C18_nodup`; without: the top-rated selection is). -/
theorem C06_nodup (S : Sorter) (hS : SorterOK S) (K : Consts) (hK : 1 ≤ K.sortFactor)
    (order : List ScoreType) (st : Store) (h : StoreInv S K st) (q : Text) :
    st.search S K order q =
      (st.listed S K order q).map (fun r => renderWith st.dividers (scoreHit K order q r)) ∧
    ((st.listed S K order q).map (·.ix)).Nodup ∧ (st.listed S K order q).Nodup ∧
    ∀ r ∈ st.listed S K order q, r ∈ st.records :=
  ⟨search_eq_listed hS hK order st q, listed_nodup_ix hS hK order h q, listed_nodup hS hK order h q,
    fun r hr => (listed_isHit hS hK order h q r hr).1⟩

/-- … in particular, when the records of the store have pairwise distinct ids, no id occurs twice in the results. -/
theorem C06_ids_nodup (S : Sorter) (hS : SorterOK S) (K : Consts) (hK : 1 ≤ K.sortFactor)
    (order : List ScoreType) (st : Store) (h : StoreInv S K st) (q : Text)
    (hid : (st.records.map (·.id)).Nodup) :
    ((st.search S K order q).map (·.id)).Nodup := by
  obtain ⟨he, _, hn, hsub⟩ := C06_nodup S hS K hK order st h q
  rw [he, List.map_map]
  have hinj := inj_of_pairwise_ne (fun r : Record => r.id) st.records (List.pairwise_map.mp hid)
  exact nodup_map_of_inj_on _ _ hn (fun a ha b hb e => hinj a (hsub a ha) b (hsub b hb) e)

/-- The unlimited list contains every record that is a hit on its own: when the store holds no more records than
    the limit (and the candidate cap `limit·prepFactor` is therefore not reached), the results are – up to order –
    exactly the verdicts of all records of the store. -/
theorem C06_complete_perm (S : Sorter) (hS : SorterOK S) (K : Consts) (hK : 1 ≤ K.sortFactor)
    (hP : 1 ≤ K.prepFactor) (order : List ScoreType) (st : Store) (h : StoreInv S K st) (q : Text)
    (hlen : st.records.length ≤ st.limit) :
    (st.search S K order q).Perm (st.records.filterMap (fun r => verdict K st.dividers q r.data)) := by
  have hcap : st.records.length ≤ st.limit * K.prepFactor :=
    Nat.le_trans hlen (Nat.le_mul_of_pos_right _ hP)
  obtain ⟨top, hT, he⟩ := search_topK_passing hS hK order h q hcap (Or.inr hlen)
  have hl : (st.passing K order q).length ≤ st.limit := by
    unfold Store.passing
    rw [List.length_map]
    exact Nat.le_trans (List.length_filter_le _ _) hlen
  have hp := (hT.perm_of_length_le hl).map (renderWith st.dividers)
  rw [he]
  refine hp.trans (List.Perm.of_eq ?_)
  unfold Store.passing
  rw [List.map_map]
  generalize st.records = l
  induction l with
  | nil => rfl
  | cons r l ih =>
    by_cases hh : isHit K q r.title = true
    · simp only [List.filter_cons, hh, if_true, List.map_cons, Function.comp, List.filterMap_cons,
        verdict_of_isHit K order st.dividers q r hh]
      rw [← ih]
    · have hh' : isHit K q r.data.2.1 = false := by
        have : isHit K q r.title = false := by simpa using hh
        exact this
      simp only [List.filter_cons, hh, List.filterMap_cons, verdict_of_not_isHit K st.dividers q _ hh']
      exact ih

/-- … hence every record whose verdict is `some res` has `res` among the results. -/
theorem C06_complete (S : Sorter) (hS : SorterOK S) (K : Consts) (hK : 1 ≤ K.sortFactor)
    (hP : 1 ≤ K.prepFactor) (order : List ScoreType) (st : Store) (h : StoreInv S K st) (q : Text)
    (hlen : st.records.length ≤ st.limit) (r : Record) (hr : r ∈ st.records) (res : Result)
    (hv : verdict K st.dividers q r.data = some res) : res ∈ st.search S K order q :=
  (C06_complete_perm S hS K hK hP order st h q hlen).mem_iff.mpr (List.mem_filterMap.mpr ⟨r, hr, hv⟩)

/-- With pairwise distinct ratings and at most `l·prepFactor` (source: `10·l`) records, the results for limit `l`
    are exactly the first `l` results for any larger limit `L` – in particular for an "unlimited" `L` ≥ number of
    records, whose list contains every own-hit (`C06_complete`). Score order of the source. -/
theorem C06_prefix_of_unlimited (S : Sorter) (hS : SorterOK S) (K : Consts) (hK : 1 ≤ K.sortFactor)
    (st : Store) (h : StoreInv S K st) (q : Text) (l L : Nat) (hlL : l ≤ L)
    (hcap : st.records.length ≤ l * K.prepFactor)
    (hd : DistinctRatings (st.records.map Record.data)) :
    (st.setLimit l).search S K Gen.srcScoreOrder q = ((st.setLimit L).search S K Gen.srcScoreOrder q).take l := by
  by_cases hw : q.words = []
  · rw [C12_distinct_exact_results S hS K hK _ (StoreInv_setLimit h l) q hw hd.records,
      C12_distinct_exact_results S hS K hK _ (StoreInv_setLimit h L) q hw hd.records, ← List.map_take,
      List.take_take]
    simp only [Store.setLimit]
    rw [Nat.min_eq_left hlL]
  · have hcapL : st.records.length ≤ L * K.prepFactor := Nat.le_trans hcap (Nat.mul_le_mul_right _ hlL)
    rw [search_eq_ideal hS hK Gen.srcScoreOrder (by decide) (StoreInv_setLimit h l) q hcap (Or.inl hw) hd,
      search_eq_ideal hS hK Gen.srcScoreOrder (by decide) (StoreInv_setLimit h L) q hcapL (Or.inl hw) hd,
      ← List.map_take, List.take_take]
    simp only [Store.setLimit]
    rw [Nat.min_eq_left hlL]

/-- the same for a query with at least one word and ANY score order that contains the rating -/
theorem C06_prefix_of_unlimited_wordy (S : Sorter) (hS : SorterOK S) (K : Consts) (hK : 1 ≤ K.sortFactor)
    (order : List ScoreType) (hr : ScoreType.rating ∈ order)
    (st : Store) (h : StoreInv S K st) (q : Text) (hw : q.words ≠ []) (l L : Nat) (hlL : l ≤ L)
    (hcap : st.records.length ≤ l * K.prepFactor)
    (hd : DistinctRatings (st.records.map Record.data)) :
    (st.setLimit l).search S K order q = ((st.setLimit L).search S K order q).take l := by
  have hcapL : st.records.length ≤ L * K.prepFactor := Nat.le_trans hcap (Nat.mul_le_mul_right _ hlL)
  rw [search_eq_ideal hS hK order hr (StoreInv_setLimit h l) q hcap (Or.inl hw) hd,
    search_eq_ideal hS hK order hr (StoreInv_setLimit h L) q hcapL (Or.inl hw) hd,
    ← List.map_take, List.take_take]
  simp only [Store.setLimit]
  rw [Nat.min_eq_left hlL]

/-- the freshly built stores: `mkStore … l …` versus `mkStore … L …` -/
theorem C06_prefix_of_unlimited_mkStore (S : Sorter) (hS : SorterOK S) (K : Consts) (hK : 1 ≤ K.sortFactor)
    (dv : List Nat × List Nat) (recs : List (Nat × Text × Nat)) (q : Text) (l L : Nat) (hlL : l ≤ L)
    (hcap : recs.length ≤ l * K.prepFactor) (hd : DistinctRatings recs) :
    (mkStore K l dv recs).search S K Gen.srcScoreOrder q =
      ((mkStore K L dv recs).search S K Gen.srcScoreOrder q).take l := by
  have h := StoreInv_fresh S K L dv recs
  have := C06_prefix_of_unlimited S hS K hK (mkStore K L dv recs) h q l L hlL
    (by rw [mkStore_records_length]; exact hcap) (by rw [mkStore_records_data]; exact hd)
  rw [mkStore_setLimit, mkStore_setLimit] at this
  exact this

/-! ### at the constants generated from the source (`prepFactor = 10`, `sortFactor = 2`) -/

theorem C06_nodup_src (S : Sorter) (hS : SorterOK S) (st : Store) (h : StoreInv S Gen.srcConsts st) (q : Text) :
    st.search S Gen.srcConsts Gen.srcScoreOrder q =
      (st.listed S Gen.srcConsts Gen.srcScoreOrder q).map
        (fun r => renderWith st.dividers (scoreHit Gen.srcConsts Gen.srcScoreOrder q r)) ∧
    ((st.listed S Gen.srcConsts Gen.srcScoreOrder q).map (·.ix)).Nodup ∧
    (st.listed S Gen.srcConsts Gen.srcScoreOrder q).Nodup ∧
    ∀ r ∈ st.listed S Gen.srcConsts Gen.srcScoreOrder q, r ∈ st.records :=
  C06_nodup S hS Gen.srcConsts (by decide) Gen.srcScoreOrder st h q

theorem C06_ids_nodup_src (S : Sorter) (hS : SorterOK S) (st : Store) (h : StoreInv S Gen.srcConsts st) (q : Text)
    (hid : (st.records.map (·.id)).Nodup) :
    ((st.search S Gen.srcConsts Gen.srcScoreOrder q).map (·.id)).Nodup :=
  C06_ids_nodup S hS Gen.srcConsts (by decide) Gen.srcScoreOrder st h q hid

theorem C06_complete_src (S : Sorter) (hS : SorterOK S) (st : Store) (h : StoreInv S Gen.srcConsts st) (q : Text)
    (hlen : st.records.length ≤ st.limit) (r : Record) (hr : r ∈ st.records) (res : Result)
    (hv : verdict Gen.srcConsts st.dividers q r.data = some res) :
    res ∈ st.search S Gen.srcConsts Gen.srcScoreOrder q :=
  C06_complete S hS Gen.srcConsts (by decide) (by decide) Gen.srcScoreOrder st h q hlen r hr res hv

theorem C06_prefix_of_unlimited_src (S : Sorter) (hS : SorterOK S) (st : Store) (h : StoreInv S Gen.srcConsts st)
    (q : Text) (l L : Nat) (hlL : l ≤ L) (hcap : st.records.length ≤ l * 10)
    (hd : DistinctRatings (st.records.map Record.data)) :
    (st.setLimit l).search S Gen.srcConsts Gen.srcScoreOrder q =
      ((st.setLimit L).search S Gen.srcConsts Gen.srcScoreOrder q).take l :=
  C06_prefix_of_unlimited S hS Gen.srcConsts (by decide) st h q l L hlL hcap hd

/-! ### non-vacuity -/

section Examples
private def exT (c : Nat) : Text :=
  { words := [⟨0, 0, 1, 1, none, true⟩], source := [c], chars := [c], classes := [.any] }
private def exRecs : List (Nat × Text × Nat) := [(7, exT 97, 3), (8, exT 98, 9), (9, exT 97, 5)]

example : SorterOK mergeSorter := mergeSorter_ok
example : 1 ≤ Gen.srcConsts.sortFactor ∧ 1 ≤ Gen.srcConsts.prepFactor := by decide
example : StoreInv mergeSorter Gen.srcConsts (mkStore Gen.srcConsts 2 ([91], [93]) exRecs) := StoreInv_fresh ..
example : DistinctRatings exRecs := by unfold DistinctRatings; decide
example : exRecs.length ≤ 2 * Gen.srcConsts.prepFactor := by decide
example : ((mkStore Gen.srcConsts 2 ([91], [93]) exRecs).records.map (·.id)).Nodup := by decide
/-- a sorting routine meeting `SorterOK` whose treatment of ties depends on the length of its input (as that of an
    unstable sort such as `sort_unstable_by` may) -/
private def oddSorter : Sorter :=
  ⟨fun le l => if l.length = 2 then locInsSorter.sort le l.reverse else locInsSorter.sort le l⟩

private theorem oddSorter_ok : SorterOK oddSorter := by
  intro α le P
  refine ⟨fun l => ?_, fun l => ?_⟩
  · show (if l.length = 2 then locInsSorter.sort le l.reverse else locInsSorter.sort le l).Perm l
    split
    · exact ((locInsSorter_ok le P).perm _).trans (List.reverse_perm l)
    · exact (locInsSorter_ok le P).perm _
  · show (if l.length = 2 then locInsSorter.sort le l.reverse else locInsSorter.sort le l).Pairwise _
    split
    · exact (locInsSorter_ok le P).sorted _
    · exact (locInsSorter_ok le P).sorted _

private def exQ : Text := { words := [], source := [], chars := [], classes := [] }
private def exTie : List (Nat × Text × Nat) := [(7, exT 97, 3), (8, exT 97, 3), (9, exT 97, 3)]

/-- COUNTEREXAMPLE with ties: three records with equal title and rating. With limit 1 the bounded selection sorts
    two-element buffers, with limit 3 one three-element buffer; a sorting routine that breaks ties differently on
    different lengths (allowed by `SorterOK`) then returns record 9 for limit 1, but record 7 as the first of the
    unlimited list. Hence `DistinctRatings` cannot be dropped from `C06_prefix_of_unlimited`. -/
example : SorterOK oddSorter ∧ exTie.length ≤ 1 * Gen.srcConsts.prepFactor ∧
    (mkStore Gen.srcConsts 1 ([91], [93]) exTie).search oddSorter Gen.srcConsts Gen.srcScoreOrder exQ
      = [⟨9, [97]⟩] ∧
    ((mkStore Gen.srcConsts 3 ([91], [93]) exTie).search oddSorter Gen.srcConsts Gen.srcScoreOrder exQ).take 1
      = [⟨7, [97]⟩] := ⟨oddSorter_ok, by decide, by decide, by decide⟩

/-- … whereas with distinct ratings the limit-1 answer is the head of the limit-3 answer (instance of the theorem) -/
example :
    (mkStore Gen.srcConsts 1 ([91], [93]) exRecs).search oddSorter Gen.srcConsts Gen.srcScoreOrder exQ
      = [⟨8, [98]⟩] ∧
    (mkStore Gen.srcConsts 3 ([91], [93]) exRecs).search oddSorter Gen.srcConsts Gen.srcScoreOrder exQ
      = [⟨8, [98]⟩, ⟨9, [97]⟩, ⟨7, [97]⟩] := by decide
end Examples

end Lucid
