/-
  LucidProofs.Lemmas.Tokenize — `tokenization/{text,word_shape,word_split}.rs`
  (model: `splitSpans`, `splitWord`, `stripWord`, `renumber`, `Text.split`, `Text.strip`, `Text.lower`,
  `Text.setPos`, `Text.setCharClasses`, `Text.setStem`).

  Part 1: list helpers (`takeWhile`, `slice`).
  Part 2: `splitSpans`: spans are non-empty, in bounds, strictly ordered, separator-free, maximal on both
          sides, cover every non-separator position exactly once; a span ends at the end of the text iff the
          last character is not a separator.
  Part 3: `Span` = the `(lo, hi, fin)` part of a word; `stripSpan` and its specification.
  Part 4: invariants `SplitInv` (after split) and `SpanInv` (after strip), and the steps establishing /
          preserving them; `renumber`, `setPos`, `setStem`, `setCharClasses`, `lower`.
-/
import LucidProofs.Lemmas.Normalize

namespace Lucid

/-! ## Part 1: list helpers -/

theorem takeWhile_length_le {α : Type} (p : α → Bool) (l : List α) : (l.takeWhile p).length ≤ l.length := by
  induction l with
  | nil => simp
  | cons a l ih => by_cases h : p a = true <;> simp [h] <;> omega

/-- every position inside the `takeWhile` prefix satisfies the predicate -/
theorem takeWhile_getElem? {α : Type} (p : α → Bool) (l : List α) :
    ∀ k, k < (l.takeWhile p).length → ∃ c, l[k]? = some c ∧ p c = true := by
  induction l with
  | nil => simp
  | cons a l ih =>
    intro k hk
    by_cases h : p a = true
    · simp only [List.takeWhile_cons, h, if_true, List.length_cons] at hk
      cases k with
      | zero => exact ⟨a, by simp, h⟩
      | succ k =>
        obtain ⟨c, hc, hp⟩ := ih k (by omega)
        exact ⟨c, by simpa using hc, hp⟩
    · simp [h] at hk

/-- the element right after the `takeWhile` prefix (if any) fails the predicate -/
theorem takeWhile_stop {α : Type} (p : α → Bool) (l : List α) (h : (l.takeWhile p).length < l.length) :
    ∃ c, l[(l.takeWhile p).length]? = some c ∧ p c = false := by
  induction l with
  | nil => simp at h
  | cons a l ih =>
    by_cases ha : p a = true
    · simp only [List.takeWhile_cons, ha, if_true, List.length_cons] at h ⊢
      obtain ⟨c, hc, hp⟩ := ih (by omega)
      exact ⟨c, by simpa using hc, hp⟩
    · refine ⟨a, by simp [ha], by simpa using ha⟩

theorem slice_length {α : Type} (l : List α) (lo hi : Nat) (h : hi ≤ l.length) :
    (slice l lo hi).length = hi - lo := by
  simp only [slice, List.length_take, List.length_drop]
  omega

theorem slice_getElem? {α : Type} (l : List α) (lo hi k : Nat) :
    (slice l lo hi)[k]? = if k < hi - lo then l[lo + k]? else none := by
  simp only [slice, List.getElem?_take, List.getElem?_drop]

theorem slice_full {α : Type} (l : List α) : slice l 0 l.length = l := by
  simp [slice]

theorem mem_slice {α : Type} (l : List α) (lo hi : Nat) (c : α) (h : c ∈ slice l lo hi) :
    ∃ k, lo ≤ k ∧ k < hi ∧ l[k]? = some c := by
  obtain ⟨k, hk⟩ := List.mem_iff_getElem?.1 h
  rw [slice_getElem?] at hk
  split at hk
  · exact ⟨lo + k, by omega, by omega, hk⟩
  · simp at hk

/-! ## Part 2: `splitSpans` -/

/-- spans are non-empty, lie between the reading position and the end, and start either at the open run
    (`cur = some s`) or at/after the reading position -/
theorem splitSpans_bounds (isSep : Nat → Bool) (cs : List Nat) (pos : Nat) (cur : Option Nat)
    (hcur : ∀ s, cur = some s → s < pos) :
    ∀ x ∈ splitSpans isSep cs pos cur, x.1 < x.2 ∧ pos ≤ x.2 ∧ x.2 ≤ pos + cs.length ∧
      (cur = none → pos ≤ x.1) ∧ (∀ s, cur = some s → x.1 = s ∨ pos < x.1) := by
  fun_induction splitSpans isSep cs pos cur with
  | case1 => simp
  | case2 pos s =>
    intro x hx
    simp only [List.mem_singleton] at hx
    subst hx
    have := hcur s rfl
    simp; omega
  | case3 c cs pos h ih =>
    intro x hx
    have := ih (by simp) x hx
    simp at this ⊢; omega
  | case4 c cs pos h ih =>
    intro x hx
    have := ih (by simp) x hx
    simp at this ⊢; omega
  | case5 c cs pos s h ih =>
    intro x hx
    have hs := hcur s rfl
    rcases List.mem_cons.1 hx with hx | hx
    · subst hx; simp; omega
    · have := ih (by simp) x hx
      simp at this ⊢; omega
  | case6 c cs pos s h ih =>
    intro x hx
    have hs := hcur s rfl
    have := ih (by intro s' hs'; cases hs'; omega) x hx
    simp at this ⊢; omega

/-- spans are strictly ordered: at least one separator lies between two of them -/
theorem splitSpans_pairwise (isSep : Nat → Bool) (cs : List Nat) (pos : Nat) (cur : Option Nat)
    (hcur : ∀ s, cur = some s → s < pos) :
    (splitSpans isSep cs pos cur).Pairwise (fun x y => x.2 < y.1) := by
  fun_induction splitSpans isSep cs pos cur with
  | case1 => simp
  | case2 => simp
  | case3 c cs pos h ih => exact ih (by simp)
  | case4 c cs pos h ih => exact ih (by simp)
  | case5 c cs pos s h ih =>
    refine List.Pairwise.cons ?_ (ih (by simp))
    intro y hy
    have := splitSpans_bounds isSep cs (pos+1) none (by simp) y hy
    simp at this ⊢; omega
  | case6 c cs pos s h ih =>
    exact ih (by intro s' hs'; cases hs'; have := hcur s rfl; omega)

/-- no separator inside a span (positions at or after the reading position) -/
theorem splitSpans_nosep (isSep : Nat → Bool) (cs : List Nat) (pos : Nat) (cur : Option Nat)
    (hcur : ∀ s, cur = some s → s < pos) :
    ∀ x ∈ splitSpans isSep cs pos cur, ∀ k, x.1 ≤ k → k < x.2 → pos ≤ k →
      ∃ c, cs[k - pos]? = some c ∧ isSep c = false := by
  fun_induction splitSpans isSep cs pos cur with
  | case1 => simp
  | case2 pos s =>
    intro x hx k h1 h2 h3
    simp only [List.mem_singleton] at hx
    subst hx
    simp at h2; omega
  | case3 c cs pos h ih =>
    intro x hx k h1 h2 h3
    have hb := splitSpans_bounds isSep cs (pos+1) none (by simp) x hx
    simp at hb
    obtain ⟨d, hd, hs⟩ := ih (by simp) x hx k h1 h2 (by omega)
    refine ⟨d, ?_, hs⟩
    have : k - pos = (k - (pos + 1)) + 1 := by omega
    rw [this, List.getElem?_cons_succ]; exact hd
  | case4 c cs pos h ih =>
    intro x hx k h1 h2 h3
    by_cases hk : k = pos
    · subst hk
      exact ⟨c, by simp, by simpa using h⟩
    · obtain ⟨d, hd, hs⟩ := ih (by simp) x hx k h1 h2 (by omega)
      refine ⟨d, ?_, hs⟩
      have : k - pos = (k - (pos + 1)) + 1 := by omega
      rw [this, List.getElem?_cons_succ]; exact hd
  | case5 c cs pos s h ih =>
    intro x hx k h1 h2 h3
    rcases List.mem_cons.1 hx with hx | hx
    · subst hx; simp at h2; omega
    · have hb := splitSpans_bounds isSep cs (pos+1) none (by simp) x hx
      simp at hb
      obtain ⟨d, hd, hs⟩ := ih (by simp) x hx k h1 h2 (by omega)
      refine ⟨d, ?_, hs⟩
      have : k - pos = (k - (pos + 1)) + 1 := by omega
      rw [this, List.getElem?_cons_succ]; exact hd
  | case6 c cs pos s h ih =>
    intro x hx k h1 h2 h3
    have hs := hcur s rfl
    by_cases hk : k = pos
    · subst hk
      exact ⟨c, by simp, by simpa using h⟩
    · obtain ⟨d, hd, hs⟩ := ih (by intro s' hs'; cases hs'; omega) x hx k h1 h2 (by omega)
      refine ⟨d, ?_, hs⟩
      have : k - pos = (k - (pos + 1)) + 1 := by omega
      rw [this, List.getElem?_cons_succ]; exact hd

/-- the open run is closed by a span starting at its start -/
theorem splitSpans_cur (isSep : Nat → Bool) (cs : List Nat) (pos s : Nat) :
    ∃ x ∈ splitSpans isSep cs pos (some s), x.1 = s ∧ pos ≤ x.2 := by
  induction cs generalizing pos with
  | nil => exact ⟨(s, pos), by simp [splitSpans], rfl, Nat.le_refl _⟩
  | cons c cs ih =>
    by_cases h : isSep c = true
    · exact ⟨(s, pos), by simp [splitSpans, h], rfl, Nat.le_refl _⟩
    · obtain ⟨x, hx, h1, h2⟩ := ih (pos + 1)
      exact ⟨x, by simpa [splitSpans, h] using hx, h1, by omega⟩

/-- every non-separator position is covered by a span -/
theorem splitSpans_cover (isSep : Nat → Bool) (cs : List Nat) (pos : Nat) (cur : Option Nat)
    (hcur : ∀ s, cur = some s → s < pos) :
    ∀ k c, cs[k]? = some c → isSep c = false →
      ∃ x ∈ splitSpans isSep cs pos cur, x.1 ≤ pos + k ∧ pos + k < x.2 := by
  induction cs generalizing pos cur with
  | nil => simp
  | cons d cs ih =>
    intro k c hk hc
    cases k with
    | zero =>
      simp only [List.getElem?_cons_zero, Option.some.injEq] at hk
      subst hk
      cases cur with
      | none =>
        obtain ⟨x, hx, h1, h2⟩ := splitSpans_cur isSep cs (pos + 1) pos
        exact ⟨x, by simpa [splitSpans, hc] using hx, by omega, by omega⟩
      | some s =>
        have := hcur s rfl
        obtain ⟨x, hx, h1, h2⟩ := splitSpans_cur isSep cs (pos + 1) s
        exact ⟨x, by simpa [splitSpans, hc] using hx, by omega, by omega⟩
    | succ k =>
      simp only [List.getElem?_cons_succ] at hk
      cases cur with
      | none =>
        by_cases hd : isSep d = true
        · obtain ⟨x, hx, h1, h2⟩ := ih (pos + 1) none (by simp) k c hk hc
          exact ⟨x, by simpa [splitSpans, hd] using hx, by omega, by omega⟩
        · obtain ⟨x, hx, h1, h2⟩ := ih (pos + 1) (some pos) (by simp) k c hk hc
          exact ⟨x, by simpa [splitSpans, hd] using hx, by omega, by omega⟩
      | some s =>
        have := hcur s rfl
        by_cases hd : isSep d = true
        · obtain ⟨x, hx, h1, h2⟩ := ih (pos + 1) none (by simp) k c hk hc
          exact ⟨x, by simp [splitSpans, hd, hx], by omega, by omega⟩
        · obtain ⟨x, hx, h1, h2⟩ := ih (pos + 1) (some s) (by intro s' hs'; cases hs'; omega) k c hk hc
          exact ⟨x, by simpa [splitSpans, hd] using hx, by omega, by omega⟩

/-- right-maximal: a span ends at the end of the text or right before a separator -/
theorem splitSpans_endmax (isSep : Nat → Bool) (cs : List Nat) (pos : Nat) (cur : Option Nat)
    (hcur : ∀ s, cur = some s → s < pos) :
    ∀ x ∈ splitSpans isSep cs pos cur,
      x.2 = pos + cs.length ∨ ∃ c, cs[x.2 - pos]? = some c ∧ isSep c = true := by
  induction cs generalizing pos cur with
  | nil =>
    intro x hx
    cases cur with
    | none => simp [splitSpans] at hx
    | some s => simp [splitSpans] at hx; subst hx; simp
  | cons d cs ih =>
    intro x hx
    have step : ∀ cur', (∀ s, cur' = some s → s < pos + 1) → x ∈ splitSpans isSep cs (pos + 1) cur' →
        x.2 = pos + (d :: cs).length ∨ ∃ c, (d :: cs)[x.2 - pos]? = some c ∧ isSep c = true := by
      intro cur' hc' hx'
      have hb := splitSpans_bounds isSep cs (pos + 1) cur' hc' x hx'
      rcases ih (pos + 1) cur' hc' x hx' with h | ⟨c, h1, h2⟩
      · left; simp; omega
      · right
        refine ⟨c, ?_, h2⟩
        have : x.2 - pos = (x.2 - (pos + 1)) + 1 := by omega
        rw [this, List.getElem?_cons_succ]; exact h1
    cases cur with
    | none =>
      by_cases hd : isSep d = true
      · exact step none (by simp) (by simpa [splitSpans, hd] using hx)
      · exact step (some pos) (by simp) (by simpa [splitSpans, hd] using hx)
    | some s =>
      have := hcur s rfl
      by_cases hd : isSep d = true
      · simp only [splitSpans, hd, if_true, List.mem_cons] at hx
        rcases hx with hx | hx
        · subst hx; right; exact ⟨d, by simp, hd⟩
        · exact step none (by simp) hx
      · exact step (some s) (by intro s' hs'; cases hs'; omega) (by simpa [splitSpans, hd] using hx)

/-- left-maximal: a span starts at the open run / the reading position, or right after a separator -/
theorem splitSpans_startmax (isSep : Nat → Bool) (cs : List Nat) (pos : Nat) (cur : Option Nat)
    (hcur : ∀ s, cur = some s → s < pos) :
    ∀ x ∈ splitSpans isSep cs pos cur,
      x.1 = cur.getD pos ∨ (pos < x.1 ∧ ∃ c, cs[x.1 - 1 - pos]? = some c ∧ isSep c = true) := by
  induction cs generalizing pos cur with
  | nil =>
    intro x hx
    cases cur with
    | none => simp [splitSpans] at hx
    | some s => simp [splitSpans] at hx; subst hx; simp
  | cons d cs ih =>
    intro x hx
    have lift : (pos + 1 < x.1 ∧ ∃ c, cs[x.1 - 1 - (pos + 1)]? = some c ∧ isSep c = true) →
        (pos < x.1 ∧ ∃ c, (d :: cs)[x.1 - 1 - pos]? = some c ∧ isSep c = true) := by
      rintro ⟨h0, c, h1, h2⟩
      refine ⟨by omega, c, ?_, h2⟩
      have : x.1 - 1 - pos = (x.1 - 1 - (pos + 1)) + 1 := by omega
      rw [this, List.getElem?_cons_succ]; exact h1
    cases cur with
    | none =>
      by_cases hd : isSep d = true
      · have hx' : x ∈ splitSpans isSep cs (pos + 1) none := by simpa [splitSpans, hd] using hx
        rcases ih (pos + 1) none (by simp) x hx' with h | h
        · right
          simp only [Option.getD_none] at h
          refine ⟨by omega, d, ?_, hd⟩
          have : x.1 - 1 - pos = 0 := by omega
          rw [this]; simp
        · exact Or.inr (lift h)
      · have hx' : x ∈ splitSpans isSep cs (pos + 1) (some pos) := by simpa [splitSpans, hd] using hx
        rcases ih (pos + 1) (some pos) (by simp) x hx' with h | h
        · left; simpa using h
        · exact Or.inr (lift h)
    | some s =>
      have := hcur s rfl
      by_cases hd : isSep d = true
      · simp only [splitSpans, hd, if_true, List.mem_cons] at hx
        rcases hx with hx | hx
        · subst hx; left; simp
        · rcases ih (pos + 1) none (by simp) x hx with h | h
          · right
            simp only [Option.getD_none] at h
            refine ⟨by omega, d, ?_, hd⟩
            have : x.1 - 1 - pos = 0 := by omega
            rw [this]; simp
          · exact Or.inr (lift h)
      · have hx' : x ∈ splitSpans isSep cs (pos + 1) (some s) := by simpa [splitSpans, hd] using hx
        rcases ih (pos + 1) (some s) (by intro s' hs'; cases hs'; omega) x hx' with h | h
        · left; simpa using h
        · exact Or.inr (lift h)

/-! ### top-level statements: `splitSpans isSep l 0 none` -/

/-- the `WordSplit` iterator run on a whole text -/
abbrev spansOf (isSep : Nat → Bool) (l : List Nat) : List (Nat × Nat) := splitSpans isSep l 0 none

theorem spansOf_bounds (isSep : Nat → Bool) (l : List Nat) :
    ∀ x ∈ spansOf isSep l, x.1 < x.2 ∧ x.2 ≤ l.length := by
  intro x hx
  have := splitSpans_bounds isSep l 0 none (by simp) x hx
  omega

theorem spansOf_pairwise (isSep : Nat → Bool) (l : List Nat) :
    (spansOf isSep l).Pairwise (fun x y => x.2 < y.1) :=
  splitSpans_pairwise isSep l 0 none (by simp)

theorem spansOf_nosep (isSep : Nat → Bool) (l : List Nat) :
    ∀ x ∈ spansOf isSep l, ∀ k, x.1 ≤ k → k < x.2 → ∃ c, l[k]? = some c ∧ isSep c = false := by
  intro x hx k h1 h2
  simpa using splitSpans_nosep isSep l 0 none (by simp) x hx k h1 h2 (Nat.zero_le _)

theorem spansOf_cover (isSep : Nat → Bool) (l : List Nat) :
    ∀ k c, l[k]? = some c → isSep c = false → ∃ x ∈ spansOf isSep l, x.1 ≤ k ∧ k < x.2 := by
  intro k c hk hc
  simpa using splitSpans_cover isSep l 0 none (by simp) k c hk hc

/-- two spans containing the same position are the same span -/
theorem spansOf_unique (isSep : Nat → Bool) (l : List Nat) (x y : Nat × Nat)
    (hx : x ∈ spansOf isSep l) (hy : y ∈ spansOf isSep l) (k : Nat)
    (h1 : x.1 ≤ k) (h2 : k < x.2) (h3 : y.1 ≤ k) (h4 : k < y.2) : x = y := by
  have hp := spansOf_pairwise isSep l
  have hbx := spansOf_bounds isSep l x hx
  have hby := spansOf_bounds isSep l y hy
  obtain ⟨i, hi⟩ := List.mem_iff_getElem?.1 hx
  obtain ⟨j, hj⟩ := List.mem_iff_getElem?.1 hy
  rw [List.pairwise_iff_getElem] at hp
  obtain ⟨hil, hie⟩ := List.getElem?_eq_some_iff.1 hi
  obtain ⟨hjl, hje⟩ := List.getElem?_eq_some_iff.1 hj
  rcases Nat.lt_trichotomy i j with h | h | h
  · have := hp i j hil hjl h
    rw [hie, hje] at this; omega
  · subst h; rw [hie] at hje; exact hje
  · have := hp j i hjl hil h
    rw [hie, hje] at this; omega

/-- every non-separator position lies in exactly one span -/
theorem spansOf_cover_unique (isSep : Nat → Bool) (l : List Nat) (k c : Nat)
    (hk : l[k]? = some c) (hc : isSep c = false) :
    ∃ x ∈ spansOf isSep l, (x.1 ≤ k ∧ k < x.2) ∧
      ∀ y ∈ spansOf isSep l, y.1 ≤ k → k < y.2 → y = x := by
  obtain ⟨x, hx, h1, h2⟩ := spansOf_cover isSep l k c hk hc
  exact ⟨x, hx, ⟨h1, h2⟩, fun y hy h3 h4 => spansOf_unique isSep l y x hy hx k h3 h4 h1 h2⟩

/-- a span ends at the end of the text or right before a separator -/
theorem spansOf_endmax (isSep : Nat → Bool) (l : List Nat) :
    ∀ x ∈ spansOf isSep l, x.2 = l.length ∨ ∃ c, l[x.2]? = some c ∧ isSep c = true := by
  intro x hx
  simpa using splitSpans_endmax isSep l 0 none (by simp) x hx

/-- a span starts at the start of the text or right after a separator -/
theorem spansOf_startmax (isSep : Nat → Bool) (l : List Nat) :
    ∀ x ∈ spansOf isSep l, x.1 = 0 ∨ (0 < x.1 ∧ ∃ c, l[x.1 - 1]? = some c ∧ isSep c = true) := by
  intro x hx
  simpa using splitSpans_startmax isSep l 0 none (by simp) x hx

/-- some span ends at the end of the text iff the last character is not a separator -/
theorem spansOf_ends_at_end_iff (isSep : Nat → Bool) (l : List Nat) :
    (∃ x ∈ spansOf isSep l, x.2 = l.length) ↔ ∃ c, l.getLast? = some c ∧ isSep c = false := by
  rw [List.getLast?_eq_getElem?]
  constructor
  · rintro ⟨x, hx, he⟩
    have hb := spansOf_bounds isSep l x hx
    exact spansOf_nosep isSep l x hx (l.length - 1) (by omega) (by omega)
  · rintro ⟨c, hc, hs⟩
    obtain ⟨x, hx, h1, h2⟩ := spansOf_cover isSep l _ c hc hs
    have hb := spansOf_bounds isSep l x hx
    exact ⟨x, hx, by omega⟩

/-- only the last span can end at the end of the text -/
theorem spansOf_end_is_last (isSep : Nat → Bool) (l : List Nat) (i : Nat) (x : Nat × Nat)
    (hi : (spansOf isSep l)[i]? = some x) (he : x.2 = l.length) : i + 1 = (spansOf isSep l).length := by
  obtain ⟨hil, hie⟩ := List.getElem?_eq_some_iff.1 hi
  by_cases h : i + 1 < (spansOf isSep l).length
  · have hp := spansOf_pairwise isSep l
    rw [List.pairwise_iff_getElem] at hp
    have := hp i (i + 1) hil h (by omega)
    have hb := spansOf_bounds isSep l _ (List.getElem_mem h)
    rw [hie] at this; omega
  · omega

/-! ## Part 3: spans of words and `stripWord` -/

/-- the part of a word that split/strip compute and that the later steps leave alone -/
structure Span where
  lo  : Nat
  hi  : Nat
  fin : Bool
deriving DecidableEq, Repr

def WordShape.span (w : WordShape) : Span := ⟨w.lo, w.hi, w.fin⟩

def stripLeft (isPat : Nat → Bool) (cs : List Nat) : Nat := (cs.takeWhile isPat).length

def stripRight (isPat : Nat → Bool) (cs : List Nat) : Nat :=
  ((cs.reverse.takeWhile isPat).take (cs.length - stripLeft isPat cs)).length

/-- `WordShape::strip` on the span of a word -/
def stripSpan (isPat : Nat → Bool) (chars : List Nat) (x : Span) : Span :=
  ⟨x.lo + stripLeft isPat (slice chars x.lo x.hi), x.hi - stripRight isPat (slice chars x.lo x.hi),
   x.fin || decide (stripRight isPat (slice chars x.lo x.hi) ≠ 0)⟩

theorem stripWord_span (isPat : Nat → Bool) (chars : List Nat) (w : WordShape) :
    (stripWord isPat chars w).span = stripSpan isPat chars w.span := rfl

/-- `left`/`right` of `WordShape::strip` on a list: they do not overlap, everything they remove matches
    the pattern, and what remains (if anything) begins and ends with a non-matching character -/
theorem strip_list_spec (p : Nat → Bool) (cs : List Nat) :
    stripLeft p cs + stripRight p cs ≤ cs.length ∧
    (∀ k, k < stripLeft p cs → ∃ c, cs[k]? = some c ∧ p c = true) ∧
    (∀ k, cs.length - stripRight p cs ≤ k → k < cs.length → ∃ c, cs[k]? = some c ∧ p c = true) ∧
    (stripLeft p cs + stripRight p cs < cs.length →
      (∃ c, cs[stripLeft p cs]? = some c ∧ p c = false) ∧
      (∃ c, cs[cs.length - stripRight p cs - 1]? = some c ∧ p c = false)) := by
  have hl : stripLeft p cs ≤ cs.length := takeWhile_length_le p cs
  have hr0 : (cs.reverse.takeWhile p).length ≤ cs.length := by
    have := takeWhile_length_le p cs.reverse
    simpa using this
  have hr : stripRight p cs = min (cs.length - stripLeft p cs) (cs.reverse.takeWhile p).length := by
    simp [stripRight, List.length_take]
  refine ⟨by omega, ?_, ?_, ?_⟩
  · intro k hk
    exact takeWhile_getElem? p cs k hk
  · intro k h1 h2
    obtain ⟨c, hc, hp⟩ := takeWhile_getElem? p cs.reverse (cs.length - 1 - k) (by omega)
    rw [List.getElem?_reverse (by omega)] at hc
    have : cs.length - 1 - (cs.length - 1 - k) = k := by omega
    rw [this] at hc
    exact ⟨c, hc, hp⟩
  · intro h
    have hr' : stripRight p cs = (cs.reverse.takeWhile p).length := by omega
    refine ⟨takeWhile_stop p cs (by unfold stripLeft at h; omega), ?_⟩
    obtain ⟨c, hc, hp⟩ := takeWhile_stop p cs.reverse (by simp; omega)
    rw [List.getElem?_reverse (by omega)] at hc
    rw [hr']
    have : cs.length - (cs.reverse.takeWhile p).length - 1 = cs.length - 1 - (cs.reverse.takeWhile p).length := by
      omega
    rw [this]
    exact ⟨c, hc, hp⟩

/-- specification of `WordShape::strip` for a word whose slice is in bounds -/
theorem stripSpan_spec (p : Nat → Bool) (chars : List Nat) (x : Span) (hhi : x.hi ≤ chars.length) :
    x.lo ≤ (stripSpan p chars x).lo ∧ (stripSpan p chars x).hi ≤ x.hi ∧
    (x.lo ≤ x.hi → (stripSpan p chars x).lo ≤ (stripSpan p chars x).hi) ∧
    ((stripSpan p chars x).fin = true ↔ (x.fin = true ∨ (stripSpan p chars x).hi ≠ x.hi)) ∧
    (∀ k c, x.lo ≤ k → k < x.hi → chars[k]? = some c → p c = false →
      (stripSpan p chars x).lo ≤ k ∧ k < (stripSpan p chars x).hi) ∧
    ((stripSpan p chars x).lo < (stripSpan p chars x).hi →
      (∃ c, chars[(stripSpan p chars x).lo]? = some c ∧ p c = false) ∧
      (∃ c, chars[(stripSpan p chars x).hi - 1]? = some c ∧ p c = false)) := by
  have hlen := slice_length chars x.lo x.hi hhi
  obtain ⟨h1, h2, h3, h4⟩ := strip_list_spec p (slice chars x.lo x.hi)
  rw [hlen] at h1 h3 h4
  simp only [stripSpan]
  have hL : ∃ left, stripLeft p (slice chars x.lo x.hi) = left := ⟨_, rfl⟩
  have hR : ∃ right, stripRight p (slice chars x.lo x.hi) = right := ⟨_, rfl⟩
  obtain ⟨left, hL⟩ := hL
  obtain ⟨right, hR⟩ := hR
  rw [hL] at h1 h2 h4
  rw [hR] at h1 h3 h4
  rw [hL, hR]
  refine ⟨by omega, by omega, by omega, ?_, ?_, ?_⟩
  · simp only [Bool.or_eq_true, decide_eq_true_eq]
    constructor
    · rintro (h | h)
      · exact Or.inl h
      · right; omega
    · rintro (h | h)
      · exact Or.inl h
      · right; omega
  · intro k c hk1 hk2 hkc hpc
    have hnl : ¬ (k - x.lo < left) := by
      intro hlt
      obtain ⟨c', hc', hp'⟩ := h2 (k - x.lo) hlt
      rw [slice_getElem?] at hc'
      have e : x.lo + (k - x.lo) = k := by omega
      rw [if_pos (by omega), e, hkc] at hc'
      cases hc'; rw [hpc] at hp'; cases hp'
    have hnr : ¬ (x.hi - x.lo - right ≤ k - x.lo) := by
      intro hge
      obtain ⟨c', hc', hp'⟩ := h3 (k - x.lo) hge (by omega)
      rw [slice_getElem?] at hc'
      have e : x.lo + (k - x.lo) = k := by omega
      rw [if_pos (by omega), e, hkc] at hc'
      cases hc'; rw [hpc] at hp'; cases hp'
    omega
  · intro hlt
    obtain ⟨⟨c1, hc1, hp1⟩, ⟨c2, hc2, hp2⟩⟩ := h4 (by omega)
    rw [slice_getElem?, if_pos (by omega)] at hc1 hc2
    refine ⟨⟨c1, hc1, hp1⟩, ⟨c2, ?_, hp2⟩⟩
    have e : x.lo + (x.hi - x.lo - right - 1) = x.hi - right - 1 := by omega
    rw [e] at hc2
    exact hc2

/-! ## Part 4: invariants of the word list after `split` and after `strip` -/

/-- `fin` flags. Record: every word finished. Query: a word is unfinished exactly when it reaches the end
    of the text. -/
def FinOK (query : Bool) (n : Nat) (x : Span) : Prop :=
  (query = false → x.fin = true) ∧ (query = true → (x.fin = false ↔ x.hi = n))

/-- state of the word list right after `split` -/
structure SplitInv (isSep : Nat → Bool) (query : Bool) (chars : List Nat) (xs : List Span) : Prop where
  bounds  : ∀ x ∈ xs, x.lo < x.hi ∧ x.hi ≤ chars.length
  ordered : xs.Pairwise (fun x y => x.hi ≤ y.lo)
  no_sep  : ∀ x ∈ xs, ∀ k, x.lo ≤ k → k < x.hi → ∃ c, chars[k]? = some c ∧ isSep c = false
  cover   : ∀ k c, chars[k]? = some c → isSep c = false → ∃ x ∈ xs, x.lo ≤ k ∧ k < x.hi
  fin     : ∀ x ∈ xs, FinOK query chars.length x

/-- state of the word list after `strip` (and after every later step) -/
structure SpanInv (isAl isSep : Nat → Bool) (query : Bool) (chars : List Nat) (xs : List Span) : Prop where
  bounds  : ∀ x ∈ xs, x.lo < x.hi ∧ x.hi ≤ chars.length
  ordered : xs.Pairwise (fun x y => x.hi ≤ y.lo)
  no_sep  : ∀ x ∈ xs, ∀ k, x.lo ≤ k → k < x.hi → ∃ c, chars[k]? = some c ∧ isSep c = false
  first   : ∀ x ∈ xs, ∃ c, chars[x.lo]? = some c ∧ isAl c = true
  last    : ∀ x ∈ xs, ∃ c, chars[x.hi - 1]? = some c ∧ isAl c = true
  cover   : ∀ k c, chars[k]? = some c → isAl c = true → ∃ x ∈ xs, x.lo ≤ k ∧ k < x.hi
  fin     : ∀ x ∈ xs, FinOK query chars.length x

/-- the spans produced by splitting one word `(0, chars.length)` with flag `f` -/
def splitSpanList (isSep : Nat → Bool) (f : Bool) (chars : List Nat) : List Span :=
  (spansOf isSep chars).map (fun se => ⟨se.1, se.2, f || decide (se.2 < chars.length)⟩)

theorem splitInv_splitSpanList (isSep : Nat → Bool) (query : Bool) (chars : List Nat) :
    SplitInv isSep query chars (splitSpanList isSep (!query) chars) := by
  refine ⟨?_, ?_, ?_, ?_, ?_⟩
  · intro x hx
    obtain ⟨se, hse, rfl⟩ := List.mem_map.1 hx
    exact spansOf_bounds isSep chars se hse
  · unfold splitSpanList
    rw [List.pairwise_map]
    exact (spansOf_pairwise isSep chars).imp (fun h => Nat.le_of_lt h)
  · intro x hx
    obtain ⟨se, hse, rfl⟩ := List.mem_map.1 hx
    exact spansOf_nosep isSep chars se hse
  · intro k c hk hc
    obtain ⟨se, hse, h1, h2⟩ := spansOf_cover isSep chars k c hk hc
    exact ⟨_, List.mem_map.2 ⟨se, hse, rfl⟩, h1, h2⟩
  · intro x hx
    obtain ⟨se, hse, rfl⟩ := List.mem_map.1 hx
    have hb := spansOf_bounds isSep chars se hse
    constructor
    · intro hq; simp [hq]
    · intro hq
      simp only [hq, Bool.not_true, Bool.false_or, decide_eq_false_iff_not]
      omega

/-- `strip` turns the split invariant into the final span invariant, provided separators are not
    alphanumeric -/
theorem spanInv_strip (isAl isSep : Nat → Bool) (hsep : ∀ c, isSep c = true → isAl c = false)
    (query : Bool) (chars : List Nat) (xs : List Span) (h : SplitInv isSep query chars xs) :
    SpanInv isAl isSep query chars
      ((xs.map (stripSpan (fun c => !isAl c) chars)).filter (fun x => decide (x.lo < x.hi))) := by
  have mem : ∀ y, y ∈ (xs.map (stripSpan (fun c => !isAl c) chars)).filter (fun x => decide (x.lo < x.hi)) →
      ∃ x ∈ xs, y = stripSpan (fun c => !isAl c) chars x ∧ y.lo < y.hi := by
    intro y hy
    obtain ⟨hy1, hy2⟩ := List.mem_filter.1 hy
    obtain ⟨x, hx, rfl⟩ := List.mem_map.1 hy1
    exact ⟨x, hx, rfl, by simpa using hy2⟩
  refine ⟨?_, ?_, ?_, ?_, ?_, ?_, ?_⟩
  · intro y hy
    obtain ⟨x, hx, rfl, hlt⟩ := mem y hy
    have hb := h.bounds x hx
    have sp := stripSpan_spec (fun c => !isAl c) chars x hb.2
    exact ⟨hlt, by omega⟩
  · apply List.Pairwise.filter
    rw [List.pairwise_map]
    have ho := h.ordered
    rw [List.pairwise_iff_getElem] at ho ⊢
    intro i j hi hj hij
    have := ho i j hi hj hij
    have s1 := stripSpan_spec (fun c => !isAl c) chars xs[i] (h.bounds _ (List.getElem_mem hi)).2
    have s2 := stripSpan_spec (fun c => !isAl c) chars xs[j] (h.bounds _ (List.getElem_mem hj)).2
    omega
  · intro y hy k h1 h2
    obtain ⟨x, hx, rfl, hlt⟩ := mem y hy
    have hb := h.bounds x hx
    have sp := stripSpan_spec (fun c => !isAl c) chars x hb.2
    exact h.no_sep x hx k (by omega) (by omega)
  · intro y hy
    obtain ⟨x, hx, rfl, hlt⟩ := mem y hy
    have hb := h.bounds x hx
    have sp := stripSpan_spec (fun c => !isAl c) chars x hb.2
    obtain ⟨c, hc, hp⟩ := (sp.2.2.2.2.2 hlt).1
    exact ⟨c, hc, by simpa using hp⟩
  · intro y hy
    obtain ⟨x, hx, rfl, hlt⟩ := mem y hy
    have hb := h.bounds x hx
    have sp := stripSpan_spec (fun c => !isAl c) chars x hb.2
    obtain ⟨c, hc, hp⟩ := (sp.2.2.2.2.2 hlt).2
    exact ⟨c, hc, by simpa using hp⟩
  · intro k c hk hc
    have hns : isSep c = false := by
      cases hs : isSep c with
      | false => rfl
      | true => rw [hsep c hs] at hc; cases hc
    obtain ⟨x, hx, h1, h2⟩ := h.cover k c hk hns
    have hb := h.bounds x hx
    have sp := stripSpan_spec (fun c => !isAl c) chars x hb.2
    have hin := sp.2.2.2.2.1 k c h1 h2 hk (by simp [hc])
    refine ⟨stripSpan (fun c => !isAl c) chars x, ?_, hin⟩
    exact List.mem_filter.2 ⟨List.mem_map.2 ⟨x, hx, rfl⟩, by simp; omega⟩
  · intro y hy
    obtain ⟨x, hx, rfl, hlt⟩ := mem y hy
    have hb := h.bounds x hx
    have sp := stripSpan_spec (fun c => !isAl c) chars x hb.2
    obtain ⟨f1, f2⟩ := h.fin x hx
    constructor
    · intro hq
      exact sp.2.2.2.1.2 (Or.inl (f1 hq))
    · intro hq
      have f2 := f2 hq
      constructor
      · intro hf
        have hnot : ¬ (x.fin = true ∨ (stripSpan (fun c => !isAl c) chars x).hi ≠ x.hi) := by
          intro hh
          rw [sp.2.2.2.1.2 hh] at hf; cases hf
        have hxf : x.fin = false := by
          cases hxf : x.fin with
          | false => rfl
          | true => exact absurd (Or.inl hxf) hnot
        have : (stripSpan (fun c => !isAl c) chars x).hi = x.hi :=
          Decidable.byContradiction (fun hne => hnot (Or.inr hne))
        rw [this]; exact f2.1 hxf
      · intro he
        have hxe : x.hi = chars.length := by omega
        have hxf := f2.2 hxe
        cases hf : (stripSpan (fun c => !isAl c) chars x).fin with
        | false => rfl
        | true =>
          rcases sp.2.2.2.1.1 hf with h' | h'
          · rw [hxf] at h'; cases h'
          · exact absurd (by omega) h'

/-- mapping the characters by a function that keeps alphanumeric status and never creates a separator
    (`to_lowercase`, or the identity) preserves the span invariant -/
theorem spanInv_map (isAl isSep : Nat → Bool) (g : Nat → Nat)
    (hal : ∀ c, isAl (g c) = isAl c) (hsep : ∀ c, isSep c = false → isSep (g c) = false)
    (query : Bool) (chars : List Nat) (xs : List Span) (h : SpanInv isAl isSep query chars xs) :
    SpanInv isAl isSep query (chars.map g) xs := by
  refine ⟨?_, h.ordered, ?_, ?_, ?_, ?_, ?_⟩
  · simpa using h.bounds
  · intro x hx k h1 h2
    obtain ⟨c, hc, hs⟩ := h.no_sep x hx k h1 h2
    exact ⟨g c, by simp [hc], hsep c hs⟩
  · intro x hx
    obtain ⟨c, hc, hs⟩ := h.first x hx
    exact ⟨g c, by simp [hc], by rw [hal]; exact hs⟩
  · intro x hx
    obtain ⟨c, hc, hs⟩ := h.last x hx
    exact ⟨g c, by simp [hc], by rw [hal]; exact hs⟩
  · intro k c hk hc
    rw [List.getElem?_map] at hk
    cases hk0 : chars[k]? with
    | none => rw [hk0] at hk; cases hk
    | some c0 =>
      rw [hk0] at hk
      simp only [Option.map_some, Option.some.injEq] at hk
      subst hk
      rw [hal] at hc
      exact h.cover k c0 hk0 hc
  · simpa using h.fin

/-! ### `renumber` -/

theorem renumber_getElem? (ws : List WordShape) (i : Nat) :
    (renumber ws)[i]? = ws[i]?.map (fun w => { w with offset := i }) := by
  simp only [renumber, List.getElem?_map, List.getElem?_zipIdx]
  cases ws[i]? <;> simp

theorem renumber_length (ws : List WordShape) : (renumber ws).length = ws.length := by
  simp [renumber]

/-- renumbering changes nothing but the offsets -/
theorem renumber_span (ws : List WordShape) : (renumber ws).map WordShape.span = ws.map WordShape.span := by
  apply List.ext_getElem?
  intro i
  simp only [List.getElem?_map, renumber_getElem?]
  cases ws[i]? <;> rfl

/-- after renumbering the offsets are `0, 1, 2, …` -/
theorem renumber_offsets (ws : List WordShape) :
    (renumber ws).map (·.offset) = List.range ws.length := by
  apply List.ext_getElem?
  intro i
  simp only [List.getElem?_map, renumber_getElem?]
  by_cases h : i < ws.length
  · rw [List.getElem?_range h, List.getElem?_eq_getElem h]; rfl
  · rw [List.getElem?_eq_none (by omega), List.getElem?_eq_none (by simp; omega)]; rfl

/-! ### the tokenizer steps on the level of `Text` -/

/-- `split` of a text with a single word covering all characters -/
theorem split_single (E : Env) (ps : List CharClass) (t : Text) (w0 : WordShape)
    (hw : t.words = [w0]) (hlo : w0.lo = 0) (hhi : w0.hi = t.chars.length) :
    (t.split E ps).words.map WordShape.span = splitSpanList (patMatches E ps) w0.fin t.chars ∧
    (t.split E ps).words.map (·.offset) = List.range (t.split E ps).words.length ∧
    (t.split E ps).chars = t.chars ∧ (t.split E ps).source = t.source := by
  refine ⟨?_, ?_, rfl, rfl⟩
  · simp only [Text.split, hw, List.map_cons, List.map_nil, List.flatten_cons, List.flatten_nil,
      List.append_nil, renumber_span]
    simp only [splitWord, hlo, hhi, slice_full, List.map_map, splitSpanList, spansOf, WordShape.len]
    apply List.map_congr_left
    intro se _
    simp [WordShape.span]
  · simp only [Text.split, renumber_offsets, renumber_length]

/-- `strip` on the level of spans -/
theorem strip_spans (E : Env) (ps : List CharClass) (t : Text) :
    (t.strip E ps).words.map WordShape.span =
      ((t.words.map WordShape.span).map (stripSpan (patMatches E ps) t.chars)).filter
        (fun x => decide (x.lo < x.hi)) ∧
    (t.strip E ps).words.map (·.offset) = List.range (t.strip E ps).words.length ∧
    (t.strip E ps).chars = t.chars ∧ (t.strip E ps).source = t.source := by
  refine ⟨?_, ?_, rfl, rfl⟩
  · simp only [Text.strip, renumber_span]
    rw [List.filter_map, List.map_map, List.filter_map, List.filter_map, List.map_map]
    have e1 : (WordShape.span ∘ stripWord (patMatches E ps) t.chars) =
        (stripSpan (patMatches E ps) t.chars ∘ WordShape.span) := by
      funext w; exact stripWord_span _ _ w
    have e2 : ((fun w : WordShape => decide (w.len > 0)) ∘ stripWord (patMatches E ps) t.chars) =
        (((fun x : Span => decide (x.lo < x.hi)) ∘ stripSpan (patMatches E ps) t.chars) ∘ WordShape.span) := by
      funext w
      have e := stripWord_span (patMatches E ps) t.chars w
      simp only [Function.comp, ← e]
      simp only [WordShape.span, WordShape.len]
      apply decide_eq_decide.2
      omega
    rw [e1, e2]
  · simp only [Text.strip, renumber_offsets, renumber_length]

/-- `lower` maps every character by one function `g` (first character of `to_lowercase`, or the identity when
    no character is upper-case); afterwards every character that is still upper-case is one that
    `to_lowercase` leaves alone -/
theorem lower_spec (E : Env) (K : Consts) (hU : UnicodeFacts E.U K) (t : Text) :
    ∃ g : Nat → Nat, (t.lower E) = { t with chars := t.chars.map g } ∧
      (∀ c, E.U.isAlnum (g c) = E.U.isAlnum c) ∧
      (∀ c, isSepChar E.U K c = false → isSepChar E.U K (g c) = false) ∧
      (∀ c ∈ t.chars.map g, E.U.isUppercase c = true → E.U.lower1 c = c) := by
  refine ⟨E.U.lower1, by simp [Text.lower], hU.lower_alnum, hU.lower_sep, ?_⟩
  intro c hc _
  obtain ⟨c0, _, rfl⟩ := List.mem_map.1 hc
  exact hU.lower_idem c0

/-- when `lower` changes a character that ends up upper-case, that character is unchanged: the only
    upper-case characters left are those without a lower-case mapping -/
theorem lower_upper_unchanged (E : Env) (K : Consts) (hU : UnicodeFacts E.U K) (t : Text) (k c : Nat)
    (hk : (t.lower E).chars[k]? = some c) (hup : E.U.isUppercase c = true) : t.chars[k]? = some c := by
  simp only [Text.lower, List.getElem?_map] at hk
  cases h0 : t.chars[k]? with
  | none => rw [h0] at hk; cases hk
  | some c0 =>
    rw [h0] at hk
    simp only [Option.map_some, Option.some.injEq] at hk
    subst hk
    rw [hU.lower_upper c0 hup]

theorem setPos_spans (E : Env) (t : Text) :
    (t.setPos E).words.map WordShape.span = t.words.map WordShape.span ∧
    (t.setPos E).words.map (·.offset) = t.words.map (·.offset) ∧
    (t.setPos E).chars = t.chars ∧ (t.setPos E).source = t.source ∧ (t.setPos E).classes = t.classes := by
  refine ⟨?_, ?_, rfl, rfl, rfl⟩ <;>
  · simp only [Text.setPos, List.map_map]
    apply List.map_congr_left
    intro w _; rfl

theorem setStem_spans (E : Env) (t : Text) :
    (t.setStem E).words.map WordShape.span = t.words.map WordShape.span ∧
    (t.setStem E).words.map (·.offset) = t.words.map (·.offset) ∧
    (t.setStem E).chars = t.chars ∧ (t.setStem E).source = t.source ∧ (t.setStem E).classes = t.classes := by
  refine ⟨?_, ?_, rfl, rfl, rfl⟩ <;>
  · simp only [Text.setStem, List.map_map]
    apply List.map_congr_left
    intro w _; rfl

/-- `set_stem`: the stem length of every word is the oracle's answer on its slice, or the word length when the
    language has no stemmer -/
theorem setStem_stem (E : Env) (t : Text) :
    ∀ w ∈ (t.setStem E).words,
      w.stem = (if E.T.stemmer then E.stem (slice t.chars w.lo w.hi) else w.len) := by
  intro w hw
  simp only [Text.setStem] at hw
  obtain ⟨w0, _, rfl⟩ := List.mem_map.1 hw
  rfl

theorem setCharClasses_spec (E : Env) (t : Text) :
    (t.setCharClasses E).classes.length = t.chars.length ∧ (t.setCharClasses E).words = t.words ∧
    (t.setCharClasses E).chars = t.chars ∧ (t.setCharClasses E).source = t.source := by
  refine ⟨by simp [Text.setCharClasses], rfl, rfl, rfl⟩

/-! ### the separator and strip patterns of the pipelines -/

theorem patMatches_sep (E : Env) :
    patMatches E [CharClass.whitespace, CharClass.control, CharClass.punctuation] = isSepChar E.U E.K := by
  funext c
  simp only [patMatches, patMatchesOpt, patMatchesOpt.go, CharClass.matchesOpt, isSepChar]
  cases E.U.isWhitespace c <;> cases E.U.isControl c <;> cases E.K.punctuation.contains c <;> rfl

theorem patMatches_notAlnum (E : Env) :
    patMatches E [CharClass.notAlphaNum] = fun c => !E.U.isAlnum c := by
  funext c
  simp only [patMatches, patMatchesOpt, patMatchesOpt.go, CharClass.matchesOpt]
  cases E.U.isAlnum c <;> rfl

end Lucid
