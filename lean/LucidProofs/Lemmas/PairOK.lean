/-
  LucidProofs.Lemmas.PairOK — the interface predicate `WordMatchOK` (`Lemmas/MatchFacts.lean`) proved from
  the model of `word_match` (`matching/word_match.rs`, `Lucid.wordMatchM` / `Lucid.wordMatch`) and the
  distance refinement (`DL.distance_refines`).

  * `ThresholdOK K`      : the relative distance threshold `DAMLEV_THRESHOLD = damNum/damDen` is at most 0.21;
  * `Accepted c rs qs`   : the guards of the two slice loops that a pair `(rslice, qslice)` passed;
  * `wmInner_acc` / `wmOuter_acc` : every result is `newPair … rs qs (cell qs rs)` of an accepted pair;
  * `wordMatchS`         : `word_match` with the matrix reads replaced by the specification `DL.D`;
  * `wordMatch_cell`     : the cell read for `(qslice, rslice)` is `D K (cword qt q) (cword rt r) qslice rslice`;
  * `wordMatchM_spec`, `wordMatch_history_independent` : `word_match` does not depend on the reused matrix;
  * `wordMatchOK`        : `CostsOK K → ThresholdOK K → WordMatchOK K rt qt`;
  * exact prefix         : `wordMatch_exact_prefix(_some)` — an unfinished query word that is a prefix of the
                           record word yields the zero-typo pair `(k, k)`; `textMatch_single` — `text_match`
                           of two one-word texts is the plain `word_match`;
  * span bound           : `stretch`, `HlSpanInv` (scan invariant of `text_match` carrying the length bound of
                           the highlighted part), `textMatch_span_le`.
-/
import LucidProofs.Lemmas.MatchFacts
import LucidProofs.C16
import LucidProofs.Lemmas.TextMatchShape
import LucidProofs.Lemmas.ScanSurvival

namespace Lucid
open DL

/-- the relative distance threshold is positive-denominator and at most 0.21 -/
def ThresholdOK (K : Consts) : Bool := decide (0 < K.damDen) && decide (K.damNum * 100 ≤ 21 * K.damDen)

theorem thresholdOK_src : ThresholdOK Gen.srcConsts = true := by decide

/-! ### the guards of the two loops -/

/-- what the loop guards of `word_match` established when the pair `(rslice, qslice)` was accepted -/
structure Accepted (c : WMCtx) (rs qs : Nat) : Prop where
  q_le : qs ≤ c.q.len
  r_le : rs ≤ c.r.len
  stem : c.q.stem ≤ qs
  near : rs ≤ qs + 1 ∧ qs ≤ rs + 1
  rel  : relTooBig c.K (c.cell qs rs) qs rs = false

theorem wmInner_acc_aux (c : WMCtx) (P : WMatch × WMatch → Prop) (rslice : Nat)
    (hnew : ∀ qs, Accepted c rslice qs → P (newPair c.K c.r c.q rslice qs (c.cell qs rslice))) (qslice : Nat)
    (best : Option (WMatch × WMatch)) (hb : ∀ p, best = some p → P p)
    (h1 : ¬ qslice > c.q.len) (h2 : ¬ rslice > c.r.len) (h3 : ¬ qslice < c.q.stem)
    (h6 : ¬ (if qslice ≥ rslice then qslice - rslice else rslice - qslice) > 1)
    (h7 : ¬ relTooBig c.K (c.cell qslice rslice) qslice rslice = true) :
    ∀ p, (match best with
          | some p => if p.1.typos ≤ c.cell qslice rslice then some p
                      else some (newPair c.K c.r c.q rslice qslice (c.cell qslice rslice))
          | none => some (newPair c.K c.r c.q rslice qslice (c.cell qslice rslice))) = some p → P p := by
  have hacc : Accepted c rslice qslice :=
    ⟨by omega, by omega, by omega, by split at h6 <;> omega, by simpa using h7⟩
  intro p hp
  split at hp
  · split at hp
    · exact hb p hp
    · cases hp; exact hnew _ hacc
  · cases hp; exact hnew _ hacc

/-- invariant of the inner loop for a fixed `rslice` -/
theorem wmInner_acc (c : WMCtx) (P : WMatch × WMatch → Prop) (rslice : Nat)
    (hnew : ∀ qs, Accepted c rslice qs → P (newPair c.K c.r c.q rslice qs (c.cell qs rslice)))
    (l : List Nat) (best : Option (WMatch × WMatch)) (hb : ∀ p, best = some p → P p) :
    ∀ p, wmInner c rslice l best = some p → P p := by
  fun_induction wmInner c rslice l best
  case case1 => exact hb
  case case2 ih => exact ih hb
  case case3 ih => exact ih hb
  case case4 ih => exact ih hb
  case case5 ih => exact ih hb
  case case6 => exact hb
  case case7 ih => exact ih hb
  case case8 ih => exact ih hb
  case case9 qslice rest best h1 h2 h3 h4 h5 h6 dist h7 best' h8 =>
    exact wmInner_acc_aux c P rslice hnew qslice best hb h1 h2 h3 h6 h7
  case case10 qslice rest best h1 h2 h3 h4 h5 h6 dist h7 best' h8 ih =>
    exact ih (wmInner_acc_aux c P rslice hnew qslice best hb h1 h2 h3 h6 h7)

theorem wmOuter_acc_mem (c : WMCtx) (P : WMatch × WMatch → Prop) (range : List Nat) :
    ∀ (l : List Nat) (best : Option (WMatch × WMatch)),
      (∀ rs ∈ l, ∀ qs, Accepted c rs qs → P (newPair c.K c.r c.q rs qs (c.cell qs rs))) →
      (∀ p, best = some p → P p) → ∀ p, wmOuter c range l best = some p → P p := by
  intro l
  induction l with
  | nil => intro best _ hb p hp; exact hb p (by simpa [wmOuter] using hp)
  | cons rs rest ih =>
    intro best hnew hb p hp
    unfold wmOuter at hp
    exact ih _ (fun x hx => hnew x (by simp [hx]))
      (wmInner_acc c P rs (hnew rs (by simp)) range best hb) p hp

theorem wmOuter_acc (c : WMCtx) (P : WMatch × WMatch → Prop)
    (hnew : ∀ rs qs, Accepted c rs qs → P (newPair c.K c.r c.q rs qs (c.cell qs rs))) (range : List Nat)
    (l : List Nat) (best : Option (WMatch × WMatch)) (hb : ∀ p, best = some p → P p) :
    ∀ p, wmOuter c range l best = some p → P p :=
  wmOuter_acc_mem c P range l best (fun rs _ => hnew rs) hb

/-! ### the loops read only the cells `(qslice ≤ q.len, rslice ≤ r.len)` -/

theorem wmInner_congr (c c' : WMCtx) (hK : c'.K = c.K) (hr : c'.r = c.r) (hq : c'.q = c.q) (hl : c'.left = c.left)
    (hcell : ∀ qs rs, qs ≤ c.q.len → rs ≤ c.r.len → c'.cell qs rs = c.cell qs rs) (rslice : Nat)
    (l : List Nat) (best : Option (WMatch × WMatch)) : wmInner c' rslice l best = wmInner c rslice l best := by
  induction l generalizing best with
  | nil => simp [wmInner]
  | cons qslice rest ih =>
    unfold wmInner
    rw [hK, hr, hq, hl]
    by_cases h1 : qslice > c.q.len
    · simp only [h1, if_true]; exact ih best
    · by_cases h2 : rslice > c.r.len
      · simp only [h1, h2, if_true, if_false]; exact ih best
      · rw [hcell qslice rslice (by omega) (by omega)]
        simp only [ih]

theorem wmOuter_congr (c c' : WMCtx) (hK : c'.K = c.K) (hr : c'.r = c.r) (hq : c'.q = c.q) (hl : c'.left = c.left)
    (hcell : ∀ qs rs, qs ≤ c.q.len → rs ≤ c.r.len → c'.cell qs rs = c.cell qs rs) (range : List Nat)
    (l : List Nat) (best : Option (WMatch × WMatch)) : wmOuter c' range l best = wmOuter c range l best := by
  induction l generalizing best with
  | nil => simp [wmOuter]
  | cons rs rest ih =>
    unfold wmOuter
    rw [wmInner_congr c c' hK hr hq hl hcell, ih]

/-! ### `word_match` over the specification of the distance -/

/-- the context of the two loops with the matrix reads replaced by the specification `DL.D`
    (`distance(qword, rword)`: query = rows, record = columns) -/
def specCtx (K : Consts) (rt : Text) (r : WordShape) (qt : Text) (q : WordShape) : WMCtx :=
  { K := K, r := r, q := q, left := wmLeftRaw r q - 1,
    cell := fun qs rs => D K (cword K qt q) (cword K rt r) qs rs }

/-- `word_match` with every matrix read replaced by the specification of the prefix distance -/
def wordMatchS (K : Consts) (rt : Text) (r : WordShape) (qt : Text) (q : WordShape) : Option (WMatch × WMatch) :=
  if q.len = 0 ∨ r.len = 0 then none else
  if !lengthCheck K r q then none else
  if !jaccardCheck K rt r qt q then none else
  if max q.len r.len + 1 ≤ wmLeftRaw r q - 1 then none else
  wmOuter (specCtx K rt r qt q) (descRange (wmLeftRaw r q - 1) (max q.len r.len + 1))
    (descRange (wmLeftRaw r q - 1) (max q.len r.len + 1)) none

theorem cword_len_wordIn (K : Consts) (t : Text) (w : WordShape) (hw : WordIn t w) : (cword K t w).len = w.len := by
  obtain ⟨h1, h2, _⟩ := hw
  simp only [CWord.len, cword, wchars, slice, List.length_take, List.length_drop, WordShape.len]
  omega

/-- **the cells `word_match` reads**: after `distance(qword, rword)` on any matrix satisfying `MInv`, the
    cell `(qslice + 1, rslice + 1)` holds the specification's distance between the first `qslice`
    characters of the query word and the first `rslice` characters of the record word. -/
theorem wordMatch_cell (K : Consts) (hK : CostsOK K = true) (rt : Text) (r : WordShape) (qt : Text) (q : WordShape)
    (hr : WordIn rt r) (hq : WordIn qt q) (m : Mat) (hm : MInv m) (qslice rslice : Nat)
    (hqs : qslice ≤ q.len) (hrs : rslice ≤ r.len) :
    (distanceM K m (cword K qt q) (cword K rt r)).2.get (qslice + 1) (rslice + 1) =
      D K (cword K qt q) (cword K rt r) qslice rslice := by
  have h := (distance_refines K (cword K qt q) (cword K rt r) (cword_aligned K qt q hq.2.2)
    (cword_aligned K rt r hr.2.2) (cword_costLe K hK qt q) (cword_costLe K hK rt r) m hm).2.2.1
  exact h qslice rslice (by rw [cword_len_wordIn K qt q hq]; exact hqs) (by rw [cword_len_wordIn K rt r hr]; exact hrs)

/-- `word_match` on any reused matrix satisfying `MInv` computes `wordMatchS` and re-establishes `MInv` -/
theorem wordMatchM_spec (K : Consts) (hK : CostsOK K = true) (rt : Text) (r : WordShape) (qt : Text) (q : WordShape)
    (hr : WordIn rt r) (hq : WordIn qt q) (m : Mat) (hm : MInv m) :
    (wordMatchM K m rt r qt q).1 = wordMatchS K rt r qt q ∧ MInv (wordMatchM K m rt r qt q).2 := by
  have hd := (distance_refines K (cword K qt q) (cword K rt r) (cword_aligned K qt q hq.2.2)
    (cword_aligned K rt r hr.2.2) (cword_costLe K hK qt q) (cword_costLe K hK rt r) m hm).2.1
  unfold wordMatchM wordMatchS
  split
  · exact ⟨rfl, hm⟩
  · split
    · exact ⟨rfl, hm⟩
    · split
      · exact ⟨rfl, hm⟩
      · simp only []
        split
        · exact ⟨rfl, hd⟩
        · refine ⟨?_, hd⟩
          simp only []
          exact wmOuter_congr (specCtx K rt r qt q)
            { K := K, r := r, q := q, left := wmLeftRaw r q - 1,
              cell := fun qs rs => (distanceM K m (cword K qt q) (cword K rt r)).snd.get (qs + 1) (rs + 1) }
            rfl rfl rfl rfl
            (fun qs rs hqs hrs => wordMatch_cell K hK rt r qt q hr hq m hm qs rs hqs hrs) _ _ _

theorem wordMatch_eq_spec (K : Consts) (hK : CostsOK K = true) (rt : Text) (r : WordShape) (qt : Text) (q : WordShape)
    (hr : WordIn rt r) (hq : WordIn qt q) : wordMatch K rt r qt q = wordMatchS K rt r qt q :=
  (wordMatchM_spec K hK rt r qt q hr hq _ (MInv_new K.matCap).1).1

/-- **history independence of `word_match`**: on whatever matrix earlier comparisons left behind (only its
    shape and sentinels `MInv` are assumed) the result equals the result on a fresh matrix, and the matrix
    handed on satisfies `MInv` again. -/
theorem wordMatch_history_independent (K : Consts) (hK : CostsOK K = true) (rt : Text) (r : WordShape)
    (qt : Text) (q : WordShape) (hr : WordIn rt r) (hq : WordIn qt q) (m : Mat) (hm : MInv m) :
    (wordMatchM K m rt r qt q).1 = wordMatch K rt r qt q ∧ MInv (wordMatchM K m rt r qt q).2 := by
  have h := wordMatchM_spec K hK rt r qt q hr hq m hm
  exact ⟨h.1.trans (wordMatch_eq_spec K hK rt r qt q hr hq).symm, h.2⟩

/-- every result of `word_match` is `new_pair(rslice, qslice, D qslice rslice)` of an accepted pair of slices -/
theorem wordMatch_acc (K : Consts) (hK : CostsOK K = true) (rt : Text) (r : WordShape) (qt : Text) (q : WordShape)
    (hr : WordIn rt r) (hq : WordIn qt q) (P : WMatch × WMatch → Prop)
    (hnew : ∀ rs qs, Accepted (specCtx K rt r qt q) rs qs →
      P (newPair K r q rs qs (D K (cword K qt q) (cword K rt r) qs rs)))
    (p : WMatch × WMatch) (h : wordMatch K rt r qt q = some p) : P p := by
  rw [wordMatch_eq_spec K hK rt r qt q hr hq] at h
  unfold wordMatchS at h
  split at h
  · cases h
  · split at h
    · cases h
    · split at h
      · cases h
      · split at h
        · cases h
        · exact wmOuter_acc (specCtx K rt r qt q) P hnew _ _ none (by simp) p h

/-! ### arithmetic of the acceptance test -/

theorem threshold_lin (K : Consts) (hT : ThresholdOK K = true) (d M : Nat)
    (h : ¬ K.damDen * d > K.damNum * 10 * M) : 10 * d ≤ 21 * M := by
  simp only [ThresholdOK, Bool.and_eq_true, decide_eq_true_eq] at hT
  obtain ⟨hpos, hle⟩ := hT
  have h1 : K.damDen * d ≤ K.damNum * 10 * M := Nat.le_of_not_gt h
  have h2 : K.damDen * (10 * d) ≤ K.damDen * (21 * M) := by
    calc K.damDen * (10 * d) = 10 * (K.damDen * d) := by
            rw [Nat.mul_left_comm]
      _ ≤ 10 * (K.damNum * 10 * M) := Nat.mul_le_mul_left _ h1
      _ = (K.damNum * 100) * M := by
            rw [Nat.mul_assoc K.damNum 10 M, Nat.mul_left_comm 10 K.damNum, ← Nat.mul_assoc 10 10 M,
              ← Nat.mul_assoc K.damNum]
      _ ≤ (21 * K.damDen) * M := Nat.mul_le_mul_right _ hle
      _ = K.damDen * (21 * M) := by
            rw [Nat.mul_comm 21 K.damDen, Nat.mul_assoc]
  exact Nat.le_of_mul_le_mul_left h2 hpos

/-- the arithmetic fact behind `match_len - 2*ceil(typos)`: an accepted distance `d` (multiple of 0.5, at
    most 0.21 per character of the longer slice) with slices differing by at most one satisfies
    `2·⌈d⌉ ≤ rslice` -/
theorem score_arith (d qs rs : Nat) (hlin : 10 * d ≤ 21 * max (max qs rs) 1) (hnear : qs ≤ rs + 1)
    (hpos : 1 ≤ rs) (hmod : d % 5 = 0) : 2 * ceilTenths d ≤ rs := by
  unfold ceilTenths
  have : max (max qs rs) 1 ≤ rs + 1 := by omega
  omega

/-! ### the main theorem -/

/-- **`word_match` guarantees `PairOK`**: for every `K` with well-formed edit costs and a relative distance
    threshold of at most 0.21, whatever `word_match` returns for two words lying in their texts (stems ≥ 1)
    describes prefixes of the two words whose lengths differ by at most one, the record prefix is
    non-empty, both halves carry the same typos, and `2·⌈typos⌉` does not exceed the record prefix length. -/
theorem wordMatchOK (K : Consts) (hK : CostsOK K = true) (hT : ThresholdOK K = true) (rt qt : Text) :
    WordMatchOK K rt qt := by
  intro r q p hr hq hrs hqs h
  refine wordMatch_acc K hK rt r qt q hr hq (PairOK r q) ?_ p h
  intro rs qs acc
  have hKOK := KOK_of_CostsOK K hK
  have hmod := D_mod5 K hKOK (cword K qt q) (cword K rt r) (cword_costMul5 K hK qt q) (cword_costMul5 K hK rt r) qs rs
  have hrel := acc.rel
  simp only [relTooBig, specCtx] at hrel
  have hlin := threshold_lin K hT _ _ (of_decide_eq_false hrel)
  have hq1 : 1 ≤ qs := Nat.le_trans hqs acc.stem
  have hrpos : 1 ≤ rs := by
    rcases Nat.eq_zero_or_pos rs with h0 | h0
    · exfalso
      subst h0
      have hq1' : qs = 1 := by have := acc.near.2; omega
      subst hq1'
      have hlen : 0 < (cword K qt q).len := by
        rw [cword_len_wordIn K qt q hq]; have := hq.1; simp only [WordShape.len]; omega
      have h5 := k_ge5 (cword K qt q) (cword_costPos K hK qt q) (cword_costMul5 K hK qt q)
        (cword_aligned K qt q hq.2.2) 0 hlen
      rw [D_succ_zero, D_zero_zero] at hlin
      omega
    · exact h0
  have hsc := score_arith _ qs rs hlin acc.near.2 hrpos hmod
  exact {
    r_off := rfl, r_lo := rfl, r_hi := rfl, r_sub0 := rfl, r_pos := hrpos, r_le := acc.r_le,
    q_off := rfl, q_lo := rfl, q_hi := rfl, q_sub0 := rfl, q_le := acc.q_le, typos := rfl,
    near := acc.near, score := hsc }

theorem wordMatchOK_src (rt qt : Text) : WordMatchOK Gen.srcConsts rt qt :=
  wordMatchOK Gen.srcConsts costsOK_src thresholdOK_src rt qt

/-- the numeric hypotheses are met by the constants generated from the source -/
example : CostsOK Gen.srcConsts = true ∧ ThresholdOK Gen.srcConsts = true := ⟨costsOK_src, thresholdOK_src⟩

/-! ## the query word is an exact prefix of the record word -/

theorem wmInner_zero_stable (c : WMCtx) (rs : Nat) (l : List Nat) (best : Option (WMatch × WMatch))
    (hz : ∃ p, best = some p ∧ p.1.typos = 0) : wmInner c rs l best = best := by
  fun_induction wmInner c rs l best <;> grind

theorem wmInner_skip (c : WMCtx) (rs : Nat) (l : List Nat) (best : Option (WMatch × WMatch))
    (h : ∀ qs ∈ l, qs > c.q.len ∨ qs < c.q.stem ∨ rs > qs + 1 ∨ qs > rs + 1) : wmInner c rs l best = best := by
  induction l with
  | nil => rfl
  | cons qs rest ih =>
    have hq := h qs (by simp)
    have ih' := ih (fun x hx => h x (by simp [hx]))
    unfold wmInner
    split
    · exact ih'
    split
    · exact ih'
    split
    · exact ih'
    split
    · exact ih'
    split
    · rfl
    rename_i h1 _ h3 _ _
    by_cases hnear : (if qs ≥ rs then qs - rs else rs - qs) > 1
    · rw [if_pos hnear]; exact ih'
    · exfalso; split at hnear <;> omega

theorem wmInner_skip_prefix (c : WMCtx) (rs : Nat) (pre l : List Nat) (best : Option (WMatch × WMatch))
    (h : ∀ qs ∈ pre, qs > c.q.len) : wmInner c rs (pre ++ l) best = wmInner c rs l best := by
  induction pre with
  | nil => rfl
  | cons x pre ih =>
    have hx : x > c.q.len := h x (by simp)
    rw [List.cons_append, wmInner, if_pos hx]
    exact ih (fun qs hqs => h qs (by simp [hqs]))
theorem wmOuter_zero_stable (c : WMCtx) (range l : List Nat) (best : Option (WMatch × WMatch))
    (hz : ∃ p, best = some p ∧ p.1.typos = 0) : wmOuter c range l best = best := by
  induction l with
  | nil => rfl
  | cons rs rest ih => unfold wmOuter; rw [wmInner_zero_stable c rs range best hz]; exact ih

theorem wmOuter_append (c : WMCtx) (range l1 l2 : List Nat) (best : Option (WMatch × WMatch)) :
    wmOuter c range (l1 ++ l2) best = wmOuter c range l2 (wmOuter c range l1 best) := by
  induction l1 generalizing best with
  | nil => rfl
  | cons rs rest ih => simp only [List.cons_append, wmOuter]; exact ih _

/-- the descending range `(left .. right).rev()` cut at one of its elements -/
theorem descRange_split (left right k : Nat) (h1 : left ≤ k) (h2 : k < right) :
    ∃ hi lo, descRange left right = hi ++ k :: lo ∧ ∀ x ∈ hi, k < x := by
  refine ⟨(List.range' (k + 1) (right - (k + 1))).reverse, (List.range' left (k - left)).reverse, ?_, ?_⟩
  · unfold descRange
    have e : right - left = (k - left) + ((right - (k + 1)) + 1) := by omega
    rw [e, ← List.range'_append_1, List.range'_succ, List.reverse_append, List.reverse_cons,
      List.append_assoc]
    have : left + (k - left) = k := by omega
    rw [this]; rfl
  · intro x hx
    rw [List.mem_reverse, List.mem_range'_1] at hx
    omega

section exactPrefix
variable (K : Consts) (hK : CostsOK K = true) (rt : Text) (w : WordShape) (qt : Text) (v : WordShape)
  (hr : WordIn rt w) (hq : WordIn qt v) (hpre : wchars qt v = (wchars rt w).take v.len)

include K hr hq hpre in
theorem prefix_len_le : v.len ≤ w.len := by
  have h1 := cword_len_wordIn K qt v hq
  have h2 := cword_len_wordIn K rt w hr
  simp only [CWord.len, cword] at h1 h2
  have := congrArg List.length hpre
  rw [List.length_take, h1, h2] at this
  omega

include hK hr hq hpre in
/-- prefix distances between a word and a word it is a prefix of vanish exactly on the diagonal -/
theorem prefix_D_zero_iff (qs rs : Nat) (hqs : qs ≤ v.len) (hrs : rs ≤ w.len) :
    D K (cword K qt v) (cword K rt w) qs rs = 0 ↔ qs = rs := by
  have hz := D_eq_zero_iff K (KOK_of_CostsOK K hK) (cword K qt v) (cword K rt w)
    (cword_aligned K qt v hq.2.2) (cword_aligned K rt w hr.2.2) (cword_costPos K hK qt v) (cword_costPos K hK rt w)
    qs rs (by rw [cword_len_wordIn K qt v hq]; exact hqs) (by rw [cword_len_wordIn K rt w hr]; exact hrs)
  rw [hz]
  constructor
  · exact fun h => h.1
  · intro e
    refine ⟨e, ?_⟩
    intro i hi
    have hi' : i < v.len := by omega
    simp only [CWord.c, cword, hpre, List.getD, List.getElem?_take, hi', if_true]

include hK hr hq hpre in
/-- the loops of `word_match` on an unfinished query word that is a prefix of the record word end with the
    zero-typo pair of the two prefixes of the query's length -/
theorem wmOuter_exact_prefix (hfin : v.fin = false) (hs1 : 1 ≤ v.stem) (hs2 : v.stem ≤ v.len) :
    wmOuter (specCtx K rt w qt v) (descRange (v.stem - 1) (w.len + 1)) (descRange (v.stem - 1) (w.len + 1)) none =
      some (newPair K w v v.len v.len 0) := by
  have hle := prefix_len_le K rt w qt v hr hq hpre
  obtain ⟨hi, lo, hsplit, hhi⟩ := descRange_split (v.stem - 1) (w.len + 1) v.len (by omega) (by omega)
  generalize hrange : descRange (v.stem - 1) (w.len + 1) = range at hsplit
  have hD0 : D K (cword K qt v) (cword K rt w) v.len v.len = 0 :=
    (prefix_D_zero_iff K hK rt w qt v hr hq hpre v.len v.len (Nat.le_refl _) hle).mpr rfl
  -- phase 1: record slices longer than the query only produce positive distances
  have hph1 : ∀ p, wmOuter (specCtx K rt w qt v) range hi none = some p → 0 < p.1.typos := by
    refine wmOuter_acc_mem (specCtx K rt w qt v) (fun p => 0 < p.1.typos) range hi none ?_ (by simp)
    intro rs hrs qs acc
    have hne : D K (cword K qt v) (cword K rt w) qs rs ≠ 0 := by
      intro e
      have := (prefix_D_zero_iff K hK rt w qt v hr hq hpre qs rs acc.q_le acc.r_le).mp e
      have := hhi rs hrs
      have := acc.q_le
      simp only [specCtx] at this
      omega
    exact Nat.pos_of_ne_zero hne
  -- phase 2: the pair (k, k)
  have hph2 : ∀ best : Option (WMatch × WMatch), (∀ p, best = some p → 0 < p.1.typos) →
      wmInner (specCtx K rt w qt v) v.len range best = some (newPair K w v v.len v.len 0) := by
    intro best hbest
    rw [hsplit, wmInner_skip_prefix (specCtx K rt w qt v) v.len hi (v.len :: lo) _ (fun x hx => hhi x hx)]
    unfold wmInner
    have g4 : ¬ (v.len = v.stem - 1 ∧ v.len = v.stem - 1) := by omega
    have hrel : relTooBig K 0 v.len v.len = false := by simp [relTooBig]
    simp only [specCtx, gt_iff_lt, Nat.lt_irrefl, if_false, Nat.not_lt.mpr hle, Nat.not_lt.mpr hs2, wmLeftRaw, hfin,
      g4, false_and, Bool.false_eq_true, ge_iff_le, Nat.le_refl, if_true, Nat.sub_self, Nat.not_lt_zero, hD0, hrel]
    cases best with
    | none => rfl
    | some p =>
      have := hbest p rfl
      have hn : ¬ p.1.typos ≤ 0 := by omega
      simp only [hn, if_false]
  rw [hsplit, wmOuter_append]
  unfold wmOuter
  rw [← hsplit, hph2 _ hph1]
  exact wmOuter_zero_stable _ _ _ _ ⟨_, rfl, rfl⟩

include hK hr hq hpre in
/-- **exact prefix, word level.** If the characters of an unfinished query word are the first `k` characters of
    the record word, whatever `word_match` returns is the zero-typo pair of the two `k`-character prefixes. -/
theorem wordMatch_exact_prefix (hfin : v.fin = false) (hs1 : 1 ≤ v.stem) :
    ∀ p, wordMatch K rt w qt v = some p → p = newPair K w v v.len v.len 0 := by
  intro p h
  have hs2 : v.stem ≤ v.len :=
    wordMatch_acc K hK rt w qt v hr hq (fun _ => v.stem ≤ v.len)
      (fun rs qs acc => Nat.le_trans acc.stem acc.q_le) p h
  have hle := prefix_len_le K rt w qt v hr hq hpre
  rw [wordMatch_eq_spec K hK rt w qt v hr hq] at h
  unfold wordMatchS at h
  split at h
  · cases h
  · split at h
    · cases h
    · split at h
      · cases h
      · split at h
        · cases h
        · have e1 : wmLeftRaw w v = v.stem := by simp [wmLeftRaw, hfin]
          have e2 : max v.len w.len = w.len := Nat.max_eq_right hle
          rw [e1, e2, wmOuter_exact_prefix K hK rt w qt v hr hq hpre hfin hs1 hs2] at h
          exact (Option.some.inj h).symm

include hK hr hq hpre in
/-- … and it does return that pair whenever the length gate and the Jaccard gate let the two words through and
    the query word's stem is not longer than the word -/
theorem wordMatch_exact_prefix_some (hfin : v.fin = false) (hs1 : 1 ≤ v.stem) (hs2 : v.stem ≤ v.len)
    (hlen : lengthCheck K w v = true) (hjac : jaccardCheck K rt w qt v = true) :
    wordMatch K rt w qt v = some (newPair K w v v.len v.len 0) := by
  have hle := prefix_len_le K rt w qt v hr hq hpre
  have hq0 : ¬ (v.len = 0 ∨ w.len = 0) := by
    have := hq.1; have := hr.1; simp only [WordShape.len]; omega
  have e1 : wmLeftRaw w v = v.stem := by simp [wmLeftRaw, hfin]
  have e2 : max v.len w.len = w.len := Nat.max_eq_right hle
  have hrange : ¬ (w.len + 1 ≤ v.stem - 1) := by omega
  rw [wordMatch_eq_spec K hK rt w qt v hr hq]
  unfold wordMatchS
  rw [if_neg hq0, hlen, hjac, e1, e2, if_neg hrange]
  simp only [Bool.not_true, Bool.false_eq_true, if_false]
  exact wmOuter_exact_prefix K hK rt w qt v hr hq hpre hfin hs1 hs2

end exactPrefix

/-- `text_match` of a one-word record against a one-word query is the plain `word_match` of the two words -/
theorem textMatch_single (K : Consts) (rt qt : Text) (w v : WordShape) (hrw : rt.words = [w]) (hqw : qt.words = [v])
    (hwo : w.offset = 0) (hvo : v.offset = 0) :
    (textMatch K rt qt).1 = match wordMatch K rt w qt v with
                            | none => []
                            | some p => [p.1] := by
  have hjr : ∀ s, tryJoinR K rt qt s w v = none := by intro s; simp [tryJoinR, hrw, hwo]
  have hjq : ∀ s, tryJoinQ K rt qt s w v = none := by intro s; simp [tryJoinQ, hqw, hvo]
  simp only [textMatch, hrw, hqw, List.length_singleton, List.replicate_one, List.foldl_cons, List.foldl_nil,
    tmQuery, isSet, hvo, List.getD_cons_zero, Option.isSome_none, Bool.false_eq_true, if_false, tmScan, hwo,
    tmStep, hjr, hjq]
  cases hm : wordMatch K rt w qt v with
  | none => simp [tmCommit]
  | some p =>
    obtain ⟨r2, q2⟩ := p
    have ho : r2.offset = 0 := by rw [wordMatch_r_offset hm, hwo]
    simp [shouldReplace, tmCommit, setAt, ho]

/-! ## length of the highlighted spans (C05, second half) -/

/-- the stretch of query text from the first character of its first word to the end of its last word
    (normalised characters); 0 for a query without words -/
def stretch (q : Text) : Nat :=
  match q.words.head?, q.words.getLast? with
  | some f, some l => l.hi - f.lo
  | _, _ => 0

theorem TextOK.words_mono {t : Text} (ht : TextOK t) :
    ∀ (j i : Nat) (hij : i ≤ j) (hj : j < t.words.length),
      (t.words[i]'(by omega)).lo ≤ (t.words[j]).lo ∧ (t.words[i]'(by omega)).hi ≤ (t.words[j]).hi := by
  intro j
  induction j with
  | zero => intro i hij hj; have : i = 0 := by omega
            subst this; exact ⟨Nat.le_refl _, Nat.le_refl _⟩
  | succ j ih =>
    intro i hij hj
    by_cases e : i = j + 1
    · subst e; exact ⟨Nat.le_refl _, Nat.le_refl _⟩
    · have h1 := ih i (by omega) (by omega)
      have h2 := ht.ordered j hj
      have b1 := ht.bounds (t.words[j]'(by omega)) (List.getElem_mem _)
      have b2 := ht.bounds (t.words[j+1]) (List.getElem_mem _)
      omega

theorem stretch_eq {t : Text} (h : 0 < t.words.length) :
    stretch t = (t.words[t.words.length - 1]'(by omega)).hi - (t.words[0]).lo := by
  unfold stretch
  rw [List.head?_eq_getElem?, List.getLast?_eq_getElem?, List.getElem?_eq_getElem h,
    List.getElem?_eq_getElem (by omega)]

/-- the text from the start of word `i` to the end of a later word `j` lies inside the stretch -/
theorem TextOK.le_stretch {t : Text} (ht : TextOK t) (i j : Nat) (hij : i ≤ j) (hj : j < t.words.length) :
    (t.words[j]).hi - (t.words[i]'(by omega)).lo ≤ stretch t := by
  rw [stretch_eq (by omega)]
  have h1 := ht.words_mono i 0 (by omega) (by omega)
  have h2 := ht.words_mono (t.words.length - 1) j (by omega) (by omega)
  omega

theorem TextOK.len_le_stretch {t : Text} (ht : TextOK t) {w : WordShape} (hw : w ∈ t.words) :
    w.len ≤ stretch t := by
  obtain ⟨i, hi, rfl⟩ := List.mem_iff_getElem.mp hw
  exact ht.le_stretch i i (Nat.le_refl _) hi

theorem TextOK.join_len_le_stretch {t : Text} (ht : TextOK t) {w w' : WordShape} (hw : w ∈ t.words)
    (hn : t.words[w.offset + 1]? = some w') : (w.join w').len ≤ stretch t := by
  obtain ⟨i, hi, rfl⟩ := List.mem_iff_getElem.mp hw
  rw [ht.offsets i hi] at hn
  obtain ⟨h1, h2⟩ := List.getElem?_eq_some_iff.mp hn
  subst h2
  exact ht.le_stretch i (i + 1) (by omega) h1

/-- invariant of the `text_match` state: every stored record match, and the pending candidate, highlights at
    most `B` characters -/
structure HlSpanInv (B : Nat) (s : TMState) : Prop where
  rm   : ∀ m, some m ∈ s.rm → m.subHi - m.subLo ≤ B
  cand : ∀ p, s.cand = some p → p.1.subHi - p.1.subLo ≤ B

theorem mem_setAt {P : WMatch → Prop} {l : List (Option WMatch)} (h : ∀ m, some m ∈ l → P m) {i : Nat} {m0 : WMatch}
    (h0 : P m0) : ∀ m, some m ∈ setAt l i m0 → P m := by
  intro m hm
  rcases List.mem_or_eq_of_mem_set hm with h1 | h1
  · exact h m h1
  · cases h1; exact h0

section spanSteps
variable {K : Consts} {rt qt : Text} (hrt : TextOK rt) (hqt : TextOK qt) (hwm : WordMatchOK K rt qt)
include hrt hqt hwm

theorem tryJoinR_span {s s' : TMState} {r q : WordShape} (hr : r ∈ rt.words) (hq : q ∈ qt.words)
    (hs : HlSpanInv (stretch qt + 1) s) (h : tryJoinR K rt qt s r q = some s') : HlSpanInv (stretch qt + 1) s' := by
  unfold tryJoinR at h
  split at h
  · cases h
  · rename_i rnext hnext
    split at h
    · cases h
    · split at h
      · cases h
      · cases h
      · split at h
        · cases h
        · rename_i rmatch qmatch hm
          split at h
          · cases h
          · rename_i r1 r2 hsp
            simp only [Option.some.injEq] at h
            subst h
            obtain ⟨hmem, _, hle⟩ := hrt.next hr hnext
            obtain ⟨hjw, hjs⟩ := hrt.join_wordIn hr hnext
            have hp := hwm (r.join rnext) q (rmatch, qmatch) hjw (hqt.wordIn hq) hjs (hqt.stems q hq) hm
            obtain ⟨hg, ⟨_, _, _, a4, a5⟩, ⟨_, _, _, b4, b5⟩⟩ := split_some hsp
            have br := hrt.bounds r hr
            have hql := hqt.len_le_stretch hq
            have hn := hp.near.1
            have hqle := hp.q_le
            simp only [] at hn hqle
            refine ⟨mem_setAt (mem_setAt hs.rm ?_) ?_, fun p hp => by cases hp⟩
            · rw [a4, a5]; simp only [WordShape.len]; omega
            · rw [b4, b5]; omega

theorem tryJoinQ_span {s s' : TMState} {r q : WordShape} (hr : r ∈ rt.words) (hq : q ∈ qt.words)
    (hs : HlSpanInv (stretch qt + 1) s) (h : tryJoinQ K rt qt s r q = some s') : HlSpanInv (stretch qt + 1) s' := by
  unfold tryJoinQ at h
  split at h
  · cases h
  · rename_i qnext hnext
    split at h
    · cases h
    · split at h
      · cases h
      · cases h
      · split at h
        · cases h
        · rename_i rmatch qmatch hm
          split at h
          · cases h
          · rename_i q1 q2 hsp
            simp only [Option.some.injEq] at h
            subst h
            obtain ⟨hjw, hjs⟩ := hqt.join_wordIn hq hnext
            have hp := hwm r (q.join qnext) (rmatch, qmatch) (hrt.wordIn hr) hjw (hrt.stems r hr) hjs hm
            have hql := hqt.join_len_le_stretch hq hnext
            have hn := hp.near.1
            have hqle := hp.q_le
            have h0 := hp.r_sub0
            simp only [] at hn hqle h0
            refine ⟨mem_setAt hs.rm ?_, fun p hp => by cases hp⟩
            omega

theorem tmStep_span {s : TMState} {r q : WordShape} (hr : r ∈ rt.words) (hq : q ∈ qt.words)
    (hs : HlSpanInv (stretch qt + 1) s) : HlSpanInv (stretch qt + 1) (tmStep K rt qt q s r).1 := by
  unfold tmStep
  split
  · rename_i s' h; exact tryJoinR_span hrt hqt hwm hr hq hs h
  · split
    · rename_i s' h; exact tryJoinQ_span hrt hqt hwm hr hq hs h
    · split
      · exact hs
      · rename_i r2 q2 hm
        have hp := hwm r q (r2, q2) (hrt.wordIn hr) (hqt.wordIn hq) (hrt.stems r hr) (hqt.stems q hq) hm
        split
        · refine ⟨hs.rm, ?_⟩
          intro p hpe
          simp only [Option.some.injEq] at hpe
          subst hpe
          have hql := hqt.len_le_stretch hq
          have hn := hp.near.1
          have hqle := hp.q_le
          simp only [] at hn hqle ⊢
          omega
        · exact hs

theorem tmScan_span {q : WordShape} (hq : q ∈ qt.words) (rs : List WordShape) (hrs : ∀ r ∈ rs, r ∈ rt.words)
    {s : TMState} (hs : HlSpanInv (stretch qt + 1) s) : HlSpanInv (stretch qt + 1) (tmScan K rt qt q rs s) := by
  induction rs generalizing s with
  | nil => exact hs
  | cons r rs ih =>
    have hrs' : ∀ r ∈ rs, r ∈ rt.words := fun x hx => hrs x (by simp [hx])
    unfold tmScan
    split
    · exact ih hrs' hs
    · have hstep := tmStep_span hrt hqt hwm (hrs r (by simp)) hq hs
      simp only []
      split
      · exact hstep
      · exact ih hrs' hstep

omit hrt hqt hwm in
theorem tmCommit_span {B : Nat} {s : TMState} (hs : HlSpanInv B s) : HlSpanInv B (tmCommit s) := by
  unfold tmCommit
  split
  · exact hs
  · rename_i rmm qmm hc
    exact ⟨mem_setAt hs.rm (hs.cand _ hc), fun p hp => by cases hp⟩

theorem tmQuery_span {q : WordShape} (hq : q ∈ qt.words) {s : TMState} (hs : HlSpanInv (stretch qt + 1) s) :
    HlSpanInv (stretch qt + 1) (tmQuery K rt qt s q) := by
  unfold tmQuery
  split
  · exact hs
  · refine tmCommit_span (tmScan_span hrt hqt hwm hq rt.words (fun _ h => h) ?_)
    exact ⟨hs.rm, fun p hp => by cases hp⟩

theorem foldl_tmQuery_span (qs : List WordShape) (hqs : ∀ q ∈ qs, q ∈ qt.words) {s : TMState}
    (hs : HlSpanInv (stretch qt + 1) s) : HlSpanInv (stretch qt + 1) (qs.foldl (tmQuery K rt qt) s) := by
  induction qs generalizing s with
  | nil => exact hs
  | cons q qs ih =>
    exact ih (fun x hx => hqs x (by simp [hx])) (tmQuery_span hrt hqt hwm (hqs q (by simp)) hs)

/-- every record match returned by `text_match` highlights at most `stretch qt + 1` characters -/
theorem textMatch_span_le : ∀ m ∈ (textMatch K rt qt).1, m.subHi - m.subLo ≤ stretch qt + 1 := by
  have hs := foldl_tmQuery_span hrt hqt hwm qt.words (fun _ h => h)
    (s := { rm := List.replicate rt.words.length none, qm := List.replicate qt.words.length none, cand := none })
    ⟨fun m hm => by simp [List.mem_replicate] at hm, fun p hp => by cases hp⟩
  intro m hm
  simp only [textMatch, List.mem_filterMap, id] at hm
  obtain ⟨a, ha, rfl⟩ := hm
  exact hs.rm m ha

end spanSteps

end Lucid
