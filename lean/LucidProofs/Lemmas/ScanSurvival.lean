/-
  LucidProofs.Lemmas.ScanSurvival — control flow of `text_match` (`matching/text.rs`, model
  `Lucid.textMatch`): state invariant of the greedy scan, monotonicity (a committed match is never removed or
  changed: `Ext`, `QueryOut.mono`, `fold_mono`), counting (`cntSet`, `Ext.cntSet_le`), and SURVIVAL (a query
  word whose slot is free and for which one of the three closures — plain `word_match`, joined record words,
  joined query words: `AnyClosure` — succeeds on a free record word ends up matched, and a new record slot is
  filled: `QueryOut.survive`, `fold_survive`, `textMatch_nonempty`). The five exits of the loop body are the
  constructors of `QueryOut` (`tmQuery_spec`).

  Only one structural fact about the two texts is used: `OffsetsOK` (`words[i].offset = i`, a field of
  `TextOK`). Everything needed about `word_match` results (`offset`, `fin` of a new pair) is proved here
  directly from the model by a generic invariant of the two slice loops (`wordMatch_inv`), so no hypothesis
  about distances / gates (`WordMatchOK`) is required.
-/
import LucidProofs.Lemmas.MatchFacts

namespace Lucid

/-! ### results of `word_match` are built by `new_pair` -/

theorem wmInner_inv (c : WMCtx) (P : WMatch × WMatch → Prop)
    (hnew : ∀ rs qs d, P (newPair c.K c.r c.q rs qs d)) (rslice : Nat)
    (l : List Nat) (best : Option (WMatch × WMatch)) (hb : ∀ p, best = some p → P p) :
    ∀ p, wmInner c rslice l best = some p → P p := by
  fun_induction wmInner c rslice l best <;> grind

theorem wmOuter_inv (c : WMCtx) (P : WMatch × WMatch → Prop)
    (hnew : ∀ rs qs d, P (newPair c.K c.r c.q rs qs d)) (range : List Nat) :
    ∀ (l : List Nat) (best : Option (WMatch × WMatch)), (∀ p, best = some p → P p) →
      ∀ p, wmOuter c range l best = some p → P p := by
  intro l
  induction l with
  | nil => intro best hb p hp; exact hb p (by simpa [wmOuter] using hp)
  | cons rs rest ih =>
    intro best hb p hp
    unfold wmOuter at hp
    exact ih _ (wmInner_inv c P hnew rs range best hb) p hp

/-- every result of `word_match(r, q)` is a `new_pair` of `r` and `q`: any property of all such pairs holds of it -/
theorem wordMatch_inv (K : Consts) (rt : Text) (r : WordShape) (qt : Text) (q : WordShape)
    (P : WMatch × WMatch → Prop) (hnew : ∀ rs qs d, P (newPair K r q rs qs d))
    (p : WMatch × WMatch) (h : wordMatch K rt r qt q = some p) : P p := by
  unfold wordMatch wordMatchM at h
  split at h
  · simp at h
  · split at h
    · simp at h
    · split at h
      · simp at h
      · simp only [] at h
        split at h
        · simp at h
        · exact wmOuter_inv _ P hnew _ _ none (by simp) p h

theorem wordMatch_r_offset {K rt r qt q p} (h : wordMatch K rt r qt q = some p) : p.1.offset = r.offset :=
  wordMatch_inv K rt r qt q (fun p => p.1.offset = r.offset) (fun _ _ _ => rfl) p h

theorem wordMatch_q_offset {K rt r qt q p} (h : wordMatch K rt r qt q = some p) : p.2.offset = q.offset :=
  wordMatch_inv K rt r qt q (fun p => p.2.offset = q.offset) (fun _ _ _ => rfl) p h

/-- a match against a finished query word is itself finished (`fin = q.fin || …` in `new_pair`) -/
theorem wordMatch_fin {K rt r qt q p} (h : wordMatch K rt r qt q = some p) (hq : q.fin = true) :
    p.1.fin = true ∧ p.2.fin = true :=
  wordMatch_inv K rt r qt q (fun p => p.1.fin = true ∧ p.2.fin = true)
    (fun _ _ _ => by simp [newPair, hq]) p h

/-- both halves of a pair carry the same `fin` flag and the same typos -/
theorem wordMatch_fin_eq {K rt r qt q p} (h : wordMatch K rt r qt q = some p) :
    p.1.fin = p.2.fin ∧ p.1.typos = p.2.typos :=
  wordMatch_inv K rt r qt q (fun p => p.1.fin = p.2.fin ∧ p.1.typos = p.2.typos) (fun _ _ _ => ⟨rfl, rfl⟩) p h

theorem split_offsets {K : Consts} {m : WMatch} {w1 w2 : WordShape} {p : WMatch × WMatch}
    (h : m.split K w1 w2 = some p) : p.1.offset = w1.offset ∧ p.2.offset = w2.offset ∧ p.1.fin = true := by
  unfold WMatch.split at h
  split at h
  · simp at h
  · simp only [Option.some.injEq] at h; subst h; exact ⟨rfl, rfl, rfl⟩

/-! ### option-slot lists -/

/-- the only fact about the tokenizer the scan relies on: a word's `offset` is its position -/
def OffsetsOK (t : Text) : Prop := ∀ i (h : i < t.words.length), (t.words[i]).offset = i

theorem TextOK.offsetsOK {t : Text} (h : TextOK t) : OffsetsOK t := h.offsets

theorem OffsetsOK.of_mem {t : Text} (h : OffsetsOK t) {w : WordShape} (hw : w ∈ t.words) :
    t.words[w.offset]? = some w := by
  obtain ⟨i, hi, e⟩ := List.mem_iff_getElem.mp hw
  have := h i hi
  rw [e] at this
  rw [this, List.getElem?_eq_getElem hi, e]

theorem OffsetsOK.lt_of_mem {t : Text} (h : OffsetsOK t) {w : WordShape} (hw : w ∈ t.words) :
    w.offset < t.words.length := by
  have := h.of_mem hw
  exact (List.getElem?_eq_some_iff.mp this).1

theorem OffsetsOK.offset_of_get {t : Text} (h : OffsetsOK t) {i : Nat} {w : WordShape}
    (hw : t.words[i]? = some w) : w.offset = i ∧ w ∈ t.words := by
  obtain ⟨hi, e⟩ := List.getElem?_eq_some_iff.mp hw
  exact ⟨e ▸ h i hi, e ▸ List.getElem_mem hi⟩

theorem isSet_iff {l : List (Option WMatch)} {i : Nat} : isSet l i = true ↔ ∃ m, l[i]? = some (some m) := by
  unfold isSet
  rw [List.getD_eq_getElem?_getD]
  cases h : l[i]? with
  | none => simp
  | some o => cases o <;> simp

theorem isSet_false_iff {l : List (Option WMatch)} {i : Nat} : isSet l i = false ↔ ∀ m, l[i]? ≠ some (some m) := by
  rw [← Bool.not_eq_true, isSet_iff]; simp

theorem isSet_false_of_get {l : List (Option WMatch)} {i : Nat} (h : l[i]? = some none) : isSet l i = false := by
  rw [isSet_false_iff]; intro m; rw [h]; simp

theorem isSet_lt {l : List (Option WMatch)} {i : Nat} (h : isSet l i = true) : i < l.length := by
  obtain ⟨m, hm⟩ := isSet_iff.mp h
  exact (List.getElem?_eq_some_iff.mp hm).1

theorem isSet_replicate (n i : Nat) : isSet (List.replicate n none) i = false := by
  rw [isSet_false_iff]; intro m h
  obtain ⟨_, e⟩ := List.getElem?_eq_some_iff.mp h
  simp at e

@[simp] theorem setAt_length (l : List (Option WMatch)) (i : Nat) (m : WMatch) : (setAt l i m).length = l.length := by
  simp [setAt]

theorem getElem?_setAt (l : List (Option WMatch)) (i j : Nat) (m : WMatch) :
    (setAt l i m)[j]? = if i = j then (if i < l.length then some (some m) else none) else l[j]? := by
  unfold setAt; rw [List.getElem?_set]

theorem getElem?_setAt_self {l : List (Option WMatch)} {i : Nat} (m : WMatch) (h : i < l.length) :
    (setAt l i m)[i]? = some (some m) := by
  rw [getElem?_setAt]; simp [h]

theorem getElem?_setAt_ne {l : List (Option WMatch)} {i j : Nat} (m : WMatch) (h : i ≠ j) :
    (setAt l i m)[j]? = l[j]? := by
  rw [getElem?_setAt]; simp [h]

theorem isSet_setAt_self {l : List (Option WMatch)} {i : Nat} (m : WMatch) (h : i < l.length) :
    isSet (setAt l i m) i = true := isSet_iff.mpr ⟨m, getElem?_setAt_self m h⟩

/-- `Ext l l'`: `l'` has the same length as `l` and every filled slot of `l` is filled with the same match in `l'` -/
def Ext (l l' : List (Option WMatch)) : Prop :=
  l'.length = l.length ∧ ∀ (i : Nat) (m : WMatch), l[i]? = some (some m) → l'[i]? = some (some m)

theorem Ext.refl (l : List (Option WMatch)) : Ext l l := ⟨rfl, fun _ _ h => h⟩

theorem Ext.trans {a b c : List (Option WMatch)} (h1 : Ext a b) (h2 : Ext b c) : Ext a c :=
  ⟨h2.1.trans h1.1, fun i m h => h2.2 i m (h1.2 i m h)⟩

theorem Ext.isSet {l l' : List (Option WMatch)} (h : Ext l l') {i : Nat} (hi : Lucid.isSet l i = true) :
    Lucid.isSet l' i = true := by
  obtain ⟨m, hm⟩ := isSet_iff.mp hi
  exact isSet_iff.mpr ⟨m, h.2 i m hm⟩

/-- filling a free slot extends the list -/
theorem Ext.setAt {l : List (Option WMatch)} {i : Nat} (m : WMatch) (h : Lucid.isSet l i = false) :
    Ext l (Lucid.setAt l i m) := by
  refine ⟨setAt_length _ _ _, fun j m' hj => ?_⟩
  by_cases e : i = j
  · subst e; exact absurd hj (isSet_false_iff.mp h m')
  · rw [getElem?_setAt_ne m e]; exact hj

/-- number of filled slots (= length of the match list returned by `text_match`) -/
def cntSet (l : List (Option WMatch)) : Nat := (l.filterMap id).length

theorem cntSet_cons (a : Option WMatch) (t : List (Option WMatch)) :
    cntSet (a :: t) = (if a.isSome then 1 else 0) + cntSet t := by
  cases a <;> simp [cntSet] <;> omega

theorem mem_filterMap_id {l : List (Option WMatch)} {m : WMatch} : m ∈ l.filterMap id ↔ ∃ i : Nat, l[i]? = some (some m) := by
  rw [List.mem_filterMap]
  constructor
  · rintro ⟨a, ha, e⟩
    simp only [id] at e; subst e
    obtain ⟨i, hi, e⟩ := List.mem_iff_getElem.mp ha
    exact ⟨i, by rw [List.getElem?_eq_getElem hi, e]⟩
  · rintro ⟨i, hi⟩
    exact ⟨some m, List.mem_of_getElem? hi, rfl⟩

/-- counting: an extension has at least as many filled slots -/
theorem Ext.cntSet_le : ∀ {l l' : List (Option WMatch)}, Ext l l' → cntSet l ≤ cntSet l'
  | [], l', _ => by simp [cntSet]
  | a :: t, [], h => by have := h.1; simp at this
  | a :: t, b :: t', h => by
    have ht : Ext t t' := ⟨by have := h.1; simpa using this, fun i m hi => by
      have := h.2 (i + 1) m (by simpa using hi); simpa using this⟩
    have := Ext.cntSet_le ht
    rw [cntSet_cons, cntSet_cons]
    cases a with
    | none => simp; omega
    | some m =>
      have := h.2 0 m (by simp)
      simp at this; subst this; simp; omega

theorem cntSet_setAt_free : ∀ {l : List (Option WMatch)} {i : Nat} (m : WMatch), i < l.length → isSet l i = false →
    cntSet (setAt l i m) = cntSet l + 1
  | [], i, m, h, _ => by simp at h
  | a :: t, 0, m, _, hf => by
    have : a = none := by
      cases a with
      | none => rfl
      | some x => exact absurd rfl (isSet_false_iff.mp hf x)
    subst this
    simp [setAt, cntSet]
  | a :: t, i + 1, m, h, hf => by
    have hf' : isSet t i = false := by
      rw [isSet_false_iff] at hf ⊢; intro x hx; exact hf x (by simpa using hx)
    have := cntSet_setAt_free (l := t) (i := i) m (by simpa using h) hf'
    have e : setAt (a :: t) (i + 1) m = a :: setAt t i m := by simp [setAt]
    rw [e, cntSet_cons, cntSet_cons, this]; omega

theorem cntSet_pos_of_isSet {l : List (Option WMatch)} {i : Nat} (h : isSet l i = true) : 1 ≤ cntSet l := by
  obtain ⟨m, hm⟩ := isSet_iff.mp h
  have : m ∈ l.filterMap id := mem_filterMap_id.mpr ⟨i, hm⟩
  unfold cntSet
  exact List.length_pos_of_mem this


/-! ### the scan for one query word -/

/-- state invariant of `text_match`: the scratch vectors have the lengths of the two texts -/
structure SInv (rt qt : Text) (s : TMState) : Prop where
  rlen : s.rm.length = rt.words.length
  qlen : s.qm.length = qt.words.length

/-- invariant of the scan for the query word `q`: lengths, `q`'s own slot is still free, and the pending candidate
    is the `word_match` result of a record word whose slot is free (hence its offsets are in range) -/
structure ScanInv (K : Consts) (rt qt : Text) (q : WordShape) (s : TMState) : Prop extends SInv rt qt s where
  qfree : isSet s.qm q.offset = false
  cand  : ∀ p, s.cand = some p → ∃ r ∈ rt.words, wordMatch K rt r qt q = some p ∧ isSet s.rm r.offset = false

/-- the pending candidate's offsets are in range: its record offset is a record position, its query offset is `q`'s -/
theorem ScanInv.cand_range {K : Consts} {rt qt : Text} {q : WordShape} {s : TMState} (h : ScanInv K rt qt q s)
    (hrt : OffsetsOK rt) {p : WMatch × WMatch} (hp : s.cand = some p) :
    p.1.offset < rt.words.length ∧ p.2.offset = q.offset ∧ isSet s.rm p.1.offset = false := by
  obtain ⟨r, hr, hwm, hf⟩ := h.cand p hp
  rw [wordMatch_r_offset hwm, wordMatch_q_offset hwm]
  exact ⟨hrt.lt_of_mem hr, rfl, hf⟩

/-- closure 1 succeeded on record position `a`: record slots `a`, `a+1` (both free before) and the query slot are filled -/
def JoinedR (rt : Text) (q : WordShape) (s s' : TMState) : Prop :=
  ∃ a r1 r2 qm, a + 1 < rt.words.length ∧ isSet s.rm a = false ∧ isSet s.rm (a + 1) = false ∧
    r1.fin = true ∧
    s' = { rm := setAt (setAt s.rm a r1) (a + 1) r2, qm := setAt s.qm q.offset qm, cand := none }

/-- closure 2 succeeded: record slot `a` (free before) and the query slots `q.offset`, `q.offset+1` are filled -/
def JoinedQ (rt qt : Text) (q : WordShape) (s s' : TMState) : Prop :=
  ∃ a rmm q1 q2, a < rt.words.length ∧ isSet s.rm a = false ∧
    q.offset + 1 < qt.words.length ∧ isSet s.qm (q.offset + 1) = false ∧
    s' = { rm := setAt s.rm a rmm, qm := setAt (setAt s.qm q.offset q1) (q.offset + 1) q2, cand := none }

theorem tryJoinR_spec {K : Consts} {rt qt : Text} (hrt : OffsetsOK rt) {s s' : TMState}
    {r q : WordShape} (hfree : isSet s.rm r.offset = false)
    (h : tryJoinR K rt qt s r q = some s') : JoinedR rt q s s' := by
  unfold tryJoinR at h
  split at h
  · simp at h
  · rename_i rnext hnext
    split at h
    · simp at h
    · split at h
      · simp at h
      · simp at h
      · rename_i hslot
        split at h
        · simp at h
        · rename_i rmatch qmatch hwm
          split at h
          · simp at h
          · rename_i r1 r2 hsp
            simp only [Option.some.injEq] at h
            obtain ⟨e1, e2, e3⟩ := split_offsets hsp
            have eq := wordMatch_q_offset hwm
            have en := (hrt.offset_of_get hnext).1
            simp only [] at eq
            have hlt : r.offset + 1 < rt.words.length := (List.getElem?_eq_some_iff.mp hnext).1
            refine ⟨r.offset, r1, r2, qmatch, hlt, hfree, isSet_false_of_get hslot, e3, ?_⟩
            rw [← h, e1, e2, en, eq]

theorem tryJoinQ_spec {K : Consts} {rt qt : Text} (hrt : OffsetsOK rt) (hqt : OffsetsOK qt) {s s' : TMState}
    {r q : WordShape} (hr : r ∈ rt.words) (hfree : isSet s.rm r.offset = false)
    (h : tryJoinQ K rt qt s r q = some s') : JoinedQ rt qt q s s' := by
  unfold tryJoinQ at h
  split at h
  · simp at h
  · rename_i qnext hnext
    split at h
    · simp at h
    · split at h
      · simp at h
      · simp at h
      · rename_i hslot
        split at h
        · simp at h
        · rename_i rmatch qmatch hwm
          split at h
          · simp at h
          · rename_i q1 q2 hsp
            simp only [Option.some.injEq] at h
            obtain ⟨e1, e2, _⟩ := split_offsets hsp
            have er := wordMatch_r_offset hwm
            have en := (hqt.offset_of_get hnext).1
            simp only [] at er
            have hlt : q.offset + 1 < qt.words.length := (List.getElem?_eq_some_iff.mp hnext).1
            refine ⟨r.offset, rmatch, q1, q2, hrt.lt_of_mem hr, hfree, hlt, isSet_false_of_get hslot, ?_⟩
            rw [← h, e1, e2, en, er]

/-- the two join closures read only the two vectors of the state, not the pending candidate -/
theorem tryJoinR_congr (K : Consts) (rt qt : Text) {s s' : TMState} (h1 : s'.rm = s.rm) (h2 : s'.qm = s.qm)
    (r q : WordShape) : tryJoinR K rt qt s' r q = tryJoinR K rt qt s r q := by
  unfold tryJoinR; rw [h1, h2]

theorem tryJoinQ_congr (K : Consts) (rt qt : Text) {s s' : TMState} (h1 : s'.rm = s.rm) (h2 : s'.qm = s.qm)
    (r q : WordShape) : tryJoinQ K rt qt s' r q = tryJoinQ K rt qt s r q := by
  unfold tryJoinQ; rw [h1, h2]

/-- one of the three closures of the scan body succeeds for the record word `r` in state `s` -/
def AnyClosure (K : Consts) (rt qt : Text) (s : TMState) (r q : WordShape) : Prop :=
  wordMatch K rt r qt q ≠ none ∨ tryJoinR K rt qt s r q ≠ none ∨ tryJoinQ K rt qt s r q ≠ none

theorem AnyClosure.congr {K : Consts} {rt qt : Text} {s s' : TMState} (h1 : s'.rm = s.rm) (h2 : s'.qm = s.qm)
    {r q : WordShape} (h : AnyClosure K rt qt s r q) : AnyClosure K rt qt s' r q := by
  unfold AnyClosure at h ⊢
  rw [tryJoinR_congr K rt qt h1 h2, tryJoinQ_congr K rt qt h1 h2]; exact h

/-- one step of the scan: a join (stop), or only the candidate changes and the invariant is kept; in the latter
    case a candidate exists afterwards whenever it existed before or the plain `word_match` succeeded -/
theorem tmStep_spec {K : Consts} {rt qt : Text} (hrt : OffsetsOK rt) (hqt : OffsetsOK qt) {s : TMState}
    {r q : WordShape} (hs : ScanInv K rt qt q s) (hr : r ∈ rt.words) (hfree : isSet s.rm r.offset = false) :
    (JoinedR rt q s (tmStep K rt qt q s r).1 ∧ (tmStep K rt qt q s r).2 = true) ∨
    (JoinedQ rt qt q s (tmStep K rt qt q s r).1 ∧ (tmStep K rt qt q s r).2 = true) ∨
    ((tmStep K rt qt q s r).1.rm = s.rm ∧ (tmStep K rt qt q s r).1.qm = s.qm ∧
      ScanInv K rt qt q (tmStep K rt qt q s r).1 ∧
      ((s.cand.isSome ∨ AnyClosure K rt qt s r q) → (tmStep K rt qt q s r).1.cand.isSome) ∧
      ((tmStep K rt qt q s r).2 = true → (tmStep K rt qt q s r).1.cand.isSome)) := by
  unfold tmStep
  cases hn1 : tryJoinR K rt qt s r q with
  | some s' => exact Or.inl ⟨tryJoinR_spec hrt hfree hn1, rfl⟩
  | none =>
    cases hn2 : tryJoinQ K rt qt s r q with
    | some s' => exact Or.inr (Or.inl ⟨tryJoinQ_spec hrt hqt hr hfree hn2, rfl⟩)
    | none =>
      refine Or.inr (Or.inr ?_)
      simp only []
      cases h3 : wordMatch K rt r qt q with
      | none =>
        refine ⟨rfl, rfl, hs, ?_, by simp⟩
        rintro (h | h | h | h)
        · exact h
        · exact absurd h3 h
        · exact absurd hn1 h
        · exact absurd hn2 h
      | some p =>
        obtain ⟨r2, q2⟩ := p
        simp only []
        split
        · refine ⟨rfl, rfl, ⟨⟨hs.rlen, hs.qlen⟩, hs.qfree, ?_⟩, fun _ => rfl, fun _ => rfl⟩
          intro p hp
          simp only [Option.some.injEq] at hp
          subst hp
          exact ⟨r, hr, h3, hfree⟩
        · rename_i hrep
          refine ⟨rfl, rfl, hs, fun _ => ?_, by simp⟩
          cases hc : s.cand with
          | none => simp [shouldReplace, hc] at hrep
          | some p => rfl

/-- outcome of the whole scan over the record words `rs` -/
theorem tmScan_spec {K : Consts} {rt qt : Text} (hrt : OffsetsOK rt) (hqt : OffsetsOK qt) (q : WordShape) :
    ∀ (rs : List WordShape) (s : TMState), (∀ r ∈ rs, r ∈ rt.words) → ScanInv K rt qt q s →
      JoinedR rt q s (tmScan K rt qt q rs s) ∨ JoinedQ rt qt q s (tmScan K rt qt q rs s) ∨
      ((tmScan K rt qt q rs s).rm = s.rm ∧ (tmScan K rt qt q rs s).qm = s.qm ∧
        ScanInv K rt qt q (tmScan K rt qt q rs s) ∧
        ((s.cand.isSome ∨ ∃ r ∈ rs, isSet s.rm r.offset = false ∧ AnyClosure K rt qt s r q) →
          (tmScan K rt qt q rs s).cand.isSome)) := by
  intro rs
  induction rs with
  | nil =>
    intro s _ hs
    refine Or.inr (Or.inr ⟨rfl, rfl, hs, ?_⟩)
    rintro (h | ⟨r, hr, _⟩)
    · exact h
    · simp at hr
  | cons r rs ih =>
    intro s hmem hs
    have hmem' : ∀ r' ∈ rs, r' ∈ rt.words := fun r' h => hmem r' (List.mem_cons_of_mem _ h)
    unfold tmScan
    split
    · rename_i htaken
      rcases ih s hmem' hs with h | h | ⟨h1, h2, h3, h4⟩
      · exact Or.inl h
      · exact Or.inr (Or.inl h)
      · refine Or.inr (Or.inr ⟨h1, h2, h3, ?_⟩)
        rintro (h | ⟨r', hr', hf, hm⟩)
        · exact h4 (Or.inl h)
        · rcases List.mem_cons.mp hr' with e | e
          · subst e; rw [htaken] at hf; cases hf
          · exact h4 (Or.inr ⟨r', e, hf, hm⟩)
    · rename_i hfree
      have hfree : isSet s.rm r.offset = false := by simpa using hfree
      have hstep := tmStep_spec hrt hqt hs (hmem r (List.mem_cons_self)) hfree
      generalize tmStep K rt qt q s r = res at hstep
      obtain ⟨s', stop⟩ := res
      simp only [] at hstep ⊢
      rcases hstep with ⟨h, hstop⟩ | ⟨h, hstop⟩ | ⟨h1, h2, h3, h4, h5⟩
      · subst hstop; exact Or.inl h
      · subst hstop; exact Or.inr (Or.inl h)
      · cases stop with
        | true =>
          refine Or.inr (Or.inr ⟨h1, h2, h3, fun _ => h5 rfl⟩)
        | false =>
          simp only [Bool.false_eq_true, if_false]
          rcases ih s' hmem' h3 with h | h | ⟨g1, g2, g3, g4⟩
          · -- the join happened later, on the unchanged vectors
            obtain ⟨a, r1, r2, qm, ha, f0, f1, hfin, e⟩ := h
            rw [h1] at f0 f1
            exact Or.inl ⟨a, r1, r2, qm, ha, f0, f1, hfin, by rw [e, h1, h2]⟩
          · obtain ⟨a, rmm, q1, q2, ha, f0, hq, f1, e⟩ := h
            rw [h1] at f0; rw [h2] at f1
            exact Or.inr (Or.inl ⟨a, rmm, q1, q2, ha, f0, hq, f1, by rw [e, h1, h2]⟩)
          · refine Or.inr (Or.inr ⟨g1.trans h1, g2.trans h2, g3, ?_⟩)
            rintro (h | ⟨r', hr', hf, hm⟩)
            · exact g4 (Or.inl (h4 (Or.inl h)))
            · rcases List.mem_cons.mp hr' with e | e
              · subst e; exact g4 (Or.inl (h4 (Or.inr hm)))
              · exact g4 (Or.inr ⟨r', e, by rw [h1]; exact hf, hm.congr h1 h2⟩)


/-! ### commit, one query word, the whole fold -/

/-- closure 3 committed: the record word `r` (slot free before) was matched plainly with `q` -/
def Plain (K : Consts) (rt qt : Text) (q : WordShape) (s s' : TMState) : Prop :=
  ∃ r ∈ rt.words, ∃ p, wordMatch K rt r qt q = some p ∧ isSet s.rm r.offset = false ∧
    s' = { rm := setAt s.rm r.offset p.1, qm := setAt s.qm q.offset p.2, cand := none }

/-- the five ways the loop body for the query word `q` can end -/
inductive QueryOut (K : Consts) (rt qt : Text) (q : WordShape) (s s' : TMState) : Prop
  | skip  (hq : isSet s.qm q.offset = true) (e : s' = s)
  | joinR (hq : isSet s.qm q.offset = false) (h : JoinedR rt q s s')
  | joinQ (hq : isSet s.qm q.offset = false) (h : JoinedQ rt qt q s s')
  | plain (hq : isSet s.qm q.offset = false) (h : Plain K rt qt q s s')
  | miss  (hq : isSet s.qm q.offset = false) (hrm : s'.rm = s.rm) (hqm : s'.qm = s.qm)
          (hnone : ∀ r ∈ rt.words, isSet s.rm r.offset = false → ¬ AnyClosure K rt qt s r q)

theorem tmQuery_spec {K : Consts} {rt qt : Text} (hrt : OffsetsOK rt) (hqt : OffsetsOK qt) {s : TMState}
    (hs : SInv rt qt s) (q : WordShape) : QueryOut K rt qt q s (tmQuery K rt qt s q) := by
  unfold tmQuery
  split
  · rename_i h; exact .skip h rfl
  · rename_i hq
    have hq : isSet s.qm q.offset = false := by simpa using hq
    have hinv : ScanInv K rt qt q { s with cand := none } :=
      ⟨⟨hs.rlen, hs.qlen⟩, hq, by intro p hp; simp at hp⟩
    rcases tmScan_spec hrt hqt q rt.words _ (fun _ h => h) hinv with h | h | ⟨h1, h2, h3, h4⟩
    · obtain ⟨a, r1, r2, qm, ha, f0, f1, hfin, e⟩ := h
      rw [e]
      exact .joinR hq ⟨a, r1, r2, qm, ha, f0, f1, hfin, rfl⟩
    · obtain ⟨a, rmm, q1, q2, ha, f0, hq', f1, e⟩ := h
      rw [e]
      exact .joinQ hq ⟨a, rmm, q1, q2, ha, f0, hq', f1, rfl⟩
    · generalize tmScan K rt qt q rt.words { s with cand := none } = s1 at h1 h2 h3 h4
      unfold tmCommit
      split
      · rename_i hc
        refine .miss hq h1 h2 ?_
        intro r hr hf hany
        have := h4 (Or.inr ⟨r, hr, hf, hany.congr (s := s) rfl rfl⟩)
        simp [hc] at this
      · rename_i rmm qmm hc
        obtain ⟨r, hr, hwm, hf⟩ := h3.cand _ hc
        have e1 := wordMatch_r_offset hwm
        have e2 := wordMatch_q_offset hwm
        simp only [] at e1 e2
        rw [h1] at hf
        exact .plain hq ⟨r, hr, (rmm, qmm), hwm, hf, by rw [h1, h2, e1, e2]⟩

theorem Ext_setAt2 {l : List (Option WMatch)} {i j : Nat} (m1 m2 : WMatch) (hi : isSet l i = false)
    (hj : isSet l j = false) (hne : i ≠ j) : Ext l (setAt (setAt l i m1) j m2) := by
  refine (Ext.setAt m1 hi).trans (Ext.setAt m2 ?_)
  rw [isSet_false_iff] at hj ⊢
  intro m; rw [getElem?_setAt_ne m1 hne]; exact hj m

theorem cntSet_setAt2 {l : List (Option WMatch)} {i j : Nat} (m1 m2 : WMatch) (hi : isSet l i = false)
    (hj : isSet l j = false) (hne : i ≠ j) (hil : i < l.length) (hjl : j < l.length) :
    cntSet (setAt (setAt l i m1) j m2) = cntSet l + 2 := by
  rw [cntSet_setAt_free m2 (by simpa using hjl), cntSet_setAt_free m1 hil hi]
  rw [isSet_false_iff] at hj ⊢
  intro m; rw [getElem?_setAt_ne m1 hne]; exact hj m

/-- the loop body keeps the state invariant and never removes or changes a committed match -/
theorem QueryOut.mono {K : Consts} {rt qt : Text} {q : WordShape} {s s' : TMState}
    (h : QueryOut K rt qt q s s') : Ext s.rm s'.rm ∧ Ext s.qm s'.qm := by
  cases h with
  | skip hq e => subst e; exact ⟨Ext.refl _, Ext.refl _⟩
  | joinR hq h =>
    obtain ⟨a, r1, r2, qm, ha, f0, f1, _, e⟩ := h
    subst e
    exact ⟨Ext_setAt2 _ _ f0 f1 (by omega), Ext.setAt _ hq⟩
  | joinQ hq h =>
    obtain ⟨a, rmm, q1, q2, ha, f0, hq', f1, e⟩ := h
    subst e
    exact ⟨Ext.setAt _ f0, Ext_setAt2 _ _ hq f1 (by omega)⟩
  | plain hq h =>
    obtain ⟨r, hr, p, hwm, hf, e⟩ := h
    subst e
    exact ⟨Ext.setAt _ hf, Ext.setAt _ hq⟩
  | miss hq hrm hqm _ => rw [hrm, hqm]; exact ⟨Ext.refl _, Ext.refl _⟩

theorem QueryOut.sinv {K : Consts} {rt qt : Text} {q : WordShape} {s s' : TMState}
    (h : QueryOut K rt qt q s s') (hs : SInv rt qt s) : SInv rt qt s' :=
  ⟨h.mono.1.1.trans hs.rlen, h.mono.2.1.trans hs.qlen⟩

/-- SURVIVAL for one query word: if its slot is free and it matches some record word whose slot is free, then
    afterwards its own slot is filled and a record slot that was free before is filled -/
theorem QueryOut.survive {K : Consts} {rt qt : Text} {q : WordShape} {s s' : TMState}
    (h : QueryOut K rt qt q s s') (hs : SInv rt qt s) (hrt : OffsetsOK rt) (hq : q.offset < qt.words.length)
    (hfree : isSet s.qm q.offset = false)
    (hw : ∃ w ∈ rt.words, isSet s.rm w.offset = false ∧ AnyClosure K rt qt s w q) :
    isSet s'.qm q.offset = true ∧ ∃ i, isSet s.rm i = false ∧ isSet s'.rm i = true := by
  have hql : q.offset < s.qm.length := by rw [hs.qlen]; exact hq
  cases h with
  | skip hq' e => rw [hfree] at hq'; cases hq'
  | joinR _ h =>
    obtain ⟨a, r1, r2, qm, ha, f0, f1, _, e⟩ := h
    subst e
    refine ⟨isSet_setAt_self _ hql, a + 1, f1, isSet_setAt_self _ ?_⟩
    rw [setAt_length, hs.rlen]; exact ha
  | joinQ _ h =>
    obtain ⟨a, rmm, q1, q2, ha, f0, hq', f1, e⟩ := h
    subst e
    refine ⟨?_, a, f0, isSet_setAt_self _ (by rw [hs.rlen]; exact ha)⟩
    have : isSet (setAt s.qm q.offset q1) q.offset = true := isSet_setAt_self _ hql
    obtain ⟨m, hm⟩ := isSet_iff.mp this
    exact isSet_iff.mpr ⟨m, by rw [getElem?_setAt_ne _ (by omega)]; exact hm⟩
  | plain _ h =>
    obtain ⟨r, hr, p, hwm, hf, e⟩ := h
    subst e
    exact ⟨isSet_setAt_self _ hql, r.offset, hf, isSet_setAt_self _ (by rw [hs.rlen]; exact hrt.lt_of_mem hr)⟩
  | miss _ _ _ hnone =>
    obtain ⟨w, hw, hf, hm⟩ := hw
    exact absurd hm (hnone w hw hf)

/-- the form used by the filter: after the body ran on a free query slot with a free matching record word, either
    two more record slots are filled, or two more query slots, or one new record slot whose match is finished
    whenever the query word is finished -/
theorem QueryOut.survive_counts {K : Consts} {rt qt : Text} {q : WordShape} {s s' : TMState}
    (h : QueryOut K rt qt q s s') (hs : SInv rt qt s) (hrt : OffsetsOK rt) (hq : q.offset < qt.words.length)
    (hfree : isSet s.qm q.offset = false)
    (hw : ∃ w ∈ rt.words, isSet s.rm w.offset = false ∧ AnyClosure K rt qt s w q) :
    cntSet s.rm + 2 ≤ cntSet s'.rm ∨ cntSet s.qm + 2 ≤ cntSet s'.qm ∨
    ∃ i m, s'.rm[i]? = some (some m) ∧ isSet s.rm i = false ∧ (q.fin = true → m.fin = true) := by
  have hql : q.offset < s.qm.length := by rw [hs.qlen]; exact hq
  cases h with
  | skip hq' e => rw [hfree] at hq'; cases hq'
  | joinR _ h =>
    obtain ⟨a, r1, r2, qm, ha, f0, f1, _, e⟩ := h
    subst e
    left
    rw [cntSet_setAt2 _ _ f0 f1 (by omega) (by rw [hs.rlen]; omega) (by rw [hs.rlen]; omega)]
    exact Nat.le_refl _
  | joinQ _ h =>
    obtain ⟨a, rmm, q1, q2, ha, f0, hq', f1, e⟩ := h
    subst e
    right; left
    rw [cntSet_setAt2 _ _ hfree f1 (by omega) hql (by rw [hs.qlen]; omega)]
    exact Nat.le_refl _
  | plain _ h =>
    obtain ⟨r, hr, p, hwm, hf, e⟩ := h
    subst e
    right; right
    exact ⟨r.offset, p.1, getElem?_setAt_self _ (by rw [hs.rlen]; exact hrt.lt_of_mem hr), hf,
      fun hfin => (wordMatch_fin hwm hfin).1⟩
  | miss _ _ _ hnone =>
    obtain ⟨w, hw, hf, hm⟩ := hw
    exact absurd hm (hnone w hw hf)

/-- the fold over (a tail of) the query words keeps the invariant and only extends the two vectors -/
theorem fold_mono {K : Consts} {rt qt : Text} (hrt : OffsetsOK rt) (hqt : OffsetsOK qt) :
    ∀ (qs : List WordShape) (s : TMState), SInv rt qt s →
      SInv rt qt (qs.foldl (tmQuery K rt qt) s) ∧
      Ext s.rm (qs.foldl (tmQuery K rt qt) s).rm ∧ Ext s.qm (qs.foldl (tmQuery K rt qt) s).qm := by
  intro qs
  induction qs with
  | nil => intro s hs; exact ⟨hs, Ext.refl _, Ext.refl _⟩
  | cons q qs ih =>
    intro s hs
    have h1 := tmQuery_spec (K := K) hrt hqt hs q
    obtain ⟨g1, g2, g3⟩ := ih _ (h1.sinv hs)
    exact ⟨g1, h1.mono.1.trans g2, h1.mono.2.trans g3⟩

/-- the initial state of `text_match` -/
def tmInit (rt qt : Text) : TMState :=
  { rm := List.replicate rt.words.length none, qm := List.replicate qt.words.length none, cand := none }

theorem tmInit_sinv (rt qt : Text) : SInv rt qt (tmInit rt qt) := ⟨by simp [tmInit], by simp [tmInit]⟩

theorem textMatch_eq (K : Consts) (rt qt : Text) :
    textMatch K rt qt = (((qt.words.foldl (tmQuery K rt qt) (tmInit rt qt)).rm.filterMap id),
                         ((qt.words.foldl (tmQuery K rt qt) (tmInit rt qt)).qm.filterMap id)) := rfl

/-- lengths of the two returned lists are the numbers of filled slots -/
theorem textMatch_lengths (K : Consts) (rt qt : Text) :
    (textMatch K rt qt).1.length = cntSet (qt.words.foldl (tmQuery K rt qt) (tmInit rt qt)).rm ∧
    (textMatch K rt qt).2.length = cntSet (qt.words.foldl (tmQuery K rt qt) (tmInit rt qt)).qm := ⟨rfl, rfl⟩

/-- GENERAL SURVIVAL: split the query words as `pre ++ q :: post`. If, when `q`'s turn comes (state after `pre`),
    `q`'s slot is free and some record word with a free slot matches `q`, then in the final state `q`'s slot is
    filled, and some record slot that was free at that moment is filled. -/
theorem fold_survive {K : Consts} {rt qt : Text} (hrt : OffsetsOK rt) (hqt : OffsetsOK qt)
    (pre post : List WordShape) (q : WordShape) (hsplit : qt.words = pre ++ q :: post)
    (hfree : isSet (pre.foldl (tmQuery K rt qt) (tmInit rt qt)).qm q.offset = false)
    (hw : ∃ w ∈ rt.words, isSet (pre.foldl (tmQuery K rt qt) (tmInit rt qt)).rm w.offset = false ∧
            AnyClosure K rt qt (pre.foldl (tmQuery K rt qt) (tmInit rt qt)) w q) :
    isSet (qt.words.foldl (tmQuery K rt qt) (tmInit rt qt)).qm q.offset = true ∧
    ∃ i, isSet (pre.foldl (tmQuery K rt qt) (tmInit rt qt)).rm i = false ∧
         isSet (qt.words.foldl (tmQuery K rt qt) (tmInit rt qt)).rm i = true := by
  have hq : q ∈ qt.words := by rw [hsplit]; simp
  obtain ⟨hs1, _, _⟩ := fold_mono (K := K) hrt hqt pre _ (tmInit_sinv rt qt)
  rw [hsplit, List.foldl_append, List.foldl_cons]
  generalize pre.foldl (tmQuery K rt qt) (tmInit rt qt) = s1 at hs1 hfree hw ⊢
  have hout := tmQuery_spec (K := K) hrt hqt hs1 q
  obtain ⟨a, i, f, g⟩ := hout.survive hs1 hrt (hqt.lt_of_mem hq) hfree hw
  obtain ⟨_, e1, e2⟩ := fold_mono (K := K) hrt hqt post _ (hout.sinv hs1)
  exact ⟨e2.isSet a, i, f, e1.isSet g⟩

theorem filterMap_ne_nil_of_isSet {l : List (Option WMatch)} {i : Nat} (h : isSet l i = true) : l.filterMap id ≠ [] := by
  have := cntSet_pos_of_isSet h
  intro e; rw [cntSet, e] at this; simp at this

/-- first-word survival, any closure: if for the FIRST query word one of the three closures succeeds on some record
    word in the initial state, `text_match` returns at least one record match and at least one query match -/
theorem textMatch_nonempty_any {K : Consts} {rt qt : Text} (hrt : OffsetsOK rt) (hqt : OffsetsOK qt)
    (q0 : WordShape) (hq0 : qt.words[0]? = some q0)
    (hw : ∃ w ∈ rt.words, AnyClosure K rt qt (tmInit rt qt) w q0) :
    (textMatch K rt qt).1 ≠ [] ∧ (textMatch K rt qt).2 ≠ [] := by
  obtain ⟨post, hsplit⟩ : ∃ post, qt.words = [] ++ q0 :: post := by
    cases h : qt.words with
    | nil => simp [h] at hq0
    | cons a t => simp [h] at hq0; subst hq0; exact ⟨t, rfl⟩
  obtain ⟨w, hw, hm⟩ := hw
  have := fold_survive (K := K) hrt hqt [] post q0 hsplit (isSet_replicate _ _)
    ⟨w, hw, isSet_replicate _ _, hm⟩
  obtain ⟨h1, i, _, h2⟩ := this
  rw [textMatch_eq]
  exact ⟨filterMap_ne_nil_of_isSet h2, filterMap_ne_nil_of_isSet h1⟩

/-- `textMatch_nonempty`: if the FIRST query word matches some record word, `text_match` returns at least one
    record match and at least one query match -/
theorem textMatch_nonempty {K : Consts} {rt qt : Text} (hrt : OffsetsOK rt) (hqt : OffsetsOK qt)
    (q0 : WordShape) (hq0 : qt.words[0]? = some q0)
    (hw : ∃ w ∈ rt.words, wordMatch K rt w qt q0 ≠ none) :
    (textMatch K rt qt).1 ≠ [] ∧ (textMatch K rt qt).2 ≠ [] := by
  obtain ⟨w, hw, hm⟩ := hw
  exact textMatch_nonempty_any hrt hqt q0 hq0 ⟨w, hw, Or.inl hm⟩

/-- what the filter needs about the first query word: if one of the closures succeeds for it on some record word
    then `text_match` returns two or more record matches, or two or more query matches, or a record match that
    is `fin` whenever the first query word is finished -/
theorem textMatch_first_counts_any {K : Consts} {rt qt : Text} (hrt : OffsetsOK rt) (hqt : OffsetsOK qt)
    (q0 : WordShape) (hq0 : qt.words[0]? = some q0)
    (hw : ∃ w ∈ rt.words, AnyClosure K rt qt (tmInit rt qt) w q0) :
    2 ≤ (textMatch K rt qt).1.length ∨ 2 ≤ (textMatch K rt qt).2.length ∨
    ∃ m ∈ (textMatch K rt qt).1, (q0.fin = true → m.fin = true) := by
  obtain ⟨post, hsplit⟩ : ∃ post, qt.words = q0 :: post := by
    cases h : qt.words with
    | nil => simp [h] at hq0
    | cons a t => simp [h] at hq0; subst hq0; exact ⟨t, rfl⟩
  have hq : q0 ∈ qt.words := by rw [hsplit]; simp
  obtain ⟨w, hw, hm⟩ := hw
  have hs0 := tmInit_sinv rt qt
  have hout := tmQuery_spec (K := K) hrt hqt hs0 q0
  have hc := hout.survive_counts hs0 hrt (hqt.lt_of_mem hq) (isSet_replicate _ _)
    ⟨w, hw, isSet_replicate _ _, hm⟩
  obtain ⟨_, e1, e2⟩ := fold_mono (K := K) hrt hqt post _ (hout.sinv hs0)
  rw [textMatch_eq, hsplit, List.foldl_cons]
  rcases hc with h | h | ⟨i, m, h, _, hfin⟩
  · left
    have := e1.cntSet_le
    show 2 ≤ cntSet _
    omega
  · right; left
    have := e2.cntSet_le
    show 2 ≤ cntSet _
    omega
  · right; right
    exact ⟨m, mem_filterMap_id.mpr ⟨i, e1.2 i m h⟩, hfin⟩

theorem textMatch_first_counts {K : Consts} {rt qt : Text} (hrt : OffsetsOK rt) (hqt : OffsetsOK qt)
    (q0 : WordShape) (hq0 : qt.words[0]? = some q0)
    (hw : ∃ w ∈ rt.words, wordMatch K rt w qt q0 ≠ none) :
    2 ≤ (textMatch K rt qt).1.length ∨ 2 ≤ (textMatch K rt qt).2.length ∨
    ∃ m ∈ (textMatch K rt qt).1, (q0.fin = true → m.fin = true) := by
  obtain ⟨w, hw, hm⟩ := hw
  exact textMatch_first_counts_any hrt hqt q0 hq0 ⟨w, hw, Or.inl hm⟩

/-! ### when the join closures fire (for C14) -/

theorem tmInit_rm_get {rt qt : Text} {i : Nat} (h : i < rt.words.length) : (tmInit rt qt).rm[i]? = some none := by
  simp [tmInit, h]

theorem tmInit_qm_get {rt qt : Text} {i : Nat} (h : i < qt.words.length) : (tmInit rt qt).qm[i]? = some none := by
  simp [tmInit, h]

/-- closure 1 fires iff: there is a next record word, the query word is long enough, the next record slot is
    free, the joined record word matches the query word and the matched part reaches into the second word -/
theorem tryJoinR_ne_none_iff (K : Consts) (rt qt : Text) (s : TMState) (r q : WordShape) :
    tryJoinR K rt qt s r q ≠ none ↔
      ∃ rnext, rt.words[r.offset + 1]? = some rnext ∧ r.len + r.dist rnext ≤ q.len ∧
        s.rm[r.offset + 1]? = some none ∧
        ∃ p, wordMatch K rt (r.join rnext) qt q = some p ∧ rnext.lo < r.lo + p.1.subHi := by
  unfold tryJoinR
  cases h1 : rt.words[r.offset + 1]? with
  | none => simp
  | some rnext =>
    simp only [Option.some.injEq, exists_eq_left']
    by_cases h2 : q.len < r.len + r.dist rnext
    · simp only [h2, if_true]; constructor
      · intro h; exact absurd rfl h
      · rintro ⟨h, _⟩; omega
    · simp only [h2, if_false]
      cases h3 : s.rm[r.offset + 1]? with
      | none => simp
      | some o =>
        cases o with
        | some _ => simp
        | none =>
          simp only [true_and]
          cases h4 : wordMatch K rt (r.join rnext) qt q with
          | none => simp
          | some p =>
            obtain ⟨rmatch, qmatch⟩ := p
            simp only [WMatch.split]
            by_cases h5 : r.lo + rmatch.subHi ≤ rnext.lo
            · simp [h5]
            · simp [h5]; omega

/-- closure 2 fires iff: there is a next query word, the record word is long enough, the next query slot is
    free, the record word matches the joined query word and the matched part reaches into the second word -/
theorem tryJoinQ_ne_none_iff (K : Consts) (rt qt : Text) (s : TMState) (r q : WordShape) :
    tryJoinQ K rt qt s r q ≠ none ↔
      ∃ qnext, qt.words[q.offset + 1]? = some qnext ∧ q.len + q.dist qnext ≤ r.len ∧
        s.qm[q.offset + 1]? = some none ∧
        ∃ p, wordMatch K rt r qt (q.join qnext) = some p ∧ qnext.lo < q.lo + p.2.subHi := by
  unfold tryJoinQ
  cases h1 : qt.words[q.offset + 1]? with
  | none => simp
  | some qnext =>
    simp only [Option.some.injEq, exists_eq_left']
    by_cases h2 : r.len < q.len + q.dist qnext
    · simp only [h2, if_true]; constructor
      · intro h; exact absurd rfl h
      · rintro ⟨h, _⟩; omega
    · simp only [h2, if_false]
      cases h3 : s.qm[q.offset + 1]? with
      | none => simp
      | some o =>
        cases o with
        | some _ => simp
        | none =>
          simp only [true_and]
          cases h4 : wordMatch K rt r qt (q.join qnext) with
          | none => simp
          | some p =>
            obtain ⟨rmatch, qmatch⟩ := p
            simp only [WMatch.split]
            by_cases h5 : q.lo + qmatch.subHi ≤ qnext.lo
            · simp [h5]
            · simp [h5]; omega

end Lucid
