/-
  LucidProofs.Lemmas.Gates — the three gates of `word_match` (`matching/word_match.rs`, model
  `Lucid.wordMatch`) let through (a) an unfinished query word that is a prefix of the record word and
  (b) a finished query word equal to the record word:
  * `lengthCheck_prefix` / `lengthCheck_equal`   — the length gate;
  * `jaccardCheck_prefix` / `jaccardCheck_equal` — the Jaccard gate (via `C17_value`);
  * `wordMatch_prefix_some` / `wordMatch_equal_some` — the two slice loops reach the pair of equal slices, whose
    matrix cell is `0` (`DL.distance_refines`, `DL.D_eq_zero_iff`), accept it, and never drop a `some` afterwards.
  Numeric hypotheses: `CostsOK K` (edit costs) and `GateNumsOK K` (thresholds), both decided at `Gen.srcConsts`.
-/
import LucidProofs.C16
import LucidProofs.C17
import LucidProofs.Lemmas.MatchFacts

namespace Lucid
open DL

/-- what the gates need of the thresholds: `0 < LENGTH_THRESHOLD`, `1/2 < JACCARD_THRESHOLD`, `0 < JACCARD_THRESHOLD` -/
def GateNumsOK (K : Consts) : Bool :=
  decide (0 < K.lenNum) && decide (K.jacDen * 1 < K.jacNum * 2) && decide (0 < K.jacNum)

theorem gateNumsOK_src : GateNumsOK Gen.srcConsts = true := by decide

theorem gateNumsOK_spec {K : Consts} (h : GateNumsOK K = true) :
    0 < K.lenNum ∧ K.jacDen < K.jacNum * 2 ∧ 0 < K.jacNum := by
  simp only [GateNumsOK, Bool.and_eq_true, decide_eq_true_eq] at h
  omega

/-! ### lengths of word slices -/

theorem length_slice_of_le {α : Type} (l : List α) (lo hi : Nat) (h : hi ≤ l.length) :
    (slice l lo hi).length = hi - lo := by
  simp only [slice, List.length_take, List.length_drop]; omega

theorem wchars_length {t : Text} {w : WordShape} (h : WordIn t w) : (wchars t w).length = w.len := by
  unfold wchars WordShape.len; exact length_slice_of_le _ _ _ h.2.1

theorem cword_len_of_wordIn (K : Consts) {t : Text} {w : WordShape} (h : WordIn t w) : (cword K t w).len = w.len := by
  simp only [CWord.len, cword]; exact wchars_length h

theorem WordIn.len_pos {t : Text} {w : WordShape} (h : WordIn t w) : 1 ≤ w.len := by
  have := h.1; unfold WordShape.len; omega

/-! ### the length gate -/

theorem lengthCheck_of_eq (K : Consts) (hN : GateNumsOK K = true) (r q : WordShape) (n : Nat) (hn : 1 ≤ n)
    (hq : q.len = n) (hr : (if q.fin then r.len else min q.len r.len) = n) : lengthCheck K r q = true := by
  obtain ⟨h1, _, _⟩ := gateNumsOK_spec hN
  unfold lengthCheck
  simp only []
  rw [hr, hq]
  simp only [Nat.max_self, Nat.min_self, Nat.sub_self, Nat.mul_zero, Bool.or_self, beq_self_eq_true]
  split
  · rfl
  · rename_i h
    simp only [decide_eq_true_eq, Nat.not_le] at h ⊢
    exact Nat.mul_pos h1 (by omega)

/-- an unfinished query word no longer than the record word passes the length gate (the record word is
    truncated to the query's length first) -/
theorem lengthCheck_prefix (K : Consts) (hN : GateNumsOK K = true) (r q : WordShape)
    (hfin : q.fin = false) (hle : q.len ≤ r.len) (hpos : 1 ≤ q.len) : lengthCheck K r q = true :=
  lengthCheck_of_eq K hN r q q.len hpos rfl (by simp [hfin, Nat.min_eq_left hle])

/-- words of equal length pass the length gate -/
theorem lengthCheck_equal (K : Consts) (hN : GateNumsOK K = true) (r q : WordShape)
    (hlen : q.len = r.len) (hpos : 1 ≤ q.len) : lengthCheck K r q = true :=
  lengthCheck_of_eq K hN r q q.len hpos rfl (by split <;> simp [hlen])

/-! ### the Jaccard gate -/

theorem length_natInsert_le (x : Nat) (l : List Nat) : (natInsert x l).length ≤ l.length + 1 := by
  induction l with
  | nil => simp [natInsert]
  | cons h t ih =>
    unfold natInsert
    split
    · simp
    · split
      · simp
      · simp only [List.length_cons]; omega

theorem length_natSet_le (l : List Nat) : (natSet l).length ≤ l.length := by
  induction l with
  | nil => simp [natSet]
  | cons h t ih =>
    have := length_natInsert_le h (natSet t)
    simp only [natSet, List.foldr_cons, List.length_cons] at *
    omega

theorem distinctCard_pos {a : List Nat} (h : a ≠ []) : 1 ≤ distinctCard a := by
  unfold distinctCard
  have : natSet a ≠ [] := fun e => h (natSet_eq_nil.mp e)
  exact List.length_pos_iff.mpr this

/-- |set(a ++ e)| ≤ |set a| + |e| -/
theorem distinctCard_append_le (a e : List Nat) : distinctCard (a ++ e) ≤ distinctCard a + e.length := by
  have h := unionCard_eq a e
  unfold unionCard at h
  unfold distinctCard
  rw [h]
  have h1 := List.length_filter_le (fun x => decide (x ∉ a)) (natSet e)
  have h2 := length_natSet_le e
  omega

/-- when every member of `a` is a member of `b`: the intersection is `set a` and the union is `set b` -/
theorem jaccard_of_subset (b a : List Nat) (ha : a ≠ []) (hb : b ≠ []) (hsub : ∀ x, x ∈ a → x ∈ b) :
    jaccard b a = (distinctCard a, distinctCard b) := by
  rw [C17_value.1 b a hb ha]
  have hi : interCard b a = distinctCard a := by
    rw [interCard_comm]
    unfold interCard distinctCard
    congr 1
    apply List.filter_eq_self.mpr
    intro x hx
    simpa using hsub x (mem_natSet.mp hx)
  have hu : unionCard b a = distinctCard b := by
    unfold unionCard distinctCard
    rw [natSet_congr (l := b ++ a) (l' := b)]
    intro x
    simp only [List.mem_append]
    constructor
    · rintro (h | h)
      · exact h
      · exact hsub x h
    · exact Or.inl
  rw [hi, hu]

/-- arithmetic of the Jaccard gate: intersection `i ≥ 1`, union `u` with `i ≤ u ≤ i + 1` -/
theorem jaccard_arith (K : Consts) (hN : GateNumsOK K = true) (i u : Nat) (hi : 1 ≤ i) (h1 : i ≤ u) (h2 : u ≤ i + 1) :
    K.jacDen * (u - i) < K.jacNum * u := by
  obtain ⟨_, hj, hp⟩ := gateNumsOK_spec hN
  by_cases e : u = i
  · subst e
    rw [Nat.sub_self, Nat.mul_zero]
    exact Nat.mul_pos hp hi
  · have e1 : u - i = 1 := by omega
    rw [e1, Nat.mul_one]
    have : K.jacNum * 2 ≤ K.jacNum * u := Nat.mul_le_mul_left _ (by omega)
    omega

/-- the record slice seen by the Jaccard gate for an unfinished query word: `take (q.len + 1)` of the record word -/
theorem jaccardCheck_prefix (K : Consts) (hN : GateNumsOK K = true) (rt : Text) (r : WordShape) (qt : Text)
    (q : WordShape) (hfin : q.fin = false) (hpos : 1 ≤ q.len) (hle : q.len ≤ r.len)
    (hqlen : (wchars qt q).length = q.len)
    (hpre : wchars qt q = (wchars rt r).take q.len) : jaccardCheck K rt r qt q = true := by
  have hA : wchars qt q ≠ [] := by
    intro e; rw [e] at hqlen; simp at hqlen; omega
  -- the slice is the query word followed by at most one more character
  obtain ⟨e, hsl, he⟩ : ∃ e : List Nat, jaccardSlice rt r q = wchars qt q ++ e ∧ e.length ≤ 1 := by
    refine ⟨((wchars rt r).drop q.len).take (min (q.len + 1) r.len - q.len), ?_, ?_⟩
    · unfold jaccardSlice
      simp only [hfin, Bool.false_eq_true, if_false]
      rw [hpre]
      have : min (q.len + 1) r.len = q.len + (min (q.len + 1) r.len - q.len) := by omega
      conv => lhs; rw [this, List.take_add]
    · simp only [List.length_take]; omega
  have hB : jaccardSlice rt r q ≠ [] := by rw [hsl]; simp [hA]
  have hsub : ∀ x, x ∈ wchars qt q → x ∈ jaccardSlice rt r q := by
    intro x hx; rw [hsl]; exact List.mem_append_left _ hx
  unfold jaccardCheck
  rw [jaccard_of_subset _ _ hA hB hsub]
  simp only [decide_eq_true_eq]
  apply jaccard_arith K hN _ _ (distinctCard_pos hA)
  · -- |set a| ≤ |set (a ++ e)|
    have h1 := interCard_le_unionCard (wchars qt q) (jaccardSlice rt r q)
    have hj := jaccard_of_subset _ _ hA hB hsub
    rw [C17_value.1 _ _ hB hA] at hj
    have hi : interCard (jaccardSlice rt r q) (wchars qt q) = distinctCard (wchars qt q) := (Prod.mk.inj hj).1
    have hu : unionCard (jaccardSlice rt r q) (wchars qt q) = distinctCard (jaccardSlice rt r q) := (Prod.mk.inj hj).2
    have := interCard_le_unionCard (jaccardSlice rt r q) (wchars qt q)
    omega
  · rw [hsl]
    have := distinctCard_append_le (wchars qt q) e
    omega

/-- equal character lists pass the Jaccard gate (finished query word: the whole record word is compared) -/
theorem jaccardCheck_equal (K : Consts) (hN : GateNumsOK K = true) (rt : Text) (r : WordShape) (qt : Text)
    (q : WordShape) (hfin : q.fin = true) (hne : wchars qt q ≠ [])
    (heq : wchars qt q = wchars rt r) : jaccardCheck K rt r qt q = true := by
  have hs : jaccardSlice rt r q = wchars qt q := by
    unfold jaccardSlice; simp [hfin, heq]
  unfold jaccardCheck
  rw [hs, jaccard_of_subset _ _ hne hne (fun _ h => h)]
  simp only [decide_eq_true_eq]
  exact jaccard_arith K hN _ _ (distinctCard_pos hne) (Nat.le_refl _) (Nat.le_succ _)

/-! ### the two slice loops -/

/-- a `some` is never dropped by the inner loop -/
theorem wmInner_some_mono (c : WMCtx) (rslice : Nat) (l : List Nat) (best : Option (WMatch × WMatch))
    (hb : best ≠ none) : wmInner c rslice l best ≠ none := by
  fun_induction wmInner c rslice l best <;> grind

/-- a `some` is never dropped by the outer loop -/
theorem wmOuter_some_mono (c : WMCtx) (range : List Nat) :
    ∀ (l : List Nat) (best : Option (WMatch × WMatch)), best ≠ none → wmOuter c range l best ≠ none := by
  intro l
  induction l with
  | nil => intro best hb; simpa [wmOuter] using hb
  | cons rs rest ih =>
    intro best hb
    unfold wmOuter
    exact ih _ (wmInner_some_mono c rs range best hb)

theorem relTooBig_zero (K : Consts) (qs rs : Nat) : relTooBig K 0 qs rs = false := by
  simp [relTooBig]

/-- a pair of slices that passes every guard and has distance 0 -/
structure ZeroPair (c : WMCtx) (qs rs : Nat) : Prop where
  q_le   : qs ≤ c.q.len
  r_le   : rs ≤ c.r.len
  stem   : c.q.stem ≤ qs
  left   : ¬ (rs = c.left ∧ qs = c.left)
  nobrk  : ¬ (c.q.fin = true ∧ rs < c.r.stem)
  near   : ¬ ((if qs ≥ rs then qs - rs else rs - qs) > 1)
  zero   : c.cell qs rs = 0

/-- the inner loop for `rs` returns a `some` if its range contains a `qs` with `ZeroPair c qs rs` -/
theorem wmInner_zeroPair (c : WMCtx) (qs rs : Nat) (hz : ZeroPair c qs rs) :
    ∀ (l : List Nat) (best : Option (WMatch × WMatch)), qs ∈ l → wmInner c rs l best ≠ none := by
  intro l
  induction l with
  | nil => intro best h; simp at h
  | cons x rest ih =>
    intro best hmem
    by_cases hx : x = qs
    · subst hx
      unfold wmInner
      have h1 : ¬ x > c.q.len := by have := hz.q_le; omega
      have h2 : ¬ rs > c.r.len := by have := hz.r_le; omega
      have h3 : ¬ x < c.q.stem := by have := hz.stem; omega
      simp only [h1, h2, h3, hz.left, hz.nobrk, hz.near, if_false, hz.zero, relTooBig_zero, if_true,
        Bool.false_eq_true]
      cases best with
      | none => simp
      | some p => simp only; split <;> simp
    · have hmem' : qs ∈ rest := by
        rcases List.mem_cons.mp hmem with h | h
        · exact absurd h.symm hx
        · exact h
      have ih' := ih
      have hnb := hz.nobrk
      have hrest : ∀ b, wmInner c rs rest b ≠ none := fun b => ih b hmem'
      unfold wmInner
      grind

/-- the outer loop returns a `some` if the range contains both members of a `ZeroPair` -/
theorem wmOuter_zeroPair (c : WMCtx) (qs rs : Nat) (hz : ZeroPair c qs rs) (range : List Nat) (hq : qs ∈ range) :
    ∀ (l : List Nat) (best : Option (WMatch × WMatch)), rs ∈ l → wmOuter c range l best ≠ none := by
  intro l
  induction l with
  | nil => intro best h; simp at h
  | cons x rest ih =>
    intro best hmem
    unfold wmOuter
    by_cases hx : x = rs
    · subst hx
      exact wmOuter_some_mono c range rest _ (wmInner_zeroPair c qs x hz range best hq)
    · rcases List.mem_cons.mp hmem with h | h
      · exact absurd h.symm hx
      · exact ih _ h

theorem mem_descRange {left right x : Nat} : x ∈ descRange left right ↔ left ≤ x ∧ x < right := by
  unfold descRange
  rw [List.mem_reverse, List.mem_range'_1]
  omega

/-! ### the cell of two equal prefixes is zero -/

/-- after `distance(qword, rword)` the cell read for `(n, n)` is `0` when the two words agree on their first `n`
    characters (whatever the reused matrix held before) -/
theorem cell_zero_of_agree (K : Consts) (hK : CostsOK K = true) (m : Mat) (hm : MInv m)
    (rt : Text) (r : WordShape) (qt : Text) (q : WordShape) (hr : WordIn rt r) (hq : WordIn qt q)
    (n : Nat) (hnq : n ≤ q.len) (hnr : n ≤ r.len)
    (hag : ∀ k, k < n → (wchars qt q).getD k 0 = (wchars rt r).getD k 0) :
    (distanceM K m (cword K qt q) (cword K rt r)).2.get (n + 1) (n + 1) = 0 := by
  have haq := cword_aligned K qt q hq.2.2
  have har := cword_aligned K rt r hr.2.2
  obtain ⟨_, _, hcell, _⟩ := distance_refines K (cword K qt q) (cword K rt r) haq har
    (cword_costLe K hK qt q) (cword_costLe K hK rt r) m hm
  rw [hcell n n (by rw [cword_len_of_wordIn K hq]; exact hnq) (by rw [cword_len_of_wordIn K hr]; exact hnr)]
  exact (D_eq_zero_iff K (KOK_of_CostsOK K hK) _ _ haq har (cword_costPos K hK qt q) (cword_costPos K hK rt r)
    n n (by rw [cword_len_of_wordIn K hq]; exact hnq) (by rw [cword_len_of_wordIn K hr]; exact hnr)).mpr ⟨rfl, hag⟩

/-! ### `word_match` succeeds -/

/-- generic form: the gates pass and `(qs, rs) = (n, n)` is a zero pair inside the range -/
theorem wordMatchM_some_of_agree (K : Consts) (hK : CostsOK K = true) (m : Mat) (hm : MInv m)
    (rt : Text) (r : WordShape) (qt : Text) (q : WordShape) (hr : WordIn rt r) (hq : WordIn qt q)
    (hlc : lengthCheck K r q = true) (hjc : jaccardCheck K rt r qt q = true)
    (n : Nat) (hnq : n ≤ q.len) (hnr : n ≤ r.len) (hstem : q.stem ≤ n) (hleft : wmLeftRaw r q - 1 < n)
    (hbrk : ¬ (q.fin = true ∧ n < r.stem))
    (hag : ∀ k, k < n → (wchars qt q).getD k 0 = (wchars rt r).getD k 0) :
    (wordMatchM K m rt r qt q).1 ≠ none := by
  have hql := hq.len_pos
  have hrl := hr.len_pos
  unfold wordMatchM
  have h0 : ¬ (q.len = 0 ∨ r.len = 0) := by omega
  simp only [h0, hlc, hjc, if_false, Bool.not_true, Bool.false_eq_true]
  have hrange : ¬ (max q.len r.len + 1 ≤ wmLeftRaw r q - 1) := by omega
  simp only [hrange, if_false]
  have hin : n ∈ descRange (wmLeftRaw r q - 1) (max q.len r.len + 1) := mem_descRange.mpr ⟨by omega, by omega⟩
  refine wmOuter_zeroPair _ n n ?_ _ hin _ none hin
  exact {
    q_le := hnq, r_le := hnr, stem := hstem,
    left := by simp only []; omega,
    nobrk := hbrk,
    near := by simp,
    zero := cell_zero_of_agree K hK m hm rt r qt q hr hq n hnq hnr hag }

theorem getD_take_of_lt (l : List Nat) (n k : Nat) (h : k < n) : (l.take n).getD k 0 = l.getD k 0 := by
  simp [List.getD, h]

/-- **prefix**: an unfinished query word whose characters are the first `q.len` characters of the record word
    is matched by `word_match`, whatever the reused distance matrix held before -/
theorem wordMatchM_prefix_some (K : Consts) (hK : CostsOK K = true) (hN : GateNumsOK K = true) (m : Mat) (hm : MInv m)
    (rt : Text) (r : WordShape) (qt : Text) (q : WordShape) (hr : WordIn rt r) (hq : WordIn qt q)
    (hfin : q.fin = false) (hstem1 : 1 ≤ q.stem) (hstem : q.stem ≤ q.len) (hle : q.len ≤ r.len)
    (hpre : wchars qt q = (wchars rt r).take q.len) :
    (wordMatchM K m rt r qt q).1 ≠ none := by
  have hql := hq.len_pos
  refine wordMatchM_some_of_agree K hK m hm rt r qt q hr hq
    (lengthCheck_prefix K hN r q hfin hle hql)
    (jaccardCheck_prefix K hN rt r qt q hfin hql hle (wchars_length hq) hpre)
    q.len (Nat.le_refl _) hle hstem ?_ (by simp [hfin]) ?_
  · simp only [wmLeftRaw, hfin, Bool.false_eq_true, if_false]; omega
  · intro k hk; rw [hpre]; exact getD_take_of_lt _ _ _ hk

theorem wordMatch_prefix_some (K : Consts) (hK : CostsOK K = true) (hN : GateNumsOK K = true)
    (rt : Text) (r : WordShape) (qt : Text) (q : WordShape) (hr : WordIn rt r) (hq : WordIn qt q)
    (hfin : q.fin = false) (hstem1 : 1 ≤ q.stem) (hstem : q.stem ≤ q.len) (hle : q.len ≤ r.len)
    (hpre : wchars qt q = (wchars rt r).take q.len) :
    wordMatch K rt r qt q ≠ none :=
  wordMatchM_prefix_some K hK hN _ (MInv_new _).1 rt r qt q hr hq hfin hstem1 hstem hle hpre

/-- **equal**: a finished query word with the same characters as the record word is matched by `word_match` -/
theorem wordMatchM_equal_some (K : Consts) (hK : CostsOK K = true) (hN : GateNumsOK K = true) (m : Mat) (hm : MInv m)
    (rt : Text) (r : WordShape) (qt : Text) (q : WordShape) (hr : WordIn rt r) (hq : WordIn qt q)
    (hfin : q.fin = true) (hqs1 : 1 ≤ q.stem) (hqs : q.stem ≤ q.len) (hrs1 : 1 ≤ r.stem) (hrs : r.stem ≤ r.len)
    (heq : wchars qt q = wchars rt r) :
    (wordMatchM K m rt r qt q).1 ≠ none := by
  have hql := hq.len_pos
  have hlen : q.len = r.len := by rw [← wchars_length hq, ← wchars_length hr, heq]
  have hne : wchars qt q ≠ [] := by
    intro e; have := wchars_length hq; rw [e] at this; simp at this; omega
  refine wordMatchM_some_of_agree K hK m hm rt r qt q hr hq
    (lengthCheck_equal K hN r q hlen hql)
    (jaccardCheck_equal K hN rt r qt q hfin hne heq)
    q.len (Nat.le_refl _) (by omega) hqs ?_ (by omega) ?_
  · simp only [wmLeftRaw, hfin, if_true]; omega
  · intro k _; rw [heq]

theorem wordMatch_equal_some (K : Consts) (hK : CostsOK K = true) (hN : GateNumsOK K = true)
    (rt : Text) (r : WordShape) (qt : Text) (q : WordShape) (hr : WordIn rt r) (hq : WordIn qt q)
    (hfin : q.fin = true) (hqs1 : 1 ≤ q.stem) (hqs : q.stem ≤ q.len) (hrs1 : 1 ≤ r.stem) (hrs : r.stem ≤ r.len)
    (heq : wchars qt q = wchars rt r) :
    wordMatch K rt r qt q ≠ none :=
  wordMatchM_equal_some K hK hN _ (MInv_new _).1 rt r qt q hr hq hfin hqs1 hqs hrs1 hrs heq

/-- a finished query word that is a *proper* prefix is not covered here (the length and Jaccard gates then compare
    the whole record word); an unfinished query word EQUAL to the record word is the prefix case with
    `q.len = r.len` -/
theorem wordMatch_equal_unfinished_some (K : Consts) (hK : CostsOK K = true) (hN : GateNumsOK K = true)
    (rt : Text) (r : WordShape) (qt : Text) (q : WordShape) (hr : WordIn rt r) (hq : WordIn qt q)
    (hfin : q.fin = false) (hqs1 : 1 ≤ q.stem) (hqs : q.stem ≤ q.len)
    (heq : wchars qt q = wchars rt r) :
    wordMatch K rt r qt q ≠ none := by
  have hlen : q.len = r.len := by rw [← wchars_length hq, ← wchars_length hr, heq]
  refine wordMatch_prefix_some K hK hN rt r qt q hr hq hfin hqs1 hqs (by omega) ?_
  rw [← heq, List.take_of_length_le]
  rw [wchars_length hq]; exact Nat.le_refl _

end Lucid
