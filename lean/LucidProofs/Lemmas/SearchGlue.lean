/-
  LucidProofs.Lemmas.SearchGlue — from "the scored hit of a candidate record passes the filter" to "the record
  is among the search results" when the store holds no more records than the limit (the bounded selection
  `limitSort` then drops nothing), and the case analysis of the filter `hit_matches` (`search/filter.rs`).
-/
import LucidProofs.Lemmas.Orders
import LucidProofs.Lemmas.Sorter

namespace Lucid

/-! ### pigeonhole: a duplicate-free list of numbers below `n` has at most `n` entries -/

theorem nodup_bounded_length : ∀ (n : Nat) (l : List Nat), l.Nodup → (∀ x ∈ l, x < n) → l.length ≤ n := by
  intro n
  induction n with
  | zero =>
    intro l _ h
    cases l with
    | nil => simp
    | cons a t => exact absurd (h a (by simp)) (by omega)
  | succ n ih =>
    intro l hnd h
    have h1 := ih (l.erase n) (hnd.erase n) (by
      intro x hx
      rw [hnd.mem_erase_iff] at hx
      have := h x hx.2
      omega)
    rw [List.length_erase] at h1
    split at h1 <;> omega

/-! ### the filter -/

theorem hitMatches_empty_query {q : Text} (h : Hit) (hq : q.words.length = 0) : hitMatches q h = true := by
  simp [hitMatches, hq]

/-- single-word query: the hit passes iff there is a record match -/
theorem hitMatches_single {q : Text} (h : Hit) (hq : q.words.length = 1) :
    hitMatches q h = true ↔ h.rmatches ≠ [] := by
  unfold hitMatches
  simp only [hq, Nat.one_ne_zero, if_false, List.length_eq_zero_iff]
  constructor
  · intro hm he; simp [he] at hm
  · intro hne
    simp only [hne, if_false]
    split <;> simp

/-- any query: no record match ⇒ filtered out (for a non-empty query) -/
theorem hitMatches_nil {q : Text} (h : Hit) (hq : q.words.length ≠ 0) (hr : h.rmatches = []) :
    hitMatches q h = false := by
  simp [hitMatches, hq, hr]

/-- multi-word (in fact any) query: the hit passes if there are two or more record matches, or two or more
    query matches (and at least one record match), or a single record match that is `fin` -/
theorem hitMatches_of_counts {q : Text} (h : Hit) (hne : h.rmatches ≠ [])
    (hc : 2 ≤ h.rmatches.length ∨ 2 ≤ h.qmatches.length ∨ ∃ m ∈ h.rmatches, m.fin = true) :
    hitMatches q h = true := by
  unfold hitMatches
  split
  · rfl
  · simp only [List.length_eq_zero_iff, hne, if_false]
    split
    · rename_i rm qm e1 e2
      rcases hc with hc | hc | hc
      · simp [e1] at hc
      · simp [e2] at hc
      · obtain ⟨m, hm, hfin⟩ := hc
        rw [e1, List.mem_singleton] at hm
        subst hm
        simp [hfin]
    · rfl

/-- the exact reading of the filter for a query of two or more words with one record match and one query match -/
theorem hitMatches_one_one {q : Text} (h : Hit) (rm qm : WMatch) (hq : 2 ≤ q.words.length)
    (hr : h.rmatches = [rm]) (hqm : h.qmatches = [qm]) :
    hitMatches q h = true ↔ (rm.fin = true ∨ rm.wordLen ≤ qm.wordLen * 2) := by
  unfold hitMatches
  have h0 : ¬ q.words.length = 0 := by omega
  have h1 : q.words.length > 1 := by omega
  simp only [h0, if_false, hr, hqm, List.length_cons, List.length_nil, h1, if_true]
  cases rm.fin <;> simp <;> omega

/-! ### `scoreHit` fields -/

theorem scoreHit_id (K : Consts) (order : List ScoreType) (q : Text) (r : Record) : (scoreHit K order q r).id = r.id := rfl
theorem scoreHit_rmatches (K : Consts) (order : List ScoreType) (q : Text) (r : Record) :
    (scoreHit K order q r).rmatches = (textMatch K r.title q).1 := rfl
theorem scoreHit_qmatches (K : Consts) (order : List ScoreType) (q : Text) (r : Record) :
    (scoreHit K order q r).qmatches = (textMatch K r.title q).2 := rfl

/-! ### a passing candidate is returned when nothing can be cut -/

theorem hitsOf_length_le (K : Consts) (order : List ScoreType) (st : Store) (q : Text) (ixs : List Nat) :
    (st.hitsOf K order q ixs).length ≤ ixs.length := by
  unfold Store.hitsOf
  refine Nat.le_trans (List.length_filter_le _ _) ?_
  rw [List.length_map]
  exact List.length_filterMap_le _ _

theorem mem_hitsOf {K : Consts} {order : List ScoreType} {st : Store} {q : Text} {ixs : List Nat} {ix : Nat} {r : Record}
    (hix : ix ∈ ixs) (hr : st.records[ix]? = some r) (hm : hitMatches q (scoreHit K order q r) = true) :
    scoreHit K order q r ∈ st.hitsOf K order q ixs := by
  unfold Store.hitsOf
  rw [List.mem_filter]
  refine ⟨List.mem_map.mpr ⟨r, List.mem_filterMap.mpr ⟨ix, hix, hr⟩, rfl⟩, hm⟩

/-- when the input is no longer than `k`, a `TopK` selection is a permutation of its input -/
theorem glue_topK_perm_of_length_le {α : Type} {le : α → α → Bool} {k : Nat} {xs ys : List α}
    (h : TopK le k xs ys) (hk : xs.length ≤ k) : ys.Perm xs := by
  obtain ⟨_, hlen, rest, hp, _⟩ := h
  have hl := hp.length_eq
  rw [List.length_append, hlen, Nat.min_eq_right hk] at hl
  have : rest = [] := List.eq_nil_of_length_eq_zero (by omega)
  subst this
  simpa using hp

/-- `hit_in_results`: a candidate record whose scored hit passes the filter is among the results, provided the
    store holds no more records than the limit -/
theorem hit_in_results (S : Sorter) (hS : SorterOK S) (K : Consts) (hK : 1 ≤ K.sortFactor)
    (order : List ScoreType) (st : Store) (q : Text) (ix : Nat) (r : Record)
    (hr : st.records[ix]? = some r)
    (hcand : ix ∈ (st.candidatesM S K q).1)
    (hnodup : (st.candidatesM S K q).1.Nodup)
    (hrange : ∀ j ∈ (st.candidatesM S K q).1, j < st.records.length)
    (hlim : st.records.length ≤ st.limit)
    (hm : hitMatches q (scoreHit K order q r) = true) :
    ∃ res ∈ st.search S K order q, res.id = r.id ∧ res = st.render (scoreHit K order q r) := by
  have htop := limitSort_TopK hitLe_preorder (hS hitLe hitLe_preorder) K.sortFactor hK st.limit
    (st.hitsOf K order q (st.candidatesM S K q).1)
  have hlen : (st.hitsOf K order q (st.candidatesM S K q).1).length ≤ st.limit :=
    Nat.le_trans (hitsOf_length_le K order st q _)
      (Nat.le_trans (nodup_bounded_length _ _ hnodup hrange) hlim)
  have hperm := glue_topK_perm_of_length_le htop hlen
  have hmem := hperm.mem_iff.mpr (mem_hitsOf hcand hr hm)
  refine ⟨st.render (scoreHit K order q r), ?_, rfl, rfl⟩
  simp only [Store.search, Store.searchM]
  exact List.mem_map.mpr ⟨_, hmem, rfl⟩

/-- the store-level hypotheses shared by all findability theorems: `r` is the record at position `ix`, `ix` is among
    the candidates for `q`, the candidate list is duplicate-free and in range, and the store is not over the limit -/
structure CandOK (S : Sorter) (K : Consts) (st : Store) (q : Text) (ix : Nat) (r : Record) : Prop where
  get    : st.records[ix]? = some r
  cand   : ix ∈ (st.candidatesM S K q).1
  nodup  : (st.candidatesM S K q).1.Nodup
  range  : ∀ j ∈ (st.candidatesM S K q).1, j < st.records.length
  small  : st.records.length ≤ st.limit

theorem CandOK.hit_in_results {S : Sorter} {K : Consts} {st : Store} {q : Text} {ix : Nat} {r : Record}
    (hc : CandOK S K st q ix r) (hS : SorterOK S) (hK : 1 ≤ K.sortFactor) (order : List ScoreType)
    (hm : hitMatches q (scoreHit K order q r) = true) :
    ∃ res ∈ st.search S K order q, res.id = r.id ∧ res = st.render (scoreHit K order q r) :=
  Lucid.hit_in_results S hS K hK order st q ix r hc.get hc.cand hc.nodup hc.range hc.small hm

end Lucid
