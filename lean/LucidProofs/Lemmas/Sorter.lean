import LucidModel.Basic
import LucidProofs.Lemmas.LimitSort

namespace Lucid

/-- what is assumed of `sort_unstable_by` / `sort_by`: for a total preorder the result is a sorted permutation -/
def SorterOK (S : Sorter) : Prop :=
  ∀ {α : Type} (le : α → α → Bool), Preorder' le → SortSpec le (S.sort le)

end Lucid
