/-
  LucidProofs.Lemmas.Normalize — `lang/normalize.rs`, `Lang::unicode_compose`, `Lang::unicode_reduce`,
  `TextOwn::normalize` (model: `normChunks`, `composeWith`, `padChunk`, `reduceWith`, `Text.normalize`).

  * the word chunks of the `Normalize` iterator concatenate to the input;
  * under `noShrink` the padding subtraction `norm_chunk.len() - word_chunk.len()` never underflows
    (`reduceSafe`, part of property C01), with `_src` corollaries for the seven generated languages;
  * `reduceWith m w = some (src, chs)`: `src` and `chs` have equal length, `chs` is the normalised text, and
    `src` with NULs removed is `w` with NULs removed;
  * `Text.normalize` on a fresh text: one word `(0, chars.length)`, source/chars of equal length, and the
    source with NULs removed is the composed input with NULs removed.
-/
import LucidProofs.Lemmas.Facts

namespace Lucid

/-! ### `mapGet` -/

theorem mapGet_mem {κ ν : Type} [DecidableEq κ] (m : List (κ × ν)) (k : κ) (v : ν)
    (h : mapGet m k = some v) : (k, v) ∈ m := by
  induction m with
  | nil => simp [mapGet] at h
  | cons e rest ih =>
    obtain ⟨k', v'⟩ := e
    simp only [mapGet] at h
    cases hr : mapGet rest k with
    | some v'' =>
      rw [hr] at h
      simp only [Option.some.injEq] at h
      subst h
      exact List.mem_cons_of_mem _ (ih hr)
    | none =>
      rw [hr] at h
      by_cases hk : k' = k
      · simp only [hk, if_true, Option.some.injEq] at h
        subst h; subst hk
        exact List.mem_cons_self
      · simp [hk] at h

/-! ### `normChunks` -/

/-- every chunk is either an unmatched character passed through or an entry of the table -/
theorem normChunks_mem (m : List (List Nat × List Nat)) (w : List Nat) :
    ∀ c ∈ normChunks m w, c.2 = c.1 ∨ c ∈ m := by
  fun_induction normChunks m w with
  | case1 => simp
  | case2 a r h =>
    intro c hc
    simp only [List.mem_singleton] at hc
    subst hc
    exact Or.inr (mapGet_mem _ _ _ h)
  | case3 a h =>
    intro c hc
    simp only [List.mem_singleton] at hc
    subst hc
    exact Or.inl rfl
  | case4 a b rest r h ih =>
    intro c hc
    rcases List.mem_cons.1 hc with hc | hc
    · subst hc; exact Or.inr (mapGet_mem _ _ _ h)
    · exact ih c hc
  | case5 a b rest h2 r h ih =>
    intro c hc
    rcases List.mem_cons.1 hc with hc | hc
    · subst hc; exact Or.inr (mapGet_mem _ _ _ h)
    · exact ih c hc
  | case6 a b rest h2 h ih =>
    intro c hc
    rcases List.mem_cons.1 hc with hc | hc
    · subst hc; exact Or.inl rfl
    · exact ih c hc

/-- the concatenation of the word chunks is the input -/
theorem normChunks_fst_flatten (m : List (List Nat × List Nat)) (w : List Nat) :
    ((normChunks m w).map (·.1)).flatten = w := by
  fun_induction normChunks m w <;> simp_all

/-- the concatenation of the normalised chunks is `composeWith` (by definition) -/
theorem normChunks_snd_flatten (m : List (List Nat × List Nat)) (w : List Nat) :
    ((normChunks m w).map (·.2)).flatten = composeWith m w := rfl

/-- under `noShrink`, no chunk is longer than its replacement -/
theorem normChunks_noShrink (m : List (List Nat × List Nat)) (hm : noShrink m = true) (w : List Nat) :
    ∀ c ∈ normChunks m w, c.1.length ≤ c.2.length := by
  intro c hc
  rcases normChunks_mem m w c hc with h | h
  · rw [h]; exact Nat.le_refl _
  · have := (List.all_eq_true.1 hm) c h
    simpa using this

/-- **C01 (site `lang.rs: norm_chunk.len() - word_chunk.len()`)**: when no reduction entry is shorter than
    its key, the padding subtraction never underflows, for every input. -/
theorem reduceSafe_of_noShrink (m : List (List Nat × List Nat)) (hm : noShrink m = true) (w : List Nat) :
    reduceSafe m w = true := by
  unfold reduceSafe
  rw [List.all_eq_true]
  intro c hc
  simpa using normChunks_noShrink m hm w c hc

theorem noShrink_of_tablesOK {T : LangTables} (h : TablesOK T = true) : noShrink T.reduce = true := by
  unfold TablesOK at h
  simp only [Bool.and_eq_true] at h
  exact h.2

theorem reduceSafe_of_tablesOK {T : LangTables} (h : TablesOK T = true) (w : List Nat) :
    reduceSafe T.reduce w = true :=
  reduceSafe_of_noShrink _ (noShrink_of_tablesOK h) w

/-- instantiations at the seven generated language tables -/
theorem reduceSafe_src_none (w : List Nat) : reduceSafe Gen.lang_none.reduce w = true :=
  reduceSafe_of_tablesOK tablesOK_none w
theorem reduceSafe_src_de (w : List Nat) : reduceSafe Gen.lang_de.reduce w = true :=
  reduceSafe_of_tablesOK tablesOK_de w
theorem reduceSafe_src_en (w : List Nat) : reduceSafe Gen.lang_en.reduce w = true :=
  reduceSafe_of_tablesOK tablesOK_en w
theorem reduceSafe_src_es (w : List Nat) : reduceSafe Gen.lang_es.reduce w = true :=
  reduceSafe_of_tablesOK tablesOK_es w
theorem reduceSafe_src_fr (w : List Nat) : reduceSafe Gen.lang_fr.reduce w = true :=
  reduceSafe_of_tablesOK tablesOK_fr w
theorem reduceSafe_src_pt (w : List Nat) : reduceSafe Gen.lang_pt.reduce w = true :=
  reduceSafe_of_tablesOK tablesOK_pt w
theorem reduceSafe_src_ru (w : List Nat) : reduceSafe Gen.lang_ru.reduce w = true :=
  reduceSafe_of_tablesOK tablesOK_ru w

/-- every language in the generated registry list is safe -/
theorem reduceSafe_srcLangs : ∀ p ∈ Gen.srcLangs, ∀ w, reduceSafe p.2.reduce w = true := by
  intro p hp w
  have h : TablesOK p.2 = true := by
    have hall : Gen.srcLangs.all (fun p => TablesOK p.2) = true := by decide
    exact (List.all_eq_true.1 hall) p hp
  exact reduceSafe_of_tablesOK h w

/-! ### `padChunk` -/

theorem padChunk_length (c : List Nat × List Nat) (h : c.1.length ≤ c.2.length) :
    (padChunk c).length = c.2.length := by
  simp only [padChunk, List.length_append, List.length_replicate]
  omega

theorem filter_replicate_zero (n : Nat) : (List.replicate n 0).filter (fun x => decide (x ≠ 0)) = [] := by
  induction n with
  | zero => rfl
  | succ n ih => simp [List.replicate_succ]

/-- removing NULs from a padded chunk gives the word chunk with its own NULs removed -/
theorem padChunk_filter (c : List Nat × List Nat) :
    (padChunk c).filter (fun x => decide (x ≠ 0)) = c.1.filter (fun x => decide (x ≠ 0)) := by
  simp only [padChunk, List.filter_append, filter_replicate_zero, List.append_nil]

theorem flatten_map_length_eq {α β : Type} (f g : α → List β) (l : List α)
    (h : ∀ c ∈ l, (f c).length = (g c).length) :
    ((l.map f).flatten).length = ((l.map g).flatten).length := by
  induction l with
  | nil => rfl
  | cons a l ih =>
    simp only [List.map_cons, List.flatten_cons, List.length_append]
    rw [h a List.mem_cons_self, ih (fun c hc => h c (List.mem_cons_of_mem _ hc))]

theorem flatten_map_filter_eq {α β : Type} (p : β → Bool) (f g : α → List β) (l : List α)
    (h : ∀ c ∈ l, (f c).filter p = (g c).filter p) :
    ((l.map f).flatten).filter p = ((l.map g).flatten).filter p := by
  induction l with
  | nil => rfl
  | cons a l ih =>
    simp only [List.map_cons, List.flatten_cons, List.filter_append]
    rw [h a List.mem_cons_self, ih (fun c hc => h c (List.mem_cons_of_mem _ hc))]

/-! ### `reduceWith` -/

/-- shape of a successful reduction -/
theorem reduceWith_some (m : List (List Nat × List Nat)) (w src chs : List Nat)
    (h : reduceWith m w = some (src, chs)) :
    src = ((normChunks m w).map padChunk).flatten ∧ chs = composeWith m w ∧ chs ≠ w := by
  unfold reduceWith at h
  simp only at h
  split at h
  · simp at h
  · rename_i hne
    simp only [Option.some.injEq, Prod.mk.injEq] at h
    obtain ⟨h1, h2⟩ := h
    subst h1; subst h2
    exact ⟨rfl, rfl, hne⟩

theorem reduceWith_none (m : List (List Nat × List Nat)) (w : List Nat)
    (h : reduceWith m w = none) : composeWith m w = w := by
  unfold reduceWith at h
  simp only at h
  split at h
  · rename_i he; exact he
  · simp at h

/-- source (padded) and normalised characters of a reduction have equal length -/
theorem reduceWith_length (m : List (List Nat × List Nat)) (hm : noShrink m = true) (w src chs : List Nat)
    (h : reduceWith m w = some (src, chs)) : src.length = chs.length := by
  obtain ⟨h1, h2, _⟩ := reduceWith_some m w src chs h
  subst h1; subst h2
  unfold composeWith
  exact flatten_map_length_eq _ _ _ (fun c hc => padChunk_length c (normChunks_noShrink m hm w c hc))

/-- the padded source with NULs removed is the input with NULs removed -/
theorem reduceWith_filter (m : List (List Nat × List Nat)) (w src chs : List Nat)
    (h : reduceWith m w = some (src, chs)) :
    src.filter (fun x => decide (x ≠ 0)) = w.filter (fun x => decide (x ≠ 0)) := by
  obtain ⟨h1, _, _⟩ := reduceWith_some m w src chs h
  subst h1
  have := flatten_map_filter_eq (fun x => decide (x ≠ 0)) padChunk (·.1) (normChunks m w)
    (fun c _ => padChunk_filter c)
  rw [this, normChunks_fst_flatten]

/-! ### `Text.normalize` on a fresh text -/

/-- state after `normalize` (and an optional `fin`) of the pipelines: exactly one word covering all of
    `chars`, with the given `fin` flag; source and chars have equal length; removing the NUL padding from
    the source gives the composed input (up to NULs already in it). -/
structure NormInv (E : Env) (input : List Nat) (fin : Bool) (t : Text) : Prop where
  word : ∃ w0, t.words = [w0] ∧ w0.lo = 0 ∧ w0.hi = t.chars.length ∧ w0.fin = fin
  len_source : t.source.length = t.chars.length
  source : t.source.filter (fun x => decide (x ≠ 0)) = (compose E.T input).filter (fun x => decide (x ≠ 0))

theorem normalize_fromChars (E : Env) (hT : TablesOK E.T = true) (s : List Nat) :
    NormInv E s true ((Text.fromChars s).normalize E) := by
  have hns := noShrink_of_tablesOK hT
  by_cases hc : compose E.T s = s
  · cases hr : reduce E.T s with
    | none =>
      have : (Text.fromChars s).normalize E = Text.fromChars s := by
        simp [Text.normalize, Text.fromChars, hc, hr]
      rw [this]
      exact ⟨⟨_, rfl, rfl, rfl, rfl⟩, rfl, by simp [Text.fromChars, hc]⟩
    | some p =>
      obtain ⟨src, chs⟩ := p
      have : (Text.fromChars s).normalize E =
          { words := [{ offset := 0, lo := 0, hi := chs.length, stem := s.length, pos := none, fin := true }],
            source := src, chars := chs, classes := s.map (fun _ => CharClass.any) } := by
        simp [Text.normalize, Text.fromChars, hc, hr, setFirstHi]
      rw [this]
      refine ⟨⟨_, rfl, rfl, rfl, rfl⟩, reduceWith_length _ hns _ _ _ hr, ?_⟩
      simp only
      rw [reduceWith_filter _ _ _ _ hr, hc]
  · cases hr : reduce E.T (compose E.T s) with
    | none =>
      have : (Text.fromChars s).normalize E =
          { words := [{ offset := 0, lo := 0, hi := (compose E.T s).length, stem := s.length, pos := none, fin := true }],
            source := compose E.T s, chars := compose E.T s, classes := s.map (fun _ => CharClass.any) } := by
        simp [Text.normalize, Text.fromChars, hc, hr, setFirstHi]
      rw [this]
      exact ⟨⟨_, rfl, rfl, rfl, rfl⟩, rfl, rfl⟩
    | some p =>
      obtain ⟨src, chs⟩ := p
      have : (Text.fromChars s).normalize E =
          { words := [{ offset := 0, lo := 0, hi := chs.length, stem := s.length, pos := none, fin := true }],
            source := src, chars := chs, classes := s.map (fun _ => CharClass.any) } := by
        simp [Text.normalize, Text.fromChars, hc, hr, setFirstHi]
      rw [this]
      refine ⟨⟨_, rfl, rfl, rfl, rfl⟩, reduceWith_length _ hns _ _ _ hr, ?_⟩
      simp only
      rw [reduceWith_filter _ _ _ _ hr]

theorem setFin_normInv (E : Env) (s : List Nat) (f b : Bool) (t : Text) (h : NormInv E s f t) :
    NormInv E s b (t.setFin b) := by
  obtain ⟨⟨w0, hw, hlo, hhi, _⟩, h2, h3⟩ := h
  refine ⟨⟨{ w0 with fin := b }, by simp [Text.setFin, hw, setLastFin], hlo, hhi, rfl⟩, h2, h3⟩

/-- `Text.normalize` never hits its traps on a fresh text (one word, padding subtraction safe) -/
theorem normalizeSafe_fromChars (E : Env) (hT : TablesOK E.T = true) (s : List Nat) :
    (Text.fromChars s).normalizeSafe E = true := by
  simp [Text.normalizeSafe, Text.fromChars, reduceSafe_of_tablesOK hT]

end Lucid
