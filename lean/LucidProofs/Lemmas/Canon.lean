/-
  LucidProofs.Lemmas.Canon — the languages' compose tables against an INDEPENDENT reference for Unicode's
  canonical decomposition.

  `Lucid.Gen.canonPairs` (`LucidModel/Gen/Canon.lean`) is generated from Python's `unicodedata`, not from the
  repository: `(composed, base, mark)` for the 870 scalars below U+3000 that have a two-scalar canonical
  decomposition which NFC re-composes.  The C11b theorems speak of "decomposed form" relative to the language's
  own compose table (`decompChar`/`decompAt`: the key of the first table entry producing the letter), so a table
  that composed `I` + U+0308 to `Î` would satisfy them.  Here we tie the tables to the reference:

    * `ComposeCanonical` : every compose entry is `([base, mark], [composed])` with
                           `(composed, base, mark) ∈ canonPairs`;
    * `InventoryComposed`: every single-character reduce key that has a canonical decomposition is produced by
                           some compose entry (the accent inventory of the language is covered by its compose
                           table);
  both kernel-checked for all seven generated languages, and under them
      `decompAt T.compose s mask = uniDecompAt T s mask`
  where `uniDecompAt` writes the selected letters of the language's accent inventory (`inInventory`) in
  *Unicode's* canonical decomposition (`canonDecomp`), and leaves every other character alone.
-/
import LucidModel.Gen.Canon
import LucidProofs.Lemmas.NormVariants

namespace Lucid

/-! ### the reference table is a function of its first component -/

/-- Unicode's canonical decomposition of `c` into `(base, mark)`, if `c` has a two-scalar one that NFC
    re-composes (lookup in the reference table) -/
def canonDecomp (c : Nat) : Option (Nat × Nat) :=
  (Gen.canonPairs.find? (fun p => p.1 == c)).map (fun p => (p.2.1, p.2.2))

/-- linear-time check: first components strictly ascending and all `≥ lo` -/
def ascFrom : Nat → List (Nat × Nat × Nat) → Bool
  | _, [] => true
  | lo, p :: rest => decide (lo ≤ p.1) && ascFrom (p.1 + 1) rest

theorem ascFrom_lb {lo : Nat} {l : List (Nat × Nat × Nat)} (h : ascFrom lo l = true) :
    ∀ q ∈ l, lo ≤ q.1 := by
  induction l generalizing lo with
  | nil => intro q hq; cases hq
  | cons p rest ih =>
    simp only [ascFrom, Bool.and_eq_true, decide_eq_true_eq] at h
    intro q hq
    rcases List.mem_cons.1 hq with rfl | hq
    · exact h.1
    · have := ih h.2 q hq
      omega

theorem ascFrom_pairwise {lo : Nat} {l : List (Nat × Nat × Nat)} (h : ascFrom lo l = true) :
    (l.map (·.1)).Pairwise (· < ·) := by
  induction l generalizing lo with
  | nil => exact List.Pairwise.nil
  | cons p rest ih =>
    simp only [ascFrom, Bool.and_eq_true, decide_eq_true_eq] at h
    rw [List.map_cons, List.pairwise_cons]
    refine ⟨?_, ih h.2⟩
    intro x hx
    obtain ⟨q, hq, rfl⟩ := List.mem_map.1 hx
    have := ascFrom_lb h.2 q hq
    omega

theorem find?_of_ascFrom {lo : Nat} {l : List (Nat × Nat × Nat)} (h : ascFrom lo l = true)
    {q : Nat × Nat × Nat} (hq : q ∈ l) : l.find? (fun p => p.1 == q.1) = some q := by
  induction l generalizing lo with
  | nil => cases hq
  | cons p rest ih =>
    simp only [ascFrom, Bool.and_eq_true, decide_eq_true_eq] at h
    rcases List.mem_cons.1 hq with rfl | hq'
    · simp
    · have hlt := ascFrom_lb h.2 q hq'
      have hne : (p.1 == q.1) = false := by
        rw [beq_eq_false_iff_ne]; omega
      rw [List.find?_cons, hne]
      exact ih h.2 hq'

theorem canonPairs_asc : ascFrom 0 Gen.canonPairs = true := by decide +kernel

/-- **The reference table is functional**: the composed scalars (first components) are strictly ascending, in
    particular pairwise distinct. -/
theorem canonPairs_functional : (Gen.canonPairs.map (·.1)).Pairwise (· < ·) := ascFrom_pairwise canonPairs_asc

theorem canonPairs_nodup : (Gen.canonPairs.map (·.1)).Nodup :=
  canonPairs_functional.imp (fun h => Nat.ne_of_lt h)

/-- an entry of the reference table is what `canonDecomp` returns -/
theorem canonDecomp_of_mem {c a k : Nat} (h : (c, a, k) ∈ Gen.canonPairs) : canonDecomp c = some (a, k) := by
  unfold canonDecomp
  rw [find?_of_ascFrom canonPairs_asc h]
  rfl

/-- … and conversely -/
theorem mem_of_canonDecomp {c a k : Nat} (h : canonDecomp c = some (a, k)) : (c, a, k) ∈ Gen.canonPairs := by
  unfold canonDecomp at h
  cases hf : Gen.canonPairs.find? (fun p => p.1 == c) with
  | none => rw [hf] at h; cases h
  | some p =>
    rw [hf] at h
    simp only [Option.map_some, Option.some.injEq, Prod.mk.injEq] at h
    have hm := List.mem_of_find?_eq_some hf
    have hc : p.1 = c := by simpa using List.find?_some hf
    obtain ⟨p1, p2, p3⟩ := p
    simp only at h hc
    rw [← hc, ← h.1, ← h.2]
    exact hm

/-! ### the two table conditions -/

/-- every entry of the compose table is `([base, mark], [composed])` with `(composed, base, mark)` in the
    reference table: the language composes exactly canonical pairs, to exactly their canonical composition -/
def ComposeCanonical (m : List (List Nat × List Nat)) : Bool :=
  m.all (fun e =>
    match e.1, e.2 with
    | [a, k], [c] => Gen.canonPairs.contains (c, a, k)
    | _, _ => false)

theorem ComposeCanonical.entry {m : List (List Nat × List Nat)} (hCC : ComposeCanonical m = true)
    {e : List Nat × List Nat} (he : e ∈ m) :
    ∃ a k c, e.1 = [a, k] ∧ e.2 = [c] ∧ (c, a, k) ∈ Gen.canonPairs := by
  have h := (List.all_eq_true.1 hCC) e he
  obtain ⟨key, val⟩ := e
  simp only at h ⊢
  match key, val, h with
  | [a, k], [c], h => exact ⟨a, k, c, rfl, rfl, List.contains_iff_mem.1 h⟩

/-- `c` belongs to the language's own accent inventory: it is produced by a compose entry or folded by a
    reduce entry -/
def inInventory (T : LangTables) (c : Nat) : Bool :=
  T.compose.any (fun e => e.2 == [c]) || T.reduce.any (fun e => e.1 == [c])

/-- every single-character reduce key that has a canonical decomposition is the replacement of some compose
    entry: the compose table covers the decomposable letters of the inventory -/
def InventoryComposed (T : LangTables) : Bool :=
  T.reduce.all (fun e =>
    match e.1 with
    | [c] => (canonDecomp c).isNone || T.compose.any (fun e' => e'.2 == [c])
    | _ => true)

theorem InventoryComposed.key {T : LangTables} (hIC : InventoryComposed T = true) {c : Nat}
    (hr : T.reduce.any (fun e => e.1 == [c]) = true) :
    canonDecomp c = none ∨ T.compose.any (fun e => e.2 == [c]) = true := by
  obtain ⟨e, he, hk⟩ := List.any_eq_true.1 hr
  have hk' : e.1 = [c] := by simpa using hk
  have h := (List.all_eq_true.1 hIC) e he
  rw [hk'] at h
  simp only [Bool.or_eq_true, Option.isNone_iff_eq_none] at h
  exact h

/-! ### the generated tables -/

theorem composeCanonical_none : ComposeCanonical Gen.lang_none.compose = true := by decide +kernel
theorem composeCanonical_de : ComposeCanonical Gen.lang_de.compose = true := by decide +kernel
theorem composeCanonical_en : ComposeCanonical Gen.lang_en.compose = true := by decide +kernel
theorem composeCanonical_es : ComposeCanonical Gen.lang_es.compose = true := by decide +kernel
theorem composeCanonical_fr : ComposeCanonical Gen.lang_fr.compose = true := by decide +kernel
theorem composeCanonical_pt : ComposeCanonical Gen.lang_pt.compose = true := by decide +kernel
theorem composeCanonical_ru : ComposeCanonical Gen.lang_ru.compose = true := by decide +kernel

theorem inventoryComposed_none : InventoryComposed Gen.lang_none = true := by decide +kernel
theorem inventoryComposed_de : InventoryComposed Gen.lang_de = true := by decide +kernel
theorem inventoryComposed_en : InventoryComposed Gen.lang_en = true := by decide +kernel
theorem inventoryComposed_es : InventoryComposed Gen.lang_es = true := by decide +kernel
theorem inventoryComposed_fr : InventoryComposed Gen.lang_fr = true := by decide +kernel
theorem inventoryComposed_pt : InventoryComposed Gen.lang_pt = true := by decide +kernel
theorem inventoryComposed_ru : InventoryComposed Gen.lang_ru = true := by decide +kernel

/-- both conditions, as one Bool -/
def CanonTablesOK (T : LangTables) : Bool := ComposeCanonical T.compose && InventoryComposed T

theorem canonTablesOK_srcLangs : Gen.srcLangs.all (fun p => CanonTablesOK p.2) = true := by
  simp only [Gen.srcLangs, List.all_cons, List.all_nil, CanonTablesOK, composeCanonical_none, composeCanonical_de,
    composeCanonical_en, composeCanonical_es, composeCanonical_fr, composeCanonical_pt, composeCanonical_ru,
    inventoryComposed_none, inventoryComposed_de, inventoryComposed_en, inventoryComposed_es,
    inventoryComposed_fr, inventoryComposed_pt, inventoryComposed_ru, Bool.and_self]

/-- every compose table of the generated registry list composes canonical pairs only, to their canonical
    composition -/
theorem composeCanonical_src : ∀ (name : String) (T : LangTables), (name, T) ∈ Gen.srcLangs →
    ComposeCanonical T.compose = true := by
  intro name T h
  have := (List.all_eq_true.1 canonTablesOK_srcLangs) _ h
  simp only [CanonTablesOK, Bool.and_eq_true] at this
  exact this.1

/-- in every language of the generated registry list the decomposable letters of the reduce table are
    produced by the compose table -/
theorem inventoryComposed_src : ∀ (name : String) (T : LangTables), (name, T) ∈ Gen.srcLangs →
    InventoryComposed T = true := by
  intro name T h
  have := (List.all_eq_true.1 canonTablesOK_srcLangs) _ h
  simp only [CanonTablesOK, Bool.and_eq_true] at this
  exact this.2

/-! ### Unicode's decomposition of the inventory letters -/

/-- Unicode's canonical decomposition of `c` if `c` is a letter of the language's accent inventory (and has
    one); any other character is left alone -/
def uniDecompChar (T : LangTables) (c : Nat) : List Nat :=
  if inInventory T c then
    (match canonDecomp c with
     | some (a, k) => [a, k]
     | none => [c])
  else [c]

/-- `s` with the characters at the positions selected by `mask` replaced by Unicode's canonical decomposition
    (inventory letters only; positions beyond the end of `mask` are left alone) -/
def uniDecompAt (T : LangTables) : List Nat → List Bool → List Nat
  | [], _ => []
  | c :: cs, bs => (if bs.headD false then uniDecompChar T c else [c]) ++ uniDecompAt T cs bs.tail

/-- an inventory letter with a canonical decomposition is produced by a compose entry whose key is that
    decomposition -/
theorem compose_entry_of_inventory {T : LangTables} (hCC : ComposeCanonical T.compose = true)
    (hIC : InventoryComposed T = true) {c a k : Nat} (hin : inInventory T c = true)
    (hd : canonDecomp c = some (a, k)) : ([a, k], [c]) ∈ T.compose := by
  have hany : T.compose.any (fun e => e.2 == [c]) = true := by
    unfold inInventory at hin
    rcases Bool.or_eq_true_iff.1 hin with h | h
    · exact h
    · rcases InventoryComposed.key hIC h with h' | h'
      · rw [h'] at hd; cases hd
      · exact h'
  obtain ⟨e, he, hv⟩ := List.any_eq_true.1 hany
  have hv' : e.2 = [c] := by simpa using hv
  obtain ⟨a', k', c', h1, h2, h3⟩ := ComposeCanonical.entry hCC he
  have hc : c' = c := by rw [hv'] at h2; simpa using h2.symm
  subst hc
  have := canonDecomp_of_mem h3
  rw [hd] at this
  simp only [Option.some.injEq, Prod.mk.injEq] at this
  obtain ⟨rfl, rfl⟩ := this
  obtain ⟨key, val⟩ := e
  simp only at h1 hv'
  rw [h1, hv'] at he
  exact he

/-- **The table's own inverse is Unicode's canonical decomposition.** For a compose table that composes
    canonical pairs only (`ComposeCanonical`) and covers the decomposable letters of the reduce table
    (`InventoryComposed`), the decomposed spelling the table assigns to a character is Unicode's canonical
    decomposition if the character is in the language's inventory, and the character itself otherwise. -/
theorem decompChar_eq_uni (T : LangTables) (hCC : ComposeCanonical T.compose = true)
    (hIC : InventoryComposed T = true) (c : Nat) : decompChar T.compose c = uniDecompChar T c := by
  unfold decompChar uniDecompChar
  cases hf : T.compose.find? (fun e => e.2 == [c]) with
  | some e =>
    have he : e ∈ T.compose := List.mem_of_find?_eq_some hf
    have hv : e.2 = [c] := by simpa using List.find?_some hf
    obtain ⟨a, k, c', h1, h2, h3⟩ := ComposeCanonical.entry hCC he
    have hc : c' = c := by rw [hv] at h2; simpa using h2.symm
    subst hc
    have hin : inInventory T c' = true := by
      unfold inInventory
      rw [Bool.or_eq_true_iff]
      exact Or.inl (List.any_eq_true.2 ⟨e, he, by simp [hv]⟩)
    simp only [hin, if_true, canonDecomp_of_mem h3, h1]
  | none =>
    have hno : T.compose.any (fun e => e.2 == [c]) = false := by
      rw [Bool.eq_false_iff]
      intro h
      obtain ⟨e, he, hv⟩ := List.any_eq_true.1 h
      have := List.find?_eq_none.1 hf e he
      exact this hv
    simp only
    cases hr : T.reduce.any (fun e => e.1 == [c]) with
    | false => simp only [inInventory, hno, hr, Bool.or_self, Bool.false_eq_true, if_false]
    | true =>
      rcases InventoryComposed.key hIC hr with h' | h'
      · simp only [inInventory, hno, hr, Bool.or_true, if_true, h']
      · rw [hno] at h'; cases h'

theorem decompAt_eq_uni (T : LangTables) (hCC : ComposeCanonical T.compose = true)
    (hIC : InventoryComposed T = true) (s : List Nat) (mask : List Bool) :
    decompAt T.compose s mask = uniDecompAt T s mask := by
  induction s generalizing mask with
  | nil => rfl
  | cons c cs ih => simp only [decompAt, uniDecompAt, decompChar_eq_uni T hCC hIC c, ih]

theorem decompAt_eq_uni_src {name : String} {T : LangTables} (hT : (name, T) ∈ Gen.srcLangs) (s : List Nat)
    (mask : List Bool) : decompAt T.compose s mask = uniDecompAt T s mask :=
  decompAt_eq_uni T (composeCanonical_src name T hT) (inventoryComposed_src name T hT) s mask

/-- the language composes the canonical pair of an inventory letter back to exactly that letter -/
theorem composeWith_canon_pair {T : LangTables} (hC : ComposeClosed T.compose = true)
    (hCC : ComposeCanonical T.compose = true) (hIC : InventoryComposed T = true) {c a k : Nat}
    (hin : inInventory T c = true) (hd : canonDecomp c = some (a, k)) : composeWith T.compose [a, k] = [c] := by
  have he := compose_entry_of_inventory hCC hIC hin hd
  obtain ⟨b, x, h1, _, h3⟩ := ComposeClosed.entry hC he
  simp only [List.cons.injEq, and_true] at h1
  obtain ⟨rfl, rfl⟩ := h1
  rw [composeWith_cons_pair T.compose a k [c] [] h3]
  rfl

end Lucid
