/-
  LucidProofs.Lemmas.MatchFacts — interface predicates between the proof clusters:
  * `TextOK`     what the tokenizer guarantees of a text (subset of C15's `TokInv` used downstream);
  * `PairOK`     what `word_match` guarantees of a returned pair of matches;
  * `WordMatchOK` the statement that every `wordMatch` result on valid words is `PairOK`.
  Clusters that *use* these take them as hypotheses; the tokenizer / matching clusters *prove* them.
-/
import LucidModel.TextMatch

namespace Lucid

/-- a word (possibly a joined one) lying inside a text whose class array is as long as its characters -/
def WordIn (t : Text) (w : WordShape) : Prop :=
  w.lo < w.hi ∧ w.hi ≤ t.chars.length ∧ t.classes.length = t.chars.length

/-- structural well-formedness of a tokenised text -/
structure TextOK (t : Text) : Prop where
  lens    : t.source.length = t.chars.length ∧ t.classes.length = t.chars.length
  offsets : ∀ i (h : i < t.words.length), (t.words[i]).offset = i
  bounds  : ∀ w ∈ t.words, w.lo < w.hi ∧ w.hi ≤ t.chars.length
  ordered : ∀ i (h : i + 1 < t.words.length), (t.words[i]).hi ≤ (t.words[i + 1]).lo
  stems   : ∀ w ∈ t.words, 1 ≤ w.stem

/-- guarantees about a pair `(rmatch, qmatch)` returned by `word_match(rword, qword)` -/
structure PairOK (r q : WordShape) (p : WMatch × WMatch) : Prop where
  r_off  : p.1.offset = r.offset
  r_lo   : p.1.lo = r.lo
  r_hi   : p.1.hi = r.hi
  r_sub0 : p.1.subLo = 0
  r_pos  : 1 ≤ p.1.subHi
  r_le   : p.1.subHi ≤ r.len
  q_off  : p.2.offset = q.offset
  q_lo   : p.2.lo = q.lo
  q_hi   : p.2.hi = q.hi
  q_sub0 : p.2.subLo = 0
  q_le   : p.2.subHi ≤ q.len
  typos  : p.1.typos = p.2.typos
  near   : p.1.subHi ≤ p.2.subHi + 1 ∧ p.2.subHi ≤ p.1.subHi + 1
  /-- the `usize` subtraction `match_len - 2*ceil(typos)` of `text.rs` cannot underflow -/
  score  : 2 * ceilTenths p.1.typos ≤ p.1.subHi

def WordMatchOK (K : Consts) (rt qt : Text) : Prop :=
  ∀ r q p, WordIn rt r → WordIn qt q → 1 ≤ r.stem → 1 ≤ q.stem → wordMatch K rt r qt q = some p → PairOK r q p

end Lucid
