/-
  LucidProofs.Lemmas.UnicodeSrc2 — `LowerKeyFree` on the real std tables for every generated language:
  lower-casing a character that the reduce table leaves alone never yields a reduce-table key.
  (Needed by the restricted `StemHyp`.)
-/
import LucidProofs.Lemmas.UnicodeSrc

namespace Lucid
open Gen

/-- per entry `(c, lower c)` of the map: if `c` is not a reduce key then neither is `lower c` -/
def lowerKeyCheck (R : List (List Nat × List Nat)) (m : List (Nat × Nat)) : Bool :=
  m.all (fun p => (mapGet R [p.1]).isSome || (mapGet R [p.2]).isNone)

theorem lowerKeyCheck_srcLangs : srcLangs.all (fun p => lowerKeyCheck p.2.reduce uniLower) = true := by
  decide +kernel

theorem lowerKeyFree_src {name : String} {T : LangTables} (hT : (name, T) ∈ srcLangs) (c : Nat) :
    mapGet T.reduce [c] = none → mapGet T.reduce [lowerLookup uniLower c] = none := by
  have h := List.all_eq_true.1 lowerKeyCheck_srcLangs _ hT
  refine lowerLookup_ind (P := fun c l => mapGet T.reduce [c] = none → mapGet T.reduce [l] = none) uniLower ?_ ?_ c
  · intro p hp hc
    have := List.all_eq_true.1 h p hp
    simp only [Bool.or_eq_true, Option.isSome_iff_ne_none, Option.isNone_iff_eq_none] at this
    rcases this with h1 | h2
    · exact absurd hc h1
    · exact h2
  · intro c _ hc; exact hc

/-- `LowerKeyFree` for the real Unicode oracle and any generated language table -/
theorem lowerKeyFree_std {name : String} {T : LangTables} (hT : (name, T) ∈ srcLangs) (stem : List Nat → Nat) :
    LowerKeyFree (srcProg.env srcUnicode T stem) := by
  intro c hc
  exact lowerKeyFree_src hT c hc

end Lucid
