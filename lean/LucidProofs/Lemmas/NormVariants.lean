/-
  LucidProofs.Lemmas.NormVariants — spelling variants of an input string that the tokenizer cannot tell apart
  (used by C11b: decomposed accents, folded accents, re-cased letters).

  Plan.  `normalize` is the first step of both generated pipelines and it is the only step that reads the
  input string; its result on a fresh text is determined by `normChars E s` (the characters after compose and
  reduce), `normSource E s` and two junk fields (`stem` of the single word, `classes`) that `split` and
  `set_char_classes` overwrite.  Everything after `normalize` (`tokTail`) reads the characters only through
    * `isSepChar` of every character (split),
    * `isAlnum` of every character (strip),
    * `lower1` of every character (lower, which since the D5 fix maps `lower1` over the whole array; set_pos,
      set_char_classes, set_stem and the result itself read only that lower-cased array).
  `tokTail_congr` is that statement.  The three variants then reduce to facts about `normChars`:
    * decomposition  : `compose (decompAt s mask) = compose s`          (`ComposeClosed` table, mark-free `s`)
    * folding        : `normChars (foldAt s mask) = normChars s`        (`FoldClosed` + `FoldMarkFree` tables)
    * re-casing      : `(normChars s').map lower1 = (normChars s).map lower1` (`CaseClosedOn`, oracle-relative)
  Since `Text.lower` lower-cases unconditionally (finding D5 fixed) the third view is literally `map lower1`, and
  the former hypothesis "characters that are not upper-case are unchanged by lower-casing" is gone.
-/
import LucidProofs.Lemmas.Facts
import LucidProofs.Lemmas.Normalize
import LucidProofs.Lemmas.QueryCongr

namespace Lucid

/-! ### equality of tokenised texts up to `source` -/

/-- same words, characters and classes; `source` (which a *query* text never uses) may differ -/
def Text.sameUpToSource (a b : Text) : Prop := a.words = b.words ∧ a.chars = b.chars ∧ a.classes = b.classes

theorem Text.sameUpToSource.refl (a : Text) : a.sameUpToSource a := ⟨rfl, rfl, rfl⟩

theorem Text.sameUpToSource.of_eq {a b : Text} (h : a = b) : a.sameUpToSource b := h ▸ Text.sameUpToSource.refl a

theorem Text.sameUpToSource.trans {a b c : Text} (h1 : a.sameUpToSource b) (h2 : b.sameUpToSource c) :
    a.sameUpToSource c :=
  ⟨h1.1.trans h2.1, h1.2.1.trans h2.2.1, h1.2.2.trans h2.2.2⟩

theorem Text.sameUpToSource.symm {a b : Text} (h : a.sameUpToSource b) : b.sameUpToSource a :=
  ⟨h.1.symm, h.2.1.symm, h.2.2.symm⟩

theorem Text.eq_of_sameUpToSource {a b : Text} (h : a.sameUpToSource b) (hs : a.source = b.source) : a = b := by
  obtain ⟨w, s, c, k⟩ := a
  obtain ⟨w', s', c', k'⟩ := b
  obtain ⟨h1, h2, h3⟩ := h
  simp only at h1 h2 h3 hs
  subst h1; subst h2; subst h3; subst hs
  rfl

private theorem shift_zero (w : WordShape) : w.shift 0 = w := rfl

/-- texts equal up to `source` are `QEquiv` with shift 0, hence indistinguishable as queries -/
theorem QEquiv.of_sameUpToSource {q q' : Text} (h : q'.sameUpToSource q) : QEquiv 0 q q' := by
  refine ⟨?_, fun a _ b _ => ?_, fun a _ b _ => ?_⟩
  · rw [h.1]
    have : (WordShape.shift 0) = id := funext shift_zero
    rw [this, List.map_id]
  · rw [h.2.1]; rfl
  · rw [h.2.2]; rfl

/-! ### `normalize` on a fresh text -/

/-- the characters after `normalize`: compose, then reduce -/
def normChars (E : Env) (s : List Nat) : List Nat := composeWith E.T.reduce (composeWith E.T.compose s)

/-- the source after `normalize`: the composed input, NUL-padded where a reduction expanded a character -/
def normSource (E : Env) (s : List Nat) : List Nat :=
  match reduce E.T (compose E.T s) with
  | some r => r.1
  | none => compose E.T s

theorem normChars_eq_match (E : Env) (s : List Nat) :
    normChars E s = (match reduce E.T (compose E.T s) with | some r => r.2 | none => compose E.T s) := by
  unfold normChars
  cases hr : reduce E.T (compose E.T s) with
  | none => exact reduceWith_none _ _ hr
  | some r =>
    obtain ⟨src, chs⟩ := r
    exact (reduceWith_some _ _ _ _ hr).2.1.symm

/-- complete shape of `normalize` on a fresh text -/
theorem normalize_fromChars_shape (E : Env) (s : List Nat) :
    (Text.fromChars s).normalize E =
      { words := [{ offset := 0, lo := 0, hi := (normChars E s).length, stem := s.length, pos := none, fin := true }],
        source := normSource E s, chars := normChars E s, classes := s.map (fun _ => CharClass.any) } := by
  rw [normChars_eq_match]
  unfold normSource
  by_cases hc : compose E.T s = s
  · rw [hc]
    cases hr : reduce E.T s with
    | none => simp [Text.normalize, Text.fromChars, hc, hr]
    | some r => simp [Text.normalize, Text.fromChars, hc, hr, setFirstHi]
  · cases hr : reduce E.T (compose E.T s) with
    | none => simp [Text.normalize, Text.fromChars, hc, hr, setFirstHi]
    | some r => simp [Text.normalize, Text.fromChars, hc, hr, setFirstHi]

theorem normSource_congr (E : Env) {s s' : List Nat} (h : compose E.T s' = compose E.T s) :
    normSource E s' = normSource E s := by
  unfold normSource; rw [h]

theorem normChars_congr (E : Env) {s s' : List Nat} (h : compose E.T s' = compose E.T s) :
    normChars E s' = normChars E s := by
  unfold normChars; unfold compose at h; rw [h]

/-! ### everything after `normalize` -/

/-- the split pattern of both generated pipelines -/
def sepPat : List CharClass := [CharClass.whitespace, CharClass.control, CharClass.punctuation]

/-- the steps that follow `normalize` (and `fin`) in both generated pipelines -/
def tokTail (E : Env) (t : Text) : Text :=
  (((((t.split E sepPat).strip E [CharClass.notAlphaNum]).lower E).setPos E).setCharClasses E).setStem E

theorem tokenizeQuery_src_eq (E : Env) (s : List Nat) :
    tokenizeQuery Gen.srcProg E s = tokTail E (((Text.fromChars s).normalize E).setFin false) := rfl

theorem tokenizeRecord_src_eq (E : Env) (s : List Nat) :
    tokenizeRecord Gen.srcProg E s = tokTail E ((Text.fromChars s).normalize E) := rfl

/-- what `Text.lower` does to the character array: `lower1` on every character, unconditionally -/
theorem lower_chars (E : Env) (t : Text) : (t.lower E).chars = t.chars.map E.U.lower1 := rfl

theorem lower_words (E : Env) (t : Text) : (t.lower E).words = t.words := rfl

theorem lower_source (E : Env) (t : Text) : (t.lower E).source = t.source := rfl

theorem tokTail_source (E : Env) (t : Text) : (tokTail E t).source = t.source := by
  show (((t.split E sepPat).strip E [CharClass.notAlphaNum]).lower E).source = t.source
  rw [lower_source]
  rfl

theorem patMatches_sepPat (E : Env) : patMatches E sepPat = isSepChar E.U E.K := by
  funext c
  simp only [sepPat, patMatches, patMatchesOpt, patMatchesOpt.go, CharClass.matchesOpt, isSepChar]
  cases E.U.isWhitespace c <;> cases E.U.isControl c <;> cases E.K.punctuation.contains c <;> rfl

theorem patMatches_notAlnum (E : Env) : patMatches E [CharClass.notAlphaNum] = fun c => !E.U.isAlnum c := by
  funext c
  simp only [patMatches, patMatchesOpt, patMatchesOpt.go, CharClass.matchesOpt]
  cases E.U.isAlnum c <;> rfl

/-- the split scan reads the characters only through the separator test -/
theorem splitSpans_congr (p : Nat → Bool) (cs cs' : List Nat) (h : cs'.map p = cs.map p) (pos : Nat) (cur : Option Nat) :
    splitSpans p cs' pos cur = splitSpans p cs pos cur := by
  induction cs generalizing cs' pos cur with
  | nil =>
    have : cs' = [] := by simpa using h
    subst this; rfl
  | cons c rest ih =>
    cases cs' with
    | nil => simp at h
    | cons c' rest' =>
      simp only [List.map_cons, List.cons.injEq] at h
      cases cur with
      | none => simp only [splitSpans, h.1, ih rest' h.2]
      | some a => simp only [splitSpans, h.1, ih rest' h.2]

theorem slice_map {α β : Type} (f : α → β) (l : List α) (lo hi : Nat) : (slice l lo hi).map f = slice (l.map f) lo hi := by
  simp only [slice, List.map_take, List.map_drop]

theorem slice_length_of_map {α β : Type} (f : α → β) (l l' : List α) (h : l'.map f = l.map f) (lo hi : Nat) :
    (slice l' lo hi).length = (slice l lo hi).length := by
  have := congrArg List.length (congrArg (fun x => slice x lo hi) h)
  simpa [← slice_map] using this

theorem splitWord_congr (p : Nat → Bool) (cs cs' : List Nat) (h : cs'.map p = cs.map p) (w w' : WordShape)
    (hlo : w'.lo = w.lo) (hhi : w'.hi = w.hi) (hfin : w'.fin = w.fin) :
    splitWord p cs' w' = splitWord p cs w := by
  unfold splitWord
  have hs : (slice cs' w.lo w.hi).map p = (slice cs w.lo w.hi).map p := by rw [slice_map, slice_map, h]
  have hl : w'.len = w.len := by simp only [WordShape.len, hlo, hhi]
  rw [hlo, hhi, hfin, hl, splitSpans_congr p _ _ hs]

theorem takeWhile_length_congr (p : Nat → Bool) (cs cs' : List Nat) (h : cs'.map p = cs.map p) :
    (cs'.takeWhile p).length = (cs.takeWhile p).length := by
  induction cs generalizing cs' with
  | nil =>
    have : cs' = [] := by simpa using h
    subst this; rfl
  | cons c rest ih =>
    cases cs' with
    | nil => simp at h
    | cons c' rest' =>
      simp only [List.map_cons, List.cons.injEq] at h
      simp only [List.takeWhile_cons, h.1]
      split
      · simp only [List.length_cons, ih rest' h.2]
      · rfl

theorem stripWord_congr (p : Nat → Bool) (cs cs' : List Nat) (h : cs'.map p = cs.map p) (w : WordShape) :
    stripWord p cs' w = stripWord p cs w := by
  have hs : (slice cs' w.lo w.hi).map p = (slice cs w.lo w.hi).map p := by rw [slice_map, slice_map, h]
  have hr : (slice cs' w.lo w.hi).reverse.map p = (slice cs w.lo w.hi).reverse.map p := by
    rw [List.map_reverse, List.map_reverse, hs]
  have hl : (slice cs' w.lo w.hi).length = (slice cs w.lo w.hi).length := by
    have := congrArg List.length hs
    simpa using this
  have e1 := takeWhile_length_congr p _ _ hs
  have e2 := takeWhile_length_congr p _ _ hr
  simp only [stripWord, List.length_take, e1, e2, hl]

/-- **The tokenizer tail reads the characters only through three views: `map isSepChar`, `map isAlnum` and
    `map lower1`.** Two one-word states (as left by `normalize`/`fin`) whose words agree in `lo`, `hi`,
    `fin` and whose character arrays agree in these three respects give the same words, characters and
    classes; `source` is passed through untouched. -/
theorem tokTail_congr (E : Env) (t t' : Text) (w w' : WordShape)
    (ht : t.words = [w]) (ht' : t'.words = [w']) (hlo : w'.lo = w.lo) (hhi : w'.hi = w.hi) (hfin : w'.fin = w.fin)
    (hsep : t'.chars.map (isSepChar E.U E.K) = t.chars.map (isSepChar E.U E.K))
    (haln : t'.chars.map E.U.isAlnum = t.chars.map E.U.isAlnum)
    (hlow : t'.chars.map E.U.lower1 = t.chars.map E.U.lower1) :
    (tokTail E t').sameUpToSource (tokTail E t) := by
  -- split
  have h1 : (t'.split E sepPat).words = (t.split E sepPat).words := by
    simp only [Text.split, ht, ht', List.map_cons, List.map_nil, patMatches_sepPat]
    rw [splitWord_congr _ _ _ hsep w w' hlo hhi hfin]
  -- strip
  have hna : t'.chars.map (fun c => !E.U.isAlnum c) = t.chars.map (fun c => !E.U.isAlnum c) := by
    have := congrArg (List.map (fun b : Bool => !b)) haln
    simpa [List.map_map, Function.comp_def] using this
  have h2 : ((t'.split E sepPat).strip E [CharClass.notAlphaNum]).words =
      ((t.split E sepPat).strip E [CharClass.notAlphaNum]).words := by
    simp only [Text.strip, h1, patMatches_notAlnum]
    have : (t'.split E sepPat).chars = t'.chars := rfl
    rw [this]
    have : (t.split E sepPat).chars = t.chars := rfl
    rw [this]
    congr 2
    apply List.map_congr_left
    intro x _
    exact stripWord_congr _ _ _ hna x
  -- lower
  have h3w : (((t'.split E sepPat).strip E [CharClass.notAlphaNum]).lower E).words =
      (((t.split E sepPat).strip E [CharClass.notAlphaNum]).lower E).words := by
    rw [lower_words, lower_words, h2]
  have h3c : (((t'.split E sepPat).strip E [CharClass.notAlphaNum]).lower E).chars =
      (((t.split E sepPat).strip E [CharClass.notAlphaNum]).lower E).chars := by
    rw [lower_chars, lower_chars]
    exact hlow
  unfold tokTail
  generalize (((t'.split E sepPat).strip E [CharClass.notAlphaNum]).lower E) = a' at h3w h3c
  generalize (((t.split E sepPat).strip E [CharClass.notAlphaNum]).lower E) = a at h3w h3c
  refine ⟨?_, ?_, ?_⟩
  · simp only [Text.setStem, Text.setCharClasses, Text.setPos, h3w, h3c, List.map_map]
  · simp only [Text.setStem, Text.setCharClasses, Text.setPos, h3c]
  · simp only [Text.setStem, Text.setCharClasses, Text.setPos, h3c]

/-- query pipeline: the result depends on the input only through the three views of `normChars` -/
theorem tokenizeQuery_congr_views (E : Env) (s s' : List Nat)
    (hsep : (normChars E s').map (isSepChar E.U E.K) = (normChars E s).map (isSepChar E.U E.K))
    (haln : (normChars E s').map E.U.isAlnum = (normChars E s).map E.U.isAlnum)
    (hlow : (normChars E s').map E.U.lower1 = (normChars E s).map E.U.lower1) :
    (tokenizeQuery Gen.srcProg E s').sameUpToSource (tokenizeQuery Gen.srcProg E s) := by
  rw [tokenizeQuery_src_eq, tokenizeQuery_src_eq, normalize_fromChars_shape, normalize_fromChars_shape]
  exact tokTail_congr E _ _
    { offset := 0, lo := 0, hi := (normChars E s).length, stem := s.length, pos := none, fin := false }
    { offset := 0, lo := 0, hi := (normChars E s').length, stem := s'.length, pos := none, fin := false }
    rfl rfl rfl (by simpa using congrArg List.length hlow) rfl hsep haln hlow

/-- record pipeline, same statement -/
theorem tokenizeRecord_congr_views (E : Env) (s s' : List Nat)
    (hsep : (normChars E s').map (isSepChar E.U E.K) = (normChars E s).map (isSepChar E.U E.K))
    (haln : (normChars E s').map E.U.isAlnum = (normChars E s).map E.U.isAlnum)
    (hlow : (normChars E s').map E.U.lower1 = (normChars E s).map E.U.lower1) :
    (tokenizeRecord Gen.srcProg E s').sameUpToSource (tokenizeRecord Gen.srcProg E s) := by
  rw [tokenizeRecord_src_eq, tokenizeRecord_src_eq, normalize_fromChars_shape, normalize_fromChars_shape]
  exact tokTail_congr E _ _
    { offset := 0, lo := 0, hi := (normChars E s).length, stem := s.length, pos := none, fin := true }
    { offset := 0, lo := 0, hi := (normChars E s').length, stem := s'.length, pos := none, fin := true }
    rfl rfl rfl (by simpa using congrArg List.length hlow) rfl hsep haln hlow

/-- equal normalised characters ⇒ equal query tokenisation up to `source` -/
theorem tokenizeQuery_of_normChars (E : Env) {s s' : List Nat} (h : normChars E s' = normChars E s) :
    (tokenizeQuery Gen.srcProg E s').sameUpToSource (tokenizeQuery Gen.srcProg E s) :=
  tokenizeQuery_congr_views E s s' (by rw [h]) (by rw [h]) (by rw [h])

theorem tokenizeRecord_of_normChars (E : Env) {s s' : List Nat} (h : normChars E s' = normChars E s) :
    (tokenizeRecord Gen.srcProg E s').sameUpToSource (tokenizeRecord Gen.srcProg E s) :=
  tokenizeRecord_congr_views E s s' (by rw [h]) (by rw [h]) (by rw [h])

/-- equal composed forms ⇒ identical tokenisation, `source` included (compose runs first and rewrites it) -/
theorem tokenizeQuery_of_compose (E : Env) {s s' : List Nat} (h : compose E.T s' = compose E.T s) :
    tokenizeQuery Gen.srcProg E s' = tokenizeQuery Gen.srcProg E s := by
  apply Text.eq_of_sameUpToSource (tokenizeQuery_of_normChars E (normChars_congr E h))
  rw [tokenizeQuery_src_eq, tokenizeQuery_src_eq, tokTail_source, tokTail_source,
    normalize_fromChars_shape, normalize_fromChars_shape]
  exact normSource_congr E h

theorem tokenizeRecord_of_compose (E : Env) {s s' : List Nat} (h : compose E.T s' = compose E.T s) :
    tokenizeRecord Gen.srcProg E s' = tokenizeRecord Gen.srcProg E s := by
  apply Text.eq_of_sameUpToSource (tokenizeRecord_of_normChars E (normChars_congr E h))
  rw [tokenizeRecord_src_eq, tokenizeRecord_src_eq, tokTail_source, tokTail_source,
    normalize_fromChars_shape, normalize_fromChars_shape]
  exact normSource_congr E h

/-! ### `mapGet` and `normChunks`, one step at a time -/

theorem mapGet_none_of_no_key' {m : List (List Nat × List Nat)} {k : List Nat} (h : ∀ e ∈ m, e.1 ≠ k) :
    mapGet m k = none := by
  cases hv : mapGet m k with
  | none => rfl
  | some v => exact absurd rfl (h _ (mapGet_mem m k v hv))

/-- an unmatched character that starts no two-character pattern with its successor passes through -/
theorem composeWith_cons_single (m : List (List Nat × List Nat)) (c : Nat) (rest : List Nat)
    (h1 : mapGet m [c] = none) (h2 : ∀ x r, rest = x :: r → mapGet m [c, x] = none) :
    composeWith m (c :: rest) = c :: composeWith m rest := by
  cases rest with
  | nil => simp [composeWith, normChunks, h1]
  | cons x r => simp [composeWith, normChunks, h1, h2 x r rfl]

/-- a single-character pattern not shadowed by a two-character one -/
theorem composeWith_cons_key1 (m : List (List Nat × List Nat)) (c : Nat) (v rest : List Nat)
    (h1 : mapGet m [c] = some v) (h2 : ∀ x r, rest = x :: r → mapGet m [c, x] = none) :
    composeWith m (c :: rest) = v ++ composeWith m rest := by
  cases rest with
  | nil => simp [composeWith, normChunks, h1]
  | cons x r => simp [composeWith, normChunks, h1, h2 x r rfl]

/-- a matched two-character pattern is replaced -/
theorem composeWith_cons_pair (m : List (List Nat × List Nat)) (a b : Nat) (v rest : List Nat)
    (h : mapGet m [a, b] = some v) : composeWith m (a :: b :: rest) = v ++ composeWith m rest := by
  simp [composeWith, normChunks, h]

/-! ### decomposition -/

/-- `c` occurs at a non-initial position of a key of the table: a combining mark -/
def isMark (m : List (List Nat × List Nat)) (c : Nat) : Bool := m.any (fun e => (e.1.drop 1).contains c)

/-- no free-standing combining marks: the text is written with precomposed letters -/
def MarkFree (m : List (List Nat × List Nat)) (s : List Nat) : Prop := ∀ c ∈ s, isMark m c = false

instance (m : List (List Nat × List Nat)) (s : List Nat) : Decidable (MarkFree m s) := by
  unfold MarkFree; infer_instance

/-- decidable closure condition on a compose table: every key is a pair `[base, mark]`, no base is itself a
    mark (so a pair never interacts with its neighbours), and no entry is shadowed by a later one with the same
    key (`HashMap::insert` semantics). -/
def ComposeClosed (m : List (List Nat × List Nat)) : Bool :=
  m.all (fun e => e.1.length == 2 && !(isMark m (e.1.headD 0)) && decide (mapGet m e.1 = some e.2))

theorem ComposeClosed.entry {m : List (List Nat × List Nat)} (hC : ComposeClosed m = true)
    {e : List Nat × List Nat} (he : e ∈ m) :
    ∃ b k, e.1 = [b, k] ∧ isMark m b = false ∧ mapGet m [b, k] = some e.2 := by
  have := (List.all_eq_true.1 hC) e he
  simp only [Bool.and_eq_true, beq_iff_eq, Bool.not_eq_true', decide_eq_true_eq] at this
  obtain ⟨⟨hl, hm⟩, hg⟩ := this
  obtain ⟨k, v⟩ := e
  simp only at hl hm hg ⊢
  match k, hl with
  | [b, x], _ => exact ⟨b, x, rfl, by simpa using hm, hg⟩

theorem ComposeClosed.no_single {m : List (List Nat × List Nat)} (hC : ComposeClosed m = true) (c : Nat) :
    mapGet m [c] = none := by
  apply mapGet_none_of_no_key'
  intro e he hk
  obtain ⟨b, k, h1, _⟩ := ComposeClosed.entry hC he
  rw [h1] at hk
  simp at hk

theorem mapGet_pair_mark {m : List (List Nat × List Nat)} {a x : Nat} {v : List Nat}
    (h : mapGet m [a, x] = some v) : isMark m x = true := by
  have := mapGet_mem m _ _ h
  unfold isMark
  rw [List.any_eq_true]
  exact ⟨_, this, by simp⟩

theorem no_pair_of_not_mark {m : List (List Nat × List Nat)} (a : Nat) {x : Nat} (hx : isMark m x = false) :
    mapGet m [a, x] = none := by
  cases h : mapGet m [a, x] with
  | none => rfl
  | some v => rw [mapGet_pair_mark h] at hx; cases hx

/-- a decomposed spelling of `c` in the table: the key of the first entry whose replacement is `[c]`
    (the character itself if there is none) -/
def decompChar (m : List (List Nat × List Nat)) (c : Nat) : List Nat :=
  match m.find? (fun e => e.2 == [c]) with
  | some e => e.1
  | none => [c]

/-- `s` with the characters at the positions selected by `mask` written in decomposed form (positions beyond
    the end of `mask` are left alone) -/
def decompAt (m : List (List Nat × List Nat)) : List Nat → List Bool → List Nat
  | [], _ => []
  | c :: cs, bs => (if bs.headD false then decompChar m c else [c]) ++ decompAt m cs bs.tail

theorem decompAt_nil_mask (m : List (List Nat × List Nat)) (s : List Nat) : decompAt m s [] = s := by
  induction s with
  | nil => rfl
  | cons c cs ih => simp [decompAt, ih]

/-- a piece of `decompAt` is the character itself or a key `[b, k]` of the table composing to it -/
theorem decomp_piece {m : List (List Nat × List Nat)} (hC : ComposeClosed m = true) (c : Nat) (bit : Bool) :
    (if bit then decompChar m c else [c]) = [c] ∨
    ∃ b k, (if bit then decompChar m c else [c]) = [b, k] ∧ isMark m b = false ∧ mapGet m [b, k] = some [c] := by
  cases bit with
  | false => exact Or.inl rfl
  | true =>
    simp only [if_true]
    unfold decompChar
    cases hf : m.find? (fun e => e.2 == [c]) with
    | none => exact Or.inl rfl
    | some e =>
      right
      have he : e ∈ m := List.mem_of_find?_eq_some hf
      have hv : e.2 = [c] := by simpa using List.find?_some hf
      obtain ⟨b, k, h1, h2, h3⟩ := ComposeClosed.entry hC he
      exact ⟨b, k, h1, h2, by rw [← hv]; exact h3⟩

/-- the first character of a decomposed mark-free text is not a mark -/
theorem decompAt_head {m : List (List Nat × List Nat)} (hC : ComposeClosed m = true) (s : List Nat)
    (hs : MarkFree m s) (bs : List Bool) (x : Nat) (r : List Nat) (h : decompAt m s bs = x :: r) :
    isMark m x = false := by
  cases s with
  | nil => simp [decompAt] at h
  | cons c cs =>
    simp only [decompAt] at h
    rcases decomp_piece hC c (bs.headD false) with hp | ⟨b, k, hp, hb, _⟩
    · rw [hp] at h
      simp only [List.cons_append, List.nil_append, List.cons.injEq] at h
      rw [← h.1]; exact hs c List.mem_cons_self
    · rw [hp] at h
      simp only [List.cons_append, List.cons.injEq] at h
      rw [← h.1]; exact hb

/-- **Composition undoes decomposition.** For a compose table satisfying `ComposeClosed` and a text without
    free-standing marks, decomposing any subset of positions and composing again gives the text back. -/
theorem composeWith_decompAt {m : List (List Nat × List Nat)} (hC : ComposeClosed m = true) (s : List Nat)
    (hs : MarkFree m s) (bs : List Bool) : composeWith m (decompAt m s bs) = s := by
  induction s generalizing bs with
  | nil => rfl
  | cons c cs ih =>
    have hs' : MarkFree m cs := fun x hx => hs x (List.mem_cons_of_mem _ hx)
    simp only [decompAt]
    rcases decomp_piece hC c (bs.headD false) with hp | ⟨b, k, hp, _, hg⟩
    · rw [hp]
      simp only [List.cons_append, List.nil_append]
      rw [composeWith_cons_single m c _ (ComposeClosed.no_single hC c)
        (fun x r hx => no_pair_of_not_mark c (decompAt_head hC cs hs' _ x r hx)), ih hs']
    · rw [hp]
      simp only [List.cons_append, List.nil_append]
      rw [composeWith_cons_pair m b k [c] _ hg, ih hs']
      rfl

/-- a text without free-standing marks is already composed -/
theorem composeWith_markFree {m : List (List Nat × List Nat)} (hC : ComposeClosed m = true) (s : List Nat)
    (hs : MarkFree m s) : composeWith m s = s := by
  have := composeWith_decompAt hC s hs []
  rwa [decompAt_nil_mask] at this

theorem compose_decompAt (E : Env) (hC : ComposeClosed E.T.compose = true) (s : List Nat)
    (hs : MarkFree E.T.compose s) (bs : List Bool) :
    compose E.T (decompAt E.T.compose s bs) = compose E.T s := by
  unfold compose
  rw [composeWith_decompAt hC s hs bs, composeWith_markFree hC s hs]

/-! ### folding -/

/-- what the reduce table does to one character -/
def red1 (m : List (List Nat × List Nat)) (c : Nat) : List Nat := (mapGet m [c]).getD [c]

/- `FoldClosed` (every reduce key is a single character, and no character of a replacement is itself a key) and
   its `foldClosed_*` instances for the generated tables live in `Lemmas/Facts.lean`. -/

/-- decidable cross-table condition: no character of a reduce replacement is a combining mark of the compose
    table (so a folded spelling is still in composed form) -/
def FoldMarkFree (T : LangTables) : Bool :=
  T.reduce.all (fun e => e.2.all (fun c => !(isMark T.compose c)))

theorem FoldClosed.no_pair {m : List (List Nat × List Nat)} (hF : FoldClosed m = true) (a b : Nat) :
    mapGet m [a, b] = none := by
  apply mapGet_none_of_no_key'
  intro e he hk
  have := (List.all_eq_true.1 hF) e he
  simp only [Bool.and_eq_true, beq_iff_eq] at this
  rw [hk] at this
  simp at this

theorem composeWith_foldClosed {m : List (List Nat × List Nat)} (hF : FoldClosed m = true) (s : List Nat) :
    composeWith m s = s.flatMap (red1 m) := by
  induction s with
  | nil => rfl
  | cons c cs ih =>
    rw [List.flatMap_cons]
    cases h1 : mapGet m [c] with
    | none =>
      rw [composeWith_cons_single m c cs h1 (fun x _ _ => FoldClosed.no_pair hF c x), ih]
      simp [red1, h1]
    | some v =>
      rw [composeWith_cons_key1 m c v cs h1 (fun x _ _ => FoldClosed.no_pair hF c x), ih]
      simp [red1, h1]

/-- the characters of a replacement are fixed by the table -/
theorem red1_of_mem_red1 {m : List (List Nat × List Nat)} (hF : FoldClosed m = true) (c x : Nat)
    (hx : x ∈ red1 m c) (hc : mapGet m [c] ≠ none) : red1 m x = [x] := by
  unfold red1 at hx
  cases h1 : mapGet m [c] with
  | none => exact absurd h1 hc
  | some v =>
    rw [h1] at hx
    simp only [Option.getD_some] at hx
    have he := mapGet_mem m _ _ h1
    have := (List.all_eq_true.1 hF) _ he
    simp only [Bool.and_eq_true, List.all_eq_true] at this
    have hn := this.2 x hx
    unfold red1
    cases h2 : mapGet m [x] with
    | none => rfl
    | some v' => rw [h2] at hn; simp at hn

theorem flatMap_singleton_self (l : List Nat) (f : Nat → List Nat) (h : ∀ x ∈ l, f x = [x]) : l.flatMap f = l := by
  induction l with
  | nil => rfl
  | cons a l ih =>
    rw [List.flatMap_cons, h a List.mem_cons_self, ih (fun x hx => h x (List.mem_cons_of_mem _ hx))]
    rfl

/-- folding is idempotent on every character -/
theorem red1_idem {m : List (List Nat × List Nat)} (hF : FoldClosed m = true) (c : Nat) :
    (red1 m c).flatMap (red1 m) = red1 m c := by
  cases h1 : mapGet m [c] with
  | none =>
    have : red1 m c = [c] := by simp [red1, h1]
    rw [this, List.flatMap_cons, List.flatMap_nil, this]
    rfl
  | some v =>
    apply flatMap_singleton_self
    intro x hx
    exact red1_of_mem_red1 hF c x hx (by rw [h1]; simp)

/-- `s` with the characters at the positions selected by `mask` replaced by what the reduce table maps them
    to (accent stripped, `ß` written `ss`, …); characters without an entry stay -/
def foldAt (m : List (List Nat × List Nat)) : List Nat → List Bool → List Nat
  | [], _ => []
  | c :: cs, bs => (if bs.headD false then red1 m c else [c]) ++ foldAt m cs bs.tail

theorem flatMap_foldAt {m : List (List Nat × List Nat)} (hF : FoldClosed m = true) (s : List Nat) (bs : List Bool) :
    (foldAt m s bs).flatMap (red1 m) = s.flatMap (red1 m) := by
  induction s generalizing bs with
  | nil => rfl
  | cons c cs ih =>
    simp only [foldAt, List.flatMap_append, List.flatMap_cons, ih]
    congr 1
    cases bs.headD false with
    | false => simp
    | true => simp only [if_true]; exact red1_idem hF c

theorem foldAt_markFree (T : LangTables) (hM : FoldMarkFree T = true) (s : List Nat) (hs : MarkFree T.compose s)
    (bs : List Bool) : MarkFree T.compose (foldAt T.reduce s bs) := by
  induction s generalizing bs with
  | nil => intro c hc; simp [foldAt] at hc
  | cons c cs ih =>
    intro x hx
    simp only [foldAt, List.mem_append] at hx
    rcases hx with hx | hx
    · cases hb : bs.headD false with
      | false =>
        rw [hb] at hx
        simp only [Bool.false_eq_true, if_false, List.mem_singleton] at hx
        rw [hx]; exact hs c List.mem_cons_self
      | true =>
        rw [hb] at hx
        simp only [if_true] at hx
        unfold red1 at hx
        cases h1 : mapGet T.reduce [c] with
        | none =>
          rw [h1] at hx
          simp only [Option.getD_none, List.mem_singleton] at hx
          rw [hx]; exact hs c List.mem_cons_self
        | some v =>
          rw [h1] at hx
          simp only [Option.getD_some] at hx
          have he := mapGet_mem _ _ _ h1
          have := (List.all_eq_true.1 hM) _ he
          simp only [List.all_eq_true, Bool.not_eq_true'] at this
          exact this x hx
    · exact ih (fun y hy => hs y (List.mem_cons_of_mem _ hy)) bs.tail x hx

/-- normalised characters of a mark-free text under closed tables: fold every character -/
theorem normChars_markFree (E : Env) (hC : ComposeClosed E.T.compose = true) (hF : FoldClosed E.T.reduce = true)
    (s : List Nat) (hs : MarkFree E.T.compose s) : normChars E s = s.flatMap (red1 E.T.reduce) := by
  unfold normChars
  rw [composeWith_markFree hC s hs, composeWith_foldClosed hF]

/-- **Folding before or after makes no difference.** -/
theorem normChars_foldAt (E : Env) (hC : ComposeClosed E.T.compose = true) (hF : FoldClosed E.T.reduce = true)
    (hM : FoldMarkFree E.T = true) (s : List Nat) (hs : MarkFree E.T.compose s) (bs : List Bool) :
    normChars E (foldAt E.T.reduce s bs) = normChars E s := by
  rw [normChars_markFree E hC hF s hs, normChars_markFree E hC hF _ (foldAt_markFree E.T hM s hs bs),
    flatMap_foldAt hF]

/-! ### re-casing -/

/-- oracle-relative closure of the reduce table under case, on the characters `cs`: folding a character and
    folding its lower-case form give the same characters up to case -/
def CaseClosedOn (E : Env) (cs : List Nat) : Prop :=
  ∀ c ∈ cs, (red1 E.T.reduce c).map E.U.lower1 = (red1 E.T.reduce (E.U.lower1 c)).map E.U.lower1

/-- lower-casing does not change whether a character is a separator, on the characters `cs`
    (`UnicodeFacts.lower_sep` is one half of this) -/
def SepLowerOn (E : Env) (cs : List Nat) : Prop :=
  ∀ c ∈ cs, isSepChar E.U E.K (E.U.lower1 c) = isSepChar E.U E.K c

theorem flatMap_red1_lower (E : Env) (s s' : List Nat) (h : s'.map E.U.lower1 = s.map E.U.lower1)
    (hcc : CaseClosedOn E (s ++ s')) :
    (s'.flatMap (red1 E.T.reduce)).map E.U.lower1 = (s.flatMap (red1 E.T.reduce)).map E.U.lower1 := by
  induction s generalizing s' with
  | nil =>
    have : s' = [] := by simpa using h
    subst this; rfl
  | cons c cs ih =>
    cases s' with
    | nil => simp at h
    | cons c' cs' =>
      simp only [List.map_cons, List.cons.injEq] at h
      simp only [List.flatMap_cons, List.map_append]
      have e1 := hcc c (by simp)
      have e2 := hcc c' (by simp)
      rw [e1, e2, h.1]
      congr 1
      apply ih cs' h.2
      intro x hx
      apply hcc x
      simp only [List.mem_append, List.mem_cons] at hx ⊢
      rcases hx with hx | hx
      · exact Or.inl (Or.inr hx)
      · exact Or.inr (Or.inr hx)

theorem map_via_lower {β : Type} (E : Env) (f : Nat → β) (n n' : List Nat)
    (h : n'.map E.U.lower1 = n.map E.U.lower1)
    (hf : ∀ c ∈ n ++ n', f (E.U.lower1 c) = f c) : n'.map f = n.map f := by
  have e : ∀ l : List Nat, (∀ c ∈ l, f (E.U.lower1 c) = f c) → l.map f = (l.map E.U.lower1).map f := by
    intro l hl
    rw [List.map_map]
    apply List.map_congr_left
    intro c hc
    exact (hl c hc).symm
  rw [e n (fun c hc => hf c (List.mem_append_left _ hc)), e n' (fun c hc => hf c (List.mem_append_right _ hc)), h]

/-- **Re-casing, at the level of normalised characters.** If the two normalised arrays agree after
    lower-casing every character, the query tokenisations agree up to `source`, provided lower-casing
    preserves separator-ness on their characters (`SepLowerOn`, the only oracle-relative hypothesis besides
    `UnicodeFacts`). Alphanumeric-ness is preserved by `UnicodeFacts.lower_alnum`; the lower-cased arrays are
    equal by assumption, and `Text.lower` produces exactly those (it lower-cases every character,
    unconditionally). -/
theorem tokenizeQuery_of_lower_eq (E : Env) (hU : UnicodeFacts E.U E.K) (s s' : List Nat)
    (h : (normChars E s').map E.U.lower1 = (normChars E s).map E.U.lower1)
    (hsl : SepLowerOn E (normChars E s ++ normChars E s')) :
    (tokenizeQuery Gen.srcProg E s').sameUpToSource (tokenizeQuery Gen.srcProg E s) :=
  tokenizeQuery_congr_views E s s' (map_via_lower E _ _ _ h hsl)
    (map_via_lower E _ _ _ h (fun c _ => hU.lower_alnum c)) h

theorem tokenizeRecord_of_lower_eq (E : Env) (hU : UnicodeFacts E.U E.K) (s s' : List Nat)
    (h : (normChars E s').map E.U.lower1 = (normChars E s).map E.U.lower1)
    (hsl : SepLowerOn E (normChars E s ++ normChars E s')) :
    (tokenizeRecord Gen.srcProg E s').sameUpToSource (tokenizeRecord Gen.srcProg E s) :=
  tokenizeRecord_congr_views E s s' (map_via_lower E _ _ _ h hsl)
    (map_via_lower E _ _ _ h (fun c _ => hU.lower_alnum c)) h

/-- normalised characters of two mark-free re-casings of each other agree up to case -/
theorem normChars_recase (E : Env) (hC : ComposeClosed E.T.compose = true) (hF : FoldClosed E.T.reduce = true)
    (s s' : List Nat) (hs : MarkFree E.T.compose s) (hs' : MarkFree E.T.compose s')
    (h : s'.map E.U.lower1 = s.map E.U.lower1) (hcc : CaseClosedOn E (s ++ s')) :
    (normChars E s').map E.U.lower1 = (normChars E s).map E.U.lower1 := by
  rw [normChars_markFree E hC hF s hs, normChars_markFree E hC hF s' hs']
  exact flatMap_red1_lower E s s' h hcc

/-! ### the generated tables -/

theorem composeClosed_none : ComposeClosed Gen.lang_none.compose = true := by decide
theorem composeClosed_de : ComposeClosed Gen.lang_de.compose = true := by decide
theorem composeClosed_en : ComposeClosed Gen.lang_en.compose = true := by decide
theorem composeClosed_es : ComposeClosed Gen.lang_es.compose = true := by decide
theorem composeClosed_fr : ComposeClosed Gen.lang_fr.compose = true := by decide
theorem composeClosed_pt : ComposeClosed Gen.lang_pt.compose = true := by decide
theorem composeClosed_ru : ComposeClosed Gen.lang_ru.compose = true := by decide


theorem foldMarkFree_none : FoldMarkFree Gen.lang_none = true := by decide
theorem foldMarkFree_de : FoldMarkFree Gen.lang_de = true := by decide
theorem foldMarkFree_en : FoldMarkFree Gen.lang_en = true := by decide
theorem foldMarkFree_es : FoldMarkFree Gen.lang_es = true := by decide
theorem foldMarkFree_fr : FoldMarkFree Gen.lang_fr = true := by decide
theorem foldMarkFree_pt : FoldMarkFree Gen.lang_pt = true := by decide
theorem foldMarkFree_ru : FoldMarkFree Gen.lang_ru = true := by decide

/-- all three table conditions for every language in the generated registry list -/
def VariantTablesOK (T : LangTables) : Bool := ComposeClosed T.compose && FoldClosed T.reduce && FoldMarkFree T

theorem variantTablesOK_srcLangs : Gen.srcLangs.all (fun p => VariantTablesOK p.2) = true := by
  simp only [Gen.srcLangs, List.all_cons, List.all_nil, VariantTablesOK, composeClosed_none, composeClosed_de,
    composeClosed_en, composeClosed_es, composeClosed_fr, composeClosed_pt, composeClosed_ru, foldClosed_none,
    foldClosed_de, foldClosed_en, foldClosed_es, foldClosed_fr, foldClosed_pt, foldClosed_ru, foldMarkFree_none,
    foldMarkFree_de, foldMarkFree_en, foldMarkFree_es, foldMarkFree_fr, foldMarkFree_pt, foldMarkFree_ru,
    Bool.and_self]

theorem variantTablesOK_of_src {name : String} {T : LangTables} (h : (name, T) ∈ Gen.srcLangs) :
    ComposeClosed T.compose = true ∧ FoldClosed T.reduce = true ∧ FoldMarkFree T = true := by
  have := (List.all_eq_true.1 variantTablesOK_srcLangs) _ h
  simp only [VariantTablesOK, Bool.and_eq_true] at this
  exact ⟨this.1.1, this.1.2, this.2⟩

/-! ### registry level: two calls whose tokenised argument behaves the same leave the same registry -/

theorem step_addRecord_congr (S : Sorter) (P : Prog) (envs : Nat → Env) (g : Registry) (id recId rating : Nat)
    (title title' : List Nat)
    (h : ∀ lang st, amGet g.stores id = some (lang, st) →
      tokenizeRecord P (envs lang) title' = tokenizeRecord P (envs lang) title) :
    Registry.step S P envs g (.addRecord id recId title' rating) =
      Registry.step S P envs g (.addRecord id recId title rating) := by
  cases hg : amGet g.stores id with
  | none => simp [Registry.step, RegOp.valid, hg]
  | some p =>
    obtain ⟨lang, st⟩ := p
    simp [Registry.step, RegOp.valid, hg, h lang st hg]

theorem step_runSearch_congr (S : Sorter) (P : Prog) (envs : Nat → Env) (g : Registry) (id : Nat)
    (q q' : List Nat)
    (h : ∀ lang st, amGet g.stores id = some (lang, st) →
      st.searchM S P.K P.order (tokenizeQuery P (envs lang) q') =
        st.searchM S P.K P.order (tokenizeQuery P (envs lang) q)) :
    Registry.step S P envs g (.runSearch id q') = Registry.step S P envs g (.runSearch id q) := by
  cases hg : amGet g.stores id with
  | none => simp [Registry.step, RegOp.valid, hg]
  | some p =>
    obtain ⟨lang, st⟩ := p
    simp [Registry.step, RegOp.valid, hg, h lang st hg]

end Lucid
