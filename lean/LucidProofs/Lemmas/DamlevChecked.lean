/-
  LucidProofs.Lemmas.DamlevChecked — the bounds-checked variant of the distance loops
  (`LucidModel.DamlevChecked`: every `get_unchecked`/`set_unchecked` on the matrix checks row and column
  separately against the current dimension, every cost/character read is checked) never fails and
  computes exactly what the unchecked loops compute — for every input and every prior matrix state.
-/
import LucidModel.DamlevChecked
import LucidProofs.Lemmas.DamlevRefine

namespace Lucid
namespace DL

/-! ### checked folds -/

theorem foldlO_inv {σ α : Type} (f : σ → α → Option σ) (g : σ → α → σ) (l : List α) :
    ∀ (P : Nat → σ → Prop) (s : σ), P 0 s →
      (∀ k (hk : k < l.length) s, P k s → f s l[k] = some (g s l[k]) ∧ P (k+1) (g s l[k])) →
      foldlO f s l = some (l.foldl g s) ∧ P l.length (l.foldl g s) := by
  induction l with
  | nil => intro P s h0 _; exact ⟨rfl, h0⟩
  | cons x xs ih =>
    intro P s h0 hs
    obtain ⟨e, hp⟩ := hs 0 (by simp) s h0
    simp only [List.getElem_cons_zero] at e hp
    have := ih (fun k => P (k+1)) (g s x) hp (fun k hk s' h' => by
      have := hs (k+1) (by simp; omega) s' h'
      simpa using this)
    simp only [foldlO, e, List.foldl_cons, List.length_cons]
    exact this

theorem foldlO_range_inv {σ : Type} (f : σ → Nat → Option σ) (g : σ → Nat → σ) (P : Nat → σ → Prop) (n : Nat) (s : σ)
    (h0 : P 0 s) (hs : ∀ k, k < n → ∀ s, P k s → f s k = some (g s k) ∧ P (k+1) (g s k)) :
    foldlO f s (List.range n) = some ((List.range n).foldl g s) ∧ P n ((List.range n).foldl g s) := by
  have := foldlO_inv f g (List.range n) P s h0 (fun k hk s' h' => by
    rw [List.getElem_range]; exact hs k (by simpa using hk) s' h')
  simpa using this

theorem foldlO_range1_inv {σ : Type} (f : σ → Nat → Option σ) (g : σ → Nat → σ) (P : Nat → σ → Prop) (n : Nat) (s : σ)
    (h0 : P 0 s) (hs : ∀ k, k < n → ∀ s, P k s → f s (k+1) = some (g s (k+1)) ∧ P (k+1) (g s (k+1))) :
    foldlO f s (List.range' 1 n) = some ((List.range' 1 n).foldl g s) ∧ P n ((List.range' 1 n).foldl g s) := by
  have := foldlO_inv f g (List.range' 1 n) P s h0 (fun k hk s' h' => by
    rw [List.getElem_range']
    have e : 1 + 1 * k = k + 1 := by omega
    rw [e]; exact hs k (by simpa using hk) s' h')
  simpa using this

theorem foldlO_zipIdx_inv {σ : Type} (f : σ → Nat × Nat → Option σ) (g : σ → Nat × Nat → σ) (P : Nat → σ → Prop)
    (c : List Nat) (s : σ) (h0 : P 0 s)
    (hs : ∀ k (hk : k < c.length) s, P k s → f s (c[k], k) = some (g s (c[k], k)) ∧ P (k+1) (g s (c[k], k))) :
    foldlO f s c.zipIdx = some (c.zipIdx.foldl g s) ∧ P c.length (c.zipIdx.foldl g s) := by
  have := foldlO_inv f g c.zipIdx P s h0 (fun k hk s' h' => by
    have hk' : k < c.length := by simpa using hk
    rw [List.getElem_zipIdx, Nat.zero_add]; exact hs k hk' s' h')
  simpa using this

/-! ### checked accessors -/

theorem getC_some (m : Mat) (S : Nat) (hS : m.size = S) (i j : Nat) (hi : i < S) (hj : j < S) :
    m.getC i j = some (m.get i j) := by
  subst hS; simp [Mat.getC, hi, hj]

theorem setC_some (m : Mat) (S : Nat) (hS : m.size = S) (i j v : Nat) (hi : i < S) (hj : j < S) :
    m.setC i j v = some (m.set i j v) := by
  subst hS; simp [Mat.setC, hi, hj]

/-! ### `init`, `grow`, `prepare`: the checked versions equal the unchecked ones, for every matrix -/

def initStepC1 (m : Mat) (i : Nat) : Option Mat :=
  match m.setC i 0 (10 * m.size) with
  | some m1 => m1.setC 0 i (10 * m1.size)
  | none => none

def initStepC2 (m : Mat) (i : Nat) : Option Mat :=
  match m.setC i 1 (10 * (i - 1)) with
  | some m1 => m1.setC 1 i (10 * (i - 1))
  | none => none

theorem initC_eq' (m : Mat) (h : m.size ≠ 0) :
    m.initC = match foldlO initStepC1 m (List.range m.size) with
      | none => none
      | some m => foldlO initStepC2 m (List.range' 1 (m.size - 1)) := by
  unfold Mat.initC; rw [if_neg h]; rfl

theorem initStepC1_some (m : Mat) (S : Nat) (hS : m.size = S) (i : Nat) (hi : i < S) :
    initStepC1 m i = some (initStep1 m i) := by
  unfold initStepC1
  rw [setC_some m S hS i 0 _ hi (by omega)]
  simp only []
  rw [setC_some (m.set i 0 _) S hS 0 i _ (by omega) hi]
  rfl

theorem initStepC2_some (m : Mat) (S : Nat) (hS : m.size = S) (i : Nat) (h1 : 1 < S) (hi : i < S) :
    initStepC2 m i = some (initStep2 m i) := by
  unfold initStepC2
  rw [setC_some m S hS i 1 _ hi h1]
  simp only []
  rw [setC_some (m.set i 1 _) S hS 1 i _ h1 hi]
  rfl

/-- `init` never leaves the matrix (row and column each below `size`), whatever the buffer holds -/
theorem initC_spec (m : Mat) : m.initC = some m.init ∧ m.init.size = m.size := by
  by_cases h : m.size = 0
  · simp [Mat.initC, Mat.init, h]
  · rw [initC_eq' m h, init_eq m h]
    obtain ⟨e1, hs1⟩ := foldlO_range_inv initStepC1 initStep1 (fun _ m1 => m1.size = m.size) m.size m rfl
      (fun k hk m1 hs => ⟨initStepC1_some m1 m.size hs k hk, hs⟩)
    rw [e1]; simp only []
    generalize (List.range m.size).foldl initStep1 m = m1 at hs1
    obtain ⟨e2, hs2⟩ := foldlO_range1_inv initStepC2 initStep2 (fun _ m2 => m2.size = m.size) (m1.size - 1) m1 hs1
      (fun k hk m2 hs => ⟨initStepC2_some m2 m.size hs (k+1) (by omega) (by omega), hs⟩)
    exact ⟨e2, hs2⟩

theorem growC_spec (m : Mat) (need : Nat) :
    m.growC need = some (m.grow need) ∧ need ≤ (m.grow need).size ∧ m.size ≤ (m.grow need).size := by
  unfold Mat.growC Mat.grow
  split
  · have := initC_spec { size := need + need / 2, raw := arrResize m.raw ((need + need / 2) * (need + need / 2)) }
    simp only [] at this ⊢
    refine ⟨this.1, ?_, ?_⟩ <;> rw [this.2] <;> (try simp only []) <;> omega
  · exact ⟨rfl, by omega, Nat.le_refl _⟩

def prepStepC1 (m : Mat) (p : Nat × Nat) : Option Mat :=
  match m.getC (p.2 + 1) 1 with
  | some prev => m.setC (p.2 + 2) 1 (prev + p.1)
  | none => none

def prepStepC2 (m : Mat) (p : Nat × Nat) : Option Mat :=
  match m.getC 1 (p.2 + 1) with
  | some prev => m.setC 1 (p.2 + 2) (prev + p.1)
  | none => none

theorem prepareC_eq' (m : Mat) (c1 c2 : List Nat) :
    m.prepareC c1 c2 = match m.growC (max (c1.length + 2) (c2.length + 2)) with
      | none => none
      | some m =>
        match foldlO prepStepC1 m c1.zipIdx with
        | none => none
        | some m => foldlO prepStepC2 m c2.zipIdx := rfl

/-- `prepare` never leaves the matrix, for every matrix and every pair of cost vectors -/
theorem prepareC_spec (m : Mat) (c1 c2 : List Nat) :
    m.prepareC c1 c2 = some (m.prepare c1 c2) ∧
    max (c1.length + 2) (c2.length + 2) ≤ (m.prepare c1 c2).size ∧ m.size ≤ (m.prepare c1 c2).size := by
  rw [prepareC_eq', prepare_eq]
  obtain ⟨eg, hneed, hmono⟩ := growC_spec m (max (c1.length + 2) (c2.length + 2))
  rw [eg]; simp only []
  generalize m.grow (max (c1.length + 2) (c2.length + 2)) = m0 at hneed hmono
  obtain ⟨e1, hs1⟩ := foldlO_zipIdx_inv prepStepC1 prepStep1 (fun _ m1 => m1.size = m0.size) c1 m0 rfl
    (fun k hk m1 hs => ⟨by
      unfold prepStepC1
      rw [getC_some m1 m0.size hs _ _ (by simp only []; omega) (by omega)]
      simp only []
      rw [setC_some m1 m0.size hs _ _ _ (by omega) (by omega)]
      rfl, hs⟩)
  rw [e1]; simp only []
  generalize c1.zipIdx.foldl prepStep1 m0 = m1 at hs1
  obtain ⟨e2, hs2⟩ := foldlO_zipIdx_inv prepStepC2 prepStep2 (fun _ m2 => m2.size = m0.size) c2 m1 hs1
    (fun k hk m2 hs => ⟨by
      unfold prepStepC2
      rw [getC_some m2 m0.size hs _ _ (by omega) (by simp only []; omega)]
      simp only []
      rw [setC_some m2 m0.size hs _ _ _ (by omega) (by omega)]
      rfl, hs⟩)
  exact ⟨e2, by omega, by omega⟩

/-! ### the main loops -/

theorem ch_get (w : CWord) (i : Nat) (h : i < w.len) : w.ch[i]? = some (w.c i) := by
  unfold CWord.len at h
  simp [CWord.c, List.getD, h]

theorem cost_get (w : CWord) (hw : Aligned w) (i : Nat) (h : i < w.len) : w.cost[i]? = some (w.k i) := by
  unfold CWord.len at h; unfold Aligned at hw
  have : i < w.cost.length := by omega
  simp [CWord.k, List.getD, this]

theorem dlInner_size (K : Consts) (a b : CWord) (i1 : Nat) (last : List (Nat × Nat)) (st : Mat × Nat) (i2 : Nat) :
    (dlInner K a b i1 last st i2).1.size = st.1.size := by
  obtain ⟨m, l2⟩ := st; rw [dlInner_eq]; rfl

theorem dlInner_l2 (K : Consts) (a b : CWord) (i1 : Nat) (last : List (Nat × Nat)) (st : Mat × Nat) (i2 : Nat)
    (h : st.2 ≤ i2) : (dlInner K a b i1 last st i2).2 ≤ i2 + 1 := by
  obtain ⟨m, l2⟩ := st; rw [dlInner_eq]
  show (if a.c i1 == b.c i2 then i2 + 1 else l2) ≤ i2 + 1
  simp only [] at h
  split <;> omega

/-- one inner-loop step: all eight character/cost reads, four matrix reads and the write are in range -/
theorem dlInnerC_some (K : Consts) (a b : CWord) (ha : Aligned a) (hb : Aligned b)
    (S i1 i2 : Nat) (hS : max a.len b.len + 2 ≤ S) (hi : i1 < a.len) (hj : i2 < b.len)
    (last : List (Nat × Nat)) (hlast : ∀ c, lastGet last c ≤ i1)
    (st : Mat × Nat) (hsz : st.1.size = S) (hl2 : st.2 ≤ i2) :
    dlInnerC K a b i1 last st i2 = some (dlInner K a b i1 last st i2) := by
  obtain ⟨m, l2⟩ := st
  simp only [] at hsz hl2
  have hl1 := hlast (b.c i2)
  have e1 := ch_get a i1 hi
  have e2 := ch_get b i2 hj
  have e3 := cost_get a ha i1 hi
  have e4 := cost_get b hb i2 hj
  have g1 := getC_some m S hsz (i1 + 2) (i2 + 1) (by omega) (by omega)
  have g2 := getC_some m S hsz (i1 + 1) (i2 + 2) (by omega) (by omega)
  have g3 := getC_some m S hsz (i1 + 1) (i2 + 1) (by omega) (by omega)
  have g4 := getC_some m S hsz (lastGet last (b.c i2)) l2 (by omega) (by omega)
  have p1 : (if i1 > 0 then a.ch[i1 - 1]? else some 0) = some (if i1 > 0 then a.c (i1 - 1) else 0) := by
    split
    · exact ch_get a (i1 - 1) (by omega)
    · rfl
  have p2 : (if i2 > 0 then b.ch[i2 - 1]? else some 0) = some (if i2 > 0 then b.c (i2 - 1) else 0) := by
    split
    · exact ch_get b (i2 - 1) (by omega)
    · rfl
  have d1 : (decide (i1 > 0) && (a.c i1 == if i1 > 0 then a.c (i1 - 1) else 0)) =
      (decide (i1 > 0) && (a.c i1 == a.c (i1 - 1))) := by
    by_cases h : i1 > 0 <;> simp [h]
  have d2 : (decide (i2 > 0) && (b.c i2 == if i2 > 0 then b.c (i2 - 1) else 0)) =
      (decide (i2 > 0) && (b.c i2 == b.c (i2 - 1))) := by
    by_cases h : i2 > 0 <;> simp [h]
  unfold dlInnerC
  simp only [e1, e2, e3, e4, p1, p2, g1, g2, g3, g4, d1, d2]
  rw [setC_some m S hsz _ _ _ (by omega) (by omega)]
  rfl

theorem dlOuterC_some (K : Consts) (a b : CWord) (ha : Aligned a) (hb : Aligned b)
    (S i1 : Nat) (hS : max a.len b.len + 2 ≤ S) (hi : i1 < a.len)
    (st : Mat × List (Nat × Nat)) (hsz : st.1.size = S) (hlast : ∀ c, lastGet st.2 c ≤ i1) :
    dlOuterC K a b st i1 = some (dlOuter K a b st i1) ∧ (dlOuter K a b st i1).1.size = S ∧
      ∀ c, lastGet (dlOuter K a b st i1).2 c ≤ i1 + 1 := by
  obtain ⟨e, hs, _⟩ := foldlO_range_inv (dlInnerC K a b i1 st.2) (dlInner K a b i1 st.2)
    (fun j s => s.1.size = S ∧ s.2 ≤ j) b.len (st.1, 0) ⟨hsz, Nat.le_refl 0⟩
    (fun j hj s hs => ⟨dlInnerC_some K a b ha hb S i1 j hS hi hj st.2 hlast s hs.1 hs.2,
      by rw [dlInner_size]; exact hs.1, dlInner_l2 K a b i1 st.2 s j hs.2⟩)
  unfold dlOuterC dlOuter
  rw [e]
  refine ⟨rfl, hs, ?_⟩
  intro c
  show lastGet ((a.c i1, i1 + 1) :: st.2) c ≤ i1 + 1
  rw [lastGet_cons]
  have := hlast c
  split <;> omega

/-- C19 (distance matrix and cost vectors): no checked access of a `distance` call ever fails, and the
    checked run equals the unchecked one — for every matrix state (nothing is assumed about `m`) and all
    words that carry one cost per character. -/
theorem distanceC_eq (K : Consts) (m : Mat) (a b : CWord) (ha : Aligned a) (hb : Aligned b) :
    distanceC K m a b = some (distanceM K m a b) := by
  obtain ⟨ep, hneed, _⟩ := prepareC_spec m a.cost b.cost
  have hS : max a.len b.len + 2 ≤ (m.prepare a.cost b.cost).size := by
    unfold Aligned at ha hb; unfold CWord.len; omega
  obtain ⟨eo, hs, _⟩ := foldlO_range_inv (dlOuterC K a b) (dlOuter K a b)
    (fun i st => st.1.size = (m.prepare a.cost b.cost).size ∧ ∀ c, lastGet st.2 c ≤ i) a.len
    (m.prepare a.cost b.cost, []) ⟨rfl, by intro c; simp [lastGet]⟩
    (fun i hi st hst => by
      obtain ⟨e, h1, h2⟩ := dlOuterC_some K a b ha hb _ i hS hi st hst.1 hst.2
      exact ⟨e, h1, h2⟩)
  unfold distanceC distanceM
  rw [ep]; simp only []
  rw [eo]; simp only []
  rw [getC_some _ _ hs _ _ (by omega) (by omega)]

/-! ### any sequence of calls -/

/-- checked counterpart of `runCalls` -/
def runCallsC (K : Consts) : Mat → List (CWord × CWord) → Option (List Nat × Mat)
  | m, [] => some ([], m)
  | m, (a, b) :: rest =>
    match distanceC K m a b with
    | none => none
    | some r =>
      match runCallsC K r.2 rest with
      | none => none
      | some rs => some (r.1 :: rs.1, rs.2)

theorem runCallsC_eq (K : Consts) (calls : List (CWord × CWord))
    (hc : ∀ p ∈ calls, Aligned p.1 ∧ Aligned p.2) :
    ∀ m, runCallsC K m calls = some (runCalls K m calls) := by
  induction calls with
  | nil => intro m; rfl
  | cons p rest ih =>
    intro m
    obtain ⟨a, b⟩ := p
    obtain ⟨ha, hb⟩ := hc (a, b) (by simp)
    have := ih (fun q hq => hc q (by simp [hq])) (distanceM K m a b).2
    simp only [runCallsC, distanceC_eq K m a b ha hb, this]
    rfl

/-- with the shape invariant, a row and a column below the dimension address a slot inside the flat buffer -/
theorem flat_in_buffer (m : Mat) (h : MInv m) (i j : Nat) (hi : i < m.size) (hj : j < m.size) :
    i * m.size + j < m.raw.size := by
  rw [h.wf]; exact flat_lt m.size i j hi hj

end DL
end Lucid
