/-
  LucidProofs.Lemmas.JoinGates — `word_match` (`matching/word_match.rs`, model `Lucid.wordMatch`) on a pair of words
  one of which is the other with ONE extra character of the cheap class `notAlpha` (a separator) inserted:
  * `DL.D_ins`              — the distance between the two words is exactly the cost of that character (0.5);
  * `lengthCheck_off_by_one`, `jaccardCheck_ins_*` — the length and Jaccard gates let the pair through;
  * `AccSlice`, `wmInner_acc_some`, `wmOuter_inv_acc`, `wmInner_keep`, `wmInner_only` — which pair of slices the two
    loops of `word_match` return (strengthening of `wordMatch_inv`: the guards the winner passed are recorded, an
    earlier best with no more typos is kept);
  * `wordMatchM_split`      — title word `xy` against the joined query words `x␣y`: a match whose query part
    reaches into the second query word;
  * `wordMatchM_joined`     — joined title words `x␣y` against the query word `xy` (stem = whole word): the match
    is exactly `new_pair(rslice = |xy|+1, qslice = |xy|, typos = 0.5)`.
-/
import LucidProofs.Lemmas.Gates
import LucidProofs.Lemmas.Highlight

namespace Lucid
namespace DL

/-! ### three upper bounds read off the recursion -/

theorem D_succ_succ_le_add (K : Consts) (a b : CWord) (i j : Nat) :
    D K a b (i+1) (j+1) ≤ indel K b j + D K a b (i+1) j := by
  rw [D_succ_succ]; split
  · omega
  · unfold cellVal min4; omega

theorem D_succ_succ_le_del (K : Consts) (a b : CWord) (i j : Nat) :
    D K a b (i+1) (j+1) ≤ indel K a i + D K a b i (j+1) := by
  rw [D_succ_succ]; split
  · omega
  · unfold cellVal min4; omega

theorem D_succ_succ_le_sub (K : Consts) (a b : CWord) (i j : Nat) :
    D K a b (i+1) (j+1) ≤ sub a b i j + D K a b i j := by
  rw [D_succ_succ]; split
  · omega
  · unfold cellVal min4; omega

/-- a non-zero distance is at least 0.5 -/
theorem D_ge5_of_ne (K : Consts) (hK : KOK K) (a b : CWord) (ha : Aligned a) (hb : Aligned b)
    (hpa : CostPos a) (hpb : CostPos b) (h5a : CostMul5 a) (h5b : CostMul5 b) (i j : Nat)
    (hi : i ≤ a.len) (hj : j ≤ b.len) (hne : ¬ (i = j ∧ ∀ k, k < i → a.c k = b.c k)) : 5 ≤ D K a b i j := by
  have h0 := D_eq_zero_iff K hK a b ha hb hpa hpb i j hi hj
  have h5 := D_mod5 K hK a b h5a h5b i j
  have : D K a b i j ≠ 0 := fun e => hne (h0.mp e)
  omega

/-- `b` is `a` with one extra character inserted at position `m` -/
structure Ins (a b : CWord) (m : Nat) : Prop where
  m_le : m ≤ a.len
  len  : b.len = a.len + 1
  lo   : ∀ k, k < m → a.c k = b.c k
  hi   : ∀ k, m ≤ k → k < a.len → a.c k = b.c (k+1)

theorem D_ins_le (K : Consts) (hK : KOK K) (a b : CWord) (ha : Aligned a) (hb : Aligned b)
    (hpa : CostPos a) (hpb : CostPos b) (m : Nat) (h : Ins a b m) :
    ∀ k, m ≤ k → k ≤ a.len → D K a b k (k+1) ≤ b.k m := by
  intro k
  induction k with
  | zero =>
    intro hm _
    have : m = 0 := by omega
    subst this
    rw [D_zero_succ, D_zero_zero]; omega
  | succ k ih =>
    intro hm hk
    by_cases e : m = k + 1
    · have h0 : D K a b (k+1) (k+1) = 0 :=
        (D_eq_zero_iff K hK a b ha hb hpa hpb (k+1) (k+1) hk (by have := h.len; omega)).mpr
          ⟨rfl, fun j hj => h.lo j (by omega)⟩
      have h1 := D_succ_succ_le_add K a b k (k+1)
      have h2 : indel K b (k+1) ≤ b.k (k+1) := by unfold indel; omega
      rw [e]; omega
    · have h1 := D_succ_succ_le_sub K a b k (k+1)
      have h2 : sub a b k (k+1) = 0 := by
        unfold sub; rw [h.hi k (by omega) (by omega)]; simp
      have := ih (by omega) (by omega)
      omega

/-- the distance between a word and the same word with one character of cost 0.5 inserted is 0.5 -/
theorem D_ins (K : Consts) (hK : KOK K) (a b : CWord) (ha : Aligned a) (hb : Aligned b)
    (hpa : CostPos a) (hpb : CostPos b) (h5a : CostMul5 a) (h5b : CostMul5 b)
    (m : Nat) (h : Ins a b m) (hc : b.k m = 5) : D K a b a.len (a.len + 1) = 5 := by
  have h1 := D_ins_le K hK a b ha hb hpa hpb m h a.len h.m_le (Nat.le_refl _)
  have h2 := D_ge5_of_ne K hK a b ha hb hpa hpb h5a h5b a.len (a.len + 1) (Nat.le_refl _)
    (by have := h.len; omega) (by omega)
  omega

/-- list form of `Ins` -/
theorem ins_of_lists (a b : CWord) (x y : List Nat) (s : Nat) (hA : a.ch = x ++ y) (hB : b.ch = x ++ s :: y) :
    Ins a b x.length where
  m_le := by simp [CWord.len, hA]
  len := by simp [CWord.len, hA, hB]; omega
  lo := by
    intro k hk
    simp only [CWord.c, hA, hB, List.getD_eq_getElem?_getD, List.getElem?_append_left hk]
  hi := by
    intro k hk _
    simp only [CWord.c, hA, hB, List.getD_eq_getElem?_getD]
    rw [List.getElem?_append_right hk, List.getElem?_append_right (by omega)]
    have : k + 1 - x.length = (k - x.length) + 1 := by omega
    rw [this, List.getElem?_cons_succ]

/-- the inserted character differs from the one that takes its place -/
theorem ins_differs (a b : CWord) (x y : List Nat) (s : Nat) (hA : a.ch = x ++ y) (hB : b.ch = x ++ s :: y)
    (hs : s ∉ a.ch) (hy : y ≠ []) : a.c x.length ≠ b.c x.length := by
  cases y with
  | nil => exact absurd rfl hy
  | cons c t =>
    simp only [CWord.c, hA, hB, List.getD_eq_getElem?_getD]
    rw [List.getElem?_append_right (Nat.le_refl _), List.getElem?_append_right (Nat.le_refl _)]
    simp only [Nat.sub_self, List.getElem?_cons_zero, Option.getD_some]
    intro e
    apply hs
    rw [hA, ← e]
    simp

end DL

open DL

/-! ### slices of a joined word -/

theorem slice_one {α : Type} (l : List α) (i : Nat) (x : α) (hx : l[i]? = some x) : slice l i (i+1) = [x] := by
  have : i + 1 - i = 1 := by omega
  simp only [slice, this, List.take_one, List.head?_drop, hx, Option.toList_some]

theorem slice_join {α : Type} (l : List α) (lo mid hi : Nat) (h1 : lo ≤ mid) (h2 : mid + 1 ≤ hi) (x : α)
    (hx : l[mid]? = some x) : slice l lo hi = slice l lo mid ++ x :: slice l (mid+1) hi := by
  rw [← slice_append_slice l h1 (by omega : mid ≤ hi), ← slice_append_slice l (by omega : mid ≤ mid + 1) h2,
    slice_one l mid x hx]
  rfl

/-- the thresholds and the cost the split/joined spellings rely on: the gates of `GateNumsOK`; one character more
    or less is tolerated from length 4 on; half a typo is tolerated from length 3 on; a `notAlpha` character
    costs half a typo -/
def JoinNumsOK (K : Consts) : Bool :=
  GateNumsOK K && decide (K.lenDen * 1 < K.lenNum * 4) && decide (K.damDen * 5 ≤ K.damNum * 10 * 3) &&
  decide (K.costNotAlpha = 5)

theorem joinNumsOK_src : JoinNumsOK Gen.srcConsts = true := by decide

theorem joinNumsOK_spec {K : Consts} (h : JoinNumsOK K = true) :
    GateNumsOK K = true ∧ K.lenDen * 1 < K.lenNum * 4 ∧ K.damDen * 5 ≤ K.damNum * 10 * 3 ∧ K.costNotAlpha = 5 := by
  simp only [JoinNumsOK, Bool.and_eq_true, decide_eq_true_eq] at h
  exact ⟨h.1.1.1, h.1.1.2, h.1.2, h.2⟩

/-! ### the length gate: lengths ≥ 3 differing by at most one -/

theorem lengthCheck_off_by_one (K : Consts) (hJ : JoinNumsOK K = true) (r q : WordShape)
    (hq : 3 ≤ q.len) (hr : 3 ≤ r.len) (hn1 : q.len ≤ r.len + 1) (hn2 : r.len ≤ q.len + 1) :
    lengthCheck K r q = true := by
  obtain ⟨_, hL, _, _⟩ := joinNumsOK_spec hJ
  unfold lengthCheck
  simp only []
  generalize hrl : (if q.fin = true then r.len else min q.len r.len) = rlen
  have h3 : 3 ≤ rlen := by rw [← hrl]; split <;> omega
  have h4 : q.len ≤ rlen + 1 ∧ rlen ≤ q.len + 1 := by rw [← hrl]; split <;> omega
  have hg : (decide (q.len ≤ 1) || decide (rlen ≤ 1)) = false := by
    simp only [Bool.or_eq_false_iff, decide_eq_false_iff_not]; omega
  rw [hg]
  simp only [Bool.false_eq_true, if_false, decide_eq_true_eq]
  by_cases e : max q.len rlen - min q.len rlen = 0
  · rw [e, Nat.mul_zero]
    exact Nat.mul_pos (by omega) (by omega)
  · have e1 : max q.len rlen - min q.len rlen = 1 := by omega
    rw [e1]
    have : K.lenNum * 4 ≤ K.lenNum * max q.len rlen := Nat.mul_le_mul_left _ (by omega)
    omega

/-! ### the Jaccard gate: one extra character -/

theorem jaccardSlice_whole (rt : Text) (r q : WordShape) (hlen : (wchars rt r).length = r.len)
    (h : r.len ≤ q.len + 1) : jaccardSlice rt r q = wchars rt r := by
  unfold jaccardSlice
  split
  · rfl
  · apply List.take_of_length_le; omega

/-- the Jaccard arithmetic for two character lists one of which is the other with one element inserted -/
theorem jaccard_ins_arith (K : Consts) (hN : GateNumsOK K = true) (x y : List Nat) (s : Nat) (hne : x ++ y ≠ []) :
    K.jacDen * ((jaccard (x ++ s :: y) (x ++ y)).2 - (jaccard (x ++ s :: y) (x ++ y)).1) <
      K.jacNum * (jaccard (x ++ s :: y) (x ++ y)).2 := by
  have hB : x ++ s :: y ≠ [] := by simp
  have hsub : ∀ c, c ∈ x ++ y → c ∈ x ++ s :: y := by
    intro c hc
    simp only [List.mem_append, List.mem_cons] at hc ⊢
    rcases hc with h | h
    · exact Or.inl h
    · exact Or.inr (Or.inr h)
  have hj := jaccard_of_subset _ _ hne hB hsub
  rw [hj]
  simp only []
  apply jaccard_arith K hN _ _ (distinctCard_pos hne)
  · rw [C17_value.1 _ _ hB hne] at hj
    have hi := (Prod.mk.inj hj).1
    have hu := (Prod.mk.inj hj).2
    have := interCard_le_unionCard (x ++ s :: y) (x ++ y)
    omega
  · have e : distinctCard (x ++ s :: y) = distinctCard ((x ++ y) ++ [s]) := by
      unfold distinctCard
      rw [natSet_congr (l := x ++ s :: y) (l' := (x ++ y) ++ [s])]
      intro c
      simp only [List.mem_append, List.mem_cons, List.not_mem_nil, or_false]
      constructor
      · rintro (h | h | h)
        · exact Or.inl (Or.inl h)
        · exact Or.inr h
        · exact Or.inl (Or.inr h)
      · rintro ((h | h) | h)
        · exact Or.inl h
        · exact Or.inr (Or.inr h)
        · exact Or.inr (Or.inl h)
    have := distinctCard_append_le (x ++ y) [s]
    rw [e]
    simpa using this

/-- record word = query word with one character inserted -/
theorem jaccardCheck_ins_record (K : Consts) (hN : GateNumsOK K = true) (rt : Text) (r : WordShape) (qt : Text)
    (q : WordShape) (x y : List Nat) (s : Nat) (hr : wchars rt r = x ++ s :: y) (hq : wchars qt q = x ++ y)
    (hne : x ++ y ≠ []) (hlen : (wchars rt r).length = r.len) (hle : r.len ≤ q.len + 1) :
    jaccardCheck K rt r qt q = true := by
  unfold jaccardCheck
  rw [jaccardSlice_whole rt r q hlen hle, hr, hq]
  simp only [decide_eq_true_eq]
  exact jaccard_ins_arith K hN x y s hne

/-- query word = record word with one character inserted -/
theorem jaccardCheck_ins_query (K : Consts) (hN : GateNumsOK K = true) (rt : Text) (r : WordShape) (qt : Text)
    (q : WordShape) (x y : List Nat) (s : Nat) (hr : wchars rt r = x ++ y) (hq : wchars qt q = x ++ s :: y)
    (hne : x ++ y ≠ []) (hlen : (wchars rt r).length = r.len) (hle : r.len ≤ q.len + 1) :
    jaccardCheck K rt r qt q = true := by
  unfold jaccardCheck
  rw [jaccardSlice_whole rt r q hlen hle, hr, hq, C17_symm]
  simp only [decide_eq_true_eq]
  exact jaccard_ins_arith K hN x y s hne

/-! ### which pair of slices the two loops return -/

/-- the pair `(qs, rs)` passes every `continue` guard of the inner loop and the relative-distance threshold -/
structure AccSlice (c : WMCtx) (qs rs : Nat) : Prop where
  q_le : qs ≤ c.q.len
  r_le : rs ≤ c.r.len
  stem : c.q.stem ≤ qs
  left : ¬ (rs = c.left ∧ qs = c.left)
  near : ¬ ((if qs ≥ rs then qs - rs else rs - qs) > 1)
  rel  : relTooBig c.K (c.cell qs rs) qs rs = false

/-- the `break` guard does not fire for this record slice -/
def NoBrk (c : WMCtx) (rs : Nat) : Prop := ¬ (c.q.fin = true ∧ rs < c.r.stem)

/-- the inner loop for `rs` returns a `some` if its range contains a `qs` with `AccSlice c qs rs` and the `break`
    guard does not fire -/
theorem wmInner_acc_some (c : WMCtx) (qs rs : Nat) (hz : AccSlice c qs rs) (hnb : NoBrk c rs) :
    ∀ (l : List Nat) (best : Option (WMatch × WMatch)), qs ∈ l → wmInner c rs l best ≠ none := by
  intro l
  induction l with
  | nil => intro best h; simp at h
  | cons x rest ih =>
    intro best hmem
    by_cases hx : x = qs
    · subst hx
      unfold wmInner
      have h1 : ¬ x > c.q.len := by have := hz.q_le; omega
      have h2 : ¬ rs > c.r.len := by have := hz.r_le; omega
      have h3 : ¬ x < c.q.stem := by have := hz.stem; omega
      have hnb' : ¬ (c.q.fin = true ∧ rs < c.r.stem) := hnb
      simp only [h1, h2, h3, hz.left, hnb', hz.near, if_false, hz.rel, Bool.false_eq_true]
      cases best <;> simp only <;> (try split) <;> (try split) <;>
        first | exact wmInner_some_mono _ _ _ _ (by simp) | simp
    · have hmem' : qs ∈ rest := by
        rcases List.mem_cons.mp hmem with h | h
        · exact absurd h.symm hx
        · exact h
      have hnb' : ¬ (c.q.fin = true ∧ rs < c.r.stem) := hnb
      have hrest : ∀ b, wmInner c rs rest b ≠ none := fun b => ih b hmem'
      unfold wmInner
      grind

theorem wmOuter_acc_some (c : WMCtx) (qs rs : Nat) (hz : AccSlice c qs rs) (hnb : NoBrk c rs) (range : List Nat)
    (hq : qs ∈ range) :
    ∀ (l : List Nat) (best : Option (WMatch × WMatch)), rs ∈ l → wmOuter c range l best ≠ none := by
  intro l
  induction l with
  | nil => intro best h; simp at h
  | cons x rest ih =>
    intro best hmem
    unfold wmOuter
    by_cases hx : x = rs
    · subst hx
      exact wmOuter_some_mono c range rest _ (wmInner_acc_some c qs x hz hnb range best hq)
    · rcases List.mem_cons.mp hmem with h | h
      · exact absurd h.symm hx
      · exact ih _ h

/-- strengthened `wmInner_inv`: a property of all `new_pair`s of ACCEPTED slice pairs (with the cell as typos)
    holds of every result -/
theorem wmInner_inv_acc (c : WMCtx) (P : WMatch × WMatch → Prop)
    (hnew : ∀ rs qs, AccSlice c qs rs → P (newPair c.K c.r c.q rs qs (c.cell qs rs))) (rslice : Nat)
    (l : List Nat) (best : Option (WMatch × WMatch)) (hb : ∀ p, best = some p → P p) :
    ∀ p, wmInner c rslice l best = some p → P p := by
  induction l generalizing best with
  | nil => intro p hp; exact hb p (by simpa [wmInner] using hp)
  | cons x rest ih =>
    intro p hp
    unfold wmInner at hp
    by_cases g1 : x > c.q.len
    · rw [if_pos g1] at hp; exact ih best hb p hp
    rw [if_neg g1] at hp
    by_cases g2 : rslice > c.r.len
    · rw [if_pos g2] at hp; exact ih best hb p hp
    rw [if_neg g2] at hp
    by_cases g3 : x < c.q.stem
    · rw [if_pos g3] at hp; exact ih best hb p hp
    rw [if_neg g3] at hp
    by_cases g4 : rslice = c.left ∧ x = c.left
    · rw [if_pos g4] at hp; exact ih best hb p hp
    rw [if_neg g4] at hp
    by_cases g5 : c.q.fin = true ∧ rslice < c.r.stem
    · rw [if_pos g5] at hp; exact hb p hp
    rw [if_neg g5] at hp
    by_cases g6 : (if x ≥ rslice then x - rslice else rslice - x) > 1
    · rw [if_pos g6] at hp; exact ih best hb p hp
    rw [if_neg g6] at hp
    simp only [] at hp
    by_cases g7 : relTooBig c.K (c.cell x rslice) x rslice = true
    · rw [if_pos g7] at hp; exact ih best hb p hp
    rw [if_neg g7] at hp
    have hP := hnew rslice x ⟨by omega, by omega, by omega, g4, g6, by simpa using g7⟩
    have hb' : ∀ p', (match best with
          | some p => if p.1.typos ≤ c.cell x rslice then some p else some (newPair c.K c.r c.q rslice x (c.cell x rslice))
          | none => some (newPair c.K c.r c.q rslice x (c.cell x rslice))) = some p' → P p' := by
      intro p' hp'
      cases best with
      | none => simp only [Option.some.injEq] at hp'; rw [← hp']; exact hP
      | some b =>
        simp only at hp'
        split at hp'
        · exact hb p' hp'
        · simp only [Option.some.injEq] at hp'; rw [← hp']; exact hP
    by_cases g8 : c.cell x rslice = 0
    · rw [if_pos g8] at hp; exact hb' p hp
    · rw [if_neg g8] at hp; exact ih _ hb' p hp

theorem wmOuter_inv_acc (c : WMCtx) (P : WMatch × WMatch → Prop)
    (hnew : ∀ rs qs, AccSlice c qs rs → P (newPair c.K c.r c.q rs qs (c.cell qs rs))) (range : List Nat) :
    ∀ (l : List Nat) (best : Option (WMatch × WMatch)), (∀ p, best = some p → P p) →
      ∀ p, wmOuter c range l best = some p → P p := by
  intro l
  induction l with
  | nil => intro best hb p hp; exact hb p (by simpa [wmOuter] using hp)
  | cons rs rest ih =>
    intro best hb p hp
    unfold wmOuter at hp
    exact ih _ (wmInner_inv_acc c P hnew rs range best hb) p hp

/-- `best` after an accepted pair -/
def updBest (best : Option (WMatch × WMatch)) (np : WMatch × WMatch) : Option (WMatch × WMatch) :=
  match best with
  | some p => if p.1.typos ≤ np.1.typos then some p else some np
  | none => some np

theorem newPair_typos (K : Consts) (r q : WordShape) (rs qs d : Nat) : (newPair K r q rs qs d).1.typos = d := rfl

/-- one step of the inner loop on a pair that is not accepted: `continue`, or `break` if the `break` guard fires -/
theorem wmInner_step_skip (c : WMCtx) (rs x : Nat) (rest : List Nat) (best : Option (WMatch × WMatch))
    (h : ¬ AccSlice c x rs) :
    wmInner c rs (x :: rest) best = wmInner c rs rest best ∨
    (¬ NoBrk c rs ∧ wmInner c rs (x :: rest) best = best) := by
  conv => enter [1, 1]; unfold wmInner
  conv => enter [2, 2, 1]; unfold wmInner
  by_cases g1 : x > c.q.len
  · simp only [if_pos g1, true_or]
  by_cases g2 : rs > c.r.len
  · simp only [if_neg g1, if_pos g2, true_or]
  by_cases g3 : x < c.q.stem
  · simp only [if_neg g1, if_neg g2, if_pos g3, true_or]
  by_cases g4 : rs = c.left ∧ x = c.left
  · simp only [if_neg g1, if_neg g2, if_neg g3, if_pos g4, true_or]
  by_cases g5 : c.q.fin = true ∧ rs < c.r.stem
  · right
    simp only [if_neg g1, if_neg g2, if_neg g3, if_neg g4, if_pos g5]
    exact ⟨fun hn => hn g5, trivial⟩
  by_cases g6 : (if x ≥ rs then x - rs else rs - x) > 1
  · simp only [if_neg g1, if_neg g2, if_neg g3, if_neg g4, if_neg g5, if_pos g6, true_or]
  by_cases g7 : relTooBig c.K (c.cell x rs) x rs = true
  · simp only [if_neg g1, if_neg g2, if_neg g3, if_neg g4, if_neg g5, if_neg g6, if_pos g7, true_or]
  exact absurd ⟨by omega, by omega, by omega, g4, g6, by simpa using g7⟩ h

/-- one step of the inner loop on an accepted pair -/
theorem wmInner_step_acc (c : WMCtx) (rs x : Nat) (rest : List Nat) (best : Option (WMatch × WMatch))
    (h : AccSlice c x rs) :
    wmInner c rs (x :: rest) best =
      if c.q.fin = true ∧ rs < c.r.stem then best
      else if c.cell x rs = 0 then updBest best (newPair c.K c.r c.q rs x (c.cell x rs))
      else wmInner c rs rest (updBest best (newPair c.K c.r c.q rs x (c.cell x rs))) := by
  conv => lhs; unfold wmInner
  have g1 : ¬ x > c.q.len := by have := h.q_le; omega
  have g2 : ¬ rs > c.r.len := by have := h.r_le; omega
  have g3 : ¬ x < c.q.stem := by have := h.stem; omega
  have g7 : ¬ relTooBig c.K (c.cell x rs) x rs = true := by rw [h.rel]; simp
  simp only [if_neg g1, if_neg g2, if_neg g3, if_neg h.left, if_neg h.near, if_neg g7]
  rfl

theorem updBest_keep (p np : WMatch × WMatch) (h : p.1.typos ≤ np.1.typos) : updBest (some p) np = some p := by
  simp [updBest, h]

/-- a best pair is kept by the inner loop if no accepted pair of the remaining range has fewer typos -/
theorem wmInner_keep (c : WMCtx) (rs : Nat) (p : WMatch × WMatch) :
    ∀ (l : List Nat), (∀ qs ∈ l, AccSlice c qs rs → p.1.typos ≤ c.cell qs rs) → wmInner c rs l (some p) = some p := by
  intro l
  induction l with
  | nil => intro _; simp [wmInner]
  | cons x rest ih =>
    intro h
    have ih' := ih (fun qs hqs => h qs (List.mem_cons_of_mem _ hqs))
    by_cases ha : AccSlice c x rs
    · rw [wmInner_step_acc c rs x rest _ ha,
        updBest_keep p _ (by rw [newPair_typos]; exact h x (List.mem_cons_self) ha)]
      split
      · rfl
      · split
        · rfl
        · exact ih'
    · rcases wmInner_step_skip c rs x rest (some p) ha with e | ⟨_, e⟩
      · rw [e]; exact ih'
      · exact e

theorem wmOuter_keep (c : WMCtx) (range : List Nat) (p : WMatch × WMatch) :
    ∀ (l : List Nat), (∀ rs ∈ l, ∀ qs ∈ range, AccSlice c qs rs → p.1.typos ≤ c.cell qs rs) →
      wmOuter c range l (some p) = some p := by
  intro l
  induction l with
  | nil => intro _; simp [wmOuter]
  | cons rs rest ih =>
    intro h
    unfold wmOuter
    rw [wmInner_keep c rs p range (fun qs hqs => h rs (List.mem_cons_self) qs hqs)]
    exact ih (fun rs' hrs' => h rs' (List.mem_cons_of_mem _ hrs'))

/-- if exactly one `qs` of the range is accepted for `rs` (and the `break` guard does not fire), the inner loop
    started without a best pair returns that pair -/
theorem wmInner_only (c : WMCtx) (rs qs : Nat) (ha : AccSlice c qs rs) (hnb : NoBrk c rs) :
    ∀ (l : List Nat), (∀ x ∈ l, x ≠ qs → ¬ AccSlice c x rs) → qs ∈ l →
      wmInner c rs l none = some (newPair c.K c.r c.q rs qs (c.cell qs rs)) := by
  intro l
  induction l with
  | nil => intro _ h; simp at h
  | cons x rest ih =>
    intro h hmem
    have hkeep : wmInner c rs rest (some (newPair c.K c.r c.q rs qs (c.cell qs rs))) =
        some (newPair c.K c.r c.q rs qs (c.cell qs rs)) := by
      apply wmInner_keep
      intro y hy hay
      by_cases e : y = qs
      · rw [e, newPair_typos]; exact Nat.le_refl _
      · exact absurd hay (h y (List.mem_cons_of_mem _ hy) e)
    by_cases e : x = qs
    · subst e
      rw [wmInner_step_acc c rs x rest _ ha, if_neg hnb]
      simp only [updBest]
      split
      · rfl
      · exact hkeep
    · rcases wmInner_step_skip c rs x rest none (h x (List.mem_cons_self) e) with e' | ⟨hb, _⟩
      · rw [e']
        apply ih (fun y hy => h y (List.mem_cons_of_mem _ hy))
        rcases List.mem_cons.mp hmem with h' | h'
        · exact absurd h'.symm e
        · exact h'
      · exact absurd hnb hb

/-! ### `word_match` as the two loops -/

/-- the context of the two loops of `word_match(r, q)` on the matrix `m'` -/
def wmCtx (K : Consts) (m' : Mat) (r q : WordShape) : WMCtx :=
  { K := K, r := r, q := q, left := wmLeftRaw r q - 1, cell := fun qs rs => m'.get (qs + 1) (rs + 1) }

/-- when the gates pass, `word_match` is the double loop over the descending range -/
theorem wordMatchM_eq_loops (K : Consts) (m : Mat) (rt : Text) (r : WordShape) (qt : Text) (q : WordShape)
    (hq : 1 ≤ q.len) (hr : 1 ≤ r.len) (hlc : lengthCheck K r q = true) (hjc : jaccardCheck K rt r qt q = true)
    (hrange : wmLeftRaw r q - 1 < max q.len r.len + 1) :
    (wordMatchM K m rt r qt q).1 =
      wmOuter (wmCtx K (distanceM K m (cword K qt q) (cword K rt r)).2 r q)
        (descRange (wmLeftRaw r q - 1) (max q.len r.len + 1))
        (descRange (wmLeftRaw r q - 1) (max q.len r.len + 1)) none := by
  unfold wordMatchM
  have h0 : ¬ (q.len = 0 ∨ r.len = 0) := by omega
  have h1 : ¬ (max q.len r.len + 1 ≤ wmLeftRaw r q - 1) := by omega
  simp only [h0, hlc, hjc, if_false, Bool.not_true, Bool.false_eq_true, h1]
  rfl

/-- the cells read by the loops are the specification's prefix distances -/
theorem wmCtx_cell (K : Consts) (hK : CostsOK K = true) (m : Mat) (hm : MInv m)
    (rt : Text) (r : WordShape) (qt : Text) (q : WordShape) (hr : WordIn rt r) (hq : WordIn qt q)
    (qs rs : Nat) (hqs : qs ≤ q.len) (hrs : rs ≤ r.len) :
    (wmCtx K (distanceM K m (cword K qt q) (cword K rt r)).2 r q).cell qs rs =
      D K (cword K qt q) (cword K rt r) qs rs := by
  have haq := cword_aligned K qt q hq.2.2
  have har := cword_aligned K rt r hr.2.2
  obtain ⟨_, _, hcell, _⟩ := distance_refines K (cword K qt q) (cword K rt r) haq har
    (cword_costLe K hK qt q) (cword_costLe K hK rt r) m hm
  exact hcell qs rs (by rw [cword_len_of_wordIn K hq]; exact hqs) (by rw [cword_len_of_wordIn K hr]; exact hrs)

theorem descRange_succ (left n : Nat) (h : left ≤ n) : descRange left (n + 1) = n :: descRange left n := by
  unfold descRange
  have : n + 1 - left = (n - left) + 1 := by omega
  rw [this, List.range'_concat, List.reverse_append]
  simp only [List.reverse_cons, List.reverse_nil, List.nil_append, List.singleton_append]
  congr 1; omega

/-! ### the inserted separator costs half a typo -/

theorem relTooBig_half (K : Consts) (hJ : JoinNumsOK K = true) (qs rs : Nat) (h : 3 ≤ max qs rs) :
    relTooBig K 5 qs rs = false := by
  obtain ⟨_, _, hD, _⟩ := joinNumsOK_spec hJ
  simp only [relTooBig, decide_eq_false_iff_not, Nat.not_lt]
  have : K.damNum * 10 * 3 ≤ K.damNum * 10 * max (max qs rs) 1 := Nat.mul_le_mul_left _ (by omega)
  omega

/-- the cost the distance function sees at the position of a `notAlpha` character between two joined words -/
theorem cword_join_cost (K : Consts) (hJ : JoinNumsOK K = true) (t : Text) (a b : WordShape)
    (hcl : t.classes.length = t.chars.length) (ha : a.lo < a.hi) (hadj : b.lo = a.hi + 1) (hb : b.lo < b.hi)
    (hbb : b.hi ≤ t.chars.length) (hc : t.classes[a.hi]? = some CharClass.notAlpha) :
    (cword K t (a.join b)).k a.len = 5 := by
  obtain ⟨_, _, _, h5⟩ := joinNumsOK_spec hJ
  have hs : wclasses t (a.join b) = slice t.classes a.lo a.hi ++ CharClass.notAlpha :: slice t.classes (a.hi + 1) b.hi := by
    simp only [wclasses, WordShape.join]
    exact slice_join t.classes a.lo a.hi b.hi (by omega) (by omega) _ hc
  have hl : (slice t.classes a.lo a.hi).length = a.len := by
    unfold WordShape.len; exact length_slice_of_le _ _ _ (by omega)
  simp only [CWord.k, cword, hs, List.map_append, List.map_cons, List.getD_eq_getElem?_getD]
  rw [List.getElem?_append_right (by simp [hl])]
  simp [hl, getCost, h5]

theorem wchars_join (t : Text) (a b : WordShape) (ha : a.lo < a.hi) (hadj : b.lo = a.hi + 1) (hb : b.lo < b.hi)
    (s : Nat) (hs : t.chars[a.hi]? = some s) :
    wchars t (a.join b) = wchars t a ++ s :: wchars t b := by
  simp only [wchars, WordShape.join, hadj]
  exact slice_join t.chars a.lo a.hi b.hi (by omega) (by omega) _ hs

/-! ### joined title words against the run-together query word -/

/-- **run-together spelling, word level.** Title words `w1 w2` separated by ONE character `sep` of class `notAlpha`,
    query word `v` with the characters of `w1` followed by those of `w2`, at least three characters, stem = whole
    word, not containing `sep`. Then `word_match(w1.join(w2), v)` returns exactly the pair
    `(rslice, qslice, typos) = (|v| + 1, |v|, 0.5)`: the whole joined title word, the whole query word. -/
theorem wordMatchM_joined (K : Consts) (hC : CostsOK K = true) (hJ : JoinNumsOK K = true) (m : Mat) (hm : MInv m)
    (rt : Text) (w1 w2 : WordShape) (qt : Text) (v : WordShape)
    (hcl : rt.classes.length = rt.chars.length)
    (hw1 : w1.lo < w1.hi) (hadj : w2.lo = w1.hi + 1) (hw2 : w2.lo < w2.hi) (hw2b : w2.hi ≤ rt.chars.length)
    (hs2 : w2.stem ≤ w2.len)
    (hv : WordIn qt v) (hL : 3 ≤ v.len) (hstem : v.stem = v.len)
    (sep : Nat) (hsep : rt.chars[w1.hi]? = some sep) (hsepc : rt.classes[w1.hi]? = some CharClass.notAlpha)
    (hchars : wchars qt v = wchars rt w1 ++ wchars rt w2) (hnosep : sep ∉ wchars qt v) :
    (wordMatchM K m rt (w1.join w2) qt v).1 = some (newPair K (w1.join w2) v (v.len + 1) v.len 5) := by
  obtain ⟨hN, _, _, _⟩ := joinNumsOK_spec hJ
  have hKOK := KOK_of_CostsOK K hC
  have hrin : WordIn rt (w1.join w2) := ⟨by simp only [WordShape.join]; omega, hw2b, hcl⟩
  have hw1in : WordIn rt w1 := ⟨hw1, by omega, hcl⟩
  have hw2in : WordIn rt w2 := ⟨hw2, hw2b, hcl⟩
  have hr : wchars rt (w1.join w2) = wchars rt w1 ++ sep :: wchars rt w2 := wchars_join rt w1 w2 hw1 hadj hw2 sep hsep
  have hx := wchars_length hw1in
  have hy := wchars_length hw2in
  have hlv : v.len = w1.len + w2.len := by
    rw [← wchars_length hv, hchars, List.length_append, hx, hy]
  have hw1l : w1.len = w1.hi - w1.lo := rfl
  have hw2l : w2.len = w2.hi - w2.lo := rfl
  have hrl : (w1.join w2).len = v.len + 1 := by simp only [WordShape.len, WordShape.join] at *; omega
  have hrs : (w1.join w2).stem ≤ v.len + 1 := by simp only [WordShape.join] at *; omega
  have hne : wchars rt w1 ++ wchars rt w2 ≠ [] := by
    intro e; have := congrArg List.length e; rw [List.length_append, hx, hy] at this; simp at this; omega
  have hy' : wchars rt w2 ≠ [] := by
    intro e; have := congrArg List.length e; rw [hy] at this; simp at this; omega
  have hlc : lengthCheck K (w1.join w2) v = true := lengthCheck_off_by_one K hJ _ _ hL (by omega) (by omega) (by omega)
  have hjc : jaccardCheck K rt (w1.join w2) qt v = true :=
    jaccardCheck_ins_record K hN rt _ qt v _ _ sep hr hchars hne (wchars_length hrin) (by omega)
  have hleft : wmLeftRaw (w1.join w2) v - 1 ≤ v.len ∧ v.len - 1 ≤ wmLeftRaw (w1.join w2) v - 1 := by
    unfold wmLeftRaw; split <;> omega
  have hmax : max v.len (w1.join w2).len + 1 = (v.len + 1) + 1 := by omega
  rw [wordMatchM_eq_loops K m rt _ qt v (by omega) (by omega) hlc hjc (by omega), hmax]
  -- the distance facts
  have haq := cword_aligned K qt v hv.2.2
  have har := cword_aligned K rt (w1.join w2) hcl
  have hins : Ins (cword K qt v) (cword K rt (w1.join w2)) (wchars rt w1).length :=
    ins_of_lists _ _ _ _ sep hchars hr
  have hD5 : D K (cword K qt v) (cword K rt (w1.join w2)) v.len (v.len + 1) = 5 := by
    have := D_ins K hKOK _ _ haq har (cword_costPos K hC qt v) (cword_costPos K hC rt _)
      (cword_costMul5 K hC qt v) (cword_costMul5 K hC rt _) _ hins
      (by rw [hx]; exact cword_join_cost K hJ rt w1 w2 hcl hw1 hadj hw2 hw2b hsepc)
    rwa [cword_len_of_wordIn K hv] at this
  have hDge : ∀ rs, rs ≤ v.len → 5 ≤ D K (cword K qt v) (cword K rt (w1.join w2)) v.len rs := by
    intro rs hrs'
    apply D_ge5_of_ne K hKOK _ _ haq har (cword_costPos K hC qt v) (cword_costPos K hC rt _)
      (cword_costMul5 K hC qt v) (cword_costMul5 K hC rt _)
    · rw [cword_len_of_wordIn K hv]; exact Nat.le_refl _
    · rw [cword_len_of_wordIn K hrin]; omega
    · rintro ⟨_, hk⟩
      exact ins_differs (cword K qt v) (cword K rt (w1.join w2)) _ _ sep hchars hr hnosep hy'
        (hk _ (by rw [hx]; omega))
  generalize hc : wmCtx K (distanceM K m (cword K qt v) (cword K rt (w1.join w2))).2 (w1.join w2) v = c
  have hcq : c.q = v := by rw [← hc]; rfl
  have hcr : c.r = w1.join w2 := by rw [← hc]; rfl
  have hcK : c.K = K := by rw [← hc]; rfl
  have hcl' : c.left = wmLeftRaw (w1.join w2) v - 1 := by rw [← hc]; rfl
  have hcell : ∀ qs rs, qs ≤ v.len → rs ≤ v.len + 1 → c.cell qs rs =
      D K (cword K qt v) (cword K rt (w1.join w2)) qs rs := by
    intro qs rs h1 h2
    rw [← hc]; exact wmCtx_cell K hC m hm rt _ qt v hrin hv qs rs h1 (by omega)
  -- only `qslice = |v|` can be accepted
  have honly : ∀ qs rs, AccSlice c qs rs → qs = v.len := by
    intro qs rs ha
    have h1 := ha.q_le; have h2 := ha.stem
    rw [hcq] at h1 h2; omega
  generalize hR : descRange (wmLeftRaw (w1.join w2) v - 1) (v.len + 1 + 1) = R
  have hmemR : ∀ x, x ∈ R ↔ wmLeftRaw (w1.join w2) v - 1 ≤ x ∧ x < v.len + 1 + 1 := by
    intro x; rw [← hR]; exact mem_descRange
  have hR' : R = (v.len + 1) :: descRange (wmLeftRaw (w1.join w2) v - 1) (v.len + 1) := by
    rw [← hR]; exact descRange_succ _ _ (by omega)
  have hstep : wmOuter c R R none =
      wmOuter c R (descRange (wmLeftRaw (w1.join w2) v - 1) (v.len + 1)) (wmInner c (v.len + 1) R none) := by
    conv => lhs; arg 3; rw [hR']
    rfl
  rw [hstep]
  have hacc : AccSlice c v.len (v.len + 1) := by
    refine ⟨by rw [hcq]; exact Nat.le_refl _, by rw [hcr]; omega, by rw [hcq]; omega, by omega, ?_, ?_⟩
    · have : ¬ (v.len ≥ v.len + 1) := by omega
      simp only [this, if_false]; omega
    · rw [hcell _ _ (Nat.le_refl _) (Nat.le_refl _), hD5, hcK]
      exact relTooBig_half K hJ _ _ (by omega)
  have hnb : NoBrk c (v.len + 1) := by
    unfold NoBrk; rw [hcr]; omega
  rw [wmInner_only c (v.len + 1) v.len hacc hnb R (fun x _ hx' ha => hx' (honly x _ ha))
    ((hmemR _).mpr ⟨by omega, by omega⟩)]
  rw [hcell _ _ (Nat.le_refl _) (Nat.le_refl _), hD5, hcK, hcr, hcq]
  apply wmOuter_keep
  intro rs hrs' qs _ ha
  have e := honly qs rs ha
  subst e
  have hrs'' := (mem_descRange.mp hrs').2
  rw [newPair_typos, hcell _ _ (Nat.le_refl _) (by omega)]
  exact hDge rs (by omega)

/-! ### a title word against the joined query words -/

/-- **split spelling, word level.** Title word `w` of at least three characters; query words `q0 q1` separated by ONE
    character of class `notAlpha`, whose characters run together are those of `w`. Then
    `word_match(w, q0.join(q1))` returns a pair, and the matched part of the joined query word reaches into `q1`. -/
theorem wordMatchM_split (K : Consts) (hC : CostsOK K = true) (hJ : JoinNumsOK K = true) (m : Mat) (hm : MInv m)
    (rt : Text) (w : WordShape) (qt : Text) (q0 q1 : WordShape)
    (hw : WordIn rt w) (hws : w.stem ≤ w.len) (hn : 3 ≤ w.len)
    (hcl : qt.classes.length = qt.chars.length)
    (hq0 : q0.lo < q0.hi) (hadj : q1.lo = q0.hi + 1) (hq1 : q1.lo < q1.hi) (hq1b : q1.hi ≤ qt.chars.length)
    (hs1 : 1 ≤ q1.stem) (hs1' : q1.stem ≤ q1.len)
    (sep : Nat) (hsep : qt.chars[q0.hi]? = some sep) (hsepc : qt.classes[q0.hi]? = some CharClass.notAlpha)
    (hchars : wchars qt q0 ++ wchars qt q1 = wchars rt w) :
    ∃ p, (wordMatchM K m rt w qt (q0.join q1)).1 = some p ∧ q1.lo < q0.lo + p.2.subHi := by
  obtain ⟨hN, _, _, _⟩ := joinNumsOK_spec hJ
  have hKOK := KOK_of_CostsOK K hC
  have hqin : WordIn qt (q0.join q1) := ⟨by simp only [WordShape.join]; omega, hq1b, hcl⟩
  have hq0in : WordIn qt q0 := ⟨hq0, by omega, hcl⟩
  have hq1in : WordIn qt q1 := ⟨hq1, hq1b, hcl⟩
  have hq : wchars qt (q0.join q1) = wchars qt q0 ++ sep :: wchars qt q1 := wchars_join qt q0 q1 hq0 hadj hq1 sep hsep
  have hx := wchars_length hq0in
  have hy := wchars_length hq1in
  have hlw : w.len = q0.len + q1.len := by
    rw [← wchars_length hw, ← hchars, List.length_append, hx, hy]
  have hq0l : q0.len = q0.hi - q0.lo := rfl
  have hq1l : q1.len = q1.hi - q1.lo := rfl
  have hql : (q0.join q1).len = w.len + 1 := by simp only [WordShape.len, WordShape.join] at *; omega
  have hqs : (q0.join q1).stem ≤ w.len + 1 ∧ q1.lo - q0.lo + 1 ≤ (q0.join q1).stem := by
    simp only [WordShape.join] at *; omega
  have hne : wchars qt q0 ++ wchars qt q1 ≠ [] := by
    intro e; have := congrArg List.length e; rw [List.length_append, hx, hy] at this; simp at this; omega
  have hlc : lengthCheck K w (q0.join q1) = true := lengthCheck_off_by_one K hJ _ _ (by omega) hn (by omega) (by omega)
  have hjc : jaccardCheck K rt w qt (q0.join q1) = true :=
    jaccardCheck_ins_query K hN rt w qt _ _ _ sep hchars.symm hq hne (wchars_length hw) (by omega)
  have hleft : wmLeftRaw w (q0.join q1) - 1 ≤ w.len := by
    unfold wmLeftRaw; split <;> omega
  have hmax : max (q0.join q1).len w.len + 1 = w.len + 2 := by omega
  rw [wordMatchM_eq_loops K m rt w qt _ (by omega) (by omega) hlc hjc (by omega), hmax]
  have haq := cword_aligned K qt (q0.join q1) hcl
  have har := cword_aligned K rt w hw.2.2
  have hins : Ins (cword K rt w) (cword K qt (q0.join q1)) (wchars qt q0).length :=
    ins_of_lists _ _ _ _ sep hchars.symm hq
  have hD5 : D K (cword K qt (q0.join q1)) (cword K rt w) (w.len + 1) w.len = 5 := by
    rw [D_symm]
    have := D_ins K hKOK _ _ har haq (cword_costPos K hC rt w) (cword_costPos K hC qt _)
      (cword_costMul5 K hC rt w) (cword_costMul5 K hC qt _) _ hins
      (by rw [hx]; exact cword_join_cost K hJ qt q0 q1 hcl hq0 hadj hq1 hq1b hsepc)
    rwa [cword_len_of_wordIn K hw] at this
  generalize hc : wmCtx K (distanceM K m (cword K qt (q0.join q1)) (cword K rt w)).2 w (q0.join q1) = c
  have hcq : c.q = q0.join q1 := by rw [← hc]; rfl
  have hcr : c.r = w := by rw [← hc]; rfl
  have hcK : c.K = K := by rw [← hc]; rfl
  have hcell : c.cell (w.len + 1) w.len = 5 := by
    rw [← hc, wmCtx_cell K hC m hm rt w qt _ hw hqin _ _ (by omega) (Nat.le_refl _)]; exact hD5
  have hacc : AccSlice c (w.len + 1) w.len := by
    refine ⟨by rw [hcq]; omega, by rw [hcr]; exact Nat.le_refl _, by rw [hcq]; omega, by omega, ?_, ?_⟩
    · have : w.len + 1 ≥ w.len := by omega
      simp only [this, if_true]; omega
    · rw [hcell, hcK]; exact relTooBig_half K hJ _ _ (by omega)
  have hnb : NoBrk c w.len := by unfold NoBrk; rw [hcr]; omega
  have hsome := wmOuter_acc_some c (w.len + 1) w.len hacc hnb
    (descRange (wmLeftRaw w (q0.join q1) - 1) (w.len + 2)) (mem_descRange.mpr ⟨by omega, by omega⟩)
    (descRange (wmLeftRaw w (q0.join q1) - 1) (w.len + 2)) none (mem_descRange.mpr ⟨by omega, by omega⟩)
  cases hres : wmOuter c (descRange (wmLeftRaw w (q0.join q1) - 1) (w.len + 2))
      (descRange (wmLeftRaw w (q0.join q1) - 1) (w.len + 2)) none with
  | none => exact absurd hres hsome
  | some p =>
    refine ⟨p, rfl, ?_⟩
    have hst : c.q.stem ≤ p.2.subHi :=
      wmOuter_inv_acc c (fun p => c.q.stem ≤ p.2.subHi) (fun rs qs ha => ha.stem) _ _ none (by simp) p hres
    rw [hcq] at hst
    omega

end Lucid
