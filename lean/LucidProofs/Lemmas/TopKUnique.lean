/-
  LucidProofs.Lemmas.TopKUnique — under an order that is antisymmetric on the input (no ties), the relational
  specification `TopK` has exactly one solution: the first `k` elements of the sorted input. Used by C12.
-/
import LucidProofs.Lemmas.LimitSort
import LucidProofs.Lemmas.Sorter

namespace Lucid
variable {α : Type}

/-- the first `k` elements of (any) sorted permutation satisfy `TopK` -/
theorem TopK_mergeSort_take {le : α → α → Bool} (P : Preorder' le) (k : Nat) (xs : List α) :
    TopK le k xs ((xs.mergeSort le).take k) := by
  have hs : (xs.mergeSort le).Pairwise (fun a b => le a b = true) :=
    List.pairwise_mergeSort P.trans (fun a b => by simpa using P.total a b) xs
  refine ⟨hs.sublist (List.take_sublist _ _), ?_, (xs.mergeSort le).drop k, ?_, take_dropped_worse hs k⟩
  · rw [List.length_take, (List.mergeSort_perm xs le).length_eq]
  · rw [List.take_append_drop]; exact List.mergeSort_perm xs le

/-- uniqueness of the top-`k` selection when `le` has no ties on the input -/
theorem TopK_unique {le : α → α → Bool} (P : Preorder' le) {k : Nat} {xs ys ys' : List α}
    (anti : ∀ a ∈ xs, ∀ b ∈ xs, le a b = true → le b a = true → a = b)
    (h : TopK le k xs ys) (h' : TopK le k xs ys') : ys = ys' := by
  obtain ⟨hs, hl, rest, hp, hc⟩ := h
  obtain ⟨hs', hl', rest', hp', hc'⟩ := h'
  have srt : ∀ l : List α, (l.mergeSort le).Pairwise (fun a b => le a b = true) :=
    List.pairwise_mergeSort P.trans (fun a b => by simpa using P.total a b)
  have key : ys ++ rest.mergeSort le = ys' ++ rest'.mergeSort le := by
    apply List.Perm.eq_of_pairwise (le := fun a b => le a b = true)
    · intro a b ha hb hab hba
      have p1 : (ys ++ rest.mergeSort le).Perm xs :=
        (List.Perm.append_left ys (List.mergeSort_perm rest le)).trans hp
      have p2 : (ys' ++ rest'.mergeSort le).Perm xs :=
        (List.Perm.append_left ys' (List.mergeSort_perm rest' le)).trans hp'
      exact anti a (p1.mem_iff.mp ha) b (p2.mem_iff.mp hb) hab hba
    · exact List.pairwise_append.mpr ⟨hs, srt rest, fun a ha b hb =>
        hc a ha b ((List.mergeSort_perm rest le).mem_iff.mp hb)⟩
    · exact List.pairwise_append.mpr ⟨hs', srt rest', fun a ha b hb =>
        hc' a ha b ((List.mergeSort_perm rest' le).mem_iff.mp hb)⟩
    · exact ((List.Perm.append_left ys (List.mergeSort_perm rest le)).trans hp).trans
        ((List.Perm.append_left ys' (List.mergeSort_perm rest' le)).trans hp').symm
  exact (List.append_inj key (by omega)).1

/-- … hence every solution is the sorted prefix -/
theorem TopK_eq_sorted_take {le : α → α → Bool} (P : Preorder' le) {k : Nat} {xs ys : List α}
    (anti : ∀ a ∈ xs, ∀ b ∈ xs, le a b = true → le b a = true → a = b)
    (h : TopK le k xs ys) : ys = (xs.mergeSort le).take k :=
  TopK_unique P anti h (TopK_mergeSort_take P k xs)

/-- non-vacuity of `SorterOK`: the library merge sort is a sorting routine meeting the assumption -/
def mergeSorter : Sorter := ⟨fun le l => l.mergeSort le⟩

theorem mergeSorter_ok : SorterOK mergeSorter :=
  fun le P => ⟨fun l => List.mergeSort_perm l le,
    fun l => List.pairwise_mergeSort P.trans (fun a b => by simpa using P.total a b) l⟩

end Lucid
