/-
  LucidProofs.Lemmas.Registry — the two id-keyed maps of `lib.rs` (model: `Registry`), the per-id
  projection of an operation sequence onto a stand-alone store, the simulation lemma behind C20, and
  the NUL framing of the WASM bridge.
-/
import LucidModel.Registry
import LucidProofs.Lemmas.Store

namespace Lucid

/-! ### association-list map -/
section am
variable {ν : Type}

theorem amGet_nil (k : Nat) : amGet ([] : List (Nat × ν)) k = none := rfl

theorem amGet_cons (e : Nat × ν) (m : List (Nat × ν)) (k : Nat) :
    amGet (e :: m) k = if e.1 = k then some e.2 else amGet m k := by
  unfold amGet
  by_cases h : e.1 = k <;> simp [h]

/-- get after set, same key -/
theorem amGet_amSet_same (m : List (Nat × ν)) (k : Nat) (v : ν) : amGet (amSet m k v) k = some v := by
  induction m with
  | nil => simp [amSet, amGet_cons]
  | cons e m ih =>
    obtain ⟨k', v'⟩ := e
    unfold amSet
    by_cases h : k' = k
    · simp [h, amGet_cons]
    · simp [h, amGet_cons, ih]

/-- get after set, other key -/
theorem amGet_amSet_other (m : List (Nat × ν)) (k : Nat) (v : ν) (j : Nat) (hj : k ≠ j) :
    amGet (amSet m k v) j = amGet m j := by
  induction m with
  | nil => simp [amSet, amGet_cons, hj, amGet_nil]
  | cons e m ih =>
    obtain ⟨k', v'⟩ := e
    unfold amSet
    by_cases h : k' = k
    · subst h; simp [amGet_cons, hj]
    · simp only [h, if_false, amGet_cons, ih]

/-- get after delete, same key -/
theorem amGet_amDel_same (m : List (Nat × ν)) (k : Nat) : amGet (amDel m k) k = none := by
  induction m with
  | nil => rfl
  | cons e m ih =>
    simp only [amDel] at ih ⊢
    by_cases h : e.1 = k
    · simpa [List.filter_cons, h] using ih
    · simpa [List.filter_cons, h, amGet_cons] using ih

/-- get after delete, other key -/
theorem amGet_amDel_other (m : List (Nat × ν)) (k j : Nat) (hj : k ≠ j) : amGet (amDel m k) j = amGet m j := by
  induction m with
  | nil => rfl
  | cons e m ih =>
    simp only [amDel] at ih ⊢
    by_cases h : e.1 = k
    · have : ¬ e.1 = j := by omega
      simpa [List.filter_cons, h, amGet_cons, hj] using ih
    · simp only [List.filter_cons, h, ne_eq, not_false_eq_true, decide_true, if_true, amGet_cons, ih]

end am

/-! ### registry runs, validity, the id an operation addresses -/

def RegOp.target : RegOp → Nat
  | .create id _ => id
  | .destroy id => id
  | .highlightWith id _ _ => id
  | .addRecord id _ _ _ => id
  | .setLimit id _ => id
  | .runSearch id _ => id
  | .clearStore id => id

def Registry.run (S : Sorter) (P : Prog) (envs : Nat → Env) (g : Registry) (ops : List RegOp) : Registry :=
  ops.foldl (Registry.step S P envs) g

/-- every operation of the sequence is a valid call at the moment it is executed -/
def Registry.allValid (S : Sorter) (P : Prog) (envs : Nat → Env) : Registry → List RegOp → Bool
  | _, [] => true
  | g, op :: ops => op.valid g && Registry.allValid S P envs (g.step S P envs op) ops

theorem allValid_append (S : Sorter) (P : Prog) (envs : Nat → Env) (g : Registry) (a b : List RegOp) :
    Registry.allValid S P envs g (a ++ b) =
      (Registry.allValid S P envs g a && Registry.allValid S P envs (g.run S P envs a) b) := by
  induction a generalizing g with
  | nil => simp [Registry.allValid, Registry.run]
  | cons op a ih => simp [Registry.allValid, Registry.run, ih, Bool.and_assoc]

theorem run_append (S : Sorter) (P : Prog) (envs : Nat → Env) (g : Registry) (a b : List RegOp) :
    g.run S P envs (a ++ b) = (g.run S P envs a).run S P envs b := by
  simp [Registry.run, List.foldl_append]

/-- an operation leaves every other id's store and result buffer alone (valid or not) -/
theorem step_other (S : Sorter) (P : Prog) (envs : Nat → Env) (g : Registry) (op : RegOp) (j : Nat)
    (hj : op.target ≠ j) :
    amGet (g.step S P envs op).stores j = amGet g.stores j ∧
    amGet (g.step S P envs op).results j = amGet g.results j := by
  unfold Registry.step
  split
  · exact ⟨rfl, rfl⟩
  · cases op <;> simp only [RegOp.target] at hj <;> simp only
    · exact ⟨amGet_amSet_other _ _ _ _ hj, amGet_amSet_other _ _ _ _ hj⟩
    · exact ⟨amGet_amDel_other _ _ _ hj, amGet_amDel_other _ _ _ hj⟩
    · split
      · exact ⟨amGet_amSet_other _ _ _ _ hj, rfl⟩
      · exact ⟨rfl, rfl⟩
    · split
      · exact ⟨amGet_amSet_other _ _ _ _ hj, rfl⟩
      · exact ⟨rfl, rfl⟩
    · split
      · exact ⟨amGet_amSet_other _ _ _ _ hj, rfl⟩
      · exact ⟨rfl, rfl⟩
    · split
      · exact ⟨amGet_amSet_other _ _ _ _ hj, amGet_amSet_other _ _ _ _ hj⟩
      · exact ⟨rfl, rfl⟩
    · split
      · exact ⟨amGet_amSet_other _ _ _ _ hj, rfl⟩
      · exact ⟨rfl, rfl⟩

/-! ### the per-id projection -/

/-- one step of the projection onto id `id`: `none` = not live, `some (lang, ops)` = language the store was created
    with and the store operations addressed to it since its last `create` (texts tokenised for that language) -/
def projStep (P : Prog) (envs : Nat → Env) (id : Nat) (p : Option (Nat × List StoreOp)) (op : RegOp) :
    Option (Nat × List StoreOp) :=
  if op.target ≠ id then p else
  match op with
  | .create _ lang => some (lang, [])
  | .destroy _ => none
  | .highlightWith _ l r => p.map (fun x => (x.1, x.2 ++ [StoreOp.setDividers l r]))
  | .addRecord _ recId title rating =>
    p.map (fun x => (x.1, x.2 ++ [StoreOp.add recId (tokenizeRecord P (envs x.1) title) rating]))
  | .setLimit _ n => p.map (fun x => (x.1, x.2 ++ [StoreOp.setLimit n]))
  | .runSearch _ query => p.map (fun x => (x.1, x.2 ++ [StoreOp.search (tokenizeQuery P (envs x.1) query)]))
  | .clearStore _ => p.map (fun x => (x.1, x.2 ++ [StoreOp.clear]))

def projFrom (P : Prog) (envs : Nat → Env) (id : Nat) (p : Option (Nat × List StoreOp)) (ops : List RegOp) :
    Option (Nat × List StoreOp) := ops.foldl (projStep P envs id) p

/-- the sub-list of operations addressing `id` since its last `create` (or `none` if `id` is not live) -/
def proj (P : Prog) (envs : Nat → Env) (id : Nat) (ops : List RegOp) : Option (Nat × List StoreOp) :=
  projFrom P envs id none ops

/-- the stand-alone store: the projected operations run on `Store::new()` -/
def runOne (S : Sorter) (P : Prog) (sops : List StoreOp) : Store := Store.run S P.K P.order (Store.new P.K) sops

/-- store and "what the last search returned" side by side -/
def resStep (S : Sorter) (K : Consts) (order : List ScoreType) (sr : Store × List Result) (op : StoreOp) :
    Store × List Result :=
  (sr.1.apply S K order op, match op with | .search q => sr.1.search S K order q | _ => sr.2)

/-- the hits of the last `search` in `sops`, each computed by the stand-alone store at that moment; `[]` if none -/
def lastResults (S : Sorter) (P : Prog) (sops : List StoreOp) : List Result :=
  (sops.foldl (resStep S P.K P.order) (Store.new P.K, [])).2

theorem resStep_foldl_fst (S : Sorter) (K : Consts) (order : List ScoreType) (sr : Store × List Result)
    (sops : List StoreOp) : (sops.foldl (resStep S K order) sr).1 = Store.run S K order sr.1 sops := by
  induction sops generalizing sr with
  | nil => rfl
  | cons op sops ih => simp only [List.foldl_cons, ih]; rfl

theorem runOne_snoc (S : Sorter) (P : Prog) (sops : List StoreOp) (op : StoreOp) :
    runOne S P (sops ++ [op]) = (runOne S P sops).apply S P.K P.order op := by
  simp [runOne, Store.run, List.foldl_append]

theorem lastResults_snoc (S : Sorter) (P : Prog) (sops : List StoreOp) (op : StoreOp) :
    lastResults S P (sops ++ [op]) =
      match op with
      | .search q => (runOne S P sops).search S P.K P.order q
      | _ => lastResults S P sops := by
  simp only [lastResults, List.foldl_append, List.foldl_cons, List.foldl_nil, resStep, runOne]
  rw [resStep_foldl_fst]

/-- simulation relation between the registry and the projection for one id -/
def Sim (S : Sorter) (P : Prog) (g : Registry) (id : Nat) (p : Option (Nat × List StoreOp)) : Prop :=
  amGet g.stores id = p.map (fun x => (x.1, runOne S P x.2)) ∧
  amGet g.results id = p.map (fun x => lastResults S P x.2)

theorem Sim_empty (S : Sorter) (P : Prog) (id : Nat) : Sim S P Registry.empty id none := ⟨rfl, rfl⟩

theorem Sim_step (S : Sorter) (P : Prog) (envs : Nat → Env) (g : Registry) (id : Nat)
    (p : Option (Nat × List StoreOp)) (h : Sim S P g id p) (op : RegOp) (hv : op.valid g = true) :
    Sim S P (g.step S P envs op) id (projStep P envs id p op) := by
  by_cases ht : op.target = id
  · obtain ⟨hs, hr⟩ := h
    unfold Sim Registry.step projStep
    simp only [hv, Bool.not_true, Bool.false_eq_true, if_false, ht, ne_eq, not_true_eq_false]
    cases op <;> simp only [RegOp.target] at ht <;> subst ht <;> simp only
    · -- create
      exact ⟨by rw [amGet_amSet_same]; rfl, by rw [amGet_amSet_same]; rfl⟩
    · exact ⟨amGet_amDel_same _ _, amGet_amDel_same _ _⟩
    all_goals
      simp only [RegOp.valid, Bool.and_eq_true] at hv
      cases p with
      | none => simp [hs] at hv
      | some x =>
        obtain ⟨lang, sops⟩ := x
        simp only [Option.map_some] at hs hr ⊢
        rw [hs]
        simp only
        refine ⟨?_, ?_⟩
        · rw [amGet_amSet_same, runOne_snoc]; rfl
        · first
            | (rw [amGet_amSet_same, lastResults_snoc]; rfl)
            | (rw [hr, lastResults_snoc])
  · have h' := step_other S P envs g op id ht
    unfold Sim at h ⊢
    rw [h'.1, h'.2]
    simpa [projStep, ht] using h

theorem Sim_run (S : Sorter) (P : Prog) (envs : Nat → Env) (id : Nat) (ops : List RegOp) :
    ∀ (g : Registry) (p : Option (Nat × List StoreOp)), Sim S P g id p →
      Registry.allValid S P envs g ops = true →
      Sim S P (g.run S P envs ops) id (projFrom P envs id p ops) := by
  induction ops with
  | nil => intro g p h _; exact h
  | cons op ops ih =>
    intro g p h hv
    simp only [Registry.allValid, Bool.and_eq_true] at hv
    exact ih _ _ (Sim_step S P envs g id p h op hv.1) hv.2

/-! ### NUL framing of `get_result_titles` -/

theorem splitNul_ne_nil (l : List Nat) : splitNul l ≠ [] := by
  cases l with
  | nil => simp [splitNul]
  | cons c cs =>
    simp only [splitNul]
    split
    · simp
    · split <;> simp

/-- a NUL-free piece followed by NUL is split off as one item -/
theorem splitNul_piece (t rest : List Nat) (ht : 0 ∉ t) : splitNul (t ++ 0 :: rest) = t :: splitNul rest := by
  induction t with
  | nil =>
    simp only [List.nil_append, splitNul]
    split
    · rename_i h; exact absurd h (splitNul_ne_nil rest)
    · rename_i h; simp [h]
  | cons c t ih =>
    have hc : c ≠ 0 := fun e => ht (by simp [e])
    have ht' : 0 ∉ t := fun e => ht (by simp [e])
    simp only [List.cons_append, splitNul, ih ht', hc, if_false]

theorem splitNul_frames (ts : List (List Nat)) (h : ∀ t ∈ ts, 0 ∉ t) :
    splitNul ((ts.map (fun t => t ++ [0])).flatten) = ts ++ [[]] := by
  induction ts with
  | nil => rfl
  | cons t ts ih =>
    simp only [List.map_cons, List.flatten_cons, List.append_assoc, List.singleton_append]
    rw [splitNul_piece t _ (h t (by simp)), ih (fun t' ht' => h t' (by simp [ht']))]
    rfl

/-- `highlight` removes every NUL: no result title contains one -/
theorem search_titles_no_nul (S : Sorter) (K : Consts) (order : List ScoreType) (st : Store) (q : Text) :
    ∀ r ∈ st.search S K order q, 0 ∉ r.title := by
  intro r hr
  rw [search_eq_limitSort] at hr
  obtain ⟨h, _, rfl⟩ := List.mem_map.mp hr
  simp [Store.render, highlight]

end Lucid
