/-
  Lemmas about the Jaccard pre-filter (`LucidModel/Jaccard.lean`, Rust `matching/jaccard/mod.rs`).

  * `natSet` (= `sort_unstable(); dedup()`): strictly ascending, same members, depends on membership only.
  * `copyFrom (vecResize buf n) s = s`: `resize` + `copy_from_slice` forgets the previous buffer contents.
  * `jacMerge` on strictly ascending lists computes (|A∩B|, |A∪B|).
  * `jacMergeIdx`: index-based version of the Rust `while` loop with *checked* reads; it never fails
    and equals `jacMerge` (Jaccard part of C19).
-/
import LucidModel.Jaccard

namespace Lucid

/-! ## strictly ascending lists -/

/-- strictly ascending (hence duplicate-free) list of scalars -/
def Asc (l : List Nat) : Prop := l.Pairwise (· < ·)

theorem Asc.nodup {l : List Nat} (h : Asc l) : l.Nodup :=
  List.Pairwise.imp (fun hab => Nat.ne_of_lt hab) h

theorem Asc.tail {a : Nat} {l : List Nat} (h : Asc (a :: l)) : Asc l :=
  (List.pairwise_cons.mp h).2

theorem Asc.head_lt {a : Nat} {l : List Nat} (h : Asc (a :: l)) : ∀ x ∈ l, a < x :=
  (List.pairwise_cons.mp h).1

theorem Asc.filter {l : List Nat} (p : Nat → Bool) (h : Asc l) : Asc (l.filter p) :=
  List.Pairwise.sublist List.filter_sublist h

/-- a strictly ascending list is determined by its set of members -/
theorem Asc.ext : ∀ {l l' : List Nat}, Asc l → Asc l' → (∀ x, x ∈ l ↔ x ∈ l') → l = l'
  | [], [], _, _, _ => rfl
  | [], b :: _, _, _, h => by have := (h b).mpr (by simp); simp at this
  | a :: _, [], _, _, h => by have := (h a).mp (by simp); simp at this
  | a :: as, b :: bs, h1, h2, h => by
    have hab : a = b := by
      have ha := (h a).mp (by simp)
      have hb := (h b).mpr (by simp)
      rcases List.mem_cons.mp ha with ha | ha
      · exact ha
      · rcases List.mem_cons.mp hb with hb | hb
        · exact hb.symm
        · have := h1.head_lt b hb
          have := h2.head_lt a ha
          omega
    subst hab
    have : as = bs := by
      apply Asc.ext h1.tail h2.tail
      intro x
      constructor
      · intro hx
        have hlt := h1.head_lt x hx
        rcases List.mem_cons.mp ((h x).mp (List.mem_cons_of_mem _ hx)) with e | e
        · omega
        · exact e
      · intro hx
        have hlt := h2.head_lt x hx
        rcases List.mem_cons.mp ((h x).mpr (List.mem_cons_of_mem _ hx)) with e | e
        · omega
        · exact e
    rw [this]

/-! ## `natInsert` / `natSet` -/

theorem mem_natInsert {x y : Nat} {l : List Nat} : y ∈ natInsert x l ↔ y = x ∨ y ∈ l := by
  induction l with
  | nil => simp [natInsert]
  | cons h t ih =>
    unfold natInsert
    split
    · simp
    · split
      · subst_vars; simp
      · simp [ih]; grind

theorem natInsert_asc {x : Nat} {l : List Nat} (hl : Asc l) : Asc (natInsert x l) := by
  induction l with
  | nil => simp [natInsert, Asc]
  | cons h t ih =>
    unfold natInsert
    split
    · rename_i hxh
      refine List.pairwise_cons.mpr ⟨?_, hl⟩
      intro y hy
      rcases List.mem_cons.mp hy with e | e
      · omega
      · have := hl.head_lt y e; omega
    · split
      · exact hl
      · refine List.pairwise_cons.mpr ⟨?_, ih hl.tail⟩
        intro y hy
        rcases mem_natInsert.mp hy with e | e
        · omega
        · exact hl.head_lt y e

/-- `natSet l` is strictly ascending -/
theorem natSet_asc (l : List Nat) : Asc (natSet l) := by
  induction l with
  | nil => simp [natSet, Asc]
  | cons a t ih => exact natInsert_asc ih

/-- the same statement spelled out -/
theorem natSet_pairwise_lt (l : List Nat) : List.Pairwise (· < ·) (natSet l) := natSet_asc l

/-- `natSet l` has exactly the members of `l` -/
theorem mem_natSet {x : Nat} {l : List Nat} : x ∈ natSet l ↔ x ∈ l := by
  induction l with
  | nil => simp [natSet]
  | cons a t ih =>
    show x ∈ natInsert a (natSet t) ↔ _
    rw [mem_natInsert, ih]; simp

theorem natSet_nodup (l : List Nat) : (natSet l).Nodup := (natSet_asc l).nodup

/-- `natSet` depends only on membership -/
theorem natSet_congr {l l' : List Nat} (h : ∀ x, x ∈ l ↔ x ∈ l') : natSet l = natSet l' :=
  Asc.ext (natSet_asc l) (natSet_asc l') (fun x => by rw [mem_natSet, mem_natSet]; exact h x)

theorem natSet_perm {l l' : List Nat} (h : l.Perm l') : natSet l = natSet l' :=
  natSet_congr (fun _ => h.mem_iff)

theorem natSet_append_self (l : List Nat) : natSet (l ++ l) = natSet l :=
  natSet_congr (fun x => by simp)

/-- an ascending list is a fixed point of `natSet` (sorting and de-duplicating a set changes nothing) -/
theorem natSet_of_asc {l : List Nat} (h : Asc l) : natSet l = l :=
  Asc.ext (natSet_asc l) h (fun _ => mem_natSet)

theorem natSet_idem (l : List Nat) : natSet (natSet l) = natSet l := natSet_of_asc (natSet_asc l)

theorem natSet_eq_nil {l : List Nat} : natSet l = [] ↔ l = [] := by
  constructor
  · intro h
    cases l with
    | nil => rfl
    | cons a t => have : a ∈ natSet (a :: t) := mem_natSet.mpr (by simp); rw [h] at this; simp at this
  · intro h; subst h; rfl

/-- two duplicate-free lists with the same members have the same length -/
theorem length_eq_of_nodup_of_mem_iff {l l' : List Nat} (h : l.Nodup) (h' : l'.Nodup)
    (hm : ∀ x, x ∈ l ↔ x ∈ l') : l.length = l'.length :=
  ((List.perm_ext_iff_of_nodup h h').mpr hm).length_eq

theorem length_filter_add_not (p : Nat → Bool) (l : List Nat) :
    (l.filter p).length + (l.filter (fun x => !p x)).length = l.length := by
  induction l with
  | nil => rfl
  | cons a t ih =>
    cases h : p a <;> simp [h] <;> omega

/-! ## the buffers: `resize` + `copy_from_slice` -/

theorem length_vecResize (buf : List Nat) (n : Nat) : (vecResize buf n).length = n := by
  simp [vecResize]; omega

/-- after `resize(len)` and `copy_from_slice`, the buffer holds exactly the slice: earlier contents are gone -/
theorem copyFrom_vecResize (buf s : List Nat) : copyFrom (vecResize buf s.length) s = s := by
  unfold copyFrom
  exact List.map_snd_zip (by rw [length_vecResize]; exact Nat.le_refl _)

/-! ## set sizes -/

/-- |A∩B|: number of distinct values of `a` that occur in `b` -/
def interCard (a b : List Nat) : Nat := ((natSet a).filter (· ∈ b)).length

/-- |A∪B|: number of distinct values occurring in `a` or `b` -/
def unionCard (a b : List Nat) : Nat := (natSet (a ++ b)).length

/-- |A|: number of distinct values of `a` -/
def distinctCard (a : List Nat) : Nat := (natSet a).length

theorem interCard_comm (a b : List Nat) : interCard a b = interCard b a := by
  unfold interCard
  congr 1
  apply Asc.ext ((natSet_asc a).filter _) ((natSet_asc b).filter _)
  intro x
  simp [mem_natSet, and_comm]

theorem unionCard_comm (a b : List Nat) : unionCard a b = unionCard b a := by
  unfold unionCard
  rw [natSet_congr (l := a ++ b) (l' := b ++ a) (fun x => by simp [or_comm])]

/-- |A∪B| = |A| + |B∖A| -/
theorem unionCard_eq (a b : List Nat) :
    unionCard a b = (natSet a).length + ((natSet b).filter (· ∉ a)).length := by
  unfold unionCard
  rw [← List.length_append]
  apply length_eq_of_nodup_of_mem_iff (natSet_nodup _)
  · refine List.nodup_append.mpr ⟨natSet_nodup a, (natSet_nodup b).sublist List.filter_sublist, ?_⟩
    intro x hx y hy
    have hx' := mem_natSet.mp hx
    have hy' := (List.mem_filter.mp hy).2
    intro e; subst e; simp [hx'] at hy'
  · intro x
    simp [mem_natSet]
    by_cases hx : x ∈ a <;> simp [hx]

/-- inclusion–exclusion: |A∩B| + |A∪B| = |A| + |B| -/
theorem interCard_add_unionCard (a b : List Nat) :
    interCard a b + unionCard a b = distinctCard a + distinctCard b := by
  rw [interCard_comm, unionCard_eq]
  unfold interCard distinctCard
  have := length_filter_add_not (fun x => decide (x ∈ a)) (natSet b)
  simp only [decide_not] at *
  omega

theorem interCard_le_unionCard (a b : List Nat) : interCard a b ≤ unionCard a b := by
  rw [unionCard_eq]
  unfold interCard
  have := List.length_filter_le (fun x => decide (x ∈ b)) (natSet a)
  omega

/-! ## `jacMerge` = `simple_similarity` -/

/-- task form: on strictly ascending lists the merge counts the common elements and the union -/
theorem jacMerge_spec {l1 l2 : List Nat} (h1 : Asc l1) (h2 : Asc l2) :
    jacMerge l1 l2 = ((l1.filter (· ∈ l2)).length, l1.length + (l2.filter (· ∉ l1)).length) := by
  fun_induction jacMerge l1 l2 with
  | case1 l2 =>
    have : l2.filter (fun x => decide (x ∉ [])) = l2 := List.filter_eq_self.mpr (by simp)
    rw [this]; simp
  | case2 a as =>
    have : (a :: as).filter (fun x => decide (x ∈ [])) = [] := List.filter_eq_nil_iff.mpr (by simp)
    rw [this]; simp
  | case3 a as b bs hab r ih =>
    have ih := ih h1.tail h2
    have hnot : a ∉ b :: bs := by
      intro hm
      rcases List.mem_cons.mp hm with e | e
      · omega
      · have := h2.head_lt a e; omega
    have hf : (b :: bs).filter (fun x => decide (x ∉ a :: as)) = (b :: bs).filter (fun x => decide (x ∉ as)) := by
      apply List.filter_congr
      intro x hx
      have : x ≠ a := fun e => hnot (e ▸ hx)
      simp [this]
    rw [hf, List.filter_cons_of_neg (by simpa using hnot)]
    simp only [r, ih, List.length_cons]
    ext <;> simp <;> omega
  | case4 a as b bs hab hba r ih =>
    have ih := ih h1 h2.tail
    have hnot : b ∉ a :: as := by
      intro hm
      rcases List.mem_cons.mp hm with e | e
      · omega
      · have := h1.head_lt b e; omega
    have hf : (a :: as).filter (fun x => decide (x ∈ b :: bs)) = (a :: as).filter (fun x => decide (x ∈ bs)) := by
      apply List.filter_congr
      intro x hx
      have : x ≠ b := fun e => hnot (e ▸ hx)
      simp [this]
    rw [hf, List.filter_cons_of_pos (a := b) (by simpa using hnot)]
    simp only [r, ih, List.length_cons]
    ext <;> simp <;> omega
  | case5 a as b bs hab hba r ih =>
    have ih := ih h1.tail h2.tail
    have e : a = b := by omega
    subst e
    have hna : a ∉ as := fun hm => by have := h1.head_lt a hm; omega
    have hnb : a ∉ bs := fun hm => by have := h2.head_lt a hm; omega
    have hf1 : as.filter (fun x => decide (x ∈ a :: bs)) = as.filter (fun x => decide (x ∈ bs)) := by
      apply List.filter_congr
      intro x hx
      have : x ≠ a := fun e => hna (e ▸ hx)
      simp [this]
    have hf2 : bs.filter (fun x => decide (x ∉ a :: as)) = bs.filter (fun x => decide (x ∉ as)) := by
      apply List.filter_congr
      intro x hx
      have : x ≠ a := fun e => hnb (e ▸ hx)
      simp [this]
    rw [List.filter_cons_of_pos (by simp), List.filter_cons_of_neg (by simp), hf1, hf2]
    simp only [r, ih, List.length_cons]
    ext <;> simp <;> omega

/-- `jacMerge` of the two sorted de-duplicated buffers is (|A∩B|, |A∪B|) -/
theorem jacMerge_natSet (a b : List Nat) :
    jacMerge (natSet a) (natSet b) = (interCard a b, unionCard a b) := by
  rw [jacMerge_spec (natSet_asc a) (natSet_asc b), unionCard_eq]
  unfold interCard
  congr 2
  · apply List.filter_congr; intro x _; simp [mem_natSet]
  · congr 1; apply List.filter_congr; intro x _; simp [mem_natSet]

/-- the merge is symmetric on arbitrary lists -/
theorem jacMerge_comm (l1 l2 : List Nat) : jacMerge l1 l2 = jacMerge l2 l1 := by
  fun_induction jacMerge l1 l2 with
  | case1 l2 => cases l2 <;> simp [jacMerge]
  | case2 a as => simp [jacMerge]
  | case3 a as b bs hab r ih =>
    have : ¬ b < a := by omega
    rw [jacMerge.eq_3]; simp only [this, hab, if_true, if_false, r, ih]
  | case4 a as b bs hab hba r ih =>
    rw [jacMerge.eq_3]; simp only [hba, if_true, r, ih]
  | case5 a as b bs hab hba r ih =>
    rw [jacMerge.eq_3]; simp only [hba, hab, if_false, r, ih]

theorem jacMerge_inter_le_union (l1 l2 : List Nat) : (jacMerge l1 l2).1 ≤ (jacMerge l1 l2).2 := by
  fun_induction jacMerge l1 l2 <;> grind

theorem jacMerge_union_ge (l1 l2 : List Nat) :
    l1.length ≤ (jacMerge l1 l2).2 ∧ l2.length ≤ (jacMerge l1 l2).2 := by
  fun_induction jacMerge l1 l2 <;> grind

/-! ## index-based merge loop with checked reads (Jaccard part of C19) -/

/-- `simple_similarity` as written in Rust: a `while i1 < len1 && i2 < len2` loop over indices with the
    accumulators `intersection`, `union`.  The two `get_unchecked` reads are replaced by *checked* reads
    `l[i]?`; an out-of-range read makes the whole result `none`.  `fuel` bounds the number of loop
    iterations (running out of fuel with the loop condition still true also gives `none`). -/
def jacMergeIdx (l1 l2 : List Nat) (i1 i2 inter union : Nat) : Nat → Option (Nat × Nat)
  | 0 =>
    if i1 < l1.length ∧ i2 < l2.length then none
    else some (inter, union + (l1.length - i1) + (l2.length - i2))
  | fuel + 1 =>
    if i1 < l1.length ∧ i2 < l2.length then
      match l1[i1]?, l2[i2]? with
      | some item1, some item2 =>
        match compare item1 item2 with
        | .lt => jacMergeIdx l1 l2 (i1 + 1) i2 inter (union + 1) fuel
        | .gt => jacMergeIdx l1 l2 i1 (i2 + 1) inter (union + 1) fuel
        | .eq => jacMergeIdx l1 l2 (i1 + 1) (i2 + 1) (inter + 1) (union + 1) fuel
      | _, _ => none
    else some (inter, union + (l1.length - i1) + (l2.length - i2))

/-- whenever the loop condition holds, both reads of the loop body are in range -/
theorem jacMergeIdx_reads_in_range (l1 l2 : List Nat) (i1 i2 : Nat)
    (hcond : i1 < l1.length ∧ i2 < l2.length) :
    ∃ x y, l1[i1]? = some x ∧ l2[i2]? = some y :=
  ⟨l1[i1]'hcond.1, l2[i2]'hcond.2, List.getElem?_eq_getElem hcond.1, List.getElem?_eq_getElem hcond.2⟩

theorem jacMerge_nil_right (l : List Nat) : jacMerge l [] = (0, l.length) := by
  cases l <;> simp [jacMerge]

/-- loop invariant: from any in-range state with enough fuel, the checked loop succeeds and adds the
    merge of the two remaining suffixes to the accumulators -/
theorem jacMergeIdx_eq (l1 l2 : List Nat) (fuel : Nat) : ∀ (i1 i2 inter union : Nat),
    i1 ≤ l1.length → i2 ≤ l2.length → (l1.length - i1) + (l2.length - i2) ≤ fuel →
    jacMergeIdx l1 l2 i1 i2 inter union fuel =
      some (inter + (jacMerge (l1.drop i1) (l2.drop i2)).1, union + (jacMerge (l1.drop i1) (l2.drop i2)).2) := by
  have hexit : ∀ (i1 i2 inter union : Nat), i1 ≤ l1.length → i2 ≤ l2.length →
      ¬ (i1 < l1.length ∧ i2 < l2.length) →
      (inter, union + (l1.length - i1) + (l2.length - i2)) =
        (inter + (jacMerge (l1.drop i1) (l2.drop i2)).1, union + (jacMerge (l1.drop i1) (l2.drop i2)).2) := by
    intro i1 i2 inter union h1 h2 hc
    by_cases h : i1 < l1.length
    · have h2' : l2.length ≤ i2 := by
        refine Nat.le_of_not_lt (fun h' => hc ⟨h, h'⟩)
      rw [List.drop_eq_nil_of_le h2', jacMerge_nil_right]
      simp; omega
    · have h1' : l1.length ≤ i1 := Nat.le_of_not_lt h
      rw [List.drop_eq_nil_of_le h1', jacMerge.eq_1]
      simp; omega
  induction fuel with
  | zero =>
    intro i1 i2 inter union h1 h2 hf
    have hc : ¬ (i1 < l1.length ∧ i2 < l2.length) := by omega
    rw [jacMergeIdx, if_neg hc, hexit i1 i2 inter union h1 h2 hc]
  | succ fuel ih =>
    intro i1 i2 inter union h1 h2 hf
    by_cases hc : i1 < l1.length ∧ i2 < l2.length
    · rw [jacMergeIdx, if_pos hc]
      rw [List.getElem?_eq_getElem hc.1, List.getElem?_eq_getElem hc.2]
      simp only []
      have hd1 := List.drop_eq_getElem_cons hc.1
      have hd2 := List.drop_eq_getElem_cons hc.2
      generalize l1[i1] = a at hd1 ⊢
      generalize l2[i2] = b at hd2 ⊢
      rw [hd1, hd2, jacMerge.eq_3]
      cases hcmp : compare a b with
      | lt =>
        have hab : a < b := Nat.compare_eq_lt.mp hcmp
        simp only [hab, if_true]
        rw [ih (i1 + 1) i2 inter (union + 1) (by omega) h2 (by omega),
          hd2]
        simp; omega
      | gt =>
        have hba : b < a := Nat.compare_eq_gt.mp hcmp
        have hab : ¬ a < b := by omega
        simp only [hab, hba, if_true, if_false]
        rw [ih i1 (i2 + 1) inter (union + 1) h1 (by omega) (by omega),
          hd1]
        simp; omega
      | eq =>
        have e : a = b := Nat.compare_eq_eq.mp hcmp
        have hab : ¬ a < b := by omega
        have hba : ¬ b < a := by omega
        simp only [hab, hba, if_false]
        rw [ih (i1 + 1) (i2 + 1) (inter + 1) (union + 1) (by omega) (by omega) (by omega)]
        simp; omega
    · rw [jacMergeIdx, if_neg hc, hexit i1 i2 inter union h1 h2 hc]

/-- started like the Rust loop (`i1 = i2 = intersection = union = 0`) with fuel `len1 + len2`, the
    checked index loop never fails and returns exactly `jacMerge` — for arbitrary lists -/
theorem jacMergeIdx_eq_jacMerge (l1 l2 : List Nat) :
    jacMergeIdx l1 l2 0 0 0 0 (l1.length + l2.length) = some (jacMerge l1 l2) := by
  rw [jacMergeIdx_eq l1 l2 _ 0 0 0 0 (Nat.zero_le _) (Nat.zero_le _) (by omega)]
  simp

theorem jacMergeIdx_ne_none (l1 l2 : List Nat) (fuel : Nat) (hf : l1.length + l2.length ≤ fuel) :
    jacMergeIdx l1 l2 0 0 0 0 fuel ≠ none := by
  rw [jacMergeIdx_eq l1 l2 _ 0 0 0 0 (Nat.zero_le _) (Nat.zero_le _) (by omega)]
  simp

end Lucid
