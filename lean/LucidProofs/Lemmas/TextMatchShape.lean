/-
  LucidProofs.Lemmas.TextMatchShape — shape of what `text_match` (`matching/text.rs`, model `Lucid.textMatch`)
  hands to scoring and highlighting: under the tokenizer guarantees `TextOK` of both texts and the
  `word_match` guarantee `WordMatchOK`, every record match sits at the index of the word it describes,
  carries that word's slice, and its matched part is a non-empty prefix of the word (`RMatchOK`); the
  returned record matches are sorted by strictly increasing word offset (at most one per word).
  The query matches are index-consistent too (strictly increasing offsets below the number of query words).
-/
import LucidModel.TextMatch
import LucidProofs.Lemmas.MatchFacts

namespace Lucid

/-- a record match describes a non-empty prefix of the record word it points to -/
structure RMatchOK (rt : Text) (m : WMatch) : Prop where
  off_lt : m.offset < rt.words.length
  word   : ∃ w, rt.words[m.offset]? = some w ∧ m.lo = w.lo ∧ m.hi = w.hi
  sub0   : m.subLo = 0
  pos    : 1 ≤ m.subHi
  le     : m.subHi ≤ m.hi - m.lo

/-! ## consequences of `TextOK` -/

theorem TextOK.getElem?_offset {t : Text} (ht : TextOK t) {w : WordShape} (hw : w ∈ t.words) :
    t.words[w.offset]? = some w := by
  obtain ⟨i, hi, rfl⟩ := List.mem_iff_getElem.mp hw
  rw [ht.offsets i hi]
  exact List.getElem?_eq_getElem hi

theorem TextOK.wordIn {t : Text} (ht : TextOK t) {w : WordShape} (hw : w ∈ t.words) : WordIn t w :=
  ⟨(ht.bounds w hw).1, (ht.bounds w hw).2, ht.lens.2⟩

theorem TextOK.next {t : Text} (ht : TextOK t) {w w' : WordShape} (hw : w ∈ t.words)
    (hn : t.words[w.offset + 1]? = some w') : w' ∈ t.words ∧ w'.offset = w.offset + 1 ∧ w.hi ≤ w'.lo := by
  obtain ⟨h1, h2⟩ := List.getElem?_eq_some_iff.mp hn
  have hw0 := ht.getElem?_offset hw
  obtain ⟨h3, h4⟩ := List.getElem?_eq_some_iff.mp hw0
  refine ⟨h2 ▸ List.getElem_mem h1, ?_, ?_⟩
  · rw [← h2]; exact ht.offsets _ h1
  · have := ht.ordered w.offset h1
    rw [h4, h2] at this; exact this

/-- the join of a word with its successor is a word of the text in the sense of `WordIn`, with stem ≥ 1 -/
theorem TextOK.join_wordIn {t : Text} (ht : TextOK t) {w w' : WordShape} (hw : w ∈ t.words)
    (hn : t.words[w.offset + 1]? = some w') : WordIn t (w.join w') ∧ 1 ≤ (w.join w').stem := by
  obtain ⟨hm, _, hle⟩ := ht.next hw hn
  have b := ht.bounds w hw
  have b' := ht.bounds w' hm
  have s' := ht.stems w' hm
  refine ⟨⟨?_, ?_, ht.lens.2⟩, ?_⟩ <;> simp only [WordShape.join] <;> omega

/-! ## `WordMatch::split` -/

theorem split_some {K : Consts} {m : WMatch} {w1 w2 : WordShape} {a b : WMatch}
    (h : m.split K w1 w2 = some (a, b)) :
    w2.lo < w1.lo + m.subHi ∧
    (a.offset = w1.offset ∧ a.lo = w1.lo ∧ a.hi = w1.hi ∧ a.subLo = 0 ∧ a.subHi = w1.len) ∧
    (b.offset = w2.offset ∧ b.lo = w2.lo ∧ b.hi = w2.hi ∧ b.subLo = 0 ∧ b.subHi = m.subHi - (w2.lo - w1.lo)) := by
  unfold WMatch.split at h
  split at h
  · cases h
  · rename_i hg
    simp only [Option.some.injEq, Prod.mk.injEq] at h
    obtain ⟨rfl, rfl⟩ := h
    exact ⟨by omega, ⟨rfl, rfl, rfl, rfl, rfl⟩, ⟨rfl, rfl, rfl, rfl, rfl⟩⟩

/-! ## index-consistent vectors of optional matches -/

/-- `l` has length `n`; a match stored at index `i` has offset `i` and satisfies `P` -/
def VecOK (P : WMatch → Prop) (n : Nat) (l : List (Option WMatch)) : Prop :=
  l.length = n ∧ ∀ i m, l[i]? = some (some m) → m.offset = i ∧ P m

theorem VecOK.replicate (P : WMatch → Prop) (n : Nat) : VecOK P n (List.replicate n none) := by
  refine ⟨List.length_replicate, ?_⟩
  intro i m h
  obtain ⟨_, h2⟩ := List.getElem?_eq_some_iff.mp h
  simp at h2

theorem VecOK.setAt {P : WMatch → Prop} {n : Nat} {l : List (Option WMatch)} (h : VecOK P n l)
    {m : WMatch} (hm : P m) : VecOK P n (setAt l m.offset m) := by
  refine ⟨by simp [Lucid.setAt, h.1], ?_⟩
  intro i m' hi
  simp only [Lucid.setAt, List.getElem?_set] at hi
  split at hi
  · rename_i e
    split at hi
    · simp only [Option.some.injEq] at hi; subst hi; exact ⟨e, hm⟩
    · cases hi
  · exact h.2 i m' hi

/-- the matches collected from an index-consistent vector are sorted by strictly increasing offset -/
theorem filterMap_sorted_aux {P : WMatch → Prop} (l : List (Option WMatch)) (k : Nat)
    (h : ∀ i m, l[i]? = some (some m) → m.offset = k + i ∧ P m) :
    (l.filterMap id).Pairwise (fun a b => a.offset < b.offset) ∧ ∀ m ∈ l.filterMap id, k ≤ m.offset ∧ P m := by
  induction l generalizing k with
  | nil => simp
  | cons x xs ih =>
    have ht : ∀ i m, xs[i]? = some (some m) → m.offset = (k + 1) + i ∧ P m := by
      intro i m hi
      have := h (i + 1) m (by simpa using hi)
      exact ⟨by omega, this.2⟩
    obtain ⟨i1, i2⟩ := ih (k + 1) ht
    cases x with
    | none =>
      simp only [List.filterMap_cons, id]
      exact ⟨i1, fun m hm => ⟨by have := (i2 m hm).1; omega, (i2 m hm).2⟩⟩
    | some a =>
      have ha := h 0 a (by simp)
      simp only [List.filterMap_cons, id, List.pairwise_cons, List.mem_cons]
      refine ⟨⟨fun b hb => by have := (i2 b hb).1; omega, i1⟩, ?_⟩
      rintro m (rfl | hm)
      · exact ⟨by omega, ha.2⟩
      · exact ⟨by have := (i2 m hm).1; omega, (i2 m hm).2⟩

theorem VecOK.filterMap {P : WMatch → Prop} {n : Nat} {l : List (Option WMatch)} (h : VecOK P n l) :
    (l.filterMap id).Pairwise (fun a b => a.offset < b.offset) ∧
    ∀ m ∈ l.filterMap id, m.offset < n ∧ P m := by
  have := filterMap_sorted_aux (P := fun m => m.offset < n ∧ P m) l 0 (by
    intro i m hi
    have := h.2 i m hi
    have hlt := (List.getElem?_eq_some_iff.mp hi).1
    exact ⟨by omega, by rw [this.1, ← h.1]; exact hlt, this.2⟩)
  exact ⟨this.1, fun m hm => (this.2 m hm).2⟩

/-! ## the scan invariant -/

/-- invariant of the `text_match` state -/
structure StateOK (rt qt : Text) (s : TMState) : Prop where
  rm   : VecOK (RMatchOK rt) rt.words.length s.rm
  qm   : VecOK (fun _ => True) qt.words.length s.qm
  cand : ∀ p, s.cand = some p → RMatchOK rt p.1

/-- a direct `word_match` result for a record word describes that word -/
theorem RMatchOK.of_pair {rt : Text} (hrt : TextOK rt) {r q : WordShape} (hr : r ∈ rt.words)
    {p : WMatch × WMatch} (hp : PairOK r q p) : RMatchOK rt p.1 := by
  have hw := hrt.getElem?_offset hr
  refine ⟨?_, ⟨r, ?_, hp.r_lo, hp.r_hi⟩, hp.r_sub0, hp.r_pos, ?_⟩
  · rw [hp.r_off]; exact (List.getElem?_eq_some_iff.mp hw).1
  · rw [hp.r_off]; exact hw
  · rw [hp.r_lo, hp.r_hi]; exact hp.r_le

section steps
variable {K : Consts} {rt qt : Text} (hrt : TextOK rt) (hqt : TextOK qt) (hwm : WordMatchOK K rt qt)
include hrt hqt hwm

theorem tryJoinR_ok {s s' : TMState} {r q : WordShape} (hr : r ∈ rt.words) (hq : q ∈ qt.words)
    (hs : StateOK rt qt s) (h : tryJoinR K rt qt s r q = some s') : StateOK rt qt s' := by
  unfold tryJoinR at h
  split at h
  · cases h
  · rename_i rnext hnext
    split at h
    · cases h
    · split at h
      · cases h
      · cases h
      · split at h
        · cases h
        · rename_i rmatch qmatch hm
          split at h
          · cases h
          · rename_i r1 r2 hsp
            simp only [Option.some.injEq] at h
            subst h
            obtain ⟨hmem, hoff, hle⟩ := hrt.next hr hnext
            obtain ⟨hjw, hjs⟩ := hrt.join_wordIn hr hnext
            have hp := hwm (r.join rnext) q (rmatch, qmatch) hjw (hqt.wordIn hq) hjs (hqt.stems q hq) hm
            obtain ⟨hg, ⟨a1, a2, a3, a4, a5⟩, ⟨b1, b2, b3, b4, b5⟩⟩ := split_some hsp
            have br := hrt.bounds r hr
            have bn := hrt.bounds rnext hmem
            have hsub : rmatch.subHi ≤ rnext.hi - r.lo := by
              have := hp.r_le; simpa [WordShape.join, WordShape.len] using this
            have ok1 : RMatchOK rt r1 := by
              have hw := hrt.getElem?_offset hr
              refine ⟨?_, ⟨r, ?_, a2, a3⟩, a4, ?_, ?_⟩
              · rw [a1]; exact (List.getElem?_eq_some_iff.mp hw).1
              · rw [a1]; exact hw
              · rw [a5]; simp only [WordShape.len]; omega
              · rw [a5, a2, a3]; simp only [WordShape.len]; omega
            have ok2 : RMatchOK rt r2 := by
              have hw := hrt.getElem?_offset hmem
              refine ⟨?_, ⟨rnext, ?_, b2, b3⟩, b4, ?_, ?_⟩
              · rw [b1]; exact (List.getElem?_eq_some_iff.mp hw).1
              · rw [b1]; exact hw
              · rw [b5]; omega
              · rw [b5, b2, b3]; omega
            exact ⟨(hs.rm.setAt ok1).setAt ok2, hs.qm.setAt trivial, fun p hp => by cases hp⟩

theorem tryJoinQ_ok {s s' : TMState} {r q : WordShape} (hr : r ∈ rt.words) (hq : q ∈ qt.words)
    (hs : StateOK rt qt s) (h : tryJoinQ K rt qt s r q = some s') : StateOK rt qt s' := by
  unfold tryJoinQ at h
  split at h
  · cases h
  · rename_i qnext hnext
    split at h
    · cases h
    · split at h
      · cases h
      · cases h
      · split at h
        · cases h
        · rename_i rmatch qmatch hm
          split at h
          · cases h
          · rename_i q1 q2 hsp
            simp only [Option.some.injEq] at h
            subst h
            obtain ⟨hjw, hjs⟩ := hqt.join_wordIn hq hnext
            have hp := hwm r (q.join qnext) (rmatch, qmatch) (hrt.wordIn hr) hjw (hrt.stems r hr) hjs hm
            have ok : RMatchOK rt rmatch := RMatchOK.of_pair hrt hr hp
            exact ⟨hs.rm.setAt ok, (hs.qm.setAt trivial).setAt trivial, fun p hp => by cases hp⟩

theorem tmStep_ok {s : TMState} {r q : WordShape} (hr : r ∈ rt.words) (hq : q ∈ qt.words)
    (hs : StateOK rt qt s) : StateOK rt qt (tmStep K rt qt q s r).1 := by
  unfold tmStep
  split
  · rename_i s' h; exact tryJoinR_ok hrt hqt hwm hr hq hs h
  · split
    · rename_i s' h; exact tryJoinQ_ok hrt hqt hwm hr hq hs h
    · split
      · exact hs
      · rename_i r2 q2 hm
        have hp := hwm r q (r2, q2) (hrt.wordIn hr) (hqt.wordIn hq) (hrt.stems r hr) (hqt.stems q hq) hm
        split
        · refine ⟨hs.rm, hs.qm, ?_⟩
          intro p hpe
          simp only [Option.some.injEq] at hpe
          subst hpe
          exact RMatchOK.of_pair hrt hr hp
        · exact hs

theorem tmScan_ok {q : WordShape} (hq : q ∈ qt.words) (rs : List WordShape) (hrs : ∀ r ∈ rs, r ∈ rt.words)
    {s : TMState} (hs : StateOK rt qt s) : StateOK rt qt (tmScan K rt qt q rs s) := by
  induction rs generalizing s with
  | nil => exact hs
  | cons r rs ih =>
    have hrs' : ∀ r ∈ rs, r ∈ rt.words := fun x hx => hrs x (by simp [hx])
    unfold tmScan
    split
    · exact ih hrs' hs
    · have hstep := tmStep_ok hrt hqt hwm (hrs r (by simp)) hq hs
      simp only []
      split
      · exact hstep
      · exact ih hrs' hstep

omit hrt hqt hwm in
theorem tmCommit_ok {s : TMState} (hs : StateOK rt qt s) : StateOK rt qt (tmCommit s) := by
  unfold tmCommit
  split
  · exact hs
  · rename_i rmm qmm hc
    exact ⟨hs.rm.setAt (hs.cand _ hc), hs.qm.setAt trivial, fun p hp => by cases hp⟩

theorem tmQuery_ok {q : WordShape} (hq : q ∈ qt.words) {s : TMState} (hs : StateOK rt qt s) :
    StateOK rt qt (tmQuery K rt qt s q) := by
  unfold tmQuery
  split
  · exact hs
  · refine tmCommit_ok (tmScan_ok hrt hqt hwm hq rt.words (fun _ h => h) ?_)
    exact ⟨hs.rm, hs.qm, fun p hp => by cases hp⟩

theorem foldl_tmQuery_ok (qs : List WordShape) (hqs : ∀ q ∈ qs, q ∈ qt.words) {s : TMState}
    (hs : StateOK rt qt s) : StateOK rt qt (qs.foldl (tmQuery K rt qt) s) := by
  induction qs generalizing s with
  | nil => exact hs
  | cons q qs ih =>
    exact ih (fun x hx => hqs x (by simp [hx])) (tmQuery_ok hrt hqt hwm (hqs q (by simp)) hs)

end steps

theorem StateOK.init (rt qt : Text) :
    StateOK rt qt { rm := List.replicate rt.words.length none, qm := List.replicate qt.words.length none, cand := none } :=
  ⟨VecOK.replicate _ _, VecOK.replicate _ _, fun p hp => by cases hp⟩

/-- **shape of the record matches**: sorted by strictly increasing word offset (so at most one per word),
    each a non-empty prefix of the word it points to -/
theorem textMatch_rmatches_ok {K : Consts} {rt qt : Text} (hrt : TextOK rt) (hqt : TextOK qt)
    (hwm : WordMatchOK K rt qt) :
    (textMatch K rt qt).1.Pairwise (fun a b => a.offset < b.offset) ∧
    ∀ m ∈ (textMatch K rt qt).1, RMatchOK rt m := by
  have hs := foldl_tmQuery_ok hrt hqt hwm qt.words (fun _ h => h) (StateOK.init rt qt)
  have := hs.rm.filterMap
  exact ⟨this.1, fun m hm => (this.2 m hm).2⟩

/-- **shape of the query matches**: strictly increasing offsets below the number of query words -/
theorem textMatch_qmatches_ok {K : Consts} {rt qt : Text} (hrt : TextOK rt) (hqt : TextOK qt)
    (hwm : WordMatchOK K rt qt) :
    (textMatch K rt qt).2.Pairwise (fun a b => a.offset < b.offset) ∧
    ∀ m ∈ (textMatch K rt qt).2, m.offset < qt.words.length := by
  have hs := foldl_tmQuery_ok hrt hqt hwm qt.words (fun _ h => h) (StateOK.init rt qt)
  have := hs.qm.filterMap
  exact ⟨this.1, fun m hm => (this.2 m hm).1⟩

/-- a query without words matches nothing -/
theorem textMatch_no_words (K : Consts) (rt qt : Text) (h : qt.words = []) : textMatch K rt qt = ([], []) := by
  simp [textMatch, h]

end Lucid
