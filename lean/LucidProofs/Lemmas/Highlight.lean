/-
  LucidProofs.Lemmas.Highlight — `search/highlight.rs` (model: `Lucid.hlWalk`, `Lucid.highlight`, `Lucid.hlSafe`)
  as *decoration*: the walk over the title words equals the insertion of the two markers around a list of
  spans of `source` that is sorted and disjoint; nothing else of `source` is dropped, duplicated, reordered
  or altered; the span list does not depend on the markers; the final NUL filter commutes with decoration.
  Pure list reasoning; independent of `text_match`. Used by C01 (trap sites `hlSafe`), C02, C09.
-/
import LucidModel.Search
import LucidProofs.Lemmas.MatchFacts

namespace Lucid

/-! ## slices -/

theorem slice_append_slice {α : Type} (l : List α) {a b c : Nat} (hab : a ≤ b) (hbc : b ≤ c) :
    slice l a b ++ slice l b c = slice l a c := by
  unfold slice
  have h1 : l.drop b = (l.drop a).drop (b - a) := by rw [List.drop_drop]; congr 1; omega
  have h2 : c - a = (b - a) + (c - b) := by omega
  rw [h1, h2, List.take_add]

theorem slice_append_drop {α : Type} (l : List α) {a b : Nat} (hab : a ≤ b) :
    slice l a b ++ l.drop b = l.drop a := by
  unfold slice
  have h1 : l.drop b = (l.drop a).drop (b - a) := by rw [List.drop_drop]; congr 1; omega
  rw [h1, List.take_append_drop]

theorem slice_self {α : Type} (l : List α) (a : Nat) : slice l a a = [] := by simp [slice]

theorem slice_zero_eq_take {α : Type} (l : List α) (b : Nat) : slice l 0 b = l.take b := by simp [slice]

theorem take_append_slice {α : Type} (l : List α) {a b : Nat} (hab : a ≤ b) :
    l.take a ++ slice l a b = l.take b := by
  rw [← slice_zero_eq_take, ← slice_zero_eq_take, slice_append_slice l (Nat.zero_le a) hab]

theorem length_slice {α : Type} (l : List α) {a b : Nat} (hab : a ≤ b) (hb : b ≤ l.length) :
    (slice l a b).length = b - a := by
  simp [slice, List.length_take, List.length_drop]; omega

/-! ## decoration -/

/-- removal of the NUL padding (`highlighted.retain(|ch| ch != '\0')`) -/
def stripNul (l : List Nat) : List Nat := l.filter (· != 0)

/-- `source` from position `off` on, with `dl` inserted before position `s` and `dr` inserted after position
    `s + n` for every span `(s, n)` (start, length) of the list -/
def decorateFrom (source dl dr : List Nat) : List (Nat × Nat) → Nat → List Nat
  | [], off => source.drop off
  | (s, n) :: rest, off =>
    slice source off s ++ dl ++ slice source s (s + n) ++ dr ++ decorateFrom source dl dr rest (s + n)

/-- `source` with the markers `dl`, `dr` put around every span `(start, length)` -/
def decorate (source : List Nat) (spans : List (Nat × Nat)) (dl dr : List Nat) : List Nat :=
  decorateFrom source dl dr spans 0

/-- the spans are sorted by start, pairwise disjoint and start at or after `off` -/
def SpansFrom : Nat → List (Nat × Nat) → Prop
  | _, [] => True
  | off, (s, n) :: rest => off ≤ s ∧ SpansFrom (s + n) rest

/-- every span ends inside a text of `len` characters -/
def SpansIn (len : Nat) (spans : List (Nat × Nat)) : Prop := ∀ p ∈ spans, p.1 + p.2 ≤ len

theorem SpansFrom.mono {off off' : Nat} {spans : List (Nat × Nat)} (h : SpansFrom off spans) (hle : off' ≤ off) :
    SpansFrom off' spans := by
  cases spans with
  | nil => trivial
  | cons p rest => exact ⟨Nat.le_trans hle h.1, h.2⟩

/-- sorted + disjoint in the usual pairwise form -/
theorem SpansFrom.pairwise {off : Nat} {spans : List (Nat × Nat)} (h : SpansFrom off spans) :
    spans.Pairwise (fun a b => a.1 + a.2 ≤ b.1) ∧ ∀ p ∈ spans, off ≤ p.1 := by
  induction spans generalizing off with
  | nil => simp
  | cons p rest ih =>
    obtain ⟨h1, h2⟩ := h
    obtain ⟨ihp, ihl⟩ := ih h2
    refine ⟨List.pairwise_cons.mpr ⟨fun b hb => ihl b hb, ihp⟩, ?_⟩
    intro q hq
    rcases List.mem_cons.mp hq with rfl | hq
    · exact h1
    · exact Nat.le_trans (Nat.le_trans h1 (Nat.le_add_right _ _)) (ihl q hq)

theorem SpansFrom.of_pairwise {off : Nat} {spans : List (Nat × Nat)}
    (hp : spans.Pairwise (fun a b => a.1 + a.2 ≤ b.1)) (hl : ∀ p ∈ spans, off ≤ p.1) : SpansFrom off spans := by
  induction spans generalizing off with
  | nil => trivial
  | cons p rest ih =>
    rw [List.pairwise_cons] at hp
    exact ⟨hl p (by simp), ih hp.2 (fun q hq => hp.1 q hq)⟩

/-- a stretch of `source` before the first span can be moved in and out of the decoration -/
theorem decorateFrom_prefix (source dl dr : List Nat) {spans : List (Nat × Nat)} {off off' : Nat}
    (hle : off ≤ off') (h : SpansFrom off' spans) :
    slice source off off' ++ decorateFrom source dl dr spans off' = decorateFrom source dl dr spans off := by
  cases spans with
  | nil => simp only [decorateFrom]; exact slice_append_drop source hle
  | cons p rest =>
    obtain ⟨s, n⟩ := p
    simp only [decorateFrom]
    rw [← slice_append_slice source hle h.1]
    simp only [List.append_assoc]

/-- with empty markers the decoration is the text itself: nothing dropped, duplicated, reordered, altered -/
theorem decorateFrom_nil (source : List Nat) {spans : List (Nat × Nat)} {off : Nat} (h : SpansFrom off spans) :
    decorateFrom source [] [] spans off = source.drop off := by
  induction spans generalizing off with
  | nil => rfl
  | cons p rest ih =>
    obtain ⟨s, n⟩ := p
    simp only [decorateFrom, List.append_nil]
    rw [ih h.2, List.append_assoc, slice_append_drop source (Nat.le_add_right s n), slice_append_drop source h.1]

theorem decorate_nil (source : List Nat) {spans : List (Nat × Nat)} (h : SpansFrom 0 spans) :
    decorate source spans [] [] = source := by
  simpa [decorate] using decorateFrom_nil source h

/-- removal of the markers *by position*: keep the gap, skip `a` characters, keep `n` characters, skip `b` … -/
def unmarkFrom (a b : Nat) : List (Nat × Nat) → Nat → List Nat → List Nat
  | [], _, l => l
  | (s, n) :: rest, off, l =>
    l.take (s - off) ++ (l.drop (s - off + a)).take n ++ unmarkFrom a b rest (s + n) (l.drop (s - off + a + n + b))

def unmark (a b : Nat) (spans : List (Nat × Nat)) (l : List Nat) : List Nat := unmarkFrom a b spans 0 l

/-- deleting the inserted markers (by position) from a decoration gives back the undecorated text -/
theorem unmarkFrom_decorateFrom (source dl dr : List Nat) {spans : List (Nat × Nat)} {off : Nat}
    (h : SpansFrom off spans) (hin : SpansIn source.length spans) :
    unmarkFrom dl.length dr.length spans off (decorateFrom source dl dr spans off) = source.drop off := by
  induction spans generalizing off with
  | nil => rfl
  | cons p rest ih =>
    obtain ⟨s, n⟩ := p
    have hsn : s + n ≤ source.length := hin (s, n) (by simp)
    have hin' : SpansIn source.length rest := fun q hq => hin q (by simp [hq])
    have hl1 : (slice source off s).length = s - off := length_slice source h.1 (by omega)
    have hl2 : (slice source s (s + n)).length = n := by
      rw [length_slice source (Nat.le_add_right s n) hsn]; omega
    simp only [decorateFrom, unmarkFrom]
    -- name the five pieces
    generalize hA : slice source off s = A at hl1
    generalize hB : slice source s (s + n) = B at hl2
    generalize hC : decorateFrom source dl dr rest (s + n) = C at *
    have e1 : (A ++ dl ++ B ++ dr ++ C).take (s - off) = A := by
      rw [← hl1]; simp only [List.append_assoc]; exact List.take_left
    have e2 : ((A ++ dl ++ B ++ dr ++ C).drop (s - off + dl.length)).take n = B := by
      have : s - off + dl.length = (A ++ dl).length := by simp [hl1]
      rw [this]
      have : A ++ dl ++ B ++ dr ++ C = (A ++ dl) ++ (B ++ (dr ++ C)) := by simp only [List.append_assoc]
      rw [this, List.drop_left, ← hl2]; exact List.take_left
    have e3 : (A ++ dl ++ B ++ dr ++ C).drop (s - off + dl.length + n + dr.length) = C := by
      have : s - off + dl.length + n + dr.length = (A ++ dl ++ B ++ dr).length := by
        simp only [List.length_append, hl1, hl2]
      rw [this]; exact List.drop_left
    rw [e1, e2, e3, ← hC, ih h.2 hin', ← hA, ← hB, List.append_assoc,
      slice_append_drop source (Nat.le_add_right s n), slice_append_drop source h.1]

theorem unmark_decorate (source dl dr : List Nat) {spans : List (Nat × Nat)}
    (h : SpansFrom 0 spans) (hin : SpansIn source.length spans) :
    unmark dl.length dr.length spans (decorate source spans dl dr) = source := by
  simpa [unmark, decorate] using unmarkFrom_decorateFrom source dl dr h hin

/-! ## the NUL filter commutes with decoration -/

theorem stripNul_append (a b : List Nat) : stripNul (a ++ b) = stripNul a ++ stripNul b := by
  simp [stripNul]

theorem zero_not_mem_stripNul (l : List Nat) : 0 ∉ stripNul l := by
  simp [stripNul]

theorem stripNul_eq_self {l : List Nat} (h : 0 ∉ l) : stripNul l = l := by
  unfold stripNul
  rw [List.filter_eq_self]
  intro a ha
  have : a ≠ 0 := fun e => h (e ▸ ha)
  simpa using this

/-- position of source position `p` after the NUL padding has been removed -/
def nulPos (source : List Nat) (p : Nat) : Nat := (stripNul (source.take p)).length

theorem nulPos_mono (source : List Nat) {a b : Nat} (hab : a ≤ b) : nulPos source a ≤ nulPos source b := by
  unfold nulPos
  rw [← take_append_slice source hab, stripNul_append, List.length_append]
  omega

theorem nulPos_zero (source : List Nat) : nulPos source 0 = 0 := by simp [nulPos, stripNul]

theorem stripNul_slice (source : List Nat) {a b : Nat} (hab : a ≤ b) :
    stripNul (slice source a b) = slice (stripNul source) (nulPos source a) (nulPos source b) := by
  have hsrc : source = source.take a ++ (slice source a b ++ source.drop b) := by
    rw [slice_append_drop source hab, List.take_append_drop]
  have hb : nulPos source b = nulPos source a + (stripNul (slice source a b)).length := by
    unfold nulPos
    rw [← take_append_slice source hab, stripNul_append, List.length_append]
  have hs : stripNul source = stripNul (source.take a) ++ (stripNul (slice source a b) ++ stripNul (source.drop b)) := by
    rw [← stripNul_append, ← stripNul_append, ← hsrc]
  rw [hs, hb]
  unfold slice nulPos
  rw [List.drop_left, Nat.add_sub_cancel_left, List.take_left]

theorem stripNul_drop (source : List Nat) (a : Nat) :
    stripNul (source.drop a) = (stripNul source).drop (nulPos source a) := by
  have hs : stripNul source = stripNul (source.take a) ++ stripNul (source.drop a) := by
    rw [← stripNul_append, List.take_append_drop]
  rw [hs]; unfold nulPos; rw [List.drop_left]

theorem nulPos_add (source : List Nat) {a b : Nat} (hab : a ≤ b) :
    nulPos source b = nulPos source a + (stripNul (slice source a b)).length := by
  unfold nulPos
  rw [← take_append_slice source hab, stripNul_append, List.length_append]

/-- a non-empty span whose first character is not NUL stays non-empty when the NUL padding is removed -/
theorem nulSpan_pos (source : List Nat) {s n : Nat} (hn : 1 ≤ n) (hs : s < source.length)
    (h0 : source[s]? ≠ some 0) : 1 ≤ nulPos source (s + n) - nulPos source s := by
  rw [nulPos_add source (Nat.le_add_right s n), Nat.add_sub_cancel_left]
  obtain ⟨k, rfl⟩ : ∃ k, n = k + 1 := ⟨n - 1, by omega⟩
  have hne : source[s] ≠ 0 := by
    intro e; apply h0; rw [List.getElem?_eq_getElem hs, e]
  have : slice source s (s + (k + 1)) = source[s] :: (source.drop (s + 1)).take k := by
    unfold slice
    rw [List.drop_eq_getElem_cons hs, Nat.add_sub_cancel_left, List.take_succ_cons]
  rw [this]
  simp [stripNul, hne]

/-- the span list seen in the NUL-free text -/
def nulSpans (source : List Nat) (spans : List (Nat × Nat)) : List (Nat × Nat) :=
  spans.map (fun p => (nulPos source p.1, nulPos source (p.1 + p.2) - nulPos source p.1))

theorem nulSpans_from (source : List Nat) {spans : List (Nat × Nat)} {off : Nat} (h : SpansFrom off spans) :
    SpansFrom (nulPos source off) (nulSpans source spans) := by
  induction spans generalizing off with
  | nil => trivial
  | cons p rest ih =>
    obtain ⟨s, n⟩ := p
    refine ⟨nulPos_mono source h.1, ?_⟩
    have := ih h.2
    have hm := nulPos_mono source (Nat.le_add_right s n)
    simp only [] at *
    rw [Nat.add_sub_cancel' hm]
    exact this

/-- the filtered decoration is the decoration of the filtered text by the filtered markers -/
theorem stripNul_decorateFrom (source dl dr : List Nat) {spans : List (Nat × Nat)} {off : Nat}
    (h : SpansFrom off spans) :
    stripNul (decorateFrom source dl dr spans off) =
      decorateFrom (stripNul source) (stripNul dl) (stripNul dr) (nulSpans source spans) (nulPos source off) := by
  induction spans generalizing off with
  | nil => simp only [decorateFrom, nulSpans, List.map_nil]; exact stripNul_drop source off
  | cons p rest ih =>
    obtain ⟨s, n⟩ := p
    have hm := nulPos_mono source (Nat.le_add_right s n)
    simp only [decorateFrom, nulSpans, List.map_cons, stripNul_append]
    rw [Nat.add_sub_cancel' hm, stripNul_slice source h.1, stripNul_slice source (Nat.le_add_right s n)]
    have := ih h.2
    simp only [nulSpans] at this
    rw [this]

theorem stripNul_decorate (source dl dr : List Nat) {spans : List (Nat × Nat)} (h : SpansFrom 0 spans) :
    stripNul (decorate source spans dl dr) =
      decorate (stripNul source) (nulSpans source spans) (stripNul dl) (stripNul dr) := by
  have := stripNul_decorateFrom source dl dr h
  rw [nulPos_zero] at this
  exact this

theorem nulSpans_in (source : List Nat) {spans : List (Nat × Nat)} (hin : SpansIn source.length spans) :
    SpansIn (stripNul source).length (nulSpans source spans) := by
  intro q hq
  simp only [nulSpans, List.mem_map] at hq
  obtain ⟨p, hp, rfl⟩ := hq
  have hm := nulPos_mono source (Nat.le_add_right p.1 p.2)
  simp only []
  rw [Nat.add_sub_cancel' hm]
  have : nulPos source (p.1 + p.2) ≤ nulPos source source.length := nulPos_mono source (hin p hp)
  simpa [nulPos] using this

/-! ## the walk of `highlight` is a decoration -/

/-- the spans `(start, length)` highlighted by the walk, in word order; independent of the markers -/
def hlSpans (rm : List WMatch) : List WordShape → Nat → List (Nat × Nat)
  | [], _ => []
  | w :: ws, wi =>
    match rm.find? (fun m => m.offset == wi) with
    | some m => (w.lo + m.subLo, m.subHi - m.subLo) :: hlSpans rm ws (wi + 1)
    | none => hlSpans rm ws (wi + 1)

/-- when no slice of the walk is out of range, its spans are sorted, disjoint and inside the text -/
theorem hlSafe_spans {source : List Nat} {rm : List WMatch} {ws : List WordShape} {wi off : Nat}
    (h : hlSafe source rm ws wi off = true) :
    SpansFrom off (hlSpans rm ws wi) ∧ SpansIn source.length (hlSpans rm ws wi) := by
  induction ws generalizing wi off with
  | nil => exact ⟨trivial, fun p hp => by simp [hlSpans] at hp⟩
  | cons w ws ih =>
    cases hf : rm.find? (fun m => m.offset == wi) with
    | none =>
      simp only [hlSafe, hlSpans, hf, Bool.and_eq_true, decide_eq_true_eq] at h ⊢
      obtain ⟨⟨h1, h2⟩, h3⟩ := h
      obtain ⟨i1, i2⟩ := ih h3
      exact ⟨i1.mono h1, i2⟩
    | some m =>
      simp only [hlSafe, hlSpans, hf, Bool.and_eq_true, decide_eq_true_eq] at h ⊢
      obtain ⟨⟨⟨⟨h1, h2⟩, h3⟩, h4⟩, h5⟩ := h
      obtain ⟨i1, i2⟩ := ih h5
      refine ⟨⟨h1, i1.mono (by omega)⟩, ?_⟩
      intro p hp
      rcases List.mem_cons.mp hp with rfl | hp
      · simp only []; omega
      · exact i2 p hp

/-- `hlWalk` = decoration of `source` by the spans of the walk -/
theorem hlWalk_eq_decorateFrom {source : List Nat} {rm : List WMatch} (dl dr : List Nat) {ws : List WordShape}
    {wi off : Nat} (h : hlSafe source rm ws wi off = true) :
    hlWalk source rm dl dr ws wi off = decorateFrom source dl dr (hlSpans rm ws wi) off := by
  induction ws generalizing wi off with
  | nil => rfl
  | cons w ws ih =>
    cases hf : rm.find? (fun m => m.offset == wi) with
    | none =>
      simp only [hlSafe, hf, Bool.and_eq_true, decide_eq_true_eq] at h
      obtain ⟨⟨h1, h2⟩, h3⟩ := h
      simp only [hlWalk, hlSpans, hf]
      rw [ih h3]
      exact decorateFrom_prefix source dl dr h1 (hlSafe_spans h3).1
    | some m =>
      simp only [hlSafe, hf, Bool.and_eq_true, decide_eq_true_eq] at h
      obtain ⟨⟨⟨⟨h1, h2⟩, h3⟩, h4⟩, h5⟩ := h
      simp only [hlWalk, hlSpans, hf, decorateFrom]
      have e : w.lo + m.subLo + (m.subHi - m.subLo) = w.lo + m.subHi := by omega
      rw [ih h5, e, List.append_assoc _ (slice source (w.lo + m.subHi) w.hi),
        decorateFrom_prefix source dl dr h3 (hlSafe_spans h5).1]

theorem hlWalk_eq_decorate {source : List Nat} {rm : List WMatch} (dl dr : List Nat) {ws : List WordShape}
    (h : hlSafe source rm ws 0 0 = true) :
    hlWalk source rm dl dr ws 0 0 = decorate source (hlSpans rm ws 0) dl dr :=
  hlWalk_eq_decorateFrom dl dr h

/-- with empty markers the walk copies `source` unchanged -/
theorem hlWalk_nil_markers {source : List Nat} {rm : List WMatch} {ws : List WordShape}
    (h : hlSafe source rm ws 0 0 = true) : hlWalk source rm [] [] ws 0 0 = source := by
  rw [hlWalk_eq_decorate [] [] h, decorate_nil source (hlSafe_spans h).1]

/-- deleting the markers by position from the walk's output gives back `source` -/
theorem unmark_hlWalk {source : List Nat} {rm : List WMatch} (dl dr : List Nat) {ws : List WordShape}
    (h : hlSafe source rm ws 0 0 = true) :
    unmark dl.length dr.length (hlSpans rm ws 0) (hlWalk source rm dl dr ws 0 0) = source := by
  rw [hlWalk_eq_decorate dl dr h, unmark_decorate source dl dr (hlSafe_spans h).1 (hlSafe_spans h).2]

/-- the returned title never contains NUL, whatever the hit and the markers (even markers containing NUL) -/
theorem zero_not_mem_highlight (h : Hit) (dl dr : List Nat) : 0 ∉ highlight h dl dr := by
  simp [highlight]

theorem highlight_eq_stripNul (h : Hit) (dl dr : List Nat) :
    highlight h dl dr = stripNul (hlWalk h.title.source h.rmatches dl dr h.title.words 0 0) := rfl

/-! ## the trap sites of `highlight` (`hlSafe`) under the tokenizer / matcher guarantees -/

/-- a record match fits the word it points to (weaker than `RMatchOK`: `subLo` need not be 0) -/
def MatchFits (words : List WordShape) (m : WMatch) : Prop :=
  ∀ w, words[m.offset]? = some w → m.subLo ≤ m.subHi ∧ w.lo + m.subHi ≤ w.hi

/-- consecutive words from `off` on: in order, non-overlapping, inside a text of `len` characters -/
def WordsFrom (len : Nat) : Nat → List WordShape → Prop
  | _, [] => True
  | off, w :: ws => off ≤ w.lo ∧ w.lo ≤ w.hi ∧ w.hi ≤ len ∧ WordsFrom len w.hi ws

theorem wordsFrom_of_indexed {len : Nat} {ws : List WordShape} {off : Nat}
    (hb : ∀ w ∈ ws, w.lo < w.hi ∧ w.hi ≤ len)
    (ho : ∀ i (h : i + 1 < ws.length), (ws[i]).hi ≤ (ws[i + 1]).lo)
    (h0 : ∀ w, ws[0]? = some w → off ≤ w.lo) : WordsFrom len off ws := by
  induction ws generalizing off with
  | nil => trivial
  | cons w ws ih =>
    have hw := hb w (by simp)
    refine ⟨h0 w (by simp), Nat.le_of_lt hw.1, hw.2, ih (fun v hv => hb v (by simp [hv])) ?_ ?_⟩
    · intro i hi
      have := ho (i + 1) (by simpa using hi)
      simpa using this
    · intro v hv
      cases ws with
      | nil => simp at hv
      | cons v' ws' =>
        simp at hv; subst hv
        have := ho 0 (by simp)
        simpa using this

theorem TextOK.wordsFrom {t : Text} (ht : TextOK t) : WordsFrom t.source.length 0 t.words :=
  wordsFrom_of_indexed (fun w hw => by rw [ht.lens.1]; exact ht.bounds w hw) ht.ordered (fun _ _ => Nat.zero_le _)

theorem hlSafe_of_wordsFrom {source : List Nat} {rm : List WMatch} {ws : List WordShape} {wi off : Nat}
    (hoff : off ≤ source.length)
    (hw : WordsFrom source.length off ws)
    (hm : ∀ m ∈ rm, ∀ k w, ws[k]? = some w → m.offset = wi + k → m.subLo ≤ m.subHi ∧ w.lo + m.subHi ≤ w.hi) :
    hlSafe source rm ws wi off = true := by
  induction ws generalizing wi off with
  | nil => simpa [hlSafe] using hoff
  | cons w ws ih =>
    obtain ⟨h1, h2, h3, h4⟩ := hw
    have hrest : hlSafe source rm ws (wi + 1) w.hi = true := by
      refine ih h3 h4 ?_
      intro m hmem k v hk ho
      exact hm m hmem (k + 1) v (by simpa using hk) (by omega)
    cases hf : rm.find? (fun m => m.offset == wi) with
    | none =>
      simp only [hlSafe, hf, Bool.and_eq_true, decide_eq_true_eq]
      exact ⟨⟨by omega, h3⟩, hrest⟩
    | some m =>
      have hmem := List.mem_of_find?_eq_some hf
      have hoffm : m.offset = wi := by simpa using List.find?_some hf
      have := hm m hmem 0 w (by simp) (by omega)
      simp only [hlSafe, hf, Bool.and_eq_true, decide_eq_true_eq]
      exact ⟨⟨⟨⟨by omega, this.1⟩, this.2⟩, h3⟩, hrest⟩

/-- **trap sites of `highlight` (C01)**: for a well-formed title and record matches that fit their words,
    every slice `source[a .. b]` taken by `highlight` has `a ≤ b ≤ source.len()` -/
theorem hlSafe_of_textOK {t : Text} {rm : List WMatch} (ht : TextOK t) (hm : ∀ m ∈ rm, MatchFits t.words m) :
    hlSafe t.source rm t.words 0 0 = true := by
  refine hlSafe_of_wordsFrom (Nat.zero_le _) ht.wordsFrom ?_
  intro m hmem k w hk ho
  exact hm m hmem w (by rw [ho, Nat.zero_add]; exact hk)

/-! ## the spans of the walk as a map over the record matches -/

/-- the span `(start, length)` a record match marks in the title -/
def spanOf (words : List WordShape) (m : WMatch) : Nat × Nat :=
  ((words.getD m.offset default).lo + m.subLo, m.subHi - m.subLo)

theorem hlSpans_nil (ws : List WordShape) (wi : Nat) : hlSpans [] ws wi = [] := by
  induction ws generalizing wi with
  | nil => rfl
  | cons w ws ih => simp [hlSpans, ih]

theorem hlSpans_cons_lt (m : WMatch) (rm : List WMatch) (ws : List WordShape) {wi : Nat} (h : m.offset < wi) :
    hlSpans (m :: rm) ws wi = hlSpans rm ws wi := by
  induction ws generalizing wi with
  | nil => rfl
  | cons w ws ih =>
    have hne : (m.offset == wi) = false := by simp; omega
    simp only [hlSpans, List.find?_cons, hne]
    rw [ih (by omega)]

theorem hlSpans_eq_map_aux (words : List WordShape) (ws : List WordShape) :
    ∀ (pre : List WordShape) (rm : List WMatch), words = pre ++ ws →
      rm.Pairwise (fun a b => a.offset < b.offset) →
      (∀ m ∈ rm, pre.length ≤ m.offset ∧ m.offset < words.length) →
      hlSpans rm ws pre.length = rm.map (spanOf words) := by
  induction ws with
  | nil =>
    intro pre rm hw _ hb
    cases rm with
    | nil => rfl
    | cons m rest =>
      have := hb m (by simp)
      simp [hw] at this; omega
  | cons w ws ih =>
    intro pre rm hw hs hb
    have hw' : words = (pre ++ [w]) ++ ws := by simp [hw]
    have hlen : (pre ++ [w]).length = pre.length + 1 := by simp
    cases rm with
    | nil => exact hlSpans_nil _ _
    | cons m rest =>
      rw [List.pairwise_cons] at hs
      by_cases hm : m.offset = pre.length
      · have hf : (m :: rest).find? (fun x => x.offset == pre.length) = some m := by
          simp [hm]
        simp only [hlSpans, hf, List.map_cons]
        rw [hlSpans_cons_lt m rest ws (by omega), ← hlen,
          ih (pre ++ [w]) rest hw' hs.2 (fun x hx => by
            have := hs.1 x hx; have := hb x (by simp [hx]); rw [hlen]; omega)]
        congr 1
        simp [spanOf, hm, hw]
      · have hgt := (hb m (by simp)).1
        have hf : (m :: rest).find? (fun x => x.offset == pre.length) = none := by
          rw [List.find?_eq_none]
          intro x hx
          have : pre.length < x.offset := by
            rcases List.mem_cons.mp hx with rfl | hx
            · omega
            · have := hs.1 x hx; omega
          simp; omega
        simp only [hlSpans, hf]
        rw [← hlen]
        exact ih (pre ++ [w]) (m :: rest) hw' (List.pairwise_cons.mpr hs) (fun x hx => by
          have h1 := hb x hx
          have : pre.length < x.offset := by
            rcases List.mem_cons.mp hx with rfl | hx
            · omega
            · have := hs.1 x hx; omega
          rw [hlen]; omega)

/-- for record matches sorted by strictly increasing offset (at most one per word) and pointing into the title,
    the highlighted spans are the matches' spans, in the order of the matches -/
theorem hlSpans_eq_map {words : List WordShape} {rm : List WMatch}
    (hs : rm.Pairwise (fun a b => a.offset < b.offset)) (hb : ∀ m ∈ rm, m.offset < words.length) :
    hlSpans rm words 0 = rm.map (spanOf words) :=
  hlSpans_eq_map_aux words words [] rm rfl hs (fun m hm => ⟨Nat.zero_le _, hb m hm⟩)

end Lucid
