/-
  LucidProofs.Lemmas.StableText — texts the tokenizer leaves alone.

  `Stable E cs`: the typed text `cs` is one word already in normal form: non-empty, no separator inside, begins
  and ends with a letter or digit, every character is its own lower-case form (`lower1 c = c`; since the D5 fix
  `TextOwn::lower` lower-cases every character unconditionally, so this — not "no upper-case character" — is what
  makes `lower` the identity), and the language's compose / reduce tables do not change it. For such a text both tokenizer pipelines of the source return exactly one word `(0, |cs|)` over
  the unchanged characters (`tokenizeQuery_stable`, `tokenizeRecord_stable`): this discharges the premises
  "the tokenised query is the single unfinished word … with characters …" of the end-to-end findability
  theorems (C03, C04, C13, C14).

  Conversely the characters of every word of a tokenised title, and every prefix of them ending in a letter or
  digit, satisfy all clauses of `Stable` except normaliser-stability (`stable_of_title_prefix`): the characters
  of a tokenised text are `lower1`-images (`tokenizeRecord_chars_lower_fixed`), and `lower1` is idempotent
  (`UnicodeFacts.lower_idem`), so `lower_fixed` follows from the pipeline — nothing about upper-case characters
  has to be assumed (the un-lowerable capitals of finding D4 are fixed by `lower1` too).
-/
import LucidProofs.C15

namespace Lucid

/-- A typed text that is one word in normal form. All clauses are decidable (`Stable.decidable`). -/
structure Stable (E : Env) (cs : List Nat) : Prop where
  nonempty    : cs ≠ []
  no_sep      : ∀ c ∈ cs, isSepChar E.U E.K c = false
  first_alnum : cs.head?.map E.U.isAlnum = some true
  last_alnum  : cs.getLast?.map E.U.isAlnum = some true
  lower_fixed : ∀ c ∈ cs, E.U.lower1 c = c
  compose_id  : compose E.T cs = cs
  reduce_none : reduce E.T cs = none

theorem stable_iff (E : Env) (cs : List Nat) :
    Stable E cs ↔ (cs ≠ [] ∧ (∀ c ∈ cs, isSepChar E.U E.K c = false) ∧ cs.head?.map E.U.isAlnum = some true ∧
      cs.getLast?.map E.U.isAlnum = some true ∧ (∀ c ∈ cs, E.U.lower1 c = c) ∧
      compose E.T cs = cs ∧ reduce E.T cs = none) :=
  ⟨fun h => ⟨h.1, h.2, h.3, h.4, h.5, h.6, h.7⟩, fun ⟨a, b, c, d, e, f, g⟩ => ⟨a, b, c, d, e, f, g⟩⟩

instance Stable.decidable (E : Env) (cs : List Nat) : Decidable (Stable E cs) :=
  decidable_of_iff _ (stable_iff E cs).symm

/-! ### list helpers -/

/-- a run without separators is one span -/
theorem splitSpans_nosep_some (isSep : Nat → Bool) (cs : List Nat) (pos s : Nat)
    (h : ∀ c ∈ cs, isSep c = false) : splitSpans isSep cs pos (some s) = [(s, pos + cs.length)] := by
  induction cs generalizing pos with
  | nil => simp [splitSpans]
  | cons c cs ih =>
    have hc : isSep c = false := h c (List.mem_cons_self ..)
    simp only [splitSpans, hc, Bool.false_eq_true, if_false]
    rw [ih (pos + 1) (fun c hc => h c (List.mem_cons_of_mem _ hc))]
    simp only [List.length_cons]
    congr 2; omega

theorem splitSpans_nosep_none (isSep : Nat → Bool) (cs : List Nat) (pos : Nat) (hne : cs ≠ [])
    (h : ∀ c ∈ cs, isSep c = false) : splitSpans isSep cs pos none = [(pos, pos + cs.length)] := by
  cases cs with
  | nil => exact absurd rfl hne
  | cons c cs =>
    have hc : isSep c = false := h c (List.mem_cons_self ..)
    simp only [splitSpans, hc, Bool.false_eq_true, if_false]
    rw [splitSpans_nosep_some isSep cs (pos + 1) pos (fun c hc => h c (List.mem_cons_of_mem _ hc))]
    simp only [List.length_cons]
    congr 2; omega

theorem takeWhile_head_false {α : Type} (p : α → Bool) (l : List α) (h : l.head?.map p = some false) :
    l.takeWhile p = [] := by
  cases l with
  | nil => rfl
  | cons a l =>
    simp only [List.head?_cons, Option.map_some, Option.some.injEq] at h
    simp [h]

theorem head?_map_not (p : Nat → Bool) (l : List Nat) (h : l.head?.map p = some true) :
    l.head?.map (fun c => !p c) = some false := by
  cases l with
  | nil => simp at h
  | cons a l => simp only [List.head?_cons, Option.map_some, Option.some.injEq] at h ⊢; simp [h]

/-! ### the pipelines on a stable text -/

/-- the text right after `TextOwn::from_str`, with a chosen `fin` flag -/
def oneWord (cs : List Nat) (f : Bool) : Text :=
  { words := [{ offset := 0, lo := 0, hi := cs.length, stem := cs.length, pos := none, fin := f }],
    source := cs, chars := cs, classes := cs.map (fun _ => CharClass.any) }

/-- the result of both pipelines on a stable text -/
def stableText (E : Env) (cs : List Nat) (f : Bool) : Text :=
  { words := [{ offset := 0, lo := 0, hi := cs.length,
                stem := if E.T.stemmer then E.stem cs else cs.length, pos := getPos E.T cs, fin := f }],
    source := cs, chars := cs, classes := cs.map (classOf E) }

theorem normalize_stable (E : Env) (cs : List Nat) (hc : compose E.T cs = cs) (hr : reduce E.T cs = none) :
    (Text.fromChars cs).normalize E = oneWord cs true := by
  simp [Text.normalize, Text.fromChars, hc, hr, oneWord]

theorem setFin_oneWord (cs : List Nat) (f b : Bool) : (oneWord cs f).setFin b = oneWord cs b := by
  simp [Text.setFin, oneWord, setLastFin]

theorem split_oneWord (E : Env) (cs : List Nat) (f : Bool) (hne : cs ≠ [])
    (hs : ∀ c ∈ cs, isSepChar E.U E.K c = false) :
    (oneWord cs f).split E [CharClass.whitespace, CharClass.control, CharClass.punctuation] = oneWord cs f := by
  simp only [Text.split, oneWord, List.map_cons, List.map_nil, List.flatten_cons, List.flatten_nil,
    List.append_nil, splitWord, patMatches_sep, slice_full]
  rw [splitSpans_nosep_none _ cs 0 hne hs]
  simp [renumber, WordShape.len]

theorem strip_oneWord (E : Env) (cs : List Nat) (f : Bool) (hne : cs ≠ [])
    (h1 : cs.head?.map E.U.isAlnum = some true) (h2 : cs.getLast?.map E.U.isAlnum = some true) :
    (oneWord cs f).strip E [CharClass.notAlphaNum] = oneWord cs f := by
  have hl : 0 < cs.length := List.length_pos_iff.2 hne
  have e1 : cs.takeWhile (fun c => !E.U.isAlnum c) = [] :=
    takeWhile_head_false _ _ (head?_map_not _ _ h1)
  have e2 : cs.reverse.takeWhile (fun c => !E.U.isAlnum c) = [] := by
    apply takeWhile_head_false
    apply head?_map_not
    rw [List.head?_reverse]; exact h2
  simp only [Text.strip, oneWord, List.map_cons, List.map_nil, stripWord, patMatches_notAlnum, Nat.sub_zero,
    slice_full, e1, e2, List.length_nil, List.take_nil, Nat.add_zero, ne_eq, not_true_eq_false, decide_false,
    Bool.or_false]
  simp [renumber, WordShape.len, hl]

theorem map_lower_fixed (E : Env) (cs : List Nat) (h : ∀ c ∈ cs, E.U.lower1 c = c) : cs.map E.U.lower1 = cs := by
  calc cs.map E.U.lower1 = cs.map id := List.map_congr_left h
    _ = cs := List.map_id cs

theorem lower_oneWord (E : Env) (cs : List Nat) (f : Bool) (h : ∀ c ∈ cs, E.U.lower1 c = c) :
    (oneWord cs f).lower E = oneWord cs f := by
  have : (oneWord cs f).chars.map E.U.lower1 = (oneWord cs f).chars := map_lower_fixed E cs h
  simp only [Text.lower, this]

theorem tail_oneWord (E : Env) (cs : List Nat) (f : Bool) :
    ((((oneWord cs f).setPos E).setCharClasses E).setStem E) = stableText E cs f := by
  simp [Text.setPos, Text.setCharClasses, Text.setStem, oneWord, stableText, slice_full, WordShape.len]

/-- **`tokenize_query` on a stable text**: exactly the one unfinished word `(0, |cs|)` over the unchanged
    characters. -/
theorem tokenizeQuery_stable (E : Env) (cs : List Nat) (h : Stable E cs) :
    tokenizeQuery Gen.srcProg E cs = stableText E cs false := by
  show ((((((((Text.fromChars cs).normalize E).setFin false).split E _).strip E _).lower E).setPos E).setCharClasses E).setStem E = _
  rw [normalize_stable E cs h.compose_id h.reduce_none, setFin_oneWord, split_oneWord E cs _ h.nonempty h.no_sep,
    strip_oneWord E cs _ h.nonempty h.first_alnum h.last_alnum, lower_oneWord E cs _ h.lower_fixed, tail_oneWord]

/-- **`tokenize_record` on a stable text**: exactly the one finished word `(0, |cs|)`. -/
theorem tokenizeRecord_stable (E : Env) (cs : List Nat) (h : Stable E cs) :
    tokenizeRecord Gen.srcProg E cs = stableText E cs true := by
  show (((((((Text.fromChars cs).normalize E).split E _).strip E _).lower E).setPos E).setCharClasses E).setStem E = _
  rw [normalize_stable E cs h.compose_id h.reduce_none, split_oneWord E cs _ h.nonempty h.no_sep,
    strip_oneWord E cs _ h.nonempty h.first_alnum h.last_alnum, lower_oneWord E cs _ h.lower_fixed, tail_oneWord]

/-- the word of `stableText` -/
def stableWord (E : Env) (cs : List Nat) (f : Bool) : WordShape :=
  { offset := 0, lo := 0, hi := cs.length,
    stem := if E.T.stemmer then E.stem cs else cs.length, pos := getPos E.T cs, fin := f }

theorem stableText_words (E : Env) (cs : List Nat) (f : Bool) : (stableText E cs f).words = [stableWord E cs f] := rfl
theorem stableText_chars (E : Env) (cs : List Nat) (f : Bool) : (stableText E cs f).chars = cs := rfl
theorem stableWord_len (E : Env) (cs : List Nat) (f : Bool) : (stableWord E cs f).len = cs.length := rfl
theorem stableWord_fin (E : Env) (cs : List Nat) (f : Bool) : (stableWord E cs f).fin = f := rfl
theorem stableWord_lo (E : Env) (cs : List Nat) (f : Bool) : (stableWord E cs f).lo = 0 := rfl
theorem stableWord_hi (E : Env) (cs : List Nat) (f : Bool) : (stableWord E cs f).hi = cs.length := rfl
theorem wchars_stableText (E : Env) (cs : List Nat) (f : Bool) :
    wchars (stableText E cs f) (stableWord E cs f) = cs := by
  simp [wchars, stableText, stableWord, slice_full]

/-- The statement in the form the findability theorems consume: the tokenised query has exactly one word `v`,
    with `v.lo = 0`, `v.hi = |cs|`, `v.fin = false`, over `chars = cs`, and `wchars … v = cs`. -/
theorem tokenizeQuery_stable_word (E : Env) (cs : List Nat) (h : Stable E cs) :
    ∃ v, (tokenizeQuery Gen.srcProg E cs).words = [v] ∧ v.lo = 0 ∧ v.hi = cs.length ∧ v.fin = false ∧
      v.len = cs.length ∧ (tokenizeQuery Gen.srcProg E cs).chars = cs ∧
      wchars (tokenizeQuery Gen.srcProg E cs) v = cs := by
  rw [tokenizeQuery_stable E cs h]
  exact ⟨stableWord E cs false, rfl, rfl, rfl, rfl, rfl, rfl, wchars_stableText E cs false⟩

theorem tokenizeRecord_stable_word (E : Env) (cs : List Nat) (h : Stable E cs) :
    ∃ v, (tokenizeRecord Gen.srcProg E cs).words = [v] ∧ v.lo = 0 ∧ v.hi = cs.length ∧ v.fin = true ∧
      v.len = cs.length ∧ (tokenizeRecord Gen.srcProg E cs).chars = cs ∧
      wchars (tokenizeRecord Gen.srcProg E cs) v = cs := by
  rw [tokenizeRecord_stable E cs h]
  exact ⟨stableWord E cs true, rfl, rfl, rfl, rfl, rfl, rfl, wchars_stableText E cs true⟩

/-! ### words of tokenised titles are almost stable -/

theorem take_head? {α : Type} (l : List α) (k : Nat) (hk : 1 ≤ k) : (l.take k).head? = l.head? := by
  cases l with
  | nil => simp
  | cons a l =>
    cases k with
    | zero => omega
    | succ k => simp

/-- the word characters of a text meeting `TokInv`: no separators, alphanumeric at both ends, the only
    upper-case characters are the un-lowerable ones -/
theorem TokInv.wchars_facts {E : Env} {q : Bool} {s : List Nat} {t : Text} (h : TokInv E q s t)
    (w : WordShape) (hw : w ∈ t.words) :
    wchars t w ≠ [] ∧ (wchars t w).length = w.len ∧
    (∀ c ∈ wchars t w, isSepChar E.U E.K c = false) ∧
    (wchars t w).head?.map E.U.isAlnum = some true ∧
    (wchars t w).getLast?.map E.U.isAlnum = some true ∧
    (∀ c ∈ wchars t w, E.U.isUppercase c = true → E.U.lower1 c = c) := by
  obtain ⟨hl, hpos⟩ := h.slice_length w hw
  have hb := h.bounds w hw
  have hne : wchars t w ≠ [] := by
    intro e; simp only [wchars] at e; rw [e] at hl; simp at hl; omega
  refine ⟨hne, hl, h.no_sep w hw, ?_, ?_, h.no_upper w hw⟩
  · obtain ⟨c, hc, ha⟩ := h.first_alnum w hw
    have : (wchars t w)[0]? = some c := by
      simp only [wchars]; rw [slice_getElem?]; simp only [Nat.add_zero]
      rw [if_pos (by omega)]; exact hc
    rw [List.head?_eq_getElem?, this]; simp [ha]
  · obtain ⟨c, hc, ha⟩ := h.last_alnum w hw
    have : (wchars t w)[w.len - 1]? = some c := by
      simp only [wchars]; rw [slice_getElem?]
      have e : w.lo + (w.len - 1) = w.hi - 1 := by simp only [WordShape.len]; omega
      rw [if_pos (by simp only [WordShape.len]; omega), e]; exact hc
    rw [List.getLast?_eq_getElem?]
    simp only [wchars] at hl this ⊢
    rw [hl, this]; simp [ha]

/-- the six steps after `normalize` / `fin` -/
def pipeTail (E : Env) (t : Text) : Text :=
  (((((t.split E [CharClass.whitespace, CharClass.control, CharClass.punctuation]).strip E
    [CharClass.notAlphaNum]).lower E).setPos E).setCharClasses E).setStem E

/-- the only step after `normalize` that touches the character array is `lower`, which maps `lower1` over it -/
theorem pipeTail_chars (E : Env) (t : Text) : (pipeTail E t).chars = t.chars.map E.U.lower1 := rfl

/-- **Every character of a tokenised text is its own lower-case form** (both pipelines of the source), given
    only that `lower1` is idempotent (`UnicodeFacts.lower_idem`). -/
theorem tokenizeRecord_chars_lower_fixed (E : Env) (hU : UnicodeFacts E.U E.K) (s : List Nat) :
    ∀ c ∈ (tokenizeRecord Gen.srcProg E s).chars, E.U.lower1 c = c := by
  intro c hc
  have e : tokenizeRecord Gen.srcProg E s = pipeTail E ((Text.fromChars s).normalize E) := rfl
  rw [e, pipeTail_chars] at hc
  obtain ⟨c0, _, rfl⟩ := List.mem_map.1 hc
  exact hU.lower_idem c0

theorem tokenizeQuery_chars_lower_fixed (E : Env) (hU : UnicodeFacts E.U E.K) (s : List Nat) :
    ∀ c ∈ (tokenizeQuery Gen.srcProg E s).chars, E.U.lower1 c = c := by
  intro c hc
  have e : tokenizeQuery Gen.srcProg E s = pipeTail E (((Text.fromChars s).normalize E).setFin false) := rfl
  rw [e, pipeTail_chars] at hc
  obtain ⟨c0, _, rfl⟩ := List.mem_map.1 hc
  exact hU.lower_idem c0

theorem mem_chars_of_mem_wchars {t : Text} {w : WordShape} {c : Nat} (h : c ∈ wchars t w) : c ∈ t.chars := by
  simp only [wchars, slice] at h
  exact List.mem_of_mem_drop (List.mem_of_mem_take h)

/-- the word characters of a tokenised title are fixed by lower-casing -/
theorem wchars_title_lower_fixed (E : Env) (hU : UnicodeFacts E.U E.K) (s : List Nat) (w : WordShape) :
    ∀ c ∈ wchars (tokenizeRecord Gen.srcProg E s) w, E.U.lower1 c = c :=
  fun c hc => tokenizeRecord_chars_lower_fixed E hU s c (mem_chars_of_mem_wchars hc)

/-- **Prefixes of title words are stable up to one residual condition.** For a title produced by
    `tokenize_record`, a word `w` of it and `1 ≤ k`, the prefix `p` of `k` characters of the word, if it ends
    in a letter or digit, satisfies every clause of `Stable` except stability under the language's
    compose/reduce tables — a prefix can end in the first half of a two-character table key; that is the only
    hypothesis left (`hc`, `hr`). That every character of `p` is its own lower-case form follows from the
    pipeline (`wchars_title_lower_fixed`). -/
theorem stable_of_title_prefix (E : Env) (hU : UnicodeFacts E.U E.K) (hT : TablesOK E.T = true) (hS : StemHyp E)
    (s : List Nat) (w : WordShape) (hw : w ∈ (tokenizeRecord Gen.srcProg E s).words) (k : Nat) (hk : 1 ≤ k)
    (hlast : ((wchars (tokenizeRecord Gen.srcProg E s) w).take k).getLast?.map E.U.isAlnum = some true)
    (hc : compose E.T ((wchars (tokenizeRecord Gen.srcProg E s) w).take k)
            = (wchars (tokenizeRecord Gen.srcProg E s) w).take k)
    (hr : reduce E.T ((wchars (tokenizeRecord Gen.srcProg E s) w).take k) = none) :
    Stable E ((wchars (tokenizeRecord Gen.srcProg E s) w).take k) := by
  have hi : TokInv E false s (tokenizeRecord Gen.srcProg E s) := C15_record_anyK E hU hT hS s
  obtain ⟨hne, _, hsep, hfirst, _, _⟩ := hi.wchars_facts w hw
  refine ⟨?_, fun c hc => hsep c (List.mem_of_mem_take hc), ?_, hlast,
    fun c hc => wchars_title_lower_fixed E hU s w c (List.mem_of_mem_take hc), hc, hr⟩
  · intro e
    rw [List.take_eq_nil_iff] at e
    rcases e with e | e
    · omega
    · exact hne e
  · rw [take_head? _ k hk]; exact hfirst

/-- the whole word of a tokenised title (no prefix taken) -/
theorem stable_of_title_word (E : Env) (hU : UnicodeFacts E.U E.K) (hT : TablesOK E.T = true) (hS : StemHyp E)
    (s : List Nat) (w : WordShape) (hw : w ∈ (tokenizeRecord Gen.srcProg E s).words)
    (hc : compose E.T (wchars (tokenizeRecord Gen.srcProg E s) w) = wchars (tokenizeRecord Gen.srcProg E s) w)
    (hr : reduce E.T (wchars (tokenizeRecord Gen.srcProg E s) w) = none) :
    Stable E (wchars (tokenizeRecord Gen.srcProg E s) w) := by
  have hi : TokInv E false s (tokenizeRecord Gen.srcProg E s) := C15_record_anyK E hU hT hS s
  obtain ⟨hne, _, hsep, hfirst, hlast, _⟩ := hi.wchars_facts w hw
  exact ⟨hne, hsep, hfirst, hlast, wchars_title_lower_fixed E hU s w, hc, hr⟩

/-! ### the query and the record pipeline cut the same text into the same words -/

theorem stable_lower_words (E : Env) (t : Text) : (t.lower E).words = t.words := rfl

/-- spans and characters of the pipeline result, for a text with one word covering everything -/
theorem pipeTail_spans (E : Env) (t : Text) (w0 : WordShape) (hw : t.words = [w0]) (hlo : w0.lo = 0)
    (hhi : w0.hi = t.chars.length) :
    (pipeTail E t).words.map WordShape.span =
      ((splitSpanList (isSepChar E.U E.K) w0.fin t.chars).map
        (stripSpan (fun c => !E.U.isAlnum c) t.chars)).filter (fun x => decide (x.lo < x.hi)) ∧
    (pipeTail E t).chars = t.chars.map E.U.lower1 := by
  obtain ⟨a1, _, a3, _⟩ :=
    split_single E [CharClass.whitespace, CharClass.control, CharClass.punctuation] t w0 hw hlo hhi
  obtain ⟨b1, _, b3, _⟩ := strip_spans E [CharClass.notAlphaNum]
    (t.split E [CharClass.whitespace, CharClass.control, CharClass.punctuation])
  rw [patMatches_sep] at a1
  rw [patMatches_notAlnum, a1, a3] at b1
  unfold pipeTail
  obtain ⟨s1, _, s3, _, _⟩ := setStem_spans E (((((t.split E [CharClass.whitespace, CharClass.control,
    CharClass.punctuation]).strip E [CharClass.notAlphaNum]).lower E).setPos E).setCharClasses E)
  obtain ⟨_, c2, c3, _⟩ := setCharClasses_spec E ((((t.split E [CharClass.whitespace, CharClass.control,
    CharClass.punctuation]).strip E [CharClass.notAlphaNum]).lower E).setPos E)
  obtain ⟨p1, _, p3, _, _⟩ := setPos_spans E (((t.split E [CharClass.whitespace, CharClass.control,
    CharClass.punctuation]).strip E [CharClass.notAlphaNum]).lower E)
  constructor
  · rw [s1, c2, p1, stable_lower_words, b1]
  · rfl

def Span.range (x : Span) : Nat × Nat := (x.lo, x.hi)

theorem map_range_filter_congr {α : Type} (F G : α → Span) (l : List α)
    (h : ∀ a ∈ l, (F a).range = (G a).range) :
    ((l.map F).filter (fun x => decide (x.lo < x.hi))).map Span.range =
    ((l.map G).filter (fun x => decide (x.lo < x.hi))).map Span.range := by
  induction l with
  | nil => rfl
  | cons a l ih =>
    have ha := h a (List.mem_cons_self ..)
    have ih' := ih (fun b hb => h b (List.mem_cons_of_mem _ hb))
    simp only [Span.range, Prod.mk.injEq] at ha
    simp only [List.map_cons, List.filter_cons, ha.1, ha.2]
    split
    · simp only [List.map_cons, ih', Span.range, ha.1, ha.2]
    · exact ih'

theorem wchars_eq_of_range (t t' : Text) (hc : t.chars = t'.chars)
    (hr : t.words.map (fun w => w.span.range) = t'.words.map (fun w => w.span.range)) :
    t.words.map (wchars t) = t'.words.map (wchars t') := by
  have e : ∀ T : Text, T.words.map (wchars T) =
      (T.words.map (fun w => w.span.range)).map (fun p => slice T.chars p.1 p.2) := by
    intro T; rw [List.map_map]; rfl
  rw [e t, e t', hr, hc]

/-- **Typing a title as it was stored gives the same words.** For every text `s` the query pipeline and the
    record pipeline produce the same normalised characters and words with the same bounds (they differ only
    in the `fin` flag of the last word), hence the same list of word spellings. -/
theorem tokenize_query_record_same (E : Env) (hT : TablesOK E.T = true) (s : List Nat) :
    (tokenizeQuery Gen.srcProg E s).chars = (tokenizeRecord Gen.srcProg E s).chars ∧
    (tokenizeQuery Gen.srcProg E s).words.map (fun w => w.span.range) =
      (tokenizeRecord Gen.srcProg E s).words.map (fun w => w.span.range) ∧
    (tokenizeQuery Gen.srcProg E s).words.map (wchars (tokenizeQuery Gen.srcProg E s)) =
      (tokenizeRecord Gen.srcProg E s).words.map (wchars (tokenizeRecord Gen.srcProg E s)) := by
  have hq : tokenizeQuery Gen.srcProg E s = pipeTail E (((Text.fromChars s).normalize E).setFin false) := rfl
  have hr : tokenizeRecord Gen.srcProg E s = pipeTail E ((Text.fromChars s).normalize E) := rfl
  have hn := normalize_fromChars E hT s
  obtain ⟨⟨w0, hw, hlo, hhi, hf⟩, _, _⟩ := hn
  obtain ⟨⟨w1, hw1, hlo1, hhi1, hf1⟩, _, _⟩ := setFin_normInv E s true false _ (normalize_fromChars E hT s)
  have hch : (((Text.fromChars s).normalize E).setFin false).chars = ((Text.fromChars s).normalize E).chars := rfl
  obtain ⟨q1, q2⟩ := pipeTail_spans E _ w1 hw1 hlo1 hhi1
  obtain ⟨r1, r2⟩ := pipeTail_spans E _ w0 hw hlo hhi
  have hchars : (tokenizeQuery Gen.srcProg E s).chars = (tokenizeRecord Gen.srcProg E s).chars := by
    rw [hq, hr, q2, r2, hch]
  have hrange : (tokenizeQuery Gen.srcProg E s).words.map (fun w => w.span.range) =
      (tokenizeRecord Gen.srcProg E s).words.map (fun w => w.span.range) := by
    have e : ∀ T : Text, T.words.map (fun w => w.span.range) = (T.words.map WordShape.span).map Span.range := by
      intro T; rw [List.map_map]; rfl
    rw [e, e, hq, hr, q1, r1, hch]
    unfold splitSpanList
    rw [List.map_map, List.map_map]
    apply map_range_filter_congr
    intro a _
    rfl
  exact ⟨hchars, hrange, wchars_eq_of_range _ _ hchars hrange⟩

/-! ### plain ASCII lower-case letters and digits are stable -/

/-- `a`–`z` or `0`–`9` -/
def asciiLowerChar (c : Nat) : Bool := (decide (97 ≤ c) && decide (c ≤ 122)) || (decide (48 ≤ c) && decide (c ≤ 57))

/-- the text consists of ASCII lower-case letters and digits -/
def AsciiLower (cs : List Nat) : Prop := ∀ c ∈ cs, 97 ≤ c ∧ c ≤ 122 ∨ 48 ≤ c ∧ c ≤ 57

theorem asciiLower_iff (cs : List Nat) : AsciiLower cs ↔ ∀ c ∈ cs, asciiLowerChar c = true := by
  simp only [AsciiLower, asciiLowerChar, Bool.or_eq_true, Bool.and_eq_true, decide_eq_true_eq]

instance (cs : List Nat) : Decidable (AsciiLower cs) := decidable_of_iff _ (asciiLower_iff cs).symm

/-- Oracle hypothesis about Rust's `std` on the 36 code points `a`–`z`, `0`–`9` (checked by the harness together
    with `UnicodeFacts`): letters are alphabetic, digits numeric, none is whitespace or control, and each is its
    own lower-case form (`to_lowercase` leaves it alone). -/
structure AsciiFacts (U : Unicode) : Prop where
  alpha     : ∀ c, 97 ≤ c → c ≤ 122 → U.isAlphabetic c = true
  numeric   : ∀ c, 48 ≤ c → c ≤ 57 → U.isNumeric c = true
  not_space : ∀ c, asciiLowerChar c = true → U.isWhitespace c = false
  not_ctrl  : ∀ c, asciiLowerChar c = true → U.isControl c = false
  lower_fixed : ∀ c, asciiLowerChar c = true → U.lower1 c = c

/-- no key of the normalisation table consists of ASCII lower-case letters / digits only -/
def asciiFree (m : List (List Nat × List Nat)) : Bool := m.all (fun e => !(e.1.all asciiLowerChar))

/-- both normalisation tables of a language are free of pure-ASCII keys -/
def AsciiFreeTables (T : LangTables) : Bool := asciiFree T.compose && asciiFree T.reduce

theorem mapGet_none_of_asciiFree (m : List (List Nat × List Nat)) (hm : asciiFree m = true) (k : List Nat)
    (hk : k.all asciiLowerChar = true) : mapGet m k = none := by
  cases h : mapGet m k with
  | none => rfl
  | some v =>
    have hmem := mapGet_mem m k v h
    have := List.all_eq_true.1 hm _ hmem
    simp only [hk, Bool.not_true] at this
    cases this

/-- on an ASCII text the normaliser passes every character through unchanged -/
theorem normChunks_ascii (m : List (List Nat × List Nat)) (hm : asciiFree m = true) (w : List Nat)
    (hw : ∀ c ∈ w, asciiLowerChar c = true) : normChunks m w = w.map (fun c => ([c], [c])) := by
  induction w with
  | nil => rfl
  | cons a w ih =>
    have ha := hw a (List.mem_cons_self ..)
    have hw' : ∀ c ∈ w, asciiLowerChar c = true := fun c hc => hw c (List.mem_cons_of_mem _ hc)
    have e1 : mapGet m [a] = none := mapGet_none_of_asciiFree m hm [a] (by simp [ha])
    cases w with
    | nil => simp [normChunks, e1]
    | cons b w =>
      have hb := hw' b (List.mem_cons_self ..)
      have e2 : mapGet m [a, b] = none := mapGet_none_of_asciiFree m hm [a, b] (by simp [ha, hb])
      simp only [normChunks, e1, e2, List.map_cons]
      rw [ih hw']
      rfl

theorem flatten_map_singleton (w : List Nat) : (List.map (fun c => [c]) w).flatten = w := by
  induction w with
  | nil => rfl
  | cons a w ih => simp [ih]

theorem composeWith_ascii (m : List (List Nat × List Nat)) (hm : asciiFree m = true) (w : List Nat)
    (hw : ∀ c ∈ w, asciiLowerChar c = true) : composeWith m w = w := by
  simp only [composeWith, normChunks_ascii m hm w hw, List.map_map]
  exact flatten_map_singleton w

theorem reduceWith_ascii (m : List (List Nat × List Nat)) (hm : asciiFree m = true) (w : List Nat)
    (hw : ∀ c ∈ w, asciiLowerChar c = true) : reduceWith m w = none := by
  have := composeWith_ascii m hm w hw
  simp only [composeWith] at this
  simp only [reduceWith, this, if_true]

theorem srcPunctuation_ascii (c : Nat) (hc : asciiLowerChar c = true) :
    Gen.srcConsts.punctuation.contains c = false := by
  rw [Bool.eq_false_iff]
  intro h
  simp only [asciiLowerChar, Bool.or_eq_true, Bool.and_eq_true, decide_eq_true_eq] at hc
  simp only [Gen.srcConsts, List.contains_eq_mem, List.mem_cons, List.not_mem_nil, or_false,
    decide_eq_true_eq] at h
  omega

/-- **ASCII lower-case words are stable.** With the punctuation set of the source, a Unicode oracle meeting
    `AsciiFacts` and language tables without pure-ASCII keys, every non-empty text of letters `a`–`z` and digits
    is `Stable`: the tokenizer returns it as one word, unchanged. -/
theorem stable_of_asciiLower (E : Env) (hK : E.K = Gen.srcConsts) (hA : AsciiFacts E.U)
    (hF : AsciiFreeTables E.T = true) (cs : List Nat) (hcs : AsciiLower cs) (hne : cs ≠ []) : Stable E cs := by
  have hb := (asciiLower_iff cs).1 hcs
  simp only [AsciiFreeTables, Bool.and_eq_true] at hF
  have hal : ∀ c, asciiLowerChar c = true → E.U.isAlnum c = true := by
    intro c hc
    simp only [asciiLowerChar, Bool.or_eq_true, Bool.and_eq_true, decide_eq_true_eq] at hc
    simp only [Unicode.isAlnum, Bool.or_eq_true]
    rcases hc with h | h
    · exact Or.inl (hA.alpha c h.1 h.2)
    · exact Or.inr (hA.numeric c h.1 h.2)
  refine ⟨hne, ?_, ?_, ?_, fun c hc => hA.lower_fixed c (hb c hc), composeWith_ascii _ hF.1 cs hb,
    reduceWith_ascii _ hF.2 cs hb⟩
  · intro c hc
    simp only [isSepChar, hA.not_space c (hb c hc), hA.not_ctrl c (hb c hc), hK, srcPunctuation_ascii c (hb c hc),
      Bool.or_self]
  · cases cs with
    | nil => exact absurd rfl hne
    | cons a l => simp [hal a (hb a (List.mem_cons_self ..))]
  · have ha : cs.getLast? = some (cs.getLast hne) := List.getLast?_eq_some_getLast hne
    generalize cs.getLast hne = a at ha
    rw [ha]
    simp [hal a (hb a (List.mem_of_getLast? ha))]

theorem toyU_asciiFacts : AsciiFacts toyU := by
  refine ⟨?_, ?_, ?_, ?_, ?_⟩
  · intro c h1 h2; simp [toyU]; omega
  · intro c h1 h2; simp [toyU]; omega
  · intro c hc; simp [toyU, asciiLowerChar] at hc ⊢; omega
  · intro c hc; simp [toyU, asciiLowerChar] at hc ⊢; omega
  · intro c hc; simp [toyU, asciiLowerChar] at hc ⊢; omega

/-! ### non-vacuity -/

/-- "def" is stable for the toy ASCII oracle with the English tables; "Def", "de f", "de'" are not -/
example : Stable (toyEnv Gen.lang_en) [100, 101, 102] := by decide +kernel
example : ¬ Stable (toyEnv Gen.lang_en) [68, 101, 102] := by decide +kernel
example : ¬ Stable (toyEnv Gen.lang_en) [100, 101, 32, 102] := by decide +kernel
example : ¬ Stable (toyEnv Gen.lang_en) [100, 101, 39] := by decide +kernel
/-- "straße" is not stable in German (`ß` is reduced), "strasse" is -/
example : ¬ Stable (toyEnv Gen.lang_de) [115, 116, 114, 97, 223, 101] := by decide +kernel
example : Stable (toyEnv Gen.lang_de) [115, 116, 114, 97, 115, 115, 101] := by decide +kernel

example : (tokenizeQuery Gen.srcProg (toyEnv Gen.lang_en) [100, 101, 102]).words =
    [{ offset := 0, lo := 0, hi := 3, stem := 2, pos := none, fin := false }] := by
  rw [tokenizeQuery_stable _ _ (by decide +kernel)]; decide +kernel

end Lucid
