/-
  LucidProofs.Lemmas.DamlevRefine — the imperative loops of `Lucid.distanceM` (flat `size × size` buffer,
  reused and grown across calls) compute the recursive specification `DL.D`.
  The only thing assumed of the reused matrix is `MInv` (shape, sentinel row/column 0, cell (1,1) = 0);
  every call re-establishes it, so the result never depends on earlier calls.
-/
import LucidProofs.Lemmas.DamlevSpec

namespace Lucid
namespace DL

/-! ### fold invariants -/

theorem foldl_inv {σ α : Type} (g : σ → α → σ) (l : List α) :
    ∀ (P : Nat → σ → Prop) (s : σ), P 0 s →
      (∀ k (hk : k < l.length) s, P k s → P (k+1) (g s l[k])) → P l.length (l.foldl g s) := by
  induction l with
  | nil => intro P s h0 _; exact h0
  | cons x xs ih =>
    intro P s h0 hs
    have hp := hs 0 (by simp) s h0
    simp only [List.getElem_cons_zero] at hp
    exact ih (fun k => P (k+1)) (g s x) hp (fun k hk s' h' => by
      have := hs (k+1) (by simp; omega) s' h'
      simpa using this)

theorem foldl_range_inv {σ : Type} (f : σ → Nat → σ) (P : Nat → σ → Prop) (n : Nat) (s : σ)
    (h0 : P 0 s) (hs : ∀ k, k < n → ∀ s, P k s → P (k+1) (f s k)) : P n ((List.range n).foldl f s) := by
  have := foldl_inv f (List.range n) P s h0 (fun k hk s' h' => by
    rw [List.getElem_range]; exact hs k (by simpa using hk) s' h')
  simpa using this

theorem foldl_range1_inv {σ : Type} (f : σ → Nat → σ) (P : Nat → σ → Prop) (n : Nat) (s : σ)
    (h0 : P 0 s) (hs : ∀ k, k < n → ∀ s, P k s → P (k+1) (f s (k+1))) :
    P n ((List.range' 1 n).foldl f s) := by
  have := foldl_inv f (List.range' 1 n) P s h0 (fun k hk s' h' => by
    rw [List.getElem_range']
    have e : 1 + 1 * k = k + 1 := by omega
    rw [e]; exact hs k (by simpa using hk) s' h')
  simpa using this

theorem foldl_zipIdx_inv {σ : Type} (f : σ → Nat × Nat → σ) (P : Nat → σ → Prop) (c : List Nat) (s : σ)
    (h0 : P 0 s) (hs : ∀ k (hk : k < c.length) s, P k s → P (k+1) (f s (c[k], k))) :
    P c.length (c.zipIdx.foldl f s) := by
  have := foldl_inv f c.zipIdx P s h0 (fun k hk s' h' => by
    have hk' : k < c.length := by simpa using hk
    rw [List.getElem_zipIdx, Nat.zero_add]; exact hs k hk' s' h')
  simpa using this

/-! ### the flat layout `i * size + j` -/

/-- two cells of an `n`-wide matrix share a flat index only if they are the same cell -/
theorem flat_inj (n i j i' j' : Nat) (hj : j < n) (hj' : j' < n) :
    i * n + j = i' * n + j' ↔ i = i' ∧ j = j' := by
  constructor
  · intro h
    have key : i = i' := by
      rcases Nat.lt_trichotomy i i' with lt | e | gt
      · have h1 : (i+1) * n ≤ i' * n := Nat.mul_le_mul_right n lt
        have h2 : (i+1) * n = i * n + n := Nat.succ_mul i n
        omega
      · exact e
      · have h1 : (i'+1) * n ≤ i * n := Nat.mul_le_mul_right n gt
        have h2 : (i'+1) * n = i' * n + n := Nat.succ_mul i' n
        omega
    subst key; exact ⟨rfl, by omega⟩
  · intro ⟨e1, e2⟩; subst e1; subst e2; rfl

/-- row and column below the dimension ⇒ the flat index is inside an `n·n` buffer -/
theorem flat_lt (n i j : Nat) (hi : i < n) (hj : j < n) : i * n + j < n * n := by
  have h1 : (i+1) * n ≤ n * n := Nat.mul_le_mul_right n hi
  have h2 : (i+1) * n = i * n + n := Nat.succ_mul i n
  omega

/-- the buffer is exactly `size × size` -/
def WF (m : Mat) : Prop := m.raw.size = m.size * m.size

theorem set_size (m : Mat) (i j v : Nat) : (m.set i j v).size = m.size := rfl

theorem set_WF (m : Mat) (h : WF m) (i j v : Nat) : WF (m.set i j v) := by
  unfold WF Mat.set at *; simpa using h

theorem get_set (m : Mat) (hwf : WF m) (i j v i' j' : Nat)
    (hi : i < m.size) (hj : j < m.size) (hj' : j' < m.size) :
    (m.set i j v).get i' j' = if i' = i ∧ j' = j then v else m.get i' j' := by
  have hlt := flat_lt m.size i j hi hj
  unfold WF at hwf
  unfold Mat.get Mat.set
  simp only [Array.getD_eq_getD_getElem?, Array.getElem?_setIfInBounds]
  by_cases h : i' = i ∧ j' = j
  · obtain ⟨e1, e2⟩ := h; subst e1; subst e2
    simp [hwf, hlt]
  · have : ¬ (i * m.size + j = i' * m.size + j') := by
      intro e
      have := (flat_inj m.size i j i' j' hj hj').mp e
      exact h ⟨this.1.symm, this.2.symm⟩
    simp [h, this]

theorem get_set_same (m : Mat) (hwf : WF m) (S : Nat) (hS : m.size = S) (i j v : Nat) (hi : i < S) (hj : j < S) :
    (m.set i j v).get i j = v := by
  subst hS; rw [get_set m hwf i j v i j hi hj hj]; simp

theorem get_set_ne (m : Mat) (S : Nat) (hS : m.size = S) (i j v i' j' : Nat) (hj : j < S) (hj' : j' < S)
    (h : ¬ (i' = i ∧ j' = j)) : (m.set i j v).get i' j' = m.get i' j' := by
  subst hS
  unfold Mat.get Mat.set
  simp only [Array.getD_eq_getD_getElem?, Array.getElem?_setIfInBounds]
  have : ¬ (i * m.size + j = i' * m.size + j') := by
    intro e
    have := (flat_inj m.size i j i' j' hj hj').mp e
    exact h ⟨this.1.symm, this.2.symm⟩
  simp [this]

/-! ### what every call may assume about the reused matrix -/

/-- Shape and sentinels of the distance matrix; nothing is said about the other cells. -/
structure MInv (m : Mat) : Prop where
  wf   : m.raw.size = m.size * m.size
  two  : 2 ≤ m.size
  row0 : ∀ j, j < m.size → m.get 0 j = 10 * m.size
  col0 : ∀ i, i < m.size → m.get i 0 = 10 * m.size
  one  : m.get 1 1 = 0

/-- writing a cell outside row 0, column 0 and (1,1) keeps the invariant -/
theorem MInv_set (m : Mat) (h : MInv m) (i j v : Nat) (hi : 1 ≤ i) (hj : 1 ≤ j) (h11 : ¬ (i = 1 ∧ j = 1))
    (hj' : j < m.size) : MInv (m.set i j v) := by
  have h2 := h.two
  refine ⟨set_WF m h.wf i j v, h.two, ?_, ?_, ?_⟩
  · intro j' hj''
    rw [get_set_ne m m.size rfl i j v 0 j' hj' hj'' (by omega)]; exact h.row0 j' hj''
  · intro i' hi'
    rw [get_set_ne m m.size rfl i j v i' 0 hj' (by omega) (by omega)]; exact h.col0 i' hi'
  · rw [get_set_ne m m.size rfl i j v 1 1 hj' (by omega) (by omega)]; exact h.one

/-! ### `DistMatrix::init` -/

def initStep1 (m : Mat) (i : Nat) : Mat := (m.set i 0 (10 * m.size)).set 0 i (10 * m.size)
def initStep2 (m : Mat) (i : Nat) : Mat := (m.set i 1 (10 * (i - 1))).set 1 i (10 * (i - 1))

theorem init_eq (m : Mat) (h : m.size ≠ 0) :
    m.init = (List.range' 1 (((List.range m.size).foldl initStep1 m).size - 1)).foldl initStep2
      ((List.range m.size).foldl initStep1 m) := by
  unfold Mat.init; rw [if_neg h]; rfl

theorem init1_spec (m : Mat) (hwf : WF m) (h1 : 1 ≤ m.size) :
    let m1 := (List.range m.size).foldl initStep1 m
    m1.size = m.size ∧ WF m1 ∧ ∀ i, i < m.size → m1.get i 0 = 10 * m.size ∧ m1.get 0 i = 10 * m.size := by
  have := foldl_range_inv initStep1
    (fun k m1 => m1.size = m.size ∧ WF m1 ∧ ∀ i, i < k → m1.get i 0 = 10 * m.size ∧ m1.get 0 i = 10 * m.size)
    m.size m ⟨rfl, hwf, by intro i hi; omega⟩
    (by
      intro k hk m1 ⟨hs, hw, ih⟩
      have hw1 : WF (m1.set k 0 (10 * m1.size)) := set_WF m1 hw _ _ _
      refine ⟨hs, set_WF _ hw1 _ _ _, ?_⟩
      intro i hi
      unfold initStep1
      rw [get_set _ hw1 0 k _ i 0 (by rw [set_size]; omega) (by rw [set_size]; omega) (by rw [set_size]; omega),
          get_set _ hw k 0 _ i 0 (by omega) (by omega) (by omega),
          get_set _ hw1 0 k _ 0 i (by rw [set_size]; omega) (by rw [set_size]; omega) (by rw [set_size]; omega),
          get_set _ hw k 0 _ 0 i (by omega) (by omega) (by omega), hs]
      by_cases e : i = k
      · subst e; simp
      · have := ih i (by omega)
        simp [e, this.1, this.2])
  exact this

theorem init_spec (m : Mat) (hwf : WF m) (h2 : 2 ≤ m.size) : m.init.size = m.size ∧ MInv m.init := by
  obtain ⟨hs1, hw1, hb1⟩ := init1_spec m hwf (by omega)
  rw [init_eq m (by omega)]
  generalize (List.range m.size).foldl initStep1 m = m1 at hs1 hw1 hb1
  have := foldl_range1_inv initStep2
    (fun k m2 => m2.size = m.size ∧ WF m2 ∧
      (∀ i, i < m.size → m2.get i 0 = 10 * m.size ∧ m2.get 0 i = 10 * m.size) ∧ (1 ≤ k → m2.get 1 1 = 0))
    (m1.size - 1) m1 ⟨hs1, hw1, hb1, by intro h; omega⟩
    (by
      intro k hk m2 ⟨hs, hw, hb, h11⟩
      have hw' : WF (m2.set (k+1) 1 (10 * (k + 1 - 1))) := set_WF m2 hw _ _ _
      refine ⟨hs, set_WF _ hw' _ _ _, ?_, ?_⟩
      · intro i hi
        unfold initStep2
        rw [get_set_ne (m2.set (k+1) 1 _) m.size hs 1 (k+1) _ i 0 (by omega) (by omega) (by omega),
            get_set_ne m2 m.size hs (k+1) 1 _ i 0 (by omega) (by omega) (by omega),
            get_set_ne (m2.set (k+1) 1 _) m.size hs 1 (k+1) _ 0 i (by omega) (by omega) (by omega),
            get_set_ne m2 m.size hs (k+1) 1 _ 0 i (by omega) (by omega) (by omega)]
        exact hb i hi
      · intro _
        unfold initStep2
        by_cases e : k = 0
        · subst e
          exact get_set_same _ hw' m.size hs 1 1 _ (by omega) (by omega)
        · rw [get_set_ne (m2.set (k+1) 1 _) m.size hs 1 (k+1) _ 1 1 (by omega) (by omega) (by omega),
              get_set_ne m2 m.size hs (k+1) 1 _ 1 1 (by omega) (by omega) (by omega)]
          exact h11 (by omega))
  obtain ⟨hs2, hw2, hb2, h112⟩ := this
  generalize (List.range' 1 (m1.size - 1)).foldl initStep2 m1 = m2 at hs2 hw2 hb2 h112
  refine ⟨hs2, hw2, by omega, ?_, ?_, h112 (by omega)⟩
  · intro j hj; rw [hs2] at hj ⊢; exact (hb2 j hj).2
  · intro i hi; rw [hs2] at hi ⊢; exact (hb2 i hi).1

/-- `DistMatrix::new(n + 2)` satisfies the invariant -/
theorem MInv_new (n : Nat) : MInv (Mat.new (n + 2)) ∧ (Mat.new (n + 2)).size = n + 2 := by
  have := init_spec { size := n + 2, raw := Array.replicate ((n + 2) * (n + 2)) 0 } (by simp [WF]) (by simp)
  exact ⟨this.2, this.1⟩

/-! ### growth: `Vec::resize` keeps stale data, `init` repairs the sentinels -/

theorem arrResize_size (a : Array Nat) (n : Nat) : (arrResize a n).size = n := by
  unfold arrResize; split
  · simp; omega
  · simp; omega

theorem grow_spec (m : Mat) (h : MInv m) (need : Nat) : MInv (m.grow need) ∧ need ≤ (m.grow need).size ∧
    m.size ≤ (m.grow need).size := by
  unfold Mat.grow
  split
  · have h2 := h.two
    have := init_spec { size := need + need / 2, raw := arrResize m.raw ((need + need / 2) * (need + need / 2)) }
      (by simp [WF, arrResize_size]) (by show 2 ≤ need + need / 2; omega)
    simp only [] at this ⊢
    refine ⟨this.2, ?_, ?_⟩ <;> rw [this.1] <;> (try simp only []) <;> omega
  · exact ⟨h, by omega, Nat.le_refl _⟩

/-! ### `DistMatrix::prepare` -/

def prepStep1 (m : Mat) (p : Nat × Nat) : Mat := m.set (p.2 + 2) 1 (m.get (p.2 + 1) 1 + p.1)
def prepStep2 (m : Mat) (p : Nat × Nat) : Mat := m.set 1 (p.2 + 2) (m.get 1 (p.2 + 1) + p.1)

theorem prepare_eq (m : Mat) (c1 c2 : List Nat) :
    m.prepare c1 c2 = c2.zipIdx.foldl prepStep2
      (c1.zipIdx.foldl prepStep1 (m.grow (max (c1.length + 2) (c2.length + 2)))) := rfl

/-- state after the borders are written and rows `≤ i` are filled -/
structure Rows (K : Consts) (a b : CWord) (S i : Nat) (m : Mat) : Prop where
  size : m.size = S
  inv  : MInv m
  colB : ∀ r, r ≤ a.len → m.get (r+1) 1 = D K a b r 0
  cell : ∀ r c, r ≤ i → c ≤ b.len → m.get (r+1) (c+1) = D K a b r c

theorem prepare_rows (K : Consts) (a b : CWord) (ha : Aligned a) (hb : Aligned b) (m : Mat) (h : MInv m) :
    Rows K a b (m.prepare a.cost b.cost).size 0 (m.prepare a.cost b.cost) ∧
    max a.len b.len + 2 ≤ (m.prepare a.cost b.cost).size ∧ m.size ≤ (m.prepare a.cost b.cost).size := by
  rw [prepare_eq]
  obtain ⟨hg, hneed, hmono⟩ := grow_spec m h (max (a.cost.length + 2) (b.cost.length + 2))
  generalize m.grow (max (a.cost.length + 2) (b.cost.length + 2)) = m0 at hg hneed hmono
  unfold Aligned at ha hb
  have hla : a.len = a.ch.length := rfl
  have hlb : b.len = b.ch.length := rfl
  -- first loop: column border
  have h1 := foldl_zipIdx_inv prepStep1
    (fun k m1 => m1.size = m0.size ∧ MInv m1 ∧ ∀ r, r ≤ k → m1.get (r+1) 1 = D K a b r 0) a.cost m0
    ⟨rfl, hg, by intro r hr; have : r = 0 := by omega
                 subst this; simpa [D_zero_zero] using hg.one⟩
    (by
      intro k hk m1 ⟨hs, hi, hc⟩
      refine ⟨hs, ?_, ?_⟩
      · exact MInv_set m1 hi _ _ _ (by omega) (by omega) (by omega) (by omega)
      · intro r hr
        unfold prepStep1
        by_cases e : r = k + 1
        · subst e
          rw [get_set_same m1 hi.wf m0.size hs _ _ _ (by omega) (by omega)]
          show m1.get (k + 1) 1 + a.cost[k] = _
          rw [hc k (Nat.le_refl k), D_succ_zero, k_eq_getElem a k hk]
        · rw [get_set_ne m1 m0.size hs _ _ _ _ _ (by omega) (by omega) (by omega)]
          exact hc r (by omega))
  obtain ⟨hs1, hi1, hc1⟩ := h1
  generalize a.cost.zipIdx.foldl prepStep1 m0 = m1 at hs1 hi1 hc1
  have h2 := foldl_zipIdx_inv prepStep2
    (fun k m2 => m2.size = m0.size ∧ MInv m2 ∧ (∀ r, r ≤ a.cost.length → m2.get (r+1) 1 = D K a b r 0) ∧
      ∀ c, c ≤ k → m2.get 1 (c+1) = D K a b 0 c) b.cost m1
    ⟨hs1, hi1, hc1, by intro c hc; have : c = 0 := by omega
                       subst this; simpa [D_zero_zero] using hi1.one⟩
    (by
      intro k hk m2 ⟨hs, hi, hc, hr⟩
      refine ⟨hs, ?_, ?_, ?_⟩
      · exact MInv_set m2 hi _ _ _ (by omega) (by omega) (by omega) (by omega)
      · intro r hr'
        unfold prepStep2
        rw [get_set_ne m2 m0.size hs _ _ _ _ _ (by omega) (by omega) (by omega)]
        exact hc r hr'
      · intro c hc'
        unfold prepStep2
        by_cases e : c = k + 1
        · subst e
          rw [get_set_same m2 hi.wf m0.size hs _ _ _ (by omega) (by omega)]
          show m2.get 1 (k + 1) + b.cost[k] = _
          rw [hr k (Nat.le_refl k), D_zero_succ, k_eq_getElem b k hk]
        · rw [get_set_ne m2 m0.size hs _ _ _ _ _ (by omega) (by omega) (by omega)]
          exact hr c (by omega))
  obtain ⟨hs2, hi2, hc2, hr2⟩ := h2
  generalize b.cost.zipIdx.foldl prepStep2 m1 = m2 at hs2 hi2 hc2 hr2
  refine ⟨⟨rfl, hi2, ?_, ?_⟩, by omega, by omega⟩
  · intro r hr; exact hc2 r (by omega)
  · intro r c hr hc
    have : r = 0 := by omega
    subst this; exact hr2 c (by omega)

/-! ### the main loops -/

theorem dlInner_eq (K : Consts) (a b : CWord) (i1 : Nat) (last : List (Nat × Nat)) (m : Mat) (l2 i2 : Nat) :
    dlInner K a b i1 last (m, l2) i2 =
      (m.set (i1 + 2) (i2 + 2)
        (cellVal K a b i1 i2 (lastGet last (b.c i2)) l2 (m.get (i1 + 2) (i2 + 1)) (m.get (i1 + 1) (i2 + 2))
          (m.get (i1 + 1) (i2 + 1)) (m.get (lastGet last (b.c i2)) l2)),
       if a.c i1 == b.c i2 then i2 + 1 else l2) := rfl

theorem lastGet_cons (l : List (Nat × Nat)) (x p c : Nat) :
    lastGet ((x, p) :: l) c = if x = c then p else lastGet l c := by
  unfold lastGet
  by_cases e : x = c
  · simp [e]
  · simp [e]

structure Inner (K : Consts) (a b : CWord) (S i j : Nat) (st : Mat × Nat) : Prop where
  size : st.1.size = S
  inv  : MInv st.1
  colB : ∀ r, r ≤ a.len → st.1.get (r+1) 1 = D K a b r 0
  cell : ∀ r c, r ≤ i → c ≤ b.len → st.1.get (r+1) (c+1) = D K a b r c
  cur  : ∀ c, c ≤ j → st.1.get (i+2) (c+1) = D K a b (i+1) c
  l2   : st.2 = lastOcc b.ch j (a.c i)

theorem min4_sentinel (x y z t B : Nat) (hz : z ≤ B) (ht : B ≤ t) : min4 x y z t = min (min x y) z := by
  unfold min4; omega

theorem inner_step (K : Consts) (a b : CWord) (ha : CostLe a) (hb : CostLe b)
    (S i j : Nat) (hS : max a.len b.len + 2 ≤ S) (hi : i < a.len) (hj : j < b.len)
    (last : List (Nat × Nat)) (hlast : ∀ c, lastGet last c = lastOcc a.ch i c)
    (st : Mat × Nat) (h : Inner K a b S i j st) :
    Inner K a b S i (j+1) (dlInner K a b i last st j) := by
  obtain ⟨m, l2⟩ := st
  obtain ⟨hsz, hinv, hcolB, hcell, hcur, hl2⟩ := h
  simp only [] at hsz hinv hcolB hcell hcur hl2
  have hl1le := lastOcc_le a.ch i (b.c j)
  have hl2le := lastOcc_le b.ch j (a.c i)
  rw [dlInner_eq, hlast]
  -- the value written is the specification's value
  have hv : cellVal K a b i j (lastOcc a.ch i (b.c j)) l2 (m.get (i+2) (j+1)) (m.get (i+1) (j+2)) (m.get (i+1) (j+1))
      (m.get (lastOcc a.ch i (b.c j)) l2) = D K a b (i+1) (j+1) := by
    rw [hcur j (Nat.le_refl j), hcell i (j+1) (Nat.le_refl i) (by omega), hcell i j (Nat.le_refl i) (by omega), hl2]
    rw [D_succ_succ]
    by_cases hz : lastOcc a.ch i (b.c j) = 0 ∨ lastOcc b.ch j (a.c i) = 0
    · rw [if_pos hz]
      have hs : m.get (lastOcc a.ch i (b.c j)) (lastOcc b.ch j (a.c i)) = 10 * S := by
        rcases hz with e | e
        · rw [e, ← hsz]; exact hinv.row0 _ (by omega)
        · rw [e, ← hsz]; exact hinv.col0 _ (by omega)
      rw [hs]; unfold cellVal
      have hb0 := D_le K a b ha hb i j
      have hsub := sub_le a b ha hb i j
      exact min4_sentinel _ _ _ _ (10*S) (by omega) (by omega)
    · rw [if_neg hz]
      have e := hcell (lastOcc a.ch i (b.c j) - 1) (lastOcc b.ch j (a.c i) - 1) (by omega) (by omega)
      have e1 : lastOcc a.ch i (b.c j) - 1 + 1 = lastOcc a.ch i (b.c j) := by omega
      have e2 : lastOcc b.ch j (a.c i) - 1 + 1 = lastOcc b.ch j (a.c i) := by omega
      rw [e1, e2] at e; rw [e]
  rw [hv]
  refine ⟨hsz, ?_, ?_, ?_, ?_, ?_⟩ <;> dsimp only
  · exact MInv_set m hinv _ _ _ (by omega) (by omega) (by omega) (by omega)
  · intro r hr; rw [get_set_ne m S hsz _ _ _ _ _ (by omega) (by omega) (by omega)]; exact hcolB r hr
  · intro r c hr hc; rw [get_set_ne m S hsz _ _ _ _ _ (by omega) (by omega) (by omega)]; exact hcell r c hr hc
  · intro c hc
    by_cases e : c = j+1
    · subst e; exact get_set_same m hinv.wf S hsz _ _ _ (by omega) (by omega)
    · rw [get_set_ne m S hsz _ _ _ _ _ (by omega) (by omega) (by omega)]; exact hcur c (by omega)
  · show (if a.c i == b.c j then j+1 else l2) = lastOcc b.ch (j+1) (a.c i)
    rw [lastOcc, hl2]
    have : b.c j = b.ch.getD j 0 := rfl
    by_cases e : a.c i = b.c j
    · rw [if_pos (by simp [e]), if_pos (by rw [← this]; exact e.symm)]
    · rw [if_neg (by simp [e]), if_neg (by rw [← this]; exact fun h => e h.symm)]

theorem outer_step (K : Consts) (a b : CWord) (ha : CostLe a) (hb : CostLe b)
    (S i : Nat) (hS : max a.len b.len + 2 ≤ S) (hi : i < a.len)
    (st : Mat × List (Nat × Nat)) (h : Rows K a b S i st.1) (hlast : ∀ c, lastGet st.2 c = lastOcc a.ch i c) :
    Rows K a b S (i+1) (dlOuter K a b st i).1 ∧ ∀ c, lastGet (dlOuter K a b st i).2 c = lastOcc a.ch (i+1) c := by
  have hinit : Inner K a b S i 0 (st.1, 0) := by
    refine ⟨h.size, h.inv, h.colB, h.cell, ?_, by simp [lastOcc]⟩
    intro c hc
    have : c = 0 := by omega
    subst this
    exact h.colB (i+1) (by omega)
  have hin := foldl_range_inv (dlInner K a b i st.2) (fun j s => Inner K a b S i j s) b.len (st.1, 0)
    hinit (fun j hj s hs => inner_step K a b ha hb S i j hS hi hj st.2 hlast s hs)
  unfold dlOuter
  refine ⟨⟨hin.size, hin.inv, hin.colB, ?_⟩, ?_⟩
  · intro r c hr hc
    by_cases e : r = i+1
    · subst e; exact hin.cur c hc
    · exact hin.cell r c (by omega) hc
  · intro c
    show lastGet ((a.c i, i + 1) :: st.2) c = _
    rw [lastGet_cons, lastOcc, hlast]
    rfl

/-- Refinement: whatever the reused matrix held before (only `MInv` is assumed), `distanceM` returns the
    specification's distance, leaves in every prefix cell the specification's distance of those prefixes,
    and re-establishes `MInv`. -/
theorem distance_refines (K : Consts) (a b : CWord) (ha : Aligned a) (hb : Aligned b)
    (hca : CostLe a) (hcb : CostLe b) (m : Mat) (h : MInv m) :
    (distanceM K m a b).1 = D K a b a.len b.len ∧
    MInv (distanceM K m a b).2 ∧
    (∀ i j, i ≤ a.len → j ≤ b.len → (distanceM K m a b).2.get (i+1) (j+1) = D K a b i j) ∧
    m.size ≤ (distanceM K m a b).2.size := by
  obtain ⟨h0, hS, hmono⟩ := prepare_rows K a b ha hb m h
  have hout := foldl_range_inv (dlOuter K a b)
    (fun i st => Rows K a b (m.prepare a.cost b.cost).size i st.1 ∧ ∀ c, lastGet st.2 c = lastOcc a.ch i c)
    a.len (m.prepare a.cost b.cost, [])
    ⟨h0, by intro c; simp [lastOcc, lastGet]⟩
    (by
      intro i hi st ⟨hr, hl⟩
      exact outer_step K a b hca hcb _ i hS hi st hr hl)
  obtain ⟨hr, _⟩ := hout
  unfold distanceM; simp only []
  refine ⟨hr.cell a.len b.len (Nat.le_refl _) (Nat.le_refl _), hr.inv, fun i j hi hj => hr.cell i j hi hj, ?_⟩
  rw [hr.size]; exact hmono

/-! ### history independence -/

/-- run `distanceM` over a list of word pairs, threading the matrix; returns the distances and the final matrix -/
def runCalls (K : Consts) : Mat → List (CWord × CWord) → List Nat × Mat
  | m, [] => ([], m)
  | m, (a, b) :: rest =>
    let r := distanceM K m a b
    let rs := runCalls K r.2 rest
    (r.1 :: rs.1, rs.2)

/-- all words of the call sequence are well-formed -/
def CallsOK (calls : List (CWord × CWord)) : Prop :=
  ∀ p ∈ calls, Aligned p.1 ∧ Aligned p.2 ∧ CostLe p.1 ∧ CostLe p.2

theorem runCalls_spec (K : Consts) (calls : List (CWord × CWord)) (hc : CallsOK calls) :
    ∀ m, MInv m → (runCalls K m calls).1 = calls.map (fun p => D K p.1 p.2 p.1.len p.2.len) ∧
      MInv (runCalls K m calls).2 := by
  induction calls with
  | nil => intro m h; exact ⟨rfl, h⟩
  | cons p rest ih =>
    intro m h
    obtain ⟨a, b⟩ := p
    obtain ⟨ha, hb, hca, hcb⟩ := hc (a, b) (by simp)
    obtain ⟨e, hi, _, _⟩ := distance_refines K a b ha hb hca hcb m h
    have := ih (fun q hq => hc q (by simp [hq])) (distanceM K m a b).2 hi
    refine ⟨?_, this.2⟩
    show (distanceM K m a b).1 :: (runCalls K (distanceM K m a b).2 rest).1 = _
    rw [this.1, e]; rfl

end DL
end Lucid
