/-
  LucidProofs.Lemmas.Ranges — a small verified toolkit for the generated Unicode tables
  (`LucidModel/Gen/Unicode.lean`): lists of closed ranges (`Gen.inRanges`) and the lower-case map
  (`Gen.lowerLookup`).

  Every soundness lemma is stated for ALL `c : Nat` (not only scalar values). The Boolean checkers are meant for
  kernel evaluation (`decide +kernel`) on the generated tables:

  * `rangesDisjoint`, `rangesSubset`                 — quadratic, for the small lists (separators, ASCII);
  * `lowerLookup_ind`, `lowerLookup_cases`           — a statement about `lowerLookup m c` for every `c` follows
                                                       from a check of the pairs of `m` and the trivial case `c ↦ c`;
  * `lower_pres_of_check`, `lower_idem_of_check`, `lower_fixed_of_check`, `lower_fix_of_check` — the four shapes of
                                                       facts needed about the map;
  * `PTree`                                          — a binary search tree over the same pairs, used twice: as a
    set of ranges (`mem`, `okR`, `mem_eq`) and as a key/value map (`get`, `okM`, `get_eq`). `PTree.ofList` builds a
    balanced tree from an ascending list; nothing is proved about the construction — the kernel checks that the
    in-order traversal of the result IS the generated list (`toList = …`) and that the search-tree invariant holds
    (`okR`/`okM`), and `mem_eq`/`get_eq` then identify the logarithmic searches with `inRanges`/`lowerLookup`.
    Measured in this sandbox: a kernel step through a list element costs about 0.1 ms, so the quadratic
    `uniLower × uniLower` idempotence check (2.2 M steps) does not finish in 5 minutes, the tree version takes 1 s.
-/
import LucidModel.Gen.Unicode

namespace Lucid
open Gen

/-! ### range lists -/

theorem inRanges_nil (c : Nat) : inRanges [] c = false := rfl

theorem inRanges_cons (r : Nat × Nat) (rs : List (Nat × Nat)) (c : Nat) :
    inRanges (r :: rs) c = ((decide (r.1 ≤ c) && decide (c ≤ r.2)) || inRanges rs c) := by
  simp only [inRanges, List.any_cons]

theorem inRanges_append (rs1 rs2 : List (Nat × Nat)) (c : Nat) :
    inRanges (rs1 ++ rs2) c = (inRanges rs1 c || inRanges rs2 c) := by
  simp only [inRanges, List.any_append]

theorem inRanges_eq_true_iff (rs : List (Nat × Nat)) (c : Nat) :
    inRanges rs c = true ↔ ∃ r ∈ rs, r.1 ≤ c ∧ c ≤ r.2 := by
  simp only [inRanges, List.any_eq_true, Bool.and_eq_true, decide_eq_true_eq]

theorem inRanges_eq_false_iff (rs : List (Nat × Nat)) (c : Nat) :
    inRanges rs c = false ↔ ∀ r ∈ rs, ¬ (r.1 ≤ c ∧ c ≤ r.2) := by
  rw [← Bool.not_eq_true, inRanges_eq_true_iff]
  constructor
  · intro h r hr hc; exact h ⟨r, hr, hc⟩
  · intro h ⟨r, hr, hc⟩; exact h r hr hc

/-- every range of `rs1` lies apart from every range of `rs2` (quadratic) -/
def rangesDisjoint (rs1 rs2 : List (Nat × Nat)) : Bool :=
  rs1.all (fun r => rs2.all (fun q => Nat.blt r.2 q.1 || Nat.blt q.2 r.1))

theorem rangesDisjoint_sound {rs1 rs2 : List (Nat × Nat)} (h : rangesDisjoint rs1 rs2 = true) (c : Nat)
    (h1 : inRanges rs1 c = true) : inRanges rs2 c = false := by
  obtain ⟨r, hr, h1, h2⟩ := (inRanges_eq_true_iff rs1 c).1 h1
  rw [inRanges_eq_false_iff]
  intro q hq ⟨h3, h4⟩
  simp only [rangesDisjoint, List.all_eq_true, Bool.or_eq_true, Nat.blt_eq] at h
  have := h r hr q hq
  omega

theorem rangesDisjoint_sound' {rs1 rs2 : List (Nat × Nat)} (h : rangesDisjoint rs1 rs2 = true) (c : Nat)
    (h2 : inRanges rs2 c = true) : inRanges rs1 c = false := by
  cases h1 : inRanges rs1 c with
  | false => rfl
  | true => rw [rangesDisjoint_sound h c h1] at h2; cases h2

/-- every range of `rs1` lies inside one range of `rs2` (sufficient for inclusion of the sets; quadratic) -/
def rangesSubset (rs1 rs2 : List (Nat × Nat)) : Bool :=
  rs1.all (fun r => rs2.any (fun q => Nat.ble q.1 r.1 && Nat.ble r.2 q.2))

theorem rangesSubset_sound {rs1 rs2 : List (Nat × Nat)} (h : rangesSubset rs1 rs2 = true) (c : Nat)
    (h1 : inRanges rs1 c = true) : inRanges rs2 c = true := by
  obtain ⟨r, hr, h1, h2⟩ := (inRanges_eq_true_iff rs1 c).1 h1
  simp only [rangesSubset, List.all_eq_true, List.any_eq_true, Bool.and_eq_true, Nat.ble_eq] at h
  obtain ⟨q, hq, h3, h4⟩ := h r hr
  exact (inRanges_eq_true_iff rs2 c).2 ⟨q, hq, by omega, by omega⟩

/-- a list of characters as a list of one-point ranges -/
def singletons (l : List Nat) : List (Nat × Nat) := l.map (fun c => (c, c))

theorem inRanges_singletons (l : List Nat) (c : Nat) : inRanges (singletons l) c = l.contains c := by
  induction l with
  | nil => rfl
  | cons a l ih =>
    show inRanges ((a, a) :: singletons l) c = _
    rw [inRanges_cons, ih, List.contains_cons]
    congr 1
    rw [Bool.eq_iff_iff]
    simp only [Bool.and_eq_true, decide_eq_true_eq, beq_iff_eq]
    omega

/-- the ranges are non-empty, ascending and pairwise apart (linear) -/
def rangesAscending : List (Nat × Nat) → Bool
  | [] => true
  | [r] => Nat.ble r.1 r.2
  | r :: q :: rest => Nat.ble r.1 r.2 && Nat.blt r.2 q.1 && rangesAscending (q :: rest)

/-- the keys are strictly ascending (linear) -/
def keysAscending : List (Nat × Nat) → Bool
  | [] => true
  | [_] => true
  | p :: q :: rest => Nat.blt p.1 q.1 && keysAscending (q :: rest)

/-! ### the lower-case map -/

/-- either `c` is a key and the result is the value of a pair with that key, or `c` is no key and is returned -/
theorem lowerLookup_cases (m : List (Nat × Nat)) (c : Nat) :
    (∃ p ∈ m, p.1 = c ∧ lowerLookup m c = p.2) ∨ ((∀ p ∈ m, p.1 ≠ c) ∧ lowerLookup m c = c) := by
  unfold lowerLookup
  cases h : m.find? (fun p => p.1 == c) with
  | some p =>
    left
    exact ⟨p, List.mem_of_find?_eq_some h, by simpa using List.find?_some h, rfl⟩
  | none =>
    right
    refine ⟨?_, rfl⟩
    intro p hp
    have := List.find?_eq_none.1 h p hp
    simpa using this

/-- **Induction principle for the map**: a relation between `c` and `lowerLookup m c` holds for every `c` as soon as
    it holds for the pairs of `m` and for `(c, c)` when `c` is not a key. -/
theorem lowerLookup_ind {P : Nat → Nat → Prop} (m : List (Nat × Nat)) (h1 : ∀ p ∈ m, P p.1 p.2)
    (h2 : ∀ c, (∀ p ∈ m, p.1 ≠ c) → P c c) : ∀ c, P c (lowerLookup m c) := by
  intro c
  rcases lowerLookup_cases m c with ⟨p, hp, rfl, he⟩ | ⟨hn, he⟩
  · rw [he]; exact h1 p hp
  · rw [he]; exact h2 c hn

theorem lowerLookup_of_not_key (m : List (Nat × Nat)) (c : Nat) (h : ∀ p ∈ m, p.1 ≠ c) : lowerLookup m c = c := by
  rcases lowerLookup_cases m c with ⟨p, hp, hc, _⟩ | ⟨_, he⟩
  · exact absurd hc (h p hp)
  · exact he

/-- a Boolean property is preserved by the map if it agrees on the two components of every pair -/
theorem lower_pres_of_check (m : List (Nat × Nat)) (S : Nat → Bool)
    (h : m.all (fun p => S p.2 == S p.1) = true) : ∀ c, S (lowerLookup m c) = S c := by
  apply lowerLookup_ind (P := fun c d => S d = S c) m
  · intro p hp
    have := List.all_eq_true.1 h p hp
    simpa using this
  · intro c _; rfl

/-- the map is idempotent if no value is changed by it -/
theorem lower_idem_of_check (m : List (Nat × Nat)) (h : m.all (fun p => lowerLookup m p.2 == p.2) = true) :
    ∀ c, lowerLookup m (lowerLookup m c) = lowerLookup m c := by
  apply lowerLookup_ind (P := fun _ d => lowerLookup m d = d) m
  · intro p hp
    have := List.all_eq_true.1 h p hp
    simpa using this
  · intro c hc; exact lowerLookup_of_not_key m c hc

/-- if no key has the property `S`, characters with `S` are fixed -/
theorem lower_fixed_of_check (m : List (Nat × Nat)) (S : Nat → Bool) (h : m.all (fun p => !S p.1) = true) :
    ∀ c, S c = true → lowerLookup m c = c := by
  intro c hc
  apply lowerLookup_of_not_key
  intro p hp he
  have := List.all_eq_true.1 h p hp
  rw [he, hc] at this
  cases this

/-- if no value has the property `S`, a result with `S` is the argument itself -/
theorem lower_fix_of_check (m : List (Nat × Nat)) (S : Nat → Bool) (h : m.all (fun p => !S p.2) = true) :
    ∀ c, S (lowerLookup m c) = true → lowerLookup m c = c := by
  apply lowerLookup_ind (P := fun c d => S d = true → d = c) m
  · intro p hp hs
    have := List.all_eq_true.1 h p hp
    rw [hs] at this
    cases this
  · intro c _ _; rfl

theorem lowerLookup_append_right (l1 l2 : List (Nat × Nat)) (c : Nat) (h : ∀ p ∈ l1, p.1 ≠ c) :
    lowerLookup (l1 ++ l2) c = lowerLookup l2 c := by
  have : l1.find? (fun p => p.1 == c) = none := by
    rw [List.find?_eq_none]; intro p hp; simpa using h p hp
  simp only [lowerLookup, List.find?_append, this, Option.none_or]

theorem lowerLookup_append_left (l1 l2 : List (Nat × Nat)) (c : Nat) (h : ∀ p ∈ l2, p.1 ≠ c) :
    lowerLookup (l1 ++ l2) c = lowerLookup l1 c := by
  have : l2.find? (fun p => p.1 == c) = none := by
    rw [List.find?_eq_none]; intro p hp; simpa using h p hp
  simp only [lowerLookup, List.find?_append, this, Option.or_none]

theorem lowerLookup_cons (a b : Nat) (l : List (Nat × Nat)) (c : Nat) :
    lowerLookup ((a, b) :: l) c = if a = c then b else lowerLookup l c := by
  simp only [lowerLookup, List.find?_cons]
  by_cases h : a = c
  · simp [h]
  · have hb : (a == c) = false := by simpa using h
    simp only [hb, if_neg h]

/-! ### search trees over the generated lists -/

/-- binary tree of pairs; read either as a set of closed ranges `[a, b]` or as a map `a ↦ b` -/
inductive PTree where
  | leaf
  | node (l : PTree) (a b : Nat) (r : PTree)

namespace PTree

/-- in-order traversal -/
def toList : PTree → List (Nat × Nat)
  | leaf => []
  | node l a b r => l.toList ++ (a, b) :: r.toList

/-- a tree of depth at most `d` from a prefix of the list, and the unused rest (nothing is proved about this
    function: its result is checked) -/
def build : Nat → List (Nat × Nat) → PTree × List (Nat × Nat)
  | 0, l => (leaf, l)
  | d + 1, l =>
    match build d l with
    | (t1, []) => (t1, [])
    | (t1, (a, b) :: l2) =>
      match build d l2 with
      | (t2, l3) => (node t1 a b t2, l3)

def ofList (l : List (Nat × Nat)) : PTree := (build (Nat.log2 l.length + 1) l).1

/-- membership of `c` in one of the ranges, by binary search -/
def mem : PTree → Nat → Bool
  | leaf, _ => false
  | node l a b r, c =>
    match Nat.blt c a with
    | true => l.mem c
    | false =>
      match Nat.ble c b with
      | true => true
      | false => r.mem c

/-- search-tree invariant of the range reading: ranges non-empty, inside `[lb, ub)`, ascending and apart -/
def okR : PTree → Nat → Nat → Bool
  | leaf, _, _ => true
  | node l a b r, lb, ub => Nat.ble lb a && Nat.ble a b && Nat.blt b ub && l.okR lb a && r.okR (b + 1) ub

/-- value of key `c`, or `c` itself, by binary search -/
def get : PTree → Nat → Nat
  | leaf, c => c
  | node l a b r, c =>
    match Nat.blt c a with
    | true => l.get c
    | false =>
      match Nat.beq c a with
      | true => b
      | false => r.get c

/-- search-tree invariant of the map reading: keys inside `[lb, ub)`, strictly ascending -/
def okM : PTree → Nat → Nat → Bool
  | leaf, _, _ => true
  | node l a _ r, lb, ub => Nat.ble lb a && Nat.blt a ub && l.okM lb a && r.okM (a + 1) ub

theorem okR_bounds : ∀ (t : PTree) (lb ub : Nat), t.okR lb ub = true →
    ∀ r ∈ t.toList, lb ≤ r.1 ∧ r.1 ≤ r.2 ∧ r.2 < ub
  | leaf, _, _, _, r, hr => by simp [toList] at hr
  | node l a b r, lb, ub, h, q, hq => by
    simp only [okR, Bool.and_eq_true, Nat.ble_eq, Nat.blt_eq] at h
    obtain ⟨⟨⟨⟨h1, h2⟩, h3⟩, h4⟩, h5⟩ := h
    simp only [toList, List.mem_append, List.mem_cons] at hq
    rcases hq with hq | rfl | hq
    · have := okR_bounds l lb a h4 q hq; omega
    · exact ⟨h1, h2, h3⟩
    · have := okR_bounds r (b + 1) ub h5 q hq; omega

/-- **binary search = list membership** for a tree meeting the invariant -/
theorem mem_eq : ∀ (t : PTree) (lb ub : Nat), t.okR lb ub = true → ∀ c, t.mem c = inRanges t.toList c
  | leaf, _, _, _, _ => rfl
  | node l a b r, lb, ub, h, c => by
    have hb := okR_bounds (node l a b r) lb ub h
    simp only [okR, Bool.and_eq_true, Nat.ble_eq, Nat.blt_eq] at h
    obtain ⟨⟨⟨⟨h1, h2⟩, h3⟩, h4⟩, h5⟩ := h
    have bl := okR_bounds l lb a h4
    have br := okR_bounds r (b + 1) ub h5
    have il := mem_eq l lb a h4 c
    have ir := mem_eq r (b + 1) ub h5 c
    simp only [toList, inRanges_append, inRanges_cons]
    simp only [mem]
    cases hca : Nat.blt c a with
    | true =>
      have hca' : c < a := by simpa [Nat.blt_eq] using hca
      have e1 : (decide (a ≤ c) && decide (c ≤ b)) = false := by simp; omega
      have e2 : inRanges r.toList c = false := by
        rw [inRanges_eq_false_iff]; intro q hq hc; have := br q hq; omega
      simp only [e1, e2, Bool.or_false, il]
    | false =>
      have hca' : a ≤ c := by
        have : ¬ (c < a) := by rw [← Nat.blt_eq, hca]; simp
        omega
      have e0 : inRanges l.toList c = false := by
        rw [inRanges_eq_false_iff]; intro q hq hc; have := bl q hq; omega
      cases hcb : Nat.ble c b with
      | true =>
        have hcb' : c ≤ b := by simpa using hcb
        have e1 : (decide (a ≤ c) && decide (c ≤ b)) = true := by simp; omega
        simp only [e0, e1, Bool.true_or, Bool.or_true]
      | false =>
        have hcb' : ¬ c ≤ b := by rw [← Nat.ble_eq, hcb]; simp
        have e1 : (decide (a ≤ c) && decide (c ≤ b)) = false := by simp; omega
        simp only [e0, e1, Bool.false_or, ir]

theorem okM_bounds : ∀ (t : PTree) (lb ub : Nat), t.okM lb ub = true → ∀ p ∈ t.toList, lb ≤ p.1 ∧ p.1 < ub
  | leaf, _, _, _, r, hr => by simp [toList] at hr
  | node l a b r, lb, ub, h, q, hq => by
    simp only [okM, Bool.and_eq_true, Nat.ble_eq, Nat.blt_eq] at h
    obtain ⟨⟨⟨h1, h2⟩, h4⟩, h5⟩ := h
    simp only [toList, List.mem_append, List.mem_cons] at hq
    rcases hq with hq | rfl | hq
    · have := okM_bounds l lb a h4 q hq; omega
    · exact ⟨h1, h2⟩
    · have := okM_bounds r (a + 1) ub h5 q hq; omega

/-- **binary search = first match in the list** for a tree meeting the invariant -/
theorem get_eq : ∀ (t : PTree) (lb ub : Nat), t.okM lb ub = true → ∀ c, t.get c = lowerLookup t.toList c
  | leaf, _, _, _, _ => rfl
  | node l a b r, lb, ub, h, c => by
    simp only [okM, Bool.and_eq_true, Nat.ble_eq, Nat.blt_eq] at h
    obtain ⟨⟨⟨h1, h2⟩, h4⟩, h5⟩ := h
    have bl := okM_bounds l lb a h4
    have br := okM_bounds r (a + 1) ub h5
    have il := get_eq l lb a h4 c
    have ir := get_eq r (a + 1) ub h5 c
    simp only [toList, get]
    cases hca : Nat.blt c a with
    | true =>
      have hca' : c < a := by simpa [Nat.blt_eq] using hca
      rw [lowerLookup_append_left]
      · exact il
      · intro p hp
        simp only [List.mem_cons] at hp
        rcases hp with rfl | hp
        · show a ≠ c; omega
        · have := br p hp; omega
    | false =>
      have hca' : a ≤ c := by
        have : ¬ (c < a) := by rw [← Nat.blt_eq, hca]; simp
        omega
      rw [lowerLookup_append_right _ _ _ (by intro p hp; have := bl p hp; omega), lowerLookup_cons]
      cases hcb : Nat.beq c a with
      | true =>
        have : c = a := Nat.eq_of_beq_eq_true hcb
        simp [this]
      | false =>
        have : c ≠ a := Nat.ne_of_beq_eq_false hcb
        rw [if_neg (by omega)]
        exact ir

end PTree

/-! ### small examples (the checkers accept and reject) -/

example : rangesDisjoint [(1, 3), (7, 9)] [(4, 6), (10, 10)] = true := by decide
example : rangesDisjoint [(1, 4)] [(4, 6)] = false := by decide
example : rangesSubset [(2, 3), (8, 8)] [(1, 3), (7, 9)] = true := by decide
example : rangesSubset [(2, 7)] [(1, 3), (7, 9)] = false := by decide
example : rangesAscending [(1, 3), (7, 9)] = true ∧ rangesAscending [(1, 3), (3, 9)] = false := by decide
example : (PTree.ofList [(1, 3), (7, 9), (11, 11)]).toList = [(1, 3), (7, 9), (11, 11)] := by decide
example : (PTree.ofList [(1, 3), (7, 9), (11, 11)]).okR 0 12 = true := by decide
example : (PTree.ofList [(7, 9), (1, 3)]).okR 0 12 = false := by decide
example : (PTree.ofList [(1, 3), (7, 9), (11, 11)]).mem 8 = true ∧ (PTree.ofList [(1, 3), (7, 9)]).mem 5 = false := by
  decide
example : (PTree.ofList [(1, 3), (7, 9), (11, 12)]).get 7 = 9 ∧ (PTree.ofList [(1, 3), (7, 9)]).get 5 = 5 := by decide

end Lucid
