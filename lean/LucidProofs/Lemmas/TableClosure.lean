/-
  LucidProofs.Lemmas.TableClosure — what a `FoldClosed` reduce table guarantees about the text that leaves
  `TextOwn::normalize`: **no character of the normalised text is a key of the reduce table.**

  This is the fact that makes the (restricted) Snowball hypothesis `StemBounded` usable: the stemmer only ever
  sees words made of characters the reduce table leaves alone (for German: never `ß`, which the table rewrites to
  `ss` before the stemmer could do so itself and lengthen the word).

  * `mapGet_pair_none_of_foldClosed` : with single-character keys only, the two-character window lookup of the
    `Normalize` iterator never matches;
  * `normChunks_closed`   : every chunk is an unmatched character (`mapGet m [a] = none`) or a table entry;
  * `composeWith_keyFree` : no character of `composeWith m w` is a key of `m`;
  * `normalize_fromChars_keyFree` : the same for `((Text.fromChars s).normalize E).chars` and `E.T.reduce`;
  * `keyFree_map_lower`   : `LowerKeyFree` carries the fact across `TextOwn::lower`.
-/
import LucidProofs.Lemmas.Normalize

namespace Lucid

/-- `cs` contains no key of the (single-character-keyed) table `m` -/
def KeyFree (m : List (List Nat × List Nat)) (cs : List Nat) : Prop := ∀ c ∈ cs, mapGet m [c] = none

theorem mapGet_none_of_keys_ne {m : List (List Nat × List Nat)} {k : List Nat} (h : ∀ e ∈ m, e.1 ≠ k) :
    mapGet m k = none := by
  cases hg : mapGet m k with
  | none => rfl
  | some v => exact absurd rfl (h _ (mapGet_mem m k v hg))

/-- an entry of a `FoldClosed` table: the key is one character, no replacement character is a key -/
theorem FoldClosed.entry {m : List (List Nat × List Nat)} (hF : FoldClosed m = true) {e : List Nat × List Nat}
    (he : e ∈ m) : e.1.length = 1 ∧ KeyFree m e.2 := by
  have := (List.all_eq_true.1 hF) e he
  simp only [Bool.and_eq_true, beq_iff_eq, List.all_eq_true, Option.isNone_iff_eq_none] at this
  exact this

/-- with single-character keys only, the two-character window never matches -/
theorem mapGet_pair_none_of_foldClosed {m : List (List Nat × List Nat)} (hF : FoldClosed m = true) (a b : Nat) :
    mapGet m [a, b] = none := by
  apply mapGet_none_of_keys_ne
  intro e he hk
  have := (FoldClosed.entry hF he).1
  rw [hk] at this
  simp at this

/-- every chunk of the `Normalize` iterator over a `FoldClosed` table is an unmatched single character that is
    not a key, or an entry of the table -/
theorem normChunks_closed (m : List (List Nat × List Nat)) (w : List Nat) :
    ∀ c ∈ normChunks m w, (∃ a, c = ([a], [a]) ∧ mapGet m [a] = none) ∨ c ∈ m := by
  fun_induction normChunks m w with
  | case1 => simp
  | case2 a r h =>
    intro c hc
    simp only [List.mem_singleton] at hc
    subst hc
    exact Or.inr (mapGet_mem _ _ _ h)
  | case3 a h =>
    intro c hc
    simp only [List.mem_singleton] at hc
    subst hc
    exact Or.inl ⟨a, rfl, h⟩
  | case4 a b rest r h ih =>
    intro c hc
    rcases List.mem_cons.1 hc with hc | hc
    · subst hc; exact Or.inr (mapGet_mem _ _ _ h)
    · exact ih c hc
  | case5 a b rest h2 r h ih =>
    intro c hc
    rcases List.mem_cons.1 hc with hc | hc
    · subst hc; exact Or.inr (mapGet_mem _ _ _ h)
    · exact ih c hc
  | case6 a b rest h2 h ih =>
    intro c hc
    rcases List.mem_cons.1 hc with hc | hc
    · subst hc; exact Or.inl ⟨a, rfl, h⟩
    · exact ih c hc

/-- **After folding, no character is a key.** For a `FoldClosed` table, every character of `composeWith m w`
    is either an unmatched input character (not a key) or a character of a replacement (not a key, by closure). -/
theorem composeWith_keyFree {m : List (List Nat × List Nat)} (hF : FoldClosed m = true) (w : List Nat) :
    KeyFree m (composeWith m w) := by
  intro x hx
  unfold composeWith at hx
  rw [List.mem_flatten] at hx
  obtain ⟨l, hl, hxl⟩ := hx
  obtain ⟨c, hc, rfl⟩ := List.mem_map.1 hl
  rcases normChunks_closed m w c hc with ⟨a, rfl, ha⟩ | hm
  · simp only [List.mem_singleton] at hxl
    subst hxl; exact ha
  · exact (FoldClosed.entry hF hm).2 x hxl

/-- the characters of a text after `normalize` are free of reduce-table keys -/
theorem normalize_fromChars_keyFree (E : Env) (hF : FoldClosed E.T.reduce = true) (s : List Nat) :
    KeyFree E.T.reduce ((Text.fromChars s).normalize E).chars := by
  by_cases hc : compose E.T s = s
  · cases hr : reduce E.T s with
    | none =>
      have : (Text.fromChars s).normalize E = Text.fromChars s := by
        simp [Text.normalize, Text.fromChars, hc, hr]
      rw [this]
      show KeyFree E.T.reduce s
      have h := composeWith_keyFree hF s
      rwa [reduceWith_none _ _ hr] at h
    | some p =>
      obtain ⟨src, chs⟩ := p
      have : ((Text.fromChars s).normalize E).chars = chs := by
        simp [Text.normalize, Text.fromChars, hc, hr]
      rw [this, (reduceWith_some _ _ _ _ hr).2.1]
      exact composeWith_keyFree hF s
  · cases hr : reduce E.T (compose E.T s) with
    | none =>
      have : ((Text.fromChars s).normalize E).chars = compose E.T s := by
        simp [Text.normalize, Text.fromChars, hc, hr]
      rw [this]
      have h := composeWith_keyFree hF (compose E.T s)
      rwa [reduceWith_none _ _ hr] at h
    | some p =>
      obtain ⟨src, chs⟩ := p
      have : ((Text.fromChars s).normalize E).chars = chs := by
        simp [Text.normalize, Text.fromChars, hc, hr]
      rw [this, (reduceWith_some _ _ _ _ hr).2.1]
      exact composeWith_keyFree hF _

theorem setFin_chars (t : Text) (b : Bool) : (t.setFin b).chars = t.chars := rfl

/-- lower-casing keeps a text free of reduce-table keys (`LowerKeyFree`) -/
theorem keyFree_map_lower (E : Env) (hL : LowerKeyFree E) (cs : List Nat) (h : KeyFree E.T.reduce cs) :
    KeyFree E.T.reduce (cs.map E.U.lower1) := by
  intro c hc
  obtain ⟨c0, hc0, rfl⟩ := List.mem_map.1 hc
  exact hL c0 (h c0 hc0)

theorem keyFree_lower (E : Env) (hL : LowerKeyFree E) (t : Text) (h : KeyFree E.T.reduce t.chars) :
    KeyFree E.T.reduce (t.lower E).chars :=
  keyFree_map_lower E hL t.chars h

end Lucid
