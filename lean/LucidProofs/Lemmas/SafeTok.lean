/-
  LucidProofs.Lemmas.SafeTok — trap sites of the two generated tokenizer pipelines (`tokenization/mod.rs`,
  model `Lucid.runStepsSafe`) never fire: the single-word `panic!` and the NUL-padding subtraction of
  `normalize`, and every word slice `chars[lo..hi]` taken by `split`, `strip`, `set_pos` and `set_stem`.
  The intermediate texts are in bounds by the invariants of `Lemmas/Tokenize.lean` (`NormInv` after
  `normalize`/`fin`, `SplitInv` after `split`, `SpanInv` after `strip` and every later step).
-/
import LucidModel.Safe
import LucidProofs.Lemmas.Normalize
import LucidProofs.Lemmas.Tokenize

namespace Lucid

/-- word slices are in range when the spans of the words are in range of an array as long as `chars` -/
theorem wordsInBounds_of_spans (t : Text) (n : Nat) (hn : n = t.chars.length)
    (h : ∀ x ∈ t.words.map WordShape.span, x.lo < x.hi ∧ x.hi ≤ n) : t.wordsInBounds = true := by
  unfold Text.wordsInBounds
  rw [List.all_eq_true]
  intro w hw
  have := h w.span (List.mem_map_of_mem hw)
  simp only [WordShape.span] at this
  simp only [Bool.and_eq_true, decide_eq_true_eq]
  omega

/-- the six steps after `normalize` (and `fin`) on a text consisting of one word that covers all characters -/
theorem tailSafe (E : Env) (hU : UnicodeFacts E.U E.K) (t : Text) (w0 : WordShape)
    (hw : t.words = [w0]) (hlo : w0.lo = 0) (hhi : w0.hi = t.chars.length) :
    runStepsSafeFrom E [.split [CharClass.whitespace, CharClass.control, CharClass.punctuation],
      .strip [CharClass.notAlphaNum], .lower, .setPos, .setCharClasses, .setStem] t = true := by
  obtain ⟨a1, _, a3, _⟩ :=
    split_single E [CharClass.whitespace, CharClass.control, CharClass.punctuation] t w0 hw hlo hhi
  obtain ⟨b1, _, b3, _⟩ := strip_spans E [CharClass.notAlphaNum]
    (t.split E [CharClass.whitespace, CharClass.control, CharClass.punctuation])
  have hsplit := splitInv_splitSpanList (isSepChar E.U E.K) (!w0.fin) t.chars
  rw [Bool.not_not] at hsplit
  have hstrip := spanInv_strip E.U.isAlnum (isSepChar E.U E.K) hU.sep_not_alnum (!w0.fin) t.chars _ hsplit
  rw [patMatches_sep] at a1
  rw [patMatches_notAlnum, a1, a3] at b1
  obtain ⟨g, hg, _, _, _⟩ := lower_spec E E.K hU
    ((t.split E [CharClass.whitespace, CharClass.control, CharClass.punctuation]).strip E [CharClass.notAlphaNum])
  simp only [runStepsSafeFrom, TokStep.safe, TokStep.run, Bool.and_true, Bool.true_and, Bool.and_eq_true]
  refine ⟨?_, ?_, ?_, ?_⟩
  · -- `split` reads the one word of the normalised text
    simp only [Text.wordsInBounds, hw, List.all_cons, List.all_nil, Bool.and_true, Bool.and_eq_true,
      decide_eq_true_eq]
    omega
  · -- `strip` reads the words produced by `split`
    apply wordsInBounds_of_spans _ t.chars.length (by rw [a3])
    rw [a1]
    exact hsplit.bounds
  · -- `set_pos` reads the words produced by `strip` (in the lower-cased characters)
    rw [hg]
    apply wordsInBounds_of_spans _ t.chars.length (by simp [b3, a3])
    show ∀ x ∈ List.map WordShape.span
      ((t.split E [CharClass.whitespace, CharClass.control, CharClass.punctuation]).strip E
        [CharClass.notAlphaNum]).words, _
    rw [b1]
    exact hstrip.bounds
  · -- `set_stem` reads the same words
    rw [hg]
    apply wordsInBounds_of_spans _ t.chars.length (by simp [Text.setCharClasses, Text.setPos, b3, a3])
    obtain ⟨p1, _⟩ := setPos_spans E
      ({ ((t.split E [CharClass.whitespace, CharClass.control, CharClass.punctuation]).strip E
          [CharClass.notAlphaNum]) with
        chars := ((t.split E [CharClass.whitespace, CharClass.control, CharClass.punctuation]).strip E
          [CharClass.notAlphaNum]).chars.map g } : Text)
    show ∀ x ∈ List.map WordShape.span (Text.setPos E _).words, _
    rw [p1]
    show ∀ x ∈ List.map WordShape.span
      ((t.split E [CharClass.whitespace, CharClass.control, CharClass.punctuation]).strip E
        [CharClass.notAlphaNum]).words, _
    rw [b1]
    exact hstrip.bounds

/-- **`tokenize_query` never traps**: the generated query pipeline (`normalize, fin(false), split, strip, lower,
    set_pos, set_char_classes, set_stem`) on any input -/
theorem runStepsSafe_query (E : Env) (hU : UnicodeFacts E.U E.K) (hT : TablesOK E.T = true) (s : List Nat) :
    runStepsSafe E Gen.srcQuerySteps s = true := by
  obtain ⟨⟨w0, hw, hlo, hhi, _⟩, _, _⟩ := setFin_normInv E s true false _ (normalize_fromChars E hT s)
  show (TokStep.normalize.safe E (Text.fromChars s) && ((TokStep.fin false).safe E _ &&
    runStepsSafeFrom E _ (((Text.fromChars s).normalize E).setFin false))) = true
  rw [tailSafe E hU _ w0 hw hlo hhi]
  simp only [TokStep.safe, Bool.and_true]
  exact normalizeSafe_fromChars E hT s

/-- **`tokenize_record` never traps**: the generated record pipeline (`normalize, split, strip, lower, set_pos,
    set_char_classes, set_stem`) on any input -/
theorem runStepsSafe_record (E : Env) (hU : UnicodeFacts E.U E.K) (hT : TablesOK E.T = true) (s : List Nat) :
    runStepsSafe E Gen.srcRecordSteps s = true := by
  obtain ⟨⟨w0, hw, hlo, hhi, _⟩, _, _⟩ := normalize_fromChars E hT s
  show (TokStep.normalize.safe E (Text.fromChars s) &&
    runStepsSafeFrom E _ ((Text.fromChars s).normalize E)) = true
  rw [tailSafe E hU _ w0 hw hlo hhi]
  simp only [TokStep.safe, Bool.and_true]
  exact normalizeSafe_fromChars E hT s
