/-
  LucidProofs.Lemmas.LimitSort — the bounded top-k selection of `utils/limitsort.rs` (model:
  `Lucid.limitSort`) satisfies the relational specification `TopK` for every limit (0 included), every
  input, every buffer factor ≥ 1 and every sorting subroutine that returns a sorted permutation, for
  any total preorder. Used by C06, C07, C12, C18.
-/
import LucidModel.LimitSort

namespace Lucid
variable {α : Type}


structure SortSpec (le : α → α → Bool) (sort : List α → List α) : Prop where
  perm   : ∀ l, (sort l).Perm l
  sorted : ∀ l, (sort l).Pairwise (fun a b => le a b = true)

structure Preorder' (le : α → α → Bool) : Prop where
  trans : ∀ a b c, le a b = true → le b c = true → le a c = true
  total : ∀ a b, le a b = true ∨ le b a = true

/-- number of elements of `l` not worse than `d` -/
def cnt (le : α → α → Bool) (l : List α) (d : α) : Nat := (l.filter (fun b => le b d)).length

def Inv (le : α → α → Bool) (limit : Nat) (consumed buf dropped : List α) : Prop :=
  (buf ++ dropped).Perm consumed ∧ ∀ d ∈ dropped, limit ≤ cnt le buf d

theorem cnt_perm {le : α → α → Bool} {l l' : List α} (h : l.Perm l') (d : α) : cnt le l d = cnt le l' d := by
  unfold cnt; exact (h.filter _).length_eq

theorem cnt_append (le : α → α → Bool) (l l' : List α) (d : α) : cnt le (l ++ l') d = cnt le l d + cnt le l' d := by
  simp [cnt, List.filter_append]

/-- truncation step: sorted list, keep first k -/
theorem take_keeps {le : α → α → Bool} (P : Preorder' le) {l : List α}
    (hs : l.Pairwise (fun a b => le a b = true)) (k : Nat) (d : α) (hk : k ≤ cnt le l d) :
    k ≤ cnt le (l.take k) d := by
  induction l generalizing k with
  | nil => simp [cnt] at hk; simp [hk, cnt]
  | cons a t ih =>
    cases k with
    | zero => simp
    | succ k =>
      rw [List.pairwise_cons] at hs
      by_cases had : le a d = true
      · have : cnt le (a :: t) d = cnt le t d + 1 := by simp [cnt, had]
        have h2 : cnt le ((a :: t).take (k+1)) d = cnt le (t.take k) d + 1 := by
          simp [cnt, List.take_succ_cons, had]
        have := ih hs.2 k (by omega)
        omega
      · -- a is worse than d, then everything after a is worse too: contradiction with hk ≥ 1
        have hz : cnt le t d = 0 := by
          simp only [cnt, List.length_eq_zero_iff, List.filter_eq_nil_iff]
          intro b hb hbd
          exact had (P.trans a b d (hs.1 b hb) hbd)
        have : cnt le (a :: t) d = 0 := by
          simp only [cnt, List.filter_cons] at hz ⊢
          simp [had, hz]
        omega

theorem take_dropped_worse {le : α → α → Bool} {l : List α}
    (hs : l.Pairwise (fun a b => le a b = true)) (k : Nat) :
    ∀ y ∈ l.take k, ∀ r ∈ l.drop k, le y r = true := by
  intro y hy r hr
  have := List.take_append_drop k l
  rw [← this] at hs
  exact (List.pairwise_append.mp hs).2.2 y hy r hr


theorem inv_step_trunc {le : α → α → Bool} (P : Preorder' le) {sort : List α → List α} (S : SortSpec le sort)
    {limit : Nat} {consumed buf dropped : List α} (x : α)
    (h : Inv le limit consumed buf dropped) (hlen : (buf ++ [x]).length ≥ limit) :
    Inv le limit (consumed ++ [x]) ((sort (buf ++ [x])).take limit) (dropped ++ (sort (buf ++ [x])).drop limit) := by
  obtain ⟨hp, hd⟩ := h
  have hsp := S.perm (buf ++ [x])
  have hss := S.sorted (buf ++ [x])
  refine ⟨?_, ?_⟩
  · -- permutation bookkeeping
    have h1 : ((sort (buf ++ [x])).take limit ++ (dropped ++ (sort (buf ++ [x])).drop limit)).Perm
        (((sort (buf ++ [x])).take limit ++ (sort (buf ++ [x])).drop limit) ++ dropped) := by
      rw [List.append_assoc]
      exact List.Perm.append_left _ List.perm_append_comm
    rw [List.take_append_drop] at h1
    refine h1.trans ?_
    refine (List.Perm.append_right dropped hsp).trans ?_
    have : (buf ++ [x] ++ dropped).Perm (buf ++ dropped ++ [x]) := by
      simp only [List.append_assoc]
      exact List.Perm.append_left _ List.perm_append_comm
    exact this.trans (List.Perm.append_right [x] hp)
  · intro d hdm
    rcases List.mem_append.mp hdm with hd0 | hd1
    · -- previously dropped
      have h0 := hd d hd0
      have h1 : limit ≤ cnt le (sort (buf ++ [x])) d := by
        rw [cnt_perm hsp, cnt_append]; omega
      exact take_keeps P hss limit d h1
    · -- newly dropped: every kept element is not worse, and there are `limit` of them
      have hall : ∀ y ∈ (sort (buf ++ [x])).take limit, le y d = true :=
        fun y hy => take_dropped_worse hss limit y hy d hd1
      have hl : ((sort (buf ++ [x])).take limit).length = limit := by
        rw [List.length_take, hsp.length_eq]; omega
      have : cnt le ((sort (buf ++ [x])).take limit) d = ((sort (buf ++ [x])).take limit).length := by
        unfold cnt
        rw [List.filter_eq_self.mpr (by simpa using hall)]
      omega

theorem inv_step_push {le : α → α → Bool} {limit : Nat} {consumed buf dropped : List α} (x : α)
    (h : Inv le limit consumed buf dropped) : Inv le limit (consumed ++ [x]) (buf ++ [x]) dropped := by
  obtain ⟨hp, hd⟩ := h
  refine ⟨?_, fun d hdm => ?_⟩
  · have : (buf ++ [x] ++ dropped).Perm (buf ++ dropped ++ [x]) := by
      simp only [List.append_assoc]
      exact List.Perm.append_left _ List.perm_append_comm
    exact this.trans (List.Perm.append_right [x] hp)
  · have := hd d hdm
    rw [cnt_append]; omega

theorem loop_inv {le : α → α → Bool} (P : Preorder' le) {sort : List α → List α} (S : SortSpec le sort)
    (factor : Nat) (hf : 1 ≤ factor) (limit : Nat) (xs : List α) : ∀ (consumed buf dropped : List α), Inv le limit consumed buf dropped →
    ∃ dropped', Inv le limit (consumed ++ xs) (limitLoop sort factor limit buf xs) dropped' := by
  induction xs with
  | nil => intro c b d h; exact ⟨d, by simpa [limitLoop] using h⟩
  | cons x xs ih =>
    intro c b d h
    unfold limitLoop
    simp only []
    split
    · rename_i hge
      have hmul : limit ≤ limit * factor := Nat.le_mul_of_pos_right limit hf
      have := ih (c ++ [x]) _ _ (inv_step_trunc P S x h (by omega))
      simpa using this
    · have := ih (c ++ [x]) _ _ (inv_step_push x h)
      simpa using this

/-- the relational specification -/
def TopK (le : α → α → Bool) (k : Nat) (xs ys : List α) : Prop :=
  ys.Pairwise (fun a b => le a b = true) ∧ ys.length = min k xs.length ∧
  ∃ rest, (ys ++ rest).Perm xs ∧ ∀ y ∈ ys, ∀ r ∈ rest, le y r = true

theorem limitSort_TopK {le : α → α → Bool} (P : Preorder' le) {sort : List α → List α} (S : SortSpec le sort)
    (factor : Nat) (hf : 1 ≤ factor) (limit : Nat) (xs : List α) : TopK le limit xs (limitSort sort factor limit xs) := by
  obtain ⟨dropped, hp, hd⟩ := loop_inv P S factor hf limit xs [] [] [] ⟨by simp, by simp⟩
  simp only [List.nil_append] at hp
  unfold limitSort
  generalize limitLoop sort factor limit [] xs = buf at hp hd
  have hsp := S.perm buf
  have hss := S.sorted buf
  refine ⟨?_, ?_, (sort buf).drop limit ++ dropped, ?_, ?_⟩
  · exact hss.sublist (List.take_sublist _ _)
  · rw [List.length_take, hsp.length_eq, ← hp.length_eq, List.length_append]
    cases dropped with
    | nil => simp
    | cons d ds =>
      have h1 := hd d (by simp)
      have : cnt le buf d ≤ buf.length := by unfold cnt; exact List.length_filter_le _ _
      simp; omega
  · rw [← List.append_assoc, List.take_append_drop]
    exact (List.Perm.append_right dropped hsp).trans hp
  · intro y hy r hr
    rcases List.mem_append.mp hr with h1 | h2
    · exact take_dropped_worse hss limit y hy r h1
    · -- r was dropped earlier: ≥ limit buffer elements are ≤ r; y is among the first `limit` sorted
      have h0 : limit ≤ cnt le (sort buf) r := by rw [cnt_perm hsp]; exact hd r h2
      -- if le y r fails then (by totality) r < y strictly and all `≤ r` elements precede y… use take_keeps
      have hk := take_keeps P hss limit r h0
      -- all of the first `limit` elements satisfy le · r, since their count equals their number
      have hlen : ((sort buf).take limit).length ≤ limit := by simp [List.length_take]; omega
      have hall : ((sort buf).take limit).filter (fun b => le b r) = (sort buf).take limit := by
        apply List.Sublist.eq_of_length_le (List.filter_sublist)
        unfold cnt at hk; omega
      have := List.filter_eq_self.mp hall y hy
      simpa using this



end Lucid
