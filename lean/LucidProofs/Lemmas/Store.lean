/-
  LucidProofs.Lemmas.Store — the store as a state machine (`store/store.rs`, `search/mod.rs`):
  operations, the "freshly constructed store" (`Store.fresh` / `Store.rebuild`), the invariant `StoreInv`
  that ties the trigram index and the `top_ixs` cache to the record list, and its preservation.
  Used by C10, C12, C20.
-/
import LucidModel.Search
import LucidProofs.Lemmas.LimitSort
import LucidProofs.Lemmas.Orders
import LucidProofs.Lemmas.Sorter

namespace Lucid

/-- the mutating entry points of `Store` plus `search` (which may fill the `top_ixs` cache) -/
inductive StoreOp where
  | add (id : Nat) (title : Text) (rating : Nat)
  | clear
  | setLimit (n : Nat)
  | setDividers (l r : List Nat)
  | search (q : Text)
deriving Repr, DecidableEq

/-- run one operation; a search returns its results elsewhere, here only the store after the call -/
def Store.apply (S : Sorter) (K : Consts) (order : List ScoreType) (st : Store) : StoreOp → Store
  | .add id title rating => st.add id title rating
  | .clear => st.clear
  | .setLimit n => st.setLimit n
  | .setDividers l r => st.setDividers l r
  | .search q => (st.searchM S K order q).2

def Store.run (S : Sorter) (K : Consts) (order : List ScoreType) (st : Store) (ops : List StoreOp) : Store :=
  ops.foldl (Store.apply S K order) st

/-- add a list of `(id, title, rating)` triples in order -/
def Store.addAll (st : Store) (rs : List (Nat × Text × Nat)) : Store :=
  rs.foldl (fun s r => s.add r.1 r.2.1 r.2.2) st

/-- a newly constructed store: `Store::new()`, then the limit, the markers, then every record in order -/
def Store.fresh (K : Consts) (limit : Nat) (dividers : List Nat × List Nat) (rs : List (Nat × Text × Nat)) : Store :=
  (((Store.new K).setLimit limit).setDividers dividers.1 dividers.2).addAll rs

/-- what the caller supplied for a record: `(id, title, rating)` (the position `ix` is assigned by the store) -/
def Record.data (r : Record) : Nat × Text × Nat := (r.id, r.title, r.rating)

/-- the newly constructed store holding the same records in the same order, the same limit and markers -/
def Store.rebuild (K : Consts) (st : Store) : Store :=
  Store.fresh K st.limit st.dividers (st.records.map Record.data)

/-- the selection that `top_ixs` caches for limit `lim` -/
def topList (S : Sorter) (K : Consts) (lim : Nat) (rs : List Record) : List Nat :=
  (limitSort (S.sort topLe) K.sortFactor lim rs).map (·.ix)

/-- invariant of every reachable store -/
structure StoreInv (S : Sorter) (K : Consts) (st : Store) : Prop where
  nextIx : st.nextIx = st.records.length
  ixPos  : ∀ (i : Nat) (h : i < st.records.length), (st.records[i]).ix = i
  index  : st.index = (Store.rebuild K st).index
  cache  : st.topIxs = none ∨
           ∃ lim, st.topIxs = some (lim, (limitSort (S.sort topLe) K.sortFactor lim st.records).map (·.ix))

/-! ### `addAll` field by field -/

/-- records produced by adding triples starting at position `n` -/
def mkRecords (n : Nat) : List (Nat × Text × Nat) → List Record
  | [] => []
  | r :: rs => { ix := n, id := r.1, title := r.2.1, rating := r.2.2 } :: mkRecords (n + 1) rs

/-- the index after adding titles at positions `n, n+1, …` -/
def indexAll (idx : Index) (n : Nat) : List (Nat × Text × Nat) → Index
  | [] => idx
  | r :: rs => indexAll (idx.add n r.2.1) (n + 1) rs

@[simp] theorem addAll_nil (st : Store) : st.addAll [] = st := rfl
@[simp] theorem addAll_cons (st : Store) (r : Nat × Text × Nat) (rs : List (Nat × Text × Nat)) :
    st.addAll (r :: rs) = (st.add r.1 r.2.1 r.2.2).addAll rs := rfl

theorem addAll_append (st : Store) (a b : List (Nat × Text × Nat)) :
    st.addAll (a ++ b) = (st.addAll a).addAll b := by
  simp [Store.addAll, List.foldl_append]

theorem addAll_limit (st : Store) (rs : List (Nat × Text × Nat)) : (st.addAll rs).limit = st.limit := by
  induction rs generalizing st with
  | nil => rfl
  | cons r rs ih => rw [addAll_cons, ih]; rfl

theorem addAll_dividers (st : Store) (rs : List (Nat × Text × Nat)) : (st.addAll rs).dividers = st.dividers := by
  induction rs generalizing st with
  | nil => rfl
  | cons r rs ih => rw [addAll_cons, ih]; rfl

theorem addAll_nextIx (st : Store) (rs : List (Nat × Text × Nat)) :
    (st.addAll rs).nextIx = st.nextIx + rs.length := by
  induction rs generalizing st with
  | nil => rfl
  | cons r rs ih => rw [addAll_cons, ih]; simp [Store.add]; omega

theorem addAll_records (st : Store) (rs : List (Nat × Text × Nat)) :
    (st.addAll rs).records = st.records ++ mkRecords st.nextIx rs := by
  induction rs generalizing st with
  | nil => simp [mkRecords]
  | cons r rs ih => rw [addAll_cons, ih]; simp [Store.add, mkRecords]

theorem addAll_index (st : Store) (rs : List (Nat × Text × Nat)) :
    (st.addAll rs).index = indexAll st.index st.nextIx rs := by
  induction rs generalizing st with
  | nil => rfl
  | cons r rs ih => rw [addAll_cons, ih]; rfl

theorem addAll_topIxs (st : Store) (h : st.topIxs = none) (rs : List (Nat × Text × Nat)) :
    (st.addAll rs).topIxs = none := by
  induction rs generalizing st with
  | nil => exact h
  | cons r rs ih => rw [addAll_cons]; exact ih _ rfl

theorem indexAll_append (idx : Index) (n : Nat) (a b : List (Nat × Text × Nat)) :
    indexAll idx n (a ++ b) = indexAll (indexAll idx n a) (n + a.length) b := by
  induction a generalizing idx n with
  | nil => rfl
  | cons r a ih => simp only [List.cons_append, indexAll, ih, List.length_cons]; congr 1; omega

theorem mkRecords_length (n : Nat) (rs : List (Nat × Text × Nat)) : (mkRecords n rs).length = rs.length := by
  induction rs generalizing n with
  | nil => rfl
  | cons r rs ih => simp [mkRecords, ih]

/-- re-adding records whose `ix` already is their position reproduces them -/
theorem mkRecords_data (n : Nat) (rs : List Record)
    (h : ∀ (i : Nat) (hi : i < rs.length), (rs[i]).ix = n + i) : mkRecords n (rs.map Record.data) = rs := by
  induction rs generalizing n with
  | nil => rfl
  | cons r rs ih =>
    have h0 := h 0 (by simp)
    simp only [List.getElem_cons_zero, Nat.add_zero] at h0
    simp only [List.map_cons, mkRecords, Record.data]
    congr 1
    · cases r; simp_all
    · apply ih
      intro i hi
      have := h (i + 1) (by simp; omega)
      simp only [List.getElem_cons_succ] at this
      omega

theorem mkRecords_ix (n : Nat) (rs : List (Nat × Text × Nat)) (i : Nat) (hi : i < (mkRecords n rs).length) :
    ((mkRecords n rs)[i]).ix = n + i := by
  induction rs generalizing n i with
  | nil => simp [mkRecords] at hi
  | cons r rs ih =>
    cases i with
    | zero => simp [mkRecords]
    | succ i =>
      simp only [mkRecords, List.getElem_cons_succ]
      rw [ih]; omega

theorem mkRecords_map_data (n : Nat) (rs : List (Nat × Text × Nat)) : (mkRecords n rs).map Record.data = rs := by
  induction rs generalizing n with
  | nil => rfl
  | cons r rs ih => simp [mkRecords, Record.data, ih]

/-! ### the fresh store, field by field -/

theorem fresh_limit (K : Consts) (lim : Nat) (d : List Nat × List Nat) (rs : List (Nat × Text × Nat)) :
    (Store.fresh K lim d rs).limit = lim := by
  simp [Store.fresh, addAll_limit, Store.setDividers, Store.setLimit]

theorem fresh_dividers (K : Consts) (lim : Nat) (d : List Nat × List Nat) (rs : List (Nat × Text × Nat)) :
    (Store.fresh K lim d rs).dividers = d := by
  simp [Store.fresh, addAll_dividers, Store.setDividers]

theorem fresh_nextIx (K : Consts) (lim : Nat) (d : List Nat × List Nat) (rs : List (Nat × Text × Nat)) :
    (Store.fresh K lim d rs).nextIx = rs.length := by
  simp [Store.fresh, addAll_nextIx, Store.setDividers, Store.setLimit, Store.new]

theorem fresh_records (K : Consts) (lim : Nat) (d : List Nat × List Nat) (rs : List (Nat × Text × Nat)) :
    (Store.fresh K lim d rs).records = mkRecords 0 rs := by
  simp [Store.fresh, addAll_records, Store.setDividers, Store.setLimit, Store.new]

theorem fresh_index (K : Consts) (lim : Nat) (d : List Nat × List Nat) (rs : List (Nat × Text × Nat)) :
    (Store.fresh K lim d rs).index = indexAll Index.new 0 rs := by
  simp [Store.fresh, addAll_index, Store.setDividers, Store.setLimit, Store.new]

theorem fresh_topIxs (K : Consts) (lim : Nat) (d : List Nat × List Nat) (rs : List (Nat × Text × Nat)) :
    (Store.fresh K lim d rs).topIxs = none := by
  unfold Store.fresh; exact addAll_topIxs _ rfl _

theorem rebuild_index (K : Consts) (st : Store) :
    (Store.rebuild K st).index = indexAll Index.new 0 (st.records.map Record.data) := fresh_index ..

/-- a fresh store with one more record is the fresh store with that record added last -/
theorem fresh_snoc (K : Consts) (lim : Nat) (d : List Nat × List Nat) (rs : List (Nat × Text × Nat))
    (r : Nat × Text × Nat) :
    Store.fresh K lim d (rs ++ [r]) = (Store.fresh K lim d rs).add r.1 r.2.1 r.2.2 := by
  simp [Store.fresh, addAll_append]

/-- store extensionality -/
theorem Store.ext' {a b : Store} (h1 : a.nextIx = b.nextIx) (h2 : a.records = b.records) (h3 : a.limit = b.limit)
    (h4 : a.dividers = b.dividers) (h5 : a.index = b.index) (h6 : a.topIxs = b.topIxs) : a = b := by
  cases a; cases b; simp_all

/-- under the invariant the fresh store is the store itself with the cache dropped -/
theorem rebuild_eq_dropCache {S : Sorter} {K : Consts} {st : Store} (h : StoreInv S K st) :
    Store.rebuild K st = { st with topIxs := none } := by
  apply Store.ext'
  · simp [Store.rebuild, fresh_nextIx, h.nextIx]
  · simp only [Store.rebuild, fresh_records]
    exact mkRecords_data 0 st.records (by simpa using h.ixPos)
  · simp [Store.rebuild, fresh_limit]
  · simp [Store.rebuild, fresh_dividers]
  · exact h.index.symm
  · simp [Store.rebuild, fresh_topIxs]

/-! ### the invariant holds initially and is preserved -/

theorem StoreInv_new (S : Sorter) (K : Consts) : StoreInv S K (Store.new K) :=
  ⟨rfl, by simp [Store.new], by simp [rebuild_index, Store.new, indexAll], Or.inl rfl⟩

theorem StoreInv_add {S : Sorter} {K : Consts} {st : Store} (h : StoreInv S K st) (id : Nat) (title : Text)
    (rating : Nat) : StoreInv S K (st.add id title rating) := by
  refine ⟨?_, ?_, ?_, Or.inl rfl⟩
  · simp [Store.add, h.nextIx]
  · intro i hi
    simp only [Store.add, List.length_append, List.length_singleton] at hi ⊢
    rw [List.getElem_append]
    split
    · rename_i h'; exact h.ixPos i h'
    · simp only [List.getElem_singleton]; have := h.nextIx; omega
  · rw [rebuild_index]
    simp only [Store.add, List.map_append, List.map_cons, List.map_nil, indexAll_append, indexAll, Record.data,
      List.length_map, Nat.zero_add]
    rw [← rebuild_index, ← h.index, h.nextIx]

theorem StoreInv_clear (S : Sorter) (K : Consts) (st : Store) : StoreInv S K st.clear :=
  ⟨rfl, by simp [Store.clear], by simp [rebuild_index, Store.clear, indexAll], Or.inl rfl⟩

theorem StoreInv_setLimit {S : Sorter} {K : Consts} {st : Store} (h : StoreInv S K st) (n : Nat) :
    StoreInv S K (st.setLimit n) :=
  ⟨h.nextIx, h.ixPos, by have := h.index; rw [rebuild_index] at this ⊢; exact this, h.cache⟩

theorem StoreInv_setDividers {S : Sorter} {K : Consts} {st : Store} (h : StoreInv S K st) (l r : List Nat) :
    StoreInv S K (st.setDividers l r) :=
  ⟨h.nextIx, h.ixPos, by have := h.index; rw [rebuild_index] at this ⊢; exact this, h.cache⟩

/-- what each mutating operation does to the cache: `add` and `clear` drop it, the setters keep it -/
theorem add_topIxs (st : Store) (id : Nat) (t : Text) (r : Nat) : (st.add id t r).topIxs = none := rfl
theorem clear_topIxs (st : Store) : st.clear.topIxs = none := rfl
theorem setLimit_topIxs (st : Store) (n : Nat) : (st.setLimit n).topIxs = st.topIxs := rfl
theorem setDividers_topIxs (st : Store) (l r : List Nat) : (st.setDividers l r).topIxs = st.topIxs := rfl

/-- `top_ixs` touches nothing but the cache -/
theorem topIxsM_snd (S : Sorter) (K : Consts) (st : Store) :
    (st.topIxsM S K).2 = st ∨
    (st.topIxsM S K).2 = { st with topIxs := some (st.limit, (limitSort (S.sort topLe) K.sortFactor st.limit st.records).map (·.ix)) } := by
  unfold Store.topIxsM
  split
  · split
    · exact Or.inl rfl
    · exact Or.inr rfl
  · exact Or.inr rfl

theorem searchM_snd (S : Sorter) (K : Consts) (order : List ScoreType) (st : Store) (q : Text) :
    (st.searchM S K order q).2 = (st.candidatesM S K q).2 := by
  simp [Store.searchM]

theorem candidatesM_snd (S : Sorter) (K : Consts) (st : Store) (q : Text) :
    (st.candidatesM S K q).2 = st ∨
    (st.candidatesM S K q).2 = { st with topIxs := some (st.limit, (limitSort (S.sort topLe) K.sortFactor st.limit st.records).map (·.ix)) } := by
  unfold Store.candidatesM
  split
  · exact Or.inl rfl
  · exact topIxsM_snd S K st

/-- a search changes at most the cache (records, limit, markers, index, next position are untouched) -/
theorem searchM_snd_fields (S : Sorter) (K : Consts) (order : List ScoreType) (st : Store) (q : Text) :
    (st.searchM S K order q).2.nextIx = st.nextIx ∧ (st.searchM S K order q).2.records = st.records ∧
    (st.searchM S K order q).2.limit = st.limit ∧ (st.searchM S K order q).2.dividers = st.dividers ∧
    (st.searchM S K order q).2.index = st.index := by
  rw [searchM_snd]
  rcases candidatesM_snd S K st q with h | h <;> rw [h] <;> simp

theorem StoreInv_search {S : Sorter} {K : Consts} {st : Store} (h : StoreInv S K st) (order : List ScoreType)
    (q : Text) : StoreInv S K (st.searchM S K order q).2 := by
  rw [searchM_snd]
  rcases candidatesM_snd S K st q with e | e <;> rw [e]
  · exact h
  · exact ⟨h.nextIx, h.ixPos, by have := h.index; rw [rebuild_index] at this ⊢; exact this, Or.inr ⟨st.limit, rfl⟩⟩

theorem StoreInv_apply {S : Sorter} {K : Consts} {st : Store} (h : StoreInv S K st) (order : List ScoreType)
    (op : StoreOp) : StoreInv S K (st.apply S K order op) := by
  cases op with
  | add id t r => exact StoreInv_add h id t r
  | clear => exact StoreInv_clear S K st
  | setLimit n => exact StoreInv_setLimit h n
  | setDividers l r => exact StoreInv_setDividers h l r
  | search q => exact StoreInv_search h order q

theorem StoreInv_run {S : Sorter} {K : Consts} {st : Store} (h : StoreInv S K st) (order : List ScoreType)
    (ops : List StoreOp) : StoreInv S K (st.run S K order ops) := by
  induction ops generalizing st with
  | nil => exact h
  | cons op ops ih => exact ih (StoreInv_apply h order op)

theorem StoreInv_reachable (S : Sorter) (K : Consts) (order : List ScoreType) (ops : List StoreOp) :
    StoreInv S K ((Store.new K).run S K order ops) := StoreInv_run (StoreInv_new S K) order ops

/-! ### what a search reads -/

theorem search_eq_limitSort (S : Sorter) (K : Consts) (order : List ScoreType) (st : Store) (q : Text) :
    st.search S K order q =
      (limitSort (S.sort hitLe) K.sortFactor st.limit (st.hitsOf K order q (st.candidatesM S K q).1)).map st.render := by
  simp [Store.search, Store.searchM]

/-- with a valid (or absent) cache, `top_ixs` returns the selection for the *current* limit and records -/
theorem topIxsM_fst_of_cache (S : Sorter) (K : Consts) (st : Store)
    (h : st.topIxs = none ∨
         ∃ lim, st.topIxs = some (lim, (limitSort (S.sort topLe) K.sortFactor lim st.records).map (·.ix))) :
    (st.topIxsM S K).1 = (limitSort (S.sort topLe) K.sortFactor st.limit st.records).map (·.ix) := by
  unfold Store.topIxsM
  rcases h with h | ⟨lim, h⟩
  · rw [h]
  · rw [h]
    simp only
    split
    · rename_i e; rw [e]
    · rfl

/-- the candidate list depends on the index, the limit, the records and – only through a valid cache – nothing else -/
theorem candidatesM_fst_dropCache (S : Sorter) (K : Consts) (st : Store) (q : Text)
    (h : st.topIxs = none ∨
         ∃ lim, st.topIxs = some (lim, (limitSort (S.sort topLe) K.sortFactor lim st.records).map (·.ix))) :
    (st.candidatesM S K q).1 = (({ st with topIxs := none } : Store).candidatesM S K q).1 := by
  unfold Store.candidatesM
  split
  · rfl
  · rw [topIxsM_fst_of_cache S K st h, topIxsM_fst_of_cache S K _ (Or.inl rfl)]

theorem search_dropCache (S : Sorter) (K : Consts) (order : List ScoreType) (st : Store) (q : Text)
    (h : st.topIxs = none ∨
         ∃ lim, st.topIxs = some (lim, (limitSort (S.sort topLe) K.sortFactor lim st.records).map (·.ix))) :
    st.search S K order q = ({ st with topIxs := none } : Store).search S K order q := by
  rw [search_eq_limitSort, search_eq_limitSort, candidatesM_fst_dropCache S K st q h]
  rfl

/-- the results of a search on a store satisfying the invariant are those of the freshly constructed store -/
theorem search_eq_rebuild {S : Sorter} {K : Consts} {st : Store} (h : StoreInv S K st) (order : List ScoreType)
    (q : Text) : st.search S K order q = (Store.rebuild K st).search S K order q := by
  rw [rebuild_eq_dropCache h]
  exact search_dropCache S K order st q h.cache

/-- the candidate list after a search equals the candidate list before it – for *every* store -/
theorem candidatesM_fst_after_search (S : Sorter) (K : Consts) (order : List ScoreType) (st : Store) (q' q : Text) :
    ((st.searchM S K order q').2.candidatesM S K q).1 = (st.candidatesM S K q).1 := by
  rw [searchM_snd]
  rcases candidatesM_snd S K st q' with e | e
  · rw [e]
  · -- the cache was (re)filled for the current limit
    rw [e]
    unfold Store.candidatesM
    split
    · rfl
    · -- empty query: the new cache is hit; the old one was absent or keyed differently – or the store was unchanged
      show (Store.topIxsM S K { st with topIxs := some (st.limit, _) }).1 = (st.topIxsM S K).1
      by_cases hq' : q'.words.length > 0
      · -- non-empty `q'` does not change the store, so `e` says the cache already had this value
        have e' : (st.candidatesM S K q').2 = st := by simp [Store.candidatesM, hq']
        rw [e'] at e
        conv => rhs; rw [e]
      · have e' : (st.candidatesM S K q').2 = (st.topIxsM S K).2 := by simp [Store.candidatesM, hq']
        rw [e'] at e
        unfold Store.topIxsM at e ⊢
        simp only [if_true]
        split
        · rename_i lim ixs hc
          split
          · rename_i hl
            rw [hc] at e; simp only [hl, if_true] at e
            have := congrArg Store.topIxs e
            simp only [hc] at this
            injection this with this
            injection this with _ this
            exact this.symm
          · rfl
        · rfl

theorem search_after_search (S : Sorter) (K : Consts) (order : List ScoreType) (st : Store) (q' q : Text) :
    (st.searchM S K order q').2.search S K order q = st.search S K order q := by
  rw [search_eq_limitSort, search_eq_limitSort, candidatesM_fst_after_search]
  obtain ⟨_, hr, hl, hd, _⟩ := searchM_snd_fields S K order st q'
  simp only [Store.hitsOf, hr, hl]
  congr 1
  funext h
  simp [Store.render, hd]

/-! ### the empty query (no word in the query): used by C12 -/

/-- the record a hit was made from -/
def Hit.record (h : Hit) : Record := { ix := h.ix, id := h.id, title := h.title, rating := h.rating }

/-- the records behind the hits of a search, in result order -/
def Store.listed (S : Sorter) (K : Consts) (order : List ScoreType) (st : Store) (q : Text) : List Record :=
  (limitSort (S.sort hitLe) K.sortFactor st.limit (st.hitsOf K order q (st.candidatesM S K q).1)).map Hit.record

/-- a title as it is displayed when nothing is highlighted: the walk of `highlight` with no match and no markers -/
def plainTitle (t : Text) : List Nat := (hlWalk t.source [] [] [] t.words 0 0).filter (· != 0)

theorem textMatch_noWords (K : Consts) (rt qt : Text) (h : qt.words = []) : textMatch K rt qt = ([], []) := by
  simp [textMatch, h]

theorem scoreHit_noWords (K : Consts) (order : List ScoreType) (q : Text) (hq : q.words = []) (r : Record) :
    scoreHit K order q r =
      { ix := r.ix, id := r.id, title := r.title, rating := r.rating, rmatches := [], qmatches := [],
        scores := order.map (scoreOf r.title r.rating []) } := by
  simp [scoreHit, textMatch_noWords K r.title q hq]

theorem record_scoreHit (K : Consts) (order : List ScoreType) (q : Text) (r : Record) :
    (scoreHit K order q r).record = r := by
  cases r; simp [scoreHit, Hit.record]

theorem hitMatches_noWords (q : Text) (hq : q.words = []) (h : Hit) : hitMatches q h = true := by
  simp [hitMatches, hq]

/-- with no match the walk never looks at the markers -/
theorem hlWalk_noMatch_markers (source dl dr : List Nat) (ws : List WordShape) (wi off : Nat) :
    hlWalk source [] dl dr ws wi off = hlWalk source [] [] [] ws wi off := by
  induction ws generalizing wi off with
  | nil => rfl
  | cons w ws ih => simp only [hlWalk, List.find?_nil, ih]

/-- with no match and well-formed word slices (`hlSafe`) the walk copies the source -/
theorem hlWalk_noMatch_of_safe (source dl dr : List Nat) (ws : List WordShape) (wi off : Nat)
    (h : hlSafe source [] ws wi off = true) : hlWalk source [] dl dr ws wi off = source.drop off := by
  induction ws generalizing wi off with
  | nil => rfl
  | cons w ws ih =>
    simp only [hlSafe, List.find?_nil, Bool.and_eq_true, decide_eq_true_eq] at h
    simp only [hlWalk, List.find?_nil, ih _ _ h.2, slice]
    have : source.drop w.hi = (source.drop off).drop (w.hi - off) := by
      rw [List.drop_drop]; congr 1; omega
    rw [this, List.take_append_drop]

theorem highlight_noWords (K : Consts) (order : List ScoreType) (q : Text) (hq : q.words = []) (r : Record)
    (dl dr : List Nat) : highlight (scoreHit K order q r) dl dr = plainTitle r.title := by
  simp only [highlight, scoreHit_noWords K order q hq, plainTitle]
  rw [hlWalk_noMatch_markers]

theorem plainTitle_of_safe (t : Text) (h : hlSafe t.source [] t.words 0 0 = true) :
    plainTitle t = t.source.filter (· != 0) := by
  simp [plainTitle, hlWalk_noMatch_of_safe _ _ _ _ _ _ h]

/-- under the invariant a record is found at its own position -/
theorem records_lookup {S : Sorter} {K : Consts} {st : Store} (h : StoreInv S K st) :
    ∀ r ∈ st.records, st.records[r.ix]? = some r := by
  intro r hr
  obtain ⟨i, hi, rfl⟩ := List.mem_iff_getElem.mp hr
  rw [h.ixPos i hi, List.getElem?_eq_getElem hi]

theorem filterMap_lookup (recs top : List Record) (h : ∀ r ∈ top, recs[r.ix]? = some r) :
    (top.map (·.ix)).filterMap (fun ix => recs[ix]?) = top := by
  induction top with
  | nil => rfl
  | cons r top ih =>
    simp only [List.map_cons, List.filterMap_cons, h r (by simp)]
    rw [ih (fun r' hr' => h r' (by simp [hr']))]

theorem TopK_mem_input {α : Type} {le : α → α → Bool} {k : Nat} {xs ys : List α} (h : TopK le k xs ys) :
    ∀ y ∈ ys, y ∈ xs := by
  obtain ⟨_, _, rest, hp, _⟩ := h
  intro y hy
  exact hp.mem_iff.mp (List.mem_append_left _ hy)

/-- a `TopK` selection of a list that is not longer than `k` is a permutation of it -/
theorem TopK_perm_of_short {α : Type} {le : α → α → Bool} {k : Nat} {xs ys : List α} (h : TopK le k xs ys)
    (hk : xs.length ≤ k) : ys.Perm xs := by
  obtain ⟨_, hl, rest, hp, _⟩ := h
  have := hp.length_eq
  rw [List.length_append] at this
  have : rest = [] := List.eq_nil_of_length_eq_zero (by omega)
  simpa [this] using hp

/-- the markers play no role in which records are hit, in which order (any query) -/
theorem candidatesM_fst_setDividers (S : Sorter) (K : Consts) (st : Store) (q : Text) (l r : List Nat) :
    ((st.setDividers l r).candidatesM S K q).1 = (st.candidatesM S K q).1 := by
  unfold Store.candidatesM Store.topIxsM Store.setDividers
  simp only
  split
  · rfl
  · split
    · split <;> rfl
    · rfl

theorem listed_setDividers (S : Sorter) (K : Consts) (order : List ScoreType) (st : Store) (q : Text) (l r : List Nat) :
    (st.setDividers l r).listed S K order q = st.listed S K order q := by
  unfold Store.listed
  rw [candidatesM_fst_setDividers]
  rfl

/-- the selection that an empty query starts from -/
def Store.cand (S : Sorter) (K : Consts) (st : Store) : List Record :=
  limitSort (S.sort topLe) K.sortFactor st.limit st.records

theorem cand_TopK (S : Sorter) (hS : SorterOK S) (K : Consts) (hK : 1 ≤ K.sortFactor) (st : Store) :
    TopK topLe st.limit st.records (st.cand S K) :=
  limitSort_TopK topLe_preorder (hS topLe topLe_preorder) K.sortFactor hK st.limit st.records

theorem candidatesM_empty {S : Sorter} {K : Consts} {st : Store} (h : StoreInv S K st) (q : Text)
    (hq : q.words = []) : (st.candidatesM S K q).1 = (st.cand S K).map (·.ix) := by
  simp only [Store.candidatesM, hq, List.length_nil, Nat.lt_irrefl, if_false, gt_iff_lt]
  exact topIxsM_fst_of_cache S K st h.cache

/-- for an empty query the scored hits are the cached selection: every candidate passes the filter -/
theorem hitsOf_empty (S : Sorter) (hS : SorterOK S) (K : Consts) (hK : 1 ≤ K.sortFactor) (order : List ScoreType)
    {st : Store} (h : StoreInv S K st) (q : Text) (hq : q.words = []) :
    st.hitsOf K order q (st.candidatesM S K q).1 = (st.cand S K).map (scoreHit K order q) := by
  rw [candidatesM_empty h q hq]
  unfold Store.hitsOf
  rw [filterMap_lookup st.records (st.cand S K)
    (fun r hr => records_lookup h r (TopK_mem_input (cand_TopK S hS K hK st) r hr))]
  exact List.filter_eq_self.mpr (fun a _ => hitMatches_noWords q hq a)

/-- the hits of an empty-query search, in result order: a permutation of the cached selection, sorted by `hitLe` -/
theorem empty_top (S : Sorter) (hS : SorterOK S) (K : Consts) (hK : 1 ≤ K.sortFactor) (order : List ScoreType)
    {st : Store} (h : StoreInv S K st) (q : Text) (hq : q.words = []) :
    let top := limitSort (S.sort hitLe) K.sortFactor st.limit (st.hitsOf K order q (st.candidatesM S K q).1)
    top.Perm ((st.cand S K).map (scoreHit K order q)) ∧ top.Pairwise (fun a b => hitLe a b = true) := by
  intro top
  have ht : TopK hitLe st.limit ((st.cand S K).map (scoreHit K order q)) top := by
    show TopK hitLe st.limit _
      (limitSort (S.sort hitLe) K.sortFactor st.limit (st.hitsOf K order q (st.candidatesM S K q).1))
    rw [hitsOf_empty S hS K hK order h q hq]
    exact limitSort_TopK hitLe_preorder (hS hitLe hitLe_preorder) K.sortFactor hK st.limit _
  refine ⟨TopK_perm_of_short ht ?_, ht.1⟩
  rw [List.length_map, (cand_TopK S hS K hK st).2.1]
  exact Nat.min_le_left _ _

theorem listed_perm_cand (S : Sorter) (hS : SorterOK S) (K : Consts) (hK : 1 ≤ K.sortFactor) (order : List ScoreType)
    {st : Store} (h : StoreInv S K st) (q : Text) (hq : q.words = []) :
    (st.listed S K order q).Perm (st.cand S K) := by
  have := ((empty_top S hS K hK order h q hq).1).map Hit.record
  simpa [Store.listed, List.map_map, Function.comp_def, record_scoreHit] using this

/-- the hits are the scored listed records -/
theorem top_eq_listed_map (S : Sorter) (hS : SorterOK S) (K : Consts) (hK : 1 ≤ K.sortFactor) (order : List ScoreType)
    {st : Store} (h : StoreInv S K st) (q : Text) (hq : q.words = []) :
    limitSort (S.sort hitLe) K.sortFactor st.limit (st.hitsOf K order q (st.candidatesM S K q).1) =
      (st.listed S K order q).map (scoreHit K order q) := by
  have hp := (empty_top S hS K hK order h q hq).1
  simp only [Store.listed, List.map_map]
  symm
  rw [List.map_congr_left (g := id)]
  · simp
  · intro x hx
    obtain ⟨r, _, rfl⟩ := List.mem_map.mp (hp.mem_iff.mp hx)
    simp [record_scoreHit]

theorem search_empty (S : Sorter) (hS : SorterOK S) (K : Consts) (hK : 1 ≤ K.sortFactor) (order : List ScoreType)
    {st : Store} (h : StoreInv S K st) (q : Text) (hq : q.words = []) :
    st.search S K order q = (st.listed S K order q).map (fun r => ({ id := r.id, title := plainTitle r.title } : Result)) := by
  rw [search_eq_limitSort, top_eq_listed_map S hS K hK order h q hq, List.map_map]
  apply List.map_congr_left
  intro r _
  simp only [Function.comp, Store.render, highlight_noWords K order q hq]
  simp [scoreHit]

/-! #### the generated score order on hits without matches -/

theorem scoreOf_nil :
    scoreChars [] = 0 ∧ scoreWords [] = 0 ∧ scoreTails [] = 0 ∧ scoreTrans [] = 0 ∧ scoreFin [] = 1 ∧
    scoreOffset [] = 0 := by
  simp [scoreChars, scoreWords, scoreTails, scoreTrans, transCount, scoreFin, scoreOffset]

/-- the order of hits without matches under the order
    `[chars, words, tails, trans, fin, offset, rating, wordLen, charLen]`: higher rating first, then fewer words,
    then fewer characters -/
def plainLe (a b : Record) : Prop :=
  b.rating < a.rating ∨ (a.rating = b.rating ∧
    (a.title.words.length < b.title.words.length ∨ (a.title.words.length = b.title.words.length ∧
      (a.title.words.map (·.len)).sum ≤ (b.title.words.map (·.len)).sum)))

theorem hitLe_empty_iff (K : Consts) (q : Text) (hq : q.words = []) (a b : Record) :
    hitLe (scoreHit K [ScoreType.chars, .words, .tails, .trans, .fin, .offset, .rating, .wordLen, .charLen] q a)
          (scoreHit K [ScoreType.chars, .words, .tails, .trans, .fin, .offset, .rating, .wordLen, .charLen] q b) = true
      ↔ plainLe a b := by
  obtain ⟨h1, h2, h3, h4, h5, h6⟩ := scoreOf_nil
  simp only [hitLe, scoreHit_noWords K _ q hq, List.map_cons, List.map_nil, scoreOf, h1, h2, h3, h4, h5, h6,
    scoresLe, if_true, plainLe]
  by_cases hr : (a.rating : Int) = b.rating
  · have hr' : a.rating = b.rating := by omega
    simp only [hr, if_true]
    by_cases hw : (-(a.title.words.length : Int)) = -(b.title.words.length : Int)
    · have hw' : a.title.words.length = b.title.words.length := by omega
      simp only [hw, if_true]
      by_cases hc : (-(((a.title.words.map (·.len)).sum : Nat) : Int)) = -(((b.title.words.map (·.len)).sum : Nat) : Int)
      · simp only [hc, if_true, true_iff]
        right; exact ⟨hr', Or.inr ⟨hw', by omega⟩⟩
      · simp only [hc, if_false, decide_eq_true_eq]
        constructor
        · intro hlt; right; exact ⟨hr', Or.inr ⟨hw', by omega⟩⟩
        · rintro (hlt | ⟨_, hlt | ⟨_, hle⟩⟩) <;> omega
    · simp only [hw, if_false, decide_eq_true_eq]
      constructor
      · intro hlt; right; exact ⟨hr', Or.inl (by omega)⟩
      · rintro (hlt | ⟨_, hlt | ⟨he, _⟩⟩) <;> omega
  · simp only [hr, if_false, decide_eq_true_eq]
    constructor
    · intro hlt; left; omega
    · rintro (hlt | ⟨he, _⟩) <;> omega

end Lucid
