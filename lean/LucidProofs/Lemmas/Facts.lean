/-
  LucidProofs.Lemmas.Facts — named hypotheses about the oracles and the generated tables.
  * `UnicodeFacts` is checked against Rust's `std` on all scalars by the harness on every run.
  * `TablesOK` is decided by the kernel on the generated tables (see the `_src` theorems).
  * `StemBounded` is a hypothesis for the six Snowball languages (third-party code), a theorem for `none`;
    it speaks about words free of reduce-table keys only (the words that can reach the stemmer).
  * `FoldClosed` is decided by the kernel on the generated reduce tables; `LowerKeyFree` is an oracle/table fact
    checked by the harness.
-/
import LucidModel.Registry
import LucidModel.Gen.Consts
import LucidModel.Gen.Langs

namespace Lucid

/-- separator of the tokenizer's split step: whitespace, control or the punctuation set -/
def isSepChar (U : Unicode) (K : Consts) (c : Nat) : Bool :=
  U.isWhitespace c || U.isControl c || K.punctuation.contains c

structure UnicodeFacts (U : Unicode) (K : Consts) : Prop where
  sep_not_alnum : ∀ c, isSepChar U K c = true → U.isAlnum c = false
  lower_alnum   : ∀ c, U.isAlnum (U.lower1 c) = U.isAlnum c
  lower_alpha   : ∀ c, U.isAlphabetic (U.lower1 c) = U.isAlphabetic c
  lower_sep     : ∀ c, isSepChar U K c = false → isSepChar U K (U.lower1 c) = false
  lower_idem    : ∀ c, U.lower1 (U.lower1 c) = U.lower1 c
  lower_upper   : ∀ c, U.isUppercase (U.lower1 c) = true → U.lower1 c = c
  nul_control   : U.isControl 0 = true

/-- a normalisation table: keys have one or two characters, replacements are non-empty -/
def mapOK (m : List (List Nat × List Nat)) : Bool :=
  m.all (fun e => (e.1.length == 1 || e.1.length == 2) && decide (0 < e.2.length))

/-- a reduction never shrinks its key (the NUL padding loop computes `norm.len() - word.len()`) -/
def noShrink (m : List (List Nat × List Nat)) : Bool := m.all (fun e => decide (e.1.length ≤ e.2.length))

def TablesOK (T : LangTables) : Bool := mapOK T.compose && mapOK T.reduce && noShrink T.reduce

theorem tablesOK_none : TablesOK Gen.lang_none = true := by decide
theorem tablesOK_de : TablesOK Gen.lang_de = true := by decide
theorem tablesOK_en : TablesOK Gen.lang_en = true := by decide
theorem tablesOK_es : TablesOK Gen.lang_es = true := by decide
theorem tablesOK_fr : TablesOK Gen.lang_fr = true := by decide
theorem tablesOK_pt : TablesOK Gen.lang_pt = true := by decide
theorem tablesOK_ru : TablesOK Gen.lang_ru = true := by decide

/-- decidable closure condition on a reduce table: every key is a single character, and no character of a
    replacement is itself a key (folding is idempotent and, there being no two-character keys, never
    interacts with the neighbours; after `unicode_reduce` no character of the text is a key). -/
def FoldClosed (m : List (List Nat × List Nat)) : Bool :=
  m.all (fun e => e.1.length == 1 && e.2.all (fun c => (mapGet m [c]).isNone))

theorem foldClosed_none : FoldClosed Gen.lang_none.reduce = true := by decide
theorem foldClosed_de : FoldClosed Gen.lang_de.reduce = true := by decide
theorem foldClosed_en : FoldClosed Gen.lang_en.reduce = true := by decide
theorem foldClosed_es : FoldClosed Gen.lang_es.reduce = true := by decide
theorem foldClosed_fr : FoldClosed Gen.lang_fr.reduce = true := by decide
theorem foldClosed_pt : FoldClosed Gen.lang_pt.reduce = true := by decide
theorem foldClosed_ru : FoldClosed Gen.lang_ru.reduce = true := by decide

/-- oracle/table fact: lower-casing never turns a character the reduce table leaves alone into a key of the
    reduce table (checked by the harness over all scalars against Rust's `std` and the real tables) -/
def LowerKeyFree (E : Env) : Prop :=
  ∀ c, mapGet E.T.reduce [c] = none → mapGet E.T.reduce [E.U.lower1 c] = none

/-- Snowball oracle: the stem of a non-empty word *that can reach the stemmer* — one none of whose characters
    is a key of the language's reduce table, since `normalize` runs before `set_stem` — has between 1 and
    `|w|` characters.  (Unrestricted, the bound is false for the real German stemmer: it rewrites `ß` to `ss`
    itself, so `stem "ß" = 2`; but the German reduce table maps `ß → ss` first.) -/
def StemBounded (E : Env) : Prop :=
  ∀ w : List Nat, w ≠ [] → (∀ c ∈ w, mapGet E.T.reduce [c] = none) → 1 ≤ E.stem w ∧ E.stem w ≤ w.length

/-- edit costs: what the distance theorems need of the generated constants -/
def CostsOK (K : Consts) : Bool :=
  decide (0 < K.costVowel) && decide (0 < K.costNotAlpha) && decide (0 < K.costConsonant) && decide (0 < K.costDefault) &&
  decide (K.costVowel ≤ 10) && decide (K.costNotAlpha ≤ 10) && decide (K.costConsonant ≤ 10) && decide (K.costDefault ≤ 10) &&
  decide (K.costSingle = 10) && decide (K.costDouble = 5) && decide (K.costTrans = 5) &&
  decide (K.costVowel % 5 = 0) && decide (K.costNotAlpha % 5 = 0) && decide (K.costConsonant % 5 = 0) && decide (K.costDefault % 5 = 0)

theorem costsOK_src : CostsOK Gen.srcConsts = true := by decide

end Lucid
