/-
  LucidProofs.Lemmas.ApiLift — from the per-store theorems to the top-level API (`Registry.step` over raw
  strings). Everything here is glue:

  * `EnvsOK envs`                 — the hypotheses on the language environments, bundled;
  * `RegOp.keeps id` / `.quiet id` — the call does not destroy / re-create `id` (resp. nor search on it);
  * `storeOpsOf P E id post`      — the calls of `post` addressed to `id`, as stand-alone `StoreOp`s;
  * `proj_since` / `proj_some_decomp` — the projection `proj` of C20 is exactly "the calls addressed to `id` since
    its last `create`", and an id is live iff the call list has the shape `pre ++ create id lang :: post`
    with no `destroy id` / `create id` in `post`;
  * `live_store_reachable`        — the store of a live id is a reachable store whose titles are tokenised texts
    (hence `StoreInv`, `StoreIndexInv`, `TextOK`, `TokInv`);
  * `addedOf`, `limitFrom`, `markersFrom`, `store_fields` — records, limit and markers of that store read off
    the call list (`addedOf`: the `add_record` calls since the last `clearStore` = `using_store(id, |s| s.clear())`);
  * `buffer_after_search`, `run_quiet_results` — what the result buffer holds.
-/
import LucidProofs.C01
import LucidProofs.C03b
import LucidProofs.C20

namespace Lucid

/-! ### the language environments -/

/-- every language environment uses the generated constants and meets the oracle / table hypotheses -/
structure EnvsOK (envs : Nat → Env) : Prop where
  consts  : ∀ l, (envs l).K = Gen.srcConsts
  unicode : ∀ l, UnicodeFacts (envs l).U Gen.srcConsts
  tables  : ∀ l, TablesOK (envs l).T = true
  stem    : ∀ l, StemHyp (envs l)

/-- an environment with the generated constants is `Gen.srcProg.env` of its three other fields -/
theorem env_eta (E : Env) (hK : E.K = Gen.srcConsts) : E = Gen.srcProg.env E.U E.T E.stem := by
  cases E; simp only [Prog.env] at hK ⊢; subst hK; rfl

theorem EnvsOK.unicode' {envs : Nat → Env} (h : EnvsOK envs) (l : Nat) : UnicodeFacts (envs l).U (envs l).K :=
  (h.consts l) ▸ h.unicode l

theorem EnvsOK.record {envs : Nat → Env} (h : EnvsOK envs) (l : Nat) (s : List Nat) :
    TokInv (envs l) false s (tokenizeRecord Gen.srcProg (envs l) s) :=
  C15_record (envs l) (h.consts l) (h.unicode l) (h.tables l) (h.stem l) s

theorem EnvsOK.query {envs : Nat → Env} (h : EnvsOK envs) (l : Nat) (s : List Nat) :
    TokInv (envs l) true s (tokenizeQuery Gen.srcProg (envs l) s) :=
  C15_query (envs l) (h.consts l) (h.unicode l) (h.tables l) (h.stem l) s

/-! ### the calls addressed to an id since its creation -/

/-- the call neither destroys nor (re-)creates `id` (`clearStore id` keeps the id: same store entry, emptied) -/
def RegOp.keeps (id : Nat) : RegOp → Bool
  | .create j _ => j != id
  | .destroy j => j != id
  | _ => true

/-- the call neither destroys nor (re-)creates `id` nor runs a search on it (`clearStore id` is quiet: it leaves the
    result buffer alone) -/
def RegOp.quiet (id : Nat) : RegOp → Bool
  | .create j _ => j != id
  | .destroy j => j != id
  | .runSearch j _ => j != id
  | _ => true

theorem RegOp.keeps_of_quiet {id : Nat} {op : RegOp} (h : op.quiet id = true) : op.keeps id = true := by
  cases op <;> simp_all [RegOp.quiet, RegOp.keeps]

/-- what a call does to the store of `id` (texts tokenised for the language environment `E` of that store);
    `none` for calls on other ids and for `create` / `destroy` -/
def RegOp.toStoreOp? (P : Prog) (E : Env) (id : Nat) : RegOp → Option StoreOp
  | .highlightWith j l r => if j = id then some (.setDividers l r) else none
  | .addRecord j recId title rating => if j = id then some (.add recId (tokenizeRecord P E title) rating) else none
  | .setLimit j n => if j = id then some (.setLimit n) else none
  | .runSearch j q => if j = id then some (.search (tokenizeQuery P E q)) else none
  | .clearStore j => if j = id then some .clear else none
  | _ => none

/-- the calls of `post` addressed to `id`, as operations of a stand-alone store -/
def storeOpsOf (P : Prog) (E : Env) (id : Nat) (post : List RegOp) : List StoreOp :=
  post.filterMap (RegOp.toStoreOp? P E id)

theorem storeOpsOf_cons (P : Prog) (E : Env) (id : Nat) (op : RegOp) (post : List RegOp) :
    storeOpsOf P E id (op :: post) = (op.toStoreOp? P E id).toList ++ storeOpsOf P E id post := by
  unfold storeOpsOf
  rw [List.filterMap_cons]
  cases op.toStoreOp? P E id <;> rfl

theorem storeOpsOf_append (P : Prog) (E : Env) (id : Nat) (a b : List RegOp) :
    storeOpsOf P E id (a ++ b) = storeOpsOf P E id a ++ storeOpsOf P E id b := by
  simp [storeOpsOf, List.filterMap_append]

theorem toStoreOp?_other (P : Prog) (E : Env) (id : Nat) (op : RegOp) (h : op.target ≠ id) :
    op.toStoreOp? P E id = none := by
  cases op <;> simp_all [RegOp.toStoreOp?, RegOp.target]

theorem toStoreOp?_eq_add (P : Prog) (E : Env) (id : Nat) (op : RegOp) (rid : Nat) (t : Text) (rating : Nat) :
    op.toStoreOp? P E id = some (.add rid t rating) ↔
      ∃ title, op = .addRecord id rid title rating ∧ t = tokenizeRecord P E title := by
  cases op <;> simp only [RegOp.toStoreOp?, reduceCtorEq, false_and, exists_false] <;>
    (try split) <;> simp_all <;> grind

theorem toStoreOp?_eq_search (P : Prog) (E : Env) (id : Nat) (op : RegOp) (q : Text) :
    op.toStoreOp? P E id = some (.search q) ↔ ∃ query, op = .runSearch id query ∧ q = tokenizeQuery P E query := by
  cases op <;> simp only [RegOp.toStoreOp?, reduceCtorEq, false_and, exists_false] <;>
    (try split) <;> simp_all <;> grind

/-- a `StoreOp.clear` in the projection comes from a `clearStore id` call (`using_store(id, |s| s.clear())`) and
    from nothing else -/
theorem toStoreOp?_eq_clear (P : Prog) (E : Env) (id : Nat) (op : RegOp) :
    op.toStoreOp? P E id = some .clear ↔ op = .clearStore id := by
  cases op <;> simp only [RegOp.toStoreOp?, reduceCtorEq] <;> (try split) <;> simp_all

theorem clear_mem_storeOpsOf (P : Prog) (E : Env) (id : Nat) (post : List RegOp) :
    StoreOp.clear ∈ storeOpsOf P E id post ↔ RegOp.clearStore id ∈ post := by
  unfold storeOpsOf
  rw [List.mem_filterMap]
  constructor
  · rintro ⟨op, hm, hop⟩
    rw [(toStoreOp?_eq_clear P E id op).mp hop] at hm
    exact hm
  · intro hm
    exact ⟨_, hm, (toStoreOp?_eq_clear P E id _).mpr rfl⟩

theorem add_mem_storeOpsOf (P : Prog) (E : Env) (id : Nat) (post : List RegOp) (rid : Nat) (t : Text) (rating : Nat) :
    StoreOp.add rid t rating ∈ storeOpsOf P E id post ↔
      ∃ title, RegOp.addRecord id rid title rating ∈ post ∧ t = tokenizeRecord P E title := by
  unfold storeOpsOf
  rw [List.mem_filterMap]
  constructor
  · rintro ⟨op, hm, hop⟩
    obtain ⟨title, rfl, rfl⟩ := (toStoreOp?_eq_add P E id op rid t rating).mp hop
    exact ⟨title, hm, rfl⟩
  · rintro ⟨title, hm, rfl⟩
    exact ⟨_, hm, (toStoreOp?_eq_add P E id _ rid _ rating).mpr ⟨title, rfl, rfl⟩⟩

theorem search_mem_storeOpsOf (P : Prog) (E : Env) (id : Nat) (post : List RegOp) (q : Text) :
    StoreOp.search q ∈ storeOpsOf P E id post → ∃ query, q = tokenizeQuery P E query := by
  unfold storeOpsOf
  rw [List.mem_filterMap]
  rintro ⟨op, _, hop⟩
  obtain ⟨query, _, rfl⟩ := (toStoreOp?_eq_search P E id op q).mp hop
  exact ⟨query, rfl⟩

/-! ### `proj` is "the calls addressed to `id` since its last `create`" -/

theorem projStep_eq (P : Prog) (envs : Nat → Env) (id : Nat) (p : Option (Nat × List StoreOp)) (op : RegOp)
    (hk : op.keeps id = true) :
    projStep P envs id p op = p.map (fun x => (x.1, x.2 ++ (op.toStoreOp? P (envs x.1) id).toList)) := by
  cases op with
  | create j l =>
    have : j ≠ id := by simpa [RegOp.keeps] using hk
    cases p <;> simp [projStep, RegOp.target, RegOp.toStoreOp?, this]
  | destroy j =>
    have : j ≠ id := by simpa [RegOp.keeps] using hk
    cases p <;> simp [projStep, RegOp.target, RegOp.toStoreOp?, this]
  | highlightWith j l r => by_cases h : j = id <;> cases p <;> simp [projStep, RegOp.target, RegOp.toStoreOp?, h]
  | addRecord j a b c => by_cases h : j = id <;> cases p <;> simp [projStep, RegOp.target, RegOp.toStoreOp?, h]
  | setLimit j n => by_cases h : j = id <;> cases p <;> simp [projStep, RegOp.target, RegOp.toStoreOp?, h]
  | runSearch j q => by_cases h : j = id <;> cases p <;> simp [projStep, RegOp.target, RegOp.toStoreOp?, h]
  | clearStore j => by_cases h : j = id <;> cases p <;> simp [projStep, RegOp.target, RegOp.toStoreOp?, h]

theorem projStep_keeps (P : Prog) (envs : Nat → Env) (id lang : Nat) (acc : List StoreOp) (op : RegOp)
    (hk : op.keeps id = true) :
    projStep P envs id (some (lang, acc)) op = some (lang, acc ++ (op.toStoreOp? P (envs lang) id).toList) := by
  rw [projStep_eq P envs id _ op hk]; rfl

theorem projFrom_keeps (P : Prog) (envs : Nat → Env) (id lang : Nat) (post : List RegOp)
    (hk : ∀ op ∈ post, op.keeps id = true) (acc : List StoreOp) :
    projFrom P envs id (some (lang, acc)) post = some (lang, acc ++ storeOpsOf P (envs lang) id post) := by
  induction post generalizing acc with
  | nil => simp [projFrom, storeOpsOf]
  | cons op post ih =>
    have := ih (fun o ho => hk o (by simp [ho])) (acc ++ (op.toStoreOp? P (envs lang) id).toList)
    unfold projFrom at this ⊢
    rw [List.foldl_cons, projStep_keeps P envs id lang acc op (hk op (by simp)), this, storeOpsOf_cons,
      List.append_assoc]

/-- **an id created at some point and neither destroyed nor re-created since is live**, and its projection is the
    list of calls addressed to it since then (no validity hypothesis needed) -/
theorem proj_since (P : Prog) (envs : Nat → Env) (id lang : Nat) (pre post : List RegOp)
    (hk : ∀ op ∈ post, op.keeps id = true) :
    proj P envs id (pre ++ RegOp.create id lang :: post) = some (lang, storeOpsOf P (envs lang) id post) := by
  have h := projFrom_keeps P envs id lang post hk []
  unfold proj projFrom at h ⊢
  rw [List.foldl_append, List.foldl_cons]
  have : projStep P envs id (List.foldl (projStep P envs id) none pre) (RegOp.create id lang) = some (lang, []) := by
    simp [projStep, RegOp.target]
  rw [this, h, List.nil_append]

/-- the shape of the call list behind a live projection -/
def LiveShape (P : Prog) (envs : Nat → Env) (id : Nat) (ops : List RegOp) : Option (Nat × List StoreOp) → Prop
  | none => True
  | some (lang, sops) => ∃ pre post, ops = pre ++ RegOp.create id lang :: post ∧
      (∀ op ∈ post, op.keeps id = true) ∧ sops = storeOpsOf P (envs lang) id post

theorem liveShape_step (P : Prog) (envs : Nat → Env) (id : Nat) (done : List RegOp) (p : Option (Nat × List StoreOp))
    (h : LiveShape P envs id done p) (op : RegOp) :
    LiveShape P envs id (done ++ [op]) (projStep P envs id p op) := by
  by_cases hk : op.keeps id = true
  · rw [projStep_eq P envs id p op hk]
    cases p with
    | none => trivial
    | some x =>
      obtain ⟨lang, sops⟩ := x
      obtain ⟨pre, post, rfl, hkp, rfl⟩ := h
      refine ⟨pre, post ++ [op], by simp, ?_, ?_⟩
      · intro o ho
        rcases List.mem_append.mp ho with ho | ho
        · exact hkp o ho
        · simp only [List.mem_singleton] at ho; subst ho; exact hk
      · rw [storeOpsOf_append, storeOpsOf_cons]; simp [storeOpsOf]
  · cases op with
    | create j l =>
      have : j = id := by simpa [RegOp.keeps] using hk
      subst this
      simp only [projStep, RegOp.target, ne_eq, not_true_eq_false, if_false]
      exact ⟨done, [], by simp, by simp, by simp [storeOpsOf]⟩
    | destroy j =>
      have : j = id := by simpa [RegOp.keeps] using hk
      subst this
      simp only [projStep, RegOp.target, ne_eq, not_true_eq_false, if_false]
      trivial
    | highlightWith j l r => exact absurd rfl hk
    | addRecord j a b c => exact absurd rfl hk
    | setLimit j n => exact absurd rfl hk
    | runSearch j q => exact absurd rfl hk
    | clearStore j => exact absurd rfl hk

theorem liveShape_run (P : Prog) (envs : Nat → Env) (id : Nat) (rest : List RegOp) :
    ∀ (done : List RegOp) (p : Option (Nat × List StoreOp)), LiveShape P envs id done p →
      LiveShape P envs id (done ++ rest) (projFrom P envs id p rest) := by
  induction rest with
  | nil => intro done p h; simpa [projFrom] using h
  | cons op rest ih =>
    intro done p h
    have := ih (done ++ [op]) _ (liveShape_step P envs id done p h op)
    simpa [projFrom] using this

/-- **converse of `proj_since`**: a live projection comes from a call list of the shape
    `pre ++ create id lang :: post` with no `destroy id` / `create id` in `post` -/
theorem proj_some_decomp (P : Prog) (envs : Nat → Env) (id : Nat) (ops : List RegOp) (lang : Nat)
    (sops : List StoreOp) (h : proj P envs id ops = some (lang, sops)) :
    ∃ pre post, ops = pre ++ RegOp.create id lang :: post ∧ (∀ op ∈ post, op.keeps id = true) ∧
      sops = storeOpsOf P (envs lang) id post := by
  have := liveShape_run P envs id ops [] none trivial
  rw [List.nil_append, show projFrom P envs id none ops = proj P envs id ops from rfl, h] at this
  exact this

/-! ### the store of a live id -/

/-- a record of a store reached by a sequence of operations was in the initial store or was added by one of them -/
theorem run_record_from_add (S : Sorter) (K : Consts) (order : List ScoreType) (sops : List StoreOp) :
    ∀ (st0 : Store) (r : Record), r ∈ (st0.run S K order sops).records →
      r ∈ st0.records ∨ StoreOp.add r.id r.title r.rating ∈ sops := by
  induction sops with
  | nil => intro st0 r h; exact Or.inl h
  | cons op sops ih =>
    intro st0 r h
    rcases ih (st0.apply S K order op) r h with h1 | h1
    · cases op with
      | add id title rating =>
        simp only [Store.apply, Store.add, List.mem_append, List.mem_singleton] at h1
        rcases h1 with h1 | h1
        · exact Or.inl h1
        · subst h1; exact Or.inr (by simp)
      | clear => simp [Store.apply, Store.clear] at h1
      | setLimit n => exact Or.inl h1
      | setDividers l r => exact Or.inl h1
      | search q =>
        rw [Store.apply, (searchM_snd_fields S K order st0 q).2.1] at h1
        exact Or.inl h1
    · exact Or.inr (List.mem_cons_of_mem _ h1)

/-- what is known of a store reached from `Store::new` by operations whose added titles went through
    `tokenize_record` of the language environment `E` -/
structure StoreFacts (S : Sorter) (E : Env) (st : Store) : Prop where
  inv      : StoreInv S Gen.srcConsts st
  indexInv : StoreIndexInv st
  tokInv   : ∀ r ∈ st.records, ∃ s, r.title = tokenizeRecord Gen.srcProg E s ∧ TokInv E false s r.title
  textOK   : ∀ r ∈ st.records, TextOK r.title

theorem storeFacts_reachable (S : Sorter) (E : Env) (hK : E.K = Gen.srcConsts)
    (hU : UnicodeFacts E.U Gen.srcConsts) (hT : TablesOK E.T = true) (hSt : StemHyp E) (sops : List StoreOp)
    (hops : ∀ rid t rating, StoreOp.add rid t rating ∈ sops → ∃ s, t = tokenizeRecord Gen.srcProg E s) :
    StoreFacts S E ((Store.new Gen.srcConsts).run S Gen.srcConsts Gen.srcScoreOrder sops) := by
  have htok : ∀ r ∈ ((Store.new Gen.srcConsts).run S Gen.srcConsts Gen.srcScoreOrder sops).records,
      ∃ s, r.title = tokenizeRecord Gen.srcProg E s ∧ TokInv E false s r.title := by
    intro r hr
    rcases run_record_from_add S _ _ sops _ r hr with h | h
    · simp [Store.new] at h
    · obtain ⟨s, hs⟩ := hops _ _ _ h
      exact ⟨s, hs, by rw [hs]; exact C15_record E hK hU hT hSt s⟩
  refine ⟨StoreInv_reachable S _ _ sops, StoreIndexInv_reachable S _ _ sops, htok, ?_⟩
  intro r hr
  obtain ⟨s, _, h⟩ := htok r hr
  exact h.textOK

/-- **The store of a live id is a reachable store whose every title is a tokenised text.** After any valid call
    sequence, if the store map holds `(lang, st)` for `id`, then `st` is `Store::new()` followed by the stand-alone
    operations `sops` = the projection of the calls addressed to `id` since its creation; every `add` among them
    carries a title `tokenize_record(lang, s)`, a `clear` among them comes from a `clearStore id` call
    (`using_store(id, |s| s.clear())`); hence `st` satisfies the store invariants and every stored title is a
    well-formed tokenised text. -/
theorem live_store_reachable (S : Sorter) (envs : Nat → Env) (hE : EnvsOK envs) (ops : List RegOp)
    (hv : Registry.allValid S Gen.srcProg envs Registry.empty ops = true) (id lang : Nat) (st : Store)
    (h : amGet (Registry.empty.run S Gen.srcProg envs ops).stores id = some (lang, st)) :
    ∃ sops, proj Gen.srcProg envs id ops = some (lang, sops) ∧
      st = Store.run S Gen.srcConsts Gen.srcScoreOrder (Store.new Gen.srcConsts) sops ∧
      (∀ rid t rating, StoreOp.add rid t rating ∈ sops → ∃ s, t = tokenizeRecord Gen.srcProg (envs lang) s) ∧
      (StoreOp.clear ∈ sops → RegOp.clearStore id ∈ ops) ∧ StoreFacts S (envs lang) st := by
  have hiso := (C20_isolation S Gen.srcProg envs ops hv id).1
  rw [h] at hiso
  cases hp : proj Gen.srcProg envs id ops with
  | none => rw [hp] at hiso; simp at hiso
  | some x =>
    obtain ⟨lang', sops⟩ := x
    rw [hp] at hiso
    simp only [Option.map_some, Option.some.injEq, Prod.mk.injEq] at hiso
    obtain ⟨rfl, rfl⟩ := hiso
    obtain ⟨pre, post, hshape, _, rfl⟩ := proj_some_decomp Gen.srcProg envs id ops lang _ hp
    have hops : ∀ rid t rating, StoreOp.add rid t rating ∈ storeOpsOf Gen.srcProg (envs lang) id post →
        ∃ s, t = tokenizeRecord Gen.srcProg (envs lang) s := by
      intro rid t rating hm
      obtain ⟨title, _, rfl⟩ := (add_mem_storeOpsOf _ _ _ _ _ _ _).mp hm
      exact ⟨title, rfl⟩
    exact ⟨_, rfl, rfl, hops,
      fun hc => hshape ▸ List.mem_append_right _ (List.mem_cons_of_mem _ ((clear_mem_storeOpsOf _ _ _ _).mp hc)),
      storeFacts_reachable S (envs lang) (hE.consts lang) (hE.unicode lang) (hE.tables lang) (hE.stem lang) _ hops⟩

/-- the same for an id known to be live through the shape of the call list -/
theorem since_store (S : Sorter) (envs : Nat → Env) (ops pre post : List RegOp) (id lang : Nat)
    (hops : ops = pre ++ RegOp.create id lang :: post)
    (hv : Registry.allValid S Gen.srcProg envs Registry.empty ops = true)
    (hk : ∀ op ∈ post, op.keeps id = true) :
    amGet (Registry.empty.run S Gen.srcProg envs ops).stores id =
      some (lang, runOne S Gen.srcProg (storeOpsOf Gen.srcProg (envs lang) id post)) ∧
    amGet (Registry.empty.run S Gen.srcProg envs ops).results id =
      some (lastResults S Gen.srcProg (storeOpsOf Gen.srcProg (envs lang) id post)) := by
  subst hops
  exact C20_isolation_live S Gen.srcProg envs _ hv id lang _ (proj_since Gen.srcProg envs id lang pre post hk)

theorem since_storeFacts (S : Sorter) (envs : Nat → Env) (hE : EnvsOK envs) (id lang : Nat) (post : List RegOp) :
    StoreFacts S (envs lang) (runOne S Gen.srcProg (storeOpsOf Gen.srcProg (envs lang) id post)) :=
  storeFacts_reachable S (envs lang) (hE.consts lang) (hE.unicode lang) (hE.tables lang) (hE.stem lang) _
    (fun rid t rating hm => by
      obtain ⟨title, _, rfl⟩ := (add_mem_storeOpsOf _ _ _ _ _ _ _).mp hm
      exact ⟨title, rfl⟩)

/-! ### records, limit and markers of the store of an id, read off the call list -/

/-- one call seen by `addedOf`: `add_record` on `id` appends its triple, `clearStore id`
    (`using_store(id, |s| s.clear())`) forgets everything, any other call changes nothing -/
def addedStep (id : Nat) (acc : List (Nat × List Nat × Nat)) : RegOp → List (Nat × List Nat × Nat)
  | .addRecord j recId title rating => if j = id then acc ++ [(recId, title, rating)] else acc
  | .clearStore j => if j = id then [] else acc
  | _ => acc

/-- the triples held after the calls `post`, starting from `acc` -/
def addedFrom (id : Nat) (acc : List (Nat × List Nat × Nat)) (post : List RegOp) : List (Nat × List Nat × Nat) :=
  post.foldl (addedStep id) acc

/-- the `(recId, raw title, rating)` triples of the `add_record` calls on `id` in `post` made since the last
    `clearStore id` in `post` (all of them if there is none), in call order: what the store of `id` holds -/
def addedOf (id : Nat) (post : List RegOp) : List (Nat × List Nat × Nat) := addedFrom id [] post

/-- ALL `add_record` calls on `id` in `post`, in call order (what `addedOf` is when `post` has no `clearStore id`) -/
def addsOf (id : Nat) (post : List RegOp) : List (Nat × List Nat × Nat) :=
  post.filterMap (fun op => match op with
    | .addRecord j recId title rating => if j = id then some (recId, title, rating) else none
    | _ => none)

theorem addedFrom_append (id : Nat) (acc : List (Nat × List Nat × Nat)) (a b : List RegOp) :
    addedFrom id acc (a ++ b) = addedFrom id (addedFrom id acc a) b := by
  simp [addedFrom, List.foldl_append]

theorem addedFrom_cons (id : Nat) (acc : List (Nat × List Nat × Nat)) (op : RegOp) (post : List RegOp) :
    addedFrom id acc (op :: post) = addedFrom id (addedStep id acc op) post := rfl

/-- a `clearStore id` makes `addedOf` forget everything before it -/
theorem addedOf_after_clear (id : Nat) (a b : List RegOp) :
    addedOf id (a ++ RegOp.clearStore id :: b) = addedOf id b := by
  unfold addedOf
  rw [addedFrom_append, addedFrom_cons]
  simp [addedStep]

theorem addedStep_mem (id : Nat) (acc : List (Nat × List Nat × Nat)) (op : RegOp) (x : Nat × List Nat × Nat)
    (h : x ∈ addedStep id acc op) : x ∈ acc ∨ op = .addRecord id x.1 x.2.1 x.2.2 := by
  cases op with
  | addRecord j a b c =>
    simp only [addedStep] at h
    split at h
    · rename_i hj; subst hj
      rcases List.mem_append.mp h with h | h
      · exact Or.inl h
      · simp only [List.mem_singleton] at h; subst h; exact Or.inr rfl
    · exact Or.inl h
  | clearStore j =>
    simp only [addedStep] at h
    split at h
    · simp at h
    · exact Or.inl h
  | create j l => exact Or.inl h
  | destroy j => exact Or.inl h
  | highlightWith j l r => exact Or.inl h
  | setLimit j n => exact Or.inl h
  | runSearch j q => exact Or.inl h

theorem addedStep_noClear (id : Nat) (acc : List (Nat × List Nat × Nat)) (op : RegOp) (hop : op ≠ .clearStore id) :
    addedStep id acc op = acc ++ (addsOf id [op]) := by
  cases op with
  | addRecord j a b c => by_cases hj : j = id <;> simp [addedStep, addsOf, hj]
  | clearStore j =>
    have : j ≠ id := fun e => hop (by rw [e])
    simp [addedStep, addsOf, this]
  | create j l => simp [addedStep, addsOf]
  | destroy j => simp [addedStep, addsOf]
  | highlightWith j l r => simp [addedStep, addsOf]
  | setLimit j n => simp [addedStep, addsOf]
  | runSearch j q => simp [addedStep, addsOf]

theorem addsOf_cons (id : Nat) (op : RegOp) (post : List RegOp) :
    addsOf id (op :: post) = addsOf id [op] ++ addsOf id post := by
  show addsOf id ([op] ++ post) = _
  simp only [addsOf, List.filterMap_append]

/-- without a `clearStore id` among the calls, `addedFrom` only appends: all the `add_record` calls on `id` -/
theorem addedFrom_noClear (id : Nat) (post : List RegOp) (hnc : ∀ op ∈ post, op ≠ RegOp.clearStore id) :
    ∀ acc, addedFrom id acc post = acc ++ addsOf id post := by
  induction post with
  | nil => intro acc; simp [addedFrom, addsOf]
  | cons op post ih =>
    intro acc
    rw [addedFrom_cons, ih (fun o ho => hnc o (by simp [ho])), addedStep_noClear id acc op (hnc op (by simp)),
      List.append_assoc, ← addsOf_cons]

theorem addedOf_noClear (id : Nat) (post : List RegOp) (hnc : ∀ op ∈ post, op ≠ RegOp.clearStore id) :
    addedOf id post = addsOf id post := by
  unfold addedOf; rw [addedFrom_noClear id post hnc]; rfl

theorem mem_addsOf (id : Nat) (post : List RegOp) (recId : Nat) (title : List Nat) (rating : Nat) :
    (recId, title, rating) ∈ addsOf id post ↔ RegOp.addRecord id recId title rating ∈ post := by
  unfold addsOf
  rw [List.mem_filterMap]
  constructor
  · rintro ⟨op, hm, hop⟩
    cases op <;> simp only [reduceCtorEq] at hop
    split at hop
    · rename_i h; subst h
      simp only [Option.some.injEq, Prod.mk.injEq] at hop
      obtain ⟨rfl, rfl, rfl⟩ := hop
      exact hm
    · simp at hop
  · intro hm
    exact ⟨_, hm, by simp⟩

/-- the limit in force after the calls `post`, starting from `n0`: the argument of the last `set_limit` on `id` -/
def limitFrom (id : Nat) (n0 : Nat) (post : List RegOp) : Nat :=
  post.foldl (fun n op => match op with
    | .setLimit j m => if j = id then m else n
    | _ => n) n0

/-- the markers in force after the calls `post`, starting from `d0`: those of the last `highlight_with` on `id` -/
def markersFrom (id : Nat) (d0 : List Nat × List Nat) (post : List RegOp) : List Nat × List Nat :=
  post.foldl (fun d op => match op with
    | .highlightWith j l r => if j = id then (l, r) else d
    | _ => d) d0

/-- limit in force for an id created with `Store::new()` followed by the calls `post` -/
def limitOf (id : Nat) (post : List RegOp) : Nat := limitFrom id Gen.srcConsts.defaultLimit post

/-- markers in force for an id created with `Store::new()` followed by the calls `post` -/
def markersOf (id : Nat) (post : List RegOp) : List Nat × List Nat :=
  markersFrom id (Gen.srcConsts.dividerL, Gen.srcConsts.dividerR) post

theorem run_storeOps_fields (S : Sorter) (K : Consts) (order : List ScoreType) (P : Prog) (E : Env) (id : Nat)
    (post : List RegOp) : ∀ (st0 : Store) (acc : List (Nat × List Nat × Nat)),
    st0.records.map Record.data = acc.map (fun x => (x.1, tokenizeRecord P E x.2.1, x.2.2)) →
    ((st0.run S K order (storeOpsOf P E id post)).records.map Record.data =
        (addedFrom id acc post).map (fun x => (x.1, tokenizeRecord P E x.2.1, x.2.2))) ∧
    (st0.run S K order (storeOpsOf P E id post)).limit = limitFrom id st0.limit post ∧
    (st0.run S K order (storeOpsOf P E id post)).dividers = markersFrom id st0.dividers post := by
  induction post with
  | nil => intro st0 acc h0; simpa [storeOpsOf, Store.run, addedFrom, limitFrom, markersFrom] using h0
  | cons op post ih =>
    intro st0 acc h0
    rw [storeOpsOf_cons, addedFrom_cons]
    cases op with
    | create j l => simpa [RegOp.toStoreOp?, addedStep, limitFrom, markersFrom] using ih st0 acc h0
    | destroy j => simpa [RegOp.toStoreOp?, addedStep, limitFrom, markersFrom] using ih st0 acc h0
    | highlightWith j l r =>
      by_cases h : j = id
      · have := ih (st0.setDividers l r) acc h0
        simpa [RegOp.toStoreOp?, addedStep, limitFrom, markersFrom, h, Store.run, Store.apply, Store.setDividers]
          using this
      · simpa [RegOp.toStoreOp?, addedStep, limitFrom, markersFrom, h] using ih st0 acc h0
    | addRecord j a b c =>
      by_cases h : j = id
      · have := ih (st0.add a (tokenizeRecord P E b) c) (acc ++ [(a, b, c)])
          (by simp [Store.add, Record.data, h0])
        simpa [RegOp.toStoreOp?, addedStep, limitFrom, markersFrom, h, Store.run, Store.apply, Store.add, Record.data]
          using this
      · simpa [RegOp.toStoreOp?, addedStep, limitFrom, markersFrom, h] using ih st0 acc h0
    | setLimit j n =>
      by_cases h : j = id
      · have := ih (st0.setLimit n) acc h0
        simpa [RegOp.toStoreOp?, addedStep, limitFrom, markersFrom, h, Store.run, Store.apply, Store.setLimit]
          using this
      · simpa [RegOp.toStoreOp?, addedStep, limitFrom, markersFrom, h] using ih st0 acc h0
    | runSearch j q =>
      by_cases h : j = id
      · obtain ⟨_, h2, h3, h4, _⟩ := searchM_snd_fields S K order st0 (tokenizeQuery P E q)
        have := ih (st0.searchM S K order (tokenizeQuery P E q)).2 acc (by rw [h2]; exact h0)
        rw [h3, h4] at this
        simpa [RegOp.toStoreOp?, addedStep, limitFrom, markersFrom, h, Store.run, Store.apply] using this
      · simpa [RegOp.toStoreOp?, addedStep, limitFrom, markersFrom, h] using ih st0 acc h0
    | clearStore j =>
      by_cases h : j = id
      · have := ih st0.clear [] (by simp [Store.clear])
        simpa [RegOp.toStoreOp?, addedStep, limitFrom, markersFrom, h, Store.run, Store.apply, Store.clear]
          using this
      · simpa [RegOp.toStoreOp?, addedStep, limitFrom, markersFrom, h] using ih st0 acc h0

/-- **records, limit and markers of the store of `id`** after `create id lang` followed by the calls `post`:
    the records are the `add_record` calls on `id` made since the last `clearStore id`, in call order (titles
    tokenised for `lang`), the limit is that of the last `set_limit` on `id` (default 10), the markers those of the
    last `highlight_with` on `id` (default `[` `]`); a `clearStore id` changes neither limit nor markers -/
theorem store_fields (S : Sorter) (E : Env) (id : Nat) (post : List RegOp) :
    ((runOne S Gen.srcProg (storeOpsOf Gen.srcProg E id post)).records.map Record.data =
        (addedOf id post).map (fun x => (x.1, tokenizeRecord Gen.srcProg E x.2.1, x.2.2))) ∧
    (runOne S Gen.srcProg (storeOpsOf Gen.srcProg E id post)).limit = limitOf id post ∧
    (runOne S Gen.srcProg (storeOpsOf Gen.srcProg E id post)).dividers = markersOf id post := by
  exact run_storeOps_fields S Gen.srcConsts Gen.srcScoreOrder Gen.srcProg E id post (Store.new Gen.srcConsts) [] rfl

theorem store_records_length (S : Sorter) (E : Env) (id : Nat) (post : List RegOp) :
    (runOne S Gen.srcProg (storeOpsOf Gen.srcProg E id post)).records.length = (addedOf id post).length := by
  have := congrArg List.length (store_fields S E id post).1
  simpa using this

theorem mem_addedFrom (id : Nat) (post : List RegOp) (x : Nat × List Nat × Nat) :
    ∀ acc, x ∈ addedFrom id acc post →
      (x ∈ acc ∧ ∀ op ∈ post, op ≠ RegOp.clearStore id) ∨
      ∃ a b, post = a ++ RegOp.addRecord id x.1 x.2.1 x.2.2 :: b ∧ ∀ op ∈ b, op ≠ RegOp.clearStore id := by
  induction post with
  | nil => intro acc h; exact Or.inl ⟨h, by simp⟩
  | cons op post ih =>
    intro acc h
    rw [addedFrom_cons] at h
    rcases ih _ h with ⟨h1, h2⟩ | ⟨a, b, rfl, hb⟩
    · by_cases hc : op = RegOp.clearStore id
      · subst hc; simp [addedStep] at h1
      · rcases addedStep_mem id acc op x h1 with h1 | h1
        · refine Or.inl ⟨h1, ?_⟩
          intro o ho
          rcases List.mem_cons.mp ho with ho | ho
          · subst ho; exact hc
          · exact h2 o ho
        · exact Or.inr ⟨[], post, by simp [h1], h2⟩
    · exact Or.inr ⟨op :: a, b, by simp, hb⟩

/-- **what `addedOf` holds**: the triple of an `add_record` call on `id` after which no `clearStore id` was made -/
theorem mem_addedOf (id : Nat) (post : List RegOp) (recId : Nat) (title : List Nat) (rating : Nat) :
    (recId, title, rating) ∈ addedOf id post ↔
      ∃ a b, post = a ++ RegOp.addRecord id recId title rating :: b ∧ ∀ op ∈ b, op ≠ RegOp.clearStore id := by
  constructor
  · intro h
    rcases mem_addedFrom id post (recId, title, rating) [] h with ⟨h, _⟩ | h
    · simp at h
    · exact h
  · rintro ⟨a, b, rfl, hb⟩
    unfold addedOf
    rw [addedFrom_append, addedFrom_cons, addedFrom_noClear id b hb]
    simp [addedStep]

/-- every held triple comes from an `add_record` call on `id` -/
theorem mem_addedOf_sub (id : Nat) (post : List RegOp) (recId : Nat) (title : List Nat) (rating : Nat)
    (h : (recId, title, rating) ∈ addedOf id post) : RegOp.addRecord id recId title rating ∈ post := by
  obtain ⟨a, b, rfl, _⟩ := (mem_addedOf id post recId title rating).mp h
  simp

/-- without a `clearStore id` among the calls: exactly the `add_record` calls on `id` -/
theorem mem_addedOf_noClear (id : Nat) (post : List RegOp) (hnc : ∀ op ∈ post, op ≠ RegOp.clearStore id)
    (recId : Nat) (title : List Nat) (rating : Nat) :
    (recId, title, rating) ∈ addedOf id post ↔ RegOp.addRecord id recId title rating ∈ post := by
  rw [addedOf_noClear id post hnc, mem_addsOf]

/-- an `add_record id recId title rating` call among `post` that was not followed by a `clearStore id`
    (`(recId, title, rating) ∈ addedOf id post`, see `mem_addedOf`) put a record with that id and the tokenised
    title into the store, at some position -/
theorem store_record_of_add (S : Sorter) (E : Env) (id : Nat) (post : List RegOp) (recId : Nat) (title : List Nat)
    (rating : Nat) (h : (recId, title, rating) ∈ addedOf id post) :
    ∃ (ix : Nat) (r : Record), (runOne S Gen.srcProg (storeOpsOf Gen.srcProg E id post)).records[ix]? = some r ∧
      r.id = recId ∧
      r.title = tokenizeRecord Gen.srcProg E title ∧ r.rating = rating := by
  have hm : (recId, tokenizeRecord Gen.srcProg E title, rating) ∈
      (runOne S Gen.srcProg (storeOpsOf Gen.srcProg E id post)).records.map Record.data := by
    rw [(store_fields S E id post).1]
    exact List.mem_map.mpr ⟨(recId, title, rating), h, rfl⟩
  obtain ⟨r, hr, hd⟩ := List.mem_map.mp hm
  obtain ⟨ix, hix⟩ := List.getElem?_of_mem hr
  simp only [Record.data, Prod.mk.injEq] at hd
  exact ⟨ix, r, hix, hd.1, hd.2.1, hd.2.2⟩

/-- conversely every record of the store was put there by an `add_record` call among `post` -/
theorem add_of_store_record (S : Sorter) (E : Env) (id : Nat) (post : List RegOp) (r : Record)
    (h : r ∈ (runOne S Gen.srcProg (storeOpsOf Gen.srcProg E id post)).records) :
    ∃ title, RegOp.addRecord id r.id title r.rating ∈ post ∧ r.title = tokenizeRecord Gen.srcProg E title := by
  have hm : Record.data r ∈ (runOne S Gen.srcProg (storeOpsOf Gen.srcProg E id post)).records.map Record.data :=
    List.mem_map.mpr ⟨r, h, rfl⟩
  rw [(store_fields S E id post).1] at hm
  obtain ⟨x, hx, hd⟩ := List.mem_map.mp hm
  obtain ⟨a, b, c⟩ := x
  simp only [Record.data, Prod.mk.injEq] at hd
  obtain ⟨rfl, hd2, rfl⟩ := hd
  exact ⟨b, mem_addedOf_sub id post _ b _ hx, hd2.symm⟩

/-! ### the result buffer -/

/-- what a valid `run_search` leaves in the buffer of its id -/
theorem step_runSearch_results (S : Sorter) (P : Prog) (envs : Nat → Env) (g : Registry) (id : Nat) (q : List Nat)
    (lang : Nat) (st : Store) (hs : amGet g.stores id = some (lang, st))
    (hv : (RegOp.runSearch id q).valid g = true) :
    amGet (g.step S P envs (.runSearch id q)).results id =
      some (st.search S P.K P.order (tokenizeQuery P (envs lang) q)) := by
  unfold Registry.step
  simp only [hv, Bool.not_true, Bool.false_eq_true, if_false, hs]
  rw [amGet_amSet_same]
  rfl

/-- a call that is not `run_search j` / `destroy j` / `create j` leaves the buffer of `j` alone (valid or not) -/
theorem step_quiet_results (S : Sorter) (P : Prog) (envs : Nat → Env) (g : Registry) (op : RegOp) (j : Nat)
    (hq : op.quiet j = true) : amGet (g.step S P envs op).results j = amGet g.results j := by
  by_cases ht : op.target = j
  · cases op with
    | create i l => simp_all [RegOp.quiet, RegOp.target]
    | destroy i => simp_all [RegOp.quiet, RegOp.target]
    | runSearch i q => simp_all [RegOp.quiet, RegOp.target]
    | highlightWith i l r => rw [C20_results_stable S P envs g _ (Or.inr (Or.inr ⟨i, l, r, rfl⟩))]
    | addRecord i a b c => rw [C20_results_stable S P envs g _ (Or.inl ⟨i, a, b, c, rfl⟩)]
    | setLimit i n => rw [C20_results_stable S P envs g _ (Or.inr (Or.inl ⟨i, n, rfl⟩))]
    | clearStore i => rw [(C20_clear_isolated S P envs g i).2.1]
  · exact (step_other S P envs g op j ht).2

theorem run_quiet_results (S : Sorter) (P : Prog) (envs : Nat → Env) (g : Registry) (ops' : List RegOp) (j : Nat)
    (hq : ∀ op ∈ ops', op.quiet j = true) : amGet (g.run S P envs ops').results j = amGet g.results j := by
  induction ops' generalizing g with
  | nil => rfl
  | cons op ops' ih =>
    have h1 := step_quiet_results S P envs g op j (hq op (by simp))
    have h2 := ih (g.step S P envs op) (fun o ho => hq o (by simp [ho]))
    simp only [Registry.run, List.foldl_cons] at h2 ⊢
    exact h2.trans h1

/-- **what the buffer of `id` holds**: `id` was created with language `lang`, received the calls `post`
    (no destroy / re-create), then `run_search id q`, then calls `later` none of which is a search on `id`, a destroy
    or a re-create of `id`. The buffer is what the stand-alone store built from `post` answers to the tokenised
    query. -/
theorem buffer_after_search (S : Sorter) (envs : Nat → Env) (pre post later : List RegOp) (id lang : Nat)
    (q : List Nat)
    (hv : Registry.allValid S Gen.srcProg envs Registry.empty
            (pre ++ RegOp.create id lang :: post ++ RegOp.runSearch id q :: later) = true)
    (hk : ∀ op ∈ post, op.keeps id = true) (hq : ∀ op ∈ later, op.quiet id = true) :
    amGet (Registry.empty.run S Gen.srcProg envs
        (pre ++ RegOp.create id lang :: post ++ RegOp.runSearch id q :: later)).results id =
      some ((runOne S Gen.srcProg (storeOpsOf Gen.srcProg (envs lang) id post)).search S Gen.srcConsts
        Gen.srcScoreOrder (tokenizeQuery Gen.srcProg (envs lang) q)) := by
  rw [allValid_append, Bool.and_eq_true] at hv
  obtain ⟨hv1, hv2⟩ := hv
  simp only [Registry.allValid, Bool.and_eq_true] at hv2
  have hst := (since_store S envs _ pre post id lang rfl hv1 hk).1
  rw [run_append]
  show amGet (Registry.run S Gen.srcProg envs
    ((Registry.empty.run S Gen.srcProg envs (pre ++ RegOp.create id lang :: post)).step S Gen.srcProg envs
      (RegOp.runSearch id q)) later).results id = _
  rw [run_quiet_results S Gen.srcProg envs _ later id hq,
    step_runSearch_results S Gen.srcProg envs _ id q lang _ hst hv2.1]
  rfl

/-- every buffered result was returned by a search of the stand-alone store at some earlier moment -/
theorem lastResults_mem (S : Sorter) (P : Prog) (rest : List StoreOp) :
    ∀ (done : List StoreOp) (sr : Store × List Result), sr.1 = runOne S P done →
      (∀ res ∈ sr.2, ∃ a q b, done = a ++ StoreOp.search q :: b ∧ res ∈ (runOne S P a).search S P.K P.order q) →
      ∀ res ∈ (rest.foldl (resStep S P.K P.order) sr).2,
        ∃ a q b, done ++ rest = a ++ StoreOp.search q :: b ∧ res ∈ (runOne S P a).search S P.K P.order q := by
  induction rest with
  | nil => intro done sr _ h; simpa using h
  | cons op rest ih =>
    intro done sr h1 h2 res hres
    rw [List.foldl_cons] at hres
    have := ih (done ++ [op]) (resStep S P.K P.order sr op) (by rw [runOne_snoc, ← h1]; rfl) ?_ res hres
    · simpa using this
    · intro res' hres'
      cases op with
      | search q =>
        simp only [resStep] at hres'
        exact ⟨done, q, [], by simp, by rw [← h1]; exact hres'⟩
      | add a b c => obtain ⟨a', q, b', e, hm⟩ := h2 res' hres'; exact ⟨a', q, b' ++ [StoreOp.add a b c], by simp [e], hm⟩
      | clear => obtain ⟨a', q, b', e, hm⟩ := h2 res' hres'; exact ⟨a', q, b' ++ [StoreOp.clear], by simp [e], hm⟩
      | setLimit n => obtain ⟨a', q, b', e, hm⟩ := h2 res' hres'; exact ⟨a', q, b' ++ [StoreOp.setLimit n], by simp [e], hm⟩
      | setDividers l r => obtain ⟨a', q, b', e, hm⟩ := h2 res' hres'; exact ⟨a', q, b' ++ [StoreOp.setDividers l r], by simp [e], hm⟩

theorem lastResults_from_search (S : Sorter) (P : Prog) (sops : List StoreOp) :
    ∀ res ∈ lastResults S P sops,
      ∃ a q b, sops = a ++ StoreOp.search q :: b ∧ res ∈ (runOne S P a).search S P.K P.order q := by
  have := lastResults_mem S P sops [] (Store.new P.K, []) rfl (by simp)
  simpa [lastResults] using this

/-! ### the typed-string findability theorems for an environment given as a value with `E.K = Gen.srcConsts` -/

theorem prefix_typed_found_env (S : Sorter) (hS : SorterOK S) (E : Env) (hK : E.K = Gen.srcConsts)
    (hU : UnicodeFacts E.U Gen.srcConsts) (hT : TablesOK E.T = true) (hSt : StemHyp E) (ops : List StoreOp)
    (hops : ∀ id t rating, StoreOp.add id t rating ∈ ops → ∃ s, t = tokenizeRecord Gen.srcProg E s)
    (hlim : ((Store.new Gen.srcConsts).run S Gen.srcConsts Gen.srcScoreOrder ops).records.length
              ≤ ((Store.new Gen.srcConsts).run S Gen.srcConsts Gen.srcScoreOrder ops).limit)
    (ix : Nat) (r : Record)
    (hr : ((Store.new Gen.srcConsts).run S Gen.srcConsts Gen.srcScoreOrder ops).records[ix]? = some r)
    (w : WordShape) (hw : w ∈ r.title.words) (k : Nat) (hk : 1 ≤ k)
    (hlast : ((wchars r.title w).take k).getLast?.map E.U.isAlnum = some true)
    (hcomp : compose E.T ((wchars r.title w).take k) = (wchars r.title w).take k)
    (hred : reduce E.T ((wchars r.title w).take k) = none) :
    ∃ res ∈ ((Store.new Gen.srcConsts).run S Gen.srcConsts Gen.srcScoreOrder ops).search S Gen.srcConsts
        Gen.srcScoreOrder (tokenizeQuery Gen.srcProg E ((wchars r.title w).take k)), res.id = r.id := by
  obtain ⟨U, K, T, stem⟩ := E
  simp only at hK; subst hK
  obtain ⟨res, h1, h2, _⟩ := C03_prefix_typed_found_src S hS U T stem hU hT hSt ops hops hlim ix r hr w hw k hk hlast
    hcomp hred
  exact ⟨res, h1, h2⟩

theorem whole_title_typed_env (S : Sorter) (hS : SorterOK S) (E : Env) (hK : E.K = Gen.srcConsts)
    (hU : UnicodeFacts E.U Gen.srcConsts) (hT : TablesOK E.T = true) (hSt : StemHyp E) (ops : List StoreOp)
    (hops : ∀ id t rating, StoreOp.add id t rating ∈ ops → ∃ s, t = tokenizeRecord Gen.srcProg E s)
    (hlim : ((Store.new Gen.srcConsts).run S Gen.srcConsts Gen.srcScoreOrder ops).records.length
              ≤ ((Store.new Gen.srcConsts).run S Gen.srcConsts Gen.srcScoreOrder ops).limit)
    (ix : Nat) (r : Record)
    (hr : ((Store.new Gen.srcConsts).run S Gen.srcConsts Gen.srcScoreOrder ops).records[ix]? = some r)
    (s : List Nat) (htitle : r.title = tokenizeRecord Gen.srcProg E s) (hne : r.title.words ≠ []) :
    ∃ res ∈ ((Store.new Gen.srcConsts).run S Gen.srcConsts Gen.srcScoreOrder ops).search S Gen.srcConsts
        Gen.srcScoreOrder (tokenizeQuery Gen.srcProg E s), res.id = r.id := by
  obtain ⟨U, K, T, stem⟩ := E
  simp only at hK; subst hK
  obtain ⟨res, h1, h2, _⟩ := C13_whole_title_typed_src S hS U T stem hU hT hSt ops hops hlim ix r hr s htitle hne
  exact ⟨res, h1, h2⟩

end Lucid
