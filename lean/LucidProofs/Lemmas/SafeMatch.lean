/-
  LucidProofs.Lemmas.SafeMatch — trap sites of the matching layer (`LucidModel/Safe.lean`) never fire:
  `wordMatchSafe` (`matching/word_match.rs`), `tmStepSafe` … `textMatchSafe` (`matching/text.rs`),
  `hitSafe` (`search/score.rs`, `filter.rs`, `highlight.rs`).
-/
import LucidModel.Safe
import LucidProofs.Lemmas.PairOK
import LucidProofs.C19
import LucidProofs.C09

namespace Lucid
open DL

/-! ## `word_match` -/

theorem dlOuter_size (K : Consts) (a b : CWord) (st : Mat × List (Nat × Nat)) (i1 : Nat) :
    (dlOuter K a b st i1).1.size = st.1.size := by
  unfold dlOuter
  exact foldl_range_inv (dlInner K a b i1 st.2) (fun _ s => s.1.size = st.1.size) b.len (st.1, 0) rfl
    (fun k _ s hs => by rw [dlInner_size]; exact hs)

/-- the dimension of the matrix after `distance` is the dimension after `prepare` -/
theorem distanceM_size (K : Consts) (m : Mat) (a b : CWord) :
    (distanceM K m a b).2.size = (m.prepare a.cost b.cost).size := by
  unfold distanceM
  exact foldl_range_inv (dlOuter K a b) (fun _ s => s.1.size = (m.prepare a.cost b.cost).size) a.len
    (m.prepare a.cost b.cost, []) rfl (fun k _ s hs => by rw [dlOuter_size]; exact hs)

theorem distanceM_size_ge (K : Consts) (m : Mat) (a b : CWord) (ha : Aligned a) (hb : Aligned b) :
    max a.len b.len + 2 ≤ (distanceM K m a b).2.size := by
  rw [distanceM_size]
  have := (C19_prepare_in_range m a.cost b.cost).2
  unfold Aligned at ha hb
  unfold CWord.len
  omega

/-- the checked index `dists.get(qslice + 1, rslice + 1)` and the `debug_assert!`s of `new_pair` hold for every
    pair of slices that passes the guards of the two loops -/
theorem wmInnerSafe_ok (c : WMCtx) (m : Mat) (hwf : m.raw.size = m.size * m.size)
    (hsz : max c.q.len c.r.len + 2 ≤ m.size) (hr : c.r.lo ≤ c.r.hi) (hq : c.q.lo ≤ c.q.hi)
    (rslice : Nat) (l : List Nat) (best : Option (WMatch × WMatch)) :
    wmInnerSafe c m rslice l best = true := by
  induction l generalizing best with
  | nil => rfl
  | cons qslice rest ih =>
    unfold wmInnerSafe
    by_cases h1 : qslice > c.q.len
    · rw [if_pos h1]; exact ih _
    rw [if_neg h1]
    by_cases h2 : rslice > c.r.len
    · rw [if_pos h2]; exact ih _
    rw [if_neg h2]
    by_cases h3 : qslice < c.q.stem
    · rw [if_pos h3]; exact ih _
    rw [if_neg h3]
    by_cases h4 : rslice = c.left ∧ qslice = c.left
    · rw [if_pos h4]; exact ih _
    rw [if_neg h4]
    by_cases h5 : c.q.fin = true ∧ rslice < c.r.stem
    · rw [if_pos h5]
    rw [if_neg h5]
    by_cases h6 : (if qslice ≥ rslice then qslice - rslice else rslice - qslice) > 1
    · rw [if_pos h6]; exact ih _
    rw [if_neg h6]
    have hflat : (qslice + 1) * m.size + (rslice + 1) < m.raw.size := by
      rw [hwf]; exact flat_lt m.size _ _ (by omega) (by omega)
    have hnp : newPairSafe c.r c.q rslice qslice = true := by
      simp only [newPairSafe, WordShape.len, Bool.and_eq_true, decide_eq_true_eq] at *
      omega
    simp only [hflat, hnp, decide_true, Bool.true_and]
    split
    · exact ih _
    · split
      · rfl
      · exact ih _

theorem wmOuterSafe_ok (c : WMCtx) (m : Mat) (hwf : m.raw.size = m.size * m.size)
    (hsz : max c.q.len c.r.len + 2 ≤ m.size) (hr : c.r.lo ≤ c.r.hi) (hq : c.q.lo ≤ c.q.hi)
    (range l : List Nat) (best : Option (WMatch × WMatch)) :
    wmOuterSafe c m range l best = true := by
  induction l generalizing best with
  | nil => simp [wmOuterSafe]
  | cons rs rest ih =>
    unfold wmOuterSafe
    rw [wmInnerSafe_ok c m hwf hsz hr hq, ih]; rfl

/-- **`word_match` never traps** on a reused matrix of the right shape: both word views are in range, every
    unchecked access of `distance` is in range (C19), `stem - 1` does not underflow, the checked cell read is
    inside the flat buffer and the `debug_assert!`s of `new_pair` hold. -/
theorem wordMatchSafeM_ok (K : Consts) (hK : CostsOK K = true) (rt : Text) (r : WordShape) (qt : Text) (q : WordShape)
    (hr : WordIn rt r) (hq : WordIn qt q) (hqs : 1 ≤ q.stem) (m : Mat) (hm : MInv m) :
    wordMatchSafeM K m rt r qt q = true := by
  have ha := cword_aligned K qt q hq.2.2
  have hb := cword_aligned K rt r hr.2.2
  have hv1 : viewSafe rt r = true := by
    obtain ⟨h1, h2, h3⟩ := hr
    simp only [viewSafe, Bool.and_eq_true, decide_eq_true_eq]; omega
  have hv2 : viewSafe qt q = true := by
    obtain ⟨h1, h2, h3⟩ := hq
    simp only [viewSafe, Bool.and_eq_true, decide_eq_true_eq]; omega
  have hleft : wmLeftSafe r q = true := by
    unfold wmLeftSafe wmLeftRaw
    split
    · exact decide_eq_true (Nat.le_trans hqs (Nat.le_max_left _ _))
    · exact decide_eq_true hqs
  have hinv := (distance_refines K _ _ ha hb (cword_costLe K hK qt q) (cword_costLe K hK rt r) m hm).2.1
  have hsize := distanceM_size_ge K m _ _ ha hb
  rw [cword_len_wordIn K qt q hq, cword_len_wordIn K rt r hr] at hsize
  unfold wordMatchSafeM
  rw [hv1, hv2, C19_distance_in_range K m _ _ ha hb]
  simp only [Bool.true_and, hleft]
  split
  · rfl
  split
  · rfl
  split
  · rfl
  split
  · rfl
  · exact wmOuterSafe_ok _ _ hinv.wf hsize (Nat.le_of_lt hr.1) (Nat.le_of_lt hq.1) _ _ _

theorem wordMatchSafe_ok (K : Consts) (hK : CostsOK K = true) (rt : Text) (r : WordShape) (qt : Text) (q : WordShape)
    (hr : WordIn rt r) (hq : WordIn qt q) (hqs : 1 ≤ q.stem) : wordMatchSafe K rt r qt q = true :=
  wordMatchSafeM_ok K hK rt r qt q hr hq hqs _ (MInv_new K.matCap).1

/-! ## `text_match` -/

/-- what the trap sites of the scan for the query word `q` need of the state: both scratch vectors have one
    slot per word, every stored query match has an ordered slice, and the pending candidate is a `word_match`
    result of a record word against `q` -/
structure SafeSt (K : Consts) (rt qt : Text) (q : WordShape) (s : TMState) : Prop where
  rlen  : s.rm.length = rt.words.length
  qlen  : s.qm.length = qt.words.length
  qspan : ∀ m, some m ∈ s.qm → m.lo ≤ m.hi
  cand  : ∀ p, s.cand = some p → ∃ r ∈ rt.words, wordMatch K rt r qt q = some p

/-- the part of `SafeSt` that holds between two query words -/
structure FoldSt (rt qt : Text) (s : TMState) : Prop where
  rlen  : s.rm.length = rt.words.length
  qlen  : s.qm.length = qt.words.length
  qspan : ∀ m, some m ∈ s.qm → m.lo ≤ m.hi

theorem length_setAt (l : List (Option WMatch)) (i : Nat) (m : WMatch) : (setAt l i m).length = l.length := by
  simp [setAt]

theorem TextOK.offset_lt {t : Text} (ht : TextOK t) {w : WordShape} (hw : w ∈ t.words) :
    w.offset < t.words.length :=
  (List.getElem?_eq_some_iff.mp (ht.getElem?_offset hw)).1

section scan
variable {K : Consts} {rt qt : Text} (hrt : TextOK rt) (hqt : TextOK qt) (hwm : WordMatchOK K rt qt)
include hrt hqt hwm

theorem tryJoinR_safeSt {s s' : TMState} {r q : WordShape} (hr : r ∈ rt.words) (hq : q ∈ qt.words)
    (hs : SafeSt K rt qt q s) (h : tryJoinR K rt qt s r q = some s') : SafeSt K rt qt q s' := by
  unfold tryJoinR at h
  split at h
  · cases h
  · rename_i rnext hnext
    split at h
    · cases h
    · split at h
      · cases h
      · cases h
      · split at h
        · cases h
        · rename_i rmatch qmatch hm
          split at h
          · cases h
          · rename_i r1 r2 hsp
            simp only [Option.some.injEq] at h
            subst h
            obtain ⟨hjw, hjs⟩ := hrt.join_wordIn hr hnext
            have hp := hwm (r.join rnext) q (rmatch, qmatch) hjw (hqt.wordIn hq) hjs (hqt.stems q hq) hm
            have bq := hqt.bounds q hq
            refine ⟨by simp [hs.rlen], by simp [hs.qlen], ?_, fun p hp => by cases hp⟩
            refine mem_setAt hs.qspan ?_
            rw [hp.q_lo, hp.q_hi]; omega

set_option linter.unusedSectionVars false in
set_option linter.unusedVariables false in
theorem tryJoinQ_safeSt {s s' : TMState} {r q : WordShape} (hr : r ∈ rt.words) (hq : q ∈ qt.words)
    (hs : SafeSt K rt qt q s) (h : tryJoinQ K rt qt s r q = some s') : SafeSt K rt qt q s' := by
  unfold tryJoinQ at h
  split at h
  · cases h
  · rename_i qnext hnext
    split at h
    · cases h
    · split at h
      · cases h
      · cases h
      · split at h
        · cases h
        · rename_i rmatch qmatch hm
          split at h
          · cases h
          · rename_i q1 q2 hsp
            simp only [Option.some.injEq] at h
            subst h
            obtain ⟨hmem, _, _⟩ := hqt.next hq hnext
            obtain ⟨_, ⟨_, a2, a3, _, _⟩, ⟨_, b2, b3, _, _⟩⟩ := split_some hsp
            have bq := hqt.bounds q hq
            have bn := hqt.bounds qnext hmem
            refine ⟨by simp [hs.rlen], by simp [hs.qlen], ?_, fun p hp => by cases hp⟩
            refine mem_setAt (mem_setAt hs.qspan ?_) ?_
            · rw [a2, a3]; omega
            · rw [b2, b3]; omega

theorem tmStep_safeSt {s : TMState} {r q : WordShape} (hr : r ∈ rt.words) (hq : q ∈ qt.words)
    (hs : SafeSt K rt qt q s) : SafeSt K rt qt q (tmStep K rt qt q s r).1 := by
  unfold tmStep
  split
  · rename_i s' h; exact tryJoinR_safeSt hrt hqt hwm hr hq hs h
  · split
    · rename_i s' h; exact tryJoinQ_safeSt hrt hqt hwm hr hq hs h
    · split
      · exact hs
      · rename_i r2 q2 hm
        split
        · refine ⟨hs.rlen, hs.qlen, hs.qspan, ?_⟩
          intro p hpe
          simp only [Option.some.injEq] at hpe
          subst hpe
          exact ⟨r, hr, hm⟩
        · exact hs

theorem tmScan_safeSt {q : WordShape} (hq : q ∈ qt.words) (rs : List WordShape) (hrs : ∀ r ∈ rs, r ∈ rt.words)
    {s : TMState} (hs : SafeSt K rt qt q s) : SafeSt K rt qt q (tmScan K rt qt q rs s) := by
  induction rs generalizing s with
  | nil => exact hs
  | cons r rs ih =>
    have hrs' : ∀ r ∈ rs, r ∈ rt.words := fun x hx => hrs x (by simp [hx])
    unfold tmScan
    split
    · exact ih hrs' hs
    · have hstep := tmStep_safeSt hrt hqt hwm (hrs r (by simp)) hq hs
      simp only []
      split
      · exact hstep
      · exact ih hrs' hstep

omit hrt hqt hwm in
theorem candScoreSafe_of_pair {r q : WordShape} {p : WMatch × WMatch} (hp : PairOK r q p) :
    candScoreSafe p.1 = true := by
  have h1 := hp.score
  have h2 := hp.r_sub0
  simp only [candScoreSafe, decide_eq_true_eq]
  simp only [WMatch.matchLen]
  omega

/-- **one step of the scan never traps**: the `dist`/`join` subtractions, both `word_match` calls on joined
    words, the `debug_assert!`s and the subtraction of `split`, the three stores into the scratch vectors and the
    `usize` score of the candidate comparison -/
theorem tmStepSafe_ok (hK : CostsOK K = true) {s : TMState} {r q : WordShape} (hr : r ∈ rt.words)
    (hq : q ∈ qt.words) (hs : SafeSt K rt qt q s) : tmStepSafe K rt qt q s r = true := by
  have br := hrt.bounds r hr
  have bq := hqt.bounds q hq
  have hro := hrt.offset_lt hr
  have hqo := hqt.offset_lt hq
  have e1 : decide (q.lo ≤ q.hi) = true := decide_eq_true (by omega)
  have e2 : decide (r.lo ≤ r.hi) = true := decide_eq_true (by omega)
  unfold tmStepSafe
  rw [Bool.and_eq_true]
  refine ⟨?_, ?_⟩
  · -- closure 1
    split
    · rfl
    · rename_i rnext hnext
      obtain ⟨hmem, hoff, hle⟩ := hrt.next hr hnext
      obtain ⟨hjw, hjs⟩ := hrt.join_wordIn hr hnext
      have bn := hrt.bounds rnext hmem
      have e3 : r.distSafe rnext = true := by
        simp only [WordShape.distSafe, Bool.or_eq_true, decide_eq_true_eq]; omega
      simp only [e1, e2, e3, Bool.true_and]
      split
      · rfl
      · split
        · rfl
        · rfl
        · have e4 : joinSafe r rnext = true := by
            simp only [joinSafe, decide_eq_true_eq]; omega
          have e5 : wordMatchSafe K rt (r.join rnext) qt q = true :=
            wordMatchSafe_ok K hK rt _ qt q hjw (hqt.wordIn hq) (hqt.stems q hq)
          simp only [e4, e5, Bool.true_and]
          split
          · rfl
          · rename_i rmatch qmatch hm
            have hp := hwm (r.join rnext) q (rmatch, qmatch) hjw (hqt.wordIn hq) hjs (hqt.stems q hq) hm
            have e6 : splitSafe rmatch r rnext = true := by
              have := hp.r_off
              simp only [WordShape.join] at this
              simp only [splitSafe, Bool.and_eq_true, Bool.or_eq_true, decide_eq_true_eq]
              refine ⟨⟨by omega, Or.inl this.symm⟩, ?_⟩
              omega
            simp only [e6, Bool.true_and]
            split
            · rfl
            · rename_i r1 r2 hsp
              obtain ⟨_, ⟨a1, _⟩, ⟨b1, _⟩⟩ := split_some hsp
              have hno := hrt.offset_lt hmem
              have := hp.q_off
              simp only [inRangeOpt, Bool.and_eq_true, decide_eq_true_eq, hs.rlen, hs.qlen, a1, b1]
              simp only [] at this
              omega
  · split
    · rfl
    · rw [Bool.and_eq_true]
      refine ⟨?_, ?_⟩
      · -- closure 2
        split
        · rfl
        · rename_i qnext hnext
          obtain ⟨hmem, hoff, hle⟩ := hqt.next hq hnext
          obtain ⟨hjw, hjs⟩ := hqt.join_wordIn hq hnext
          have bn := hqt.bounds qnext hmem
          have e3 : q.distSafe qnext = true := by
            simp only [WordShape.distSafe, Bool.or_eq_true, decide_eq_true_eq]; omega
          simp only [e1, e2, e3, Bool.true_and]
          split
          · rfl
          · split
            · rfl
            · rfl
            · have e4 : joinSafe q qnext = true := by
                simp only [joinSafe, decide_eq_true_eq]; omega
              have e5 : wordMatchSafe K rt r qt (q.join qnext) = true :=
                wordMatchSafe_ok K hK rt r qt _ (hrt.wordIn hr) hjw hjs
              simp only [e4, e5, Bool.true_and]
              split
              · rfl
              · rename_i rmatch qmatch hm
                have hp := hwm r (q.join qnext) (rmatch, qmatch) (hrt.wordIn hr) hjw (hrt.stems r hr) hjs hm
                have e6 : splitSafe qmatch q qnext = true := by
                  have := hp.q_off
                  simp only [WordShape.join] at this
                  simp only [splitSafe, Bool.and_eq_true, Bool.or_eq_true, decide_eq_true_eq]
                  refine ⟨⟨by omega, Or.inl this.symm⟩, ?_⟩
                  omega
                simp only [e6, Bool.true_and]
                split
                · rfl
                · rename_i q1 q2 hsp
                  obtain ⟨_, ⟨a1, _⟩, ⟨b1, _⟩⟩ := split_some hsp
                  have hno := hqt.offset_lt hmem
                  have := hp.r_off
                  simp only [inRangeOpt, Bool.and_eq_true, decide_eq_true_eq, hs.rlen, hs.qlen, a1, b1]
                  simp only [] at this
                  omega
      · -- closure 3
        split
        · rfl
        · have e5 : wordMatchSafe K rt r qt q = true :=
            wordMatchSafe_ok K hK rt r qt q (hrt.wordIn hr) (hqt.wordIn hq) (hqt.stems q hq)
          simp only [e5, Bool.true_and]
          split
          · rfl
          · rename_i r2 q2 hm
            have hp := hwm r q (r2, q2) (hrt.wordIn hr) (hqt.wordIn hq) (hrt.stems r hr) (hqt.stems q hq) hm
            have e6 : candScoreSafe r2 = true := candScoreSafe_of_pair hp
            simp only [e6, Bool.true_and]
            split
            · rename_i m0 q0 hc
              obtain ⟨r', hr', hm'⟩ := hs.cand _ hc
              exact candScoreSafe_of_pair
                (hwm r' q (m0, q0) (hrt.wordIn hr') (hqt.wordIn hq) (hrt.stems r' hr') (hqt.stems q hq) hm')
            · rfl

theorem tmScanSafe_ok (hK : CostsOK K = true) {q : WordShape} (hq : q ∈ qt.words) (rs : List WordShape)
    (hrs : ∀ r ∈ rs, r ∈ rt.words) {s : TMState} (hs : SafeSt K rt qt q s) :
    tmScanSafe K rt qt q rs s = true := by
  induction rs generalizing s with
  | nil => rfl
  | cons r rs ih =>
    have hrs' : ∀ r ∈ rs, r ∈ rt.words := fun x hx => hrs x (by simp [hx])
    have hr := hrs r (by simp)
    have e1 : inRangeOpt s.rm.length r.offset = true := by
      simp only [inRangeOpt, decide_eq_true_eq, hs.rlen]; exact hrt.offset_lt hr
    unfold tmScanSafe
    rw [e1, Bool.true_and]
    split
    · exact ih hrs' hs
    · rw [tmStepSafe_ok hrt hqt hwm hK hr hq hs, Bool.true_and]
      have hstep := tmStep_safeSt hrt hqt hwm hr hq hs
      simp only []
      split
      · rfl
      · exact ih hrs' hstep

theorem tmCommitSafe_ok {q : WordShape} (hq : q ∈ qt.words) {s : TMState} (hs : SafeSt K rt qt q s) :
    tmCommitSafe s = true := by
  unfold tmCommitSafe
  split
  · rfl
  · rename_i rmm qmm hc
    obtain ⟨r, hr, hm⟩ := hs.cand _ hc
    have hp := hwm r q (rmm, qmm) (hrt.wordIn hr) (hqt.wordIn hq) (hrt.stems r hr) (hqt.stems q hq) hm
    have h1 := hp.r_off
    have h2 := hp.q_off
    simp only [] at h1 h2
    simp only [inRangeOpt, Bool.and_eq_true, decide_eq_true_eq, hs.rlen, hs.qlen, h1, h2]
    exact ⟨hrt.offset_lt hr, hqt.offset_lt hq⟩

theorem tmCommit_safeSt {q q' : WordShape} (hq : q ∈ qt.words) {s : TMState} (hs : SafeSt K rt qt q s) :
    SafeSt K rt qt q' (tmCommit s) := by
  unfold tmCommit
  split
  · rename_i hc
    exact ⟨hs.rlen, hs.qlen, hs.qspan, fun p hp => by rw [hc] at hp; cases hp⟩
  · rename_i rmm qmm hc
    obtain ⟨r, hr, hm⟩ := hs.cand _ hc
    have hp := hwm r q (rmm, qmm) (hrt.wordIn hr) (hqt.wordIn hq) (hrt.stems r hr) (hqt.stems q hq) hm
    have bq := hqt.bounds q hq
    refine ⟨by simp [hs.rlen], by simp [hs.qlen], ?_, fun p hp => by cases hp⟩
    refine mem_setAt hs.qspan ?_
    rw [hp.q_lo, hp.q_hi]; omega

omit hrt hqt hwm in
theorem FoldSt.reset {q : WordShape} {s : TMState} (hs : FoldSt rt qt s) :
    SafeSt K rt qt q { s with cand := none } :=
  ⟨hs.rlen, hs.qlen, hs.qspan, fun p hp => by cases hp⟩

omit hrt hqt hwm in
theorem SafeSt.fold {q : WordShape} {s : TMState} (hs : SafeSt K rt qt q s) : FoldSt rt qt s :=
  ⟨hs.rlen, hs.qlen, hs.qspan⟩

theorem tmQuerySafe_ok (hK : CostsOK K = true) {q : WordShape} (hq : q ∈ qt.words) {s : TMState}
    (hs : FoldSt rt qt s) : tmQuerySafe K rt qt s q = true := by
  have e1 : inRangeOpt s.qm.length q.offset = true := by
    simp only [inRangeOpt, decide_eq_true_eq, hs.qlen]; exact hqt.offset_lt hq
  unfold tmQuerySafe
  rw [e1, Bool.true_and]
  split
  · rfl
  · have hs0 : SafeSt K rt qt q { s with cand := none } := hs.reset
    rw [tmScanSafe_ok hrt hqt hwm hK hq rt.words (fun _ h => h) hs0, Bool.true_and]
    exact tmCommitSafe_ok hrt hqt hwm hq (tmScan_safeSt hrt hqt hwm hq rt.words (fun _ h => h) hs0)

theorem tmQuery_foldSt {q : WordShape} (hq : q ∈ qt.words) {s : TMState} (hs : FoldSt rt qt s) :
    FoldSt rt qt (tmQuery K rt qt s q) := by
  unfold tmQuery
  split
  · exact hs
  · exact (tmCommit_safeSt (q' := q) hrt hqt hwm hq
      (tmScan_safeSt hrt hqt hwm hq rt.words (fun _ h => h) (hs.reset (K := K) (q := q)))).fold

theorem tmFoldSafe_ok (hK : CostsOK K = true) (qs : List WordShape) (hqs : ∀ q ∈ qs, q ∈ qt.words) {s : TMState}
    (hs : FoldSt rt qt s) : tmFoldSafe K rt qt qs s = true := by
  induction qs generalizing s with
  | nil => rfl
  | cons q qs ih =>
    have hq := hqs q (by simp)
    unfold tmFoldSafe
    rw [tmQuerySafe_ok hrt hqt hwm hK hq hs, Bool.true_and]
    exact ih (fun x hx => hqs x (by simp [hx])) (tmQuery_foldSt hrt hqt hwm hq hs)

theorem foldl_tmQuery_foldSt (qs : List WordShape) (hqs : ∀ q ∈ qs, q ∈ qt.words) {s : TMState}
    (hs : FoldSt rt qt s) : FoldSt rt qt (qs.foldl (tmQuery K rt qt) s) := by
  induction qs generalizing s with
  | nil => exact hs
  | cons q qs ih =>
    exact ih (fun x hx => hqs x (by simp [hx])) (tmQuery_foldSt hrt hqt hwm (hqs q (by simp)) hs)

end scan

theorem FoldSt.init (rt qt : Text) :
    FoldSt rt qt { rm := List.replicate rt.words.length none, qm := List.replicate qt.words.length none, cand := none } :=
  ⟨List.length_replicate, List.length_replicate, fun m hm => by simp [List.mem_replicate] at hm⟩

/-- **`text_match` never traps** on two tokenised texts -/
theorem textMatchSafe_ok (K : Consts) (hK : CostsOK K = true) (hT : ThresholdOK K = true) {rt qt : Text}
    (hrt : TextOK rt) (hqt : TextOK qt) : textMatchSafe K rt qt = true :=
  tmFoldSafe_ok hrt hqt (wordMatchOK K hK hT rt qt) hK qt.words (fun _ h => h) (FoldSt.init rt qt)

/-- every query match returned by `text_match` carries an ordered slice -/
theorem textMatch_qmatches_span (K : Consts) (hK : CostsOK K = true) (hT : ThresholdOK K = true) {rt qt : Text}
    (hrt : TextOK rt) (hqt : TextOK qt) : ∀ m ∈ (textMatch K rt qt).2, m.lo ≤ m.hi := by
  have hs := foldl_tmQuery_foldSt hrt hqt (wordMatchOK K hK hT rt qt) qt.words (fun _ h => h) (FoldSt.init rt qt)
  intro m hm
  simp only [textMatch, List.mem_filterMap, id] at hm
  obtain ⟨a, ha, rfl⟩ := hm
  exact hs.qspan m ha

/-- **scoring, filtering and highlighting one record never trap**: `text_match`, the `usize` subtraction
    `word_len - match_len` of `score_tails_down`, the `len()` of every word and match, and every slice of the
    title taken by `highlight` -/
theorem hitSafe_ok (K : Consts) (hK : CostsOK K = true) (hT : ThresholdOK K = true) (order : List ScoreType)
    {q : Text} {r : Record} (hq : TextOK q) (hr : TextOK r.title) : hitSafe K order q r = true := by
  have hwm := wordMatchOK K hK hT r.title q
  obtain ⟨_, hrm⟩ := textMatch_rmatches_ok hr hq hwm
  have hqm := textMatch_qmatches_span K hK hT hr hq
  unfold hitSafe
  rw [textMatchSafe_ok K hK hT hr hq, Bool.true_and]
  have hrmE : (scoreHit K order q r).rmatches = (textMatch K r.title q).1 := rfl
  have hqmE : (scoreHit K order q r).qmatches = (textMatch K r.title q).2 := rfl
  simp only [hrmE, hqmE, Bool.and_eq_true]
  refine ⟨⟨⟨?_, ?_⟩, ?_⟩, ?_⟩
  · rw [scoreTailsSafe, List.all_eq_true]
    intro m hm
    have h := hrm m hm
    have h1 := h.le
    have h2 := h.sub0
    simp only [decide_eq_true_eq]
    simp only [WMatch.matchLen, WMatch.wordLen]; omega
  · rw [List.all_eq_true]
    intro w hw
    have := hr.bounds w hw
    simp only [decide_eq_true_eq]; omega
  · rw [List.all_eq_true]
    intro m hm
    simp only [decide_eq_true_eq]
    rcases List.mem_append.mp hm with h | h
    · obtain ⟨w, hw, e1, e2⟩ := (hrm m h).word
      have := hr.bounds w (List.mem_of_getElem? hw)
      omega
    · exact hqm m h
  · exact hlSafe_of_textOK hr (fun m hm => (hrm m hm).fits hr)

end Lucid
