/-
  LucidProofs.Lemmas.UnicodeSrc — the Unicode oracle hypotheses of the model, discharged by kernel computation on
  the REAL tables of Rust's `std` (`LucidModel/Gen/Unicode.lean`, generated from a dump of
  `char::is_alphabetic / is_numeric / is_whitespace / is_control / is_uppercase` and the first character of
  `to_lowercase()` over all scalars).

  Results (all for every `c : Nat`):
    * `unicodeFacts_src : UnicodeFacts Gen.srcUnicode Gen.srcConsts`
    * `sepLower_src`, `sepLowerOn_src`            (lower-casing keeps separator-ness)
    * `caseClosed_src`, `caseClosedOn_src`, `caseClosed_de` …  (reduce tables of the seven languages and case)
    * `asciiFacts_src : AsciiFacts Gen.srcUnicode`
    * `D4_upper_without_lower`, `D5_lower_changes_non_upper` (the two findings as theorems about the real tables)

  Method: the generated lists are turned into search trees by `PTree.ofList`; the kernel checks that the in-order
  traversal of each tree is the generated list and that the search-tree invariant holds, which makes the
  logarithmic searches equal to `inRanges` / `lowerLookup` (`Lemmas/Ranges.lean`). Facts about `lower1` are then
  checks of the 1488 pairs of the map (`lowerLookup_ind`); facts about sets are range-list checks.
-/
import LucidProofs.Lemmas.Ranges
import LucidProofs.Lemmas.NormVariants
import LucidProofs.Lemmas.StableText

namespace Lucid
open Gen

/-- one past the last scalar value; upper bound in the tree invariants -/
def uniTop : Nat := 1114112

/-! ### the generated tables are what the generator says: ascending, disjoint -/

theorem uniAlpha_ascending : rangesAscending uniAlpha = true := by decide +kernel
theorem uniNumeric_ascending : rangesAscending uniNumeric = true := by decide +kernel
theorem uniWhite_ascending : rangesAscending uniWhite = true := by decide +kernel
theorem uniControl_ascending : rangesAscending uniControl = true := by decide +kernel
theorem uniUpper_ascending : rangesAscending uniUpper = true := by decide +kernel
theorem uniLower_keysAscending : keysAscending uniLower = true := by decide +kernel

/-! ### search trees for the four big tables -/

def alphaT : PTree := PTree.ofList uniAlpha
def numericT : PTree := PTree.ofList uniNumeric
def upperT : PTree := PTree.ofList uniUpper
def lowerT : PTree := PTree.ofList uniLower

theorem alphaT_toList : alphaT.toList = uniAlpha := by decide +kernel
theorem numericT_toList : numericT.toList = uniNumeric := by decide +kernel
theorem upperT_toList : upperT.toList = uniUpper := by decide +kernel
theorem lowerT_toList : lowerT.toList = uniLower := by decide +kernel

theorem alphaT_ok : alphaT.okR 0 uniTop = true := by decide +kernel
theorem numericT_ok : numericT.okR 0 uniTop = true := by decide +kernel
theorem upperT_ok : upperT.okR 0 uniTop = true := by decide +kernel
theorem lowerT_ok : lowerT.okM 0 uniTop = true := by decide +kernel

theorem alphaT_mem (c : Nat) : alphaT.mem c = inRanges uniAlpha c :=
  (PTree.mem_eq _ _ _ alphaT_ok c).trans (congrArg (inRanges · c) alphaT_toList)

theorem numericT_mem (c : Nat) : numericT.mem c = inRanges uniNumeric c :=
  (PTree.mem_eq _ _ _ numericT_ok c).trans (congrArg (inRanges · c) numericT_toList)

theorem upperT_mem (c : Nat) : upperT.mem c = inRanges uniUpper c :=
  (PTree.mem_eq _ _ _ upperT_ok c).trans (congrArg (inRanges · c) upperT_toList)

theorem lowerT_get (c : Nat) : lowerT.get c = lowerLookup uniLower c :=
  (PTree.get_eq _ _ _ lowerT_ok c).trans (congrArg (lowerLookup · c) lowerT_toList)

/-! ### separators and alphanumerics as range lists -/

/-- whitespace, control and the punctuation set of the source -/
def sepRanges : List (Nat × Nat) := uniWhite ++ uniControl ++ singletons srcConsts.punctuation

def alnumRanges : List (Nat × Nat) := uniAlpha ++ uniNumeric

theorem isSep_src (c : Nat) : isSepChar srcUnicode srcConsts c = inRanges sepRanges c := by
  simp only [isSepChar, srcUnicode, sepRanges, inRanges_append, inRanges_singletons]

theorem isAlnum_src (c : Nat) : srcUnicode.isAlnum c = inRanges alnumRanges c := by
  simp only [Unicode.isAlnum, srcUnicode, alnumRanges, inRanges_append]

/-- no separator (whitespace, control, punctuation set) is alphabetic or numeric: 31 × 907 range comparisons -/
theorem sep_alnum_disjoint : rangesDisjoint sepRanges alnumRanges = true := by decide +kernel

theorem sep_not_alnum_src (c : Nat) (h : isSepChar srcUnicode srcConsts c = true) : srcUnicode.isAlnum c = false := by
  rw [isAlnum_src]
  exact rangesDisjoint_sound sep_alnum_disjoint c (by rwa [isSep_src] at h)

theorem alnum_not_sep_src (c : Nat) (h : srcUnicode.isAlnum c = true) : isSepChar srcUnicode srcConsts c = false := by
  rw [isSep_src]
  exact rangesDisjoint_sound' sep_alnum_disjoint c (by rwa [isAlnum_src] at h)

/-! ### the lower-case map: checks of its 1488 pairs -/

theorem lower_alpha_src (c : Nat) : srcUnicode.isAlphabetic (srcUnicode.lower1 c) = srcUnicode.isAlphabetic c := by
  have h : uniLower.all (fun p => alphaT.mem p.2 == alphaT.mem p.1) = true := by decide +kernel
  simp only [alphaT_mem] at h
  exact lower_pres_of_check uniLower (inRanges uniAlpha) h c

theorem lower_numeric_src (c : Nat) : srcUnicode.isNumeric (srcUnicode.lower1 c) = srcUnicode.isNumeric c := by
  have h : uniLower.all (fun p => numericT.mem p.2 == numericT.mem p.1) = true := by decide +kernel
  simp only [numericT_mem] at h
  exact lower_pres_of_check uniLower (inRanges uniNumeric) h c

theorem lower_alnum_src (c : Nat) : srcUnicode.isAlnum (srcUnicode.lower1 c) = srcUnicode.isAlnum c := by
  simp only [Unicode.isAlnum, lower_alpha_src, lower_numeric_src]

theorem lower_idem_src (c : Nat) : srcUnicode.lower1 (srcUnicode.lower1 c) = srcUnicode.lower1 c := by
  have h : uniLower.all (fun p => lowerT.get p.2 == p.2) = true := by decide +kernel
  simp only [lowerT_get] at h
  exact lower_idem_of_check uniLower h c

/-- no value of the map is upper-case -/
theorem lower_upper_src (c : Nat) (h : srcUnicode.isUppercase (srcUnicode.lower1 c) = true) :
    srcUnicode.lower1 c = c := by
  have hc : uniLower.all (fun p => !upperT.mem p.2) = true := by decide +kernel
  simp only [upperT_mem] at hc
  exact lower_fix_of_check uniLower (inRanges uniUpper) hc c h

/-- every character changed by `to_lowercase` is alphabetic or numeric -/
theorem lower_keys_alnum : uniLower.all (fun p => inRanges uniAlpha p.1 || inRanges uniNumeric p.1) = true := by
  have h : uniLower.all (fun p => alphaT.mem p.1 || numericT.mem p.1) = true := by decide +kernel
  simpa only [alphaT_mem, numericT_mem] using h

/-- **lower-casing does not change whether a character is a separator** (all `c`): a character that changes is
    alphanumeric, so is its image, and alphanumerics are not separators -/
theorem sepLower_src (c : Nat) :
    isSepChar srcUnicode srcConsts (srcUnicode.lower1 c) = isSepChar srcUnicode srcConsts c := by
  rcases lowerLookup_cases uniLower c with ⟨p, hp, rfl, _⟩ | ⟨_, he⟩
  · have hk : srcUnicode.isAlnum p.1 = true := (List.all_eq_true.1 lower_keys_alnum) p hp
    rw [alnum_not_sep_src _ hk, alnum_not_sep_src _ (by rw [lower_alnum_src]; exact hk)]
  · show isSepChar srcUnicode srcConsts (lowerLookup uniLower c) = _
    rw [he]

theorem unicodeFacts_src : UnicodeFacts srcUnicode srcConsts where
  sep_not_alnum := sep_not_alnum_src
  lower_alnum := lower_alnum_src
  lower_alpha := lower_alpha_src
  lower_sep := fun c h => by rw [sepLower_src]; exact h
  lower_idem := lower_idem_src
  lower_upper := lower_upper_src
  nul_control := by decide

/-- `SepLowerOn` for every list of characters, in any environment with the real oracle and the source constants -/
theorem sepLowerOn_src (E : Env) (hU : E.U = srcUnicode) (hK : E.K = srcConsts) (cs : List Nat) : SepLowerOn E cs := by
  intro c _
  rw [hU, hK]
  exact sepLower_src c

/-! ### ASCII -/

def asciiRanges : List (Nat × Nat) := [(97, 122), (48, 57)]

theorem asciiLowerChar_eq (c : Nat) : asciiLowerChar c = inRanges asciiRanges c := by
  simp only [asciiLowerChar, asciiRanges, inRanges_cons, inRanges_nil, Bool.or_false]

theorem asciiFacts_src : AsciiFacts srcUnicode where
  alpha := fun c h1 h2 =>
    rangesSubset_sound (rs1 := [(97, 122)]) (rs2 := uniAlpha) (by decide +kernel) c
      (by simp [inRanges_cons, inRanges_nil, h1, h2])
  numeric := fun c h1 h2 =>
    rangesSubset_sound (rs1 := [(48, 57)]) (rs2 := uniNumeric) (by decide +kernel) c
      (by simp [inRanges_cons, inRanges_nil, h1, h2])
  not_space := fun c h =>
    rangesDisjoint_sound (rs1 := asciiRanges) (rs2 := uniWhite) (by decide +kernel) c (by rwa [asciiLowerChar_eq] at h)
  not_ctrl := fun c h =>
    rangesDisjoint_sound (rs1 := asciiRanges) (rs2 := uniControl) (by decide +kernel) c (by rwa [asciiLowerChar_eq] at h)
  lower_fixed := fun c h =>
    lower_fixed_of_check uniLower (inRanges asciiRanges) (by decide +kernel) c (by rwa [asciiLowerChar_eq] at h)

/-! ### reduce tables and case -/

/-- all one-character keys of the table lie in `[lo, hi]` -/
def boxOK (R : List (List Nat × List Nat)) (lo hi : Nat) : Bool :=
  R.all (fun e => match e.1 with
    | [k] => Nat.ble lo k && Nat.ble k hi
    | _ => true)

/-- smallest and largest one-character key (`(uniTop, 0)`, an empty interval, for a table without such keys) -/
def keyBox (R : List (List Nat × List Nat)) : Nat × Nat :=
  R.foldr (fun e acc => match e.1 with
    | [k] => (Nat.min k acc.1, Nat.max k acc.2)
    | _ => acc) (uniTop, 0)

def outBox (lo hi c : Nat) : Bool := Nat.blt c lo || Nat.blt hi c

theorem mapGet_none_of_box (R : List (List Nat × List Nat)) (lo hi : Nat) (h : boxOK R lo hi = true) (c : Nat)
    (hc : outBox lo hi c = true) : mapGet R [c] = none := by
  induction R with
  | nil => rfl
  | cons e R ih =>
    obtain ⟨k, v⟩ := e
    simp only [boxOK, List.all_cons, Bool.and_eq_true] at h
    have ih' := ih h.2
    have hk : k ≠ [c] := by
      intro e
      subst e
      have h1 := h.1
      simp only [Bool.and_eq_true, Nat.ble_eq] at h1
      simp only [outBox, Bool.or_eq_true, Nat.blt_eq] at hc
      omega
    simp only [mapGet, ih', if_neg hk]

theorem red1_of_box (R : List (List Nat × List Nat)) (lo hi : Nat) (h : boxOK R lo hi = true) (c : Nat)
    (hc : outBox lo hi c = true) : red1 R c = [c] := by
  simp only [red1, mapGet_none_of_box R lo hi h c hc, Option.getD_none]

/-- check of the pairs of the map against a reduce table: pairs outside the key interval are skipped -/
def caseCheck (f : Nat → Nat) (R : List (List Nat × List Nat)) (lo hi : Nat) (m : List (Nat × Nat)) : Bool :=
  m.all (fun p => (outBox lo hi p.1 && outBox lo hi p.2) || decide ((red1 R p.1).map f = (red1 R p.2).map f))

theorem caseClosed_of_check (m : List (Nat × Nat)) (f : Nat → Nat) (hf : ∀ c, f c = lowerLookup m c)
    (R : List (List Nat × List Nat)) (lo hi : Nat) (hbox : boxOK R lo hi = true)
    (hidem : ∀ c, lowerLookup m (lowerLookup m c) = lowerLookup m c)
    (hchk : caseCheck f R lo hi m = true) (c : Nat) :
    (red1 R c).map (lowerLookup m) = (red1 R (lowerLookup m c)).map (lowerLookup m) := by
  obtain rfl : f = lowerLookup m := funext hf
  rcases lowerLookup_cases m c with ⟨p, hp, rfl, he⟩ | ⟨_, he⟩
  · rw [he]
    have hfp : lowerLookup m p.2 = p.2 := by rw [← he, hidem]
    have := List.all_eq_true.1 hchk p hp
    simp only [Bool.or_eq_true, Bool.and_eq_true, decide_eq_true_eq] at this
    rcases this with ⟨o1, o2⟩ | h
    · rw [red1_of_box R lo hi hbox _ o1, red1_of_box R lo hi hbox _ o2]
      simp only [List.map_cons, List.map_nil, he, hfp]
    · exact h
  · rw [he]

/-- the check for the seven generated language tables at once (in-box pairs only are evaluated) -/
theorem caseCheck_srcLangs :
    srcLangs.all (fun p => boxOK p.2.reduce (keyBox p.2.reduce).1 (keyBox p.2.reduce).2 &&
      caseCheck lowerT.get p.2.reduce (keyBox p.2.reduce).1 (keyBox p.2.reduce).2 uniLower) = true := by
  decide +kernel

/-- **the reduce table of every generated language is closed under case** for the real oracle, at every `c`:
    folding a character and folding its lower-case form give the same characters up to case -/
theorem caseClosed_src {name : String} {T : LangTables} (hT : (name, T) ∈ srcLangs) (c : Nat) :
    (red1 T.reduce c).map srcUnicode.lower1 = (red1 T.reduce (srcUnicode.lower1 c)).map srcUnicode.lower1 := by
  have h := List.all_eq_true.1 caseCheck_srcLangs _ hT
  simp only [Bool.and_eq_true] at h
  exact caseClosed_of_check uniLower lowerT.get lowerT_get T.reduce _ _ h.1 lower_idem_src h.2 c

/-- `CaseClosedOn` for every list of characters, in any environment with the real oracle and a generated table -/
theorem caseClosedOn_src (E : Env) (hU : E.U = srcUnicode) {name : String} (hT : (name, E.T) ∈ srcLangs)
    (cs : List Nat) : CaseClosedOn E cs := by
  intro c _
  rw [hU]
  exact caseClosed_src hT c

theorem caseClosed_none (stem : List Nat → Nat) (cs : List Nat) :
    CaseClosedOn (srcProg.env srcUnicode lang_none stem) cs := caseClosedOn_src _ rfl (name := "none") (.head _) cs
theorem caseClosed_de (stem : List Nat → Nat) (cs : List Nat) :
    CaseClosedOn (srcProg.env srcUnicode lang_de stem) cs := caseClosedOn_src _ rfl (name := "de") (.tail _ (.head _)) cs
theorem caseClosed_en (stem : List Nat → Nat) (cs : List Nat) :
    CaseClosedOn (srcProg.env srcUnicode lang_en stem) cs := caseClosedOn_src _ rfl (name := "en") (.tail _ (.tail _ (.head _))) cs
theorem caseClosed_es (stem : List Nat → Nat) (cs : List Nat) :
    CaseClosedOn (srcProg.env srcUnicode lang_es stem) cs := caseClosedOn_src _ rfl (name := "es") (.tail _ (.tail _ (.tail _ (.head _)))) cs
theorem caseClosed_fr (stem : List Nat → Nat) (cs : List Nat) :
    CaseClosedOn (srcProg.env srcUnicode lang_fr stem) cs := caseClosedOn_src _ rfl (name := "fr") (.tail _ (.tail _ (.tail _ (.tail _ (.head _))))) cs
theorem caseClosed_pt (stem : List Nat → Nat) (cs : List Nat) :
    CaseClosedOn (srcProg.env srcUnicode lang_pt stem) cs := caseClosedOn_src _ rfl (name := "pt") (.tail _ (.tail _ (.tail _ (.tail _ (.tail _ (.head _)))))) cs
theorem caseClosed_ru (stem : List Nat → Nat) (cs : List Nat) :
    CaseClosedOn (srcProg.env srcUnicode lang_ru stem) cs := caseClosedOn_src _ rfl (name := "ru") (.tail _ (.tail _ (.tail _ (.tail _ (.tail _ (.tail _ (.head _))))))) cs

/-! ### the findings D4 and D5 as theorems about the real tables -/

/-- **Finding D4**: `std` has characters that are `is_uppercase` and that `to_lowercase` leaves alone
    (U+2102 ℂ, U+1F130 🄰, …), so "a tokenised word contains no upper-case character" is false for Rust's `std`. -/
theorem D4_upper_without_lower : ∃ c, srcUnicode.isUppercase c = true ∧ srcUnicode.lower1 c = c :=
  ⟨0x2102, by decide +kernel⟩

/-- ℂ, ℋ, 𝐀 (letters of category Lu without a lower-case mapping) and 🄰 (`Other_Uppercase`) -/
theorem D4_examples : ∀ c ∈ [0x2102, 0x210B, 0x1D400, 0x1F130],
    srcUnicode.isUppercase c = true ∧ srcUnicode.lower1 c = c := by
  decide +kernel

/-- **Premise of finding D5**: `std` has characters that are not `is_uppercase` and that `to_lowercase` changes
    (the title-case digraph U+01C5 ǅ ↦ U+01C6 ǆ), so lower-casing only the upper-case characters is not
    lower-casing. -/
theorem D5_lower_changes_non_upper : ∃ c, srcUnicode.isUppercase c = false ∧ srcUnicode.lower1 c ≠ c :=
  ⟨453, by decide +kernel⟩

end Lucid
