/-
  LucidProofs.Lemmas.EditScripts — the textbook meaning of the two reference distances of
  `Lemmas/DamlevSpec.lean`.

  * `LevScript a b n`: there is an edit script of `n` unit-cost operations (insert a character, delete a
    character, substitute a character; unchanged characters are free) that turns the word `a` into the word `b`.
    `lev_sound`: every such script costs at least `DL.lev a b |a| |b|`; `lev_complete`: some script costs exactly
    that. So `DL.lev a b |a| |b|` IS the Levenshtein distance: the minimum cost of an edit script.
    The same as an executable notion: `applyOps ops a = some b` for a list of operations `ops` of cost
    `opsCost ops` (`levScript_iff_ops`).
  * `DLScript a b n`: scripts that may, in addition, transpose two characters across gaps (Lowrance–Wagner:
    `… y u x …` becomes `… x v y …` at cost `|u| + |v| + 1`: delete `u`, swap, insert `v`). `dlunit_sound`,
    `dlunit_complete`: `DL.DLunit a b |a| |b|` is the minimum cost of such a script.
-/
import LucidProofs.Lemmas.DamlevSpec

namespace Lucid
namespace DL

/-! ## Levenshtein -/

/-- Edit scripts, read from the front of the two words: `LevScript a b n` — `a` can be turned into `b` by a
    script of cost `n`. `sub` does not require the two characters to differ (a wasteful script is still a
    script). -/
inductive LevScript : List Nat → List Nat → Nat → Prop
  | nil : LevScript [] [] 0
  | keep {a b : List Nat} {n : Nat} (c : Nat) : LevScript a b n → LevScript (c :: a) (c :: b) n
  | sub {a b : List Nat} {n : Nat} (c d : Nat) : LevScript a b n → LevScript (c :: a) (d :: b) (n + 1)
  | ins {a b : List Nat} {n : Nat} (d : Nat) : LevScript a b n → LevScript a (d :: b) (n + 1)
  | del {a b : List Nat} {n : Nat} (c : Nat) : LevScript a b n → LevScript (c :: a) b (n + 1)

/-- the same scripts, built from the end of the two words (the direction of the recurrence `lev`) -/
inductive LevScriptR : List Nat → List Nat → Nat → Prop
  | nil : LevScriptR [] [] 0
  | keep (a b : List Nat) (n : Nat) (c : Nat) : LevScriptR a b n → LevScriptR (a ++ [c]) (b ++ [c]) n
  | sub (a b : List Nat) (n : Nat) (c d : Nat) : LevScriptR a b n → LevScriptR (a ++ [c]) (b ++ [d]) (n + 1)
  | ins (a b : List Nat) (n : Nat) (d : Nat) : LevScriptR a b n → LevScriptR a (b ++ [d]) (n + 1)
  | del (a b : List Nat) (n : Nat) (c : Nat) : LevScriptR a b n → LevScriptR (a ++ [c]) b (n + 1)

/-! ### front-built and end-built scripts are the same -/

theorem LevScript.snoc_keep {a b : List Nat} {n : Nat} (c : Nat) (h : LevScript a b n) :
    LevScript (a ++ [c]) (b ++ [c]) n := by
  induction h with
  | nil => exact .keep c .nil
  | keep x _ ih => exact .keep x ih
  | sub x y _ ih => exact .sub x y ih
  | ins y _ ih => exact .ins y ih
  | del x _ ih => exact .del x ih

theorem LevScript.snoc_sub {a b : List Nat} {n : Nat} (c d : Nat) (h : LevScript a b n) :
    LevScript (a ++ [c]) (b ++ [d]) (n + 1) := by
  induction h with
  | nil => exact .sub c d .nil
  | keep x _ ih => exact .keep x ih
  | sub x y _ ih => exact .sub x y ih
  | ins y _ ih => exact .ins y ih
  | del x _ ih => exact .del x ih

theorem LevScript.snoc_ins {a b : List Nat} {n : Nat} (d : Nat) (h : LevScript a b n) :
    LevScript a (b ++ [d]) (n + 1) := by
  induction h with
  | nil => exact .ins d .nil
  | keep x _ ih => exact .keep x ih
  | sub x y _ ih => exact .sub x y ih
  | ins y _ ih => exact .ins y ih
  | del x _ ih => exact .del x ih

theorem LevScript.snoc_del {a b : List Nat} {n : Nat} (c : Nat) (h : LevScript a b n) :
    LevScript (a ++ [c]) b (n + 1) := by
  induction h with
  | nil => exact .del c .nil
  | keep x _ ih => exact .keep x ih
  | sub x y _ ih => exact .sub x y ih
  | ins y _ ih => exact .ins y ih
  | del x _ ih => exact .del x ih

theorem LevScriptR.cons_keep {a b : List Nat} {n : Nat} (c : Nat) (h : LevScriptR a b n) :
    LevScriptR (c :: a) (c :: b) n := by
  induction h with
  | nil => exact .keep [] [] 0 c .nil
  | keep a b n x _ ih => exact .keep (c :: a) (c :: b) n x ih
  | sub a b n x y _ ih => exact .sub (c :: a) (c :: b) n x y ih
  | ins a b n y _ ih => exact .ins (c :: a) (c :: b) n y ih
  | del a b n x _ ih => exact .del (c :: a) (c :: b) n x ih

theorem LevScriptR.cons_sub {a b : List Nat} {n : Nat} (c d : Nat) (h : LevScriptR a b n) :
    LevScriptR (c :: a) (d :: b) (n + 1) := by
  induction h with
  | nil => exact .sub [] [] 0 c d .nil
  | keep a b n x _ ih => exact .keep (c :: a) (d :: b) (n + 1) x ih
  | sub a b n x y _ ih => exact .sub (c :: a) (d :: b) (n + 1) x y ih
  | ins a b n y _ ih => exact .ins (c :: a) (d :: b) (n + 1) y ih
  | del a b n x _ ih => exact .del (c :: a) (d :: b) (n + 1) x ih

theorem LevScriptR.cons_ins {a b : List Nat} {n : Nat} (d : Nat) (h : LevScriptR a b n) :
    LevScriptR a (d :: b) (n + 1) := by
  induction h with
  | nil => exact .ins [] [] 0 d .nil
  | keep a b n x _ ih => exact .keep a (d :: b) (n + 1) x ih
  | sub a b n x y _ ih => exact .sub a (d :: b) (n + 1) x y ih
  | ins a b n y _ ih => exact .ins a (d :: b) (n + 1) y ih
  | del a b n x _ ih => exact .del a (d :: b) (n + 1) x ih

theorem LevScriptR.cons_del {a b : List Nat} {n : Nat} (c : Nat) (h : LevScriptR a b n) :
    LevScriptR (c :: a) b (n + 1) := by
  induction h with
  | nil => exact .del [] [] 0 c .nil
  | keep a b n x _ ih => exact .keep (c :: a) b (n + 1) x ih
  | sub a b n x y _ ih => exact .sub (c :: a) b (n + 1) x y ih
  | ins a b n y _ ih => exact .ins (c :: a) b (n + 1) y ih
  | del a b n x _ ih => exact .del (c :: a) b (n + 1) x ih

theorem levScript_iff_R (a b : List Nat) (n : Nat) : LevScript a b n ↔ LevScriptR a b n := by
  constructor
  · intro h
    induction h with
    | nil => exact .nil
    | keep c _ ih => exact ih.cons_keep c
    | sub c d _ ih => exact ih.cons_sub c d
    | ins d _ ih => exact ih.cons_ins d
    | del c _ ih => exact ih.cons_del c
  · intro h
    induction h with
    | nil => exact .nil
    | keep a b n c _ ih => exact ih.snoc_keep c
    | sub a b n c d _ ih => exact ih.snoc_sub c d
    | ins a b n d _ ih => exact ih.snoc_ins d
    | del a b n c _ ih => exact ih.snoc_del c

/-! ### the recurrence `lev` -/

theorem lev_zero_left (a b : List Nat) (j : Nat) : lev a b 0 j = j := by simp [lev]
theorem lev_succ_zero (a b : List Nat) (i : Nat) : lev a b (i + 1) 0 = i + 1 := by simp [lev]
theorem lev_zero_right (a b : List Nat) (i : Nat) : lev a b i 0 = i := by cases i <;> simp [lev]
theorem lev_succ_succ (a b : List Nat) (i j : Nat) :
    lev a b (i + 1) (j + 1) = min (min (lev a b (i + 1) j + 1) (lev a b i (j + 1) + 1))
      (lev a b i j + if a.getD i 0 == b.getD j 0 then 0 else 1) := by rw [lev]

/-- the value depends on the prefixes only -/
theorem lev_ext (a a' b b' : List Nat) : ∀ i j, (∀ k, k < i → a.getD k 0 = a'.getD k 0) →
    (∀ k, k < j → b.getD k 0 = b'.getD k 0) → lev a b i j = lev a' b' i j := by
  intro i
  induction i with
  | zero => intro j _ _; simp [lev_zero_left]
  | succ i ihi =>
    intro j
    induction j with
    | zero => intro _ _; simp [lev_succ_zero]
    | succ j ihj =>
      intro ha hb
      rw [lev_succ_succ, lev_succ_succ, ihj ha (fun k hk => hb k (by omega)),
        ihi (j + 1) (fun k hk => ha k (by omega)) hb,
        ihi j (fun k hk => ha k (by omega)) (fun k hk => hb k (by omega)), ha i (by omega), hb j (by omega)]

theorem lev_step_del (a b : List Nat) (i j : Nat) : lev a b (i + 1) j ≤ lev a b i j + 1 := by
  cases j with
  | zero => rw [lev_succ_zero, lev_zero_right]; omega
  | succ j => rw [lev_succ_succ]; omega

theorem lev_step_ins (a b : List Nat) (i j : Nat) : lev a b i (j + 1) ≤ lev a b i j + 1 := by
  cases i with
  | zero => rw [lev_zero_left, lev_zero_left]; omega
  | succ i => rw [lev_succ_succ]; omega

theorem lev_step_sub (a b : List Nat) (i j : Nat) :
    lev a b (i + 1) (j + 1) ≤ lev a b i j + if a.getD i 0 == b.getD j 0 then 0 else 1 := by
  rw [lev_succ_succ]; omega

theorem getD_snoc_last (a : List Nat) (c : Nat) : (a ++ [c]).getD a.length 0 = c := by simp

theorem getD_snoc_lt (a : List Nat) (c k : Nat) (h : k < a.length) : (a ++ [c]).getD k 0 = a.getD k 0 := by
  simp [List.getD, List.getElem?_append_left h]

theorem take_succ_getD (l : List Nat) (i : Nat) (h : i < l.length) : l.take (i + 1) = l.take i ++ [l.getD i 0] := by
  rw [List.take_add_one]
  simp [List.getD, List.getElem?_eq_getElem h]

/-- soundness on end-built scripts -/
theorem LevScriptR.sound {a b : List Nat} {n : Nat} (h : LevScriptR a b n) : lev a b a.length b.length ≤ n := by
  induction h with
  | nil => simp [lev]
  | keep a b n c _ ih =>
    have h1 := lev_step_sub (a ++ [c]) (b ++ [c]) a.length b.length
    rw [getD_snoc_last, getD_snoc_last] at h1
    have h2 : lev (a ++ [c]) (b ++ [c]) a.length b.length = lev a b a.length b.length :=
      lev_ext _ _ _ _ _ _ (fun k hk => getD_snoc_lt a c k hk) (fun k hk => getD_snoc_lt b c k hk)
    simp only [List.length_append, List.length_singleton]
    simp only [beq_self_eq_true, if_true] at h1
    omega
  | sub a b n c d _ ih =>
    have h1 := lev_step_sub (a ++ [c]) (b ++ [d]) a.length b.length
    have h2 : lev (a ++ [c]) (b ++ [d]) a.length b.length = lev a b a.length b.length :=
      lev_ext _ _ _ _ _ _ (fun k hk => getD_snoc_lt a c k hk) (fun k hk => getD_snoc_lt b d k hk)
    simp only [List.length_append, List.length_singleton]
    have h3 : (if (a ++ [c]).getD a.length 0 == (b ++ [d]).getD b.length 0 then 0 else 1) ≤ 1 := by split <;> omega
    omega
  | ins a b n d _ ih =>
    have h1 := lev_step_ins a (b ++ [d]) a.length b.length
    have h2 : lev a (b ++ [d]) a.length b.length = lev a b a.length b.length :=
      lev_ext _ _ _ _ _ _ (fun _ _ => rfl) (fun k hk => getD_snoc_lt b d k hk)
    simp only [List.length_append, List.length_singleton]
    omega
  | del a b n c _ ih =>
    have h1 := lev_step_del (a ++ [c]) b a.length b.length
    have h2 : lev (a ++ [c]) b a.length b.length = lev a b a.length b.length :=
      lev_ext _ _ _ _ _ _ (fun k hk => getD_snoc_lt a c k hk) (fun _ _ => rfl)
    simp only [List.length_append, List.length_singleton]
    omega

/-- completeness on end-built scripts, for all prefixes -/
theorem LevScriptR.complete (a b : List Nat) : ∀ i j, i ≤ a.length → j ≤ b.length →
    LevScriptR (a.take i) (b.take j) (lev a b i j) := by
  intro i
  induction i with
  | zero =>
    intro j
    induction j with
    | zero => intro _ _; simpa [lev] using LevScriptR.nil
    | succ j ih =>
      intro hi hj
      have := ih hi (by omega)
      rw [lev_zero_left] at this ⊢
      rw [take_succ_getD b j (by omega)]
      exact .ins _ _ _ _ this
  | succ i ihi =>
    intro j
    induction j with
    | zero =>
      intro hi hj
      have := ihi 0 (by omega) hj
      rw [lev_zero_right] at this
      rw [lev_succ_zero, take_succ_getD a i (by omega)]
      exact .del _ _ _ _ this
    | succ j ihj =>
      intro hi hj
      have hA := ihj hi (by omega)
      have hB := ihi (j + 1) (by omega) hj
      have hC := ihi j (by omega) (by omega)
      rw [lev_succ_succ]
      have hcases : ∀ x y z : Nat,
          min (min x y) z = x ∨ min (min x y) z = y ∨ min (min x y) z = z := by intros; omega
      rcases hcases (lev a b (i + 1) j + 1) (lev a b i (j + 1) + 1)
        (lev a b i j + if a.getD i 0 == b.getD j 0 then 0 else 1) with e | e | e <;> rw [e]
      · rw [take_succ_getD b j (by omega)]
        exact .ins _ _ _ _ hA
      · rw [take_succ_getD a i (by omega)]
        exact .del _ _ _ _ hB
      · rw [take_succ_getD a i (by omega), take_succ_getD b j (by omega)]
        by_cases he : a.getD i 0 = b.getD j 0
        · simp only [he, beq_self_eq_true, if_true, Nat.add_zero]
          exact .keep _ _ _ _ hC
        · have : (a.getD i 0 == b.getD j 0) = false := by simpa using he
          simp only [this, Bool.false_eq_true, if_false]
          exact .sub _ _ _ _ _ hC

/-- **Soundness**: every edit script turning `a` into `b` costs at least `lev a b |a| |b|`. -/
theorem lev_sound {a b : List Nat} {n : Nat} (h : LevScript a b n) : lev a b a.length b.length ≤ n :=
  ((levScript_iff_R a b n).mp h).sound

/-- **Completeness**: there is an edit script turning `a` into `b` whose cost is exactly `lev a b |a| |b|`. -/
theorem lev_complete (a b : List Nat) : LevScript a b (lev a b a.length b.length) := by
  have := LevScriptR.complete a b a.length b.length (Nat.le_refl _) (Nat.le_refl _)
  rw [List.take_length, List.take_length] at this
  exact (levScript_iff_R a b _).mpr this

/-- `lev a b |a| |b|` is the least cost of an edit script turning `a` into `b`. -/
theorem lev_is_min (a b : List Nat) :
    LevScript a b (lev a b a.length b.length) ∧ ∀ n, LevScript a b n → lev a b a.length b.length ≤ n :=
  ⟨lev_complete a b, fun _ h => lev_sound h⟩

/-! ### scripts as executable lists of operations -/

/-- one operation of an edit script, applied at the front of what is left of the word -/
inductive EditOp where
  | keep
  | sub (d : Nat)
  | ins (d : Nat)
  | del
deriving Repr, DecidableEq

def EditOp.cost : EditOp → Nat
  | .keep => 0
  | _ => 1

/-- cost of a script: the number of insertions, deletions and substitutions -/
def opsCost (ops : List EditOp) : Nat := (ops.map EditOp.cost).sum

/-- run a script on a word; `none` if the script does not fit the word (characters left over, or an operation
    that needs a character when none is left) -/
def applyOps : List EditOp → List Nat → Option (List Nat)
  | [], [] => some []
  | [], _ :: _ => none
  | .ins d :: ops, a => (applyOps ops a).map (d :: ·)
  | .keep :: ops, c :: a => (applyOps ops a).map (c :: ·)
  | .sub d :: ops, _ :: a => (applyOps ops a).map (d :: ·)
  | .del :: ops, _ :: a => applyOps ops a
  | .keep :: _, [] => none
  | .sub _ :: _, [] => none
  | .del :: _, [] => none

theorem levScript_of_ops : ∀ (ops : List EditOp) (a b : List Nat), applyOps ops a = some b →
    LevScript a b (opsCost ops)
  | [], [], b, h => by simp only [applyOps, Option.some.injEq] at h; subst h; exact .nil
  | [], _ :: _, b, h => by simp [applyOps] at h
  | .ins d :: ops, a, b, h => by
    simp only [applyOps, Option.map_eq_some_iff] at h
    obtain ⟨b', hb, rfl⟩ := h
    have := levScript_of_ops ops a b' hb
    simpa [opsCost, EditOp.cost, Nat.add_comm] using LevScript.ins d this
  | .keep :: ops, c :: a, b, h => by
    simp only [applyOps, Option.map_eq_some_iff] at h
    obtain ⟨b', hb, rfl⟩ := h
    have := levScript_of_ops ops a b' hb
    simpa [opsCost, EditOp.cost] using LevScript.keep c this
  | .sub d :: ops, c :: a, b, h => by
    simp only [applyOps, Option.map_eq_some_iff] at h
    obtain ⟨b', hb, rfl⟩ := h
    have := levScript_of_ops ops a b' hb
    simpa [opsCost, EditOp.cost, Nat.add_comm] using LevScript.sub c d this
  | .del :: ops, c :: a, b, h => by
    simp only [applyOps] at h
    have := levScript_of_ops ops a b h
    simpa [opsCost, EditOp.cost, Nat.add_comm] using LevScript.del c this
  | .keep :: _, [], b, h => by simp [applyOps] at h
  | .sub _ :: _, [], b, h => by simp [applyOps] at h
  | .del :: _, [], b, h => by simp [applyOps] at h

theorem ops_of_levScript {a b : List Nat} {n : Nat} (h : LevScript a b n) :
    ∃ ops, applyOps ops a = some b ∧ opsCost ops = n := by
  induction h with
  | nil => exact ⟨[], rfl, rfl⟩
  | keep c _ ih =>
    obtain ⟨ops, h1, h2⟩ := ih
    exact ⟨.keep :: ops, by simp [applyOps, h1], by simpa [opsCost, EditOp.cost] using h2⟩
  | sub c d _ ih =>
    obtain ⟨ops, h1, h2⟩ := ih
    refine ⟨.sub d :: ops, by simp [applyOps, h1], ?_⟩
    simp only [opsCost, List.map_cons, List.sum_cons, EditOp.cost] at h2 ⊢; omega
  | ins d _ ih =>
    obtain ⟨ops, h1, h2⟩ := ih
    refine ⟨.ins d :: ops, by simp [applyOps, h1], ?_⟩
    simp only [opsCost, List.map_cons, List.sum_cons, EditOp.cost] at h2 ⊢; omega
  | del c _ ih =>
    obtain ⟨ops, h1, h2⟩ := ih
    refine ⟨.del :: ops, by simp [applyOps, h1], ?_⟩
    simp only [opsCost, List.map_cons, List.sum_cons, EditOp.cost] at h2 ⊢; omega

/-- the relation `LevScript` is "some list of operations, run on `a`, yields `b`" -/
theorem levScript_iff_ops (a b : List Nat) (n : Nat) :
    LevScript a b n ↔ ∃ ops, applyOps ops a = some b ∧ opsCost ops = n :=
  ⟨ops_of_levScript, fun ⟨ops, h1, h2⟩ => h2 ▸ levScript_of_ops ops a b h1⟩

/-- soundness for operation lists -/
theorem lev_le_opsCost (ops : List EditOp) (a b : List Nat) (h : applyOps ops a = some b) :
    lev a b a.length b.length ≤ opsCost ops := lev_sound (levScript_of_ops ops a b h)

-- "kitten" → "sitting": substitute s, keep itt, substitute i, keep n, insert g: cost 3 = lev
example : applyOps [.sub 115, .keep, .keep, .keep, .sub 105, .keep, .ins 103]
    ("kitten".toList.map (·.toNat)) = some ("sitting".toList.map (·.toNat)) := by decide
example : opsCost [.sub 115, .keep, .keep, .keep, .sub 105, .keep, .ins 103] = 3 := by decide

/-! ## unrestricted Damerau–Levenshtein (Lowrance–Wagner) -/

/-- Edit scripts with transpositions across gaps, read from the front of the two words: besides the unit-cost
    insertion, deletion and substitution, a block `y u x` of `a` may be turned into `x v y` at cost
    `|u| + |v| + 1` (delete `u`, swap the two now adjacent characters, insert `v` between them); with
    `u = v = []` this is the plain adjacent transposition at cost 1. -/
inductive DLScript : List Nat → List Nat → Nat → Prop
  | nil : DLScript [] [] 0
  | keep {a b : List Nat} {n : Nat} (c : Nat) : DLScript a b n → DLScript (c :: a) (c :: b) n
  | sub {a b : List Nat} {n : Nat} (c d : Nat) : DLScript a b n → DLScript (c :: a) (d :: b) (n + 1)
  | ins {a b : List Nat} {n : Nat} (d : Nat) : DLScript a b n → DLScript a (d :: b) (n + 1)
  | del {a b : List Nat} {n : Nat} (c : Nat) : DLScript a b n → DLScript (c :: a) b (n + 1)
  | trans {a b : List Nat} {n : Nat} (x y : Nat) (u v : List Nat) :
      DLScript a b n → DLScript (y :: u ++ x :: a) (x :: v ++ y :: b) (n + u.length + v.length + 1)

/-- the same scripts, built from the end of the two words (the direction of the recurrence `DLunit`) -/
inductive DLScriptR : List Nat → List Nat → Nat → Prop
  | nil : DLScriptR [] [] 0
  | keep (a b : List Nat) (n : Nat) (c : Nat) : DLScriptR a b n → DLScriptR (a ++ [c]) (b ++ [c]) n
  | sub (a b : List Nat) (n : Nat) (c d : Nat) : DLScriptR a b n → DLScriptR (a ++ [c]) (b ++ [d]) (n + 1)
  | ins (a b : List Nat) (n : Nat) (d : Nat) : DLScriptR a b n → DLScriptR a (b ++ [d]) (n + 1)
  | del (a b : List Nat) (n : Nat) (c : Nat) : DLScriptR a b n → DLScriptR (a ++ [c]) b (n + 1)
  | trans (a b : List Nat) (n : Nat) (x y : Nat) (u v : List Nat) :
      DLScriptR a b n → DLScriptR (a ++ y :: u ++ [x]) (b ++ x :: v ++ [y]) (n + u.length + v.length + 1)

theorem DLScript.cast {a b a' b' : List Nat} {n n' : Nat} (h : DLScript a b n) (ea : a = a') (eb : b = b')
    (en : n = n') : DLScript a' b' n' := by subst ea eb en; exact h

theorem DLScriptR.cast {a b a' b' : List Nat} {n n' : Nat} (h : DLScriptR a b n) (ea : a = a') (eb : b = b')
    (en : n = n') : DLScriptR a' b' n' := by subst ea eb en; exact h

/-- every Levenshtein script is a Damerau–Levenshtein script -/
theorem DLScript.of_lev {a b : List Nat} {n : Nat} (h : LevScript a b n) : DLScript a b n := by
  induction h with
  | nil => exact .nil
  | keep c _ ih => exact .keep c ih
  | sub c d _ ih => exact .sub c d ih
  | ins d _ ih => exact .ins d ih
  | del c _ ih => exact .del c ih

/-- scripts can be run one after the other -/
theorem DLScript.append {a b a' b' : List Nat} {n n' : Nat} (h : DLScript a b n) (h' : DLScript a' b' n') :
    DLScript (a ++ a') (b ++ b') (n + n') := by
  induction h with
  | nil => exact h'.cast rfl rfl (by omega)
  | keep c _ ih => exact .keep c ih
  | sub c d _ ih => exact (DLScript.sub c d ih).cast rfl rfl (by omega)
  | ins d _ ih => exact (DLScript.ins d ih).cast rfl rfl (by omega)
  | del c _ ih => exact (DLScript.del c ih).cast rfl rfl (by omega)
  | trans x y u v _ ih => exact (DLScript.trans x y u v ih).cast (by simp) (by simp) (by omega)

theorem DLScriptR.append {a b a' b' : List Nat} {n n' : Nat} (h : DLScriptR a b n) (h' : DLScriptR a' b' n') :
    DLScriptR (a ++ a') (b ++ b') (n + n') := by
  induction h' with
  | nil => exact h.cast (by simp) (by simp) rfl
  | keep a' b' n' c _ ih => exact (DLScriptR.keep _ _ _ c ih).cast (by simp) (by simp) rfl
  | sub a' b' n' c d _ ih => exact (DLScriptR.sub _ _ _ c d ih).cast (by simp) (by simp) (by omega)
  | ins a' b' n' d _ ih => exact (DLScriptR.ins _ _ _ d ih).cast rfl (by simp) (by omega)
  | del a' b' n' c _ ih => exact (DLScriptR.del _ _ _ c ih).cast (by simp) rfl (by omega)
  | trans a' b' n' x y u v _ ih => exact (DLScriptR.trans _ _ _ x y u v ih).cast (by simp) (by simp) (by omega)

theorem dlScript_iff_R (a b : List Nat) (n : Nat) : DLScript a b n ↔ DLScriptR a b n := by
  constructor
  · intro h
    induction h with
    | nil => exact .nil
    | keep c _ ih => exact ((DLScriptR.keep [] [] 0 c .nil).append ih).cast (by simp) (by simp) (by omega)
    | sub c d _ ih => exact ((DLScriptR.sub [] [] 0 c d .nil).append ih).cast (by simp) (by simp) (by omega)
    | ins d _ ih => exact ((DLScriptR.ins [] [] 0 d .nil).append ih).cast (by simp) (by simp) (by omega)
    | del c _ ih => exact ((DLScriptR.del [] [] 0 c .nil).append ih).cast (by simp) (by simp) (by omega)
    | trans x y u v _ ih =>
      exact ((DLScriptR.trans [] [] 0 x y u v .nil).append ih).cast (by simp) (by simp) (by omega)
  · intro h
    induction h with
    | nil => exact .nil
    | keep a b n c _ ih => exact (ih.append (DLScript.keep c .nil)).cast rfl rfl (by omega)
    | sub a b n c d _ ih => exact (ih.append (DLScript.sub c d .nil)).cast rfl rfl (by omega)
    | ins a b n d _ ih => exact (ih.append (DLScript.ins d .nil)).cast (by simp) rfl (by omega)
    | del a b n c _ ih => exact (ih.append (DLScript.del c .nil)).cast rfl (by simp) (by omega)
    | trans a b n x y u v _ ih =>
      exact (ih.append (DLScript.trans x y u v .nil)).cast (by simp) (by simp) (by omega)

/-! ### the recurrence `DLunit` -/

theorem DLunit_zero_zero (a b : List Nat) : DLunit a b 0 0 = 0 := by simp [DLunit]
theorem DLunit_succ_zero (a b : List Nat) (i : Nat) : DLunit a b (i + 1) 0 = DLunit a b i 0 + 1 := by rw [DLunit]
theorem DLunit_zero_succ (a b : List Nat) (j : Nat) : DLunit a b 0 (j + 1) = DLunit a b 0 j + 1 := by rw [DLunit]

theorem DLunit_zero_right (a b : List Nat) (i : Nat) : DLunit a b i 0 = i := by
  induction i with
  | zero => exact DLunit_zero_zero a b
  | succ i ih => rw [DLunit_succ_zero, ih]

theorem DLunit_zero_left (a b : List Nat) (j : Nat) : DLunit a b 0 j = j := by
  induction j with
  | zero => exact DLunit_zero_zero a b
  | succ j ih => rw [DLunit_zero_succ, ih]

/-- induction along the recursion of `DLunit` (`D_ind` on words without costs) -/
theorem DLunit_ind (a b : List Nat) (P : Nat → Nat → Prop)
    (h00 : P 0 0) (hi0 : ∀ i, P i 0 → P (i + 1) 0) (h0j : ∀ j, P 0 j → P 0 (j + 1))
    (hij : ∀ i j, P (i + 1) j → P i (j + 1) → P i j →
      (lastOcc a i (b.getD j 0) ≠ 0 → lastOcc b j (a.getD i 0) ≠ 0 →
        P (lastOcc a i (b.getD j 0) - 1) (lastOcc b j (a.getD i 0) - 1)) → P (i + 1) (j + 1)) :
    ∀ i j, P i j :=
  D_ind ⟨a, []⟩ ⟨b, []⟩ P h00 hi0 h0j hij

theorem DLunit_step_del (a b : List Nat) (i j : Nat) : DLunit a b (i + 1) j ≤ DLunit a b i j + 1 := by
  cases j with
  | zero => rw [DLunit_succ_zero]; omega
  | succ j => rw [DLunit_succ_succ]; split <;> omega

theorem DLunit_step_ins (a b : List Nat) (i j : Nat) : DLunit a b i (j + 1) ≤ DLunit a b i j + 1 := by
  cases i with
  | zero => rw [DLunit_zero_succ]; omega
  | succ i => rw [DLunit_succ_succ]; split <;> omega

theorem DLunit_step_sub (a b : List Nat) (i j : Nat) :
    DLunit a b (i + 1) (j + 1) ≤ DLunit a b i j + if a.getD i 0 == b.getD j 0 then 0 else 1 := by
  rw [DLunit_succ_succ]; split <;> omega

theorem DLunit_step_trans (a b : List Nat) (i j : Nat) (h1 : lastOcc a i (b.getD j 0) ≠ 0)
    (h2 : lastOcc b j (a.getD i 0) ≠ 0) :
    DLunit a b (i + 1) (j + 1) ≤ DLunit a b (lastOcc a i (b.getD j 0) - 1) (lastOcc b j (a.getD i 0) - 1) +
      ((i - lastOcc a i (b.getD j 0)) + (j - lastOcc b j (a.getD i 0)) + 1) := by
  rw [DLunit_succ_succ, if_neg (by omega)]; omega

/-- going back `i - p` characters in one word and `j - q` in the other changes the value by at most that much -/
theorem DLunit_lipschitz (a b : List Nat) (p q : Nat) : ∀ d e, DLunit a b (p + d) (q + e) ≤ DLunit a b p q + d + e := by
  intro d
  induction d with
  | zero =>
    intro e
    induction e with
    | zero => simp
    | succ e ih => have := DLunit_step_ins a b (p + 0) (q + e); simp only [Nat.add_zero] at *; rw [← Nat.add_assoc]; omega
  | succ d ih =>
    intro e
    have := DLunit_step_del a b (p + d) (q + e)
    have := ih e
    rw [← Nat.add_assoc]; omega

theorem DLunit_ext (a a' b b' : List Nat) : ∀ i j, (∀ k, k < i → a.getD k 0 = a'.getD k 0) →
    (∀ k, k < j → b.getD k 0 = b'.getD k 0) → DLunit a b i j = DLunit a' b' i j := by
  refine DLunit_ind a b (fun i j => (∀ k, k < i → a.getD k 0 = a'.getD k 0) →
    (∀ k, k < j → b.getD k 0 = b'.getD k 0) → DLunit a b i j = DLunit a' b' i j) ?_ ?_ ?_ ?_
  · intro _ _; simp [DLunit_zero_zero]
  · intro i _ _ _; simp [DLunit_zero_right]
  · intro j _ _ _; simp [DLunit_zero_left]
  · intro i j h1 h2 h3 h4 ha hb
    have ha' : ∀ k, k < i → a.getD k 0 = a'.getD k 0 := fun k hk => ha k (by omega)
    have hb' : ∀ k, k < j → b.getD k 0 = b'.getD k 0 := fun k hk => hb k (by omega)
    have el1 : lastOcc a i (b.getD j 0) = lastOcc a' i (b'.getD j 0) := by
      rw [hb j (by omega)]; exact lastOcc_ext _ _ _ _ ha'
    have el2 : lastOcc b j (a.getD i 0) = lastOcc b' j (a'.getD i 0) := by
      rw [ha i (by omega)]; exact lastOcc_ext _ _ _ _ hb'
    rw [DLunit_succ_succ, DLunit_succ_succ, ← el1, ← el2, ← h1 ha hb', ← h2 ha' hb, ← h3 ha' hb',
      ← ha i (by omega), ← hb j (by omega)]
    by_cases h : lastOcc a i (b.getD j 0) = 0 ∨ lastOcc b j (a.getD i 0) = 0
    · rw [if_pos h, if_pos h]
    · rw [if_neg h, if_neg h]
      have hl1 := lastOcc_le a i (b.getD j 0); have hl2 := lastOcc_le b j (a.getD i 0)
      rw [← h4 (fun e => h (Or.inl e)) (fun e => h (Or.inr e)) (fun k hk => ha k (by omega))
        (fun k hk => hb k (by omega))]

/-- an occurrence at position `k < n` puts the last occurrence at `k + 1` or later -/
theorem lastOcc_ge (l : List Nat) (n c k : Nat) (hk : k < n) (hc : l.getD k 0 = c) : k + 1 ≤ lastOcc l n c := by
  induction n with
  | zero => omega
  | succ n ih =>
    unfold lastOcc
    split
    · omega
    · rename_i hne
      have : k ≠ n := fun e => hne (e ▸ hc)
      have := ih (by omega)
      omega

theorem getD_append_right_nat (a t : List Nat) (k : Nat) : (a ++ t).getD (a.length + k) 0 = t.getD k 0 := by
  simp [List.getD, List.getElem?_append_right]

theorem getD_append_left_nat (a t : List Nat) (k : Nat) (h : k < a.length) : (a ++ t).getD k 0 = a.getD k 0 := by
  simp [List.getD, List.getElem?_append_left h]

/-- soundness on end-built scripts -/
theorem DLScriptR.sound {a b : List Nat} {n : Nat} (h : DLScriptR a b n) : DLunit a b a.length b.length ≤ n := by
  induction h with
  | nil => simp [DLunit_zero_zero]
  | keep a b n c _ ih =>
    have h1 := DLunit_step_sub (a ++ [c]) (b ++ [c]) a.length b.length
    rw [getD_snoc_last, getD_snoc_last] at h1
    have h2 : DLunit (a ++ [c]) (b ++ [c]) a.length b.length = DLunit a b a.length b.length :=
      DLunit_ext _ _ _ _ _ _ (fun k hk => getD_snoc_lt a c k hk) (fun k hk => getD_snoc_lt b c k hk)
    simp only [List.length_append, List.length_singleton]
    simp only [beq_self_eq_true, if_true] at h1
    omega
  | sub a b n c d _ ih =>
    have h1 := DLunit_step_sub (a ++ [c]) (b ++ [d]) a.length b.length
    have h2 : DLunit (a ++ [c]) (b ++ [d]) a.length b.length = DLunit a b a.length b.length :=
      DLunit_ext _ _ _ _ _ _ (fun k hk => getD_snoc_lt a c k hk) (fun k hk => getD_snoc_lt b d k hk)
    simp only [List.length_append, List.length_singleton]
    have h3 : (if (a ++ [c]).getD a.length 0 == (b ++ [d]).getD b.length 0 then 0 else 1) ≤ 1 := by split <;> omega
    omega
  | ins a b n d _ ih =>
    have h1 := DLunit_step_ins a (b ++ [d]) a.length b.length
    have h2 : DLunit a (b ++ [d]) a.length b.length = DLunit a b a.length b.length :=
      DLunit_ext _ _ _ _ _ _ (fun _ _ => rfl) (fun k hk => getD_snoc_lt b d k hk)
    simp only [List.length_append, List.length_singleton]
    omega
  | del a b n c _ ih =>
    have h1 := DLunit_step_del (a ++ [c]) b a.length b.length
    have h2 : DLunit (a ++ [c]) b a.length b.length = DLunit a b a.length b.length :=
      DLunit_ext _ _ _ _ _ _ (fun k hk => getD_snoc_lt a c k hk) (fun _ _ => rfl)
    simp only [List.length_append, List.length_singleton]
    omega
  | trans a b n x y u v _ ih =>
    -- positions of the two transposed characters at the end of the words
    have eA : (a ++ y :: u ++ [x]).length = (a.length + u.length + 1) + 1 := by simp; omega
    have eB : (b ++ x :: v ++ [y]).length = (b.length + v.length + 1) + 1 := by simp; omega
    have lA : (a ++ y :: u).length = a.length + u.length + 1 := by simp; omega
    have lB : (b ++ x :: v).length = b.length + v.length + 1 := by simp; omega
    have gAx : (a ++ y :: u ++ [x]).getD (a.length + u.length + 1) 0 = x := by
      rw [← lA]; exact getD_snoc_last _ _
    have gBy : (b ++ x :: v ++ [y]).getD (b.length + v.length + 1) 0 = y := by
      rw [← lB]; exact getD_snoc_last _ _
    have gAy : (a ++ y :: u ++ [x]).getD a.length 0 = y := by
      rw [getD_append_left_nat (a ++ y :: u) [x] a.length (by omega)]
      simp
    have gBx : (b ++ x :: v ++ [y]).getD b.length 0 = x := by
      rw [getD_append_left_nat (b ++ x :: v) [y] b.length (by omega)]
      simp
    have l1ge := lastOcc_ge (a ++ y :: u ++ [x]) (a.length + u.length + 1) y a.length (by omega) gAy
    have l2ge := lastOcc_ge (b ++ x :: v ++ [y]) (b.length + v.length + 1) x b.length (by omega) gBx
    have l1le := lastOcc_le (a ++ y :: u ++ [x]) (a.length + u.length + 1) y
    have l2le := lastOcc_le (b ++ x :: v ++ [y]) (b.length + v.length + 1) x
    have hstep := DLunit_step_trans (a ++ y :: u ++ [x]) (b ++ x :: v ++ [y]) (a.length + u.length + 1)
      (b.length + v.length + 1) (by rw [gBy]; omega) (by rw [gAx]; omega)
    rw [gAx, gBy] at hstep
    generalize lastOcc (a ++ y :: u ++ [x]) (a.length + u.length + 1) y = l1 at *
    generalize lastOcc (b ++ x :: v ++ [y]) (b.length + v.length + 1) x = l2 at *
    have hlip := DLunit_lipschitz (a ++ y :: u ++ [x]) (b ++ x :: v ++ [y]) a.length b.length
      (l1 - 1 - a.length) (l2 - 1 - b.length)
    rw [show a.length + (l1 - 1 - a.length) = l1 - 1 by omega,
      show b.length + (l2 - 1 - b.length) = l2 - 1 by omega] at hlip
    have hext : DLunit (a ++ y :: u ++ [x]) (b ++ x :: v ++ [y]) a.length b.length = DLunit a b a.length b.length :=
      DLunit_ext _ _ _ _ _ _
        (fun k hk => by
          rw [getD_append_left_nat (a ++ y :: u) [x] k (by omega), getD_append_left_nat a (y :: u) k hk])
        (fun k hk => by
          rw [getD_append_left_nat (b ++ x :: v) [y] k (by omega), getD_append_left_nat b (x :: v) k hk])
    rw [eA, eB]
    omega

theorem take_split_at (l : List Nat) (i p : Nat) (hp : p < i) (hi : i < l.length) :
    l.take (i + 1) = l.take p ++ l.getD p 0 :: (l.take i).drop (p + 1) ++ [l.getD i 0] := by
  rw [take_succ_getD l i hi]
  have h1 : l.take i = (l.take i).take p ++ (l.take i).drop p := (List.take_append_drop p _).symm
  have h2 : (l.take i).take p = l.take p := by rw [List.take_take]; congr 1; omega
  have hlen : p < (l.take i).length := by rw [List.length_take]; omega
  have h3 : (l.take i).drop p = (l.take i)[p] :: (l.take i).drop (p + 1) := List.drop_eq_getElem_cons hlen
  have h4 : (l.take i)[p] = l.getD p 0 := by
    rw [List.getElem_take]; simp [List.getD, List.getElem?_eq_getElem (show p < l.length by omega)]
  conv => lhs; rw [h1, h2, h3, h4]

/-- completeness on end-built scripts, for all prefixes -/
theorem DLScriptR.complete (a b : List Nat) : ∀ i j, i ≤ a.length → j ≤ b.length →
    DLScriptR (a.take i) (b.take j) (DLunit a b i j) := by
  refine DLunit_ind a b (fun i j => i ≤ a.length → j ≤ b.length →
    DLScriptR (a.take i) (b.take j) (DLunit a b i j)) ?_ ?_ ?_ ?_
  · intro _ _; simpa [DLunit_zero_zero] using DLScriptR.nil
  · intro i ih hi hj
    rw [DLunit_succ_zero, take_succ_getD a i (by omega)]
    exact .del _ _ _ _ (ih (by omega) hj)
  · intro j ih hi hj
    rw [DLunit_zero_succ, take_succ_getD b j (by omega)]
    exact .ins _ _ _ _ (ih hi (by omega))
  · intro i j hA hB hC hT hi hj
    have hA := hA hi (by omega)
    have hB := hB (by omega) hj
    have hC := hC (by omega) (by omega)
    have hcases : ∀ x y z : Nat,
        min (min x y) z = x ∨ min (min x y) z = y ∨ min (min x y) z = z := by intros; omega
    -- the three Levenshtein moves
    have base : ∀ val, val = min (min (DLunit a b (i + 1) j + 1) (DLunit a b i (j + 1) + 1))
        (DLunit a b i j + if a.getD i 0 == b.getD j 0 then 0 else 1) →
        DLScriptR (a.take (i + 1)) (b.take (j + 1)) val := by
      intro val hval
      rcases hcases (DLunit a b (i + 1) j + 1) (DLunit a b i (j + 1) + 1)
        (DLunit a b i j + if a.getD i 0 == b.getD j 0 then 0 else 1) with e | e | e <;> rw [hval, e]
      · rw [take_succ_getD b j (by omega)]
        exact .ins _ _ _ _ hA
      · rw [take_succ_getD a i (by omega)]
        exact .del _ _ _ _ hB
      · rw [take_succ_getD a i (by omega), take_succ_getD b j (by omega)]
        by_cases he : a.getD i 0 = b.getD j 0
        · simp only [he, beq_self_eq_true, if_true, Nat.add_zero]
          exact .keep _ _ _ _ hC
        · have : (a.getD i 0 == b.getD j 0) = false := by simpa using he
          simp only [this, Bool.false_eq_true, if_false]
          exact .sub _ _ _ _ _ hC
    rw [DLunit_succ_succ]
    by_cases h : lastOcc a i (b.getD j 0) = 0 ∨ lastOcc b j (a.getD i 0) = 0
    · rw [if_pos h]; exact base _ rfl
    · rw [if_neg h]
      have h1 : lastOcc a i (b.getD j 0) ≠ 0 := fun e => h (Or.inl e)
      have h2 : lastOcc b j (a.getD i 0) ≠ 0 := fun e => h (Or.inr e)
      have hl1 := lastOcc_le a i (b.getD j 0); have hl2 := lastOcc_le b j (a.getD i 0)
      have hT := hT h1 h2 (by omega) (by omega)
      have s1 := lastOcc_spec a i (b.getD j 0) h1
      have s2 := lastOcc_spec b j (a.getD i 0) h2
      generalize lastOcc a i (b.getD j 0) = l1 at *
      generalize lastOcc b j (a.getD i 0) = l2 at *
      rcases Nat.le_total (min (min (DLunit a b (i + 1) j + 1) (DLunit a b i (j + 1) + 1))
          (DLunit a b i j + if a.getD i 0 == b.getD j 0 then 0 else 1))
          (DLunit a b (l1 - 1) (l2 - 1) + ((i - l1) + (j - l2) + 1)) with hle | hle
      · rw [Nat.min_eq_left hle]; exact base _ rfl
      · rw [Nat.min_eq_right hle]
        have ea := take_split_at a i (l1 - 1) (by omega) (by omega)
        have eb := take_split_at b j (l2 - 1) (by omega) (by omega)
        rw [s1, show l1 - 1 + 1 = l1 by omega] at ea
        rw [s2, show l2 - 1 + 1 = l2 by omega] at eb
        refine (DLScriptR.trans _ _ _ (a.getD i 0) (b.getD j 0) ((a.take i).drop l1) ((b.take j).drop l2) hT).cast
          ea.symm eb.symm ?_
        simp only [List.length_drop, List.length_take]
        omega

/-- **Soundness**: every script with transpositions turning `a` into `b` costs at least `DLunit a b |a| |b|`. -/
theorem dlunit_sound {a b : List Nat} {n : Nat} (h : DLScript a b n) : DLunit a b a.length b.length ≤ n :=
  ((dlScript_iff_R a b n).mp h).sound

/-- **Completeness**: some script with transpositions turning `a` into `b` costs exactly `DLunit a b |a| |b|`. -/
theorem dlunit_complete (a b : List Nat) : DLScript a b (DLunit a b a.length b.length) := by
  have := DLScriptR.complete a b a.length b.length (Nat.le_refl _) (Nat.le_refl _)
  rw [List.take_length, List.take_length] at this
  exact (dlScript_iff_R a b _).mpr this

/-- `DLunit a b |a| |b|` is the least cost of a script with transpositions turning `a` into `b`. -/
theorem dlunit_is_min (a b : List Nat) :
    DLScript a b (DLunit a b a.length b.length) ∧ ∀ n, DLScript a b n → DLunit a b a.length b.length ≤ n :=
  ⟨dlunit_complete a b, fun _ h => dlunit_sound h⟩

-- "ca" → "abc": transpose `c`,`a` across the inserted `b` (cost 2); no cheaper script exists
example : DLScript [99, 97] [97, 98, 99] 2 := DLScript.trans 97 99 [] [98] DLScript.nil
example : ∀ n, DLScript [99, 97] [97, 98, 99] n → 2 ≤ n := fun n h => by
  have := dlunit_sound h
  have e : DLunit [99, 97] [97, 98, 99] 2 3 = 2 := by simp [DLunit, lastOcc]
  simpa [e] using this

end DL
end Lucid
