/-
  LucidProofs.Lemmas.Candidates — the store-level hypotheses of the findability theorems (`CandOK`,
  `Lemmas/SearchGlue.lean`) from the index invariant: in a store whose index is the trigram index of its
  records (`StoreIndexInv`, true of every reachable store) and which holds no more records than its limit, a record
  that shares at least one gram with a non-empty query is among the candidates, and the candidate list is
  duplicate-free and in range. Plus the gram fact: a query word that starts like a record word shares the gram
  `(c0, NUL, NUL)` with it.
-/
import LucidProofs.C18
import LucidProofs.Lemmas.SearchGlue
import LucidProofs.Lemmas.Store

namespace Lucid

/-! ### `StoreIndexInv` along operation sequences -/

theorem StoreIndexInv.apply {st : Store} (h : StoreIndexInv st) (S : Sorter) (K : Consts) (order : List ScoreType)
    (op : StoreOp) : StoreIndexInv (st.apply S K order op) := by
  cases op with
  | add id title rating => exact h.add id title rating
  | clear => exact StoreIndexInv.clear st
  | setLimit n => exact h.setLimit n
  | setDividers l r => exact h.setDividers l r
  | search q => exact h.searchM S K order q

theorem StoreIndexInv.run {st : Store} (h : StoreIndexInv st) (S : Sorter) (K : Consts) (order : List ScoreType)
    (ops : List StoreOp) : StoreIndexInv (st.run S K order ops) := by
  induction ops generalizing st with
  | nil => exact h
  | cons op ops ih => exact ih (h.apply S K order op)

theorem StoreIndexInv_reachable (S : Sorter) (K : Consts) (order : List ScoreType) (ops : List StoreOp) :
    StoreIndexInv ((Store.new K).run S K order ops) := (StoreIndexInv.new K).run S K order ops

/-! ### the titles of the records of a store built by a sequence of operations were all added by some `add` -/

theorem apply_records_sub (S : Sorter) (K : Consts) (order : List ScoreType) (st : Store) (op : StoreOp)
    (P : Text → Prop) (hst : ∀ r ∈ st.records, P r.title)
    (hop : ∀ id t rating, op = StoreOp.add id t rating → P t) :
    ∀ r ∈ (st.apply S K order op).records, P r.title := by
  cases op with
  | add id title rating =>
    intro r hr
    simp only [Store.apply, Store.add, List.mem_append, List.mem_singleton] at hr
    rcases hr with hr | hr
    · exact hst r hr
    · subst hr; exact hop id title rating rfl
  | clear => intro r hr; simp [Store.apply, Store.clear] at hr
  | setLimit n => exact hst
  | setDividers l r => exact hst
  | search q =>
    intro r hr
    have : (st.searchM S K order q).2.records = st.records := (searchM_snd_fields S K order st q).2.1
    rw [Store.apply, this] at hr
    exact hst r hr

/-- every title held by a reachable store was supplied by one of the `add` operations -/
theorem run_records_sub (S : Sorter) (K : Consts) (order : List ScoreType) (P : Text → Prop) (ops : List StoreOp)
    (hops : ∀ id t rating, StoreOp.add id t rating ∈ ops → P t) :
    ∀ (st : Store), (∀ r ∈ st.records, P r.title) → ∀ r ∈ (st.run S K order ops).records, P r.title := by
  induction ops with
  | nil => intro st h; exact h
  | cons op ops ih =>
    intro st hst
    refine ih (fun id t rating hm => hops id t rating (List.mem_cons_of_mem _ hm)) _ ?_
    exact apply_records_sub S K order st op P hst (fun id t rating e => hops id t rating (by rw [e]; simp))

/-! ### `CandOK` from the index invariant -/

theorem length_sharingPositions_le (titles : List Text) (q : Text) :
    (sharingPositions titles q).length ≤ titles.length := by
  unfold sharingPositions
  have := List.length_filter_le (fun ix => decide (0 < sharedCount titles q ix)) (List.range titles.length)
  simpa using this

/-- In a store whose index is the trigram index of its records and which holds no more records than its limit,
    the record at position `ix` is a candidate for every non-empty query that shares a gram with its title;
    candidates are duplicate-free and in range. -/
theorem candOK_of_inv (S : Sorter) (hS : SorterOK S) (K : Consts) (hK : 1 ≤ K.sortFactor) (hP : 1 ≤ K.prepFactor)
    (st : Store) (hI : StoreIndexInv st) (hlim : st.records.length ≤ st.limit)
    (q : Text) (hq : q.words ≠ []) (ix : Nat) (r : Record) (hr : st.records[ix]? = some r)
    (hg : ∃ g ∈ collectGrams q, g ∈ collectGrams r.title) :
    CandOK S K st q ix r := by
  have hII : IndexInv st.index (st.records.map (·.title)) := hI.2
  have hqpos : q.words.length > 0 := List.length_pos_iff.mpr hq
  have hcands : (st.candidatesM S K q).1 = st.index.prepare S K q st.limit := by
    unfold Store.candidatesM; simp [hqpos]
  have hlenT : (st.records.map (·.title)).length = st.records.length := List.length_map _
  obtain ⟨hix, hget⟩ := List.getElem?_eq_some_iff.mp hr
  refine ⟨hr, ?_, ?_, ?_, hlim⟩
  · rw [hcands]
    refine C18_all_listed_below_cap S hS K hK st.index _ hII q st.limit ?_ ix (by rw [hlenT]; exact hix) ?_
    · have h1 := length_sharingPositions_le (st.records.map (·.title)) q
      have h2 : st.limit * 1 ≤ st.limit * K.prepFactor := Nat.mul_le_mul_left _ hP
      omega
    · rw [sharedCount_pos_iff]
      obtain ⟨g, hg1, hg2⟩ := hg
      refine ⟨g, hg1, ?_⟩
      rw [recGrams_eq (by rw [hlenT]; exact hix)]
      simpa [hget] using hg2
  · rw [hcands]; exact C18_nodup S hS K hK st.index _ hII q st.limit
  · rw [hcands]
    intro j hj
    have := (C18_in_range_and_shares S hS K hK st.index _ hII q st.limit j hj).1
    rwa [hlenT] at this

/-! ### the shared gram -/

theorem head_mem_trigrams (c : Nat) (l : List Nat) : (c, 0, 0) ∈ trigrams (c :: l) := by
  cases l with
  | nil => simp [trigrams]
  | cons b t => simp [trigrams]

/-- two words whose character lists start with the same character share the gram `(c0, NUL, NUL)` -/
theorem shares_gram_of_head {rt qt : Text} {w v : WordShape} (hw : w ∈ rt.words) (hv : v ∈ qt.words)
    (c : Nat) (l l' : List Nat) (hq : wchars qt v = c :: l) (hr : wchars rt w = c :: l') :
    ∃ g ∈ collectGrams qt, g ∈ collectGrams rt :=
  ⟨(c, 0, 0),
   mem_collectGrams.mpr ⟨v, hv, by show _ ∈ trigrams (wchars qt v); rw [hq]; exact head_mem_trigrams c l⟩,
   mem_collectGrams.mpr ⟨w, hw, by show _ ∈ trigrams (wchars rt w); rw [hr]; exact head_mem_trigrams c l'⟩⟩

/-- a non-empty query word whose characters are a prefix of a record word's characters shares a gram with it -/
theorem shares_gram_of_prefix {rt qt : Text} {w v : WordShape} (hw : w ∈ rt.words) (hv : v ∈ qt.words)
    (n : Nat) (hne : wchars qt v ≠ []) (hpre : wchars qt v = (wchars rt w).take n) :
    ∃ g ∈ collectGrams qt, g ∈ collectGrams rt := by
  cases hq : wchars qt v with
  | nil => exact absurd hq hne
  | cons c l =>
    cases hr : wchars rt w with
    | nil => rw [hq, hr] at hpre; simp at hpre
    | cons c' l' =>
      rw [hq, hr] at hpre
      cases n with
      | zero => simp at hpre
      | succ n =>
        simp only [List.take_succ_cons, List.cons.injEq] at hpre
        obtain ⟨rfl, _⟩ := hpre
        exact shares_gram_of_head hw hv c l l' hq hr

/-- equal character lists: the special case `n = length` -/
theorem shares_gram_of_equal {rt qt : Text} {w v : WordShape} (hw : w ∈ rt.words) (hv : v ∈ qt.words)
    (hne : wchars qt v ≠ []) (heq : wchars qt v = wchars rt w) :
    ∃ g ∈ collectGrams qt, g ∈ collectGrams rt :=
  shares_gram_of_prefix hw hv (wchars rt w).length hne (by rw [List.take_length]; exact heq)

end Lucid
