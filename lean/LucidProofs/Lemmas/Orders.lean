/-
  LucidProofs.Lemmas.Orders — the three comparators handed to the sorting oracle are total preorders.
-/
import LucidModel.Search
import LucidProofs.Lemmas.LimitSort

namespace Lucid

theorem scoresLe_total : ∀ a b : List Int, scoresLe a b = true ∨ scoresLe b a = true
  | [], _ => by simp [scoresLe]
  | _ :: _, [] => by simp [scoresLe]
  | a :: as, b :: bs => by
    by_cases h : a = b
    · subst h; simpa [scoresLe] using scoresLe_total as bs
    · have h' : ¬ b = a := fun e => h e.symm
      simp only [scoresLe, h, h', if_false, decide_eq_true_eq]
      omega

theorem scoresLe_trans : ∀ a b c : List Int, scoresLe a b = true → scoresLe b c = true → scoresLe a c = true
  | [], _, _ => by simp [scoresLe]
  | _ :: _, [], _ => by simp [scoresLe]
  | _ :: _, _ :: _, [] => by simp [scoresLe]
  | a :: as, b :: bs, c :: cs => by
    intro h1 h2
    by_cases hab : a = b <;> by_cases hbc : b = c
    · subst hab; subst hbc
      simp only [scoresLe, if_true] at h1 h2 ⊢
      exact scoresLe_trans as bs cs h1 h2
    · subst hab
      simp only [scoresLe, if_true, hbc, if_false] at h1 h2 ⊢
      exact h2
    · subst hbc
      simp only [scoresLe, if_true, hab, if_false] at h1 h2 ⊢
      exact h1
    · simp only [scoresLe, hab, hbc, if_false, decide_eq_true_eq] at h1 h2
      have hac : ¬ a = c := by omega
      simp only [scoresLe, hac, if_false, decide_eq_true_eq]
      omega

theorem hitLe_preorder : Preorder' hitLe :=
  ⟨fun a b c => scoresLe_trans a.scores b.scores c.scores, fun a b => scoresLe_total a.scores b.scores⟩

theorem countLe_preorder : Preorder' countLe :=
  ⟨fun a b c h1 h2 => by simp only [countLe, decide_eq_true_eq] at *; omega,
   fun a b => by simp only [countLe, decide_eq_true_eq]; omega⟩

theorem charsLe_total : ∀ a b : List Nat, charsLe a b = true ∨ charsLe b a = true
  | [], _ => by simp [charsLe]
  | _ :: _, [] => by simp [charsLe]
  | a :: as, b :: bs => by
    by_cases h : a = b
    · subst h; simpa [charsLe] using charsLe_total as bs
    · have h' : ¬ b = a := fun e => h e.symm
      simp only [charsLe, h, h', if_false, decide_eq_true_eq]
      omega

theorem charsLe_trans : ∀ a b c : List Nat, charsLe a b = true → charsLe b c = true → charsLe a c = true
  | [], _, _ => by simp [charsLe]
  | _ :: _, [], _ => by simp [charsLe]
  | _ :: _, _ :: _, [] => by simp [charsLe]
  | a :: as, b :: bs, c :: cs => by
    intro h1 h2
    by_cases hab : a = b <;> by_cases hbc : b = c
    · subst hab; subst hbc
      simp only [charsLe, if_true] at h1 h2 ⊢
      exact charsLe_trans as bs cs h1 h2
    · subst hab
      simp only [charsLe, if_true, hbc, if_false] at h1 h2 ⊢
      exact h2
    · subst hbc
      simp only [charsLe, if_true, hab, if_false] at h1 h2 ⊢
      exact h1
    · simp only [charsLe, hab, hbc, if_false, decide_eq_true_eq] at h1 h2
      have hac : ¬ a = c := by omega
      simp only [charsLe, hac, if_false, decide_eq_true_eq]
      omega

theorem topLe_preorder : Preorder' topLe := by
  refine ⟨fun a b c h1 h2 => ?_, fun a b => ?_⟩
  · unfold topLe at *
    by_cases hab : a.rating = b.rating <;> by_cases hbc : b.rating = c.rating
    · have hac : a.rating = c.rating := by omega
      simp only [hab, hbc, hac, if_true] at h1 h2 ⊢
      exact charsLe_trans _ _ _ h1 h2
    · have hac : ¬ a.rating = c.rating := by omega
      simp only [hab, hbc, hac, if_true, if_false, decide_eq_true_eq] at h1 h2 ⊢
      omega
    · have hac : ¬ a.rating = c.rating := by omega
      simp only [hab, hbc, hac, if_true, if_false, decide_eq_true_eq] at h1 h2 ⊢
      omega
    · simp only [hab, hbc, if_false, decide_eq_true_eq] at h1 h2
      have hac : ¬ a.rating = c.rating := by omega
      simp only [hac, if_false, decide_eq_true_eq]
      omega
  · unfold topLe
    by_cases hab : a.rating = b.rating
    · have hba : b.rating = a.rating := hab.symm
      simp only [hab, if_true]
      exact charsLe_total _ _
    · have hba : ¬ b.rating = a.rating := fun e => hab e.symm
      simp only [hab, hba, if_false, decide_eq_true_eq]
      omega

end Lucid
